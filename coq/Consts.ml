open BinNums

(** val archive_newline : coq_N **)

let archive_newline =
  Npos (Coq_xO (Coq_xI (Coq_xO Coq_xH)))

(** val archive_split_byte : coq_N **)

let archive_split_byte =
  Npos (Coq_xO (Coq_xI (Coq_xO Coq_xH)))

(** val archive_write_extra : coq_N **)

let archive_write_extra =
  Npos Coq_xH

(** val archive_header_extra : coq_N **)

let archive_header_extra =
  Npos Coq_xH

(** val archive_min_protocol : coq_N **)

let archive_min_protocol =
  Npos (Coq_xO (Coq_xO Coq_xH))

(** val archive_flag_gt : coq_N **)

let archive_flag_gt =
  N0

(** val archive_send_gt : coq_N **)

let archive_send_gt =
  N0

(** val archive_v3_protocol : coq_N **)

let archive_v3_protocol =
  Npos (Coq_xI Coq_xH)

(** val archive_writer_needs_dir : coq_N **)

let archive_writer_needs_dir =
  Npos Coq_xH

(** val archive_reader_file_nil : bool **)

let archive_reader_file_nil =
  true

(** val archive_probe_guard_fires : bool **)

let archive_probe_guard_fires =
  true

(** val archive_probe_nofile_compress : bool **)

let archive_probe_nofile_compress =
  true

(** val buffer_line_newline : coq_N **)

let buffer_line_newline =
  Npos (Coq_xO (Coq_xI (Coq_xO Coq_xH)))

(** val buffer_line_interrupt : coq_N **)

let buffer_line_interrupt =
  Npos (Coq_xI Coq_xH)

(** val buffer_line_cr : coq_N **)

let buffer_line_cr =
  Npos (Coq_xI (Coq_xO (Coq_xI Coq_xH)))

(** val buffer_queue_capacity : coq_N **)

let buffer_queue_capacity =
  Npos (Coq_xO (Coq_xO (Coq_xO (Coq_xO (Coq_xI (Coq_xO (Coq_xO (Coq_xO
    (Coq_xI (Coq_xI (Coq_xI (Coq_xO (Coq_xO Coq_xH)))))))))))))

(** val buffer_add_blocks : bool **)

let buffer_add_blocks =
  true

(** val det_min_len : coq_N **)

let det_min_len =
  Npos (Coq_xO (Coq_xO (Coq_xO (Coq_xI Coq_xH))))

(** val det_marker : coq_N list **)

let det_marker =
  (Npos (Coq_xO (Coq_xI (Coq_xO (Coq_xI (Coq_xI Coq_xH)))))) :: ((Npos
    (Coq_xO (Coq_xI (Coq_xO (Coq_xI (Coq_xI Coq_xH)))))) :: ((Npos (Coq_xO
    (Coq_xO (Coq_xI (Coq_xO (Coq_xI (Coq_xO Coq_xH))))))) :: ((Npos (Coq_xO
    (Coq_xI (Coq_xO (Coq_xO (Coq_xI (Coq_xO Coq_xH))))))) :: ((Npos (Coq_xO
    (Coq_xI (Coq_xO (Coq_xI (Coq_xI (Coq_xO Coq_xH))))))) :: ((Npos (Coq_xI
    (Coq_xI (Coq_xO (Coq_xO (Coq_xI (Coq_xO Coq_xH))))))) :: ((Npos (Coq_xO
    (Coq_xI (Coq_xO (Coq_xI (Coq_xI (Coq_xO Coq_xH))))))) :: ((Npos (Coq_xO
    (Coq_xI (Coq_xO (Coq_xI (Coq_xI Coq_xH)))))) :: ((Npos (Coq_xO (Coq_xO
    (Coq_xI (Coq_xO (Coq_xI (Coq_xO Coq_xH))))))) :: ((Npos (Coq_xO (Coq_xI
    (Coq_xO (Coq_xO (Coq_xI (Coq_xO Coq_xH))))))) :: ((Npos (Coq_xI (Coq_xO
    (Coq_xO (Coq_xO (Coq_xO (Coq_xO Coq_xH))))))) :: ((Npos (Coq_xO (Coq_xI
    (Coq_xI (Coq_xI (Coq_xO (Coq_xO Coq_xH))))))) :: ((Npos (Coq_xI (Coq_xI
    (Coq_xO (Coq_xO (Coq_xI (Coq_xO Coq_xH))))))) :: ((Npos (Coq_xO (Coq_xI
    (Coq_xI (Coq_xO (Coq_xO (Coq_xO Coq_xH))))))) :: ((Npos (Coq_xI (Coq_xO
    (Coq_xI (Coq_xO (Coq_xO (Coq_xO Coq_xH))))))) :: ((Npos (Coq_xO (Coq_xI
    (Coq_xO (Coq_xO (Coq_xI (Coq_xO Coq_xH))))))) :: ((Npos (Coq_xO (Coq_xI
    (Coq_xO (Coq_xI (Coq_xI Coq_xH)))))) :: []))))))))))))))))

(** val det_finished_offset : coq_N **)

let det_finished_offset =
  Npos (Coq_xO (Coq_xO (Coq_xO (Coq_xI (Coq_xO Coq_xH)))))

(** val det_finished_words : coq_N list list **)

let det_finished_words =
  ((Npos (Coq_xI (Coq_xI (Coq_xO (Coq_xO (Coq_xO Coq_xH)))))) :: ((Npos
    (Coq_xI (Coq_xI (Coq_xO (Coq_xO (Coq_xO (Coq_xO Coq_xH))))))) :: ((Npos
    (Coq_xO (Coq_xI (Coq_xI (Coq_xO (Coq_xO (Coq_xO Coq_xH))))))) :: ((Npos
    (Coq_xI (Coq_xI (Coq_xI (Coq_xO (Coq_xO (Coq_xO Coq_xH))))))) :: ((Npos
    (Coq_xO (Coq_xI (Coq_xO (Coq_xI (Coq_xI
    Coq_xH)))))) :: []))))) :: (((Npos (Coq_xI (Coq_xI (Coq_xO (Coq_xO
    (Coq_xI (Coq_xO Coq_xH))))))) :: ((Npos (Coq_xI (Coq_xO (Coq_xO (Coq_xO
    (Coq_xO (Coq_xI Coq_xH))))))) :: ((Npos (Coq_xO (Coq_xI (Coq_xI (Coq_xO
    (Coq_xI (Coq_xI Coq_xH))))))) :: ((Npos (Coq_xI (Coq_xO (Coq_xI (Coq_xO
    (Coq_xO (Coq_xI Coq_xH))))))) :: ((Npos (Coq_xO (Coq_xO (Coq_xI (Coq_xO
    (Coq_xO (Coq_xI Coq_xH))))))) :: []))))) :: (((Npos (Coq_xI (Coq_xI
    (Coq_xO (Coq_xO (Coq_xO (Coq_xO Coq_xH))))))) :: ((Npos (Coq_xI (Coq_xO
    (Coq_xO (Coq_xO (Coq_xO (Coq_xI Coq_xH))))))) :: ((Npos (Coq_xO (Coq_xI
    (Coq_xI (Coq_xI (Coq_xO (Coq_xI Coq_xH))))))) :: ((Npos (Coq_xI (Coq_xI
    (Coq_xO (Coq_xO (Coq_xO (Coq_xI Coq_xH))))))) :: ((Npos (Coq_xI (Coq_xO
    (Coq_xI (Coq_xO (Coq_xO (Coq_xI Coq_xH))))))) :: ((Npos (Coq_xO (Coq_xO
    (Coq_xI (Coq_xI (Coq_xO (Coq_xI Coq_xH))))))) :: ((Npos (Coq_xO (Coq_xO
    (Coq_xI (Coq_xI (Coq_xO (Coq_xI Coq_xH))))))) :: ((Npos (Coq_xI (Coq_xO
    (Coq_xI (Coq_xO (Coq_xO (Coq_xI Coq_xH))))))) :: ((Npos (Coq_xO (Coq_xO
    (Coq_xI (Coq_xO (Coq_xO (Coq_xI Coq_xH))))))) :: []))))))))) :: (((Npos
    (Coq_xI (Coq_xI (Coq_xO (Coq_xO (Coq_xI (Coq_xO Coq_xH))))))) :: ((Npos
    (Coq_xO (Coq_xO (Coq_xI (Coq_xO (Coq_xI (Coq_xI Coq_xH))))))) :: ((Npos
    (Coq_xI (Coq_xI (Coq_xI (Coq_xI (Coq_xO (Coq_xI Coq_xH))))))) :: ((Npos
    (Coq_xO (Coq_xO (Coq_xO (Coq_xO (Coq_xI (Coq_xI Coq_xH))))))) :: ((Npos
    (Coq_xO (Coq_xO (Coq_xO (Coq_xO (Coq_xI (Coq_xI Coq_xH))))))) :: ((Npos
    (Coq_xI (Coq_xO (Coq_xI (Coq_xO (Coq_xO (Coq_xI Coq_xH))))))) :: ((Npos
    (Coq_xO (Coq_xO (Coq_xI (Coq_xO (Coq_xO (Coq_xI
    Coq_xH))))))) :: []))))))) :: (((Npos (Coq_xI (Coq_xO (Coq_xO (Coq_xI
    (Coq_xO (Coq_xO Coq_xH))))))) :: ((Npos (Coq_xO (Coq_xI (Coq_xI (Coq_xI
    (Coq_xO (Coq_xI Coq_xH))))))) :: ((Npos (Coq_xO (Coq_xO (Coq_xI (Coq_xO
    (Coq_xI (Coq_xI Coq_xH))))))) :: ((Npos (Coq_xI (Coq_xO (Coq_xI (Coq_xO
    (Coq_xO (Coq_xI Coq_xH))))))) :: ((Npos (Coq_xO (Coq_xI (Coq_xO (Coq_xO
    (Coq_xI (Coq_xI Coq_xH))))))) :: ((Npos (Coq_xO (Coq_xI (Coq_xO (Coq_xO
    (Coq_xI (Coq_xI Coq_xH))))))) :: ((Npos (Coq_xI (Coq_xO (Coq_xI (Coq_xO
    (Coq_xI (Coq_xI Coq_xH))))))) :: ((Npos (Coq_xO (Coq_xO (Coq_xO (Coq_xO
    (Coq_xI (Coq_xI Coq_xH))))))) :: ((Npos (Coq_xO (Coq_xO (Coq_xI (Coq_xO
    (Coq_xI (Coq_xI Coq_xH))))))) :: ((Npos (Coq_xI (Coq_xO (Coq_xI (Coq_xO
    (Coq_xO (Coq_xI Coq_xH))))))) :: ((Npos (Coq_xO (Coq_xO (Coq_xI (Coq_xO
    (Coq_xO (Coq_xI Coq_xH))))))) :: []))))))))))) :: []))))

(** val det_win_id : coq_N list **)

let det_win_id =
  (Npos (Coq_xI (Coq_xO (Coq_xO (Coq_xO (Coq_xI Coq_xH)))))) :: []

(** val det_win_id_len : coq_N **)

let det_win_id_len =
  Npos (Coq_xI (Coq_xO (Coq_xI Coq_xH)))

(** val det_win_suffix : coq_N list **)

let det_win_suffix =
  (Npos (Coq_xI (Coq_xO (Coq_xO (Coq_xO (Coq_xI Coq_xH)))))) :: ((Npos
    (Coq_xO (Coq_xO (Coq_xO (Coq_xO (Coq_xI Coq_xH)))))) :: [])

(** val det_client_old : coq_N list **)

let det_client_old =
  (Npos (Coq_xO (Coq_xO (Coq_xI (Coq_xO (Coq_xI (Coq_xO
    Coq_xH))))))) :: ((Npos (Coq_xO (Coq_xI (Coq_xO (Coq_xO (Coq_xI (Coq_xO
    Coq_xH))))))) :: ((Npos (Coq_xO (Coq_xI (Coq_xO (Coq_xI (Coq_xI (Coq_xO
    Coq_xH))))))) :: ((Npos (Coq_xI (Coq_xI (Coq_xO (Coq_xO (Coq_xI (Coq_xO
    Coq_xH))))))) :: ((Npos (Coq_xO (Coq_xI (Coq_xO (Coq_xI (Coq_xI (Coq_xO
    Coq_xH))))))) :: []))))

(** val det_client_new : coq_N list **)

let det_client_new =
  (Npos (Coq_xO (Coq_xO (Coq_xI (Coq_xO (Coq_xI (Coq_xO
    Coq_xH))))))) :: ((Npos (Coq_xO (Coq_xI (Coq_xO (Coq_xO (Coq_xI (Coq_xO
    Coq_xH))))))) :: ((Npos (Coq_xO (Coq_xI (Coq_xO (Coq_xI (Coq_xI (Coq_xO
    Coq_xH))))))) :: ((Npos (Coq_xI (Coq_xI (Coq_xO (Coq_xO (Coq_xI (Coq_xO
    Coq_xH))))))) :: ((Npos (Coq_xO (Coq_xI (Coq_xO (Coq_xI (Coq_xI (Coq_xO
    Coq_xH))))))) :: ((Npos (Coq_xI (Coq_xI (Coq_xI (Coq_xO (Coq_xO (Coq_xO
    Coq_xH))))))) :: ((Npos (Coq_xI (Coq_xI (Coq_xI (Coq_xI (Coq_xO (Coq_xO
    Coq_xH))))))) :: []))))))

(** val det_id_min_len : coq_N **)

let det_id_min_len =
  Npos (Coq_xO (Coq_xI Coq_xH))

(** val det_plain_id_len : coq_N **)

let det_plain_id_len =
  Npos (Coq_xI (Coq_xO (Coq_xI Coq_xH)))

(** val det_plain_suffix : coq_N list **)

let det_plain_suffix =
  (Npos (Coq_xO (Coq_xO (Coq_xO (Coq_xO (Coq_xI Coq_xH)))))) :: ((Npos
    (Coq_xO (Coq_xO (Coq_xO (Coq_xO (Coq_xI Coq_xH)))))) :: [])

(** val det_prune_limit : coq_N **)

let det_prune_limit =
  Npos (Coq_xO (Coq_xO (Coq_xI (Coq_xO (Coq_xO (Coq_xI Coq_xH))))))

(** val det_prune_keep : coq_N **)

let det_prune_keep =
  Npos (Coq_xO (Coq_xI (Coq_xO (Coq_xO (Coq_xI Coq_xH)))))

(** val det_rewrite_min_len : coq_N **)

let det_rewrite_min_len =
  Npos (Coq_xI (Coq_xO (Coq_xI Coq_xH)))

(** val det_rewrite_suffix : coq_N list **)

let det_rewrite_suffix =
  (Npos (Coq_xO (Coq_xO (Coq_xO (Coq_xO (Coq_xI Coq_xH)))))) :: ((Npos
    (Coq_xO (Coq_xO (Coq_xO (Coq_xO (Coq_xI Coq_xH)))))) :: [])

(** val det_retag_back : coq_N **)

let det_retag_back =
  Npos (Coq_xO Coq_xH)

(** val det_retag_char : coq_N **)

let det_retag_char =
  Npos (Coq_xO (Coq_xI (Coq_xO (Coq_xO (Coq_xI Coq_xH)))))

(** val det_relay_offset : coq_N **)

let det_relay_offset =
  Npos (Coq_xO (Coq_xO (Coq_xI (Coq_xO Coq_xH))))

(** val det_relay_scan_chars : coq_N list **)

let det_relay_scan_chars =
  (Npos (Coq_xO (Coq_xI (Coq_xO (Coq_xI (Coq_xI Coq_xH)))))) :: ((Npos
    (Coq_xO (Coq_xI (Coq_xI (Coq_xI (Coq_xO Coq_xH)))))) :: [])

(** val det_relay_scan_lo : coq_N **)

let det_relay_scan_lo =
  Npos (Coq_xO (Coq_xO (Coq_xO (Coq_xO (Coq_xI Coq_xH)))))

(** val det_relay_scan_hi : coq_N **)

let det_relay_scan_hi =
  Npos (Coq_xI (Coq_xO (Coq_xO (Coq_xI (Coq_xI Coq_xH)))))

(** val det_relay_suffix : coq_N list **)

let det_relay_suffix =
  (Npos (Coq_xI (Coq_xI (Coq_xO (Coq_xO (Coq_xO Coq_xH)))))) :: ((Npos
    (Coq_xO (Coq_xI (Coq_xO (Coq_xO (Coq_xI (Coq_xO Coq_xH))))))) :: [])

(** val det_version_sep : coq_N list **)

let det_version_sep =
  (Npos (Coq_xO (Coq_xI (Coq_xI (Coq_xI (Coq_xO Coq_xH)))))) :: []

(** val det_version_bits : coq_N **)

let det_version_bits =
  Npos (Coq_xO (Coq_xO (Coq_xO (Coq_xO (Coq_xO Coq_xH)))))

(** val det_trz_format : coq_N list **)

let det_trz_format =
  (Npos (Coq_xI (Coq_xI (Coq_xO (Coq_xI Coq_xH))))) :: ((Npos (Coq_xI (Coq_xI
    (Coq_xI (Coq_xO (Coq_xI Coq_xH)))))) :: ((Npos (Coq_xI (Coq_xI
    Coq_xH))) :: ((Npos (Coq_xO (Coq_xI (Coq_xO (Coq_xI (Coq_xI
    Coq_xH)))))) :: ((Npos (Coq_xO (Coq_xI (Coq_xO (Coq_xI (Coq_xI
    Coq_xH)))))) :: ((Npos (Coq_xO (Coq_xO (Coq_xI (Coq_xO (Coq_xI (Coq_xO
    Coq_xH))))))) :: ((Npos (Coq_xO (Coq_xI (Coq_xO (Coq_xO (Coq_xI (Coq_xO
    Coq_xH))))))) :: ((Npos (Coq_xO (Coq_xI (Coq_xO (Coq_xI (Coq_xI (Coq_xO
    Coq_xH))))))) :: ((Npos (Coq_xI (Coq_xI (Coq_xO (Coq_xO (Coq_xI (Coq_xO
    Coq_xH))))))) :: ((Npos (Coq_xO (Coq_xI (Coq_xO (Coq_xI (Coq_xI (Coq_xO
    Coq_xH))))))) :: ((Npos (Coq_xO (Coq_xI (Coq_xO (Coq_xI (Coq_xI
    Coq_xH)))))) :: ((Npos (Coq_xO (Coq_xO (Coq_xI (Coq_xO (Coq_xI (Coq_xO
    Coq_xH))))))) :: ((Npos (Coq_xO (Coq_xI (Coq_xO (Coq_xO (Coq_xI (Coq_xO
    Coq_xH))))))) :: ((Npos (Coq_xI (Coq_xO (Coq_xO (Coq_xO (Coq_xO (Coq_xO
    Coq_xH))))))) :: ((Npos (Coq_xO (Coq_xI (Coq_xI (Coq_xI (Coq_xO (Coq_xO
    Coq_xH))))))) :: ((Npos (Coq_xI (Coq_xI (Coq_xO (Coq_xO (Coq_xI (Coq_xO
    Coq_xH))))))) :: ((Npos (Coq_xO (Coq_xI (Coq_xI (Coq_xO (Coq_xO (Coq_xO
    Coq_xH))))))) :: ((Npos (Coq_xI (Coq_xO (Coq_xI (Coq_xO (Coq_xO (Coq_xO
    Coq_xH))))))) :: ((Npos (Coq_xO (Coq_xI (Coq_xO (Coq_xO (Coq_xI (Coq_xO
    Coq_xH))))))) :: ((Npos (Coq_xO (Coq_xI (Coq_xO (Coq_xI (Coq_xI
    Coq_xH)))))) :: ((Npos (Coq_xI (Coq_xO (Coq_xI (Coq_xO (Coq_xO
    Coq_xH)))))) :: ((Npos (Coq_xI (Coq_xI (Coq_xO (Coq_xO (Coq_xI (Coq_xI
    Coq_xH))))))) :: ((Npos (Coq_xO (Coq_xI (Coq_xO (Coq_xI (Coq_xI
    Coq_xH)))))) :: ((Npos (Coq_xI (Coq_xO (Coq_xI (Coq_xO (Coq_xO
    Coq_xH)))))) :: ((Npos (Coq_xI (Coq_xI (Coq_xO (Coq_xO (Coq_xI (Coq_xI
    Coq_xH))))))) :: ((Npos (Coq_xO (Coq_xI (Coq_xO (Coq_xI (Coq_xI
    Coq_xH)))))) :: ((Npos (Coq_xI (Coq_xO (Coq_xI (Coq_xO (Coq_xO
    Coq_xH)))))) :: ((Npos (Coq_xO (Coq_xO (Coq_xO (Coq_xO (Coq_xI
    Coq_xH)))))) :: ((Npos (Coq_xI (Coq_xO (Coq_xO (Coq_xO (Coq_xI
    Coq_xH)))))) :: ((Npos (Coq_xI (Coq_xI (Coq_xO (Coq_xO (Coq_xI
    Coq_xH)))))) :: ((Npos (Coq_xO (Coq_xO (Coq_xI (Coq_xO (Coq_xO (Coq_xI
    Coq_xH))))))) :: ((Npos (Coq_xO (Coq_xI (Coq_xO (Coq_xI (Coq_xI
    Coq_xH)))))) :: ((Npos (Coq_xI (Coq_xO (Coq_xI (Coq_xO (Coq_xO
    Coq_xH)))))) :: ((Npos (Coq_xO (Coq_xO (Coq_xI (Coq_xO (Coq_xO (Coq_xI
    Coq_xH))))))) :: ((Npos (Coq_xI (Coq_xO (Coq_xI Coq_xH)))) :: ((Npos
    (Coq_xO (Coq_xI (Coq_xO
    Coq_xH)))) :: [])))))))))))))))))))))))))))))))))))

(** val escape_leader : coq_N **)

let escape_leader =
  Npos (Coq_xO (Coq_xI (Coq_xI (Coq_xI (Coq_xO (Coq_xI (Coq_xI Coq_xH)))))))

(** val escape_base_json : (coq_N list * coq_N list) list **)

let escape_base_json =
  (((Npos (Coq_xO (Coq_xI (Coq_xI (Coq_xI (Coq_xO (Coq_xI (Coq_xI
    Coq_xH)))))))) :: []), ((Npos (Coq_xO (Coq_xI (Coq_xI (Coq_xI (Coq_xO
    (Coq_xI (Coq_xI Coq_xH)))))))) :: ((Npos (Coq_xO (Coq_xI (Coq_xI (Coq_xI
    (Coq_xO (Coq_xI (Coq_xI Coq_xH)))))))) :: []))) :: ((((Npos (Coq_xO
    (Coq_xI (Coq_xI (Coq_xI (Coq_xI (Coq_xI Coq_xH))))))) :: []), ((Npos
    (Coq_xO (Coq_xI (Coq_xI (Coq_xI (Coq_xO (Coq_xI (Coq_xI
    Coq_xH)))))))) :: ((Npos (Coq_xI (Coq_xO (Coq_xO (Coq_xO (Coq_xI
    Coq_xH)))))) :: []))) :: [])

(** val escape_all_chars : coq_N list **)

let escape_all_chars =
  (Npos (Coq_xO Coq_xH)) :: ((Npos (Coq_xI (Coq_xO (Coq_xI
    Coq_xH)))) :: ((Npos (Coq_xO (Coq_xO (Coq_xO (Coq_xO
    Coq_xH))))) :: ((Npos (Coq_xI (Coq_xO (Coq_xO (Coq_xO
    Coq_xH))))) :: ((Npos (Coq_xI (Coq_xI (Coq_xO (Coq_xO
    Coq_xH))))) :: ((Npos (Coq_xO (Coq_xO (Coq_xO (Coq_xI
    Coq_xH))))) :: ((Npos (Coq_xI (Coq_xI (Coq_xO (Coq_xI
    Coq_xH))))) :: ((Npos (Coq_xI (Coq_xO (Coq_xI (Coq_xI
    Coq_xH))))) :: ((Npos (Coq_xI (Coq_xO (Coq_xI (Coq_xI (Coq_xO (Coq_xO
    (Coq_xO Coq_xH)))))))) :: ((Npos (Coq_xO (Coq_xO (Coq_xO (Coq_xO (Coq_xI
    (Coq_xO (Coq_xO Coq_xH)))))))) :: ((Npos (Coq_xI (Coq_xO (Coq_xO (Coq_xO
    (Coq_xI (Coq_xO (Coq_xO Coq_xH)))))))) :: ((Npos (Coq_xI (Coq_xI (Coq_xO
    (Coq_xO (Coq_xI (Coq_xO (Coq_xO Coq_xH)))))))) :: ((Npos (Coq_xI (Coq_xO
    (Coq_xI (Coq_xI (Coq_xI (Coq_xO (Coq_xO Coq_xH)))))))) :: []))))))))))))

(** val escape_all_first_code : coq_N **)

let escape_all_first_code =
  Npos (Coq_xI (Coq_xO (Coq_xO (Coq_xO (Coq_xO (Coq_xO Coq_xH))))))

(** val osc52_prefix : coq_N list **)

let osc52_prefix =
  (Npos (Coq_xI (Coq_xI (Coq_xO (Coq_xI Coq_xH))))) :: ((Npos (Coq_xI (Coq_xO
    (Coq_xI (Coq_xI (Coq_xI (Coq_xO Coq_xH))))))) :: ((Npos (Coq_xI (Coq_xO
    (Coq_xI (Coq_xO (Coq_xI Coq_xH)))))) :: ((Npos (Coq_xO (Coq_xI (Coq_xO
    (Coq_xO (Coq_xI Coq_xH)))))) :: ((Npos (Coq_xI (Coq_xI (Coq_xO (Coq_xI
    (Coq_xI Coq_xH)))))) :: []))))

(** val osc52_terms : coq_N list **)

let osc52_terms =
  (Npos (Coq_xI (Coq_xI Coq_xH))) :: ((Npos (Coq_xI (Coq_xI (Coq_xO (Coq_xI
    Coq_xH))))) :: [])

(** val osc52_kind_c : coq_N **)

let osc52_kind_c =
  Npos (Coq_xI (Coq_xI (Coq_xO (Coq_xO (Coq_xO (Coq_xI Coq_xH))))))

(** val osc52_kind_p : coq_N **)

let osc52_kind_p =
  Npos (Coq_xO (Coq_xO (Coq_xO (Coq_xO (Coq_xI (Coq_xI Coq_xH))))))

(** val osc52_sep : coq_N **)

let osc52_sep =
  Npos (Coq_xI (Coq_xI (Coq_xO (Coq_xI (Coq_xI Coq_xH)))))

(** val osc52_limit : coq_N **)

let osc52_limit =
  Npos (Coq_xO (Coq_xO (Coq_xO (Coq_xO (Coq_xO (Coq_xI (Coq_xO (Coq_xI
    (Coq_xO (Coq_xI (Coq_xI (Coq_xO (Coq_xO (Coq_xO (Coq_xO (Coq_xI
    Coq_xH))))))))))))))))

(** val osc52_hdr_skip : coq_N **)

let osc52_hdr_skip =
  Npos (Coq_xI (Coq_xO Coq_xH))

(** val osc52_kind_len : coq_N **)

let osc52_kind_len =
  Npos (Coq_xO Coq_xH)

(** val osc52_b64_ranges : (coq_N * coq_N) list **)

let osc52_b64_ranges =
  ((Npos (Coq_xI (Coq_xO (Coq_xO (Coq_xO (Coq_xO (Coq_xO Coq_xH))))))), (Npos
    (Coq_xO (Coq_xI (Coq_xO (Coq_xI (Coq_xI (Coq_xO Coq_xH)))))))) :: (((Npos
    (Coq_xI (Coq_xO (Coq_xO (Coq_xO (Coq_xO (Coq_xI Coq_xH))))))), (Npos
    (Coq_xO (Coq_xI (Coq_xO (Coq_xI (Coq_xI (Coq_xI Coq_xH)))))))) :: (((Npos
    (Coq_xO (Coq_xO (Coq_xO (Coq_xO (Coq_xI Coq_xH)))))), (Npos (Coq_xI
    (Coq_xO (Coq_xO (Coq_xI (Coq_xI Coq_xH))))))) :: (((Npos (Coq_xI (Coq_xI
    (Coq_xO (Coq_xI (Coq_xO Coq_xH)))))), (Npos (Coq_xI (Coq_xI (Coq_xO
    (Coq_xI (Coq_xO Coq_xH))))))) :: (((Npos (Coq_xI (Coq_xI (Coq_xI (Coq_xI
    (Coq_xO Coq_xH)))))), (Npos (Coq_xI (Coq_xI (Coq_xI (Coq_xI (Coq_xO
    Coq_xH))))))) :: (((Npos (Coq_xI (Coq_xO (Coq_xI (Coq_xI (Coq_xI
    Coq_xH)))))), (Npos (Coq_xI (Coq_xO (Coq_xI (Coq_xI (Coq_xI
    Coq_xH))))))) :: [])))))

(** val drag_paste_probe : coq_N list **)

let drag_paste_probe =
  (Npos (Coq_xI (Coq_xI (Coq_xO (Coq_xI Coq_xH))))) :: ((Npos (Coq_xI (Coq_xI
    (Coq_xO (Coq_xI (Coq_xI (Coq_xO Coq_xH))))))) :: ((Npos (Coq_xO (Coq_xI
    (Coq_xO (Coq_xO (Coq_xI Coq_xH)))))) :: ((Npos (Coq_xO (Coq_xO (Coq_xO
    (Coq_xO (Coq_xI Coq_xH)))))) :: [])))

(** val drag_paste_begin : coq_N list **)

let drag_paste_begin =
  (Npos (Coq_xI (Coq_xI (Coq_xO (Coq_xI Coq_xH))))) :: ((Npos (Coq_xI (Coq_xI
    (Coq_xO (Coq_xI (Coq_xI (Coq_xO Coq_xH))))))) :: ((Npos (Coq_xO (Coq_xI
    (Coq_xO (Coq_xO (Coq_xI Coq_xH)))))) :: ((Npos (Coq_xO (Coq_xO (Coq_xO
    (Coq_xO (Coq_xI Coq_xH)))))) :: ((Npos (Coq_xO (Coq_xO (Coq_xO (Coq_xO
    (Coq_xI Coq_xH)))))) :: ((Npos (Coq_xO (Coq_xI (Coq_xI (Coq_xI (Coq_xI
    (Coq_xI Coq_xH))))))) :: [])))))

(** val drag_paste_end : coq_N list **)

let drag_paste_end =
  (Npos (Coq_xI (Coq_xI (Coq_xO (Coq_xI Coq_xH))))) :: ((Npos (Coq_xI (Coq_xI
    (Coq_xO (Coq_xI (Coq_xI (Coq_xO Coq_xH))))))) :: ((Npos (Coq_xO (Coq_xI
    (Coq_xO (Coq_xO (Coq_xI Coq_xH)))))) :: ((Npos (Coq_xO (Coq_xO (Coq_xO
    (Coq_xO (Coq_xI Coq_xH)))))) :: ((Npos (Coq_xI (Coq_xO (Coq_xO (Coq_xO
    (Coq_xI Coq_xH)))))) :: ((Npos (Coq_xO (Coq_xI (Coq_xI (Coq_xI (Coq_xI
    (Coq_xI Coq_xH))))))) :: [])))))

(** val drag_paste_minlen : coq_N **)

let drag_paste_minlen =
  Npos (Coq_xI (Coq_xO Coq_xH))

(** val drag_quote : coq_N **)

let drag_quote =
  Npos (Coq_xI (Coq_xI (Coq_xI (Coq_xO (Coq_xO Coq_xH)))))

(** val drag_slash : coq_N **)

let drag_slash =
  Npos (Coq_xI (Coq_xI (Coq_xI (Coq_xI (Coq_xO Coq_xH)))))

(** val drag_space : coq_N **)

let drag_space =
  Npos (Coq_xO (Coq_xO (Coq_xO (Coq_xO (Coq_xO Coq_xH)))))

(** val drag_min_len : coq_N **)

let drag_min_len =
  Npos (Coq_xI Coq_xH)

(** val trace_enable_marker : coq_N list **)

let trace_enable_marker =
  (Npos (Coq_xO (Coq_xO (Coq_xI (Coq_xI (Coq_xI Coq_xH)))))) :: ((Npos
    (Coq_xI (Coq_xO (Coq_xI (Coq_xO (Coq_xO (Coq_xO Coq_xH))))))) :: ((Npos
    (Coq_xO (Coq_xI (Coq_xI (Coq_xI (Coq_xO (Coq_xO Coq_xH))))))) :: ((Npos
    (Coq_xI (Coq_xO (Coq_xO (Coq_xO (Coq_xO (Coq_xO Coq_xH))))))) :: ((Npos
    (Coq_xO (Coq_xI (Coq_xO (Coq_xO (Coq_xO (Coq_xO Coq_xH))))))) :: ((Npos
    (Coq_xO (Coq_xO (Coq_xI (Coq_xI (Coq_xO (Coq_xO Coq_xH))))))) :: ((Npos
    (Coq_xI (Coq_xO (Coq_xI (Coq_xO (Coq_xO (Coq_xO Coq_xH))))))) :: ((Npos
    (Coq_xI (Coq_xI (Coq_xI (Coq_xI (Coq_xI (Coq_xO Coq_xH))))))) :: ((Npos
    (Coq_xO (Coq_xO (Coq_xI (Coq_xO (Coq_xI (Coq_xO Coq_xH))))))) :: ((Npos
    (Coq_xO (Coq_xI (Coq_xO (Coq_xO (Coq_xI (Coq_xO Coq_xH))))))) :: ((Npos
    (Coq_xO (Coq_xI (Coq_xO (Coq_xI (Coq_xI (Coq_xO Coq_xH))))))) :: ((Npos
    (Coq_xI (Coq_xI (Coq_xO (Coq_xO (Coq_xI (Coq_xO Coq_xH))))))) :: ((Npos
    (Coq_xO (Coq_xI (Coq_xO (Coq_xI (Coq_xI (Coq_xO Coq_xH))))))) :: ((Npos
    (Coq_xI (Coq_xI (Coq_xI (Coq_xI (Coq_xI (Coq_xO Coq_xH))))))) :: ((Npos
    (Coq_xO (Coq_xO (Coq_xI (Coq_xO (Coq_xI (Coq_xO Coq_xH))))))) :: ((Npos
    (Coq_xO (Coq_xI (Coq_xO (Coq_xO (Coq_xI (Coq_xO Coq_xH))))))) :: ((Npos
    (Coq_xI (Coq_xO (Coq_xO (Coq_xO (Coq_xO (Coq_xO Coq_xH))))))) :: ((Npos
    (Coq_xI (Coq_xI (Coq_xO (Coq_xO (Coq_xO (Coq_xO Coq_xH))))))) :: ((Npos
    (Coq_xI (Coq_xO (Coq_xI (Coq_xO (Coq_xO (Coq_xO Coq_xH))))))) :: ((Npos
    (Coq_xI (Coq_xI (Coq_xI (Coq_xI (Coq_xI (Coq_xO Coq_xH))))))) :: ((Npos
    (Coq_xO (Coq_xO (Coq_xI (Coq_xI (Coq_xO (Coq_xO Coq_xH))))))) :: ((Npos
    (Coq_xI (Coq_xI (Coq_xI (Coq_xI (Coq_xO (Coq_xO Coq_xH))))))) :: ((Npos
    (Coq_xI (Coq_xI (Coq_xI (Coq_xO (Coq_xO (Coq_xO Coq_xH))))))) :: ((Npos
    (Coq_xO (Coq_xI (Coq_xI (Coq_xI (Coq_xI
    Coq_xH)))))) :: [])))))))))))))))))))))))

(** val trace_disable_marker : coq_N list **)

let trace_disable_marker =
  (Npos (Coq_xO (Coq_xO (Coq_xI (Coq_xI (Coq_xI Coq_xH)))))) :: ((Npos
    (Coq_xO (Coq_xO (Coq_xI (Coq_xO (Coq_xO (Coq_xO Coq_xH))))))) :: ((Npos
    (Coq_xI (Coq_xO (Coq_xO (Coq_xI (Coq_xO (Coq_xO Coq_xH))))))) :: ((Npos
    (Coq_xI (Coq_xI (Coq_xO (Coq_xO (Coq_xI (Coq_xO Coq_xH))))))) :: ((Npos
    (Coq_xI (Coq_xO (Coq_xO (Coq_xO (Coq_xO (Coq_xO Coq_xH))))))) :: ((Npos
    (Coq_xO (Coq_xI (Coq_xO (Coq_xO (Coq_xO (Coq_xO Coq_xH))))))) :: ((Npos
    (Coq_xO (Coq_xO (Coq_xI (Coq_xI (Coq_xO (Coq_xO Coq_xH))))))) :: ((Npos
    (Coq_xI (Coq_xO (Coq_xI (Coq_xO (Coq_xO (Coq_xO Coq_xH))))))) :: ((Npos
    (Coq_xI (Coq_xI (Coq_xI (Coq_xI (Coq_xI (Coq_xO Coq_xH))))))) :: ((Npos
    (Coq_xO (Coq_xO (Coq_xI (Coq_xO (Coq_xI (Coq_xO Coq_xH))))))) :: ((Npos
    (Coq_xO (Coq_xI (Coq_xO (Coq_xO (Coq_xI (Coq_xO Coq_xH))))))) :: ((Npos
    (Coq_xO (Coq_xI (Coq_xO (Coq_xI (Coq_xI (Coq_xO Coq_xH))))))) :: ((Npos
    (Coq_xI (Coq_xI (Coq_xO (Coq_xO (Coq_xI (Coq_xO Coq_xH))))))) :: ((Npos
    (Coq_xO (Coq_xI (Coq_xO (Coq_xI (Coq_xI (Coq_xO Coq_xH))))))) :: ((Npos
    (Coq_xI (Coq_xI (Coq_xI (Coq_xI (Coq_xI (Coq_xO Coq_xH))))))) :: ((Npos
    (Coq_xO (Coq_xO (Coq_xI (Coq_xO (Coq_xI (Coq_xO Coq_xH))))))) :: ((Npos
    (Coq_xO (Coq_xI (Coq_xO (Coq_xO (Coq_xI (Coq_xO Coq_xH))))))) :: ((Npos
    (Coq_xI (Coq_xO (Coq_xO (Coq_xO (Coq_xO (Coq_xO Coq_xH))))))) :: ((Npos
    (Coq_xI (Coq_xI (Coq_xO (Coq_xO (Coq_xO (Coq_xO Coq_xH))))))) :: ((Npos
    (Coq_xI (Coq_xO (Coq_xI (Coq_xO (Coq_xO (Coq_xO Coq_xH))))))) :: ((Npos
    (Coq_xI (Coq_xI (Coq_xI (Coq_xI (Coq_xI (Coq_xO Coq_xH))))))) :: ((Npos
    (Coq_xO (Coq_xO (Coq_xI (Coq_xI (Coq_xO (Coq_xO Coq_xH))))))) :: ((Npos
    (Coq_xI (Coq_xI (Coq_xI (Coq_xI (Coq_xO (Coq_xO Coq_xH))))))) :: ((Npos
    (Coq_xI (Coq_xI (Coq_xI (Coq_xO (Coq_xO (Coq_xO Coq_xH))))))) :: ((Npos
    (Coq_xO (Coq_xI (Coq_xI (Coq_xI (Coq_xI
    Coq_xH)))))) :: []))))))))))))))))))))))))

(** val show_cursor_seq : coq_N list **)

let show_cursor_seq =
  (Npos (Coq_xI (Coq_xI (Coq_xO (Coq_xI Coq_xH))))) :: ((Npos (Coq_xI (Coq_xI
    (Coq_xO (Coq_xI (Coq_xI (Coq_xO Coq_xH))))))) :: ((Npos (Coq_xI (Coq_xI
    (Coq_xI (Coq_xI (Coq_xI Coq_xH)))))) :: ((Npos (Coq_xO (Coq_xI (Coq_xO
    (Coq_xO (Coq_xI Coq_xH)))))) :: ((Npos (Coq_xI (Coq_xO (Coq_xI (Coq_xO
    (Coq_xI Coq_xH)))))) :: ((Npos (Coq_xO (Coq_xO (Coq_xO (Coq_xI (Coq_xO
    (Coq_xI Coq_xH))))))) :: [])))))

(** val hide_cursor_seq : coq_N list **)

let hide_cursor_seq =
  (Npos (Coq_xI (Coq_xI (Coq_xO (Coq_xI Coq_xH))))) :: ((Npos (Coq_xI (Coq_xI
    (Coq_xO (Coq_xI (Coq_xI (Coq_xO Coq_xH))))))) :: ((Npos (Coq_xI (Coq_xI
    (Coq_xI (Coq_xI (Coq_xI Coq_xH)))))) :: ((Npos (Coq_xO (Coq_xI (Coq_xO
    (Coq_xO (Coq_xI Coq_xH)))))) :: ((Npos (Coq_xI (Coq_xO (Coq_xI (Coq_xO
    (Coq_xI Coq_xH)))))) :: ((Npos (Coq_xO (Coq_xO (Coq_xI (Coq_xI (Coq_xO
    (Coq_xI Coq_xH))))))) :: [])))))

(** val drag_default_cmd : coq_N list **)

let drag_default_cmd =
  (Npos (Coq_xO (Coq_xO (Coq_xI (Coq_xO (Coq_xI (Coq_xI
    Coq_xH))))))) :: ((Npos (Coq_xO (Coq_xI (Coq_xO (Coq_xO (Coq_xI (Coq_xI
    Coq_xH))))))) :: ((Npos (Coq_xO (Coq_xI (Coq_xO (Coq_xI (Coq_xI (Coq_xI
    Coq_xH))))))) :: []))

(** val drag_dir_flag : coq_N list **)

let drag_dir_flag =
  (Npos (Coq_xO (Coq_xO (Coq_xO (Coq_xO (Coq_xO Coq_xH)))))) :: ((Npos
    (Coq_xI (Coq_xO (Coq_xI (Coq_xI (Coq_xO Coq_xH)))))) :: ((Npos (Coq_xO
    (Coq_xO (Coq_xI (Coq_xO (Coq_xO (Coq_xI Coq_xH))))))) :: []))

(** val drag_cmd_end : coq_N list **)

let drag_cmd_end =
  (Npos (Coq_xI (Coq_xO (Coq_xI Coq_xH)))) :: []

(** val drag_interrupt_byte : coq_N **)

let drag_interrupt_byte =
  Npos (Coq_xI Coq_xH)

(** val skip_trim_cutset : coq_N list **)

let skip_trim_cutset =
  (Npos (Coq_xI (Coq_xO (Coq_xI Coq_xH)))) :: ((Npos (Coq_xO (Coq_xI (Coq_xO
    Coq_xH)))) :: [])

(** val skip_echo_repl : coq_N list **)

let skip_echo_repl =
  (Npos (Coq_xI (Coq_xO (Coq_xI Coq_xH)))) :: ((Npos (Coq_xO (Coq_xI (Coq_xO
    Coq_xH)))) :: [])

(** val vt100_esc : coq_N **)

let vt100_esc =
  Npos (Coq_xI (Coq_xI (Coq_xO (Coq_xI Coq_xH))))

(** val vt100_end_ranges : (coq_N * coq_N) list **)

let vt100_end_ranges =
  ((Npos (Coq_xI (Coq_xO (Coq_xO (Coq_xO (Coq_xO (Coq_xI Coq_xH))))))), (Npos
    (Coq_xO (Coq_xI (Coq_xO (Coq_xI (Coq_xI (Coq_xI Coq_xH)))))))) :: (((Npos
    (Coq_xI (Coq_xO (Coq_xO (Coq_xO (Coq_xO (Coq_xO Coq_xH))))))), (Npos
    (Coq_xO (Coq_xI (Coq_xO (Coq_xI (Coq_xI (Coq_xO Coq_xH)))))))) :: [])

(** val guards_hash_step : coq_Z **)

let guards_hash_step =
  Zpos (Coq_xO (Coq_xO (Coq_xO (Coq_xO (Coq_xO (Coq_xO (Coq_xO (Coq_xO
    (Coq_xO (Coq_xO (Coq_xO (Coq_xO (Coq_xO (Coq_xO (Coq_xO (Coq_xO (Coq_xO
    (Coq_xO (Coq_xO (Coq_xO (Coq_xO (Coq_xI (Coq_xO
    Coq_xH)))))))))))))))))))))))

(** val guards_default_bufsize : coq_Z **)

let guards_default_bufsize =
  Zpos (Coq_xO (Coq_xO (Coq_xO (Coq_xO (Coq_xO (Coq_xO (Coq_xO (Coq_xO
    (Coq_xO (Coq_xO (Coq_xO (Coq_xO (Coq_xO (Coq_xO (Coq_xO (Coq_xO (Coq_xO
    (Coq_xO (Coq_xO (Coq_xO (Coq_xO (Coq_xI (Coq_xO
    Coq_xH)))))))))))))))))))))))

(** val guards_init_buffer_size : coq_Z **)

let guards_init_buffer_size =
  Zpos (Coq_xO (Coq_xO (Coq_xO (Coq_xO (Coq_xO (Coq_xO (Coq_xO (Coq_xO
    (Coq_xO (Coq_xO (Coq_xO (Coq_xI (Coq_xO Coq_xH)))))))))))))

(** val guards_default_timeout : coq_Z **)

let guards_default_timeout =
  Zpos (Coq_xO (Coq_xO (Coq_xI (Coq_xO Coq_xH))))

(** val guards_v1_init_bufsize : coq_Z **)

let guards_v1_init_bufsize =
  Zpos (Coq_xO (Coq_xO (Coq_xO (Coq_xO (Coq_xO (Coq_xO (Coq_xO (Coq_xO
    (Coq_xO (Coq_xO Coq_xH))))))))))

(** val guards_data_min_bufsize : coq_Z **)

let guards_data_min_bufsize =
  Zpos (Coq_xO (Coq_xO (Coq_xO (Coq_xO (Coq_xO (Coq_xO (Coq_xO (Coq_xO
    (Coq_xO (Coq_xO (Coq_xO (Coq_xI (Coq_xO Coq_xH)))))))))))))

(** val guards_data_factor : coq_Z **)

let guards_data_factor =
  Zpos (Coq_xO Coq_xH)

(** val guards_bufsize_clamp : coq_Z **)

let guards_bufsize_clamp =
  Zpos (Coq_xO (Coq_xO (Coq_xO (Coq_xO (Coq_xO (Coq_xO (Coq_xO (Coq_xO
    (Coq_xO (Coq_xO (Coq_xO (Coq_xO (Coq_xO (Coq_xO (Coq_xO (Coq_xO (Coq_xO
    (Coq_xO (Coq_xO (Coq_xO (Coq_xO (Coq_xO (Coq_xO (Coq_xO (Coq_xO (Coq_xO
    (Coq_xO (Coq_xO (Coq_xO (Coq_xO Coq_xH))))))))))))))))))))))))))))))

(** val guards_ack_fast_ms : coq_Z **)

let guards_ack_fast_ms =
  Zpos (Coq_xO (Coq_xO (Coq_xI (Coq_xO (Coq_xI (Coq_xI (Coq_xI (Coq_xI
    Coq_xH))))))))

(** val guards_ack_slow_ms : coq_Z **)

let guards_ack_slow_ms =
  Zpos (Coq_xO (Coq_xO (Coq_xO (Coq_xO (Coq_xI (Coq_xO (Coq_xI (Coq_xI
    (Coq_xI (Coq_xI Coq_xH))))))))))

(** val guards_grow_factor : coq_Z **)

let guards_grow_factor =
  Zpos (Coq_xO Coq_xH)

(** val guards_min_chunk : coq_Z **)

let guards_min_chunk =
  Zpos (Coq_xO (Coq_xO (Coq_xO (Coq_xO (Coq_xO (Coq_xO (Coq_xO (Coq_xO
    (Coq_xO (Coq_xO Coq_xH))))))))))

(** val names_max_len : coq_N **)

let names_max_len =
  Npos (Coq_xI (Coq_xI (Coq_xI (Coq_xI (Coq_xI (Coq_xI (Coq_xI Coq_xH)))))))

(** val names_max_tries : coq_N **)

let names_max_tries =
  Npos (Coq_xO (Coq_xO (Coq_xO (Coq_xI (Coq_xO (Coq_xI (Coq_xI (Coq_xI
    (Coq_xI Coq_xH)))))))))

(** val names_reject_exact : coq_N list list **)

let names_reject_exact =
  [] :: (((Npos (Coq_xO (Coq_xI (Coq_xI (Coq_xI (Coq_xO
    Coq_xH)))))) :: []) :: (((Npos (Coq_xO (Coq_xI (Coq_xI (Coq_xI (Coq_xO
    Coq_xH)))))) :: ((Npos (Coq_xO (Coq_xI (Coq_xI (Coq_xI (Coq_xO
    Coq_xH)))))) :: [])) :: []))

(** val names_reject_bytes : coq_N list **)

let names_reject_bytes =
  (Npos (Coq_xI (Coq_xI (Coq_xI (Coq_xI (Coq_xO Coq_xH)))))) :: []

(** val names_check_in_unmarshal : bool **)

let names_check_in_unmarshal =
  true

(** val names_check_in_create_file : bool **)

let names_check_in_create_file =
  true

(** val win_init_last : coq_N **)

let win_init_last =
  Npos (Coq_xI (Coq_xI (Coq_xO (Coq_xI Coq_xH))))

(** val win_terminator : coq_N **)

let win_terminator =
  Npos (Coq_xI (Coq_xO (Coq_xO (Coq_xO (Coq_xO Coq_xH)))))

(** val win_after_terminator : coq_N **)

let win_after_terminator =
  Npos (Coq_xO (Coq_xI (Coq_xO Coq_xH)))

(** val win_interrupt : coq_N **)

let win_interrupt =
  Npos (Coq_xI Coq_xH)

(** val win_newline : coq_N **)

let win_newline =
  Npos (Coq_xO (Coq_xI (Coq_xO Coq_xH)))

(** val win_move_final : coq_N **)

let win_move_final =
  Npos (Coq_xO (Coq_xO (Coq_xO (Coq_xI (Coq_xO (Coq_xO Coq_xH))))))

(** val win_digit_lo : coq_N **)

let win_digit_lo =
  Npos (Coq_xO (Coq_xO (Coq_xO (Coq_xO (Coq_xI Coq_xH)))))

(** val win_digit_hi : coq_N **)

let win_digit_hi =
  Npos (Coq_xI (Coq_xO (Coq_xO (Coq_xI (Coq_xI Coq_xH)))))

(** val win_home_prev : coq_N **)

let win_home_prev =
  Npos (Coq_xI (Coq_xI (Coq_xO (Coq_xI (Coq_xI (Coq_xO Coq_xH))))))

(** val win_home_final : coq_N **)

let win_home_final =
  Npos (Coq_xO (Coq_xO (Coq_xO (Coq_xI (Coq_xO (Coq_xO Coq_xH))))))

(** val win_esc : coq_N **)

let win_esc =
  Npos (Coq_xI (Coq_xI (Coq_xO (Coq_xI Coq_xH))))

(** val noise_letter_ranges : (coq_N * coq_N) list **)

let noise_letter_ranges =
  ((Npos (Coq_xI (Coq_xO (Coq_xO (Coq_xO (Coq_xO (Coq_xI Coq_xH))))))), (Npos
    (Coq_xO (Coq_xI (Coq_xO (Coq_xI (Coq_xI (Coq_xI Coq_xH)))))))) :: (((Npos
    (Coq_xI (Coq_xO (Coq_xO (Coq_xO (Coq_xO (Coq_xO Coq_xH))))))), (Npos
    (Coq_xO (Coq_xI (Coq_xO (Coq_xI (Coq_xI (Coq_xO Coq_xH)))))))) :: (((Npos
    (Coq_xO (Coq_xO (Coq_xO (Coq_xO (Coq_xI Coq_xH)))))), (Npos (Coq_xI
    (Coq_xO (Coq_xO (Coq_xI (Coq_xI Coq_xH))))))) :: []))

(** val trzsz_letter_singles : coq_N list **)

let trzsz_letter_singles =
  (Npos (Coq_xI (Coq_xI (Coq_xO (Coq_xO (Coq_xO Coq_xH)))))) :: ((Npos
    (Coq_xO (Coq_xI (Coq_xO (Coq_xI (Coq_xI Coq_xH)))))) :: ((Npos (Coq_xI
    (Coq_xI (Coq_xO (Coq_xI (Coq_xO Coq_xH)))))) :: ((Npos (Coq_xI (Coq_xI
    (Coq_xI (Coq_xI (Coq_xO Coq_xH)))))) :: ((Npos (Coq_xI (Coq_xO (Coq_xI
    (Coq_xI (Coq_xI Coq_xH)))))) :: []))))

(** val noise_vt100_end_ranges : (coq_N * coq_N) list **)

let noise_vt100_end_ranges =
  ((Npos (Coq_xI (Coq_xO (Coq_xO (Coq_xO (Coq_xO (Coq_xI Coq_xH))))))), (Npos
    (Coq_xO (Coq_xI (Coq_xO (Coq_xI (Coq_xI (Coq_xI Coq_xH)))))))) :: (((Npos
    (Coq_xI (Coq_xO (Coq_xO (Coq_xO (Coq_xO (Coq_xO Coq_xH))))))), (Npos
    (Coq_xO (Coq_xI (Coq_xO (Coq_xI (Coq_xI (Coq_xO Coq_xH)))))))) :: [])

(** val recv_marker_open : coq_N list **)

let recv_marker_open =
  (Npos (Coq_xI (Coq_xI (Coq_xO (Coq_xO (Coq_xO Coq_xH)))))) :: []

(** val recv_marker_close : coq_N list **)

let recv_marker_close =
  (Npos (Coq_xO (Coq_xI (Coq_xO (Coq_xI (Coq_xI Coq_xH)))))) :: []

(** val recv_fallback_byte : coq_N **)

let recv_fallback_byte =
  Npos (Coq_xI (Coq_xI (Coq_xO (Coq_xO (Coq_xO Coq_xH)))))

(** val tmux_status_begin : coq_N list **)

let tmux_status_begin =
  (Npos (Coq_xI (Coq_xI (Coq_xO (Coq_xI Coq_xH))))) :: ((Npos (Coq_xO (Coq_xO
    (Coq_xO (Coq_xO (Coq_xI (Coq_xO Coq_xH))))))) :: ((Npos (Coq_xI (Coq_xO
    (Coq_xI (Coq_xI (Coq_xI Coq_xH)))))) :: []))

(** val tmux_status_begin_skip : coq_N **)

let tmux_status_begin_skip =
  Npos (Coq_xI Coq_xH)

(** val tmux_status_mid : coq_N list **)

let tmux_status_mid =
  (Npos (Coq_xI (Coq_xI (Coq_xO (Coq_xI Coq_xH))))) :: ((Npos (Coq_xO (Coq_xO
    (Coq_xO (Coq_xO (Coq_xI (Coq_xO Coq_xH))))))) :: ((Npos (Coq_xI (Coq_xO
    (Coq_xI (Coq_xI (Coq_xI Coq_xH)))))) :: []))

(** val tmux_status_mid_skip : coq_N **)

let tmux_status_mid_skip =
  Npos (Coq_xI Coq_xH)

(** val tmux_status_end : coq_N list **)

let tmux_status_end =
  (Npos (Coq_xI (Coq_xI (Coq_xO (Coq_xI Coq_xH))))) :: ((Npos (Coq_xO (Coq_xO
    (Coq_xI (Coq_xI (Coq_xI (Coq_xO Coq_xH))))))) :: [])

(** val tmux_status_end_skip : coq_N **)

let tmux_status_end_skip =
  Npos (Coq_xO Coq_xH)

(** val pause_gate_sleep_ms : coq_N **)

let pause_gate_sleep_ms =
  Npos (Coq_xO (Coq_xO (Coq_xI (Coq_xO (Coq_xO (Coq_xI Coq_xH))))))

(** val pause_reader_sleep_ms : coq_N **)

let pause_reader_sleep_ms =
  Npos (Coq_xO (Coq_xO (Coq_xI (Coq_xO (Coq_xO (Coq_xI Coq_xH))))))

(** val pause_final_ack_poll_ms : coq_N **)

let pause_final_ack_poll_ms =
  Npos (Coq_xO (Coq_xO (Coq_xO (Coq_xI (Coq_xO (Coq_xO (Coq_xI Coq_xH)))))))

(** val pause_ack_window : coq_N **)

let pause_ack_window =
  Npos (Coq_xI (Coq_xO Coq_xH))

(** val pause_protocol3 : coq_N **)

let pause_protocol3 =
  Npos (Coq_xI Coq_xH)

(** val pause_keepalive_written : coq_N list **)

let pause_keepalive_written =
  (Npos (Coq_xI (Coq_xO (Coq_xI (Coq_xI (Coq_xI Coq_xH)))))) :: []

(** val pause_keepalive_tested : coq_N list **)

let pause_keepalive_tested =
  (Npos (Coq_xI (Coq_xO (Coq_xI (Coq_xI (Coq_xI Coq_xH)))))) :: []

(** val pause_colon : coq_N **)

let pause_colon =
  Npos (Coq_xO (Coq_xI (Coq_xO (Coq_xI (Coq_xI Coq_xH)))))

(** val pause_timeout_unit_ms : coq_N **)

let pause_timeout_unit_ms =
  Npos (Coq_xO (Coq_xO (Coq_xO (Coq_xI (Coq_xO (Coq_xI (Coq_xI (Coq_xI
    (Coq_xI Coq_xH)))))))))

(** val pause_ignore_chunk_count : coq_N **)

let pause_ignore_chunk_count =
  Npos (Coq_xI (Coq_xI Coq_xH))

(** val progress_ellipsis_reserve : coq_Z **)

let progress_ellipsis_reserve =
  Zpos (Coq_xI Coq_xH)

(** val progress_ellipsis_dots : coq_N list **)

let progress_ellipsis_dots =
  (Npos (Coq_xO (Coq_xI (Coq_xI (Coq_xI (Coq_xO Coq_xH)))))) :: ((Npos
    (Coq_xO (Coq_xI (Coq_xI (Coq_xI (Coq_xO Coq_xH)))))) :: ((Npos (Coq_xO
    (Coq_xI (Coq_xI (Coq_xI (Coq_xO Coq_xH)))))) :: []))

(** val progress_ellipsis_added : coq_Z **)

let progress_ellipsis_added =
  Zpos (Coq_xI Coq_xH)

(** val progress_tmux_min : coq_Z **)

let progress_tmux_min =
  Zpos Coq_xH

(** val progress_tmux_margin : coq_Z **)

let progress_tmux_margin =
  Zpos Coq_xH

(** val progress_initial_step : coq_Z **)

let progress_initial_step =
  Zneg Coq_xH

(** val progress_hide_cursor : coq_N list **)

let progress_hide_cursor =
  (Npos (Coq_xI (Coq_xI (Coq_xO (Coq_xI Coq_xH))))) :: ((Npos (Coq_xI (Coq_xI
    (Coq_xO (Coq_xI (Coq_xI (Coq_xO Coq_xH))))))) :: ((Npos (Coq_xI (Coq_xI
    (Coq_xI (Coq_xI (Coq_xI Coq_xH)))))) :: ((Npos (Coq_xO (Coq_xI (Coq_xO
    (Coq_xO (Coq_xI Coq_xH)))))) :: ((Npos (Coq_xI (Coq_xO (Coq_xI (Coq_xO
    (Coq_xI Coq_xH)))))) :: ((Npos (Coq_xO (Coq_xO (Coq_xI (Coq_xI (Coq_xO
    (Coq_xI Coq_xH))))))) :: [])))))

(** val progress_clamped : bool **)

let progress_clamped =
  true

(** val progress_throttle_ms : coq_Z **)

let progress_throttle_ms =
  Zpos (Coq_xO (Coq_xO (Coq_xO (Coq_xI (Coq_xO (Coq_xO (Coq_xI Coq_xH)))))))

(** val progress_pct_default : coq_N list **)

let progress_pct_default =
  (Npos (Coq_xI (Coq_xO (Coq_xO (Coq_xO (Coq_xI Coq_xH)))))) :: ((Npos
    (Coq_xO (Coq_xO (Coq_xO (Coq_xO (Coq_xI Coq_xH)))))) :: ((Npos (Coq_xO
    (Coq_xO (Coq_xO (Coq_xO (Coq_xI Coq_xH)))))) :: ((Npos (Coq_xI (Coq_xO
    (Coq_xI (Coq_xO (Coq_xO Coq_xH)))))) :: [])))

(** val progress_pct_scale : coq_Z **)

let progress_pct_scale =
  Zpos (Coq_xO (Coq_xO (Coq_xI (Coq_xO (Coq_xO (Coq_xI Coq_xH))))))

(** val progress_redraw_tmux_fmt : coq_N list **)

let progress_redraw_tmux_fmt =
  (Npos (Coq_xI (Coq_xI (Coq_xO (Coq_xI Coq_xH))))) :: ((Npos (Coq_xI (Coq_xI
    (Coq_xO (Coq_xI (Coq_xI (Coq_xO Coq_xH))))))) :: ((Npos (Coq_xI (Coq_xO
    (Coq_xI (Coq_xO (Coq_xO Coq_xH)))))) :: ((Npos (Coq_xO (Coq_xO (Coq_xI
    (Coq_xO (Coq_xO (Coq_xI Coq_xH))))))) :: ((Npos (Coq_xO (Coq_xO (Coq_xI
    (Coq_xO (Coq_xO (Coq_xO Coq_xH))))))) :: ((Npos (Coq_xI (Coq_xO (Coq_xI
    (Coq_xO (Coq_xO Coq_xH)))))) :: ((Npos (Coq_xI (Coq_xI (Coq_xO (Coq_xO
    (Coq_xI (Coq_xI Coq_xH))))))) :: []))))))

(** val progress_redraw_cr_fmt : coq_N list **)

let progress_redraw_cr_fmt =
  (Npos (Coq_xI (Coq_xO (Coq_xI Coq_xH)))) :: ((Npos (Coq_xI (Coq_xO (Coq_xI
    (Coq_xO (Coq_xO Coq_xH)))))) :: ((Npos (Coq_xI (Coq_xI (Coq_xO (Coq_xO
    (Coq_xI (Coq_xI Coq_xH))))))) :: []))

(** val progress_bar_min : coq_Z **)

let progress_bar_min =
  Zpos (Coq_xO (Coq_xO (Coq_xI Coq_xH)))

(** val progress_bar_brackets : coq_Z **)

let progress_bar_brackets =
  Zpos (Coq_xO Coq_xH)

(** val progress_bar_fmt : coq_N list **)

let progress_bar_fmt =
  (Npos (Coq_xI (Coq_xI (Coq_xO (Coq_xI (Coq_xI (Coq_xO
    Coq_xH))))))) :: ((Npos (Coq_xI (Coq_xI (Coq_xO (Coq_xI
    Coq_xH))))) :: ((Npos (Coq_xI (Coq_xI (Coq_xO (Coq_xI (Coq_xI (Coq_xO
    Coq_xH))))))) :: ((Npos (Coq_xI (Coq_xI (Coq_xO (Coq_xO (Coq_xI
    Coq_xH)))))) :: ((Npos (Coq_xO (Coq_xI (Coq_xI (Coq_xO (Coq_xI
    Coq_xH)))))) :: ((Npos (Coq_xI (Coq_xO (Coq_xI (Coq_xI (Coq_xO (Coq_xI
    Coq_xH))))))) :: ((Npos (Coq_xI (Coq_xO (Coq_xI (Coq_xO (Coq_xO
    Coq_xH)))))) :: ((Npos (Coq_xI (Coq_xI (Coq_xO (Coq_xO (Coq_xI (Coq_xI
    Coq_xH))))))) :: ((Npos (Coq_xI (Coq_xO (Coq_xI (Coq_xO (Coq_xO
    Coq_xH)))))) :: ((Npos (Coq_xI (Coq_xI (Coq_xO (Coq_xO (Coq_xI (Coq_xI
    Coq_xH))))))) :: ((Npos (Coq_xI (Coq_xI (Coq_xO (Coq_xI
    Coq_xH))))) :: ((Npos (Coq_xI (Coq_xI (Coq_xO (Coq_xI (Coq_xI (Coq_xO
    Coq_xH))))))) :: ((Npos (Coq_xO (Coq_xO (Coq_xO (Coq_xO (Coq_xI
    Coq_xH)))))) :: ((Npos (Coq_xI (Coq_xO (Coq_xI (Coq_xI (Coq_xO (Coq_xI
    Coq_xH))))))) :: ((Npos (Coq_xI (Coq_xO (Coq_xI (Coq_xI (Coq_xI (Coq_xO
    Coq_xH))))))) :: []))))))))))))))

(** val progress_bar_full_rune : coq_N **)

let progress_bar_full_rune =
  Npos (Coq_xO (Coq_xO (Coq_xO (Coq_xI (Coq_xO (Coq_xO (Coq_xO (Coq_xI
    (Coq_xI (Coq_xO (Coq_xI (Coq_xO (Coq_xO Coq_xH)))))))))))))

(** val progress_bar_empty_rune : coq_N **)

let progress_bar_empty_rune =
  Npos (Coq_xI (Coq_xO (Coq_xO (Coq_xO (Coq_xI (Coq_xO (Coq_xO (Coq_xI
    (Coq_xI (Coq_xO (Coq_xI (Coq_xO (Coq_xO Coq_xH)))))))))))))

(** val progress_pane_ignored : coq_Z **)

let progress_pane_ignored =
  Z0

(** val progress_show_cursor : coq_N list **)

let progress_show_cursor =
  (Npos (Coq_xI (Coq_xI (Coq_xO (Coq_xI Coq_xH))))) :: ((Npos (Coq_xI (Coq_xI
    (Coq_xO (Coq_xI (Coq_xI (Coq_xO Coq_xH))))))) :: ((Npos (Coq_xI (Coq_xI
    (Coq_xI (Coq_xI (Coq_xI Coq_xH)))))) :: ((Npos (Coq_xO (Coq_xI (Coq_xO
    (Coq_xO (Coq_xI Coq_xH)))))) :: ((Npos (Coq_xI (Coq_xO (Coq_xI (Coq_xO
    (Coq_xI Coq_xH)))))) :: ((Npos (Coq_xO (Coq_xO (Coq_xO (Coq_xI (Coq_xO
    (Coq_xI Coq_xH))))))) :: [])))))

(** val progress_bar_min_length : coq_Z **)

let progress_bar_min_length =
  Zpos (Coq_xO (Coq_xO (Coq_xO (Coq_xI Coq_xH))))

(** val progress_multi_threshold : coq_Z **)

let progress_multi_threshold =
  Zpos Coq_xH

(** val progress_multi_fmt : coq_N list **)

let progress_multi_fmt =
  (Npos (Coq_xO (Coq_xO (Coq_xO (Coq_xI (Coq_xO Coq_xH)))))) :: ((Npos
    (Coq_xI (Coq_xO (Coq_xI (Coq_xO (Coq_xO Coq_xH)))))) :: ((Npos (Coq_xO
    (Coq_xO (Coq_xI (Coq_xO (Coq_xO (Coq_xI Coq_xH))))))) :: ((Npos (Coq_xI
    (Coq_xI (Coq_xI (Coq_xI (Coq_xO Coq_xH)))))) :: ((Npos (Coq_xI (Coq_xO
    (Coq_xI (Coq_xO (Coq_xO Coq_xH)))))) :: ((Npos (Coq_xO (Coq_xO (Coq_xI
    (Coq_xO (Coq_xO (Coq_xI Coq_xH))))))) :: ((Npos (Coq_xI (Coq_xO (Coq_xO
    (Coq_xI (Coq_xO Coq_xH)))))) :: ((Npos (Coq_xO (Coq_xO (Coq_xO (Coq_xO
    (Coq_xO Coq_xH)))))) :: ((Npos (Coq_xI (Coq_xO (Coq_xI (Coq_xO (Coq_xO
    Coq_xH)))))) :: ((Npos (Coq_xI (Coq_xI (Coq_xO (Coq_xO (Coq_xI (Coq_xI
    Coq_xH))))))) :: [])))))))))

(** val progress_left_sep : coq_N list **)

let progress_left_sep =
  (Npos (Coq_xO (Coq_xO (Coq_xO (Coq_xO (Coq_xO Coq_xH)))))) :: []

(** val progress_ladder :
    ((coq_N * (coq_Z * coq_Z)) * (coq_N list * coq_N list)) list **)

let progress_ladder =
  (((Npos (Coq_xO Coq_xH)), (Z0, Z0)), (((Npos (Coq_xO (Coq_xO (Coq_xO
    (Coq_xO (Coq_xO Coq_xH)))))) :: ((Npos (Coq_xI (Coq_xO (Coq_xI (Coq_xO
    (Coq_xO Coq_xH)))))) :: ((Npos (Coq_xI (Coq_xI (Coq_xO (Coq_xO (Coq_xI
    (Coq_xI Coq_xH))))))) :: ((Npos (Coq_xO (Coq_xO (Coq_xO (Coq_xO (Coq_xO
    Coq_xH)))))) :: ((Npos (Coq_xO (Coq_xO (Coq_xI (Coq_xI (Coq_xI (Coq_xI
    Coq_xH))))))) :: ((Npos (Coq_xO (Coq_xO (Coq_xO (Coq_xO (Coq_xO
    Coq_xH)))))) :: ((Npos (Coq_xI (Coq_xO (Coq_xI (Coq_xO (Coq_xO
    Coq_xH)))))) :: ((Npos (Coq_xI (Coq_xI (Coq_xO (Coq_xO (Coq_xI (Coq_xI
    Coq_xH))))))) :: ((Npos (Coq_xO (Coq_xO (Coq_xO (Coq_xO (Coq_xO
    Coq_xH)))))) :: ((Npos (Coq_xO (Coq_xO (Coq_xI (Coq_xI (Coq_xI (Coq_xI
    Coq_xH))))))) :: ((Npos (Coq_xO (Coq_xO (Coq_xO (Coq_xO (Coq_xO
    Coq_xH)))))) :: ((Npos (Coq_xI (Coq_xO (Coq_xI (Coq_xO (Coq_xO
    Coq_xH)))))) :: ((Npos (Coq_xI (Coq_xI (Coq_xO (Coq_xO (Coq_xI (Coq_xI
    Coq_xH))))))) :: ((Npos (Coq_xO (Coq_xO (Coq_xO (Coq_xO (Coq_xO
    Coq_xH)))))) :: ((Npos (Coq_xO (Coq_xO (Coq_xI (Coq_xI (Coq_xI (Coq_xI
    Coq_xH))))))) :: ((Npos (Coq_xO (Coq_xO (Coq_xO (Coq_xO (Coq_xO
    Coq_xH)))))) :: ((Npos (Coq_xI (Coq_xO (Coq_xI (Coq_xO (Coq_xO
    Coq_xH)))))) :: ((Npos (Coq_xI (Coq_xI (Coq_xO (Coq_xO (Coq_xI (Coq_xI
    Coq_xH))))))) :: [])))))))))))))))))), (N0 :: ((Npos Coq_xH) :: ((Npos
    (Coq_xO Coq_xH)) :: ((Npos (Coq_xI Coq_xH)) :: [])))))) :: (((N0, (Z0,
    Z0)), ([], [])) :: ((((Npos Coq_xH), ((Zpos (Coq_xO (Coq_xI (Coq_xO
    (Coq_xO (Coq_xI Coq_xH)))))), (Zpos (Coq_xO (Coq_xI (Coq_xO (Coq_xO
    (Coq_xI Coq_xH)))))))), ([], [])) :: (((N0, (Z0, Z0)), ([],
    [])) :: ((((Npos Coq_xH), ((Zpos (Coq_xO (Coq_xO (Coq_xO (Coq_xI (Coq_xO
    Coq_xH)))))), (Zpos (Coq_xO (Coq_xO (Coq_xO (Coq_xI (Coq_xO
    Coq_xH)))))))), ([], [])) :: (((N0, (Z0, Z0)), ([], [])) :: ((((Npos
    (Coq_xO Coq_xH)), (Z0, Z0)), (((Npos (Coq_xO (Coq_xO (Coq_xO (Coq_xO
    (Coq_xO Coq_xH)))))) :: ((Npos (Coq_xI (Coq_xO (Coq_xI (Coq_xO (Coq_xO
    Coq_xH)))))) :: ((Npos (Coq_xI (Coq_xI (Coq_xO (Coq_xO (Coq_xI (Coq_xI
    Coq_xH))))))) :: ((Npos (Coq_xO (Coq_xO (Coq_xO (Coq_xO (Coq_xO
    Coq_xH)))))) :: ((Npos (Coq_xO (Coq_xO (Coq_xI (Coq_xI (Coq_xI (Coq_xI
    Coq_xH))))))) :: ((Npos (Coq_xO (Coq_xO (Coq_xO (Coq_xO (Coq_xO
    Coq_xH)))))) :: ((Npos (Coq_xI (Coq_xO (Coq_xI (Coq_xO (Coq_xO
    Coq_xH)))))) :: ((Npos (Coq_xI (Coq_xI (Coq_xO (Coq_xO (Coq_xI (Coq_xI
    Coq_xH))))))) :: ((Npos (Coq_xO (Coq_xO (Coq_xO (Coq_xO (Coq_xO
    Coq_xH)))))) :: ((Npos (Coq_xO (Coq_xO (Coq_xI (Coq_xI (Coq_xI (Coq_xI
    Coq_xH))))))) :: ((Npos (Coq_xO (Coq_xO (Coq_xO (Coq_xO (Coq_xO
    Coq_xH)))))) :: ((Npos (Coq_xI (Coq_xO (Coq_xI (Coq_xO (Coq_xO
    Coq_xH)))))) :: ((Npos (Coq_xI (Coq_xI (Coq_xO (Coq_xO (Coq_xI (Coq_xI
    Coq_xH))))))) :: []))))))))))))), (N0 :: ((Npos (Coq_xO
    Coq_xH)) :: ((Npos (Coq_xI Coq_xH)) :: []))))) :: (((N0, (Z0, Z0)), ([],
    [])) :: ((((Npos Coq_xH), ((Zpos (Coq_xO (Coq_xI (Coq_xI (Coq_xI
    Coq_xH))))), (Zpos (Coq_xO (Coq_xI (Coq_xI (Coq_xI Coq_xH))))))), ([],
    [])) :: (((N0, (Z0, Z0)), ([], [])) :: ((((Npos (Coq_xO Coq_xH)), (Z0,
    Z0)), (((Npos (Coq_xO (Coq_xO (Coq_xO (Coq_xO (Coq_xO
    Coq_xH)))))) :: ((Npos (Coq_xI (Coq_xO (Coq_xI (Coq_xO (Coq_xO
    Coq_xH)))))) :: ((Npos (Coq_xI (Coq_xI (Coq_xO (Coq_xO (Coq_xI (Coq_xI
    Coq_xH))))))) :: ((Npos (Coq_xO (Coq_xO (Coq_xO (Coq_xO (Coq_xO
    Coq_xH)))))) :: ((Npos (Coq_xO (Coq_xO (Coq_xI (Coq_xI (Coq_xI (Coq_xI
    Coq_xH))))))) :: ((Npos (Coq_xO (Coq_xO (Coq_xO (Coq_xO (Coq_xO
    Coq_xH)))))) :: ((Npos (Coq_xI (Coq_xO (Coq_xI (Coq_xO (Coq_xO
    Coq_xH)))))) :: ((Npos (Coq_xI (Coq_xI (Coq_xO (Coq_xO (Coq_xI (Coq_xI
    Coq_xH))))))) :: [])))))))), (N0 :: ((Npos (Coq_xI
    Coq_xH)) :: [])))) :: (((N0, (Z0, Z0)), ([], [])) :: ((((Npos (Coq_xO
    Coq_xH)), (Z0, Z0)), (((Npos (Coq_xO (Coq_xO (Coq_xO (Coq_xO (Coq_xO
    Coq_xH)))))) :: ((Npos (Coq_xI (Coq_xO (Coq_xI (Coq_xO (Coq_xO
    Coq_xH)))))) :: ((Npos (Coq_xI (Coq_xI (Coq_xO (Coq_xO (Coq_xI (Coq_xI
    Coq_xH))))))) :: []))), (N0 :: []))) :: (((N0, (Z0, Z0)), ([],
    [])) :: ((((Npos Coq_xH), ((Zpos (Coq_xO (Coq_xO (Coq_xI (Coq_xO
    Coq_xH))))), (Zpos (Coq_xO (Coq_xO (Coq_xI (Coq_xO Coq_xH))))))), ([],
    [])) :: (((N0, (Z0, Z0)), ([], [])) :: ((((Npos (Coq_xI Coq_xH)), (Z0,
    Z0)), ([], [])) :: []))))))))))))))))

(** val c02_succ_waits_saver : bool **)

let c02_succ_waits_saver =
  true

(** val c02_resume_rest_guard : coq_N **)

let c02_resume_rest_guard =
  Npos (Coq_xO Coq_xH)

(** val c02_resume_truncates : coq_N **)

let c02_resume_truncates =
  Npos Coq_xH

(** val c02_resume_size_guard : coq_N **)

let c02_resume_size_guard =
  Npos Coq_xH

(** val pump_transfer_buf_size : coq_N **)

let pump_transfer_buf_size =
  Npos (Coq_xO (Coq_xO (Coq_xO (Coq_xO (Coq_xO (Coq_xO (Coq_xO (Coq_xO
    (Coq_xO (Coq_xO (Coq_xO (Coq_xO (Coq_xO (Coq_xO (Coq_xO
    Coq_xH)))))))))))))))

(** val pump_filter_buf_size : coq_N **)

let pump_filter_buf_size =
  Npos (Coq_xO (Coq_xO (Coq_xO (Coq_xO (Coq_xO (Coq_xO (Coq_xO (Coq_xO
    (Coq_xO (Coq_xO (Coq_xO (Coq_xO (Coq_xO (Coq_xO (Coq_xO
    Coq_xH)))))))))))))))

(** val pump_relay_stdin_buf_size : coq_N **)

let pump_relay_stdin_buf_size =
  Npos (Coq_xO (Coq_xO (Coq_xO (Coq_xO (Coq_xO (Coq_xO (Coq_xO (Coq_xO
    (Coq_xO (Coq_xO (Coq_xO (Coq_xO (Coq_xO (Coq_xO (Coq_xO
    Coq_xH)))))))))))))))

(** val pump_relay_stdout_buf_size : coq_N **)

let pump_relay_stdout_buf_size =
  Npos (Coq_xO (Coq_xO (Coq_xO (Coq_xO (Coq_xO (Coq_xO (Coq_xO (Coq_xO
    (Coq_xO (Coq_xO (Coq_xO (Coq_xO (Coq_xO (Coq_xO (Coq_xO
    Coq_xH)))))))))))))))

(** val pump_tunnel_in_buf_size : coq_N **)

let pump_tunnel_in_buf_size =
  Npos (Coq_xO (Coq_xO (Coq_xO (Coq_xO (Coq_xO (Coq_xO (Coq_xO (Coq_xO
    (Coq_xO (Coq_xO (Coq_xO (Coq_xO (Coq_xO (Coq_xO (Coq_xO
    Coq_xH)))))))))))))))

(** val pump_tunnel_out_buf_size : coq_N **)

let pump_tunnel_out_buf_size =
  Npos (Coq_xO (Coq_xO (Coq_xO (Coq_xO (Coq_xO (Coq_xO (Coq_xO (Coq_xO
    (Coq_xO (Coq_xO (Coq_xO (Coq_xO (Coq_xO (Coq_xO (Coq_xO
    Coq_xH)))))))))))))))

(** val relay_standby : coq_N **)

let relay_standby =
  N0

(** val relay_handshaking : coq_N **)

let relay_handshaking =
  Npos Coq_xH

(** val relay_transferring : coq_N **)

let relay_transferring =
  Npos (Coq_xO Coq_xH)

(** val relay_reset_guarded : bool **)

let relay_reset_guarded =
  true

(** val relay_handshaking_stored_by_reader : bool **)

let relay_handshaking_stored_by_reader =
  true

(** val relayneg_protocol_version : coq_Z **)

let relayneg_protocol_version =
  Zpos (Coq_xO (Coq_xO Coq_xH))

(** val relayneg_relay_stand_by : coq_N **)

let relayneg_relay_stand_by =
  N0

(** val relayneg_relay_handshaking : coq_N **)

let relayneg_relay_handshaking =
  Npos Coq_xH

(** val relayneg_relay_transferring : coq_N **)

let relayneg_relay_transferring =
  Npos (Coq_xO Coq_xH)

(** val relayneg_tmux_normal_mode : coq_N **)

let relayneg_tmux_normal_mode =
  Npos Coq_xH

(** val relayneg_markers_in : coq_N list list **)

let relayneg_markers_in =
  ((Npos (Coq_xI (Coq_xI (Coq_xO (Coq_xO (Coq_xO Coq_xH)))))) :: ((Npos
    (Coq_xI (Coq_xO (Coq_xI (Coq_xO (Coq_xO (Coq_xO Coq_xH))))))) :: ((Npos
    (Coq_xO (Coq_xO (Coq_xO (Coq_xI (Coq_xI (Coq_xO Coq_xH))))))) :: ((Npos
    (Coq_xI (Coq_xO (Coq_xO (Coq_xI (Coq_xO (Coq_xO Coq_xH))))))) :: ((Npos
    (Coq_xO (Coq_xO (Coq_xI (Coq_xO (Coq_xI (Coq_xO Coq_xH))))))) :: ((Npos
    (Coq_xO (Coq_xI (Coq_xO (Coq_xI (Coq_xI
    Coq_xH)))))) :: [])))))) :: (((Npos (Coq_xI (Coq_xI (Coq_xO (Coq_xO
    (Coq_xO Coq_xH)))))) :: ((Npos (Coq_xO (Coq_xI (Coq_xI (Coq_xO (Coq_xO
    (Coq_xO Coq_xH))))))) :: ((Npos (Coq_xI (Coq_xO (Coq_xO (Coq_xO (Coq_xO
    (Coq_xO Coq_xH))))))) :: ((Npos (Coq_xI (Coq_xO (Coq_xO (Coq_xI (Coq_xO
    (Coq_xO Coq_xH))))))) :: ((Npos (Coq_xO (Coq_xO (Coq_xI (Coq_xI (Coq_xO
    (Coq_xO Coq_xH))))))) :: ((Npos (Coq_xO (Coq_xI (Coq_xO (Coq_xI (Coq_xI
    Coq_xH)))))) :: [])))))) :: (((Npos (Coq_xI (Coq_xI (Coq_xO (Coq_xO
    (Coq_xO Coq_xH)))))) :: ((Npos (Coq_xO (Coq_xI (Coq_xI (Coq_xO (Coq_xO
    (Coq_xI Coq_xH))))))) :: ((Npos (Coq_xI (Coq_xO (Coq_xO (Coq_xO (Coq_xO
    (Coq_xI Coq_xH))))))) :: ((Npos (Coq_xI (Coq_xO (Coq_xO (Coq_xI (Coq_xO
    (Coq_xI Coq_xH))))))) :: ((Npos (Coq_xO (Coq_xO (Coq_xI (Coq_xI (Coq_xO
    (Coq_xI Coq_xH))))))) :: ((Npos (Coq_xO (Coq_xI (Coq_xO (Coq_xI (Coq_xI
    Coq_xH)))))) :: [])))))) :: []))

(** val relayneg_markers_out : coq_N list list **)

let relayneg_markers_out =
  ((Npos (Coq_xI (Coq_xI (Coq_xO (Coq_xO (Coq_xO Coq_xH)))))) :: ((Npos
    (Coq_xI (Coq_xO (Coq_xI (Coq_xO (Coq_xO (Coq_xO Coq_xH))))))) :: ((Npos
    (Coq_xO (Coq_xO (Coq_xO (Coq_xI (Coq_xI (Coq_xO Coq_xH))))))) :: ((Npos
    (Coq_xI (Coq_xO (Coq_xO (Coq_xI (Coq_xO (Coq_xO Coq_xH))))))) :: ((Npos
    (Coq_xO (Coq_xO (Coq_xI (Coq_xO (Coq_xI (Coq_xO Coq_xH))))))) :: ((Npos
    (Coq_xO (Coq_xI (Coq_xO (Coq_xI (Coq_xI
    Coq_xH)))))) :: [])))))) :: (((Npos (Coq_xI (Coq_xI (Coq_xO (Coq_xO
    (Coq_xO Coq_xH)))))) :: ((Npos (Coq_xO (Coq_xI (Coq_xI (Coq_xO (Coq_xO
    (Coq_xO Coq_xH))))))) :: ((Npos (Coq_xI (Coq_xO (Coq_xO (Coq_xO (Coq_xO
    (Coq_xO Coq_xH))))))) :: ((Npos (Coq_xI (Coq_xO (Coq_xO (Coq_xI (Coq_xO
    (Coq_xO Coq_xH))))))) :: ((Npos (Coq_xO (Coq_xO (Coq_xI (Coq_xI (Coq_xO
    (Coq_xO Coq_xH))))))) :: ((Npos (Coq_xO (Coq_xI (Coq_xO (Coq_xI (Coq_xI
    Coq_xH)))))) :: [])))))) :: (((Npos (Coq_xI (Coq_xI (Coq_xO (Coq_xO
    (Coq_xO Coq_xH)))))) :: ((Npos (Coq_xO (Coq_xI (Coq_xI (Coq_xO (Coq_xO
    (Coq_xI Coq_xH))))))) :: ((Npos (Coq_xI (Coq_xO (Coq_xO (Coq_xO (Coq_xO
    (Coq_xI Coq_xH))))))) :: ((Npos (Coq_xI (Coq_xO (Coq_xO (Coq_xI (Coq_xO
    (Coq_xI Coq_xH))))))) :: ((Npos (Coq_xO (Coq_xO (Coq_xI (Coq_xI (Coq_xO
    (Coq_xI Coq_xH))))))) :: ((Npos (Coq_xO (Coq_xI (Coq_xO (Coq_xI (Coq_xI
    Coq_xH)))))) :: [])))))) :: []))

(** val relayneg_markers_tunnel_in : coq_N list list **)

let relayneg_markers_tunnel_in =
  ((Npos (Coq_xI (Coq_xI (Coq_xO (Coq_xO (Coq_xO Coq_xH)))))) :: ((Npos
    (Coq_xI (Coq_xO (Coq_xI (Coq_xO (Coq_xO (Coq_xO Coq_xH))))))) :: ((Npos
    (Coq_xO (Coq_xO (Coq_xO (Coq_xI (Coq_xI (Coq_xO Coq_xH))))))) :: ((Npos
    (Coq_xI (Coq_xO (Coq_xO (Coq_xI (Coq_xO (Coq_xO Coq_xH))))))) :: ((Npos
    (Coq_xO (Coq_xO (Coq_xI (Coq_xO (Coq_xI (Coq_xO Coq_xH))))))) :: ((Npos
    (Coq_xO (Coq_xI (Coq_xO (Coq_xI (Coq_xI
    Coq_xH)))))) :: [])))))) :: (((Npos (Coq_xI (Coq_xI (Coq_xO (Coq_xO
    (Coq_xO Coq_xH)))))) :: ((Npos (Coq_xO (Coq_xI (Coq_xI (Coq_xO (Coq_xO
    (Coq_xO Coq_xH))))))) :: ((Npos (Coq_xI (Coq_xO (Coq_xO (Coq_xO (Coq_xO
    (Coq_xO Coq_xH))))))) :: ((Npos (Coq_xI (Coq_xO (Coq_xO (Coq_xI (Coq_xO
    (Coq_xO Coq_xH))))))) :: ((Npos (Coq_xO (Coq_xO (Coq_xI (Coq_xI (Coq_xO
    (Coq_xO Coq_xH))))))) :: ((Npos (Coq_xO (Coq_xI (Coq_xO (Coq_xI (Coq_xI
    Coq_xH)))))) :: [])))))) :: (((Npos (Coq_xI (Coq_xI (Coq_xO (Coq_xO
    (Coq_xO Coq_xH)))))) :: ((Npos (Coq_xO (Coq_xI (Coq_xI (Coq_xO (Coq_xO
    (Coq_xI Coq_xH))))))) :: ((Npos (Coq_xI (Coq_xO (Coq_xO (Coq_xO (Coq_xO
    (Coq_xI Coq_xH))))))) :: ((Npos (Coq_xI (Coq_xO (Coq_xO (Coq_xI (Coq_xO
    (Coq_xI Coq_xH))))))) :: ((Npos (Coq_xO (Coq_xO (Coq_xI (Coq_xI (Coq_xO
    (Coq_xI Coq_xH))))))) :: ((Npos (Coq_xO (Coq_xI (Coq_xO (Coq_xI (Coq_xI
    Coq_xH)))))) :: [])))))) :: []))

(** val relayneg_markers_tunnel_out : coq_N list list **)

let relayneg_markers_tunnel_out =
  ((Npos (Coq_xI (Coq_xI (Coq_xO (Coq_xO (Coq_xO Coq_xH)))))) :: ((Npos
    (Coq_xI (Coq_xO (Coq_xI (Coq_xO (Coq_xO (Coq_xO Coq_xH))))))) :: ((Npos
    (Coq_xO (Coq_xO (Coq_xO (Coq_xI (Coq_xI (Coq_xO Coq_xH))))))) :: ((Npos
    (Coq_xI (Coq_xO (Coq_xO (Coq_xI (Coq_xO (Coq_xO Coq_xH))))))) :: ((Npos
    (Coq_xO (Coq_xO (Coq_xI (Coq_xO (Coq_xI (Coq_xO Coq_xH))))))) :: ((Npos
    (Coq_xO (Coq_xI (Coq_xO (Coq_xI (Coq_xI
    Coq_xH)))))) :: [])))))) :: (((Npos (Coq_xI (Coq_xI (Coq_xO (Coq_xO
    (Coq_xO Coq_xH)))))) :: ((Npos (Coq_xO (Coq_xI (Coq_xI (Coq_xO (Coq_xO
    (Coq_xO Coq_xH))))))) :: ((Npos (Coq_xI (Coq_xO (Coq_xO (Coq_xO (Coq_xO
    (Coq_xO Coq_xH))))))) :: ((Npos (Coq_xI (Coq_xO (Coq_xO (Coq_xI (Coq_xO
    (Coq_xO Coq_xH))))))) :: ((Npos (Coq_xO (Coq_xO (Coq_xI (Coq_xI (Coq_xO
    (Coq_xO Coq_xH))))))) :: ((Npos (Coq_xO (Coq_xI (Coq_xO (Coq_xI (Coq_xI
    Coq_xH)))))) :: [])))))) :: (((Npos (Coq_xI (Coq_xI (Coq_xO (Coq_xO
    (Coq_xO Coq_xH)))))) :: ((Npos (Coq_xO (Coq_xI (Coq_xI (Coq_xO (Coq_xO
    (Coq_xI Coq_xH))))))) :: ((Npos (Coq_xI (Coq_xO (Coq_xO (Coq_xO (Coq_xO
    (Coq_xI Coq_xH))))))) :: ((Npos (Coq_xI (Coq_xO (Coq_xO (Coq_xI (Coq_xO
    (Coq_xI Coq_xH))))))) :: ((Npos (Coq_xO (Coq_xO (Coq_xI (Coq_xI (Coq_xO
    (Coq_xI Coq_xH))))))) :: ((Npos (Coq_xO (Coq_xI (Coq_xO (Coq_xI (Coq_xI
    Coq_xH)))))) :: [])))))) :: []))

(** val relayneg_ctrl_c_len : coq_N **)

let relayneg_ctrl_c_len =
  Npos Coq_xH

(** val relayneg_ctrl_c : coq_N **)

let relayneg_ctrl_c =
  Npos (Coq_xI Coq_xH)

(** val relayneg_relay_act_newline : coq_N list **)

let relayneg_relay_act_newline =
  (Npos (Coq_xO (Coq_xI (Coq_xO Coq_xH)))) :: []

(** val relayneg_relay_act_binary : bool **)

let relayneg_relay_act_binary =
  true

(** val relayneg_server_act_newline : coq_N list **)

let relayneg_server_act_newline =
  (Npos (Coq_xO (Coq_xI (Coq_xO Coq_xH)))) :: []

(** val relayneg_server_act_binary : bool **)

let relayneg_server_act_binary =
  true

(** val relayneg_relay_cfg_timeout : coq_Z **)

let relayneg_relay_cfg_timeout =
  Zpos (Coq_xO (Coq_xO (Coq_xI (Coq_xO Coq_xH))))

(** val relayneg_relay_cfg_newline : coq_N list **)

let relayneg_relay_cfg_newline =
  (Npos (Coq_xO (Coq_xI (Coq_xO Coq_xH)))) :: []

(** val relayneg_relay_cfg_bufsize : coq_Z **)

let relayneg_relay_cfg_bufsize =
  Zpos (Coq_xO (Coq_xO (Coq_xO (Coq_xO (Coq_xO (Coq_xO (Coq_xO (Coq_xO
    (Coq_xO (Coq_xO (Coq_xO (Coq_xO (Coq_xO (Coq_xO (Coq_xO (Coq_xO (Coq_xO
    (Coq_xO (Coq_xO (Coq_xO (Coq_xO (Coq_xI (Coq_xO
    Coq_xH)))))))))))))))))))))))

(** val relayneg_client_cfg_timeout : coq_Z **)

let relayneg_client_cfg_timeout =
  Zpos (Coq_xO (Coq_xO (Coq_xI (Coq_xO Coq_xH))))

(** val relayneg_client_cfg_newline : coq_N list **)

let relayneg_client_cfg_newline =
  (Npos (Coq_xO (Coq_xI (Coq_xO Coq_xH)))) :: []

(** val relayneg_client_cfg_bufsize : coq_Z **)

let relayneg_client_cfg_bufsize =
  Zpos (Coq_xO (Coq_xO (Coq_xO (Coq_xO (Coq_xO (Coq_xO (Coq_xO (Coq_xO
    (Coq_xO (Coq_xO (Coq_xO (Coq_xO (Coq_xO (Coq_xO (Coq_xO (Coq_xO (Coq_xO
    (Coq_xO (Coq_xO (Coq_xO (Coq_xO (Coq_xI (Coq_xO
    Coq_xH)))))))))))))))))))))))

(** val relayneg_relay_cfg_win_newline : coq_N list **)

let relayneg_relay_cfg_win_newline =
  (Npos (Coq_xI (Coq_xO (Coq_xO (Coq_xO (Coq_xO Coq_xH)))))) :: ((Npos
    (Coq_xO (Coq_xI (Coq_xO Coq_xH)))) :: [])

(** val relayneg_client_win_newline : coq_N list **)

let relayneg_client_win_newline =
  (Npos (Coq_xI (Coq_xO (Coq_xO (Coq_xO (Coq_xO Coq_xH)))))) :: ((Npos
    (Coq_xO (Coq_xI (Coq_xO Coq_xH)))) :: [])

(** val relayneg_reset_clears_tunnel_flag : bool **)

let relayneg_reset_clears_tunnel_flag =
  true

(** val relayneg_handshake_sets_tunnel_flag : bool **)

let relayneg_handshake_sets_tunnel_flag =
  true

(** val relayneg_to_client_nl : coq_N list **)

let relayneg_to_client_nl =
  (Npos (Coq_xO (Coq_xI (Coq_xO Coq_xH)))) :: []

(** val relayneg_to_client_win_nl : coq_N list **)

let relayneg_to_client_win_nl =
  (Npos (Coq_xI (Coq_xO (Coq_xO (Coq_xO (Coq_xO Coq_xH)))))) :: ((Npos
    (Coq_xO (Coq_xI (Coq_xO Coq_xH)))) :: [])

(** val relayneg_to_server_nl : coq_N list **)

let relayneg_to_server_nl =
  (Npos (Coq_xO (Coq_xI (Coq_xO Coq_xH)))) :: []

(** val relayneg_to_server_win_nl : coq_N list **)

let relayneg_to_server_win_nl =
  (Npos (Coq_xI (Coq_xO (Coq_xO (Coq_xO (Coq_xO Coq_xH)))))) :: ((Npos
    (Coq_xO (Coq_xI (Coq_xO Coq_xH)))) :: [])

(** val relayneg_escape_table_has_marshaler : bool **)

let relayneg_escape_table_has_marshaler =
  false

(** val prefix_hash_step : coq_N **)

let prefix_hash_step =
  Npos (Coq_xO (Coq_xO (Coq_xO (Coq_xO (Coq_xO (Coq_xO (Coq_xO (Coq_xO
    (Coq_xO (Coq_xO (Coq_xO (Coq_xO (Coq_xO (Coq_xO (Coq_xO (Coq_xO (Coq_xO
    (Coq_xO (Coq_xO (Coq_xO (Coq_xO (Coq_xI (Coq_xO
    Coq_xH)))))))))))))))))))))))

(** val resume_min_protocol : coq_N **)

let resume_min_protocol =
  Npos (Coq_xI Coq_xH)

(** val resume_v3_truncate : bool **)

let resume_v3_truncate =
  false

(** val resume_v2_truncate : bool **)

let resume_v2_truncate =
  true

(** val resume_step_guard : bool **)

let resume_step_guard =
  true

(** val tr_compress_default : bool * coq_N **)

let tr_compress_default =
  (false, N0)

(** val tr_compress_rules : (((coq_N * coq_N) * bool) * coq_N) list **)

let tr_compress_rules =
  (((N0, (Npos (Coq_xI Coq_xH))), true), (Npos (Coq_xO Coq_xH))) :: (((((Npos
    Coq_xH), (Npos Coq_xH)), true), (Npos Coq_xH)) :: (((((Npos Coq_xH),
    (Npos (Coq_xO Coq_xH))), true), N0) :: (((((Npos (Coq_xO Coq_xH)), (Npos
    (Coq_xO (Coq_xO (Coq_xO (Coq_xO (Coq_xO (Coq_xO (Coq_xO (Coq_xO (Coq_xO
    Coq_xH))))))))))), true), N0) :: (((((Npos (Coq_xO Coq_xH)), (Npos
    (Coq_xO (Coq_xO (Coq_xO (Coq_xO (Coq_xO (Coq_xO (Coq_xO (Coq_xO (Coq_xO
    (Coq_xO (Coq_xO (Coq_xO (Coq_xO (Coq_xO (Coq_xO (Coq_xO (Coq_xO
    Coq_xH))))))))))))))))))), true), (Npos Coq_xH)) :: []))))

(** val tr_proto_json_names : coq_N **)

let tr_proto_json_names =
  Npos (Coq_xI Coq_xH)

(** val tr_proto_pipeline : coq_N **)

let tr_proto_pipeline =
  Npos (Coq_xO Coq_xH)

(** val tr_proto_archive : coq_N **)

let tr_proto_archive =
  Npos (Coq_xO (Coq_xO Coq_xH))

(** val tr_proto_resume_nosize : coq_N **)

let tr_proto_resume_nosize =
  Npos (Coq_xO (Coq_xO Coq_xH))

(** val tr_resume_rest_check : bool **)

let tr_resume_rest_check =
  true

(** val tunnel_uid_cut_if_longer : coq_N **)

let tunnel_uid_cut_if_longer =
  Npos (Coq_xO Coq_xH)

(** val tunnel_uid_cut : coq_N **)

let tunnel_uid_cut =
  Npos (Coq_xO Coq_xH)

(** val tunnel_client_hello_fmt : coq_N list **)

let tunnel_client_hello_fmt =
  (Npos (Coq_xO (Coq_xI (Coq_xO (Coq_xI (Coq_xI Coq_xH)))))) :: ((Npos
    (Coq_xO (Coq_xI (Coq_xO (Coq_xI (Coq_xI Coq_xH)))))) :: ((Npos (Coq_xO
    (Coq_xO (Coq_xI (Coq_xO (Coq_xI (Coq_xO Coq_xH))))))) :: ((Npos (Coq_xO
    (Coq_xI (Coq_xO (Coq_xO (Coq_xI (Coq_xO Coq_xH))))))) :: ((Npos (Coq_xO
    (Coq_xI (Coq_xO (Coq_xI (Coq_xI (Coq_xO Coq_xH))))))) :: ((Npos (Coq_xI
    (Coq_xI (Coq_xO (Coq_xO (Coq_xI (Coq_xO Coq_xH))))))) :: ((Npos (Coq_xO
    (Coq_xI (Coq_xO (Coq_xI (Coq_xI (Coq_xO Coq_xH))))))) :: ((Npos (Coq_xO
    (Coq_xI (Coq_xO (Coq_xI (Coq_xI Coq_xH)))))) :: ((Npos (Coq_xO (Coq_xI
    (Coq_xO (Coq_xI (Coq_xI Coq_xH)))))) :: ((Npos (Coq_xI (Coq_xI (Coq_xO
    (Coq_xO (Coq_xO (Coq_xO Coq_xH))))))) :: ((Npos (Coq_xO (Coq_xO (Coq_xI
    (Coq_xI (Coq_xO (Coq_xO Coq_xH))))))) :: ((Npos (Coq_xI (Coq_xO (Coq_xO
    (Coq_xI (Coq_xO (Coq_xO Coq_xH))))))) :: ((Npos (Coq_xI (Coq_xO (Coq_xI
    (Coq_xO (Coq_xO (Coq_xO Coq_xH))))))) :: ((Npos (Coq_xO (Coq_xI (Coq_xI
    (Coq_xI (Coq_xO (Coq_xO Coq_xH))))))) :: ((Npos (Coq_xO (Coq_xO (Coq_xI
    (Coq_xO (Coq_xI (Coq_xO Coq_xH))))))) :: ((Npos (Coq_xO (Coq_xI (Coq_xO
    (Coq_xI (Coq_xI Coq_xH)))))) :: ((Npos (Coq_xO (Coq_xI (Coq_xO (Coq_xI
    (Coq_xI Coq_xH)))))) :: ((Npos (Coq_xO (Coq_xO (Coq_xO (Coq_xI (Coq_xO
    (Coq_xO Coq_xH))))))) :: ((Npos (Coq_xI (Coq_xO (Coq_xI (Coq_xO (Coq_xO
    (Coq_xO Coq_xH))))))) :: ((Npos (Coq_xO (Coq_xO (Coq_xI (Coq_xI (Coq_xO
    (Coq_xO Coq_xH))))))) :: ((Npos (Coq_xO (Coq_xO (Coq_xI (Coq_xI (Coq_xO
    (Coq_xO Coq_xH))))))) :: ((Npos (Coq_xI (Coq_xI (Coq_xI (Coq_xI (Coq_xO
    (Coq_xO Coq_xH))))))) :: ((Npos (Coq_xO (Coq_xI (Coq_xO (Coq_xI (Coq_xI
    Coq_xH)))))) :: ((Npos (Coq_xO (Coq_xI (Coq_xO (Coq_xI (Coq_xI
    Coq_xH)))))) :: ((Npos (Coq_xI (Coq_xO (Coq_xI (Coq_xO (Coq_xO
    Coq_xH)))))) :: ((Npos (Coq_xI (Coq_xI (Coq_xO (Coq_xO (Coq_xI (Coq_xI
    Coq_xH))))))) :: ((Npos (Coq_xO (Coq_xI (Coq_xO (Coq_xI (Coq_xI
    Coq_xH)))))) :: ((Npos (Coq_xI (Coq_xO (Coq_xI (Coq_xO (Coq_xO
    Coq_xH)))))) :: ((Npos (Coq_xO (Coq_xO (Coq_xI (Coq_xO (Coq_xO (Coq_xI
    Coq_xH))))))) :: []))))))))))))))))))))))))))))

(** val tunnel_server_hello_fmt : coq_N list **)

let tunnel_server_hello_fmt =
  (Npos (Coq_xO (Coq_xI (Coq_xO (Coq_xI (Coq_xI Coq_xH)))))) :: ((Npos
    (Coq_xO (Coq_xI (Coq_xO (Coq_xI (Coq_xI Coq_xH)))))) :: ((Npos (Coq_xO
    (Coq_xO (Coq_xI (Coq_xO (Coq_xI (Coq_xO Coq_xH))))))) :: ((Npos (Coq_xO
    (Coq_xI (Coq_xO (Coq_xO (Coq_xI (Coq_xO Coq_xH))))))) :: ((Npos (Coq_xO
    (Coq_xI (Coq_xO (Coq_xI (Coq_xI (Coq_xO Coq_xH))))))) :: ((Npos (Coq_xI
    (Coq_xI (Coq_xO (Coq_xO (Coq_xI (Coq_xO Coq_xH))))))) :: ((Npos (Coq_xO
    (Coq_xI (Coq_xO (Coq_xI (Coq_xI (Coq_xO Coq_xH))))))) :: ((Npos (Coq_xO
    (Coq_xI (Coq_xO (Coq_xI (Coq_xI Coq_xH)))))) :: ((Npos (Coq_xO (Coq_xI
    (Coq_xO (Coq_xI (Coq_xI Coq_xH)))))) :: ((Npos (Coq_xI (Coq_xI (Coq_xO
    (Coq_xO (Coq_xI (Coq_xO Coq_xH))))))) :: ((Npos (Coq_xI (Coq_xO (Coq_xI
    (Coq_xO (Coq_xO (Coq_xO Coq_xH))))))) :: ((Npos (Coq_xO (Coq_xI (Coq_xO
    (Coq_xO (Coq_xI (Coq_xO Coq_xH))))))) :: ((Npos (Coq_xO (Coq_xI (Coq_xI
    (Coq_xO (Coq_xI (Coq_xO Coq_xH))))))) :: ((Npos (Coq_xI (Coq_xO (Coq_xI
    (Coq_xO (Coq_xO (Coq_xO Coq_xH))))))) :: ((Npos (Coq_xO (Coq_xI (Coq_xO
    (Coq_xO (Coq_xI (Coq_xO Coq_xH))))))) :: ((Npos (Coq_xO (Coq_xI (Coq_xO
    (Coq_xI (Coq_xI Coq_xH)))))) :: ((Npos (Coq_xO (Coq_xI (Coq_xO (Coq_xI
    (Coq_xI Coq_xH)))))) :: ((Npos (Coq_xO (Coq_xO (Coq_xO (Coq_xI (Coq_xO
    (Coq_xO Coq_xH))))))) :: ((Npos (Coq_xI (Coq_xO (Coq_xI (Coq_xO (Coq_xO
    (Coq_xO Coq_xH))))))) :: ((Npos (Coq_xO (Coq_xO (Coq_xI (Coq_xI (Coq_xO
    (Coq_xO Coq_xH))))))) :: ((Npos (Coq_xO (Coq_xO (Coq_xI (Coq_xI (Coq_xO
    (Coq_xO Coq_xH))))))) :: ((Npos (Coq_xI (Coq_xI (Coq_xI (Coq_xI (Coq_xO
    (Coq_xO Coq_xH))))))) :: ((Npos (Coq_xO (Coq_xI (Coq_xO (Coq_xI (Coq_xI
    Coq_xH)))))) :: ((Npos (Coq_xO (Coq_xI (Coq_xO (Coq_xI (Coq_xI
    Coq_xH)))))) :: ((Npos (Coq_xI (Coq_xO (Coq_xI (Coq_xO (Coq_xO
    Coq_xH)))))) :: ((Npos (Coq_xI (Coq_xI (Coq_xO (Coq_xO (Coq_xI (Coq_xI
    Coq_xH))))))) :: ((Npos (Coq_xO (Coq_xI (Coq_xO (Coq_xI (Coq_xI
    Coq_xH)))))) :: ((Npos (Coq_xI (Coq_xO (Coq_xI (Coq_xO (Coq_xO
    Coq_xH)))))) :: ((Npos (Coq_xO (Coq_xO (Coq_xI (Coq_xO (Coq_xO (Coq_xI
    Coq_xH))))))) :: []))))))))))))))))))))))))))))

(** val tunnel_hello_read_size : coq_N **)

let tunnel_hello_read_size =
  Npos (Coq_xO (Coq_xO (Coq_xI (Coq_xO (Coq_xO (Coq_xI Coq_xH))))))

(** val tunnel_reply_read_size : coq_N **)

let tunnel_reply_read_size =
  Npos (Coq_xO (Coq_xO (Coq_xI (Coq_xO (Coq_xO (Coq_xI Coq_xH))))))

(** val tunnel_pump_bufsize : coq_N **)

let tunnel_pump_bufsize =
  Npos (Coq_xO (Coq_xO (Coq_xO (Coq_xO (Coq_xO (Coq_xO (Coq_xO (Coq_xO
    (Coq_xO (Coq_xO (Coq_xO (Coq_xO (Coq_xO (Coq_xO (Coq_xO
    Coq_xH)))))))))))))))

(** val rtunnel_rewrite_fmt : coq_N list **)

let rtunnel_rewrite_fmt =
  (Npos (Coq_xO (Coq_xI (Coq_xO (Coq_xI (Coq_xI Coq_xH)))))) :: ((Npos
    (Coq_xI (Coq_xO (Coq_xI (Coq_xO (Coq_xO Coq_xH)))))) :: ((Npos (Coq_xI
    (Coq_xI (Coq_xO (Coq_xO (Coq_xI (Coq_xI Coq_xH))))))) :: ((Npos (Coq_xO
    (Coq_xI (Coq_xO (Coq_xI (Coq_xI Coq_xH)))))) :: ((Npos (Coq_xI (Coq_xO
    (Coq_xI (Coq_xO (Coq_xO Coq_xH)))))) :: ((Npos (Coq_xO (Coq_xO (Coq_xI
    (Coq_xO (Coq_xO (Coq_xI Coq_xH))))))) :: [])))))

(** val rtunnel_hello_read_size : coq_N **)

let rtunnel_hello_read_size =
  Npos (Coq_xO (Coq_xO (Coq_xI (Coq_xO (Coq_xO (Coq_xI Coq_xH))))))

(** val rtunnel_chan_cap : coq_N **)

let rtunnel_chan_cap =
  Npos (Coq_xO (Coq_xI (Coq_xO Coq_xH)))

(** val rtunnel_pump_bufsize : coq_N **)

let rtunnel_pump_bufsize =
  Npos (Coq_xO (Coq_xO (Coq_xO (Coq_xO (Coq_xO (Coq_xO (Coq_xO (Coq_xO
    (Coq_xO (Coq_xO (Coq_xO (Coq_xO (Coq_xO (Coq_xO (Coq_xO
    Coq_xH)))))))))))))))

(** val trzsz_letter_ranges : (coq_N * coq_N) list **)

let trzsz_letter_ranges =
  ((Npos (Coq_xI (Coq_xO (Coq_xO (Coq_xO (Coq_xO (Coq_xI Coq_xH))))))), (Npos
    (Coq_xO (Coq_xI (Coq_xO (Coq_xI (Coq_xI (Coq_xI Coq_xH)))))))) :: (((Npos
    (Coq_xI (Coq_xO (Coq_xO (Coq_xO (Coq_xO (Coq_xO Coq_xH))))))), (Npos
    (Coq_xO (Coq_xI (Coq_xO (Coq_xI (Coq_xI (Coq_xO Coq_xH)))))))) :: (((Npos
    (Coq_xO (Coq_xO (Coq_xO (Coq_xO (Coq_xI Coq_xH)))))), (Npos (Coq_xI
    (Coq_xO (Coq_xO (Coq_xI (Coq_xI Coq_xH))))))) :: []))

(** val trzsz_letter_chars : coq_N list **)

let trzsz_letter_chars =
  (Npos (Coq_xI (Coq_xI (Coq_xO (Coq_xO (Coq_xO Coq_xH)))))) :: ((Npos
    (Coq_xO (Coq_xI (Coq_xO (Coq_xI (Coq_xI Coq_xH)))))) :: ((Npos (Coq_xI
    (Coq_xI (Coq_xO (Coq_xI (Coq_xO Coq_xH)))))) :: ((Npos (Coq_xI (Coq_xI
    (Coq_xI (Coq_xI (Coq_xO Coq_xH)))))) :: ((Npos (Coq_xI (Coq_xO (Coq_xI
    (Coq_xI (Coq_xI Coq_xH)))))) :: []))))

(** val send_line_format : coq_N list **)

let send_line_format =
  (Npos (Coq_xI (Coq_xI (Coq_xO (Coq_xO (Coq_xO Coq_xH)))))) :: ((Npos
    (Coq_xI (Coq_xO (Coq_xI (Coq_xO (Coq_xO Coq_xH)))))) :: ((Npos (Coq_xI
    (Coq_xI (Coq_xO (Coq_xO (Coq_xI (Coq_xI Coq_xH))))))) :: ((Npos (Coq_xO
    (Coq_xI (Coq_xO (Coq_xI (Coq_xI Coq_xH)))))) :: ((Npos (Coq_xI (Coq_xO
    (Coq_xI (Coq_xO (Coq_xO Coq_xH)))))) :: ((Npos (Coq_xI (Coq_xI (Coq_xO
    (Coq_xO (Coq_xI (Coq_xI Coq_xH))))))) :: ((Npos (Coq_xI (Coq_xO (Coq_xI
    (Coq_xO (Coq_xO Coq_xH)))))) :: ((Npos (Coq_xI (Coq_xI (Coq_xO (Coq_xO
    (Coq_xI (Coq_xI Coq_xH))))))) :: [])))))))

(** val deliver_data_prefix : coq_N list **)

let deliver_data_prefix =
  (Npos (Coq_xI (Coq_xI (Coq_xO (Coq_xO (Coq_xO Coq_xH)))))) :: ((Npos
    (Coq_xO (Coq_xO (Coq_xI (Coq_xO (Coq_xO (Coq_xO Coq_xH))))))) :: ((Npos
    (Coq_xI (Coq_xO (Coq_xO (Coq_xO (Coq_xO (Coq_xO Coq_xH))))))) :: ((Npos
    (Coq_xO (Coq_xO (Coq_xI (Coq_xO (Coq_xI (Coq_xO Coq_xH))))))) :: ((Npos
    (Coq_xI (Coq_xO (Coq_xO (Coq_xO (Coq_xO (Coq_xO Coq_xH))))))) :: ((Npos
    (Coq_xO (Coq_xI (Coq_xO (Coq_xI (Coq_xI Coq_xH)))))) :: [])))))

(** val data_v2_binary_format : coq_N list **)

let data_v2_binary_format =
  (Npos (Coq_xI (Coq_xI (Coq_xO (Coq_xO (Coq_xO Coq_xH)))))) :: ((Npos
    (Coq_xO (Coq_xO (Coq_xI (Coq_xO (Coq_xO (Coq_xO Coq_xH))))))) :: ((Npos
    (Coq_xI (Coq_xO (Coq_xO (Coq_xO (Coq_xO (Coq_xO Coq_xH))))))) :: ((Npos
    (Coq_xO (Coq_xO (Coq_xI (Coq_xO (Coq_xI (Coq_xO Coq_xH))))))) :: ((Npos
    (Coq_xI (Coq_xO (Coq_xO (Coq_xO (Coq_xO (Coq_xO Coq_xH))))))) :: ((Npos
    (Coq_xO (Coq_xI (Coq_xO (Coq_xI (Coq_xI Coq_xH)))))) :: ((Npos (Coq_xI
    (Coq_xO (Coq_xI (Coq_xO (Coq_xO Coq_xH)))))) :: ((Npos (Coq_xO (Coq_xO
    (Coq_xI (Coq_xO (Coq_xO (Coq_xI Coq_xH))))))) :: ((Npos (Coq_xI (Coq_xO
    (Coq_xI (Coq_xO (Coq_xO Coq_xH)))))) :: ((Npos (Coq_xI (Coq_xI (Coq_xO
    (Coq_xO (Coq_xI (Coq_xI Coq_xH))))))) :: [])))))))))

(** val data_v2_base64_prefix : coq_N list **)

let data_v2_base64_prefix =
  (Npos (Coq_xI (Coq_xI (Coq_xO (Coq_xO (Coq_xO Coq_xH)))))) :: ((Npos
    (Coq_xO (Coq_xO (Coq_xI (Coq_xO (Coq_xO (Coq_xO Coq_xH))))))) :: ((Npos
    (Coq_xI (Coq_xO (Coq_xO (Coq_xO (Coq_xO (Coq_xO Coq_xH))))))) :: ((Npos
    (Coq_xO (Coq_xO (Coq_xI (Coq_xO (Coq_xI (Coq_xO Coq_xH))))))) :: ((Npos
    (Coq_xI (Coq_xO (Coq_xO (Coq_xO (Coq_xO (Coq_xO Coq_xH))))))) :: ((Npos
    (Coq_xO (Coq_xI (Coq_xO (Coq_xI (Coq_xI Coq_xH)))))) :: [])))))

(** val data_v2_piece_terminator : coq_N list option **)

let data_v2_piece_terminator =
  None

(** val data_v1_binary_format : coq_N list **)

let data_v1_binary_format =
  (Npos (Coq_xI (Coq_xI (Coq_xO (Coq_xO (Coq_xO Coq_xH)))))) :: ((Npos
    (Coq_xO (Coq_xO (Coq_xI (Coq_xO (Coq_xO (Coq_xO Coq_xH))))))) :: ((Npos
    (Coq_xI (Coq_xO (Coq_xO (Coq_xO (Coq_xO (Coq_xO Coq_xH))))))) :: ((Npos
    (Coq_xO (Coq_xO (Coq_xI (Coq_xO (Coq_xI (Coq_xO Coq_xH))))))) :: ((Npos
    (Coq_xI (Coq_xO (Coq_xO (Coq_xO (Coq_xO (Coq_xO Coq_xH))))))) :: ((Npos
    (Coq_xO (Coq_xI (Coq_xO (Coq_xI (Coq_xI Coq_xH)))))) :: ((Npos (Coq_xI
    (Coq_xO (Coq_xI (Coq_xO (Coq_xO Coq_xH)))))) :: ((Npos (Coq_xO (Coq_xO
    (Coq_xI (Coq_xO (Coq_xO (Coq_xI Coq_xH))))))) :: ((Npos (Coq_xO (Coq_xI
    (Coq_xO Coq_xH)))) :: []))))))))

(** val pause_line_format : coq_N list **)

let pause_line_format =
  (Npos (Coq_xI (Coq_xI (Coq_xO (Coq_xO (Coq_xO Coq_xH)))))) :: ((Npos
    (Coq_xI (Coq_xO (Coq_xI (Coq_xO (Coq_xO Coq_xH)))))) :: ((Npos (Coq_xI
    (Coq_xI (Coq_xO (Coq_xO (Coq_xI (Coq_xI Coq_xH))))))) :: ((Npos (Coq_xO
    (Coq_xI (Coq_xO (Coq_xI (Coq_xI Coq_xH)))))) :: ((Npos (Coq_xI (Coq_xO
    (Coq_xI (Coq_xI (Coq_xI Coq_xH)))))) :: ((Npos (Coq_xI (Coq_xO (Coq_xI
    (Coq_xO (Coq_xO Coq_xH)))))) :: ((Npos (Coq_xI (Coq_xI (Coq_xO (Coq_xO
    (Coq_xI (Coq_xI Coq_xH))))))) :: []))))))

(** val ack_line_format : coq_N list **)

let ack_line_format =
  (Npos (Coq_xI (Coq_xI (Coq_xO (Coq_xO (Coq_xO Coq_xH)))))) :: ((Npos
    (Coq_xI (Coq_xI (Coq_xO (Coq_xO (Coq_xI (Coq_xO Coq_xH))))))) :: ((Npos
    (Coq_xI (Coq_xO (Coq_xI (Coq_xO (Coq_xI (Coq_xO Coq_xH))))))) :: ((Npos
    (Coq_xI (Coq_xI (Coq_xO (Coq_xO (Coq_xO (Coq_xO Coq_xH))))))) :: ((Npos
    (Coq_xI (Coq_xI (Coq_xO (Coq_xO (Coq_xO (Coq_xO Coq_xH))))))) :: ((Npos
    (Coq_xO (Coq_xI (Coq_xO (Coq_xI (Coq_xI Coq_xH)))))) :: ((Npos (Coq_xI
    (Coq_xO (Coq_xI (Coq_xO (Coq_xO Coq_xH)))))) :: ((Npos (Coq_xO (Coq_xO
    (Coq_xI (Coq_xO (Coq_xO (Coq_xI Coq_xH))))))) :: ((Npos (Coq_xI (Coq_xI
    (Coq_xI (Coq_xI (Coq_xO Coq_xH)))))) :: ((Npos (Coq_xI (Coq_xO (Coq_xI
    (Coq_xO (Coq_xO Coq_xH)))))) :: ((Npos (Coq_xO (Coq_xO (Coq_xI (Coq_xO
    (Coq_xO (Coq_xI Coq_xH))))))) :: ((Npos (Coq_xI (Coq_xO (Coq_xI (Coq_xO
    (Coq_xO Coq_xH)))))) :: ((Npos (Coq_xI (Coq_xI (Coq_xO (Coq_xO (Coq_xI
    (Coq_xI Coq_xH))))))) :: []))))))))))))

(** val zmodem_over_and_out : coq_N list **)

let zmodem_over_and_out =
  (Npos (Coq_xI (Coq_xI (Coq_xI (Coq_xI (Coq_xO (Coq_xO
    Coq_xH))))))) :: ((Npos (Coq_xI (Coq_xI (Coq_xI (Coq_xI (Coq_xO (Coq_xO
    Coq_xH))))))) :: ((Npos (Coq_xO (Coq_xO (Coq_xO Coq_xH)))) :: ((Npos
    (Coq_xO (Coq_xO (Coq_xO Coq_xH)))) :: [])))

(** val zmodem_cannot_open : coq_N list **)

let zmodem_cannot_open =
  (Npos (Coq_xI (Coq_xI (Coq_xO (Coq_xO (Coq_xO (Coq_xI
    Coq_xH))))))) :: ((Npos (Coq_xI (Coq_xO (Coq_xO (Coq_xO (Coq_xO (Coq_xI
    Coq_xH))))))) :: ((Npos (Coq_xO (Coq_xI (Coq_xI (Coq_xI (Coq_xO (Coq_xI
    Coq_xH))))))) :: ((Npos (Coq_xO (Coq_xI (Coq_xI (Coq_xI (Coq_xO (Coq_xI
    Coq_xH))))))) :: ((Npos (Coq_xI (Coq_xI (Coq_xI (Coq_xI (Coq_xO (Coq_xI
    Coq_xH))))))) :: ((Npos (Coq_xO (Coq_xO (Coq_xI (Coq_xO (Coq_xI (Coq_xI
    Coq_xH))))))) :: ((Npos (Coq_xO (Coq_xO (Coq_xO (Coq_xO (Coq_xO
    Coq_xH)))))) :: ((Npos (Coq_xI (Coq_xI (Coq_xI (Coq_xI (Coq_xO (Coq_xI
    Coq_xH))))))) :: ((Npos (Coq_xO (Coq_xO (Coq_xO (Coq_xO (Coq_xI (Coq_xI
    Coq_xH))))))) :: ((Npos (Coq_xI (Coq_xO (Coq_xI (Coq_xO (Coq_xO (Coq_xI
    Coq_xH))))))) :: ((Npos (Coq_xO (Coq_xI (Coq_xI (Coq_xI (Coq_xO (Coq_xI
    Coq_xH))))))) :: ((Npos (Coq_xO (Coq_xO (Coq_xO (Coq_xO (Coq_xO
    Coq_xH)))))) :: [])))))))))))

(** val zmodem_cancel_sub : coq_N list **)

let zmodem_cancel_sub =
  (Npos (Coq_xO (Coq_xO (Coq_xO (Coq_xI Coq_xH))))) :: ((Npos (Coq_xO (Coq_xO
    (Coq_xO (Coq_xI Coq_xH))))) :: ((Npos (Coq_xO (Coq_xO (Coq_xO (Coq_xI
    Coq_xH))))) :: ((Npos (Coq_xO (Coq_xO (Coq_xO (Coq_xI
    Coq_xH))))) :: ((Npos (Coq_xO (Coq_xO (Coq_xO (Coq_xI
    Coq_xH))))) :: []))))

(** val zmodem_cancel_full : coq_N list **)

let zmodem_cancel_full =
  (Npos (Coq_xO (Coq_xO (Coq_xO (Coq_xI Coq_xH))))) :: ((Npos (Coq_xO (Coq_xO
    (Coq_xO (Coq_xI Coq_xH))))) :: ((Npos (Coq_xO (Coq_xO (Coq_xO (Coq_xI
    Coq_xH))))) :: ((Npos (Coq_xO (Coq_xO (Coq_xO (Coq_xI
    Coq_xH))))) :: ((Npos (Coq_xO (Coq_xO (Coq_xO (Coq_xI
    Coq_xH))))) :: ((Npos (Coq_xO (Coq_xO (Coq_xO (Coq_xI
    Coq_xH))))) :: ((Npos (Coq_xO (Coq_xO (Coq_xO (Coq_xI
    Coq_xH))))) :: ((Npos (Coq_xO (Coq_xO (Coq_xO (Coq_xI
    Coq_xH))))) :: ((Npos (Coq_xO (Coq_xO (Coq_xO (Coq_xI
    Coq_xH))))) :: ((Npos (Coq_xO (Coq_xO (Coq_xO (Coq_xI
    Coq_xH))))) :: ((Npos (Coq_xO (Coq_xO (Coq_xO Coq_xH)))) :: ((Npos
    (Coq_xO (Coq_xO (Coq_xO Coq_xH)))) :: ((Npos (Coq_xO (Coq_xO (Coq_xO
    Coq_xH)))) :: ((Npos (Coq_xO (Coq_xO (Coq_xO Coq_xH)))) :: ((Npos (Coq_xO
    (Coq_xO (Coq_xO Coq_xH)))) :: ((Npos (Coq_xO (Coq_xO (Coq_xO
    Coq_xH)))) :: ((Npos (Coq_xO (Coq_xO (Coq_xO Coq_xH)))) :: ((Npos (Coq_xO
    (Coq_xO (Coq_xO Coq_xH)))) :: ((Npos (Coq_xO (Coq_xO (Coq_xO
    Coq_xH)))) :: ((Npos (Coq_xO (Coq_xO (Coq_xO
    Coq_xH)))) :: [])))))))))))))))))))

(** val zmodem_cleanup_ms : coq_N **)

let zmodem_cleanup_ms =
  Npos (Coq_xO (Coq_xO (Coq_xI (Coq_xO (Coq_xI (Coq_xI (Coq_xI (Coq_xI
    Coq_xH))))))))

(** val zmodem_client_timeout_ms : coq_N **)

let zmodem_client_timeout_ms =
  Npos (Coq_xO (Coq_xO (Coq_xO (Coq_xO (Coq_xO (Coq_xI (Coq_xO (Coq_xO
    (Coq_xO (Coq_xI (Coq_xI (Coq_xI (Coq_xO (Coq_xO Coq_xH))))))))))))))

(** val zmodem_server_timeout_ms : coq_N **)

let zmodem_server_timeout_ms =
  Npos (Coq_xO (Coq_xO (Coq_xO (Coq_xO (Coq_xO (Coq_xI (Coq_xO (Coq_xO
    (Coq_xO (Coq_xI (Coq_xI (Coq_xI (Coq_xO (Coq_xO Coq_xH))))))))))))))

(** val zmodem_launch_delay_ms : coq_N **)

let zmodem_launch_delay_ms =
  Npos (Coq_xO (Coq_xO (Coq_xI (Coq_xO (Coq_xO (Coq_xI Coq_xH))))))

(** val zmodem_kill_delay_ms : coq_N **)

let zmodem_kill_delay_ms =
  Npos (Coq_xO (Coq_xO (Coq_xI (Coq_xO (Coq_xI (Coq_xI (Coq_xI (Coq_xI
    Coq_xH))))))))

(** val zmodem_default_path_delay_ms : coq_N **)

let zmodem_default_path_delay_ms =
  Npos (Coq_xO (Coq_xI (Coq_xO (Coq_xO (Coq_xI Coq_xH)))))

(** val zmodem_finish_max_len : coq_N **)

let zmodem_finish_max_len =
  Npos (Coq_xO (Coq_xI (Coq_xO (Coq_xO (Coq_xI Coq_xH)))))

(** val zmodem_cleanup_enter : coq_N list **)

let zmodem_cleanup_enter =
  (Npos (Coq_xI (Coq_xO (Coq_xI Coq_xH)))) :: []

(** val zmodem_ctrl_c : coq_N **)

let zmodem_ctrl_c =
  Npos (Coq_xI Coq_xH)
