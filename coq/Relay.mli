open BinNat
open BinNums
open Bool0
open Bytes0
open Consts
open Datatypes
open List0
open Nat0
open PeanoNat

type chunk = byte list

type status =
| StS
| StH
| StT

type owner =
| Free
| ByIn
| ByOut
| ByHs
| ByTl

type dev =
| Std
| Byp

val status_code : status -> coq_N

type inpc =
| I0
| I1 of chunk
| I3 of chunk
| I4 of chunk
| I4a of chunk
| I4p
| I4u of chunk * bool
| I5 of chunk * bool
| I6 of bool

type outpc =
| O0
| O1 of chunk
| O3 of chunk
| O4 of chunk
| O4a of chunk
| O4p
| O4u of chunk * bool
| O5 of chunk * bool
| O5h of chunk * chunk
| O5g of chunk * chunk
| O5s of chunk * chunk
| O6

type hspc =
| HN
| H0
| H2
| H3
| H4
| HF1
| HF2
| HL of bool
| HP1 of bool
| HS1 of bool * chunk
| HP2 of bool
| HS2 of bool * chunk
| HD of bool

type evI =
| PassI of chunk
| EatI of chunk
| InsI of chunk

type evO =
| PassO of dev * chunk * chunk
| EatO of chunk
| InsO of dev * chunk

val evI_in : evI -> chunk

val evI_out : evI -> chunk

val inI_of : evI list -> byte list

val outI_of : evI list -> byte list

val dev_eqb : dev -> dev -> bool

val evO_in : evO -> chunk

val evO_out : dev -> evO -> chunk

val inO_of : evO list -> byte list

val outO_of : dev -> evO list -> byte list

type state = { st : status; lk : owner; cin : chunk list; sin : chunk list;
               ibr : chunk; ibq : chunk list; obr : chunk; obq : chunk list;
               slog : byte list; clog : byte list; blog : byte list;
               ipc : inpc; opc : outpc; hpc : hspc; tlk : bool;
               hI : evI list; hO : evO list; trg : bool }

val set_st : state -> status -> state

val set_lk : state -> owner -> state

val set_cin : state -> chunk list -> state

val set_sin : state -> chunk list -> state

val set_ib : state -> chunk -> chunk list -> state

val set_ob : state -> chunk -> chunk list -> state

val set_slog : state -> byte list -> state

val set_clog : state -> byte list -> state

val set_blog : state -> byte list -> state

val set_ipc : state -> inpc -> state

val set_opc : state -> outpc -> state

val set_hpc : state -> hspc -> state

val set_tl : state -> bool -> state

val set_hI : state -> evI list -> state

val set_hO : state -> evO list -> state

val set_trg : state -> bool -> state

val send_srv : state -> chunk -> evI -> state

val send_cli : state -> dev -> chunk -> evO -> state

val bdev : bool -> dev

val flat : chunk -> chunk list -> byte list

val drop_parked : nat -> chunk -> chunk list -> chunk * chunk list

val pop_buf : chunk -> chunk list -> (chunk option * chunk) * chunk list

type rd_res =
| RdMore
| RdOk
| RdErr

type label =
| LInRead
| LInLoad
| LInLock
| LInReload
| LInAdd
| LInUnlockP
| LInUnlockU
| LInSend
| LInEnd of bool
| LOutRead
| LOutLoad
| LOutLock
| LOutReload
| LOutAdd
| LOutUnlockP
| LOutUnlockU
| LOutBypass
| LOutDetect of chunk * bool
| LOutStoreH
| LOutGo
| LOutSend
| LOutEnd of bool
| LHsAct of nat * rd_res
| LHsSendAct of chunk * bool
| LHsCfg of nat * rd_res
| LHsSendCfg of chunk
| LHsFail1 of chunk
| LHsFail2 of chunk
| LHsLock
| LHsPopI
| LHsSendI
| LHsPopO
| LHsSendO
| LHsDone
| LTlUnlock

val after_load_in : status -> chunk -> inpc

val after_reload_in : status -> chunk -> inpc

val after_load_out : status -> chunk -> outpc

val after_reload_out : status -> chunk -> outpc

val cas_t_s : state -> state

val step_fn : bool -> bool -> label -> state -> state option

val init : chunk list -> chunk list -> state

val run : bool -> bool -> label list -> state -> state option

val inflightI : inpc -> chunk

val inflightO : outpc -> chunk

val hs_flI : hspc -> chunk

val hs_flO : hspc -> chunk

val conserved_I_b : byte list -> state -> bool

type rv_role =
| RvIn
| RvOut
| RvHs

type rv_chan =
| RvSrv
| RvCli
| RvByp

type rv_buf =
| RvBufI
| RvBufO

type rv_ev =
| RvRead of rv_role * chunk
| RvLoad of rv_role * coq_N
| RvLock of rv_role * bool
| RvReload of rv_role * coq_N
| RvAdd of rv_role * chunk
| RvUnlock of rv_role
| RvSend of rv_role * rv_chan * chunk * bool
| RvCas of rv_role * coq_N * bool
| RvStore of rv_role * coq_N
| RvDetect of chunk * bool
| RvGo
| RvEat of rv_buf * nat
| RvRes of rv_buf * bool
| RvPop of rv_buf * chunk option
| RvScope of bool

val rv_st_is : state -> coq_N -> bool

val rv_chan_eqb : rv_chan -> rv_chan -> bool

val rv_opt_eqb : chunk option -> chunk option -> bool

val rv_when : bool -> label list -> label list option

val rv_rd : bool -> rd_res

val rv_head_is : chunk list -> chunk -> bool

val rv_labels : rv_ev -> state -> label list option

val rv_step : bool -> rv_ev -> state -> state option

type rv_result =
| RvOk of state
| RvBad of nat * state

val rv_run : bool -> rv_ev list -> nat -> state -> rv_result

val rg_current : bool

val rg_reset : bool -> status -> state -> state

val rg_step : bool -> bool -> label -> state -> state option

val rg_run : bool -> bool -> label list -> state -> state option

val conserved_O_b : byte list -> state -> bool

val rg_is_nil : byte list -> bool

val rg_stranded : state -> bool

val rg_bad : byte list -> byte list -> state -> bool

val rg_has : coq_N -> byte list -> bool

val rg_line : byte list -> nat option

type rg_mem = { rg_ie : bool; rg_oe : bool; rg_cf : bool }

val rg_mem0 : rg_mem

type rg_thread =
| RgIn
| RgOut
| RgHs
| RgTl

val rg_next : rg_thread -> rg_mem -> state -> (label * rg_mem) option

val rg_move :
  bool -> bool -> rg_thread -> (rg_mem * state) -> (label * (rg_mem * state))
  option

val rg_at_head : rg_thread -> state -> bool

val rp_current : bool

type rp_state = bool * state

type rp_label =
| RpL of label
| RpPublish

val rp_is_hs : label -> bool

val rp_keep : bool -> state option -> rp_state option

val rp_step : bool -> bool -> bool -> rp_label -> rp_state -> rp_state option

val rp_run :
  bool -> bool -> bool -> rp_label list -> rp_state -> rp_state option

val rp_next : rg_thread -> rg_mem -> rp_state -> (rp_label * rg_mem) option

val rp_move :
  bool -> bool -> bool -> rg_thread -> (rg_mem * rp_state) ->
  (rp_label * (rg_mem * rp_state)) option

val rp_at_head : rg_thread -> rp_state -> bool

val rp_holds : state -> bool
