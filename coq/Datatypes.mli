
val negb : bool -> bool

type nat =
| O
| S of nat

val option_map : ('a1 -> 'a2) -> 'a1 option -> 'a2 option

type ('a, 'b) sum =
| Coq_inl of 'a
| Coq_inr of 'b

val fst : ('a1 * 'a2) -> 'a1

val snd : ('a1 * 'a2) -> 'a2

val length : 'a1 list -> nat

val app : 'a1 list -> 'a1 list -> 'a1 list

type comparison =
| Eq
| Lt
| Gt

val coq_CompOpp : comparison -> comparison
