open BinNat
open BinNums
open Bytes0
open Datatypes
open List0
open PeanoNat

type name = coq_N list

type path = name list

(** val slash : coq_N **)

let slash =
  Npos (Coq_xI (Coq_xI (Coq_xI (Coq_xI (Coq_xO Coq_xH)))))

(** val dot : coq_N **)

let dot =
  Npos (Coq_xO (Coq_xI (Coq_xI (Coq_xI (Coq_xO Coq_xH)))))

(** val split_slash : coq_N list -> name list **)

let rec split_slash = function
| [] -> [] :: []
| c :: s' ->
  if N.eqb c slash
  then [] :: (split_slash s')
  else (match split_slash s' with
        | [] -> (c :: []) :: []
        | h :: t -> (c :: h) :: t)

(** val is_empty : name -> bool **)

let is_empty = function
| [] -> true
| _ :: _ -> false

(** val is_dot : name -> bool **)

let is_dot c =
  list_eqb c (dot :: [])

(** val is_dotdot : name -> bool **)

let is_dotdot c =
  list_eqb c (dot :: (dot :: []))

(** val step_comp : path -> name -> path **)

let step_comp acc c =
  if (||) (is_empty c) (is_dot c)
  then acc
  else if is_dotdot c then removelast acc else app acc (c :: [])

(** val join : path -> name list -> path **)

let join base elems =
  fold_left step_comp (flat_map split_slash elems) base

(** val path_eqb : path -> path -> bool **)

let rec path_eqb a b =
  match a with
  | [] -> (match b with
           | [] -> true
           | _ :: _ -> false)
  | x :: a' ->
    (match b with
     | [] -> false
     | y :: b' -> (&&) (list_eqb x y) (path_eqb a' b'))

(** val is_prefix : path -> path -> bool **)

let rec is_prefix a b =
  match a with
  | [] -> true
  | x :: a' ->
    (match b with
     | [] -> false
     | y :: b' -> (&&) (list_eqb x y) (is_prefix a' b'))

(** val inside : path -> path -> bool **)

let inside dest p =
  (&&) (is_prefix dest p) (Nat.ltb (length dest) (length p))
