open Datatypes

(** val pred : nat -> nat **)

let pred n = match n with
| O -> n
| S u -> u

(** val add : nat -> nat -> nat **)

let rec add n m =
  match n with
  | O -> m
  | S p -> S (add p m)

(** val mul : nat -> nat -> nat **)

let rec mul n m =
  match n with
  | O -> O
  | S p -> add m (mul p m)

(** val sub : nat -> nat -> nat **)

let rec sub n m =
  match n with
  | O -> n
  | S k -> (match m with
            | O -> n
            | S l -> sub k l)
