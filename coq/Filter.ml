open BinNat
open BinNums
open Bytes0
open Consts
open Datatypes
open List0
open Nat0
open PeanoNat

type chunk = coq_N list

type path = coq_N list

type kind =
| KDir
| KRegular
| KOther

(** val in_ranges : (coq_N * coq_N) list -> coq_N -> bool **)

let in_ranges rs b =
  existsb (fun r -> (&&) (N.leb (fst r) b) (N.leb b (snd r))) rs

(** val index_any : coq_N list -> coq_N list -> nat option **)

let rec index_any set = function
| [] -> None
| x :: l' ->
  if existsb (N.eqb x) set
  then Some O
  else (match index_any set l' with
        | Some i -> Some (S i)
        | None -> None)

(** val replace_all_f :
    nat -> coq_N list -> coq_N list -> coq_N list -> coq_N list **)

let rec replace_all_f fuel pat rep l =
  match fuel with
  | O -> l
  | S f ->
    (match l with
     | [] -> []
     | x :: l' ->
       if has_prefix pat l
       then app rep (replace_all_f f pat rep (skipn (length pat) l))
       else x :: (replace_all_f f pat rep l'))

(** val replace_all : coq_N list -> coq_N list -> coq_N list -> coq_N list **)

let replace_all pat rep l =
  replace_all_f (length l) pat rep l

(** val trim_vt100_f : bool -> coq_N list -> coq_N list **)

let rec trim_vt100_f skip = function
| [] -> []
| c :: l' ->
  if skip
  then trim_vt100_f (negb (in_ranges vt100_end_ranges c)) l'
  else if N.eqb c vt100_esc
       then trim_vt100_f true l'
       else c :: (trim_vt100_f false l')

(** val trim_vt100 : coq_N list -> coq_N list **)

let trim_vt100 l =
  trim_vt100_f false l

(** val trim_right : coq_N list -> coq_N list -> coq_N list **)

let rec trim_right cut = function
| [] -> []
| x :: l' ->
  (match trim_right cut l' with
   | [] -> if existsb (N.eqb x) cut then [] else x :: []
   | n :: l0 -> x :: (n :: l0))

(** val osc52_bad_b64 : coq_N list -> bool **)

let osc52_bad_b64 l =
  existsb (fun b -> negb (in_ranges osc52_b64_ranges b)) l

(** val osc52_header : nat -> coq_N list -> coq_N list option **)

let rec osc52_header fuel buf =
  match fuel with
  | O -> None
  | S f ->
    (match index_of osc52_prefix buf with
     | Some pos ->
       let b = skipn (add pos (N.to_nat osc52_hdr_skip)) buf in
       if Nat.ltb (length b) (N.to_nat osc52_kind_len)
       then None
       else (match b with
             | [] -> None
             | k :: l ->
               (match l with
                | [] -> None
                | s :: _ ->
                  if (&&)
                       ((||) (N.eqb k osc52_kind_c) (N.eqb k osc52_kind_p))
                       (N.eqb s osc52_sep)
                  then Some (skipn (N.to_nat osc52_kind_len) b)
                  else osc52_header f (skipn (N.to_nat osc52_kind_len) b)))
     | None -> None)

(** val osc52_loop :
    nat -> coq_N list option -> coq_N list -> coq_N list list -> coq_N list
    option * coq_N list list **)

let rec osc52_loop fuel seq buf clips =
  match fuel with
  | O -> (seq, clips)
  | S f ->
    (match buf with
     | [] -> (seq, clips)
     | _ :: _ ->
       (match seq with
        | Some sq ->
          (match index_any osc52_terms buf with
           | Some pos ->
             osc52_loop f None (skipn (S pos) buf)
               (app clips ((app sq (firstn pos buf)) :: []))
           | None ->
             let sq' = app sq buf in
             if (&&) (N.ltb osc52_limit (N.of_nat (length sq')))
                  (osc52_bad_b64 buf)
             then (None, clips)
             else ((Some sq'), clips))
        | None ->
          (match osc52_header (S (length buf)) buf with
           | Some b ->
             (match index_any osc52_terms b with
              | Some pos ->
                osc52_loop f None (skipn (S pos) b)
                  (app clips ((firstn pos b) :: []))
              | None -> ((Some b), clips))
           | None -> (None, clips))))

(** val detect_osc52 :
    coq_N list option -> coq_N list -> coq_N list option * coq_N list list **)

let detect_osc52 seq buf =
  osc52_loop (S (length buf)) seq buf []

type dres = { d_files : (path list * bool) option; d_ignore : bool;
              d_win : bool }

(** val strip_paste : coq_N list -> coq_N list option **)

let strip_paste buf =
  if (&&) (Nat.ltb (N.to_nat drag_paste_minlen) (length buf))
       (contains drag_paste_probe buf)
  then let b =
         replace_all drag_paste_end [] (replace_all drag_paste_begin [] buf)
       in
       (match b with
        | [] -> None
        | _ :: _ -> Some b)
  else Some buf

(** val next_linux_path : coq_N list -> (path * nat) option **)

let next_linux_path buf =
  if Nat.ltb (length buf) (N.to_nat drag_min_len)
  then None
  else (match buf with
        | [] -> None
        | q :: l ->
          (match l with
           | [] -> None
           | s :: _ ->
             if (&&) (N.eqb q drag_quote) (N.eqb s drag_slash)
             then (match index_byte drag_quote (tl buf) with
                   | Some i ->
                     (match nth_error buf (S (S i)) with
                      | Some c ->
                        if N.eqb c drag_space
                        then Some ((firstn i (tl buf)), (add i (S (S (S O)))))
                        else None
                      | None -> None)
                   | None -> None)
             else if N.eqb q drag_slash
                  then (match index_byte drag_space buf with
                        | Some i -> Some ((firstn i buf), (S i))
                        | None -> None)
                  else None))

(** val file_path_ok : (path -> kind option) -> path -> bool option **)

let file_path_ok exists_ p =
  match exists_ p with
  | Some k ->
    (match k with
     | KDir -> Some true
     | KRegular -> Some false
     | KOther -> None)
  | None -> None

(** val linux_loop :
    (path -> kind option) -> nat -> coq_N list -> path list -> bool -> (path
    list * bool) option **)

let rec linux_loop exists_ fuel rest acc has_dir =
  match fuel with
  | O -> None
  | S f ->
    (match rest with
     | [] -> Some ((rev acc), has_dir)
     | _ :: _ ->
       (match next_linux_path rest with
        | Some p0 ->
          let (p, i) = p0 in
          (match p with
           | [] -> None
           | _ :: _ ->
             (match file_path_ok exists_ p with
              | Some d ->
                linux_loop exists_ f (skipn i rest) (p :: acc)
                  ((||) has_dir d)
              | None -> None))
        | None -> None))

(** val last_is : coq_N -> coq_N list -> bool **)

let last_is b l =
  match rev l with
  | [] -> false
  | x :: _ -> N.eqb x b

(** val detect_drag_files_on_linux :
    (path -> kind option) -> coq_N list -> (path list * bool) option **)

let detect_drag_files_on_linux exists_ buf =
  if Nat.ltb (length buf) (N.to_nat drag_min_len)
  then None
  else (match buf with
        | [] -> None
        | q :: l ->
          (match l with
           | [] -> None
           | s :: _ ->
             if (&&)
                  ((||) ((&&) (N.eqb q drag_quote) (N.eqb s drag_slash))
                    (N.eqb q drag_slash)) (last_is drag_space buf)
             then linux_loop exists_ (S (length buf)) buf [] false
             else None))

(** val detect_drag_linux : (path -> kind option) -> coq_N list -> dres **)

let detect_drag_linux exists_ buf =
  match strip_paste buf with
  | Some b ->
    { d_files = (detect_drag_files_on_linux exists_ b); d_ignore = false;
      d_win = false }
  | None -> { d_files = None; d_ignore = true; d_win = false }

type opts = { o_drag : bool; o_trace : bool; o_zmodem : bool; o_osc52 : 
              bool; o_cmd : coq_N list; o_cmd_not_trz : bool; o_fixed : 
              bool }

type pstate =
| PNone
| POpen
| PClosing

(** val p_set : pstate -> bool **)

let p_set = function
| PNone -> false
| _ -> true

type dphase =
| DWait
| DInterrupt
| DCmd

type hphase =
| HChoosing
| HOwning

type haction =
| HIo of coq_N list * coq_N list
| HTakeDrag
| HRefuse
| HFailEarly
| HAccept
| HDone
| HError
| HStop
| HBackground

type obs =
| ToTerm of coq_N list
| ToServer of coq_N list
| Clip of coq_N list

type ('dstate, 'zstate) state = { transfer : bool; zmodem : 'zstate option;
                                  prompt : pstate; prompts : bool;
                                  trace_on : bool; interrupting : bool;
                                  skip_cmd : bool;
                                  cur_cmd : coq_N list option;
                                  osc : coq_N list option; detect_on : 
                                  bool; dragging : bool; drag_has_dir : 
                                  bool; drag_files : path list option;
                                  held : coq_N list option; det : 'dstate;
                                  drag_procs : dphase list;
                                  handlers : hphase list }

(** val init : 'a1 -> ('a1, 'a2) state **)

let init d =
  { transfer = false; zmodem = None; prompt = PNone; prompts = false;
    trace_on = false; interrupting = false; skip_cmd = false; cur_cmd = None;
    osc = None; detect_on = false; dragging = false; drag_has_dir = false;
    drag_files = None; held = None; det = d; drag_procs = []; handlers = [] }

(** val set_transfer : bool -> ('a1, 'a2) state -> ('a1, 'a2) state **)

let set_transfer v s =
  { transfer = v; zmodem = s.zmodem; prompt = s.prompt; prompts = s.prompts;
    trace_on = s.trace_on; interrupting = s.interrupting; skip_cmd =
    s.skip_cmd; cur_cmd = s.cur_cmd; osc = s.osc; detect_on = s.detect_on;
    dragging = s.dragging; drag_has_dir = s.drag_has_dir; drag_files =
    s.drag_files; held = s.held; det = s.det; drag_procs = s.drag_procs;
    handlers = s.handlers }

(** val set_zmodem : 'a2 option -> ('a1, 'a2) state -> ('a1, 'a2) state **)

let set_zmodem v s =
  { transfer = s.transfer; zmodem = v; prompt = s.prompt; prompts =
    s.prompts; trace_on = s.trace_on; interrupting = s.interrupting;
    skip_cmd = s.skip_cmd; cur_cmd = s.cur_cmd; osc = s.osc; detect_on =
    s.detect_on; dragging = s.dragging; drag_has_dir = s.drag_has_dir;
    drag_files = s.drag_files; held = s.held; det = s.det; drag_procs =
    s.drag_procs; handlers = s.handlers }

(** val set_prompt : pstate -> ('a1, 'a2) state -> ('a1, 'a2) state **)

let set_prompt v s =
  { transfer = s.transfer; zmodem = s.zmodem; prompt = v; prompts =
    s.prompts; trace_on = s.trace_on; interrupting = s.interrupting;
    skip_cmd = s.skip_cmd; cur_cmd = s.cur_cmd; osc = s.osc; detect_on =
    s.detect_on; dragging = s.dragging; drag_has_dir = s.drag_has_dir;
    drag_files = s.drag_files; held = s.held; det = s.det; drag_procs =
    s.drag_procs; handlers = s.handlers }

(** val set_prompts : bool -> ('a1, 'a2) state -> ('a1, 'a2) state **)

let set_prompts v s =
  { transfer = s.transfer; zmodem = s.zmodem; prompt = s.prompt; prompts = v;
    trace_on = s.trace_on; interrupting = s.interrupting; skip_cmd =
    s.skip_cmd; cur_cmd = s.cur_cmd; osc = s.osc; detect_on = s.detect_on;
    dragging = s.dragging; drag_has_dir = s.drag_has_dir; drag_files =
    s.drag_files; held = s.held; det = s.det; drag_procs = s.drag_procs;
    handlers = s.handlers }

(** val set_trace_on : bool -> ('a1, 'a2) state -> ('a1, 'a2) state **)

let set_trace_on v s =
  { transfer = s.transfer; zmodem = s.zmodem; prompt = s.prompt; prompts =
    s.prompts; trace_on = v; interrupting = s.interrupting; skip_cmd =
    s.skip_cmd; cur_cmd = s.cur_cmd; osc = s.osc; detect_on = s.detect_on;
    dragging = s.dragging; drag_has_dir = s.drag_has_dir; drag_files =
    s.drag_files; held = s.held; det = s.det; drag_procs = s.drag_procs;
    handlers = s.handlers }

(** val set_interrupting : bool -> ('a1, 'a2) state -> ('a1, 'a2) state **)

let set_interrupting v s =
  { transfer = s.transfer; zmodem = s.zmodem; prompt = s.prompt; prompts =
    s.prompts; trace_on = s.trace_on; interrupting = v; skip_cmd =
    s.skip_cmd; cur_cmd = s.cur_cmd; osc = s.osc; detect_on = s.detect_on;
    dragging = s.dragging; drag_has_dir = s.drag_has_dir; drag_files =
    s.drag_files; held = s.held; det = s.det; drag_procs = s.drag_procs;
    handlers = s.handlers }

(** val set_skip_cmd : bool -> ('a1, 'a2) state -> ('a1, 'a2) state **)

let set_skip_cmd v s =
  { transfer = s.transfer; zmodem = s.zmodem; prompt = s.prompt; prompts =
    s.prompts; trace_on = s.trace_on; interrupting = s.interrupting;
    skip_cmd = v; cur_cmd = s.cur_cmd; osc = s.osc; detect_on = s.detect_on;
    dragging = s.dragging; drag_has_dir = s.drag_has_dir; drag_files =
    s.drag_files; held = s.held; det = s.det; drag_procs = s.drag_procs;
    handlers = s.handlers }

(** val set_cur_cmd :
    coq_N list option -> ('a1, 'a2) state -> ('a1, 'a2) state **)

let set_cur_cmd v s =
  { transfer = s.transfer; zmodem = s.zmodem; prompt = s.prompt; prompts =
    s.prompts; trace_on = s.trace_on; interrupting = s.interrupting;
    skip_cmd = s.skip_cmd; cur_cmd = v; osc = s.osc; detect_on = s.detect_on;
    dragging = s.dragging; drag_has_dir = s.drag_has_dir; drag_files =
    s.drag_files; held = s.held; det = s.det; drag_procs = s.drag_procs;
    handlers = s.handlers }

(** val set_osc :
    coq_N list option -> ('a1, 'a2) state -> ('a1, 'a2) state **)

let set_osc v s =
  { transfer = s.transfer; zmodem = s.zmodem; prompt = s.prompt; prompts =
    s.prompts; trace_on = s.trace_on; interrupting = s.interrupting;
    skip_cmd = s.skip_cmd; cur_cmd = s.cur_cmd; osc = v; detect_on =
    s.detect_on; dragging = s.dragging; drag_has_dir = s.drag_has_dir;
    drag_files = s.drag_files; held = s.held; det = s.det; drag_procs =
    s.drag_procs; handlers = s.handlers }

(** val set_detect_on : bool -> ('a1, 'a2) state -> ('a1, 'a2) state **)

let set_detect_on v s =
  { transfer = s.transfer; zmodem = s.zmodem; prompt = s.prompt; prompts =
    s.prompts; trace_on = s.trace_on; interrupting = s.interrupting;
    skip_cmd = s.skip_cmd; cur_cmd = s.cur_cmd; osc = s.osc; detect_on = v;
    dragging = s.dragging; drag_has_dir = s.drag_has_dir; drag_files =
    s.drag_files; held = s.held; det = s.det; drag_procs = s.drag_procs;
    handlers = s.handlers }

(** val set_drag :
    bool -> bool -> path list option -> ('a1, 'a2) state -> ('a1, 'a2) state **)

let set_drag dg hd fs s =
  { transfer = s.transfer; zmodem = s.zmodem; prompt = s.prompt; prompts =
    s.prompts; trace_on = s.trace_on; interrupting = s.interrupting;
    skip_cmd = s.skip_cmd; cur_cmd = s.cur_cmd; osc = s.osc; detect_on =
    s.detect_on; dragging = dg; drag_has_dir = hd; drag_files = fs; held =
    s.held; det = s.det; drag_procs = s.drag_procs; handlers = s.handlers }

(** val set_held :
    coq_N list option -> ('a1, 'a2) state -> ('a1, 'a2) state **)

let set_held v s =
  { transfer = s.transfer; zmodem = s.zmodem; prompt = s.prompt; prompts =
    s.prompts; trace_on = s.trace_on; interrupting = s.interrupting;
    skip_cmd = s.skip_cmd; cur_cmd = s.cur_cmd; osc = s.osc; detect_on =
    s.detect_on; dragging = s.dragging; drag_has_dir = s.drag_has_dir;
    drag_files = s.drag_files; held = v; det = s.det; drag_procs =
    s.drag_procs; handlers = s.handlers }

(** val set_det : 'a1 -> ('a1, 'a2) state -> ('a1, 'a2) state **)

let set_det v s =
  { transfer = s.transfer; zmodem = s.zmodem; prompt = s.prompt; prompts =
    s.prompts; trace_on = s.trace_on; interrupting = s.interrupting;
    skip_cmd = s.skip_cmd; cur_cmd = s.cur_cmd; osc = s.osc; detect_on =
    s.detect_on; dragging = s.dragging; drag_has_dir = s.drag_has_dir;
    drag_files = s.drag_files; held = s.held; det = v; drag_procs =
    s.drag_procs; handlers = s.handlers }

(** val set_drag_procs :
    dphase list -> ('a1, 'a2) state -> ('a1, 'a2) state **)

let set_drag_procs v s =
  { transfer = s.transfer; zmodem = s.zmodem; prompt = s.prompt; prompts =
    s.prompts; trace_on = s.trace_on; interrupting = s.interrupting;
    skip_cmd = s.skip_cmd; cur_cmd = s.cur_cmd; osc = s.osc; detect_on =
    s.detect_on; dragging = s.dragging; drag_has_dir = s.drag_has_dir;
    drag_files = s.drag_files; held = s.held; det = s.det; drag_procs = v;
    handlers = s.handlers }

(** val set_handlers : hphase list -> ('a1, 'a2) state -> ('a1, 'a2) state **)

let set_handlers v s =
  { transfer = s.transfer; zmodem = s.zmodem; prompt = s.prompt; prompts =
    s.prompts; trace_on = s.trace_on; interrupting = s.interrupting;
    skip_cmd = s.skip_cmd; cur_cmd = s.cur_cmd; osc = s.osc; detect_on =
    s.detect_on; dragging = s.dragging; drag_has_dir = s.drag_has_dir;
    drag_files = s.drag_files; held = s.held; det = s.det; drag_procs =
    s.drag_procs; handlers = v }

(** val reset_drag : ('a1, 'a2) state -> ('a1, 'a2) state **)

let reset_drag s =
  if s.dragging then set_drag false false None s else s

(** val add_drag :
    path list -> bool -> ('a1, 'a2) state -> ('a1, 'a2) state **)

let add_drag fs hd s =
  let hd' = if hd then true else s.drag_has_dir in
  (match s.drag_files with
   | Some old -> set_drag true hd' (Some (app old fs)) s
   | None ->
     set_drag_procs (app s.drag_procs (DWait :: []))
       (set_drag true hd' (Some fs) s))

(** val trace_log :
    coq_N list -> coq_N list -> opts -> ('a1, 'a2) state -> coq_N list ->
    coq_N list * ('a1, 'a2) state **)

let trace_log msg_on msg_off o s buf =
  if o.o_trace
  then if s.trace_on
       then if contains trace_disable_marker buf
            then ((replace_all trace_disable_marker msg_off buf),
                   (set_trace_on false s))
            else (buf, s)
       else if contains trace_enable_marker buf
            then ((replace_all trace_enable_marker msg_on buf),
                   (set_trace_on true s))
            else (buf, s)
  else (buf, s)

(** val drag_command : opts -> ('a1, 'a2) state -> coq_N list **)

let drag_command o s =
  app (match o.o_cmd with
       | [] -> drag_default_cmd
       | n :: l -> n :: l)
    (if (&&) s.drag_has_dir (negb o.o_cmd_not_trz) then drag_dir_flag else [])

(** val out_forward :
    (coq_N list -> bool) -> (coq_N list -> 'a2) -> opts -> ('a1, 'a2) state
    -> obs list -> coq_N list -> ('a1, 'a2) state * obs list **)

let out_forward zmodem_detect zm_init o s pre buf =
  if s.interrupting
  then (s, pre)
  else let skip = s.skip_cmd in
       let s0 = if skip then set_skip_cmd false s else s in
       if (&&) skip
            (match s0.cur_cmd with
             | Some c ->
               list_eqb c (trim_right skip_trim_cutset (trim_vt100 buf))
             | None -> false)
       then (s0, (app pre ((ToTerm skip_echo_repl) :: [])))
       else if (&&) o.o_zmodem (zmodem_detect buf)
            then (match s0.zmodem with
                  | Some _ ->
                    (s0, (app pre ((ToTerm buf) :: ((ToTerm buf) :: []))))
                  | None ->
                    ((set_zmodem (Some (zm_init buf)) s0),
                      (app pre ((ToTerm buf) :: ((ToTerm
                        hide_cursor_seq) :: [])))))
            else (s0, (app pre ((ToTerm buf) :: [])))

(** val out_detect :
    ('a1 -> coq_N list -> (coq_N list * 'a2 option) * 'a1) -> ('a2 -> bool)
    -> (coq_N list -> bool) -> (coq_N list -> 'a3) -> opts -> ('a1, 'a3)
    state -> obs list -> coq_N list -> ('a1, 'a3) state * obs list **)

let out_detect detect trig_prompts zmodem_detect zm_init o s pre buf =
  let (q, cl) = if o.o_osc52 then detect_osc52 s.osc buf else (s.osc, []) in
  let s0 = set_osc q s in
  let pre0 = app pre (map (fun x -> Clip x) cl) in
  let (p, d') = detect s0.det buf in
  let (buf', o0) = p in
  (match o0 with
   | Some t ->
     ((set_handlers (app s0.handlers (HChoosing :: []))
        (set_prompts (trig_prompts t) (set_det d' s0))),
       (app pre0 ((ToTerm buf') :: [])))
   | None -> out_forward zmodem_detect zm_init o (set_det d' s0) pre0 buf')

(** val out_zmodem :
    ('a2 -> coq_N list -> bool * 'a2) -> opts -> ('a1, 'a2) state -> coq_N
    list -> (('a1, 'a2) state, ('a1, 'a2) state * obs list) sum **)

let out_zmodem zm_handle o s buf =
  if o.o_zmodem
  then (match s.zmodem with
        | Some z ->
          let (h, z') = zm_handle z buf in
          if h
          then Coq_inl (set_zmodem (Some z') s)
          else Coq_inr ((set_zmodem None s), ((ToTerm show_cursor_seq) :: []))
        | None -> Coq_inr (s, []))
  else Coq_inr (s, [])

(** val out_step :
    ('a1 -> coq_N list -> (coq_N list * 'a2 option) * 'a1) -> ('a2 -> bool)
    -> (coq_N list -> bool) -> (coq_N list -> 'a3) -> ('a3 -> coq_N list ->
    bool * 'a3) -> coq_N list -> coq_N list -> opts -> ('a1, 'a3) state ->
    coq_N list -> ('a1, 'a3) state * obs list **)

let out_step detect trig_prompts zmodem_detect zm_init zm_handle msg_on msg_off o s buf0 =
  if s.transfer
  then (s, [])
  else let (buf, s0) = trace_log msg_on msg_off o s buf0 in
       (match out_zmodem zm_handle o s0 buf with
        | Coq_inl s' -> (s', [])
        | Coq_inr p ->
          let (s1, pre) = p in
          out_detect detect trig_prompts zmodem_detect zm_init o s1 pre buf)

(** val drag_verdict :
    (coq_N list -> dres) -> bool -> ('a1, 'a2) state -> coq_N list -> ('a1,
    'a2) state * obs list **)

let drag_verdict drag_detect timer s buf =
  let r = drag_detect buf in
  (match r.d_files with
   | Some p -> let (fs, hd) = p in ((add_drag fs hd s), [])
   | None ->
     if (&&) (negb timer) r.d_win
     then ((set_held (Some buf) s), [])
     else ((if r.d_ignore then s else reset_drag s), ((ToServer buf) :: [])))

(** val in_step :
    ('a2 -> bool) -> ('a2 -> 'a2) -> (coq_N list -> dres) -> (coq_N list ->
    bool) -> opts -> ('a1, 'a2) state -> coq_N list -> ('a1, 'a2) state * obs
    list **)

let in_step zm_busy zm_stop drag_detect is_stop_key o s buf =
  if p_set s.prompt
  then (s, [])
  else if s.transfer
       then ((if (&&) (is_stop_key buf) s.prompts
              then set_prompt POpen s
              else s), [])
       else let s0 =
              if o.o_zmodem
              then (match s.zmodem with
                    | Some z ->
                      if list_eqb buf (drag_interrupt_byte :: [])
                      then set_zmodem (Some (zm_stop z)) s
                      else s
                    | None -> s)
              else s
            in
            if (&&) o.o_zmodem
                 (match s0.zmodem with
                  | Some z -> zm_busy z
                  | None -> false)
            then (s0, [])
            else if s0.detect_on
                 then (match s0.held with
                       | Some b -> ((set_held (Some (app b buf)) s0), [])
                       | None -> drag_verdict drag_detect false s0 buf)
                 else (s0, ((ToServer buf) :: []))

(** val hold_timer :
    (coq_N list -> dres) -> ('a1, 'a2) state -> ('a1, 'a2) state * obs list **)

let hold_timer drag_detect s =
  match s.held with
  | Some b -> drag_verdict drag_detect true (set_held None s) b
  | None -> (s, [])

(** val remove_nth : nat -> 'a1 list -> 'a1 list **)

let rec remove_nth i = function
| [] -> []
| x :: l' -> (match i with
              | O -> l'
              | S j -> x :: (remove_nth j l'))

(** val set_nth : nat -> 'a1 -> 'a1 list -> 'a1 list **)

let rec set_nth i v = function
| [] -> []
| x :: l' -> (match i with
              | O -> v :: l'
              | S j -> x :: (set_nth j v l'))

(** val drag_step :
    opts -> ('a1, 'a2) state -> nat -> ('a1, 'a2) state * obs list **)

let drag_step o s i =
  match nth_error s.drag_procs i with
  | Some d ->
    (match d with
     | DWait ->
       if s.dragging
       then ((set_drag_procs (set_nth i DInterrupt s.drag_procs)
               (set_interrupting true s)), ((ToServer
              (drag_interrupt_byte :: [])) :: []))
       else ((set_drag_procs (remove_nth i s.drag_procs) s), [])
     | DInterrupt ->
       let cmd = drag_command o s in
       ((set_drag_procs (set_nth i DCmd s.drag_procs)
          (set_cur_cmd (Some cmd)
            (set_skip_cmd true (set_interrupting false s)))), ((ToServer
       (app cmd drag_cmd_end)) :: []))
     | DCmd ->
       ((set_drag_procs (remove_nth i s.drag_procs) (reset_drag s)), []))
  | None -> (s, [])

(** val handler_exit :
    opts -> ('a1, 'a2) state -> nat -> hphase -> ('a1, 'a2) state **)

let handler_exit o s i ph =
  let s0 =
    if o.o_fixed
    then (match s.prompt with
          | POpen -> set_prompt PClosing s
          | _ -> s)
    else s
  in
  let s1 = set_handlers (remove_nth i s0.handlers) s0 in
  (match ph with
   | HChoosing -> s1
   | HOwning -> set_transfer false s1)

(** val handler_step :
    opts -> ('a1, 'a2) state -> nat -> haction -> ('a1, 'a2) state * obs list **)

let handler_step o s i a =
  match nth_error s.handlers i with
  | Some ph ->
    (match a with
     | HIo (sv, tm) -> (s, ((ToServer sv) :: ((ToTerm tm) :: [])))
     | HTakeDrag ->
       (match ph with
        | HChoosing -> ((reset_drag s), [])
        | HOwning -> (s, []))
     | HRefuse ->
       (match ph with
        | HChoosing -> ((handler_exit o s i ph), [])
        | HOwning -> (s, []))
     | HFailEarly ->
       (match ph with
        | HChoosing -> ((handler_exit o s i ph), [])
        | HOwning -> (s, []))
     | HAccept ->
       (match ph with
        | HChoosing ->
          if s.transfer
          then ((handler_exit o s i ph), [])
          else ((set_handlers (set_nth i HOwning s.handlers)
                  (set_transfer true s)), [])
        | HOwning -> (s, []))
     | _ ->
       (match ph with
        | HChoosing -> (s, [])
        | HOwning -> ((handler_exit o s i ph), [])))
  | None -> (s, [])

type 'zstate event =
| EvOut of chunk
| EvIn of chunk
| EvDetectOn
| EvHoldTimer
| EvDrag of nat
| EvHandler of nat * haction
| EvPromptEnd
| EvZmodem of 'zstate

(** val step :
    ('a1 -> coq_N list -> (coq_N list * 'a2 option) * 'a1) -> ('a2 -> bool)
    -> (coq_N list -> bool) -> (coq_N list -> 'a3) -> ('a3 -> coq_N list ->
    bool * 'a3) -> ('a3 -> bool) -> ('a3 -> 'a3) -> (coq_N list -> dres) ->
    coq_N list -> coq_N list -> (coq_N list -> bool) -> opts -> ('a1, 'a3)
    state -> 'a3 event -> ('a1, 'a3) state * obs list **)

let step detect trig_prompts zmodem_detect zm_init zm_handle zm_busy zm_stop drag_detect msg_on msg_off is_stop_key o s = function
| EvOut c ->
  out_step detect trig_prompts zmodem_detect zm_init zm_handle msg_on msg_off
    o s c
| EvIn c -> in_step zm_busy zm_stop drag_detect is_stop_key o s c
| EvDetectOn -> ((if o.o_drag then set_detect_on true s else s), [])
| EvHoldTimer -> hold_timer drag_detect s
| EvDrag i -> drag_step o s i
| EvHandler (i, a) -> handler_step o s i a
| EvPromptEnd -> ((set_prompt PNone s), [])
| EvZmodem z ->
  ((match s.zmodem with
    | Some _ -> set_zmodem (Some z) s
    | None -> s), [])

(** val run :
    ('a1 -> coq_N list -> (coq_N list * 'a2 option) * 'a1) -> ('a2 -> bool)
    -> (coq_N list -> bool) -> (coq_N list -> 'a3) -> ('a3 -> coq_N list ->
    bool * 'a3) -> ('a3 -> bool) -> ('a3 -> 'a3) -> (coq_N list -> dres) ->
    coq_N list -> coq_N list -> (coq_N list -> bool) -> opts -> ('a1, 'a3)
    state -> 'a3 event list -> ('a1, 'a3) state * obs list **)

let rec run detect trig_prompts zmodem_detect zm_init zm_handle zm_busy zm_stop drag_detect msg_on msg_off is_stop_key o s = function
| [] -> (s, [])
| e :: es' ->
  let (s1, o1) =
    step detect trig_prompts zmodem_detect zm_init zm_handle zm_busy zm_stop
      drag_detect msg_on msg_off is_stop_key o s e
  in
  let (s2, o2) =
    run detect trig_prompts zmodem_detect zm_init zm_handle zm_busy zm_stop
      drag_detect msg_on msg_off is_stop_key o s1 es'
  in
  (s2, (app o1 o2))

(** val silent_detect :
    unit -> coq_N list -> (coq_N list * unit option) * unit **)

let silent_detect d c =
  ((c, None), d)

(** val corr_run :
    (path -> kind option) -> (coq_N list -> bool) -> coq_N list -> coq_N list
    -> opts -> bool -> unit event list -> obs list **)

let corr_run ex zdet msg_on msg_off o detect_on0 es =
  let s0 = set_detect_on detect_on0 (init ()) in
  snd
    (run silent_detect (fun _ -> false) zdet (fun _ -> ()) (fun z _ -> (true,
      z)) (fun _ -> true) (fun z -> z) (detect_drag_linux ex) msg_on msg_off
      (fun _ -> false) o s0 es)
