open BinInt
open BinNat
open BinNums
open Bytes0
open Consts
open Datatypes
open List0
open Nat0
open PeanoNat

val gd_int_min : coq_Z -> coq_Z

val gd_int_max : coq_Z -> coq_Z

val gd_in_range : coq_Z -> coq_Z -> bool

val gd_digit_val : coq_N -> coq_Z option

val gd_digits_val : coq_Z -> coq_N list -> coq_Z option

val gd_parse_int : coq_Z -> coq_N list -> coq_Z option

val gd_parse_int64 : coq_N list -> coq_Z option

val gd_atoi : coq_N list -> coq_Z option

val gd_parse_uint32 : coq_N list -> coq_Z option

type jnum =
| JAbsent
| JNull
| JInt of coq_Z
| JOther

val gd_json_int : coq_Z -> coq_Z -> jnum -> coq_Z option

val gd_json_int_literal : coq_N list -> jnum

type cfg = { bufsize : coq_Z; term_cols : coq_Z }

val recv_config_bufsize : jnum -> coq_Z option

val gd_wrap64 : coq_Z -> coq_Z

val max_data_size : cfg -> coq_Z

type data_res =
| DReject
| DFinish
| DRead of coq_Z

val recv_binary_data_v2 : cfg -> coq_N list -> data_res

val recv_binary_data_v1 : cfg -> coq_N list -> data_res

val guards_makeslice_max : coq_Z

type hash_res =
| HInvalid
| HPanic
| HShort
| HOk of coq_Z

type hrec = { h_step : coq_Z; h_good : bool }

val recv_hashes :
  bool -> coq_Z -> coq_Z -> coq_Z -> bool -> hrec list -> (coq_Z * bool)
  list * hash_res

val recv_current_ack : coq_N list -> coq_N list -> (coq_Z * coq_Z) option

type fack =
| FCancel
| FForward of coq_Z * bool

val recv_final_ack : coq_Z -> coq_N list -> fack

val recv_final_acks : coq_Z -> coq_N list list -> coq_Z list * bool option

val pane_sanitize : coq_Z -> coq_Z -> coq_Z

val bar_columns_of : coq_Z -> coq_Z -> coq_Z

val bar_columns : coq_Z -> coq_Z -> coq_Z

val recv_config_pane : jnum -> coq_Z option

val recv_config :
  jnum -> jnum -> jnum -> jnum -> (((coq_Z * coq_Z) * coq_Z) * coq_Z) option

val gd_parse_version :
  coq_N list -> coq_N list -> coq_N list -> ((coq_Z * coq_Z) * coq_Z) option

val gd_target_size : jnum -> coq_Z option

type gd_chunk_time =
| GdFast
| GdMid
| GdSlow of coq_Z

type gd_ack = { ga_len : coq_Z; ga_time : gd_chunk_time }

val gd_min64 : coq_Z -> coq_Z -> coq_Z

val gd_is_fast : gd_chunk_time -> bool

val gd_bufsize_step : coq_Z -> coq_Z -> gd_ack -> coq_Z

val gd_bufsize_run : coq_Z -> coq_Z -> gd_ack list -> coq_Z list

val gd_capacities : coq_Z -> gd_ack list -> coq_Z list

val gd_bufsize_step_v1 : coq_Z -> coq_Z -> gd_ack -> coq_Z

val gd_bufsize_run_v1 : coq_Z -> coq_Z -> gd_ack list -> coq_Z list

val gd_bufsize_step_ms :
  coq_Z -> coq_Z -> coq_Z -> coq_Z -> coq_Z -> coq_Z option

val gd_bufsize_run_ms :
  coq_Z -> coq_Z -> coq_Z -> (coq_Z * coq_Z) list -> coq_Z list option

val gd_capacities_ms : coq_Z -> (coq_Z * coq_Z) list -> coq_Z list option

type gd_aw_way =
| GdAwToFile
| GdAwHeader
| GdAwNilDeref

val gd_aw_dispatch : bool -> coq_Z -> bool -> gd_aw_way

val gd_aw_after_header : bool -> coq_Z -> coq_Z * bool

val gd_aw_ways :
  bool -> coq_Z -> bool -> ((bool * coq_Z) * nat) list -> gd_aw_way list

type gd_split =
| GdSplitReject
| GdSplitPanic
| GdSplitOk of coq_N list * coq_N list

val gd_line_split : coq_Z -> coq_N list -> gd_split
