open Datatypes
open List0
open PeanoNat

type chan = nat

type pid = nat

type wgid = nat

type alt =
| SendAlt of chan
| RecvAlt of chan
| DoneAlt
| TimerAlt
| DefaultAlt

type iokind =
| RecvLine
| WriteWire
| PauseGate
| FileIO
| Check
| Unknown

type stmt =
| Sel of (alt * stmt list) list
| Io of iokind
| IoE of iokind * stmt list
| Cancel
| IfCtxExit
| Return
| RecvClose of chan
| SendOnce of chan
| Join of pid
| WgWait of wgid
| WgAdd of wgid
| WgDone of wgid
| Branch of stmt list * stmt list
| LoopCtx of stmt list
| LoopRange of chan * stmt list
| LoopData of stmt list

type proc = { body : stmt list; finally : stmt list; defer_close : chan list;
              exit_cancel : bool; rank : nat }

type net = { procs_of : proc list; caps : nat list; senders : pid option list }

val noproc : proc

val info : net -> pid -> proc

val nprocs : net -> nat

val capof : net -> chan -> nat

val sender : net -> chan -> pid option

val exitsS : stmt -> bool

val exitsL : stmt list -> bool

type condition =
| W1
| W2
| W3
| W4
| W5

val is_wake : alt -> bool

val has_wake : (alt * stmt list) list -> bool

val opt_pid_eqb : pid option -> pid option -> bool

val closer_ok : net -> pid -> chan -> bool

val alt_ok : net -> alt -> bool

val check : net -> pid -> bool -> stmt -> condition option

val checkb : net -> pid -> bool -> stmt -> bool

val okS : net -> pid -> bool -> stmt -> bool

val okL : net -> pid -> bool -> stmt list -> bool

val violS : net -> pid -> bool -> stmt -> ((pid * stmt) * condition) list

val violL : net -> pid -> bool -> stmt list -> ((pid * stmt) * condition) list

val ok_proc : net -> pid -> bool

val nodupb : nat list -> bool

val closers_unique : net -> bool

val wf : net -> bool

val wf_violations : net -> ((pid * stmt) * condition) list

val flatS : stmt -> stmt list

val flatL : stmt list -> stmt list

val all_stmts : proc -> stmt list

val is_range : stmt -> bool

val count : (stmt -> bool) -> stmt list -> nat

val net_counts : net -> nat list
