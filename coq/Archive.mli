open BinInt
open BinNat
open BinNums
open Bytes0
open Consts
open Datatypes
open List0
open Nat0
open PeanoNat

type aname = byte list

type apath = aname list

type ameta = { am_path : apath; am_dir : bool; am_size : coq_Z }

type aentry = { ae_meta : ameta; ae_data : byte list }

val apath_eqb : apath -> apath -> bool

type anode =
| ADir
| AFile of byte list

type afs = (apath * anode) list

val afs_lookup : afs -> apath -> anode option

val afs_append : afs -> apath -> byte list -> afs

val afs_mkdirs : afs -> apath -> apath -> afs option

val afs_mkdir_all : afs -> apath -> afs option

val afs_create : afs -> ameta -> (afs * apath option) option

val afs0 : afs

val ae_dir : aentry -> bool

val apayload : aentry -> byte list

val coq_ANL : byte

val coq_ASPLIT : byte

val ar_total_size : (ameta -> byte list) -> aentry list -> coq_Z

val astream1 : (ameta -> byte list) -> aentry -> byte list

val astream : (ameta -> byte list) -> aentry list -> byte list

type arstate = { ar_files : aentry list; ar_src : aentry option;
                 ar_buf : byte list; ar_file : byte list option;
                 ar_left : coq_Z; ar_fds : nat; ar_peak : nat }

type arres =
| ArData of byte list
| ArEof
| ArErrShrink
| ArPanic
| ArSpin

type arstep =
| ArRet of arres * arstate
| ArNext of arstate

val ar_cur : arstate -> nat -> arstep

val ar_load :
  (ameta -> byte list) -> aentry list -> arstate -> nat -> arres * arstate

val ar_read : (ameta -> byte list) -> arstate -> nat -> arres * arstate

val ar_init : aentry list -> arstate

val ar_close : arstate -> arstate

val ar_next_size : nat list -> nat -> nat * nat list

type arend =
| ArEndEof
| ArEndErr of arres
| ArEndFuel

val ar_run :
  (ameta -> byte list) -> nat -> arstate -> nat list -> nat -> (byte list
  list * arend) * arstate

val ar_fuel : (ameta -> byte list) -> aentry list -> nat

val ar_reader_run :
  (ameta -> byte list) -> aentry list -> nat list -> nat -> (byte list
  list * arend) * arstate

type awstate = { aw_buf : byte list; aw_file : apath option; aw_left : 
                 coq_Z; aw_fs : afs; aw_fds : nat; aw_peak : nat }

type awerr =
| AwEHeader
| AwECreate

type awres =
| AwOk of nat * awstate
| AwErr of awerr * awstate

val aw_write :
  (byte list -> ameta option) -> bool -> awstate -> byte list -> awres

type awall =
| AwDone of awstate
| AwFail of awerr * awstate
| AwFuel

val aw_wa :
  (byte list -> ameta option) -> nat -> bool -> awstate -> byte list -> awall

val aw_write_all :
  (byte list -> ameta option) -> bool -> awstate -> byte list -> awall

val aw_run :
  (byte list -> ameta option) -> bool -> awstate -> byte list list -> awall

val aw_init : awstate

val aw_close : awstate -> awstate

val aw_writer_run :
  (byte list -> ameta option) -> bool -> byte list list -> awall

val aw_state_of : awall -> awstate option

val abuild1 : afs -> aentry -> afs option

val abuild : afs -> aentry list -> afs option

val apath_prefix : apath -> apath -> bool

val apath_proper_prefix : apath -> apath -> bool
