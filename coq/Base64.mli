open BinNat
open BinNums
open Bytes0
open Datatypes
open List0

val b64_alphabet : byte list

val b64_pad : byte

val b64_char : coq_N -> byte

val b64_index_from : byte list -> coq_N -> byte -> coq_N option

val b64_index : byte -> coq_N option

val is_b64_byte : byte -> bool

val b64_enc3 : byte -> byte -> byte -> byte list

val b64_groups : byte list -> byte list * byte list

val b64_tail : byte list -> byte list

val b64_encode : byte list -> byte list

val b64_writer_go : byte list -> byte list list -> byte list list * byte list

val b64_writer : byte list list -> byte list list * byte list

val b64_writer_all : byte list list -> byte list

val is_newline : byte -> bool

val b64_dec4 : coq_N -> coq_N -> coq_N -> coq_N -> byte list

val is_nil : 'a1 list -> bool

val b64_quanta : byte list -> byte list option

val b64_strip : byte list -> byte list

val b64_decode : byte list -> byte list option
