open ErrTell

(** val errtell_preds : et_pred list **)

let errtell_preds =
  { ep_name = PTraceBack; ep_guards = (((BOr ((BTypeIs EtFail), (BTypeIs
    EtEXIT))), false) :: []); ep_final = BTrace } :: ({ ep_name =
    PRemoteExit; ep_guards = []; ep_final = (BTypeIs
    EtEXIT) } :: ({ ep_name = PRemoteFail; ep_guards = []; ep_final = (BOr
    ((BTypeIs EtFail), (BTypeIs EtFAIL))) } :: ({ ep_name = PStopAndDelete;
    ep_guards = (((BOr (BNil, (BNot (BTypeIs EtFail)))), false) :: []);
    ep_final = BMsgSad } :: [])))

(** val errtell_clientError : et_stmt list **)

let errtell_clientError =
  TClean :: ((TSetBool (VTrace, (CConst true))) :: ((TIf (CIsTrz, ((TSetBool
    (VTrace, (CPred PTraceBack))) :: ((TIf ((COr ((CPred PRemoteExit), (CPred
    PRemoteFail))), (TReturn :: []), [])) :: [])), [])) :: ((TIf (CFlag,
    (TDelete :: ((TIf (CDeleted, ((TSend ((SLit WFail),
    true)) :: (TReturn :: [])), [])) :: [])), [])) :: ((TSetStr (VTyp,
    WFail)) :: ((TIf ((CVar VTrace), ((TSetStr (VTyp, WFAIL)) :: []),
    [])) :: ((TSend ((SVar VTyp), false)) :: []))))))

(** val errtell_serverError : et_stmt list **)

let errtell_serverError =
  TClean :: ((TSetBool (VTrace, (CConst true))) :: ((TIf (CIsTrz, ((TIf
    ((CPred PStopAndDelete), (TDelete :: ((TIf (CDeleted, ((TExit
    true) :: (TReturn :: [])), [])) :: [])), [])) :: ((TSetBool (VTrace,
    (CPred PTraceBack))) :: ((TIf ((COr ((CPred PRemoteExit), (CPred
    PRemoteFail))), ((TExit false) :: (TReturn :: [])), [])) :: []))),
    [])) :: ((TSetStr (VTyp, WFail)) :: ((TIf ((CVar VTrace), ((TSetStr
    (VTyp, WFAIL)) :: []), [])) :: ((TSend ((SVar VTyp), false)) :: ((TIf
    (CWindow, (TSwitchWriter :: ((TSend ((SVar VTyp), false)) :: [])),
    [])) :: ((TExit false) :: [])))))))
