open BinNat
open BinNums
open Bytes0
open Datatypes
open List0

(** val b64_alphabet : byte list **)

let b64_alphabet =
  (Npos (Coq_xI (Coq_xO (Coq_xO (Coq_xO (Coq_xO (Coq_xO
    Coq_xH))))))) :: ((Npos (Coq_xO (Coq_xI (Coq_xO (Coq_xO (Coq_xO (Coq_xO
    Coq_xH))))))) :: ((Npos (Coq_xI (Coq_xI (Coq_xO (Coq_xO (Coq_xO (Coq_xO
    Coq_xH))))))) :: ((Npos (Coq_xO (Coq_xO (Coq_xI (Coq_xO (Coq_xO (Coq_xO
    Coq_xH))))))) :: ((Npos (Coq_xI (Coq_xO (Coq_xI (Coq_xO (Coq_xO (Coq_xO
    Coq_xH))))))) :: ((Npos (Coq_xO (Coq_xI (Coq_xI (Coq_xO (Coq_xO (Coq_xO
    Coq_xH))))))) :: ((Npos (Coq_xI (Coq_xI (Coq_xI (Coq_xO (Coq_xO (Coq_xO
    Coq_xH))))))) :: ((Npos (Coq_xO (Coq_xO (Coq_xO (Coq_xI (Coq_xO (Coq_xO
    Coq_xH))))))) :: ((Npos (Coq_xI (Coq_xO (Coq_xO (Coq_xI (Coq_xO (Coq_xO
    Coq_xH))))))) :: ((Npos (Coq_xO (Coq_xI (Coq_xO (Coq_xI (Coq_xO (Coq_xO
    Coq_xH))))))) :: ((Npos (Coq_xI (Coq_xI (Coq_xO (Coq_xI (Coq_xO (Coq_xO
    Coq_xH))))))) :: ((Npos (Coq_xO (Coq_xO (Coq_xI (Coq_xI (Coq_xO (Coq_xO
    Coq_xH))))))) :: ((Npos (Coq_xI (Coq_xO (Coq_xI (Coq_xI (Coq_xO (Coq_xO
    Coq_xH))))))) :: ((Npos (Coq_xO (Coq_xI (Coq_xI (Coq_xI (Coq_xO (Coq_xO
    Coq_xH))))))) :: ((Npos (Coq_xI (Coq_xI (Coq_xI (Coq_xI (Coq_xO (Coq_xO
    Coq_xH))))))) :: ((Npos (Coq_xO (Coq_xO (Coq_xO (Coq_xO (Coq_xI (Coq_xO
    Coq_xH))))))) :: ((Npos (Coq_xI (Coq_xO (Coq_xO (Coq_xO (Coq_xI (Coq_xO
    Coq_xH))))))) :: ((Npos (Coq_xO (Coq_xI (Coq_xO (Coq_xO (Coq_xI (Coq_xO
    Coq_xH))))))) :: ((Npos (Coq_xI (Coq_xI (Coq_xO (Coq_xO (Coq_xI (Coq_xO
    Coq_xH))))))) :: ((Npos (Coq_xO (Coq_xO (Coq_xI (Coq_xO (Coq_xI (Coq_xO
    Coq_xH))))))) :: ((Npos (Coq_xI (Coq_xO (Coq_xI (Coq_xO (Coq_xI (Coq_xO
    Coq_xH))))))) :: ((Npos (Coq_xO (Coq_xI (Coq_xI (Coq_xO (Coq_xI (Coq_xO
    Coq_xH))))))) :: ((Npos (Coq_xI (Coq_xI (Coq_xI (Coq_xO (Coq_xI (Coq_xO
    Coq_xH))))))) :: ((Npos (Coq_xO (Coq_xO (Coq_xO (Coq_xI (Coq_xI (Coq_xO
    Coq_xH))))))) :: ((Npos (Coq_xI (Coq_xO (Coq_xO (Coq_xI (Coq_xI (Coq_xO
    Coq_xH))))))) :: ((Npos (Coq_xO (Coq_xI (Coq_xO (Coq_xI (Coq_xI (Coq_xO
    Coq_xH))))))) :: ((Npos (Coq_xI (Coq_xO (Coq_xO (Coq_xO (Coq_xO (Coq_xI
    Coq_xH))))))) :: ((Npos (Coq_xO (Coq_xI (Coq_xO (Coq_xO (Coq_xO (Coq_xI
    Coq_xH))))))) :: ((Npos (Coq_xI (Coq_xI (Coq_xO (Coq_xO (Coq_xO (Coq_xI
    Coq_xH))))))) :: ((Npos (Coq_xO (Coq_xO (Coq_xI (Coq_xO (Coq_xO (Coq_xI
    Coq_xH))))))) :: ((Npos (Coq_xI (Coq_xO (Coq_xI (Coq_xO (Coq_xO (Coq_xI
    Coq_xH))))))) :: ((Npos (Coq_xO (Coq_xI (Coq_xI (Coq_xO (Coq_xO (Coq_xI
    Coq_xH))))))) :: ((Npos (Coq_xI (Coq_xI (Coq_xI (Coq_xO (Coq_xO (Coq_xI
    Coq_xH))))))) :: ((Npos (Coq_xO (Coq_xO (Coq_xO (Coq_xI (Coq_xO (Coq_xI
    Coq_xH))))))) :: ((Npos (Coq_xI (Coq_xO (Coq_xO (Coq_xI (Coq_xO (Coq_xI
    Coq_xH))))))) :: ((Npos (Coq_xO (Coq_xI (Coq_xO (Coq_xI (Coq_xO (Coq_xI
    Coq_xH))))))) :: ((Npos (Coq_xI (Coq_xI (Coq_xO (Coq_xI (Coq_xO (Coq_xI
    Coq_xH))))))) :: ((Npos (Coq_xO (Coq_xO (Coq_xI (Coq_xI (Coq_xO (Coq_xI
    Coq_xH))))))) :: ((Npos (Coq_xI (Coq_xO (Coq_xI (Coq_xI (Coq_xO (Coq_xI
    Coq_xH))))))) :: ((Npos (Coq_xO (Coq_xI (Coq_xI (Coq_xI (Coq_xO (Coq_xI
    Coq_xH))))))) :: ((Npos (Coq_xI (Coq_xI (Coq_xI (Coq_xI (Coq_xO (Coq_xI
    Coq_xH))))))) :: ((Npos (Coq_xO (Coq_xO (Coq_xO (Coq_xO (Coq_xI (Coq_xI
    Coq_xH))))))) :: ((Npos (Coq_xI (Coq_xO (Coq_xO (Coq_xO (Coq_xI (Coq_xI
    Coq_xH))))))) :: ((Npos (Coq_xO (Coq_xI (Coq_xO (Coq_xO (Coq_xI (Coq_xI
    Coq_xH))))))) :: ((Npos (Coq_xI (Coq_xI (Coq_xO (Coq_xO (Coq_xI (Coq_xI
    Coq_xH))))))) :: ((Npos (Coq_xO (Coq_xO (Coq_xI (Coq_xO (Coq_xI (Coq_xI
    Coq_xH))))))) :: ((Npos (Coq_xI (Coq_xO (Coq_xI (Coq_xO (Coq_xI (Coq_xI
    Coq_xH))))))) :: ((Npos (Coq_xO (Coq_xI (Coq_xI (Coq_xO (Coq_xI (Coq_xI
    Coq_xH))))))) :: ((Npos (Coq_xI (Coq_xI (Coq_xI (Coq_xO (Coq_xI (Coq_xI
    Coq_xH))))))) :: ((Npos (Coq_xO (Coq_xO (Coq_xO (Coq_xI (Coq_xI (Coq_xI
    Coq_xH))))))) :: ((Npos (Coq_xI (Coq_xO (Coq_xO (Coq_xI (Coq_xI (Coq_xI
    Coq_xH))))))) :: ((Npos (Coq_xO (Coq_xI (Coq_xO (Coq_xI (Coq_xI (Coq_xI
    Coq_xH))))))) :: ((Npos (Coq_xO (Coq_xO (Coq_xO (Coq_xO (Coq_xI
    Coq_xH)))))) :: ((Npos (Coq_xI (Coq_xO (Coq_xO (Coq_xO (Coq_xI
    Coq_xH)))))) :: ((Npos (Coq_xO (Coq_xI (Coq_xO (Coq_xO (Coq_xI
    Coq_xH)))))) :: ((Npos (Coq_xI (Coq_xI (Coq_xO (Coq_xO (Coq_xI
    Coq_xH)))))) :: ((Npos (Coq_xO (Coq_xO (Coq_xI (Coq_xO (Coq_xI
    Coq_xH)))))) :: ((Npos (Coq_xI (Coq_xO (Coq_xI (Coq_xO (Coq_xI
    Coq_xH)))))) :: ((Npos (Coq_xO (Coq_xI (Coq_xI (Coq_xO (Coq_xI
    Coq_xH)))))) :: ((Npos (Coq_xI (Coq_xI (Coq_xI (Coq_xO (Coq_xI
    Coq_xH)))))) :: ((Npos (Coq_xO (Coq_xO (Coq_xO (Coq_xI (Coq_xI
    Coq_xH)))))) :: ((Npos (Coq_xI (Coq_xO (Coq_xO (Coq_xI (Coq_xI
    Coq_xH)))))) :: ((Npos (Coq_xI (Coq_xI (Coq_xO (Coq_xI (Coq_xO
    Coq_xH)))))) :: ((Npos (Coq_xI (Coq_xI (Coq_xI (Coq_xI (Coq_xO
    Coq_xH)))))) :: [])))))))))))))))))))))))))))))))))))))))))))))))))))))))))))))))

(** val b64_pad : byte **)

let b64_pad =
  Npos (Coq_xI (Coq_xO (Coq_xI (Coq_xI (Coq_xI Coq_xH)))))

(** val b64_char : coq_N -> byte **)

let b64_char s =
  nth (N.to_nat s) b64_alphabet N0

(** val b64_index_from : byte list -> coq_N -> byte -> coq_N option **)

let rec b64_index_from l i c =
  match l with
  | [] -> None
  | x :: r ->
    if N.eqb x c then Some i else b64_index_from r (N.add i (Npos Coq_xH)) c

(** val b64_index : byte -> coq_N option **)

let b64_index c =
  b64_index_from b64_alphabet N0 c

(** val is_b64_byte : byte -> bool **)

let is_b64_byte c =
  (||) (existsb (N.eqb c) b64_alphabet) (N.eqb c b64_pad)

(** val b64_enc3 : byte -> byte -> byte -> byte list **)

let b64_enc3 a b c =
  let v =
    N.add
      (N.add
        (N.mul a (Npos (Coq_xO (Coq_xO (Coq_xO (Coq_xO (Coq_xO (Coq_xO
          (Coq_xO (Coq_xO (Coq_xO (Coq_xO (Coq_xO (Coq_xO (Coq_xO (Coq_xO
          (Coq_xO (Coq_xO Coq_xH))))))))))))))))))
        (N.mul b (Npos (Coq_xO (Coq_xO (Coq_xO (Coq_xO (Coq_xO (Coq_xO
          (Coq_xO (Coq_xO Coq_xH))))))))))) c
  in
  (b64_char
    (N.modulo
      (N.div v (Npos (Coq_xO (Coq_xO (Coq_xO (Coq_xO (Coq_xO (Coq_xO (Coq_xO
        (Coq_xO (Coq_xO (Coq_xO (Coq_xO (Coq_xO (Coq_xO (Coq_xO (Coq_xO
        (Coq_xO (Coq_xO (Coq_xO Coq_xH)))))))))))))))))))) (Npos (Coq_xO
      (Coq_xO (Coq_xO (Coq_xO (Coq_xO (Coq_xO Coq_xH))))))))) :: ((b64_char
                                                                    (N.modulo
                                                                    (N.div v
                                                                    (Npos
                                                                    (Coq_xO
                                                                    (Coq_xO
                                                                    (Coq_xO
                                                                    (Coq_xO
                                                                    (Coq_xO
                                                                    (Coq_xO
                                                                    (Coq_xO
                                                                    (Coq_xO
                                                                    (Coq_xO
                                                                    (Coq_xO
                                                                    (Coq_xO
                                                                    (Coq_xO
                                                                    Coq_xH))))))))))))))
                                                                    (Npos
                                                                    (Coq_xO
                                                                    (Coq_xO
                                                                    (Coq_xO
                                                                    (Coq_xO
                                                                    (Coq_xO
                                                                    (Coq_xO
                                                                    Coq_xH))))))))) :: (
  (b64_char
    (N.modulo
      (N.div v (Npos (Coq_xO (Coq_xO (Coq_xO (Coq_xO (Coq_xO (Coq_xO
        Coq_xH)))))))) (Npos (Coq_xO (Coq_xO (Coq_xO (Coq_xO (Coq_xO (Coq_xO
      Coq_xH))))))))) :: ((b64_char
                            (N.modulo v (Npos (Coq_xO (Coq_xO (Coq_xO (Coq_xO
                              (Coq_xO (Coq_xO Coq_xH))))))))) :: [])))

(** val b64_groups : byte list -> byte list * byte list **)

let rec b64_groups d = match d with
| [] -> ([], d)
| a :: l ->
  (match l with
   | [] -> ([], d)
   | b :: l0 ->
     (match l0 with
      | [] -> ([], d)
      | c :: r ->
        let (o, rest) = b64_groups r in ((app (b64_enc3 a b c) o), rest)))

(** val b64_tail : byte list -> byte list **)

let b64_tail = function
| [] -> []
| a :: l ->
  (match l with
   | [] ->
     let v =
       N.mul a (Npos (Coq_xO (Coq_xO (Coq_xO (Coq_xO (Coq_xO (Coq_xO (Coq_xO
         (Coq_xO (Coq_xO (Coq_xO (Coq_xO (Coq_xO (Coq_xO (Coq_xO (Coq_xO
         (Coq_xO Coq_xH)))))))))))))))))
     in
     (b64_char
       (N.modulo
         (N.div v (Npos (Coq_xO (Coq_xO (Coq_xO (Coq_xO (Coq_xO (Coq_xO
           (Coq_xO (Coq_xO (Coq_xO (Coq_xO (Coq_xO (Coq_xO (Coq_xO (Coq_xO
           (Coq_xO (Coq_xO (Coq_xO (Coq_xO Coq_xH)))))))))))))))))))) (Npos
         (Coq_xO (Coq_xO (Coq_xO (Coq_xO (Coq_xO (Coq_xO Coq_xH))))))))) :: (
     (b64_char
       (N.modulo
         (N.div v (Npos (Coq_xO (Coq_xO (Coq_xO (Coq_xO (Coq_xO (Coq_xO
           (Coq_xO (Coq_xO (Coq_xO (Coq_xO (Coq_xO (Coq_xO
           Coq_xH)))))))))))))) (Npos (Coq_xO (Coq_xO (Coq_xO (Coq_xO (Coq_xO
         (Coq_xO Coq_xH))))))))) :: (b64_pad :: (b64_pad :: [])))
   | b :: l0 ->
     (match l0 with
      | [] ->
        let v =
          N.add
            (N.mul a (Npos (Coq_xO (Coq_xO (Coq_xO (Coq_xO (Coq_xO (Coq_xO
              (Coq_xO (Coq_xO (Coq_xO (Coq_xO (Coq_xO (Coq_xO (Coq_xO (Coq_xO
              (Coq_xO (Coq_xO Coq_xH))))))))))))))))))
            (N.mul b (Npos (Coq_xO (Coq_xO (Coq_xO (Coq_xO (Coq_xO (Coq_xO
              (Coq_xO (Coq_xO Coq_xH))))))))))
        in
        (b64_char
          (N.modulo
            (N.div v (Npos (Coq_xO (Coq_xO (Coq_xO (Coq_xO (Coq_xO (Coq_xO
              (Coq_xO (Coq_xO (Coq_xO (Coq_xO (Coq_xO (Coq_xO (Coq_xO (Coq_xO
              (Coq_xO (Coq_xO (Coq_xO (Coq_xO Coq_xH))))))))))))))))))))
            (Npos (Coq_xO (Coq_xO (Coq_xO (Coq_xO (Coq_xO (Coq_xO
            Coq_xH))))))))) :: ((b64_char
                                  (N.modulo
                                    (N.div v (Npos (Coq_xO (Coq_xO (Coq_xO
                                      (Coq_xO (Coq_xO (Coq_xO (Coq_xO (Coq_xO
                                      (Coq_xO (Coq_xO (Coq_xO (Coq_xO
                                      Coq_xH)))))))))))))) (Npos (Coq_xO
                                    (Coq_xO (Coq_xO (Coq_xO (Coq_xO (Coq_xO
                                    Coq_xH))))))))) :: ((b64_char
                                                          (N.modulo
                                                            (N.div v (Npos
                                                              (Coq_xO (Coq_xO
                                                              (Coq_xO (Coq_xO
                                                              (Coq_xO (Coq_xO
                                                              Coq_xH))))))))
                                                            (Npos (Coq_xO
                                                            (Coq_xO (Coq_xO
                                                            (Coq_xO (Coq_xO
                                                            (Coq_xO
                                                            Coq_xH))))))))) :: (b64_pad :: [])))
      | _ :: _ -> []))

(** val b64_encode : byte list -> byte list **)

let b64_encode d =
  let (o, r) = b64_groups d in app o (b64_tail r)

(** val b64_writer_go :
    byte list -> byte list list -> byte list list * byte list **)

let rec b64_writer_go buf = function
| [] -> ([], (b64_tail buf))
| p :: r ->
  let (o, buf') = b64_groups (app buf p) in
  let (os, cl) = b64_writer_go buf' r in ((o :: os), cl)

(** val b64_writer : byte list list -> byte list list * byte list **)

let b64_writer chunks =
  b64_writer_go [] chunks

(** val b64_writer_all : byte list list -> byte list **)

let b64_writer_all chunks =
  let (os, cl) = b64_writer chunks in app (concat os) cl

(** val is_newline : byte -> bool **)

let is_newline c =
  (||) (N.eqb c coq_LF) (N.eqb c coq_CR)

(** val b64_dec4 : coq_N -> coq_N -> coq_N -> coq_N -> byte list **)

let b64_dec4 s0 s1 s2 s3 =
  let v =
    N.add
      (N.add
        (N.add
          (N.mul s0 (Npos (Coq_xO (Coq_xO (Coq_xO (Coq_xO (Coq_xO (Coq_xO
            (Coq_xO (Coq_xO (Coq_xO (Coq_xO (Coq_xO (Coq_xO (Coq_xO (Coq_xO
            (Coq_xO (Coq_xO (Coq_xO (Coq_xO Coq_xH))))))))))))))))))))
          (N.mul s1 (Npos (Coq_xO (Coq_xO (Coq_xO (Coq_xO (Coq_xO (Coq_xO
            (Coq_xO (Coq_xO (Coq_xO (Coq_xO (Coq_xO (Coq_xO
            Coq_xH)))))))))))))))
        (N.mul s2 (Npos (Coq_xO (Coq_xO (Coq_xO (Coq_xO (Coq_xO (Coq_xO
          Coq_xH))))))))) s3
  in
  (N.modulo
    (N.div v (Npos (Coq_xO (Coq_xO (Coq_xO (Coq_xO (Coq_xO (Coq_xO (Coq_xO
      (Coq_xO (Coq_xO (Coq_xO (Coq_xO (Coq_xO (Coq_xO (Coq_xO (Coq_xO (Coq_xO
      Coq_xH)))))))))))))))))) (Npos (Coq_xO (Coq_xO (Coq_xO (Coq_xO (Coq_xO
    (Coq_xO (Coq_xO (Coq_xO Coq_xH)))))))))) :: ((N.modulo
                                                   (N.div v (Npos (Coq_xO
                                                     (Coq_xO (Coq_xO (Coq_xO
                                                     (Coq_xO (Coq_xO (Coq_xO
                                                     (Coq_xO Coq_xH))))))))))
                                                   (Npos (Coq_xO (Coq_xO
                                                   (Coq_xO (Coq_xO (Coq_xO
                                                   (Coq_xO (Coq_xO (Coq_xO
                                                   Coq_xH)))))))))) :: (
  (N.modulo v (Npos (Coq_xO (Coq_xO (Coq_xO (Coq_xO (Coq_xO (Coq_xO (Coq_xO
    (Coq_xO Coq_xH)))))))))) :: []))

(** val is_nil : 'a1 list -> bool **)

let is_nil = function
| [] -> true
| _ :: _ -> false

(** val b64_quanta : byte list -> byte list option **)

let rec b64_quanta = function
| [] -> Some []
| c0 :: l ->
  (match l with
   | [] -> None
   | c1 :: l0 ->
     (match l0 with
      | [] -> None
      | c2 :: l1 ->
        (match l1 with
         | [] -> None
         | c3 :: r ->
           (match b64_index c0 with
            | Some s0 ->
              (match b64_index c1 with
               | Some s1 ->
                 (match b64_index c2 with
                  | Some s2 ->
                    (match b64_index c3 with
                     | Some s3 ->
                       (match b64_quanta r with
                        | Some o -> Some (app (b64_dec4 s0 s1 s2 s3) o)
                        | None -> None)
                     | None ->
                       if (&&) (N.eqb c3 b64_pad) (is_nil r)
                       then Some (firstn (S (S O)) (b64_dec4 s0 s1 s2 N0))
                       else None)
                  | None ->
                    if (&&) ((&&) (N.eqb c2 b64_pad) (N.eqb c3 b64_pad))
                         (is_nil r)
                    then Some (firstn (S O) (b64_dec4 s0 s1 N0 N0))
                    else None)
               | None -> None)
            | None -> None))))

(** val b64_strip : byte list -> byte list **)

let b64_strip s =
  filter (fun c -> negb (is_newline c)) s

(** val b64_decode : byte list -> byte list option **)

let b64_decode s =
  b64_quanta (b64_strip s)
