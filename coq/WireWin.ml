open Buffer0
open Bytes0
open Datatypes
open List0
open Nat0
open Noise
open Wire

(** val ww_wire :
    bool -> byte list -> (bool * byte list) list -> byte list **)

let ww_wire binary newline ps =
  concat (map (wire_render_piece binary newline) ps)

(** val ww_line_part : bool -> nat -> byte list -> byte list **)

let ww_line_part binary payload_len msg =
  if binary then firstn (sub (length msg) payload_len) msg else msg

(** val ww_recv :
    nat -> nat -> pending -> (byte list list * (nat * pending)) option **)

let rec ww_recv fuel off pend =
  match fuel with
  | O -> None
  | S f ->
    (match recv_line_windows wire_DATA off pend with
     | WDone (line, o, p') ->
       (match wire_check wire_DATA line with
        | Some buf ->
          (match buf with
           | [] -> Some ([], (o, p'))
           | _ :: _ ->
             (match ww_recv f o p' with
              | Some p -> let (fs, e) = p in Some ((buf :: fs), e)
              | None -> None))
        | None -> None)
     | _ -> None)
