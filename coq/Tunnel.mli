open BinInt
open BinNat
open BinNums
open Bytes0
open Consts
open Datatypes
open List0
open Nat0
open PeanoNat

val dec_fuel : nat -> coq_N -> coq_N list -> coq_N list

val dec_N : coq_N -> coq_N list

val dec_Z : coq_Z -> coq_N list

type farg =
| FStr of coq_N list
| FInt of coq_Z

val sprintf : coq_N list -> farg list -> coq_N list

val cut_uid : coq_N list -> coq_N list

val client_hello : coq_N list -> coq_Z -> coq_N list

val server_hello : coq_N list -> coq_Z -> coq_N list

val hello_matches : coq_N list -> coq_N list -> bool

type pev =
| PWrite of coq_N list
| PClose

type src =
| SrcInband
| SrcConn of nat

type hpc =
| HRefused
| HPending
| HAccepted
| HRead
| HCompare of coq_N list option
| HReply
| HCas
| HPumpStart
| HCloseListener
| HDone

type conn = { k_script : pev list; k_rx : coq_N list; k_eof : bool;
              k_pc : hpc; k_first : coq_N list option; k_tx : coq_N list;
              k_closed : bool; k_won : bool; k_pump : bool }

val k_first : conn -> coq_N list option

val k_tx : conn -> coq_N list

val k_closed : conn -> bool

val k_won : conn -> bool

val k_pump : conn -> bool

val new_conn : pev list -> hpc -> conn

val set_pc : hpc -> conn -> conn

val set_closed : conn -> conn

val set_rx : coq_N list -> conn -> conn

val upd : nat -> ('a1 -> 'a1) -> 'a1 list -> 'a1 list

val peer_step : conn -> conn option

type apc =
| AAccept
| ACheck of nat
| ADone

type actst =
| ActWaiting
| ActOk
| ActErr

type sstate = { s_conns : conn list; s_lis : bool; s_apc : apc;
                s_tconn : nat option; s_tconnected : bool;
                s_writer : nat option; s_act : actst;
                s_inbuf : (src * coq_N list) list; s_dropped : coq_N list list }

val s_conns : sstate -> conn list

val s_lis : sstate -> bool

val s_tconn : sstate -> nat option

val s_tconnected : sstate -> bool

val s_writer : sstate -> nat option

val s_act : sstate -> actst

val s_inbuf : sstate -> (src * coq_N list) list

val s_dropped : sstate -> coq_N list list

val s_init : sstate

val with_conns : sstate -> conn list -> sstate

type slabel =
| LConnect of pev list
| LPeer of nat
| LAccept of nat
| LAcceptErr
| LCheck
| LHandler of nat
| LWriteFail of nat
| LPump of nat * nat
| LInband of coq_N list
| LAct of bool
| LCleanup

val add_received :
  bool -> src -> coq_N list -> (src * coq_N list) list -> coq_N list list ->
  (src * coq_N list) list * coq_N list list

val sstep : coq_N list -> coq_N list -> sstate -> slabel -> sstate option

type kpc =
| KCall
| KChk
| KWrite
| KRead
| KCmp of coq_N list option
| KSend
| KDone

type spc =
| SSelect
| SStore
| SPump
| SDone

type mpc =
| MWait
| MLoad
| MSent of bool

type cstate = { c_conn : conn option; c_kpc : kpc; c_chan : bool option;
                c_spc : spc; c_timer : bool; c_timedout : bool;
                c_wg_done : bool; c_mpc : mpc; c_tconn : bool;
                c_tconnected : bool; c_writer_tunnel : bool; c_pump : 
                bool; c_inbuf : (src * coq_N list) list;
                c_dropped : coq_N list list }

val c_init : cstate

type clabel =
| CConnector of pev list option
| CK of bool * bool
| CPeer
| CTimer
| CSelChan
| CSelTimer
| CS
| CMain
| CPumpRead of nat
| CInband of coq_N list
| CCleanup

val cset : cstate -> conn option -> kpc -> bool option -> cstate

val cgive_up : cstate -> conn -> cstate

val cstep : coq_N list -> coq_N list -> cstate -> clabel -> cstate option

val first_some : (nat -> 'a1 option) -> nat list -> 'a1 option

val pending_idx : sstate -> nat list

val sched_once : coq_N list -> coq_N list -> sstate -> sstate option

val settle_fuel : sstate -> nat

type cobs =
| ObsRefused
| ObsOpenSilent
| ObsClosedSilent
| ObsReplied of coq_N list * bool

val observe : conn -> cobs

type coutcome =
| CoNil
| CoConn of bool * bool * coq_N list option

val client_labels : coutcome -> clabel list

val crun_skip : coq_N list -> coq_N list -> cstate -> clabel list -> cstate

val client_decides : coq_N list -> coq_Z -> coutcome -> bool option
