open BinNat
open BinNums
open Buffer0
open Bytes0
open Consts
open Datatypes
open List0
open Nat0
open PeanoNat

val marker : byte list -> byte list

val marker_cut : byte list -> byte list -> byte list

val strip_tmux : nat -> byte list -> byte list

val strip_tmux_status : byte list -> byte list

val recv_line : byte list -> bool -> pending -> rres

val in_ranges : (coq_N * coq_N) list -> byte -> bool

val is_trzsz_letter : byte -> bool

val is_vt100_end : byte -> bool

type wst = { w_last : byte; w_skip : bool; w_nl : bool; w_dup : bool;
             w_home : bool; w_prehome : bool }

val w_init : wst

val last_is : byte list -> byte -> bool

val set_last : byte list -> byte -> byte list

val win_byte : wst -> byte list -> byte -> (wst * byte list) option

val win_fold : wst -> byte list -> byte list -> (wst * byte list) option

type wcres =
| WCLine of byte list * nat * byte list
| WCIntr of nat * byte list
| WCMore of wst * byte list

val win_chunk : nat -> wst -> byte list -> nat -> byte list -> wcres

type wres =
| WDone of byte list * nat * pending
| WBlocked
| WInterrupted of nat * pending

val win_read : wst -> byte list -> nat -> pending -> wres

val read_line_windows : nat -> pending -> wres

val recv_line_windows : byte list -> nat -> pending -> wres

val win_run : byte list list -> nat -> pending -> result list

val junk_run : byte list list -> bool -> pending -> result list
