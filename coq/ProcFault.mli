open Datatypes
open List0
open Proc

val is_done : alt -> bool

val ccS : bool -> bool -> stmt -> bool -> bool

val cc : bool -> bool -> bool -> stmt list -> bool

val allS : (stmt -> bool) -> stmt -> bool

val allL : (stmt -> bool) -> stmt list -> bool

val quiet_exit : proc -> bool

val fault_ok : bool -> bool -> stmt -> bool

val faults_proc : bool -> proc -> bool

val faults_cancel : net -> bool

val collectS : (stmt -> bool) -> stmt -> stmt list

val collectL : (stmt -> bool) -> stmt list -> stmt list

val violations_by : (bool -> stmt -> bool) -> net -> (pid * stmt) list

val kind_of : stmt -> iokind

val fault_waits : net -> (pid * iokind) list

val is_ioe : stmt -> bool

val is_cancel : stmt -> bool

val fault_counts : net -> nat list
