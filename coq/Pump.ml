open BinNat
open Buffer0
open Bytes0
open Consts
open Datatypes
open List0
open PeanoNat

type src_ev =
| SrcData of byte list
| SrcEnd of byte list

(** val chop : nat -> nat -> byte list -> byte list list **)

let rec chop fuel b s =
  match fuel with
  | O -> s :: []
  | S f ->
    if Nat.leb (length s) b
    then s :: []
    else (firstn b s) :: (chop f b (skipn b s))

(** val nonempty_chunks : byte list list -> byte list list **)

let nonempty_chunks cs =
  filter nonempty cs

(** val pump_reads : nat -> bool -> src_ev list -> byte list list **)

let rec pump_reads b stop_at_err = function
| [] -> []
| s0 :: r ->
  (match s0 with
   | SrcData s ->
     app (nonempty_chunks (chop (length s) b s)) (pump_reads b stop_at_err r)
   | SrcEnd s ->
     app (nonempty_chunks (chop (length s) b s))
       (if stop_at_err then [] else pump_reads b stop_at_err r))

(** val delivered : bool -> src_ev list -> byte list **)

let rec delivered stop_at_err = function
| [] -> []
| s0 :: r ->
  (match s0 with
   | SrcData s -> app s (delivered stop_at_err r)
   | SrcEnd s -> app s (if stop_at_err then [] else delivered stop_at_err r))

(** val add_received :
    bool -> bool -> bool -> byte list -> pending -> pending **)

let add_received tunnel_connected stopped tunnel buf q =
  if (&&) tunnel_connected (negb tunnel)
  then q
  else if stopped then q else app q (buf :: [])

(** val add_handshake : bool -> bool -> bool -> bool **)

let add_handshake handshaking tunnel_connected tunnel =
  (&&) handshaking (negb ((&&) (negb tunnel) tunnel_connected))

(** val transfer_buf_size : nat **)

let transfer_buf_size =
  N.to_nat pump_transfer_buf_size

(** val filter_buf_size : nat **)

let filter_buf_size =
  N.to_nat pump_filter_buf_size

(** val relay_stdin_buf_size : nat **)

let relay_stdin_buf_size =
  N.to_nat pump_relay_stdin_buf_size

(** val relay_stdout_buf_size : nat **)

let relay_stdout_buf_size =
  N.to_nat pump_relay_stdout_buf_size

(** val tunnel_in_buf_size : nat **)

let tunnel_in_buf_size =
  N.to_nat pump_tunnel_in_buf_size

(** val tunnel_out_buf_size : nat **)

let tunnel_out_buf_size =
  N.to_nat pump_tunnel_out_buf_size

(** val pump_transfer :
    nat -> bool -> bool -> bool -> src_ev list -> pending **)

let pump_transfer b tunnel_connected stopped tunnel evs =
  [] :: (fold_left (fun q c ->
          add_received tunnel_connected stopped tunnel c q)
          (pump_reads b true evs) [])

(** val pump_filter : nat -> bool -> bool -> src_ev list -> pending **)

let pump_filter b tunnel_connected stopped evs =
  [] :: (fold_left (fun q c ->
          add_received tunnel_connected stopped false c q)
          (pump_reads b false evs) [])

(** val pump_relay :
    nat -> bool -> bool -> bool -> src_ev list -> pending * byte list list **)

let pump_relay b handshaking tunnel_connected tunnel evs =
  let cs = pump_reads b true evs in
  if add_handshake handshaking tunnel_connected tunnel
  then (([] :: cs), [])
  else (([] :: []), cs)

type pump_kind =
| PTransfer
| PFilter
| PRelayIn
| PRelayOut
| PTunnelIn
| PTunnelOut

(** val pump_run :
    pump_kind -> bool -> bool -> bool -> src_ev list -> op list -> (result
    list * byte list list) * byte list list **)

let pump_run k f1 f2 f3 evs ops =
  let (pend, fwd) =
    match k with
    | PTransfer -> ((pump_transfer transfer_buf_size f1 f2 f3 evs), [])
    | PFilter -> ((pump_filter filter_buf_size f1 f2 evs), [])
    | PRelayIn -> pump_relay relay_stdin_buf_size f1 f2 false evs
    | PRelayOut -> pump_relay relay_stdout_buf_size f1 f2 false evs
    | PTunnelIn -> pump_relay tunnel_in_buf_size f1 f2 true evs
    | PTunnelOut -> pump_relay tunnel_out_buf_size f1 f2 true evs
  in
  let (rs, e) = run_cont ops pend in ((rs, (pop_all (pop_all_fuel e) e)), fwd)
