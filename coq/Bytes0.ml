open BinNat
open BinNums
open Datatypes

type byte = coq_N

(** val coq_LF : byte **)

let coq_LF =
  Npos (Coq_xO (Coq_xI (Coq_xO Coq_xH)))

(** val coq_CR : byte **)

let coq_CR =
  Npos (Coq_xI (Coq_xO (Coq_xI Coq_xH)))

(** val nonempty : 'a1 list -> bool **)

let nonempty = function
| [] -> false
| _ :: _ -> true

(** val list_eqb : coq_N list -> coq_N list -> bool **)

let rec list_eqb a b =
  match a with
  | [] -> (match b with
           | [] -> true
           | _ :: _ -> false)
  | x :: a' ->
    (match b with
     | [] -> false
     | y :: b' -> (&&) (N.eqb x y) (list_eqb a' b'))

(** val has_prefix : coq_N list -> coq_N list -> bool **)

let rec has_prefix p l =
  match p with
  | [] -> true
  | x :: p' ->
    (match l with
     | [] -> false
     | y :: l' -> (&&) (N.eqb x y) (has_prefix p' l'))

(** val index_of : coq_N list -> coq_N list -> nat option **)

let rec index_of pat l =
  if has_prefix pat l
  then Some O
  else (match l with
        | [] -> None
        | _ :: l' ->
          (match index_of pat l' with
           | Some i -> Some (S i)
           | None -> None))

(** val last_index_of : coq_N list -> coq_N list -> nat option **)

let rec last_index_of pat l = match l with
| [] -> if has_prefix pat [] then Some O else None
| _ :: l' ->
  (match last_index_of pat l' with
   | Some i -> Some (S i)
   | None -> if has_prefix pat l then Some O else None)

(** val contains : coq_N list -> coq_N list -> bool **)

let contains pat l =
  match index_of pat l with
  | Some _ -> true
  | None -> false

(** val index_byte : coq_N -> coq_N list -> nat option **)

let rec index_byte b = function
| [] -> None
| x :: l' ->
  if N.eqb x b
  then Some O
  else (match index_byte b l' with
        | Some i -> Some (S i)
        | None -> None)

(** val is_digit : coq_N -> bool **)

let is_digit b =
  (&&) (N.leb (Npos (Coq_xO (Coq_xO (Coq_xO (Coq_xO (Coq_xI Coq_xH)))))) b)
    (N.leb b (Npos (Coq_xI (Coq_xO (Coq_xO (Coq_xI (Coq_xI Coq_xH)))))))
