open BinNat
open BinNums
open Datatypes
open List0
open Path

type node =
| File of coq_N list
| Dir

type fs = (path * node) list

type effect =
| EMkdir of path
| ECreate of path
| EOpen of path
| ETrunc of path
| ERemove of path

val effect_path : effect -> path

val lookup : fs -> path -> node option

val get : fs -> path -> node option

val set : fs -> path -> node -> fs

val name_max : coq_N

val name_len : name -> coq_N

val has_nul : name -> bool

val bad_path : path -> bool

type stat_res =
| SFound of node
| SNotExist
| SOther

val walk : fs -> path -> name list -> stat_res

val stat : fs -> path -> stat_res

val write0 : coq_N list -> coq_N list -> coq_N list

val open_create :
  fs -> path -> bool -> coq_N list -> (fs * effect list) option

val mk_down : fs -> path -> name list -> (bool * fs) * effect list

val mkdir_all : fs -> path -> (bool * fs) * effect list

val remove_all : fs -> path -> fs * effect list
