open BinNums
open BinPos
open Datatypes

module N :
 sig
  val succ_double : coq_N -> coq_N

  val double : coq_N -> coq_N

  val add : coq_N -> coq_N -> coq_N

  val sub : coq_N -> coq_N -> coq_N

  val mul : coq_N -> coq_N -> coq_N

  val compare : coq_N -> coq_N -> comparison

  val eqb : coq_N -> coq_N -> bool

  val leb : coq_N -> coq_N -> bool

  val ltb : coq_N -> coq_N -> bool

  val min : coq_N -> coq_N -> coq_N

  val pow : coq_N -> coq_N -> coq_N

  val log2 : coq_N -> coq_N

  val size_nat : coq_N -> nat

  val pos_div_eucl : positive -> coq_N -> coq_N * coq_N

  val div_eucl : coq_N -> coq_N -> coq_N * coq_N

  val div : coq_N -> coq_N -> coq_N

  val modulo : coq_N -> coq_N -> coq_N

  val to_nat : coq_N -> nat

  val of_nat : nat -> coq_N
 end
