open BinNat
open BinNums
open BinPos
open Datatypes

module Z :
 sig
  val double : coq_Z -> coq_Z

  val succ_double : coq_Z -> coq_Z

  val pred_double : coq_Z -> coq_Z

  val pos_sub : positive -> positive -> coq_Z

  val add : coq_Z -> coq_Z -> coq_Z

  val opp : coq_Z -> coq_Z

  val sub : coq_Z -> coq_Z -> coq_Z

  val mul : coq_Z -> coq_Z -> coq_Z

  val pow_pos : coq_Z -> positive -> coq_Z

  val pow : coq_Z -> coq_Z -> coq_Z

  val compare : coq_Z -> coq_Z -> comparison

  val sgn : coq_Z -> coq_Z

  val leb : coq_Z -> coq_Z -> bool

  val ltb : coq_Z -> coq_Z -> bool

  val gtb : coq_Z -> coq_Z -> bool

  val eqb : coq_Z -> coq_Z -> bool

  val min : coq_Z -> coq_Z -> coq_Z

  val abs : coq_Z -> coq_Z

  val abs_N : coq_Z -> coq_N

  val to_nat : coq_Z -> nat

  val to_N : coq_Z -> coq_N

  val of_nat : nat -> coq_Z

  val of_N : coq_N -> coq_Z

  val pos_div_eucl : positive -> coq_Z -> coq_Z * coq_Z

  val div_eucl : coq_Z -> coq_Z -> coq_Z * coq_Z

  val div : coq_Z -> coq_Z -> coq_Z

  val modulo : coq_Z -> coq_Z -> coq_Z

  val quotrem : coq_Z -> coq_Z -> coq_Z * coq_Z

  val quot : coq_Z -> coq_Z -> coq_Z
 end
