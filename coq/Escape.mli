open BinNat
open BinNums
open Bytes0
open Consts
open Datatypes
open List0
open Nat0
open PeanoNat

val leader : byte

type table = (byte * byte) list

val esc_code : table -> byte -> byte option

val unesc_code : table -> byte -> byte option

val escape : table -> byte list -> byte list

type ures =
| UOk of byte list * byte list
| UErr of byte

val ucons : byte -> ures -> ures

val unesc : table -> byte list -> nat -> ures

val unescape_data : table -> byte list -> nat -> ures

type rres =
| RData of byte list
| REof
| RErr of byte

val er_read :
  table -> byte list -> byte list list -> nat -> rres * (byte list * byte
  list list)

val next_size : nat list -> nat -> nat * nat list

type rend =
| EndEof of byte list
| EndErr of byte
| EndFuel

val er_run :
  nat -> table -> byte list -> byte list list -> nat list -> nat -> byte list
  list * rend

val er_fuel : byte list -> byte list list -> nat

val ew_write : table -> byte list list -> byte list list

val latin1 : coq_N list -> byte list option

val table_of_json : coq_N list list list -> table option

val escape_all_pairs : coq_N list -> coq_N -> coq_N list list list

val builtin_json : bool -> coq_N list list list

val builtin_table : bool -> table

val er_run_passthru :
  nat -> byte list list -> nat list -> nat -> byte list list

val er_passthru_fuel : byte list list -> nat
