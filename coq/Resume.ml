open BinInt
open BinNat
open BinNums
open Bytes0
open Consts
open Datatypes
open List0
open Nat0
open PeanoNat

type digest = coq_N list

type hmsg =
| Hash of coq_Z * digest
| Over

type ack = { a_step : coq_Z; a_match : bool }

type file = { f_data : byte list; f_off : nat }

(** val f_write : file -> byte list -> file **)

let f_write f d =
  let c = f.f_data in
  let o = f.f_off in
  { f_data =
  (app (firstn o c)
    (app (repeat N0 (sub o (length c))) (app d (skipn (add o (length d)) c))));
  f_off = (add o (length d)) }

(** val f_seek : file -> nat -> file **)

let f_seek f m =
  { f_data = f.f_data; f_off = m }

(** val f_truncate : file -> nat -> file **)

let f_truncate f m =
  { f_data = (app (firstn m f.f_data) (repeat N0 (sub m (length f.f_data))));
    f_off = f.f_off }

(** val coq_Bn : coq_N -> nat **)

let coq_Bn =
  N.to_nat

(** val send_hashes :
    coq_N -> (byte list -> digest) -> nat -> nat option -> byte list -> nat
    -> nat -> byte list -> hmsg list option **)

let rec send_hashes b h fuel stops src size step fed =
  if (&&) (Nat.ltb step size)
       (negb
         (match stops with
          | Some n -> (match n with
                       | O -> true
                       | S _ -> false)
          | None -> false))
  then (match fuel with
        | O -> None
        | S fuel' ->
          let m = sub size step in
          let want = if N.ltb (N.of_nat m) b then m else coq_Bn b in
          let buf = firstn want (skipn step src) in
          let step' = add step (length buf) in
          let fed' = app fed buf in
          (match send_hashes b h fuel' (option_map pred stops) src size step'
                   fed' with
           | Some r -> Some ((Hash ((Z.of_nat step'), (h fed'))) :: r)
           | None -> None))
  else Some (Over :: [])

type rstate = { r_match : bool; r_mstep : coq_Z; r_fed : byte list;
                r_off : nat; r_acks : ack list }

(** val r_init : rstate **)

let r_init =
  { r_match = true; r_mstep = Z0; r_fed = []; r_off = O; r_acks = [] }

type rout =
| ROver of rstate
| RBlocked of rstate
| RInvalid of rstate * coq_Z
| RPanic of rstate * coq_Z
| RReadErr of rstate * coq_Z

(** val recv_hashes :
    coq_N -> (byte list -> digest) -> byte list -> hmsg list -> rstate -> rout **)

let rec recv_hashes b h dst msgs st =
  match msgs with
  | [] -> RBlocked st
  | h0 :: rest ->
    (match h0 with
     | Hash (hstep, h1) ->
       if negb st.r_match
       then recv_hashes b h dst rest st
       else let step = Z.sub hstep st.r_mstep in
            if (&&) resume_step_guard
                 ((||) (Z.leb step Z0) (Z.ltb (Z.of_N b) step))
            then RInvalid (st, hstep)
            else if Z.ltb step Z0
                 then RPanic (st, step)
                 else if Z.leb (Z.add (Z.of_nat st.r_off) step)
                           (Z.of_nat (length dst))
                      then let n = Z.to_nat step in
                           let buf = firstn n (skipn st.r_off dst) in
                           let fed' = app st.r_fed buf in
                           let m = list_eqb h1 (h fed') in
                           recv_hashes b h dst rest { r_match = m; r_mstep =
                             (if m then hstep else st.r_mstep); r_fed = fed';
                             r_off = (add st.r_off n); r_acks =
                             (app st.r_acks ({ a_step = hstep; a_match =
                               m } :: [])) }
                      else RReadErr (st, step)
     | Over -> ROver st)

type sres =
| SDone of coq_Z
| SErr of coq_Z
| SBlocked

(** val recv_acks : coq_Z -> ack list -> coq_Z -> sres **)

let rec recv_acks size acks mstep =
  match acks with
  | [] -> SBlocked
  | a :: rest ->
    if negb a.a_match
    then SDone mstep
    else let mstep0 = a.a_step in
         if Z.eqb mstep0 size
         then SDone mstep0
         else if Z.ltb size mstep0
              then SErr mstep0
              else recv_acks size rest mstep0

(** val recv_hash_acks : coq_Z -> ack list -> sres **)

let recv_hash_acks size acks =
  if Z.eqb size Z0 then SDone Z0 else recv_acks size acks Z0

type outcome = { o_hashes : hmsg list; o_acks : ack list; o_mrecv : coq_Z;
                 o_msend : coq_Z; o_sent : byte list; o_final : byte list }

type result =
| Done of outcome
| SenderBlocked of hmsg list * ack list
| SenderErr of coq_Z
| RecvFail of rout
| OutOfFuel

(** val opened : coq_N -> byte list -> byte list **)

let opened proto dst =
  let truncate =
    if N.ltb proto resume_min_protocol
    then resume_v2_truncate
    else resume_v3_truncate
  in
  if truncate then [] else dst

(** val no_exchange : byte list -> byte list -> result **)

let no_exchange src dst0 =
  Done { o_hashes = []; o_acks = []; o_mrecv = Z0; o_msend = Z0; o_sent =
    src; o_final = (f_write { f_data = dst0; f_off = O } src).f_data }

(** val run :
    coq_N -> (byte list -> digest) -> coq_N -> nat option -> byte list ->
    byte list -> result **)

let run b h proto stops src dst =
  let dst0 = opened proto dst in
  if N.ltb proto resume_min_protocol
  then no_exchange src dst0
  else if Nat.eqb (length dst0) O
       then no_exchange src dst0
       else let size = Nat.min (length src) (length dst0) in
            (match send_hashes b h size stops src size O [] with
             | Some hs ->
               (match recv_hashes b h dst0 hs r_init with
                | ROver st ->
                  (match recv_hash_acks (Z.of_nat size) st.r_acks with
                   | SDone ms ->
                     let mr = Z.to_nat st.r_mstep in
                     let f =
                       f_truncate
                         (f_seek { f_data = dst0; f_off = st.r_off } mr) mr
                     in
                     let sent = skipn (Z.to_nat ms) src in
                     Done { o_hashes = hs; o_acks = st.r_acks; o_mrecv =
                     st.r_mstep; o_msend = ms; o_sent = sent; o_final =
                     (f_write f sent).f_data }
                   | SErr m -> SenderErr m
                   | SBlocked -> SenderBlocked (hs, st.r_acks))
                | x -> RecvFail x)
             | None -> OutOfFuel)

(** val block_end : coq_N -> nat -> nat -> nat **)

let block_end b size i =
  Nat.min (mul i (coq_Bn b)) size

(** val good_blocks :
    coq_N -> (byte list -> digest) -> nat -> byte list -> byte list -> nat ->
    nat -> nat **)

let rec good_blocks b h fuel src dst size i =
  match fuel with
  | O -> O
  | S fuel' ->
    if (&&) (Nat.ltb (mul i (coq_Bn b)) size)
         (list_eqb (h (firstn (block_end b size (S i)) src))
           (h (firstn (block_end b size (S i)) dst)))
    then S (good_blocks b h fuel' src dst size (S i))
    else O

(** val agreed :
    coq_N -> (byte list -> digest) -> byte list -> byte list -> nat **)

let agreed b h src dst =
  let size = Nat.min (length src) (length dst) in
  block_end b size (good_blocks b h size src dst size O)

(** val abs_nblocks : coq_N -> coq_N -> coq_N **)

let abs_nblocks b size =
  N.div (N.sub (N.add size b) (Npos Coq_xH)) b

(** val abs_agreed : coq_N -> coq_N -> coq_N -> coq_N **)

let abs_agreed b size cp =
  if N.leb size cp then size else N.mul b (N.div cp b)

(** val abs_good : coq_N -> coq_N -> coq_N -> coq_N **)

let abs_good b size cp =
  if N.leb size cp then abs_nblocks b size else N.div cp b

(** val abs_nacks : coq_N -> coq_N -> coq_N -> coq_N **)

let abs_nacks b size cp =
  let g = abs_good b size cp in
  if N.ltb g (abs_nblocks b size) then N.add g (Npos Coq_xH) else g

(** val abs_stops_ok : coq_N -> coq_N -> coq_N -> coq_N -> bool **)

let abs_stops_ok b size cp k =
  let n = abs_nblocks b size in
  let g = abs_good b size cp in
  if N.ltb g n
  then (&&) (N.leb (N.add g (Npos Coq_xH)) k) (N.leb k n)
  else N.eqb k n

(** val run_id :
    coq_N -> coq_N -> nat option -> byte list -> byte list -> result **)

let run_id b =
  run b (fun l -> l)

(** val agreed_id : coq_N -> byte list -> byte list -> nat **)

let agreed_id b =
  agreed b (fun l -> l)
