(* Bytes are N below 256; streams are lists of N.  Executable definitions only. *)
From Coq Require Export List NArith Bool Arith Lia.
Export ListNotations.
Open Scope N_scope.

Definition byte := N.
Definition byte_ok (b : byte) : bool := b <? 256.
Definition bytes_ok (l : list byte) : bool := forallb byte_ok l.

Definition all_bytes : list byte := map N.of_nat (seq 0 256).

Definition LF : byte := 10.
Definition CR : byte := 13.
Definition ETX : byte := 3.
Definition ESC : byte := 27.

Definition nonempty {A} (l : list A) : bool := match l with [] => false | _ => true end.
Definition all_nonempty {A} (cs : list (list A)) : bool := forallb nonempty cs.

Fixpoint list_eqb (a b : list N) : bool :=
  match a, b with
  | [], [] => true
  | x :: a', y :: b' => (x =? y) && list_eqb a' b'
  | _, _ => false
  end.

(* bytes.HasPrefix *)
Fixpoint has_prefix (p l : list N) : bool :=
  match p, l with
  | [], _ => true
  | x :: p', y :: l' => (x =? y) && has_prefix p' l'
  | _ :: _, [] => false
  end.

(* bytes.Index: position of first occurrence of pat (non-empty) in l *)
Fixpoint index_of (pat l : list N) : option nat :=
  if has_prefix pat l then Some O else
  match l with
  | [] => None
  | _ :: l' => match index_of pat l' with Some i => Some (S i) | None => None end
  end.

(* bytes.LastIndex *)
Fixpoint last_index_of (pat l : list N) : option nat :=
  match l with
  | [] => if has_prefix pat [] then Some O else None
  | _ :: l' =>
    match last_index_of pat l' with
    | Some i => Some (S i)
    | None => if has_prefix pat l then Some O else None
    end
  end.

Definition contains (pat l : list N) : bool :=
  match index_of pat l with Some _ => true | None => false end.

Fixpoint index_byte (b : N) (l : list N) : option nat :=
  match l with
  | [] => None
  | x :: l' => if x =? b then Some O else
      match index_byte b l' with Some i => Some (S i) | None => None end
  end.

Definition is_digit (b : N) : bool := (48 <=? b) && (b <=? 57).
Definition is_upper (b : N) : bool := (65 <=? b) && (b <=? 90).
Definition is_lower (b : N) : bool := (97 <=? b) && (b <=? 122).
Definition is_alpha (b : N) : bool := is_upper b || is_lower b.
