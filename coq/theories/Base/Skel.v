(* Synchronisation skeletons (DESIGN 3.1 (b)): what go/cmd/gen keeps of a Go function when
   everything that is not an atomic, lock, channel, buffer or control construct is dropped.
   Hand-written type; the terms of this type live in Gen/Skel_*.v (generated) and in the
   expected_skel definitions of the interleaving models (hand-written). *)
From Coq Require Export List String.
Export ListNotations.

Inductive aop := ALoad | AStore | ACas | ASwap.

Inductive sk :=
| SkAtomic (var : string) (op : aop)      (* x.<var>.Load() / Store / CompareAndSwap / Swap *)
| SkLock (mu : string)
| SkUnlock (mu : string)
| SkSend (ch : string)                    (* x.<ch> <- v *)
| SkRecv (ch : string)
| SkClose (ch : string)
| SkCall (f : string)                     (* call of a function that has a skeleton, or a buffer primitive *)
| SkGo (f : string)                       (* go x.f(...) *)
| SkGoLit (body : list sk)                (* go func() { body }() *)
| SkDefer (body : list sk)
| SkIf (cond : list sk) (thn els : list sk)
| SkLoop (body : list sk)
| SkReturn | SkContinue | SkBreak.

Definition skel := list (string * list sk).
