(* ASSEMBLED by bin/check from coq/extract.d/*.txt. Extraction of the executable models to OCaml
   for the correspondence check.  Only ExtrOcamlBasic is used: bool, option, unit, list, prod,
   sumbool, sumor map to their OCaml counterparts; nat, positive, N, Z stay Coq inductive types. *)
Require Import Coq.ZArith.ZArith.
Require Import Trzsz.Model.Base64.
Require Import Trzsz.Model.Wire.
Require Import Trzsz.Model.Escape.
Require Extraction.
Require Import ExtrOcamlBasic.
Extraction "model.ml"
  Z.add
  Z.mul
  Z.div
  Z.modulo
  Z.opp
  Z.of_N
  Z.to_N
  N.to_nat
  N.of_nat
  Z.of_nat
  Z.to_nat
  Z.sub
  N.add
  N.mul
  N.sub
  N.div
  N.modulo
  Base64.b64_encode
  Base64.b64_decode
  Base64.b64_writer
  Base64.is_b64_byte
  Wire.wire_letter
  Wire.wire_dec
  Wire.wire_undec
  Wire.wire_line
  Wire.wire_int_line
  Wire.wire_pause_line
  Wire.wire_ack_line
  Wire.wire_frames
  Wire.wire_data_frame
  Wire.wire_resplit
  Wire.wire_render_piece
  Wire.wire_recv
  Wire.wire_v1_chunk
  Wire.wire_v1_recv
  Wire.wire_encode_bytes
  Wire.wire_decode_string
  Escape.escape
  Escape.unescape_data
  Escape.er_run
  Escape.er_fuel
  Escape.ew_write
  Escape.table_of_json
  Escape.builtin_table
  Escape.esc_code
  Escape.unesc_code.
