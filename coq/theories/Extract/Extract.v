(* ASSEMBLED by bin/check from coq/extract.d/*.txt. Extraction of the executable models to OCaml
   for the correspondence check.  Only ExtrOcamlBasic is used: bool, option, unit, list, prod,
   sumbool, sumor map to their OCaml counterparts; nat, positive, N, Z stay Coq inductive types. *)
Require Import Coq.ZArith.ZArith.
Require Import Trzsz.Model.Buffer.
Require Import Trzsz.Model.Escape.
Require Import Trzsz.Model.Noise.
Require Extraction.
Require Import ExtrOcamlBasic.
Extraction "model.ml"
  Z.add
  Z.mul
  Z.div
  Z.modulo
  Z.opp
  Z.of_N
  Z.to_N
  N.to_nat
  N.of_nat
  Z.of_nat
  Z.to_nat
  Z.sub
  N.add
  N.mul
  N.sub
  N.div
  N.modulo
  Buffer.run
  Buffer.run_cont
  Buffer.pop_all
  Buffer.pop_all_fuel
  Buffer.ref_run
  Buffer.step
  Buffer.pop_buffer
  Escape.escape
  Escape.unescape_data
  Escape.er_run
  Escape.er_fuel
  Escape.ew_write
  Escape.table_of_json
  Escape.builtin_table
  Escape.esc_code
  Escape.unesc_code
  Noise.recv_line
  Noise.recv_line_windows
  Noise.win_run
  Noise.junk_run
  Noise.strip_tmux_status
  Noise.marker_cut
  Noise.is_trzsz_letter
  Noise.is_vt100_end
  Noise.read_line_windows.
