(* ASSEMBLED by bin/check from coq/extract.d/*.txt. Extraction of the executable models to OCaml
   for the correspondence check.  Only ExtrOcamlBasic is used: bool, option, unit, list, prod,
   sumbool, sumor map to their OCaml counterparts; nat, positive, N, Z stay Coq inductive types. *)
Require Import Coq.ZArith.ZArith.
Require Import Trzsz.Model.Escape.
Require Import Trzsz.Model.Pause.
Require Extraction.
Require Import ExtrOcamlBasic.
Extraction "model.ml"
  Z.add
  Z.mul
  Z.div
  Z.modulo
  Z.opp
  Z.of_N
  Z.to_N
  N.to_nat
  N.of_nat
  Z.of_nat
  Z.to_nat
  Z.sub
  N.add
  N.mul
  N.sub
  N.div
  N.modulo
  Escape.escape
  Escape.unescape_data
  Escape.er_run
  Escape.er_fuel
  Escape.ew_write
  Escape.table_of_json
  Escape.builtin_table
  Escape.esc_code
  Escape.unesc_code
  Pause.rstep
  Pause.rrun
  Pause.rinit
  Pause.classify
  Pause.payload_of
  Pause.cfg_of
  Pause.keepalive_line
  Pause.sstep
  Pause.srun
  Pause.count_keeps
  Pause.cstep
  Pause.crun
  Pause.cinit
  Pause.quiescent
  Pause.astep
  Pause.arun
  Pause.ainit
  Pause.abs_of.
