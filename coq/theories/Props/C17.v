(* C17 — Only the authenticated tunnel connection is ever used, and only one.
   Property theorems only; each is closed by a lemma of Proofs/Tunnel.v and followed by
   Print Assumptions.  Every statement is about EVERY reachable state of the interleaving
   models of Model/Tunnel.v, i.e. every schedule of the acceptor, the per-connection
   handlers, the pumps, the main thread, the timer, and every number and behaviour of
   connecting peers (scripts are arbitrary lists of writes and closes).

   ch = the client hello, sh = the server hello of THIS transfer:
   client_hello uid port / server_hello uid port, getHelloConstant of the source. *)
From Trzsz Require Import Base.Bytes Gen.Consts Gen.Skel_tunnel Model.TunnelSkel Model.Tunnel Proofs.Tunnel.
From Coq Require Import ZArith.

Section Server.
Variables (uid : list N) (port : Z).
Let ch := client_hello uid port.
Let sh := server_hello uid port.

(* whatever is adopted (stored in tunnelConn, used as the writer, won the CAS, or has a pump
   reading from it) is a connection whose handler's ONE Read returned exactly the hello
   derived from id and port — and it is the one in tunnelConn *)
Theorem C17_adopted_authenticated : forall s c k, sreach ch sh s ->
  nth_error (s_conns s) c = Some k ->
  s_tconn s = Some c \/ s_writer s = Some c \/ k_won k = true \/ k_pump k = true ->
  k_first k = Some ch /\ s_tconn s = Some c.
Proof. exact (adopted_authenticated ch sh). Qed.

Theorem C17_adopted_exists : forall s c, sreach ch sh s ->
  s_tconn s = Some c \/ s_writer s = Some c -> exists k, nth_error (s_conns s) c = Some k.
Proof. exact (adopted_exists ch sh). Qed.

(* at most one connection ever wins the CompareAndSwap, and the cell never changes again *)
Theorem C17_at_most_one : forall s c1 c2 k1 k2, sreach ch sh s ->
  nth_error (s_conns s) c1 = Some k1 -> nth_error (s_conns s) c2 = Some k2 ->
  k_won k1 = true -> k_won k2 = true -> c1 = c2.
Proof. exact (at_most_one ch sh). Qed.

Theorem C17_adoption_stable : forall s c ls s', sreach ch sh s -> s_tconn s = Some c ->
  srun ch sh s ls = Some s' -> s_tconn s' = Some c.
Proof. exact (adoption_stable ch sh). Qed.

(* a connection whose first read was anything but the hello (or that has not been read, or
   whose read failed) has had NO byte written to it, is not adopted, has no pump; and when its
   handler is done it has been closed *)
Theorem C17_unauth_closed_unanswered : forall s c k, sreach ch sh s ->
  nth_error (s_conns s) c = Some k -> k_first k <> Some ch ->
  k_tx k = [] /\ k_won k = false /\ k_pump k = false /\ s_tconn s <> Some c /\
  (k_pc k = HDone -> k_closed k = true).
Proof. exact (unauth_closed_unanswered ch sh). Qed.

(* … and the handler is never blocked between its read and that close: the very next step of
   the handler is enabled and closes the connection with nothing written *)
Theorem C17_unauth_closed_next : forall s c k r, sreach ch sh s ->
  nth_error (s_conns s) c = Some k -> k_pc k = HCompare r -> r <> Some ch ->
  exists s' k', sstep ch sh s (LHandler c) = Some s' /\ nth_error (s_conns s') c = Some k' /\
    k_pc k' = HDone /\ k_closed k' = true /\ k_tx k' = [].
Proof. exact (unauth_closed_next ch sh). Qed.

(* the only bytes anybody ever writes to a connection are the server hello, once *)
Theorem C17_reply_only_hello : forall s c k, sreach ch sh s ->
  nth_error (s_conns s) c = Some k -> k_tx k = [] \/ (k_tx k = sh /\ k_first k = Some ch).
Proof. exact (reply_only_hello ch sh). Qed.

(* bytes enter the transfer's input buffer from a connection only if it is THE adopted one *)
Theorem C17_only_adopted_feeds : forall s c bs, sreach ch sh s ->
  In (SrcConn c, bs) (s_inbuf s) -> s_tconn s = Some c.
Proof. exact (only_adopted_feeds ch sh). Qed.

(* once tunnelConnected is set it stays set, and from then on no in-band chunk reaches the
   transfer's buffer, whatever happens *)
Theorem C17_inband_ignored : forall s ls s', sreach ch sh s -> s_tconnected s = true ->
  srun ch sh s ls = Some s' ->
  s_tconnected s' = true /\ filter is_inband (s_inbuf s') = filter is_inband (s_inbuf s).
Proof. exact (inband_ignored ch sh). Qed.

(* no adopted connection => the writer is stdout, nothing but in-band bytes is in the buffer,
   and a successfully received ACT leaves tunnelConnected false; and while tunnelConnected is
   false the writer is stdout and not one in-band chunk has been dropped: the transfer is the
   in-band one *)
Theorem C17_fallback_server : forall s, sreach ch sh s ->
  (s_tconn s = None ->
     s_writer s = None /\ (forall c bs, ~ In (SrcConn c, bs) (s_inbuf s)) /\
     (s_act s = ActOk -> s_tconnected s = false)) /\
  (s_tconnected s = false -> s_writer s = None /\ s_dropped s = []).
Proof. exact (fallback_server ch sh). Qed.

(* ---- client (connectToTunnel + sendAction) ---- *)

(* the client adopts only a connection to which it wrote exactly the client hello and whose
   ONE read returned exactly the server hello, and never after the select took the timer *)
Theorem C17_client_adopted_authenticated : forall s, creach ch sh s ->
  c_tconn s = true \/ c_pump s = true \/ c_writer_tunnel s = true \/ c_tconnected s = true ->
  exists k, c_conn s = Some k /\ k_first k = Some sh /\ k_tx k = ch /\ c_timedout s = false /\ c_tconn s = true.
Proof. exact (client_adopted_authenticated ch sh). Qed.

(* the ACT's tunnel flag says exactly whether a connection was adopted; connector refused,
   late (timer branch taken), dead or wrongly answering connection => not adopted; and while
   tunnelConnected is false the writer is the terminal and no in-band chunk is dropped *)
Theorem C17_fallback_client : forall s, creach ch sh s ->
  (forall tun, c_mpc s = MSent tun -> tun = c_tconn s /\ c_tconnected s = tun /\ c_writer_tunnel s = tun) /\
  (c_timedout s = true -> c_tconn s = false) /\
  (c_conn s = None -> c_tconn s = false) /\
  (forall k, c_conn s = Some k -> k_first k <> Some sh -> c_tconn s = false) /\
  (c_tconnected s = false -> c_writer_tunnel s = false /\ c_dropped s = []).
Proof. exact (fallback_client ch sh). Qed.

(* sendAction is never held up by the tunnel: from every reachable state in which it waits, at
   most five steps of the client's own threads and the timer — no step of the connector or of
   the far end — bring it past the ACT *)
Theorem C17_client_never_stuck : forall s, creach ch sh s -> c_mpc s = MWait ->
  exists ls s' tun, (length ls <= 5)%nat /\ forallb own_label ls = true /\
    crun ch sh s ls = Some s' /\ c_mpc s' = MSent tun.
Proof. exact (client_never_stuck ch sh). Qed.

Theorem C17_client_inband_ignored : forall s ls s', creach ch sh s -> c_tconnected s = true ->
  crun ch sh s ls = Some s' ->
  c_tconnected s' = true /\ filter is_inband (c_inbuf s') = filter is_inband (c_inbuf s).
Proof. exact (client_inband_ignored ch sh). Qed.

End Server.

Print Assumptions C17_adopted_authenticated.
Print Assumptions C17_adopted_exists.
Print Assumptions C17_at_most_one.
Print Assumptions C17_adoption_stable.
Print Assumptions C17_unauth_closed_unanswered.
Print Assumptions C17_unauth_closed_next.
Print Assumptions C17_reply_only_hello.
Print Assumptions C17_only_adopted_feeds.
Print Assumptions C17_inband_ignored.
Print Assumptions C17_fallback_server.
Print Assumptions C17_client_adopted_authenticated.
Print Assumptions C17_fallback_client.
Print Assumptions C17_client_never_stuck.
Print Assumptions C17_client_inband_ignored.

(* the hello really is a function of id and port: different (cut) ids or ports give different
   greetings, so "exactly the hello" means "knows this transfer's id and port" *)
Theorem C17_hello_injective : forall uid1 uid2 port1 port2,
  client_hello uid1 port1 = client_hello uid2 port2 ->
  forallb is_digit (cut_uid uid1) = true -> forallb is_digit (cut_uid uid2) = true ->
  cut_uid uid1 = cut_uid uid2 /\ port1 = port2.
Proof. exact hello_injective. Qed.
Print Assumptions C17_hello_injective.

(* the statement skeleton of the Go functions is the one the model transcribes *)
Theorem C17_skeleton :
  accept_on_tunnel_skel = expected_accept_on_tunnel /\
  connect_to_tunnel_skel = expected_connect_to_tunnel /\
  add_received_data_skel = expected_add_received_data /\
  cleanup_skel = expected_cleanup /\
  wrap_transfer_input_skel = expected_wrap_transfer_input /\
  send_action_tunnel_skel = expected_send_action_tunnel /\
  recv_action_tunnel_skel = expected_recv_action_tunnel /\
  callers_acceptOnTunnel = expected_callers_acceptOnTunnel /\
  callers_connectToTunnel = expected_callers_connectToTunnel /\
  callers_wrapTransferInput = expected_callers_wrapTransferInput.
Proof. exact skel_matches. Qed.
Print Assumptions C17_skeleton.

(* ---- non-vacuity and the stated limit ---- *)

Definition ex_uid : list N := [49; 55; 50; 55; 55; 50; 52; 56; 48; 48; 49; 48; 48].   (* "1727724800100" *)
Definition ex_port : Z := 40001%Z.
Definition ex_ch := client_hello ex_uid ex_port.
Definition ex_sh := server_hello ex_uid ex_port.

(* an intruder with the right prefix and a wrong id (0), the genuine client (1), a second
   genuine greeting that loses the CAS (2): 0 is closed unanswered, 1 is adopted and feeds the
   buffer, 2 HAS BEEN ANSWERED AND IS LEFT OPEN (limit: not adopted, feeds nothing, but neither
   closed nor told) *)
Example C17_nonvacuous_server :
  exists ls s k0 k1 k2, srun ex_ch ex_sh s_init ls = Some s /\
    s_conns s = [k0; k1; k2] /\ s_tconn s = Some 1%nat /\
    observe k0 = ObsClosedSilent /\ observe k1 = ObsReplied ex_sh false /\
    observe k2 = ObsReplied ex_sh false /\ k_won k2 = false /\ k_pump k2 = false /\ k_pc k2 = HDone /\
    s_inbuf s = [(SrcConn 1%nat, [35; 65])] /\ s_tconnected s = true /\ s_dropped s = [[35; 66]].
Proof.
  exists [LConnect [PWrite (client_hello [57; 57; 57; 57; 57; 57; 57; 57; 57; 57; 57; 48; 48] ex_port)];
          LConnect [PWrite ex_ch; PWrite [35; 65]]; LConnect [PWrite ex_ch; PWrite [35; 67]];
          LAccept 0%nat; LCheck; LAccept 1%nat; LCheck; LAccept 2%nat; LCheck;
          LPeer 0%nat; LPeer 1%nat; LPeer 2%nat;
          LHandler 0%nat; LHandler 1%nat; LHandler 2%nat; LHandler 0%nat; LHandler 1%nat; LHandler 2%nat;
          LHandler 1%nat; LHandler 2%nat; LHandler 1%nat; LHandler 2%nat; LHandler 1%nat; LHandler 1%nat;
          LPeer 1%nat; LPeer 2%nat; LPump 1%nat 2%nat; LAct true; LInband [35; 66]; LAcceptErr].
  vm_compute. do 4 eexists. repeat split.
Qed.

Example C17_nonvacuous_client :
  client_decides ex_uid ex_port (CoConn false false (Some ex_sh)) = Some true /\
  client_decides ex_uid ex_port (CoConn false false (Some ex_ch)) = Some false /\
  client_decides ex_uid ex_port (CoConn true false (Some ex_sh)) = Some false /\
  client_decides ex_uid ex_port (CoConn false true None) = Some false /\
  client_decides ex_uid ex_port CoNil = Some false.
Proof. vm_compute. repeat split. Qed.
