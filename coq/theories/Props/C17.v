(* C17 — Only the authenticated tunnel connection is ever used, and only one.
   Property theorems only; each is closed by a lemma of Proofs/Tunnel.v and followed by
   Print Assumptions.  Every statement is about EVERY reachable state of the interleaving
   models of Model/Tunnel.v, i.e. every schedule of the acceptor, the per-connection
   handlers, the pumps, the main thread, the timer, and every number and behaviour of
   connecting peers (scripts are arbitrary lists of writes and closes).

   ch = the client hello, sh = the server hello of THIS transfer:
   client_hello uid port / server_hello uid port, getHelloConstant of the source. *)
From Trzsz Require Import Base.Bytes Gen.Consts Gen.Skel_tunnel Model.TunnelSkel Model.Tunnel Proofs.Tunnel.
From Trzsz Require Import Gen.Skel_rtunnel Model.TunnelRelaySkel Model.TunnelRelay Proofs.TunnelRelay.
From Coq Require Import ZArith.

Section Server.
Variables (uid : list N) (port : Z).
Let ch := client_hello uid port.
Let sh := server_hello uid port.

(* whatever is adopted (stored in tunnelConn, used as the writer, won the CAS, or has a pump
   reading from it) is a connection whose handler's ONE Read returned exactly the hello
   derived from id and port — and it is the one in tunnelConn *)
Theorem C17_adopted_authenticated : forall s c k, sreach ch sh s ->
  nth_error (s_conns s) c = Some k ->
  s_tconn s = Some c \/ s_writer s = Some c \/ k_won k = true \/ k_pump k = true ->
  k_first k = Some ch /\ s_tconn s = Some c.
Proof. exact (adopted_authenticated ch sh). Qed.

Theorem C17_adopted_exists : forall s c, sreach ch sh s ->
  s_tconn s = Some c \/ s_writer s = Some c -> exists k, nth_error (s_conns s) c = Some k.
Proof. exact (adopted_exists ch sh). Qed.

(* at most one connection ever wins the CompareAndSwap, and the cell never changes again *)
Theorem C17_at_most_one : forall s c1 c2 k1 k2, sreach ch sh s ->
  nth_error (s_conns s) c1 = Some k1 -> nth_error (s_conns s) c2 = Some k2 ->
  k_won k1 = true -> k_won k2 = true -> c1 = c2.
Proof. exact (at_most_one ch sh). Qed.

Theorem C17_adoption_stable : forall s c ls s', sreach ch sh s -> s_tconn s = Some c ->
  srun ch sh s ls = Some s' -> s_tconn s' = Some c.
Proof. exact (adoption_stable ch sh). Qed.

(* a connection whose first read was anything but the hello (or that has not been read, or
   whose read failed) has had NO byte written to it, is not adopted, has no pump; and when its
   handler is done it has been closed *)
Theorem C17_unauth_closed_unanswered : forall s c k, sreach ch sh s ->
  nth_error (s_conns s) c = Some k -> k_first k <> Some ch ->
  k_tx k = [] /\ k_won k = false /\ k_pump k = false /\ s_tconn s <> Some c /\
  (k_pc k = HDone -> k_closed k = true).
Proof. exact (unauth_closed_unanswered ch sh). Qed.

(* … and the handler is never blocked between its read and that close: the very next step of
   the handler is enabled and closes the connection with nothing written *)
Theorem C17_unauth_closed_next : forall s c k r, sreach ch sh s ->
  nth_error (s_conns s) c = Some k -> k_pc k = HCompare r -> r <> Some ch ->
  exists s' k', sstep ch sh s (LHandler c) = Some s' /\ nth_error (s_conns s') c = Some k' /\
    k_pc k' = HDone /\ k_closed k' = true /\ k_tx k' = [].
Proof. exact (unauth_closed_next ch sh). Qed.

(* the only bytes anybody ever writes to a connection are the server hello, once *)
Theorem C17_reply_only_hello : forall s c k, sreach ch sh s ->
  nth_error (s_conns s) c = Some k -> k_tx k = [] \/ (k_tx k = sh /\ k_first k = Some ch).
Proof. exact (reply_only_hello ch sh). Qed.

(* bytes enter the transfer's input buffer from a connection only if it is THE adopted one *)
Theorem C17_only_adopted_feeds : forall s c bs, sreach ch sh s ->
  In (SrcConn c, bs) (s_inbuf s) -> s_tconn s = Some c.
Proof. exact (only_adopted_feeds ch sh). Qed.

(* once tunnelConnected is set it stays set, and from then on no in-band chunk reaches the
   transfer's buffer, whatever happens *)
Theorem C17_inband_ignored : forall s ls s', sreach ch sh s -> s_tconnected s = true ->
  srun ch sh s ls = Some s' ->
  s_tconnected s' = true /\ filter is_inband (s_inbuf s') = filter is_inband (s_inbuf s).
Proof. exact (inband_ignored ch sh). Qed.

(* no adopted connection => the writer is stdout, nothing but in-band bytes is in the buffer,
   and a successfully received ACT leaves tunnelConnected false; and while tunnelConnected is
   false the writer is stdout and not one in-band chunk has been dropped: the transfer is the
   in-band one *)
Theorem C17_fallback_server : forall s, sreach ch sh s ->
  (s_tconn s = None ->
     s_writer s = None /\ (forall c bs, ~ In (SrcConn c, bs) (s_inbuf s)) /\
     (s_act s = ActOk -> s_tconnected s = false)) /\
  (s_tconnected s = false -> s_writer s = None /\ s_dropped s = []).
Proof. exact (fallback_server ch sh). Qed.

(* ---- client (connectToTunnel + sendAction) ---- *)

(* the client adopts only a connection to which it wrote exactly the client hello and whose
   ONE read returned exactly the server hello, and never after the select took the timer *)
Theorem C17_client_adopted_authenticated : forall s, creach ch sh s ->
  c_tconn s = true \/ c_pump s = true \/ c_writer_tunnel s = true \/ c_tconnected s = true ->
  exists k, c_conn s = Some k /\ k_first k = Some sh /\ k_tx k = ch /\ c_timedout s = false /\ c_tconn s = true.
Proof. exact (client_adopted_authenticated ch sh). Qed.

(* the ACT's tunnel flag says exactly whether a connection was adopted; connector refused,
   late (timer branch taken), dead or wrongly answering connection => not adopted; and while
   tunnelConnected is false the writer is the terminal and no in-band chunk is dropped *)
Theorem C17_fallback_client : forall s, creach ch sh s ->
  (forall tun, c_mpc s = MSent tun -> tun = c_tconn s /\ c_tconnected s = tun /\ c_writer_tunnel s = tun) /\
  (c_timedout s = true -> c_tconn s = false) /\
  (c_conn s = None -> c_tconn s = false) /\
  (forall k, c_conn s = Some k -> k_first k <> Some sh -> c_tconn s = false) /\
  (c_tconnected s = false -> c_writer_tunnel s = false /\ c_dropped s = []).
Proof. exact (fallback_client ch sh). Qed.

(* sendAction is never held up by the tunnel: from every reachable state in which it waits, at
   most five steps of the client's own threads and the timer — no step of the connector or of
   the far end — bring it past the ACT *)
Theorem C17_client_never_stuck : forall s, creach ch sh s -> c_mpc s = MWait ->
  exists ls s' tun, (length ls <= 5)%nat /\ forallb own_label ls = true /\
    crun ch sh s ls = Some s' /\ c_mpc s' = MSent tun.
Proof. exact (client_never_stuck ch sh). Qed.

Theorem C17_client_inband_ignored : forall s ls s', creach ch sh s -> c_tconnected s = true ->
  crun ch sh s ls = Some s' ->
  c_tconnected s' = true /\ filter is_inband (c_inbuf s') = filter is_inband (c_inbuf s).
Proof. exact (client_inband_ignored ch sh). Qed.

End Server.

Print Assumptions C17_adopted_authenticated.
Print Assumptions C17_adopted_exists.
Print Assumptions C17_at_most_one.
Print Assumptions C17_adoption_stable.
Print Assumptions C17_unauth_closed_unanswered.
Print Assumptions C17_unauth_closed_next.
Print Assumptions C17_reply_only_hello.
Print Assumptions C17_only_adopted_feeds.
Print Assumptions C17_inband_ignored.
Print Assumptions C17_fallback_server.
Print Assumptions C17_client_adopted_authenticated.
Print Assumptions C17_fallback_client.
Print Assumptions C17_client_never_stuck.
Print Assumptions C17_client_inband_ignored.

(* the hello really is a function of id and port: different (cut) ids or ports give different
   greetings, so "exactly the hello" means "knows this transfer's id and port" *)
Theorem C17_hello_injective : forall uid1 uid2 port1 port2,
  client_hello uid1 port1 = client_hello uid2 port2 ->
  forallb is_digit (cut_uid uid1) = true -> forallb is_digit (cut_uid uid2) = true ->
  cut_uid uid1 = cut_uid uid2 /\ port1 = port2.
Proof. exact hello_injective. Qed.
Print Assumptions C17_hello_injective.

(* the statement skeleton of the Go functions is the one the model transcribes *)
Theorem C17_skeleton :
  accept_on_tunnel_skel = expected_accept_on_tunnel /\
  connect_to_tunnel_skel = expected_connect_to_tunnel /\
  add_received_data_skel = expected_add_received_data /\
  cleanup_skel = expected_cleanup /\
  wrap_transfer_input_skel = expected_wrap_transfer_input /\
  send_action_tunnel_skel = expected_send_action_tunnel /\
  recv_action_tunnel_skel = expected_recv_action_tunnel /\
  callers_acceptOnTunnel = expected_callers_acceptOnTunnel /\
  callers_connectToTunnel = expected_callers_connectToTunnel /\
  callers_wrapTransferInput = expected_callers_wrapTransferInput.
Proof. exact skel_matches. Qed.
Print Assumptions C17_skeleton.

(* ---- non-vacuity and the stated limit ---- *)

Definition ex_uid : list N := [49; 55; 50; 55; 55; 50; 52; 56; 48; 48; 49; 48; 48].   (* "1727724800100" *)
Definition ex_port : Z := 40001%Z.
Definition ex_ch := client_hello ex_uid ex_port.
Definition ex_sh := server_hello ex_uid ex_port.

(* an intruder with the right prefix and a wrong id (0), the genuine client (1), a second
   genuine greeting that loses the CAS (2): 0 is closed unanswered, 1 is adopted and feeds the
   buffer, 2 HAS BEEN ANSWERED AND IS LEFT OPEN (limit: not adopted, feeds nothing, but neither
   closed nor told) *)
Example C17_nonvacuous_server :
  exists ls s k0 k1 k2, srun ex_ch ex_sh s_init ls = Some s /\
    s_conns s = [k0; k1; k2] /\ s_tconn s = Some 1%nat /\
    observe k0 = ObsClosedSilent /\ observe k1 = ObsReplied ex_sh false /\
    observe k2 = ObsReplied ex_sh false /\ k_won k2 = false /\ k_pump k2 = false /\ k_pc k2 = HDone /\
    s_inbuf s = [(SrcConn 1%nat, [35; 65])] /\ s_tconnected s = true /\ s_dropped s = [[35; 66]].
Proof.
  exists [LConnect [PWrite (client_hello [57; 57; 57; 57; 57; 57; 57; 57; 57; 57; 57; 48; 48] ex_port)];
          LConnect [PWrite ex_ch; PWrite [35; 65]]; LConnect [PWrite ex_ch; PWrite [35; 67]];
          LAccept 0%nat; LCheck; LAccept 1%nat; LCheck; LAccept 2%nat; LCheck;
          LPeer 0%nat; LPeer 1%nat; LPeer 2%nat;
          LHandler 0%nat; LHandler 1%nat; LHandler 2%nat; LHandler 0%nat; LHandler 1%nat; LHandler 2%nat;
          LHandler 1%nat; LHandler 2%nat; LHandler 1%nat; LHandler 2%nat; LHandler 1%nat; LHandler 1%nat;
          LPeer 1%nat; LPeer 2%nat; LPump 1%nat 2%nat; LAct true; LInband [35; 66]; LAcceptErr].
  vm_compute. do 4 eexists. repeat split.
Qed.

Example C17_nonvacuous_client :
  client_decides ex_uid ex_port (CoConn false false (Some ex_sh)) = Some true /\
  client_decides ex_uid ex_port (CoConn false false (Some ex_ch)) = Some false /\
  client_decides ex_uid ex_port (CoConn true false (Some ex_sh)) = Some false /\
  client_decides ex_uid ex_port (CoConn false true None) = Some false /\
  client_decides ex_uid ex_port CoNil = Some false.
Proof. vm_compute. repeat split. Qed.

(* ==================================================================================== *)
(* WITH A RELAY IN THE PATH: the relay's own tunnel code (relay.go: listenForTunnel, acceptOnTunnel,
   handleTunnelConn, newTunnelRelay, tunnelRelay.wrapInput / wrapOutput, resetToStandby), the second
   interleaving model Model/TunnelRelay.v.  Every statement is about EVERY reachable state: every schedule
   of the acceptor, the handlers, the four goroutines of every bridge, resets, the relay's own sends, and
   every number and behaviour of connecting clients and of the connections the connector returns.

   ch1 / sh4 = hellos for (id, RELAY port): what a client must present / is answered;
   ch2 / sh3 = hellos for (id, SERVER port): what the relay presents to / must hear from the server. *)

Section Relay.
Variables (uid : list N) (sport rport : Z).
Let ch1 := client_hello uid rport.
Let sh4 := server_hello uid rport.
Let ch2 := client_hello uid sport.
Let sh3 := server_hello uid sport.

(* a client connection is bridged to the server only if its single first read was exactly the hello for
   (id, relay port) AND the server's single answer was exactly the hello for (id, server port), after the relay
   had presented it exactly the hello for (id, server port); the client was answered only after that; and
   what each end has been sent is its hello followed by exactly what its writer goroutine took from its
   channel *)
Theorem C17_relay_adopted_authenticated : forall s c p, rt_reach ch1 sh4 ch2 sh3 s ->
  nth_error (r_pairs s) c = Some p ->
  r_trelay s = Some c \/ p_won p <> None \/ p_br p <> None ->
  p_first p = Some ch1 /\ p_sfirst p = Some sh3 /\
  exists e b, p_srv p = Some e /\ p_br p = Some b /\
    e_tx e = ch2 ++ rt_payload (h_log (b_in b)) /\ e_tx (p_cli p) = sh4 ++ rt_payload (h_log (b_out b)).
Proof. exact (rt_adopted_authenticated ch1 sh4 ch2 sh3). Qed.

Theorem C17_relay_adopted_exists : forall s c, rt_reach ch1 sh4 ch2 sh3 s -> r_trelay s = Some c ->
  exists p, nth_error (r_pairs s) c = Some p.
Proof. exact (rt_adopted_exists ch1 sh4 ch2 sh3). Qed.

(* at most one bridge is adopted: tunnelRelay holds pair c exactly when c won the compare-and-swap since the
   last reset; two pairs that won in the same era (between two resets) are the same pair; and the cell
   changes only by a reset *)
Theorem C17_relay_current_adopted : forall s c p, rt_reach ch1 sh4 ch2 sh3 s -> nth_error (r_pairs s) c = Some p ->
  (r_trelay s = Some c <-> p_won p = Some (r_era s)).
Proof. exact (rt_current_adopted ch1 sh4 ch2 sh3). Qed.

Theorem C17_relay_at_most_one : forall s c1 c2 p1 p2 e, rt_reach ch1 sh4 ch2 sh3 s ->
  nth_error (r_pairs s) c1 = Some p1 -> nth_error (r_pairs s) c2 = Some p2 ->
  p_won p1 = Some e -> p_won p2 = Some e -> c1 = c2.
Proof. exact (rt_at_most_one ch1 sh4 ch2 sh3). Qed.

(* (a reset — resetToStandby from the transferring state, or at the end of a failed / unconfirmed handshake — is
   exactly what starts a new era) *)
Theorem C17_relay_adoption_stable : forall ls s s' c, rt_run ch1 sh4 ch2 sh3 s ls = Some s' ->
  r_era s' = r_era s -> r_trelay s = Some c -> r_trelay s' = Some c.
Proof. exact (rt_adoption_stable ch1 sh4 ch2 sh3). Qed.

(* an unauthenticated client gets no byte: anything but the hello (or nothing yet, or a failed read) — nothing
   was written to it, the connector was not even called on its behalf, no bridge, not adopted; closed when
   the handler is done; and the handler's very next statement is that close *)
Theorem C17_relay_unauth_client : forall s c p, rt_reach ch1 sh4 ch2 sh3 s -> nth_error (r_pairs s) c = Some p ->
  p_first p <> Some ch1 ->
  e_tx (p_cli p) = [] /\ p_srv p = None /\ p_br p = None /\ p_won p = None /\ r_trelay s <> Some c /\
  (forall o, p_pc p = RtDone o -> e_closed (p_cli p) = true).
Proof. exact (rt_unauth_client ch1 sh4 ch2 sh3). Qed.

Theorem C17_relay_unauth_client_next : forall s c p r dial fail, rt_reach ch1 sh4 ch2 sh3 s ->
  nth_error (r_pairs s) c = Some p -> p_pc p = RtCmp r -> r <> Some ch1 ->
  exists s' p', rt_step ch1 sh4 ch2 sh3 s (RLHandler c dial fail) = Some s' /\ nth_error (r_pairs s') c = Some p' /\
    p_pc p' = RtDone RoBadClient /\ e_closed (p_cli p') = true /\ e_tx (p_cli p') = [] /\ p_srv p' = None.
Proof. exact (rt_unauth_client_next ch1 sh4 ch2 sh3). Qed.

(* the server side is authenticated too: as long as the connection the connector returned has not answered
   exactly its hello, the CLIENT has been sent nothing (the relay answers the client only after the server
   answered), there is no bridge, and that connection has been sent at most the relay's hello; both are
   closed when the handler is done, by its very next statement *)
Theorem C17_relay_unauth_server : forall s c p, rt_reach ch1 sh4 ch2 sh3 s -> nth_error (r_pairs s) c = Some p ->
  p_sfirst p <> Some sh3 ->
  e_tx (p_cli p) = [] /\ p_br p = None /\ p_won p = None /\ r_trelay s <> Some c /\
  (forall e, p_srv p = Some e -> e_tx e = [] \/ e_tx e = ch2) /\
  (forall o, p_pc p = RtDone o -> e_closed (p_cli p) = true /\ (forall e, p_srv p = Some e -> e_closed e = true)).
Proof. exact (rt_unauth_server ch1 sh4 ch2 sh3). Qed.

Theorem C17_relay_unauth_server_next : forall s c p r dial fail, rt_reach ch1 sh4 ch2 sh3 s ->
  nth_error (r_pairs s) c = Some p -> p_pc p = RtCmpSrv r -> r <> Some sh3 ->
  exists s' p' e', rt_step ch1 sh4 ch2 sh3 s (RLHandler c dial fail) = Some s' /\ nth_error (r_pairs s') c = Some p' /\
    p_pc p' = RtDone RoBadServer /\ e_closed (p_cli p') = true /\ e_tx (p_cli p') = [] /\
    p_srv p' = Some e' /\ e_closed e' = true /\ e_tx e' = ch2.
Proof. exact (rt_unauth_server_next ch1 sh4 ch2 sh3). Qed.

(* bytes cross a bridge only between the pair it belongs to: every chunk in a channel of pair c, and every
   chunk one of its writers wrote, was read from pair c's own other connection by pair c's own pump (directly or
   through the relay's handshake buffer), or was written by the relay itself, or was read in-band while
   tunnelConnected was still false; and only a pair that won the swap ever has a chunk, a pump or the relay
   back-pointer *)
Theorem C17_relay_bridge_bytes : forall s c p b d x, rt_reach ch1 sh4 ch2 sh3 s ->
  nth_error (r_pairs s) c = Some p -> p_br p = Some b ->
  In x (h_chan (rt_half_of d b)) \/ In x (h_log (rt_half_of d b)) ->
  (fst x = rt_tag d c \/ fst x = RsRelay \/ fst x = RsInband false) /\ p_won p <> None.
Proof. exact (rt_bridge_bytes ch1 sh4 ch2 sh3). Qed.

(* ONCE THE TUNNEL IS AGREED, IN-BAND BYTES ARE IGNORED BY IT — also by a relay, in every phase of its handshake
   (before the ACT has been read, between ACT and CFG, while the buffers are flushed, while transferring, after the
   reset): a chunk the relay read in-band — typed at the client's terminal or printed by the server — while
   tunnelConnected was set is never in a handshake buffer, never in a channel of a bridge, never written to a tunnel
   connection … *)
Theorem C17_relay_inband_agreed_never_in_tunnel : forall s, rt_reach ch1 sh4 ch2 sh3 s ->
  (forall d bs, ~ In (RsInband true, bs) (rt_buf d (r_x s))) /\
  (forall c p b d bs, nth_error (r_pairs s) c = Some p -> p_br p = Some b ->
     ~ In (RsInband true, bs) (h_chan (rt_half_of d b)) /\ ~ In (RsInband true, bs) (h_log (rt_half_of d b))).
Proof. exact (rt_inband_agreed_never_in_tunnel ch1 sh4 ch2 sh3). Qed.

(* … it is passed on in-band, unchanged, in that very step (or the pump waits while flushHandshakeBuffer holds the
   lock); nothing else changes … *)
Theorem C17_relay_inband_agreed_passes : forall s d bs s', rt_step ch1 sh4 ch2 sh3 s (RLInband d bs) = Some s' ->
  r_tconnected s = true ->
  s' = rt_with_x s (rt_add_out d (RsInband true, bs, true) (r_x s)).
Proof. exact (rt_inband_agreed_passes ch1 sh4 ch2 sh3). Qed.

(* … and nothing a pump read from a TUNNEL connection is ever written in-band while tunnelConnected is set (a
   handshake that did not agree on the tunnel hands what was parked back in-band) *)
Theorem C17_relay_tunnel_never_inband_once_agreed : forall s d src bs g, rt_reach ch1 sh4 ch2 sh3 s ->
  In (src, bs, g) (rt_outs d (r_x s)) -> rt_is_tunnel_src src = true -> g = false.
Proof. exact (rt_tunnel_never_inband_once_agreed ch1 sh4 ch2 sh3). Qed.

Theorem C17_relay_pumps_only_adopted : forall s c p b d, rt_reach ch1 sh4 ch2 sh3 s ->
  nth_error (r_pairs s) c = Some p -> p_br p = Some b ->
  h_pump (rt_half_of d b) <> PmNone \/ b_relay b = true -> p_won p <> None.
Proof. exact (rt_pumps_only_adopted ch1 sh4 ch2 sh3). Qed.

(* what sits in a handshake buffer: in-band chunks that arrived before the agreement, and chunks a pump of the pair
   that IS in tunnelRelay read from its own connection *)
Theorem C17_relay_parked_from_adopted : forall s d x, rt_reach ch1 sh4 ch2 sh3 s -> In x (rt_buf d (r_x s)) ->
  fst x = RsInband false \/
  exists c p, fst x = rt_tag d c /\ r_trelay s = Some c /\ nth_error (r_pairs s) c = Some p /\ p_won p <> None.
Proof. exact (rt_parked_from_adopted ch1 sh4 ch2 sh3). Qed.

(* the relay's own writes (sendStringToClient / ToServer, every round of flushHandshakeBuffer) go into a bridge only
   while tunnelRelay holds a pair — an authenticated one — and tunnelConnected is set; otherwise in-band *)
Theorem C17_relay_route_only_adopted : forall s d y pc lk s', rt_reach ch1 sh4 ch2 sh3 s ->
  rt_route s d y pc lk = Some s' ->
  (exists c p, r_trelay s = Some c /\ r_tconnected s = true /\ nth_error (r_pairs s) c = Some p /\
     p_first p = Some ch1 /\ p_sfirst p = Some sh3) \/
  s' = rt_with_x s (rt_add_out d (y, r_tconnected s) (rt_set_pc_lock pc lk (r_x s))).
Proof. exact (rt_route_only_adopted ch1 sh4 ch2 sh3). Qed.

(* ORDER THROUGH THE BRIDGE, across the relay's handshake window: for every pair and direction, what of the pump's
   reads (ghost x_seen: every chunk a tunnel pump read, in the order of the reads) is on its way — written to the far
   tunnel connection, then in the bridge's channel, then parked in the relay's handshake buffer — is, IN THIS ORDER, what
   the pump read from the near connection with some bytes left out (the handshake line the relay consumed, what a writer
   could not write to a closed connection, what an unagreed handshake handed back in-band): nothing overtakes *)
Theorem C17_relay_order : forall s c p b d, rt_reach ch1 sh4 ch2 sh3 s -> nth_error (r_pairs s) c = Some p -> p_br p = Some b ->
  rt_sub (rt_pipe d c b (r_x s)) (rt_own d c (x_seen (r_x s))).
Proof. exact (rt_order ch1 sh4 ch2 sh3). Qed.

(* … so what the far connection has been sent of them is an order-preserving image of what the near one delivered *)
Theorem C17_relay_order_far : forall s c p b d, rt_reach ch1 sh4 ch2 sh3 s -> nth_error (r_pairs s) c = Some p -> p_br p = Some b ->
  rt_sub (rt_own d c (h_log (rt_half_of d b))) (rt_own d c (x_seen (r_x s))).
Proof. exact (rt_order_far ch1 sh4 ch2 sh3). Qed.

(* … because parked chunks are flushed before any later chunk of the same pair and direction is forwarded: a pump puts
   a chunk into its own channel (rather than into the handshake buffer) only when nothing of its pair and direction is parked *)
Theorem C17_relay_forward_only_when_none_parked : forall s c d n s', rt_reach ch1 sh4 ch2 sh3 s ->
  rt_step ch1 sh4 ch2 sh3 s (RLPump c d n) = Some s' ->
  (forall d', rt_buf d' (r_x s') = rt_buf d' (r_x s)) -> rt_own d c (rt_buf d (r_x s)) = [].
Proof. exact (rt_forward_only_when_none_parked ch1 sh4 ch2 sh3). Qed.

(* the pair that lost the swap (both sides authenticated, both answered): its two channels are closed and
   were never used, no pump was started, and each writer goroutine has closed its connection or does so
   by its next step — unlike transfer.go's acceptOnTunnel, which leaves a losing connection open *)
Theorem C17_relay_loser_closed : forall s c p, rt_reach ch1 sh4 ch2 sh3 s -> nth_error (r_pairs s) c = Some p ->
  p_pc p = RtDone RoLost ->
  exists b, p_br p = Some b /\ p_won p = None /\ r_trelay s <> Some c /\
    forall d, h_chan (rt_half_of d b) = [] /\ h_log (rt_half_of d b) = [] /\ h_chan_closed (rt_half_of d b) = true /\
              h_pump (rt_half_of d b) = PmNone /\
              ((h_writer (rt_half_of d b) = false /\ option_map e_closed (rt_dst_end d p) = Some true) \/
               (exists s' p' e', rt_step ch1 sh4 ch2 sh3 s (RLWriter c d) = Some s' /\ nth_error (r_pairs s') c = Some p' /\
                  rt_dst_end d p' = Some e' /\ e_closed e' = true /\
                  option_map e_tx (rt_dst_end d p') = Some (match d with RdIn => ch2 | RdOut => sh4 end))).
Proof. exact (rt_loser_closed ch1 sh4 ch2 sh3). Qed.

(* OBSERVATION, outside the listed properties (DESIGN 10.3): a pump of a bridge whose own connection has been
   closed by the relay itself — which the writer goroutine of the opposite direction does when its channel is
   closed — stays in its loop for ever, whatever anybody does, and its next iteration is always enabled:
   Read returns (0, net.ErrClosed), only io.EOF leaves the loop *)
Theorem C17_relay_obs_pump_spins_for_ever : forall ls s s' c d, rt_reach ch1 sh4 ch2 sh3 s -> rt_spinning s c d ->
  rt_run ch1 sh4 ch2 sh3 s ls = Some s' ->
  rt_spinning s' c d /\ rt_step ch1 sh4 ch2 sh3 s' (RLPumpSpin c d) = Some s'.
Proof. exact (rt_spins_for_ever ch1 sh4 ch2 sh3). Qed.

End Relay.

Print Assumptions C17_relay_adopted_authenticated.
Print Assumptions C17_relay_adopted_exists.
Print Assumptions C17_relay_current_adopted.
Print Assumptions C17_relay_at_most_one.
Print Assumptions C17_relay_adoption_stable.
Print Assumptions C17_relay_unauth_client.
Print Assumptions C17_relay_unauth_client_next.
Print Assumptions C17_relay_unauth_server.
Print Assumptions C17_relay_unauth_server_next.
Print Assumptions C17_relay_bridge_bytes.
Print Assumptions C17_relay_pumps_only_adopted.
Print Assumptions C17_relay_parked_from_adopted.
Print Assumptions C17_relay_route_only_adopted.
Print Assumptions C17_relay_order.
Print Assumptions C17_relay_order_far.
Print Assumptions C17_relay_forward_only_when_none_parked.
Print Assumptions C17_relay_inband_agreed_never_in_tunnel.
Print Assumptions C17_relay_inband_agreed_passes.
Print Assumptions C17_relay_tunnel_never_inband_once_agreed.
Print Assumptions C17_relay_loser_closed.
Print Assumptions C17_relay_obs_pump_spins_for_ever.

(* the trigger's port rewrite is what makes the client's hello match: listenForTunnel replaces the first
   `:<id>:<server port>` of the buffer (and, in turn, every later one) by `:<id>:<relay port>` and keeps
   everything in front of it; the relay expects the hello for (id, relay port) (ch1 above, pinned by
   C17_relay_skeleton: getHelloConstant(r.trigger.uniqueID, r.tunnelRelayPort)); and a client that computed its
   hello from the port the SERVER announced would be turned away, as would a server answering for the relay's
   port *)
Theorem C17_relay_rewrite : forall uid sport rport pre post,
  (forall i, (i < length pre)%nat ->
     rt_is_prefix (rt_port_tag uid sport) (skipn i (pre ++ rt_port_tag uid sport ++ post)) = false) ->
  rt_rewrite uid sport rport (pre ++ rt_port_tag uid sport ++ post) =
  pre ++ rt_port_tag uid rport ++ rt_rewrite uid sport rport post.
Proof. exact rt_rewrite_first. Qed.
Print Assumptions C17_relay_rewrite.

Theorem C17_relay_unrewritten_rejected : forall uid sport rport,
  forallb is_digit (cut_uid uid) = true -> sport <> rport ->
  hello_matches (client_hello uid sport) (client_hello uid rport) = false /\
  hello_matches (server_hello uid rport) (server_hello uid sport) = false.
Proof. exact rt_unrewritten_rejected. Qed.
Print Assumptions C17_relay_unrewritten_rejected.

Theorem C17_relay_skeleton :
  rt_set_tunnel_connector_skel = expected_rt_set_tunnel_connector /\
  rt_listen_for_tunnel_skel = expected_rt_listen_for_tunnel /\
  rt_accept_on_tunnel_skel = expected_rt_accept_on_tunnel /\
  rt_handle_tunnel_conn_skel = expected_rt_handle_tunnel_conn /\
  rt_new_tunnel_relay_skel = expected_rt_new_tunnel_relay /\
  rt_wrap_input_skel = expected_rt_wrap_input /\
  rt_wrap_output_skel = expected_rt_wrap_output /\
  rt_reset_to_standby_skel = expected_rt_reset_to_standby /\
  rt_add_handshake_buffer_skel = expected_rt_add_handshake_buffer /\
  rt_flush_handshake_buffer_skel = expected_rt_flush_handshake_buffer /\
  rt_send_string_to_client_skel = expected_rt_send_string_to_client /\
  rt_send_string_to_server_skel = expected_rt_send_string_to_server /\
  rt_send_error_skel = expected_rt_send_error /\
  rt_handshake_skel = expected_rt_handshake /\
  rt_relay_wrap_input_skel = expected_rt_relay_wrap_input /\
  rt_relay_wrap_output_skel = expected_rt_relay_wrap_output /\
  rt_sites_bufchan_send = expected_rt_sites_bufchan_send /\
  rt_sites_atomic_writes = expected_rt_sites_atomic_writes /\
  rt_sites_plain_writes = expected_rt_sites_plain_writes /\
  rt_sites_starts = expected_rt_sites_starts.
Proof. exact rt_skel_matches. Qed.
Print Assumptions C17_relay_skeleton.

(* ---- non-vacuity, the refuted stronger statement, the stated limits ---- *)

(* an intruder with the right prefix and a wrong id (0), the genuine client (1), a second authenticated
   client (2): 0 is closed unanswered and no server connection was made for it; 1 is adopted; 2 was answered, lost
   the swap, and BOTH its connections have been closed with nothing but the hellos on them; the relay's handshake
   fails on a junk line typed in-band (FAIL both ways in-band, reset); after that "#A" crosses the old bridge to
   its server connection and "#B" back *)
Example C17_relay_nonvacuous :
  exists ls s p0 p1 p2 e1 e2, rt_run exr_ch1 exr_sh4 exr_ch2 exr_sh3 rt_init ls = Some s /\
    r_pairs s = [p0; p1; p2] /\ r_trelay s = None /\ p_won p1 = Some 0%nat /\
    rt_observe_cli p0 = RtObsClosedSilent /\ p_srv p0 = None /\
    rt_observe_cli p1 = RtObsGot (exr_sh4 ++ [35; 66]) false /\ p_srv p1 = Some e1 /\
    rt_observe_end e1 = RtObsGot (exr_ch2 ++ [35; 65]) false /\
    rt_observe_cli p2 = RtObsGot exr_sh4 true /\ p_srv p2 = Some e2 /\ rt_observe_end e2 = RtObsGot exr_ch2 true /\
    p_pc p2 = RtDone RoLost.
Proof.
  exists ([RLConnect [PWrite (client_hello [57; 57; 57; 57; 57; 57; 57; 57; 57; 57; 57; 50; 48] exr_rport)];
           RLConnect [PWrite exr_ch1; PWrite [35; 65]]; RLConnect [PWrite exr_ch1];
           RLAccept 0; RLCheck; RLAccept 1; RLCheck; RLAccept 2; RLCheck;
           RLPeerC 0; RLPeerC 1; RLPeerC 2; exr_H 0; exr_H 0; exr_H 0]
          ++ exr_greet 1 [PWrite exr_sh3; PWrite [35; 66]] ++ exr_greet 2 [PWrite exr_sh3]
          ++ [exr_H 1; exr_H 1; exr_H 1; exr_H 1; exr_H 1; exr_H 2; exr_H 2; exr_H 2; RLWriter 2 RdIn; RLWriter 2 RdOut]
          ++ exr_hs_fail
          ++ [RLPeerC 1; RLPump 1 RdIn 2; RLWriter 1 RdIn; RLPeerS 1; RLPump 1 RdOut 2; RLWriter 1 RdOut; RLAcceptErr]).
  vm_compute. do 6 eexists. repeat split.
Qed.

(* "at most one bridge is EVER adopted" is false for the relay object as a whole, and the model says so: a
   client that connected before the listener was closed and greets only after resetToStandby still finds
   tunnelRelay == nil, and — if the connector still reaches somebody who answers with the server's hello,
   i.e. somebody who knows id and server port — wins a second compare-and-swap.  Both pairs are authenticated
   on both sides (C17_relay_adopted_authenticated), they are adopted in different eras (C17_relay_at_most_one),
   and the second bridge only joins its own two connections (C17_relay_bridge_bytes). *)
Definition C17_relay_at_most_one_ever_full : Prop :=
  forall s c1 c2 p1 p2, rt_reach exr_ch1 exr_sh4 exr_ch2 exr_sh3 s ->
    nth_error (r_pairs s) c1 = Some p1 -> nth_error (r_pairs s) c2 = Some p2 ->
    p_won p1 <> None -> p_won p2 <> None -> c1 = c2.

Theorem C17_relay_at_most_one_ever_refuted :
  exists ls s p0 p1, rt_run exr_ch1 exr_sh4 exr_ch2 exr_sh3 rt_init ls = Some s /\
    r_pairs s = [p0; p1] /\ p_won p0 = Some 0%nat /\ p_won p1 = Some 1%nat /\ r_trelay s = Some 1%nat.
Proof. exact rt_at_most_one_ever_refuted. Qed.
Print Assumptions C17_relay_at_most_one_ever_refuted.

Theorem C17_relay_at_most_one_ever_full_is_false : ~ C17_relay_at_most_one_ever_full.
Proof. exact rt_at_most_one_ever_false. Qed.
Print Assumptions C17_relay_at_most_one_ever_full_is_false.

(* limit (a window of a few instructions, not observed): a reset between a handler's successful swap and its
   `tr.relay.Store(r)` leaves a bridge that is no longer in tunnelRelay with its back-pointer set (its pumps would
   hand what they read to the handshake buffers of the NEXT trigger's handshake, and wait for ever at io.EOF) *)
Example C17_relay_stale_backpointer_reachable :
  exists ls s p0 b0, rt_run exr_ch1 exr_sh4 exr_ch2 exr_sh3 rt_init ls = Some s /\
    r_trelay s = None /\ r_pairs s = [p0] /\ p_br p0 = Some b0 /\ b_relay b0 = true.
Proof.
  exists ([RLConnect [PWrite exr_ch1]; RLAccept 0; RLCheck; RLPeerC 0] ++ exr_greet 0 [PWrite exr_sh3]
          ++ [exr_H 0] ++ exr_hs_fail ++ [exr_H 0]).
  vm_compute. do 3 eexists. repeat split.
Qed.

(* the busy loop is reachable by the ordinary end of a session: the client closes, wrapInput sees io.EOF and
   waits for the reset, leaves, its deferred close(clientBufChan) ends the writer, whose deferred
   serverConn.Close() closes the connection wrapOutput is reading *)
Example C17_relay_obs_spin_reachable :
  exists ls s, rt_run exr_ch1 exr_sh4 exr_ch2 exr_sh3 rt_init ls = Some s /\ rt_spinning s 0%nat RdOut.
Proof.
  exists ([RLConnect [PWrite exr_ch1; PClose]; RLAccept 0; RLCheck; RLPeerC 0] ++ exr_greet 0 [PWrite exr_sh3]
          ++ [exr_H 0; exr_H 0; exr_H 0; exr_H 0; exr_H 0; RLPeerC 0; RLPumpEof 0 RdIn] ++ exr_hs_fail
          ++ [RLPumpExit 0 RdIn; RLWriter 0 RdIn]).
  vm_compute. eexists. split; [reflexivity|]. unfold rt_spinning. do 3 eexists. repeat split.
Qed.

(* in-band bytes at every point of the relay's handshake, the tunnel adopted and agreed (ACT tunnel = true): "KA",
   typed before the ACT, is parked and eaten as junk in front of the ACT line; "KB" / "NB" (between ACT and CFG) and
   "KC" / "NC" (after the CFG) go on in-band at once; the tunnel connections carry the hellos and the relay's two
   lines, nothing else *)
Example C17_relay_inband_phases :
  exists ls s p0 e0, rt_run exr_ch1 exr_sh4 exr_ch2 exr_sh3 rt_init ls = Some s /\
    r_pairs s = [p0] /\ p_srv p0 = Some e0 /\ x_status (r_x s) = StTransferring /\
    e_tx e0 = exr_ch2 ++ [35; 97; 10] /\ e_tx (p_cli p0) = exr_sh4 ++ [35; 99; 10] /\
    x_outin (r_x s) = [(RsInband true, [75; 66], true); (RsInband true, [75; 67], true)] /\
    x_outout (r_x s) = [(RsInband true, [78; 66], true); (RsInband true, [78; 67], true)] /\
    x_bufin (r_x s) = [] /\ x_bufout (r_x s) = [].
Proof.
  exists ([RLInband RdIn [75; 65];
           RLConnect [PWrite exr_ch1; PWrite [35; 65; 10]]; RLAccept 0; RLCheck; RLPeerC 0]
          ++ exr_greet 0 [PWrite exr_sh3; PWrite [35; 67; 10]] ++ [exr_H 0; exr_H 0; exr_H 0; exr_H 0; exr_H 0]
          ++ [RLPeerC 0; RLPump 0 RdIn 3; RLHsRead 5 true true true; RLHs []; RLHs [35; 97; 10];
              RLInband RdIn [75; 66]; RLInband RdOut [78; 66];
              RLPeerS 0; RLPump 0 RdOut 3; RLHsRead 3 true false false; RLHs [35; 99; 10]; RLHs []; RLHs []; RLHs [];
              RLInband RdIn [75; 67]; RLInband RdOut [78; 67]; RLWriter 0 RdIn; RLWriter 0 RdOut]).
  vm_compute. do 3 eexists. repeat split.
Qed.

(* the history of seed C13-8: the client's ACT shares a segment with "AAA", "BBB" arrives inside the relay's handshake, the
   server's CFG shares a segment with "SSS" and "TTT" follows: the server's tunnel connection receives the relay's ACT,
   AAA, BBB; the client's the relay's CFG, SSS, TTT *)
Example C17_relay_order_example :
  exists ls s p0 e0, rt_run exr_ch1 exr_sh4 exr_ch2 exr_sh3 rt_init ls = Some s /\
    r_pairs s = [p0] /\ p_srv p0 = Some e0 /\
    e_tx e0 = exr_ch2 ++ [35; 97; 10] ++ [65; 65; 65] ++ [66; 66; 66] /\
    e_tx (p_cli p0) = exr_sh4 ++ [35; 99; 10] ++ [83; 83; 83] ++ [84; 84; 84].
Proof.
  exists ([RLConnect [PWrite exr_ch1; PWrite [35; 65; 10; 65; 65; 65]; PWrite [66; 66; 66]]; RLAccept 0; RLCheck; RLPeerC 0]
          ++ exr_greet 0 [PWrite exr_sh3; PWrite [35; 67; 10; 83; 83; 83]; PWrite [84; 84; 84]]
          ++ [exr_H 0; exr_H 0; exr_H 0; exr_H 0; exr_H 0]
          ++ [RLPeerC 0; RLPump 0 RdIn 6; RLHsRead 3 true true true; RLHs []; RLHs [35; 97; 10];
              RLPeerC 0; RLPump 0 RdIn 3;
              RLPeerS 0; RLPump 0 RdOut 6; RLHsRead 3 true false false; RLHs [35; 99; 10];
              RLHs []; RLHs []; RLHs []; RLHs []; RLHs []; RLHs [];
              RLPeerS 0; RLPump 0 RdOut 3;
              RLWriter 0 RdIn; RLWriter 0 RdIn; RLWriter 0 RdIn; RLWriter 0 RdOut; RLWriter 0 RdOut; RLWriter 0 RdOut]).
  vm_compute. do 3 eexists. repeat split.
Qed.

(* limit, and the reason the theorem says "while tunnelConnected was set": bytes that reach the relay in-band AFTER
   the client's ACT line has been parked but BEFORE the handshake goroutine has stored tunnelConnected (a window of a
   few instructions on the unchanged code) are parked behind the ACT and flushed INTO the tunnel when the handshake
   ends: "KX" follows the relay's ACT on the server's tunnel connection *)
Example C17_relay_inband_before_agreement_may_cross :
  exists ls s p0 e0 b0, rt_run exr_ch1 exr_sh4 exr_ch2 exr_sh3 rt_init ls = Some s /\
    r_pairs s = [p0] /\ p_srv p0 = Some e0 /\ p_br p0 = Some b0 /\
    e_tx e0 = exr_ch2 ++ [35; 97; 10] ++ [75; 88] /\
    h_log (b_in b0) = [(RsRelay, [35; 97; 10]); (RsInband false, [75; 88])] /\ x_outin (r_x s) = [].
Proof.
  exists ([RLConnect [PWrite exr_ch1; PWrite [35; 65; 10]]; RLAccept 0; RLCheck; RLPeerC 0]
          ++ exr_greet 0 [PWrite exr_sh3; PWrite [35; 67; 10]] ++ [exr_H 0; exr_H 0; exr_H 0; exr_H 0; exr_H 0]
          ++ [RLPeerC 0; RLPump 0 RdIn 3; RLInband RdIn [75; 88]; RLHsRead 3 true true true; RLHs []; RLHs [35; 97; 10];
              RLPeerS 0; RLPump 0 RdOut 3; RLHsRead 3 true false false; RLHs [35; 99; 10]; RLHs []; RLHs []; RLHs []; RLHs [];
              RLWriter 0 RdIn; RLWriter 0 RdIn; RLWriter 0 RdOut]).
  vm_compute. do 4 eexists. repeat split.
Qed.

(* the rewrite on a relayed trigger line, and the hello the client then computes *)
Example C17_relay_rewrite_example :
  let trig p := [58; 58; 84; 82; 90; 83; 90; 58; 84; 82; 65; 78; 83; 70; 69; 82; 58; 82; 58; 49; 46; 49; 46; 56]
                  ++ rt_port_tag exr_uid p ++ [35; 82; 13; 10] in
  rt_rewrite exr_uid exr_sport exr_rport (trig exr_sport) = trig exr_rport /\
  hello_matches (client_hello exr_uid exr_rport) exr_ch1 = true /\
  hello_matches (client_hello exr_uid exr_sport) exr_ch1 = false.
Proof. vm_compute. repeat split. Qed.
