(* C19 — A zmodem session always ends by handing the terminal back. *)
From Trzsz Require Import Base.Bytes Gen.Consts Model.Zmodem Proofs.Zmodem.

Theorem C19_regexp_pinned :
  Consts.zmodem_init_regexp_src = [92; 42; 92; 42; 92; 120; 49; 56; 66; 48; 40; 48; 124; 49; 41; 91; 48; 45; 57; 97; 45; 102; 93; 123; 49; 50; 125].
Proof. exact init_regexp_src_ok. Qed.
Print Assumptions C19_regexp_pinned.
