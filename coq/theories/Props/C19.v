(* C19 — A zmodem session always ends by handing the terminal back.
   Only the property theorems; each is closed by a lemma of Proofs/Zmodem.v.

   The model (Model/Zmodem.v) transcribes zmodem.go and the zmodem hooks of filter.go WITH
   hooks/fix_zmodem.diff applied ([step], [run]); [step_unfixed], [run_unfixed] are the
   pinned upstream code.  One event = one complete activation of one goroutine; theorems
   quantify over ALL event sequences from the idle filter. *)
From Trzsz Require Import Base.Bytes Gen.Consts Gen.Skel_zmodem Model.Zmodem Proofs.Zmodem.
From Coq Require Import ZArith.

(* ---- ties to the source: the two expressions, the constants, the effect skeleton ---- *)
Theorem C19_source_pinned :
  Consts.zmodem_init_regexp_src =
    [92; 42; 92; 42; 92; 120; 49; 56; 66; 48; 40; 48; 124; 49; 41; 91; 48; 45; 57; 97; 45; 102; 93; 123; 49; 50; 125] /\
  Consts.zmodem_finish_regexp_src =
    [92; 42; 92; 42; 92; 120; 49; 56; 66; 48; 56; 91; 48; 45; 57; 97; 45; 102; 93; 123; 49; 50; 125] /\
  zmodem_skel = SkelPin.expected_skel /\
  Consts.zmodem_cancel_sub = [24; 24; 24; 24; 24] /\
  Consts.zmodem_cannot_open = [99; 97; 110; 110; 111; 116; 32; 111; 112; 101; 110; 32].
Proof.
  exact (conj init_regexp_src_ok (conj finish_regexp_src_ok (conj SkelPin.skel_ok
    (conj (proj1 consts_ok) (proj1 (proj2 (proj2 (proj2 consts_ok)))))))).
Qed.
Print Assumptions C19_source_pinned.

(* ---- C19_start ---- *)

(* detectZmodem: a session is proposed exactly for a buffer whose leftmost header has that
   direction and which carries neither a cancel sub-sequence nor "cannot open " *)
Theorem C19_start_detect : forall buf up, detect_zmodem buf = Some up <->
  init_find buf = Some up /\ has_cancel buf = false /\ has_cannot buf = false.
Proof. exact detect_spec. Qed.
Print Assumptions C19_start_detect.

(* what the header expression accepts: **\x18B0, '0' (download) or '1' (upload), 12 lower-case hex digits *)
Theorem C19_start_header_shape :
  (forall buf up, init_find buf = Some up ->
     exists pre hex rest, buf = pre ++ init_prefix ++ [if up then 49 else 48] ++ hex ++ rest /\
                          length hex = 12%nat /\ forallb is_hex_lc hex = true) /\
  (forall pre d hex rest, d = 48 \/ d = 49 -> length hex = 12%nat -> forallb is_hex_lc hex = true ->
     init_find (pre ++ init_prefix ++ [d] ++ hex ++ rest) <> None) /\
  (forall pre l, (forall k, (k < length pre)%nat -> init_at (skipn k (pre ++ l)) = None) ->
     init_find (pre ++ l) = init_find l) /\
  (forall pat l, contains pat l = true <-> exists a b, l = a ++ pat ++ b).
Proof. exact (conj init_find_sound (conj init_find_complete (conj init_find_leftmost contains_spec))). Qed.
Print Assumptions C19_start_header_shape.

(* in pass-through state (no session, or a stopped and cleaned one) an accepted header is
   forwarded, the cursor hidden and the matching session started *)
Theorem C19_start : forall f buf up, detect_zmodem buf = Some up -> passthrough f ->
  step f (EvServer buf) =
    (mkF (new_session up) true, (if ptr f then [OShow] else []) ++ [OForward; OTerm buf; OHide; OStart up]).
Proof. exact (start_on_header true). Qed.
Print Assumptions C19_start.

(* ---- C19_no_start_on_cancel ---- *)

(* whatever the state and the event: a session starts only on a server chunk that
   detectZmodem accepts, hence never on one carrying a cancel or a cannot-open *)
Theorem C19_no_start_on_cancel : forall f e up, In (OStart up) (snd (step f e)) ->
  exists buf, e = EvServer buf /\ init_find buf = Some up /\ has_cancel buf = false /\ has_cannot buf = false.
Proof.
  intros f e up H. destruct (start_only_on_header true f e up H) as (buf & He & Hd).
  exists buf. split; [exact He | exact (proj1 (detect_spec buf up) Hd)].
Qed.
Print Assumptions C19_no_start_on_cancel.

(* ---- C19_cancel_sent ---- *)

(* every terminating event on a running session (helper exit, launch failure, chooser error,
   Ctrl-C, a 20 s timer, a failed read from the helper) stops it and sends the cancel
   sequence to the server; if the helper is alive to listen it gets the sequence too and its
   kill is scheduled *)
Theorem C19_cancel_sent : forall f e, stopped (zs f) = false -> terminating f e ->
  stopped (zs (fst (step f e))) = true /\
  In OCancelServer (snd (step f e)) /\
  (helper_listening f e -> In OCancelHelper (snd (step f e)) /\ In OKill (snd (step f e))).
Proof. exact (cancel_sent true). Qed.
Print Assumptions C19_cancel_sent.

(* the server's own cancel: relayed to a started helper; before the helper starts it ends
   the session at once and the chunk is shown *)
Theorem C19_server_cancel : forall f buf, ptr f = true -> stopped (zs f) = false ->
  (hp (zs f) = HRun -> In (OHelper buf) (snd (step f (EvServer buf)))) /\
  (hp (zs f) = HNone -> has_cancel buf = true \/ has_cannot buf = true ->
     passthrough (fst (step f (EvServer buf))) /\ In (OTerm buf) (snd (step f (EvServer buf)))).
Proof.
  intros f buf Hp Hs. split.
  - intros Hh. exact (proj1 (server_cancel_relayed true f buf Hp Hs Hh)).
  - intros Hh Hc. destruct (server_cancel_early true f buf Hp Hs Hh Hc) as (H1 & H2 & H3 & H4).
    split; [left; exact H1 | exact H4].
Qed.
Print Assumptions C19_server_cancel.

(* ---- C19_bounded_swallow ---- *)

(* once stopped and cleaned (or with no session): the next server chunk is forwarded
   whatever it is, and typed input goes to the server *)
Theorem C19_bounded_swallow : forall f buf, passthrough f ->
  (In (OTerm buf) (snd (step f (EvServer buf))) /\ ~ In OClaim (snd (step f (EvServer buf)))) /\
  step f (EvInput buf) = (f, [OServer buf; OInput true]).
Proof.
  intros f buf Hp. split; [|exact (input_flows true f buf Hp)].
  destruct (detect_zmodem buf) as [up|] eqn:Hd.
  - unfold step. rewrite (start_on_header true f buf up Hd Hp). cbn [snd].
    destruct (ptr f); cbn [app In]; split; auto 6;
      intros H; repeat (destruct H as [H|H]; try discriminate); exact H.
  - unfold step. rewrite (no_header_no_start true f buf Hd Hp). cbn [snd].
    destruct (ptr f); cbn [app In]; split; auto 6;
      intros H; repeat (destruct H as [H|H]; try discriminate); exact H.
Qed.
Print Assumptions C19_bounded_swallow.

(* while stopped and not yet cleaned each swallowed chunk re-arms the cleanup timer (and
   changes nothing else); typed input is swallowed *)
Theorem C19_swallow_rearms : forall f buf, ptr f = true -> stopped (zs f) = true -> cleaned (zs f) = false ->
  step f (EvServer buf) = (mkF (set_tcu true (zs f)) true, [OClaim; OArm TCleanup]) /\
  step f (EvInput buf) = (f, [OInput false]).
Proof. intros f buf Hp Hs Hc. exact (conj (swallow_rearms true f buf Hp Hs Hc) (input_swallowed true f buf Hp Hs Hc)). Qed.
Print Assumptions C19_swallow_rearms.

(* ---- C19_returns ---- *)

(* From EVERY reachable state in which the session is stopped:
   (a) the clean-up is under way: cleaned already, or the cleanup timer is armed, or the
       helper is still running with its kill scheduled;
   (b) once the helper has exited (if it was running) and however many other events
       occur while the server stays quiet, the firing of the cleanup timer leaves the
       session stopped and cleaned, i.e. in pass-through (C19_bounded_swallow). *)
Theorem C19_returns : forall evs, let f := fst (run idle evs) in stopped (zs f) = true ->
  settled (zs f) /\
  forall c qs, Forall quiet qs ->
    let f2 := fst (step (fst (run (after_exit f c) qs)) EvCleanupFire) in
    stopped (zs f2) = true /\ cleaned (zs f2) = true.
Proof. exact returns. Qed.
Print Assumptions C19_returns.

(* stability used in (b), for every state: no event of a quiet server disarms the timer,
   un-stops or un-cleans; a swallowed chunk re-arms; a running helper keeps its kill
   scheduled until it exits, and its exit arms the timer *)
Theorem C19_returns_stable :
  (forall f e, quiet e -> winding_down (zs f) -> winding_down (zs (fst (step f e)))) /\
  (forall f buf, ptr f = true -> winding_down (zs f) -> cleaned (zs f) = false ->
     winding_down (zs (fst (step f (EvServer buf))))) /\
  (forall f e, (forall c, e <> EvHelperExit c) -> quiet e ->
     stopped (zs f) = true -> hp (zs f) = HRun -> ksched (zs f) = true ->
     let z' := zs (fst (step f e)) in stopped z' = true /\ hp z' = HRun /\ ksched z' = true) /\
  (forall f c, hp (zs f) = HRun -> winding_down (zs (fst (step f (EvHelperExit c))))).
Proof. exact (conj quiet_keeps (conj swallow_keeps (conj helper_pending_stable exit_arms))). Qed.
Print Assumptions C19_returns_stable.

(* The pinned upstream code violates C19_returns.  Witness: a download header, then the
   helper cannot be started (or the chooser fails).  The state reached is stopped with
   nothing under way; no event of a quiet server ever changes it, typed input is swallowed
   for ever, and the first later server chunk is swallowed too. *)
Theorem C19_returns_unfixed_refuted :
  exists evs, let f := fst (run_unfixed idle evs) in
    evs = [EvServer hdr_download; EvGraceBegin; EvLaunch LaunchFail] /\
    detect_zmodem hdr_download = Some false /\
    stopped (zs f) = true /\ ~ settled (zs f) /\
    (forall qs, Forall quiet qs ->
       fst (run_unfixed f qs) = f /\ Forall (fun o => o = OInput false) (snd (run_unfixed f qs))) /\
    (forall buf, snd (step_unfixed f (EvServer buf)) = [OClaim; OArm TCleanup]).
Proof.
  exists (stuck_events LaunchFail). cbv zeta. rewrite (proj1 unfixed_reaches_stuck).
  split; [reflexivity|]. split; [vm_compute; reflexivity|].
  split; [exact (proj1 stuck_not_settled)|]. split; [exact (proj2 stuck_not_settled)|].
  split; [exact stuck_forever | exact stuck_swallows_output].
Qed.
Print Assumptions C19_returns_unfixed_refuted.

(* the same dead end is reached by a chooser error, and by Ctrl-C typed before the helper
   has been started (the helper is then never started) *)
Theorem C19_returns_unfixed_other_witnesses :
  fst (run_unfixed idle [EvServer hdr_download; EvGraceBegin; EvLaunch ChooserErr]) = stuck_state /\
  fst (run_unfixed idle [EvServer hdr_download; EvGraceBegin; EvInput [Consts.zmodem_ctrl_c]; EvLaunch LaunchOk]) = stuck_state /\
  fst (run_unfixed idle [EvServer hdr_download; EvGraceBegin; EvLaunch LaunchFail]) = stuck_state.
Proof. exact (conj (proj2 unfixed_reaches_stuck) (conj unfixed_reaches_stuck_ctrl_c (proj1 unfixed_reaches_stuck))). Qed.
Print Assumptions C19_returns_unfixed_other_witnesses.

(* the same two event sequences on the code with the fix *)
Theorem C19_returns_fixed_on_witness : forall r, r = LaunchFail \/ r = ChooserErr ->
  fst (run_unfixed idle (stuck_events r)) = stuck_state /\
  tcu (zs (fst (run idle (stuck_events r)))) = true /\
  cleaned (zs (fst (run idle (stuck_events r ++ [EvCleanupFire])))) = true.
Proof.
  intros r Hr. split; [destruct Hr as [-> | ->]; [exact (proj1 unfixed_reaches_stuck) | exact (proj2 unfixed_reaches_stuck)]|].
  exact (fixed_not_stuck r Hr).
Qed.
Print Assumptions C19_returns_fixed_on_witness.

(* ---- C19_grace: the grace period of handleZmodemEvent ---- *)

(* The local side waits zmodem_launch_delay_ms before it looks at [stopped] and starts
   rz / sz ("the server may fail immediately").  From EVERY reachable state in which a
   session is in that grace period - whether its goroutine has begun (EvGraceBegin) or
   not - a server chunk carrying the cancel sequence or "cannot open " is shown, the
   cursor restored, and from then on the wrapper is transparent for ALL continuations
   that contain no new accepted header: every server chunk goes to the terminal, every
   typed chunk to the server, and NOTHING else is written anywhere - in particular no
   helper is started, no cancel sequence and no clean-up "\r" are sent. *)
Theorem C19_grace_cancel : forall evs0, let f := fst (run idle evs0) in
  ptr f = true -> lpend (zs f) = true -> stopped (zs f) = false ->
  forall buf, has_cancel buf = true \/ has_cannot buf = true ->
  forall evs, Forall no_header evs ->
    snd (run f (EvServer buf :: evs)) = [OShow; OForward; OTerm buf] ++ flat_map pt_out evs.
Proof. exact grace_cancel. Qed.
Print Assumptions C19_grace_cancel.

(* a helper is started by exactly one thing - the end of the grace sleep of a session that
   is not stopped - and once a session is stopped (by the remote cancel, by Ctrl-C, by
   anything, during the grace period or later) none is started any more, whatever
   happens, until the filter starts the next session *)
Theorem C19_grace_no_launch_after_stop :
  (forall f e, In OLaunchHelper (snd (step f e)) ->
     e = EvLaunch LaunchOk /\ stopped (zs f) = false /\ lpend (zs f) = true /\ gbegun (zs f) = true) /\
  (forall evs f, stopped (zs f) = true -> has_start (snd (run f evs)) = false ->
     ~ In OLaunchHelper (snd (run f evs))).
Proof. exact (conj (launch_only_live true) (no_launch_after_stop true)). Qed.
Print Assumptions C19_grace_no_launch_after_stop.

Example C19_grace_nonvacuous :
  (* both sub-phases of the grace period are reachable and satisfy the hypotheses *)
  let f0 := fst (run idle [EvServer hdr_download]) in
  let f1 := fst (run idle [EvServer hdr_download; EvGraceBegin]) in
  (ptr f0 = true /\ lpend (zs f0) = true /\ stopped (zs f0) = false /\ gbegun (zs f0) = false) /\
  (ptr f1 = true /\ lpend (zs f1) = true /\ stopped (zs f1) = false /\ gbegun (zs f1) = true) /\
  has_cancel Consts.zmodem_cancel_full = true /\
  snd (run f1 [EvServer Consts.zmodem_cancel_full; EvLaunch LaunchOk; EvInput [108; 115]; EvCleanupFire]) =
    [OShow; OForward; OTerm Consts.zmodem_cancel_full; OServer [108; 115]; OInput true] /\
  (* without the cancel the same wake-up does start the helper *)
  In OLaunchHelper (snd (run f1 [EvLaunch LaunchOk])).
Proof. vm_compute. repeat split; auto. Qed.

(* ---- C19_early_ctrl_c: Ctrl-C before the session's goroutine has begun ---- *)

(* The pinned code violates "Ctrl-C at any time": the session is visible to sendInput
   before handleZmodemEvent has stored its writers; a lone Ctrl-C in that window (kept
   open by a terminal that is slow to take the hide-cursor sequence) makes
   handleZmodemError write to a nil writer and the client process dies.  Witness
   (replayed on the real filter by the harness in a child process): *)
Theorem C19_early_ctrl_c_pinned_refuted :
  exists evs, evs = [EvServer hdr_download; EvInput [Consts.zmodem_ctrl_c]] /\
              In OCrash (snd (run_pinned idle evs)).
Proof.
  eexists. split; [reflexivity|]. rewrite pinned_crashes. cbn [In]. auto 6.
Qed.
Print Assumptions C19_early_ctrl_c_pinned_refuted.

(* with hooks/fix_zmodem_early_ctrl_c.diff (the model [step]) nothing ever crashes, the
   pinned code differs from it in that window only, and the witness history ends with the
   cancel sequence sent, the helper never started and the session cleaned up *)
Theorem C19_early_ctrl_c :
  (forall evs f, ~ In OCrash (snd (run f evs))) /\
  (forall f e, (forall buf, e = EvInput buf -> crash_window f buf = false) -> step_pinned f e = step f e) /\
  snd (run idle [EvServer hdr_download; EvInput [Consts.zmodem_ctrl_c]; EvGraceBegin; EvLaunch LaunchOk; EvCleanupFire]) =
    [OForward; OTerm hdr_download; OHide; OStart false;
     OCancelServer; OArm TCleanup; OMsg MStopped; OInput false; OServer Consts.zmodem_cleanup_enter].
Proof. exact (conj (no_crash_run true) (conj pinned_agrees early_ctrl_c_fixed)). Qed.
Print Assumptions C19_early_ctrl_c.

(* ---- C19_exit: the helper's exit, with ANY status ---- *)

(* In EVERY state in which the helper runs (session stopped already or not, transfer begun,
   complete or not), its exit with status c stops the session, arms the cleanup timer and
   sends the cancel sequence to the server; and nothing of this depends on c: for any two
   statuses the outputs differ in the message shown only, the states in the recorded code
   only. *)
Theorem C19_exit_cancel_any_status : forall f c, hp (zs f) = HRun ->
  In OCancelServer (snd (step f (EvHelperExit c))) /\
  stopped (zs (fst (step f (EvHelperExit c)))) = true /\
  tcu (zs (fst (step f (EvHelperExit c)))) = true /\
  forall c', strip_msg (snd (step f (EvHelperExit c))) = strip_msg (snd (step f (EvHelperExit c'))) /\
             forget_code (zs (fst (step f (EvHelperExit c)))) = forget_code (zs (fst (step f (EvHelperExit c')))) /\
             ptr (fst (step f (EvHelperExit c))) = ptr (fst (step f (EvHelperExit c'))).
Proof. exact (exit_any_status true). Qed.
Print Assumptions C19_exit_cancel_any_status.

(* ... and the session is over for good: after the exit (any status, any state with a running
   helper), any events of a quiet server and the firing of the cleanup timer, a remote
   program that repeats its header until it is sent the cancel sequence has been silenced
   ([remote_waiting] is what the harness's scripted remote implements), no new session has
   been started, and the wrapper is in pass-through (C19_bounded_swallow) *)
Theorem C19_exit_returns_for_good : forall f c qs, hp (zs f) = HRun -> Forall quiet qs ->
  let r := run f (EvHelperExit c :: qs ++ [EvCleanupFire]) in
  remote_waiting (snd r) = false /\ has_start (snd r) = false /\ passthrough (fst r).
Proof. exact exit_returns_for_good. Qed.
Print Assumptions C19_exit_returns_for_good.

Example C19_exit_nonvacuous :
  let f := fst (run idle [EvServer hdr_download; EvGraceBegin; EvLaunch LaunchOk]) in
  hp (zs f) = HRun /\ remote_waiting (snd (run idle [EvServer hdr_download; EvGraceBegin; EvLaunch LaunchOk])) = true /\
  snd (step f (EvHelperExit 0)) = [OStopT TServer; OMsg MSuccess; OArm TCleanup; OCancelServer] /\
  snd (step f (EvHelperExit 3)) = [OStopT TServer; OMsg (MExit 3); OArm TCleanup; OCancelServer].
Proof. vm_compute. repeat split; reflexivity. Qed.

(* ---- non-vacuity ---- *)
Example C19_nonvacuous_session :
  (* Ctrl-C on a running download with a silent helper: stopped, helper alive, kill scheduled *)
  let f := fst (run idle [EvServer hdr_download; EvGraceBegin; EvLaunch LaunchOk; EvInput [3]]) in
  stopped (zs f) = true /\ cleaned (zs f) = false /\ tcu (zs f) = false /\ hp (zs f) = HRun /\ ksched (zs f) = true /\
  terminating (fst (run idle [EvServer hdr_download; EvGraceBegin; EvLaunch LaunchOk])) (EvInput [3]) /\
  helper_listening (fst (run idle [EvServer hdr_download; EvGraceBegin; EvLaunch LaunchOk])) (EvInput [3]).
Proof. vm_compute. repeat split; try reflexivity; intros; discriminate. Qed.

Example C19_nonvacuous_passthrough :
  passthrough idle /\
  passthrough (fst (run idle [EvServer hdr_download; EvGraceBegin; EvLaunch LaunchFail; EvCleanupFire])) /\
  ptr (fst (run idle [EvServer hdr_download; EvGraceBegin; EvLaunch LaunchFail; EvCleanupFire])) = true.
Proof. split; [left; reflexivity|]. split; [right; vm_compute; auto | vm_compute; reflexivity]. Qed.
