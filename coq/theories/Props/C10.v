(* C10 — Stopping ends a transfer promptly on both sides and removes only what it made.
   Only property theorems.  Three parts:
   (1) the stop flag reaches every stage: source tie (Gen/Skel_stop.v) — a stop check
       precedes the first wire operation of every function through which a stage sends or
       receives, a blocked reader is woken through stopCh, checkStop answers
       "stopped and deleted" before "stopped";
   (2) once a stage has failed with the stop error and cancelled its pipeline, C11's
       theorems A+B apply: bounded number of further steps under every schedule, all
       goroutines gone; and success is only signalled after the final acknowledgement;
   (3) stop-and-delete removes exactly what this transfer recorded as created (with
       overwrite: had opened for replacing) and what lies below; everything else keeps its
       node and bytes; a plain stop runs no deletion. *)
From Coq Require Import String.
From Trzsz Require Import Base.Bytes Model.Path Model.Fs Model.Names Model.Proc Model.ProcFault
  Proofs.PathFs Proofs.Names Proofs.Stop Proofs.Proc Proofs.ProcFault Proofs.ProcInst Gen.Skel_stop Gen.Skel_pipeline.
From Trzsz Require Props.C11.

(* (1) *)
Theorem C10_stop_reaches_every_stage :
  forallb snd Skel_stop.stop_check_first = true /\
  map fst Skel_stop.stop_check_first =
    ["trzszTransfer.sendData"; "trzszTransfer.recvLine"; "trzszTransfer.sendDataV2";
     "trzszTransfer.recvCheckV2"; "trzszTransfer.pipelineSendAck"; "trzszTransfer.checkStopAndPause"]%string /\
  Skel_stop.next_buffer_stop_arm = true /\
  Skel_stop.stop_first_statements =
    ["if !t.stopped.CompareAndSwap(false, true) { return }"; "t.stopAndDelete.Store(stopAndDelete)";
     "t.buffer.stopBuffer()"]%string /\
  Skel_stop.text_check_stop =
    "{ if t.stopAndDelete.Load() { return errStoppedAndDeleted } if t.stopped.Load() { return errStopped } return nil }"%string.
Proof.
  exact (conj stop_checks_everywhere (conj stop_check_functions (conj blocked_reader_wakes_src_ok
        (conj stop_sets_then_wakes_src_ok check_stop_src_ok)))).
Qed.
Print Assumptions C10_stop_reaches_every_stage.

(* (2) after the stop error has cancelled a pipeline: bounded, and everybody leaves *)
Definition terminates_after_cancel (N : net) : Prop :=
  forall D io_ret, io_assumptions io_ret true ->
  forall g, reach N D io_ret g -> cancelled g = true ->
  (forall n g', steps N D io_ret n g g' -> (n <= total N D g)%nat) /\
  (forall n g', steps N D io_ret n g g' -> stuck N D io_ret g' -> forall p, procs g' p = Exited).
Theorem C10_stop_bounded :
  terminates_after_cancel send_net /\ terminates_after_cancel recv_net /\ terminates_after_cancel hash_net.
Proof.
  exact (conj (wf_net_terminates send_net send_net_wf)
        (conj (wf_net_terminates recv_net recv_net_wf) (wf_net_terminates hash_net hash_net_wf))).
Qed.
Print Assumptions C10_stop_bounded.

(* ... and the stop error does reach the cancellation: a stage observes the stop as the failure of
   the wire operation in front of which (1) puts the check (or of the read the stop wakes), i.e.
   as the failing branch of an [IoE] of its skeleton; C11's fault theorem says that from any
   reachable state in which such an operation fails the context is cancelled after at most
   |error path| + 2 own steps of that goroutine (which can always move when its error path waits
   for nobody), and then the bound above applies *)
Theorem C10_stop_error_cancels :
  C11.fault_follows send_net /\ C11.fault_follows recv_net /\ C11.fault_follows hash_net.
Proof. exact C11.C11_fault_terminates. Qed.
Print Assumptions C10_stop_error_cancels.

(* never success for an incomplete file: the success signal of a file exists only after the
   acknowledgement stage handled the final acknowledgement *)
Theorem C10_outcome :
  success_guarded send_net ch_send_sendFileDataV2_0 ch_send_CalculateMD5_0 p_send_RecvAck p_send_main RecvLine = true /\
  success_guarded recv_net ch_recv_recvFileDataV2_0 ch_recv_CalculateMD5_0 p_recv_SendAck p_recv_main WriteWire = true.
Proof. exact (conj send_success_guarded recv_success_guarded). Qed.
Print Assumptions C10_outcome.

(* (3) *)
Theorem C10_delete : forall st st' del, delete_created st = (st', del) ->
  (forall p, In p del -> In p (st_created st)) /\
  (exists es, st_log st' = (st_log st ++ es)%list /\
     forall e, In e es -> exists q, e = ERemove q /\ under_some (st_created st) q = true) /\
  (forall q, under_some (st_created st) q = false -> lookup (st_fs st') q = lookup (st_fs st) q) /\
  st_created st' = st_created st.
Proof. exact delete_created_exact. Qed.
Print Assumptions C10_delete.

(* without overwrite, stop-and-delete leaves every pre-existing entry exactly as it was
   (C07_preserves with the final deletion switched on) *)
Theorem C10_delete_preserves_existing : forall decode cfg dest fs0,
  overwrite cfg = false -> stat fs0 dest = SFound Dir ->
  forall msgs, parent_closedb fs0 = true ->
  forall p nd, lookup fs0 p = Some nd ->
    lookup (st_fs (o_final (recv_names decode cfg dest msgs true fs0))) p = Some nd.
Proof.
  intros decode cfg dest fs0 Ho Hd msgs Hp p nd Hl.
  exact (proj1 (preserves decode cfg dest fs0 Ho Hd msgs true Hp p nd Hl)).
Qed.
Print Assumptions C10_delete_preserves_existing.

Theorem C10_plain_stop_keeps : forall decode cfg dest ms f0,
  o_final (recv_names decode cfg dest ms false f0) = o_mid (recv_names decode cfg dest ms false f0) /\
  o_deleted (recv_names decode cfg dest ms false f0) = [].
Proof. exact plain_stop_keeps. Qed.
Print Assumptions C10_plain_stop_keeps.

(* non-vacuity: /d holds "keep"; the transfer created /d/a and /d/sub/x; stop-and-delete
   removes those and only those *)
Example C10_nonvacuous :
  let f : fs := [([[100]], Dir); ([[100]; [107]], File [1]); ([[100]; [97]], File [2]);
                 ([[100]; [115]], Dir); ([[100]; [115]; [120]], File [3])] in
  let st := {| st_fs := f; st_log := []; st_created := [[[100]; [97]]; [[100]; [115]]]; st_map := [] |} in
  let '(st', del) := delete_created st in
  del = [[[100]; [97]]; [[100]; [115]]] /\ lookup (st_fs st') [[100]; [107]] = Some (File [1]) /\
  lookup (st_fs st') [[100]; [97]] = None /\ lookup (st_fs st') [[100]; [115]; [120]] = None.
Proof. vm_compute. repeat split. Qed.
