(* C07 — Without -y nothing that already exists at the destination is touched.
   Only the property theorems; each is closed by a lemma of Proofs/Names.v.
   Same model as C09 (Model/Path.v, Model/Fs.v, Model/Names.v); [recv_names] is the current
   source (with checkFileName), [decode] (json.Unmarshal into sourceFile) is arbitrary.
   Limits: no symbolic or hard links, permissions, PATH_MAX or other processes. *)
From Coq Require Import ZArith.
From Trzsz Require Import Base.Bytes Gen.Consts Model.Path Model.Fs Model.Names Model.NamesRecv Proofs.PathFs Proofs.Names Proofs.NamesRecv.

(* Overwrite off.  For every prior file system in which every entry has its parent
   directory, every destination that is a directory, every decoder and every sequence of
   NAME messages / archive entry headers (accepted or refused, arbitrary bytes), with or
   without the final deleteCreatedFiles: every path that existed before has the same node
   and the same bytes afterwards, and no effect (create, open for writing, truncate,
   remove) was ever applied to it. *)
Theorem C07_preserves : forall decode cfg dest fs0,
  overwrite cfg = false -> stat fs0 dest = SFound Dir ->
  forall msgs del, parent_closedb fs0 = true ->
  forall p nd, lookup fs0 p = Some nd ->
    lookup (st_fs (o_final (recv_names decode cfg dest msgs del fs0))) p = Some nd /\
    (forall e, In e (st_log (o_final (recv_names decode cfg dest msgs del fs0))) -> effect_path e <> p).
Proof. exact preserves. Qed.
Print Assumptions C07_preserves.

(* Everything one message does lies under ONE top-level name of the destination, which is
   a single clean path element that did not exist before the transfer, and which is the
   name returned if the message is accepted. *)
Theorem C07_consistent_effects : forall decode cfg dest fs0,
  overwrite cfg = false -> stat fs0 dest = SFound Dir ->
  forall msgs del r es, In (r, es) (o_results (recv_names decode cfg dest msgs del fs0)) ->
  es = [] \/ exists ln, good ln /\ lookup fs0 (dest ++ [ln]) = None /\
    (forall e, In e es -> exists rest, effect_path e = dest ++ ln :: rest) /\
    (forall ln', r = NOk ln' -> ln' = ln).
Proof. exact consistent_effects. Qed.
Print Assumptions C07_consistent_effects.

(* One fresh name per path id: every accepted JSON record — NAME message or archive entry
   header, at any position in the sequence — was given the name the fileNameMap holds for
   its path id at the end; so two accepted records with one path id got one name. *)
Theorem C07_consistent_ids : forall decode cfg dest fs0,
  overwrite cfg = false -> stat fs0 dest = SFound Dir ->
  forall msgs del m r es ln s,
    In (m, (r, es)) (combine msgs (o_results (recv_names decode cfg dest msgs del fs0))) ->
    r = NOk ln -> msg_src decode cfg m = Some s ->
    map_get (st_map (o_mid (recv_names decode cfg dest msgs del fs0))) (s_id s) = Some ln.
Proof. exact consistent_ids. Qed.
Print Assumptions C07_consistent_ids.

(* names returned vs. names created.  Full statement: when every message is accepted, the
   names returned are exactly the top-level names that are new after the messages. *)
Definition C07_consistent_names_full : Prop := forall decode cfg dest fs0,
  overwrite cfg = false -> stat fs0 dest = SFound Dir ->
  forall msgs del,
  (forall r es, In (r, es) (o_results (recv_names decode cfg dest msgs del fs0)) -> r <> NErr) ->
  forall n, (exists es, In (NOk n, es) (o_results (recv_names decode cfg dest msgs del fs0))) <->
            (lookup fs0 (dest ++ [n]) = None /\
             lookup (st_fs (o_mid (recv_names decode cfg dest msgs del fs0))) (dest ++ [n]) <> None).

(* Proved: the direction "every new top-level name was returned for some message", and of
   the converse the freshness half (a returned name with any effect did not exist before).
   Missing at THIS level (a flat message sequence): "a returned name is present afterwards".
   At the level where names are actually reported - the loop of recvFiles - both directions
   are proved: C07_reported_roots / C07_reported_present below (the presence-monotonicity
   invariant they need is in Proofs/NamesRecv.v).
   In the real code the name chosen for an ARCHIVE ENTRY is not reported (archive.go drops
   it): an entry whose path id differs from the archive's own lands under another fresh
   name that the user is not told about (see the final report). *)
Theorem C07_consistent_names_partial : forall decode cfg dest fs0,
  overwrite cfg = false -> stat fs0 dest = SFound Dir ->
  forall msgs del,
  ((forall r es, In (r, es) (o_results (recv_names decode cfg dest msgs del fs0)) -> r <> NErr) ->
   forall n, lookup fs0 (dest ++ [n]) = None ->
     lookup (st_fs (o_mid (recv_names decode cfg dest msgs del fs0))) (dest ++ [n]) <> None ->
     exists es, In (NOk n, es) (o_results (recv_names decode cfg dest msgs del fs0))) /\
  (forall n es, In (NOk n, es) (o_results (recv_names decode cfg dest msgs del fs0)) -> es <> [] ->
     lookup fs0 (dest ++ [n]) = None).
Proof. intros decode cfg dest fs0 Ho Hd msgs del. split; [apply consistent_names | apply returned_fresh]; assumption. Qed.
Print Assumptions C07_consistent_names_partial.

(* ---- the names REPORTED as saved: the loop of recvFiles (Model/NamesRecv.v) ----
   [nr_run] is recvFiles on a list of records - one per announced entry: the NAME message and
   what arrives through the writer it returned (file bytes, or the entry headers of an archive
   record's data stream); a directory record has no writer.  Result [Some names] = the list
   recvFiles returns, which trz / the client print as "Saved ..."; [None] = the transfer failed
   and nothing is reported.

   Overwrite off.  For every prior file system, destination that is a directory, decoder and
   list of records of arbitrary bytes in which every archive entry header carries the path id
   of its archive record ([nr_own]: what the real sender produces): if recvFiles succeeds, the
   reported list has no duplicates, its members are EXACTLY the top-level names of the
   destination that did not exist before and exist now - whether the root was announced by a
   file, an empty directory, a directory-only tree, a record below the root, an archive, once or
   repeatedly - and its order is the order in which those roots were first created, opened or
   written ([nr_roots]: the roots of the effect log, first occurrences, in log order). *)
Theorem C07_reported_roots : forall decode cfg dest fs0,
  overwrite cfg = false -> stat fs0 dest = SFound Dir ->
  forall rs names st', nr_own decode cfg rs = true ->
  nr_run decode cfg dest rs fs0 = (Some names, st') ->
  NoDup names /\
  (forall n, In n names <-> lookup fs0 (dest ++ [n]) = None /\ lookup (st_fs st') (dest ++ [n]) <> None) /\
  names = nr_roots dest (st_log st') [].
Proof. exact reported_roots. Qed.
Print Assumptions C07_reported_roots.

(* Any overwrite setting, any records: a reported name exists in the destination afterwards,
   and no name is reported twice. *)
Theorem C07_reported_present : forall decode cfg dest fs0 rs names st',
  stat fs0 dest = SFound Dir -> nr_run decode cfg dest rs fs0 = (Some names, st') ->
  NoDup names /\ forall n, In n names -> lookup (st_fs st') (dest ++ [n]) <> None.
Proof. exact reported_present. Qed.
Print Assumptions C07_reported_present.

(* Without the condition on the entries' path ids the equality is FALSE for the code as it is
   (KNOWN_FINDINGS archive-entry-foreign-top-level): NAME {id 0, ["a"], directory, archive}
   followed by the entry header {id 7, ["o","x"]} creates /d/o, reports only "a". *)
Theorem C07_reported_roots_foreign_refuted :
  exists decode cfg dest fs0 rs names st', overwrite cfg = false /\ stat fs0 dest = SFound Dir /\
    nr_run decode cfg dest rs fs0 = (Some names, st') /\
    exists n, ~ In n names /\ lookup fs0 (dest ++ [n]) = None /\ lookup (st_fs st') (dest ++ [n]) <> None.
Proof. exact reported_roots_foreign_refuted. Qed.
Print Assumptions C07_reported_roots_foreign_refuted.

(* non-vacuity: /d holds a directory "c"; an empty directory "c" (-> c.0), a directory-only tree
   "s/a", and a file "x" arrive; all three are reported, in this order *)
Example C07_reported_nonvacuous :
  let f0 : fs := [([[100]], Dir); ([[100]; [99]], Dir)] in
  let cfg := {| overwrite := false; directory := true; v3 := false |} in
  let dec (raw : list N) := match raw with
    | [1] => Some {| s_id := 0; s_rel := [[99]]; s_isdir := true; s_archive := false |}
    | [2] => Some {| s_id := 1; s_rel := [[115]]; s_isdir := true; s_archive := false |}
    | [3] => Some {| s_id := 1; s_rel := [[115]; [97]]; s_isdir := true; s_archive := false |}
    | [4] => Some {| s_id := 2; s_rel := [[120]]; s_isdir := false; s_archive := false |}
    | _ => None end in
  let rs := map (fun raw => {| nr_raw := raw; nr_payload := [7]; nr_entries := [] |}) [[1]; [2]; [3]; [4]] in
  nr_own dec cfg rs = true /\ stat f0 [[100]] = SFound Dir /\
  fst (nr_run dec cfg [[100]] rs f0) = Some [[99; 46; 48]; [115]; [120]].
Proof. vm_compute. repeat split. Qed.

(* name, name.0 ... name.999 all present (or unreadable): getNewName fails, createFile
   refuses, and the state is exactly what it was *)
Theorem C07_exhausted : forall decode cfg dest nm pl st,
  overwrite cfg = false -> v3 cfg = false -> directory cfg = false ->
  (forall c, In c (candidates nm) -> stat (st_fs st) (join dest [c]) <> SNotExist) ->
  get_new_name (st_fs st) dest nm = None /\
  step decode code_checks cfg dest (MName nm pl) st = (NErr, st).
Proof. exact exhausted_no_effect. Qed.
Print Assumptions C07_exhausted.

(* the same for JSON records (files below a root, directories, archive records; NAME message or
   archive entry header): a record whose path id has no name yet and whose top-level name and all
   numbered alternatives exist is refused, the state (file system, log, createdFiles, fileNameMap) is
   exactly what it was - the series is never reused *)
Theorem C07_exhausted_json : forall decode cfg dest m s r0 rest st,
  overwrite cfg = false -> msg_src decode cfg m = Some s -> s_rel s = r0 :: rest ->
  map_get (st_map st) (s_id s) = None ->
  (forall c, In c (candidates r0) -> stat (st_fs st) (join dest [c]) <> SNotExist) ->
  step decode code_checks cfg dest m st = (NErr, st).
Proof. exact exhausted_no_effect_json. Qed.
Print Assumptions C07_exhausted_json.

(* one gap anywhere in the series: the first gap is the name chosen *)
Theorem C07_gap_used : forall fs dest nm pre g post, name_len nm <= names_max_len ->
  candidates nm = pre ++ g :: post -> stat fs (join dest [g]) = SNotExist ->
  (forall c, In c pre -> stat fs (join dest [c]) <> SNotExist) ->
  get_new_name fs dest nm = Some g.
Proof. exact gap_used. Qed.
Print Assumptions C07_gap_used.

(* the shape of getNewName the model transcribes is what the translator found in the source *)
Theorem C07_getnewname_pins : names_getnewname_loop_ok = true /\ names_getnewname_shape_ok = true.
Proof. exact (conj names_getnewname_loop_src_ok names_getnewname_src_ok). Qed.
Print Assumptions C07_getnewname_pins.

(* the chosen name is the first absent one of name, name.0, name.1, ... (and the name is at
   most names_max_len bytes long) *)
Theorem C07_fresh_shape : forall fs dest nm ln, get_new_name fs dest nm = Some ln <->
  name_len nm <= names_max_len /\
  exists pre post, candidates nm = pre ++ ln :: post /\ stat fs (join dest [ln]) = SNotExist /\
    forall c, In c pre -> stat fs (join dest [c]) <> SNotExist.
Proof. exact fresh_shape. Qed.
Print Assumptions C07_fresh_shape.

(* ... and whatever bytes the validated name consists of (fmt verbs included), the fresh name is
   the name or name "." decimal(counter), a single clean path element again *)
Theorem C07_fresh_name_form : forall fs dest nm ln,
  valid_name nm = true -> get_new_name fs dest nm = Some ln ->
  good ln /\ (ln = nm \/ exists i, (i < N.to_nat names_max_tries)%nat /\
                 ln = nm ++ [dot] ++ decimal (N.of_nat i) /\ Forall digit (decimal (N.of_nat i))).
Proof. exact fresh_name_form. Qed.
Print Assumptions C07_fresh_name_form.

(* the candidate list really is name, name.0, ..., name.999, and the decimal printer agrees
   with Coq's own on every index used *)
Theorem C07_candidates : (length (candidates [120]) = 1001%nat /\
  firstn 4 (candidates [120]) = [[120]; [120; 46; 48]; [120; 46; 49]; [120; 46; 50]] /\
  nth 11 (candidates [120]) [] = [120; 46; 49; 48] /\
  nth 1000 (candidates [120]) [] = [120; 46; 57; 57; 57]) /\
  (forall i, (i < N.to_nat names_max_tries)%nat -> decimal (N.of_nat i) = uint_bytes (N.to_uint (N.of_nat i))).
Proof. exact (conj candidates_shape decimal_matches_stdlib). Qed.
Print Assumptions C07_candidates.

(* non-vacuity: /d contains a and a.0; with overwrite off "a" arrives twice and lands as a.1
   and a.2; the old entries keep their bytes; deletion removes only the new ones *)
Example C07_nonvacuous :
  let f0 : fs := [([[100]], Dir); ([[100]; [97]], File [1]); ([[100]; [97; 46; 48]], File [2])] in
  let cfg := {| overwrite := false; directory := false; v3 := false |} in
  let o := recv_names (fun _ => None) cfg [[100]] [MName [97] [7]; MName [97] [8]] true f0 in
  parent_closedb f0 = true /\ stat f0 [[100]] = SFound Dir /\
  map fst (o_results o) = [NOk [97; 46; 49]; NOk [97; 46; 50]] /\
  lookup (st_fs (o_mid o)) [[100]; [97; 46; 49]] = Some (File [7]) /\
  lookup (st_fs (o_final o)) [[100]; [97]] = Some (File [1]) /\
  lookup (st_fs (o_final o)) [[100]; [97; 46; 49]] = None.
Proof. vm_compute. repeat split. Qed.
