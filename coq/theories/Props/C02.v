(* C02 — No silent corruption: a damaged stream is never reported as saved.
   The theorems are about the message-level decision logic of Model/Protocol.v; they hold
   for ANY sequence of delivered lines (any combination of altered, dropped, duplicated,
   inserted or truncated bytes yields SOME sequence of lines, or an unparsable one, which
   is [LOther]).  MD5 is the abstract function H; the two digest hypotheses are premises. *)
From Trzsz Require Import Base.Bytes Model.Path Model.Fs Model.Names Model.Transfer Model.Protocol Model.FaultTie Proofs.Protocol Proofs.FaultTie Proofs.FaultTieFs Proofs.FaultTieSender.
From Trzsz Require Gen.Consts Model.Resume Model.FaultResume Proofs.Resume Proofs.FaultResume.
From Coq Require Import ZArith.

Section C02.
Variable digest : Type.
Variable H : list byte -> digest.
Variable deq : digest -> digest -> bool.
Hypothesis deq_spec : forall a b, deq a b = true <-> a = b.
Variable decode : list (list byte) -> option (list byte).
Variable decode1 : list byte -> option (list byte).

(* receiver, protocol >= 2.  [early] is the schedule of the receiving pipeline (None = pipelineSaveData's
   step = size check decides; Some k = pipelineSendAck, which reports completion as soon as the saved step
   EQUALS the announced size, is first and k bytes have reached the file by then).  Since fix d144b66 the
   ctx.succ branch of recvFileDataV2 waits for the saver's verdict (read from the source:
   Consts.c02_succ_waits_saver), so the schedule no longer matters: for EVERY schedule, acceptance implies
   that the stream decodes to exactly what the file holds, has exactly the announced size, and that the
   MD5 line is its digest. *)
Variable early : option nat.
Theorem C02_receiver_sound_v2 : forall ls size acc w,
  recv_v2 digest H deq decode early size acc ls = Accept w ->
  decode (acc ++ frames_of digest ls) = Some w /\ Z.of_nat (length w) = size
  /\ md5_of digest ls = Some (H w).
Proof. exact (recv_v2_sound digest H deq deq_spec decode early). Qed.

(* the code before d144b66 ([recv_v2_old]): both outcomes of the race *)
Theorem C02_receiver_sound_v2_old : forall ls size acc written,
  recv_v2_old digest H deq decode early size acc ls = Accept written ->
  exists w, decode (acc ++ frames_of digest ls) = Some w /\ md5_of digest ls = Some (H w) /\
    ((written = w /\ Z.of_nat (length w) = size) \/
     (exists k, early = Some k /\ written = firstn k w /\
                (0 <= size < Z.of_nat (length w))%Z /\ (size <= Z.of_nat k)%Z /\ (k <= length w)%nat)).
Proof. exact (recv_v2_sched_sound digest H deq deq_spec decode early). Qed.

(* receiver, protocol 1: acceptance implies matching digest; the size is only a lower bound
   (the legacy loop does not re-check it) *)
Theorem C02_receiver_sound_v1 : forall fuel ls size w0 w,
  recv_v1 digest H deq decode1 fuel size w0 ls = Accept w ->
  exists d, In (LMd5 digest d) ls /\ d = H w /\ (size <= Z.of_nat (length w))%Z
            /\ exists tail, w = w0 ++ tail.
Proof. exact (recv_v1_sound digest H deq deq_spec decode1). Qed.

(* no silent corruption, protocol >= 2: for every delivered line sequence AND every schedule.
   (For the code before d144b66 the statement is false: C02_no_silent_v2_old_refuted below; what held
   there were the two partial statements C02_no_silent_v2_old_no_race / _old_true_size.) *)
Theorem C02_no_silent_v2_full : forall ls size src w,
  recv_v2 digest H deq decode early size [] ls = Accept w ->
  (forall d, md5_of digest ls = Some d -> unforged digest H src w d) ->
  collision_free_on digest H src w -> w = src.
Proof. exact (recv_v2_no_silent digest H deq deq_spec decode early). Qed.

Theorem C02_no_silent_v2_old_no_race : forall ls size src w,
  early = None ->
  recv_v2_old digest H deq decode early size [] ls = Accept w ->
  (forall d, md5_of digest ls = Some d -> unforged digest H src w d) ->
  collision_free_on digest H src w -> w = src.
Proof. exact (recv_v2_sched_no_silent_no_race digest H deq deq_spec decode early). Qed.

Theorem C02_no_silent_v2_old_true_size : forall ls size src written,
  size = Z.of_nat (length src) ->
  recv_v2_old digest H deq decode early size [] ls = Accept written ->
  (forall w d, decode (frames_of digest ls) = Some w -> md5_of digest ls = Some d -> unforged digest H src w d) ->
  (forall w, decode (frames_of digest ls) = Some w -> collision_free_on digest H src w) -> written = src.
Proof. exact (recv_v2_sched_no_silent_true_size digest H deq deq_spec decode early). Qed.

Theorem C02_no_silent_v1 : forall fuel ls size src w,
  recv_v1 digest H deq decode1 fuel size [] ls = Accept w ->
  (forall d, In (LMd5 digest d) ls -> unforged digest H src w d) ->
  collision_free_on digest H src w -> w = src.
Proof. exact (recv_v1_no_silent digest H deq deq_spec decode1). Qed.

(* sender: success only after matching per-frame acks, a final ack with step = size and an
   echoed digest equal to its own *)
Theorem C02_sender_sound : forall as_ sent size mine,
  send_v2 digest deq size mine sent as_ = true ->
  exists facks rest, as_ = facks ++ rest
    /\ Forall2 (fun a n => exists s, a = AFrame digest n s) (filter (fun a => negb (is_keep digest a)) facks) sent
    /\ send_final digest deq size mine rest = true.
Proof. exact (send_v2_sound digest deq). Qed.

Theorem C02_sender_final : forall as_ size mine, send_final digest deq size mine as_ = true ->
  exists pre d rest, as_ = pre ++ AFinal digest size :: ADigest digest d :: rest /\ d = mine
    /\ Forall (fun a => a = AKeep digest \/ exists s, a = AFinal digest s /\ (s < size)%Z) pre.
Proof. exact (send_final_sound digest deq deq_spec). Qed.

(* sender, protocol 1: success only after every chunk was acknowledged by exactly its length,
   in order, followed by an echoed digest equal to its own *)
Theorem C02_sender_sound_v1 : forall sent as_ mine, send_v1 digest deq mine sent as_ = true ->
  exists d rest, as_ = map (AFinal digest) sent ++ ADigest digest d :: rest /\ d = mine.
Proof. exact (send_v1_sound digest deq deq_spec). Qed.

(* ------------------------------------------------------------------------------------------
   The whole-transfer receiver (Model/Transfer.v, the machine of C01) under ANY delivered
   message sequence.  [ft_receive] folds [tr_receiver] over the list and records one [ft_saved]
   per MD5 message the machine answers with SUCC:<digest> (= per file it reports as saved);
   the recording does not influence the machine. *)
Variable zdecomp unzl : list byte -> option (list byte).
(* the abstract external functions of the two sub-protocols composed into Model/Transfer.v: the prefix
   digest of the resume exchange, the header coding of archive entries (nothing is assumed of them) *)
Variable hx : list byte -> Resume.digest.
Variable ahdr : src -> Z -> list byte.
Variable aparse : list byte -> option (src * Z).

Theorem C02_transfer_ghost_transparent : forall c dest ms st g,
  ft_feed digest H deq zdecomp unzl hx aparse c dest st ms =
    (fst (fst (ft_run digest H deq zdecomp unzl hx aparse c dest st g ms)), snd (fst (ft_run digest H deq zdecomp unzl hx aparse c dest st g ms))).
Proof. exact (ft_run_feed digest H deq zdecomp unzl hx aparse). Qed.

(* SUCC:<digest> is only ever written in answer to an MD5 message, in the phase that waits for
   it, when the delivered value equals the digest of what was written *)
Theorem C02_transfer_answer_only_md5 : forall c dest st m x,
  In (TrSuccDigest digest x) (snd (tr_receiver digest H deq zdecomp unzl hx aparse c dest st m)) ->
  exists p w d, rs_phase st = RpMd5 p w /\ m = TrMd5 digest d /\ deq d (H w) = true /\ x = H w.
Proof. exact (ft_digest_answer digest H deq zdecomp unzl hx aparse). Qed.

(* the bridging lemma: per-file acceptance by the whole-transfer machine IS acceptance by the
   per-file decision model (recv_v2 for protocol >= 2, recv_v1 for protocol 1) of exactly the
   messages delivered for that file, with exactly the bytes the machine wrote *)
Theorem C02_transfer_bridge : forall c dest f0 sch ms sv,
  In sv (snd (ft_receive digest H deq zdecomp unzl hx aparse c dest f0 sch ms)) ->
  rs_phase (fv_before digest sv) = RpMd5 (fv_payload digest sv) (fv_content digest sv) /\
  fst (tr_receiver digest H deq zdecomp unzl hx aparse c dest (fv_before digest sv) (TrMd5 digest (fv_md5 digest sv))) = fv_after digest sv /\
  In (TrSuccDigest digest (H (fv_content digest sv)))
     (snd (tr_receiver digest H deq zdecomp unzl hx aparse c dest (fv_before digest sv) (TrMd5 digest (fv_md5 digest sv)))) /\
  ft_verdict digest H deq zdecomp unzl c sv = Accept (fv_content digest sv).
Proof. exact (ft_receive_bridge digest H deq zdecomp unzl hx aparse). Qed.

Theorem C02_transfer_receiver_sound : forall c dest f0 sch ms sv,
  In sv (snd (ft_receive digest H deq zdecomp unzl hx aparse c dest f0 sch ms)) ->
  fv_md5 digest sv = H (fv_content digest sv) /\
  (tr_pipeline c = true -> tr_blen (fv_content digest sv) = fv_size digest sv) /\
  (tr_pipeline c = false -> (fv_size digest sv <= tr_blen (fv_content digest sv))%N).
Proof. exact (ft_saved_sound digest H deq deq_spec zdecomp unzl hx aparse). Qed.

(* ... and right after the answer the (abstract) file system holds exactly these bytes at the place of
   the file: destination / local name / rest of the relative path - for a file written whole; for a
   RESUMED file (the receiver still holds the existing file, cut at its matchStep: [rs_open]) it holds the
   kept part followed by exactly these bytes.  (An archive's "file" is the entry stream; what its writer
   makes of an accepted stream is C15's subject.) *)
Theorem C02_transfer_saved_on_fs : forall c dest f0 sch ms sv,
  In sv (snd (ft_receive digest H deq zdecomp unzl hx aparse c dest f0 sch ms)) ->
  (rs_open (fv_before digest sv) = None -> tr_p_archive (fv_payload digest sv) = false ->
   exists ln, ft_leaf digest c dest sv = Some (dest ++ ln :: tr_p_tail (fv_payload digest sv)) /\
     lookup (st_fs (rs_st (fv_after digest sv))) (dest ++ ln :: tr_p_tail (fv_payload digest sv)) = Some (File (fv_content digest sv))) /\
  (forall leaf f rest, rs_open (fv_before digest sv) = Some (leaf, f, rest) ->
     lookup (st_fs (rs_st (fv_after digest sv))) leaf = Some (File (Resume.f_data (Resume.f_write f (fv_content digest sv))))).
Proof. exact (ft_receive_saved_on_fs digest H deq zdecomp unzl hx aparse). Qed.

(* C02 for the whole transfer: whatever sequence of messages is delivered, every file the
   receiver reports as saved has digest = the delivered MD5 value and (protocol >= 2) the
   announced size; hence, under the two digest hypotheses, it equals the source *)
Theorem C02_transfer_no_silent : forall c dest f0 sch ms sv src,
  In sv (snd (ft_receive digest H deq zdecomp unzl hx aparse c dest f0 sch ms)) ->
  unforged digest H src (fv_content digest sv) (fv_md5 digest sv) ->
  collision_free_on digest H src (fv_content digest sv) ->
  fv_content digest sv = src.
Proof. exact (ft_no_silent digest H deq deq_spec zdecomp unzl hx aparse). Qed.

(* the whole-transfer SENDER under ANY delivered answer sequence: every file it counts as done (the
   echo of its MD5 message accepted; [ft_send] records one [ft_done] per such file) is a file for
   which the per-file decision model says TRUE on exactly the answers delivered for it - so
   C02_sender_sound / C02_sender_final / C02_sender_sound_v1 describe what was delivered: every
   frame acknowledged with its length in order, a final ack with step = size, the own digest echoed *)
Variable zcomp : list (list byte) -> list (list byte).
Variable zl : list byte -> list byte.
Theorem C02_transfer_sender_bridge : forall c ess ms dn,
  In dn (snd (ft_send digest H deq zcomp zl hx ahdr c ess ms)) -> ft_sverdict digest H deq c dn = true.
Proof. exact (ft_send_bridge digest H deq zcomp zl hx ahdr). Qed.
End C02.

Print Assumptions C02_receiver_sound_v2.
Print Assumptions C02_receiver_sound_v1.
Print Assumptions C02_receiver_sound_v2_old.
Print Assumptions C02_no_silent_v2_full.
Print Assumptions C02_no_silent_v2_old_no_race.
Print Assumptions C02_no_silent_v2_old_true_size.
Print Assumptions C02_no_silent_v1.
Print Assumptions C02_sender_sound.
Print Assumptions C02_sender_final.
Print Assumptions C02_sender_sound_v1.
Print Assumptions C02_transfer_ghost_transparent.
Print Assumptions C02_transfer_answer_only_md5.
Print Assumptions C02_transfer_bridge.
Print Assumptions C02_transfer_receiver_sound.
Print Assumptions C02_transfer_saved_on_fs.
Print Assumptions C02_transfer_no_silent.
Print Assumptions C02_transfer_sender_bridge.

(* non-vacuity: with digest = the content itself, a clean two-frame exchange is accepted *)
Example C02_nonvacuous :
  recv_v2 (list byte) (fun x => x) list_eqb (fun fs => Some (concat fs)) None 3 []
    [LData _ [1; 2]; LData _ [3]; LData _ []; LMd5 _ [1; 2; 3]] = Accept [1; 2; 3].
Proof. vm_compute. reflexivity. Qed.
(* and a flipped payload byte with an intact digest line is rejected *)
Example C02_flip_rejected :
  recv_v2 (list byte) (fun x => x) list_eqb (fun fs => Some (concat fs)) None 3 []
    [LData _ [1; 7]; LData _ [3]; LData _ []; LMd5 _ [1; 2; 3]] = Reject.
Proof. vm_compute. reflexivity. Qed.

(* non-vacuity of the whole-transfer statements: protocol 2, binary frames (no table, no
   compression), plain names, download; digest = the content itself.  A clean delivery of
   NUM NAME SIZE DATA DATA finish MD5 records one saved file with the bytes delivered ... *)
Example C02_transfer_nonvacuous :
  let c := mkTrCfg 2 true false false 0 [] false in
  let f0 : fs := [([[100]], Dir)] in
  let ms := [TrNum _ 1; TrName _ (TrPlain [97]); TrSize _ 3; TrData _ [1; 2]; TrKeepAlive _; TrData _ [3]; TrData _ [];
             TrMd5 _ [1; 2; 3]] in
  let r := ft_receive (list byte) (fun x => x) list_eqb (fun x => Some x) (fun x => Some x) (fun x => x) (fun _ => None) c [[100]] f0 [] ms in
  (rs_phase (fst (fst r)), map (fun sv => (fv_size _ sv, fv_content _ sv, fv_md5 _ sv)) (snd r),
   lookup (st_fs (rs_st (fst (fst r)))) [[100]; [97]]) =
  (RpDone, [(3%N, [1; 2; 3], [1; 2; 3])], Some (File [1; 2; 3])).
Proof. vm_compute. reflexivity. Qed.
(* ... a flipped payload byte with an intact MD5 message records nothing and ends in the failure phase ... *)
Example C02_transfer_flip_rejected :
  let c := mkTrCfg 2 true false false 0 [] false in
  let f0 : fs := [([[100]], Dir)] in
  let ms := [TrNum _ 1; TrName _ (TrPlain [97]); TrSize _ 3; TrData _ [1; 7]; TrData _ [3]; TrData _ [];
             TrMd5 _ [1; 2; 3]] in
  let r := ft_receive (list byte) (fun x => x) list_eqb (fun x => Some x) (fun x => Some x) (fun x => x) (fun _ => None) c [[100]] f0 [] ms in
  (rs_phase (fst (fst r)), snd r) = (RpFail, []).
Proof. vm_compute. reflexivity. Qed.
(* ... a dropped frame (size 3 announced, 2 bytes delivered) with an MD5 message forged to the digest
   of the damaged content is still refused by protocol >= 2 (pipelineSaveData's step = size) ... *)
Example C02_transfer_short_rejected :
  let c := mkTrCfg 2 true false false 0 [] false in
  let f0 : fs := [([[100]], Dir)] in
  let ms := [TrNum _ 1; TrName _ (TrPlain [97]); TrSize _ 3; TrData _ [1; 2]; TrData _ []; TrMd5 _ [1; 2]] in
  let r := ft_receive (list byte) (fun x => x) list_eqb (fun x => Some x) (fun x => Some x) (fun x => x) (fun _ => None) c [[100]] f0 [] ms in
  (rs_phase (fst (fst r)), snd r) = (RpFail, []).
Proof. vm_compute. reflexivity. Qed.
(* ... and protocol 1 (every chunk decoded on its own, the loop may overshoot the announced size):
   a duplicated chunk with an MD5 message forged to the digest of the longer content IS accepted —
   the size is only a lower bound there, which is why the digest hypotheses carry the statement *)
Example C02_transfer_v1_overshoot :
  let c := mkTrCfg 0 true false false 0 [] false in
  let f0 : fs := [([[100]], Dir)] in
  let ms := [TrNum _ 1; TrName _ (TrPlain [97]); TrSize _ 3; TrData _ [1; 2]; TrData _ [1; 2]; TrMd5 _ [1; 2; 1; 2]] in
  let r := ft_receive (list byte) (fun x => x) list_eqb (fun x => Some x) (fun x => Some x) (fun x => x) (fun _ => None) c [[100]] f0 [] ms in
  (rs_phase (fst (fst r)), map (fun sv => (fv_size _ sv, fv_content _ sv)) (snd r)) = (RpDone, [(3%N, [1; 2; 1; 2])]).
Proof. vm_compute. reflexivity. Qed.

(* ------------------------------------------------------------------------------------------
   The resume exchange (protocol >= 3, overwrite onto a non-empty destination) is not part of the machine
   of Model/Transfer.v (RpUnmodelled); its model is Model/Resume.v (C08) and, with an ARBITRARY list of
   answers delivered to the sender, Model/FaultResume.v.  The digest and the size of the data phase cover
   only what is transmitted, not the kept prefix; what keeps the two ends from continuing at different
   offsets is the receiver-side check of fix 75b62fe (announced size = source size - the receiver's own
   offset; read from the source: Consts.c02_resume_rest_check).  With it: whatever answers are delivered,
   a completed exchange leaves both ends at the same offset and the destination identical to the source
   (collision-freeness on the compared prefixes, as in C08).
   Scope: the answers (receiver -> sender) are arbitrary; the HASH records and, for protocol 3, the SIZE
   line in front of them are taken as sent (a forged HASH record is the digest hypothesis of C08 again). *)
Theorem C02_resume_full :
  forall (B : N) (Hh : list byte -> Resume.digest) (src dst : list byte) (delivered : list Resume.ack) o,
    (0 < B)%N ->
    Proofs.Resume.collision_free Hh src dst ->
    FaultResume.fr_run B Hh src dst delivered = Some o ->
    FaultResume.fo_mrecv o = FaultResume.fo_msend o /\ FaultResume.fo_final o = src.
Proof. intros B Hh src dst delivered o HB. exact (Proofs.FaultResume.fr_run_identical B Hh HB src dst delivered o). Qed.
Print Assumptions C02_resume_full.

(* ------------------------------------------------------------------------------------------
   The whole fault alphabet of the resume exchange (Model/FaultResume.v fr_exchange): the hash-phase
   SIZE line (protocol 3), every HASH record, every answer - as DELIVERED, i.e. arbitrary well-formed
   records (digits substituted / inserted / deleted, match flipped, lines lost, doubled, stale) - for EVERY
   existing destination (absent / empty, proper prefix, identical, longer with the same prefix, longer or
   shorter and diverging: dst is any list).  [fr_exchange_code] interprets the three places of the code the
   outcome hinges on, read from the source: the guard on the remembered rest (>= 0: the boundary rest = 0,
   "the receiver keeps the whole destination", is INSIDE), the unconditional cut at the receiver's offset,
   and how the hash-phase SIZE line is treated.
   Digest premises, as in C08: compared prefixes do not collide; the digest in a delivered HASH record is
   the digest of some prefix of the source (its step may be damaged). *)
Theorem C02_resume_faults :
  forall (B : N) (Hh : list byte -> Resume.digest) (src dst : list byte) proto4 (d : FaultResume.fr_deliv) o,
    Proofs.FaultResume.fx_injective Hh src dst ->
    Proofs.FaultResume.fx_unforged Hh src (FaultResume.fd_hashes d) ->
    (* the size the receiver works with: protocol 4, or the SIZE line as sent, or the line is checked *)
    proto4 = true \/ FaultResume.fd_size d = Z.of_nat (length src) \/ Consts.c02_resume_size_guard = 1%N ->
    FaultResume.fr_exchange_code B Hh proto4 src dst d = Some o ->
    FaultResume.fo_mrecv o = FaultResume.fo_msend o /\ FaultResume.fo_final o = src.
Proof. exact Proofs.FaultResume.fr_exchange_code_identical. Qed.
Print Assumptions C02_resume_faults.

(* the full statement: no premise on the SIZE line *)
Definition C02_resume_faults_full : Prop :=
  forall (B : N) (Hh : list byte -> Resume.digest) (src dst : list byte) proto4 (d : FaultResume.fr_deliv) o,
    Proofs.FaultResume.fx_injective Hh src dst ->
    Proofs.FaultResume.fx_unforged Hh src (FaultResume.fd_hashes d) ->
    FaultResume.fr_exchange_code B Hh proto4 src dst d = Some o ->
    FaultResume.fo_final o = src.

(* Protocol 3 with the SIZE line used as delivered (Consts.c02_resume_size_guard = 0): source = destination
   = 1 2 3 (the receiver keeps everything: offset 3); the SIZE line 3 is delivered as 1: the remembered rest
   1 - 3 is negative, which the code reads as "no resume" and does not compare; the answer (3, match) is
   delivered as (3, no match): the sender restarts from 0, the receiver appends: 1 2 3 1 2 3, both ends
   report success.  Two faults, one per direction. *)
Theorem C02_resume_faults_size_line_refuted :
  exists (B : N) (Hh : list byte -> Resume.digest) (src dst : list byte) (d : FaultResume.fr_deliv) o,
    Proofs.FaultResume.fx_injective Hh src dst /\ Proofs.FaultResume.fx_unforged Hh src (FaultResume.fd_hashes d) /\
    FaultResume.fr_exchange B Hh 2 1 0 false src dst d = Some o /\
    FaultResume.fo_mrecv o <> FaultResume.fo_msend o /\ FaultResume.fo_final o <> src.
Proof.
  exists 64%N, (fun x => x), [1; 2; 3], [1; 2; 3],
    (FaultResume.mkFrDeliv 1 [Resume.Hash 3 [1; 2; 3]; Resume.Over] [Resume.mkAck 3 false]),
    (FaultResume.mkFrOut 3 0 [1; 2; 3] [1; 2; 3; 1; 2; 3]).
  split; [intros k m E; exact E|]. split.
  - intros step h [E|[E|[]]]; [inversion E; subst; exists 3%nat; reflexivity | discriminate].
  - split; [vm_compute; reflexivity|]. split; discriminate.
Qed.
Print Assumptions C02_resume_faults_size_line_refuted.

(* which of the two holds for the tree under verification is decided by the regenerated constant *)
Theorem C02_resume_faults_full_status :
  (Consts.c02_resume_size_guard = 1%N -> C02_resume_faults_full) /\
  (Consts.c02_resume_size_guard = 0%N -> ~ C02_resume_faults_full).
Proof.
  split.
  - intros G B Hh src dst proto4 d o Inj U R.
    exact (proj2 (Proofs.FaultResume.fr_exchange_code_identical B Hh src dst proto4 d o Inj U (or_intror (or_intror G)) R)).
  - intros G F. destruct C02_resume_faults_size_line_refuted as (B & Hh & src & dst & d & o & Inj & U & R & _ & N).
    apply N. apply (F B Hh src dst false d o Inj U).
    unfold FaultResume.fr_exchange_code. rewrite Proofs.FaultResume.resume_rest_guard_src_ok, G.
    pose proof Proofs.FaultResume.resume_truncates_src_ok as T. apply Bool.orb_true_iff in T.
    destruct T as [T|T]; apply N.eqb_eq in T; rewrite T; [|rewrite Proofs.FaultResume.fr_cut_condition_irrelevant]; exact R.
Qed.
Print Assumptions C02_resume_faults_full_status.

(* the cut at the receiver's offset may as well be made only when the existing file is longer than the size
   the receiver works with: as long as the guard on the rest is in force the outcome is the same for everything
   that can be delivered (so a source that does it that way is accepted by C02_resume_faults) *)
Theorem C02_resume_cut_condition_irrelevant :
  forall (B : N) (Hh : list byte -> Resume.digest) (src dst : list byte) sizeck proto4 (d : FaultResume.fr_deliv),
    FaultResume.fr_exchange B Hh 2 2 sizeck proto4 src dst d = FaultResume.fr_exchange B Hh 2 1 sizeck proto4 src dst d.
Proof. exact Proofs.FaultResume.fr_cut_condition_irrelevant. Qed.
Print Assumptions C02_resume_cut_condition_irrelevant.

(* the boundary rest = 0, and what the two places are there for (explicit variants of the two parameters):
   source = destination = 1 2 3, the answer (3, match) delivered as (3, no match) *)
Example C02_resume_rest_zero_boundary :
  let d := FaultResume.mkFrDeliv 3 [Resume.Hash 3 [1; 2; 3]; Resume.Over] [Resume.mkAck 3 false] in
  (* the code: refused, for protocol 3 and 4 *)
  FaultResume.fr_exchange_code 64%N (fun x => x) false [1; 2; 3] [1; 2; 3] d = None /\
  FaultResume.fr_exchange_code 64%N (fun x => x) true [1; 2; 3] [1; 2; 3] d = None /\
  (* the guard "> 0" instead of ">= 0": completes with 1 2 3 1 2 3 *)
  option_map FaultResume.fo_final (FaultResume.fr_exchange 64%N (fun x => x) 1 1 0 true [1; 2; 3] [1; 2; 3] d) = Some [1; 2; 3; 1; 2; 3] /\
  (* undamaged: completes with 1 2 3, nothing is sent *)
  option_map (fun o => (FaultResume.fo_sent o, FaultResume.fo_final o))
    (FaultResume.fr_exchange_code 64%N (fun x => x) true [1; 2; 3] [1; 2; 3] (FaultResume.fr_honest 64%N (fun x => x) [1; 2; 3] [1; 2; 3]))
    = Some ([], [1; 2; 3]).
Proof. cbv zeta. repeat split; vm_compute; reflexivity. Qed.

(* ... but only BECAUSE of the guard: source 1 2 3, destination 9 9 9 9 9 (longer, diverging); protocol 3, SIZE
   line 3 delivered as 7.  The code: the guard refuses (rest 7 against 3 announced).  Without the guard, a cut
   made only when the destination is longer than the delivered size leaves the stale tail (this was the state
   of the pinned tree plus such a change), the unconditional cut does not. *)
Example C02_resume_cut_condition_needs_guard :
  let d := FaultResume.mkFrDeliv 7 [Resume.Hash 3 [1; 2; 3]; Resume.Over] [Resume.mkAck 3 false] in
  FaultResume.fr_exchange_code 64%N (fun x => x) false [1; 2; 3] [9; 9; 9; 9; 9] d = None /\
  option_map FaultResume.fo_final (FaultResume.fr_exchange 64%N (fun x => x) 0 2 0 false [1; 2; 3] [9; 9; 9; 9; 9] d) = Some [1; 2; 3; 9; 9] /\
  option_map FaultResume.fo_final (FaultResume.fr_exchange 64%N (fun x => x) 0 1 0 false [1; 2; 3] [9; 9; 9; 9; 9] d) = Some [1; 2; 3].
Proof. cbv zeta. repeat split; vm_compute; reflexivity. Qed.

(* the lost answer of the old witness is now an error (nothing is reported as saved) *)
Example C02_resume_lost_answer_refused :
  FaultResume.fr_run 2%N (fun x => x) [1; 2; 3; 4; 5] [1; 2; 9; 9]
    (tl (FaultResume.fr_answers 2%N (fun x => x) [1; 2; 3; 4; 5] [1; 2; 9; 9])) = None /\
  exists o, FaultResume.fr_run 2%N (fun x => x) [1; 2; 3; 4; 5] [1; 2; 9; 9]
              (FaultResume.fr_answers 2%N (fun x => x) [1; 2; 3; 4; 5] [1; 2; 9; 9]) = Some o /\
            FaultResume.fo_final o = [1; 2; 3; 4; 5].
Proof. split; [vm_compute; reflexivity | eexists; split; vm_compute; reflexivity]. Qed.

(* the code before 75b62fe ([fr_run_old]): block size 2, source 1 2 3 4 5, destination 1 2 9 9; the
   receiver answers (2, match) (4, no match); the FIRST answer is lost on the way: the sender restarts
   from 0, the receiver keeps 2 bytes and appends: 1 2 1 2 3 4 5 was reported as saved *)
Theorem C02_resume_old_refuted :
  exists (B : N) (Hh : list byte -> Resume.digest) (src dst : list byte) (delivered : list Resume.ack) o,
    (0 < B)%N /\ (forall x y, Hh x = Hh y -> x = y) /\
    delivered = tl (FaultResume.fr_answers B Hh src dst) /\      (* one whole line dropped *)
    FaultResume.fr_run_old B Hh src dst delivered = Some o /\
    recv_v2 Resume.digest Hh list_eqb (fun fs => Some (concat fs)) None (Z.of_nat (length (FaultResume.fo_sent o))) []
      [LData _ (FaultResume.fo_sent o); LData _ []; LMd5 _ (Hh (FaultResume.fo_sent o))] = Accept (FaultResume.fo_sent o) /\
    FaultResume.fo_mrecv o <> FaultResume.fo_msend o /\
    FaultResume.fo_final o <> src.
Proof.
  exists 2%N, (fun x => x), [1; 2; 3; 4; 5], [1; 2; 9; 9], [Resume.mkAck 4 false],
    (FaultResume.mkFrOut 2 0 [1; 2; 3; 4; 5] [1; 2; 1; 2; 3; 4; 5]).
  split; [reflexivity|]. split; [auto|]. split; [vm_compute; reflexivity|]. split; [vm_compute; reflexivity|].
  split; [vm_compute; reflexivity|]. split; [discriminate | discriminate].
Qed.
Print Assumptions C02_resume_old_refuted.

(* the sender bridge is not vacuous: protocol 2, one file of 3 bytes sent as frames of 2 and 1 bytes *)
Example C02_transfer_sender_nonvacuous :
  let c := mkTrCfg 2 true false false 0 [] true in
  let e := mkTrEntry 0 [[97]] false [[1; 2; 3]] [] in
  let ess := [(e, mkTrSched [2]%nat 1 false [] [] None [] 0 [] 1)] in
  let ms := [TrSuccInt _ 1; TrSuccName _ [97]; TrSuccInt _ 3; TrSuccAck _ 2 0; TrKeepAlive _; TrSuccAck _ 1 3; TrSuccAck _ 0 3;
             TrSuccInt _ 2; TrSuccInt _ 3; TrSuccDigest _ [1; 2; 3]] in
  let r := ft_send (list byte) (fun x => x) list_eqb (fun x => x) (fun x => x) (fun x => x) (fun _ _ => []) c ess ms in
  (ss_phase (fst (fst r)), map (fun dn => (fd_sent _ dn, length (fd_msgs _ dn))) (snd r)) = (SpDone, [([2; 1; 0]%N, 7%nat)]).
Proof. vm_compute. reflexivity. Qed.

(* ------------------------------------------------------------------------------------------
   The race of the size check in the code before d144b66 ([recv_v2_old]).  Digest = the content itself
   (collision-free, and the MD5 message is the GENUINE one of the source [1]); the SIZE message delivered
   says 0; the acknowledger wins before a byte is saved: the receiver answered SUCC, the file was empty.
   The same lines are refused by [recv_v2] under every schedule. *)
Theorem C02_no_silent_v2_old_refuted :
  exists (early : option nat) (ls : list (line (list byte))) (size : Z) (src w : list byte),
    recv_v2_old (list byte) (fun x => x) list_eqb (fun fs => Some (concat fs)) early size [] ls = Accept w /\
    (forall d, md5_of (list byte) ls = Some d -> unforged (list byte) (fun x => x) src w d) /\
    collision_free_on (list byte) (fun x => x) src w /\
    md5_of (list byte) ls = Some src /\                 (* the digest delivered is the source's *)
    w <> src /\
    recv_v2 (list byte) (fun x => x) list_eqb (fun fs => Some (concat fs)) early size [] ls = Reject.
Proof.
  exists (Some 0%nat), [LData _ [1]; LData _ []; LMd5 _ [1]], 0%Z, [1], [].
  split; [vm_compute; reflexivity|]. split; [|split; [|split; [reflexivity | split; [discriminate | vm_compute; reflexivity]]]].
  - intros d M. cbn in M. inversion M; subst d. unfold unforged. discriminate.
  - unfold collision_free_on. discriminate.
Qed.
Print Assumptions C02_no_silent_v2_old_refuted.
