(* C02 — No silent corruption: a damaged stream is never reported as saved.
   The theorems are about the message-level decision logic of Model/Protocol.v; they hold
   for ANY sequence of delivered lines (any combination of altered, dropped, duplicated,
   inserted or truncated bytes yields SOME sequence of lines, or an unparsable one, which
   is [LOther]).  MD5 is the abstract function H; the two digest hypotheses are premises. *)
From Trzsz Require Import Base.Bytes Model.Protocol Proofs.Protocol.
From Coq Require Import ZArith.

Section C02.
Variable digest : Type.
Variable H : list byte -> digest.
Variable deq : digest -> digest -> bool.
Hypothesis deq_spec : forall a b, deq a b = true <-> a = b.
Variable decode decode1 : list byte -> option (list byte).

(* receiver, protocol >= 2: acceptance implies exact size, decodable stream, matching digest *)
Theorem C02_receiver_sound_v2 : forall ls size acc w,
  recv_v2 digest H deq decode size acc ls = Accept w ->
  decode (acc ++ frames_of digest ls) = Some w /\ Z.of_nat (length w) = size
  /\ md5_of digest ls = Some (H w).
Proof. exact (recv_v2_sound digest H deq deq_spec decode). Qed.

(* receiver, protocol 1: acceptance implies matching digest; the size is only a lower bound
   (the legacy loop does not re-check it) *)
Theorem C02_receiver_sound_v1 : forall fuel ls size w0 w,
  recv_v1 digest H deq decode1 fuel size w0 ls = Accept w ->
  exists d, In (LMd5 digest d) ls /\ d = H w /\ (size <= Z.of_nat (length w))%Z
            /\ exists tail, w = w0 ++ tail.
Proof. exact (recv_v1_sound digest H deq deq_spec decode1). Qed.

(* no silent corruption for every delivered line sequence *)
Theorem C02_no_silent_v2 : forall ls size src w,
  recv_v2 digest H deq decode size [] ls = Accept w ->
  (forall d, md5_of digest ls = Some d -> unforged digest H src w d) ->
  collision_free_on digest H src w -> w = src.
Proof. exact (recv_v2_no_silent digest H deq deq_spec decode). Qed.

Theorem C02_no_silent_v1 : forall fuel ls size src w,
  recv_v1 digest H deq decode1 fuel size [] ls = Accept w ->
  (forall d, In (LMd5 digest d) ls -> unforged digest H src w d) ->
  collision_free_on digest H src w -> w = src.
Proof. exact (recv_v1_no_silent digest H deq deq_spec decode1). Qed.

(* sender: success only after matching per-frame acks, a final ack with step = size and an
   echoed digest equal to its own *)
Theorem C02_sender_sound : forall sent as_ size mine,
  send_v2 digest deq size mine sent as_ = true ->
  exists facks rest, as_ = facks ++ rest /\ length facks = length sent
    /\ Forall2 (fun a n => exists s, a = AFrame digest n s) facks sent
    /\ send_final digest deq size mine rest = true.
Proof. exact (send_v2_sound digest deq). Qed.

Theorem C02_sender_final : forall as_ size mine, send_final digest deq size mine as_ = true ->
  exists pre d rest, as_ = pre ++ AFinal digest size :: ADigest digest d :: rest /\ d = mine
    /\ Forall (fun a => exists s, a = AFinal digest s /\ (s < size)%Z) pre.
Proof. exact (send_final_sound digest deq deq_spec). Qed.
End C02.

Print Assumptions C02_receiver_sound_v2.
Print Assumptions C02_receiver_sound_v1.
Print Assumptions C02_no_silent_v2.
Print Assumptions C02_no_silent_v1.
Print Assumptions C02_sender_sound.
Print Assumptions C02_sender_final.

(* non-vacuity: with digest = the content itself, a clean two-frame exchange is accepted *)
Example C02_nonvacuous :
  recv_v2 (list byte) (fun x => x) list_eqb (fun x => Some x) 3 []
    [LData _ [1; 2]; LData _ [3]; LData _ []; LMd5 _ [1; 2; 3]] = Accept [1; 2; 3].
Proof. vm_compute. reflexivity. Qed.
(* and a flipped payload byte with an intact digest line is rejected *)
Example C02_flip_rejected :
  recv_v2 (list byte) (fun x => x) list_eqb (fun x => Some x) 3 []
    [LData _ [1; 7]; LData _ [3]; LData _ []; LMd5 _ [1; 2; 3]] = Reject.
Proof. vm_compute. reflexivity. Qed.
