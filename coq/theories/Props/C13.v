(* C13 — A relay never loses, duplicates or reorders bytes, under any scheduling.
   Only the property theorems; each is closed by a lemma of Proofs/Relay.v.
   [reach tm (init cs ss) s]: s is reachable in the interleaving model of relay.go
   (Model/Relay.v) from the initial state with client chunks cs and server chunks ss still
   to arrive, by ANY sequence of steps of the input reader, the output reader, the
   handshake worker(s) and the deferred unlock, with ANY detector behaviour, line
   consumption, handshake outcome (confirm / cancel / malformed ACT / malformed CFG),
   end-marker detection, and any number of transfers.  tm = relay runs inside tmux
   (bypassTmuxChan is a channel of its own). *)
From Trzsz Require Import Base.Bytes Base.Skel Gen.Consts Gen.Skel_relay Model.Relay Proofs.Relay.
Import List ListNotations.

(* conservation in both directions: decided part of the input ++ the worker's popped
   chunk ++ parked bytes ++ the reader's chunk ++ what has not arrived = the input, and
   each log = the decided part with eaten lines removed and the relay's lines inserted *)
Theorem C13_inv : forall tm cs ss s, reach tm (init cs ss) s ->
  conserved_I (concat cs) s /\ conserved_O (concat ss) s.
Proof. exact relay_conserved. Qed.
Print Assumptions C13_inv.

(* the auxiliary facts the invariant is inductive with *)
Theorem C13_aux : forall tm cs ss s, reach tm (init cs ss) s ->
  lock_discipline s /\ handshaking_iff_worker s /\ parked_only_while_handshaking s /\ status_read_still_current s.
Proof. exact relay_aux. Qed.
Print Assumptions C13_aux.

(* the bytes that were passed on are, in their original order, a subsequence both of what
   the client sent and of what the server-side writer received *)
Theorem C13_order : forall tm cs ss s, reach tm (init cs ss) s ->
  subseq (passedI (hI s)) (concat cs) /\ subseq (passedI (hI s)) (slog s).
Proof. exact relay_order. Qed.
Print Assumptions C13_order.

(* any predicate true of every client byte and of every line the relay writes toward the
   server is true of every byte the server receives (take "is not a byte of the server's
   output"); the client-side logs only hold detector outputs, flushed server chunks and
   the relay's own lines *)
Theorem C13_no_cross : forall tm cs ss s (P : byte -> Prop), reach tm (init cs ss) s ->
  (Forall P (concat cs) -> Forall (insI_all P) (hI s) -> Forall P (slog s)) /\
  (Forall (outO_all P) (hO s) -> Forall P (clog s) /\ Forall P (blog s)).
Proof. exact relay_no_cross. Qed.
Print Assumptions C13_no_cross.

(* as long as the detector has not fired: toward the server the identity; toward the
   client the identity provided the detector returned every chunk unchanged (C06) *)
Theorem C13_standby_identity : forall tm cs ss s, reach tm (init cs ss) s -> trg s = false ->
  slog s ++ inflightI (ipc s) ++ concat (cin s) = concat cs /\
  (Forall passO_same (hO s) ->
   clog s ++ inflightO (opc s) ++ concat (sin s) = concat ss /\ blog s = []).
Proof. exact relay_standby_identity. Qed.
Print Assumptions C13_standby_identity.

(* the same model without the re-read of the status under the lock reaches a state in
   which a chunk is parked in standby and a later chunk has overtaken it *)
Theorem C13_recheck_needed :
  exists cs ss sched s, run false false sched (init cs ss) = Some s /\ ~ conserved_I (concat cs) s
    /\ slog s = [7; 3] /\ flat (ibr s) (ibq s) = [2] /\ st s = StS.
Proof. exact recheck_needed. Qed.
Print Assumptions C13_recheck_needed.

(* the program points of the model are those of the current source *)
Theorem C13_skeleton : Skel_relay.relay_skel = Relay.expected_skel.
Proof. exact skel_matches. Qed.
Print Assumptions C13_skeleton.

(* non-vacuity: a complete confirmed transfer followed by the return to standby is a path
   of the model (trigger, ACT eaten and rewritten, CFG eaten and rewritten, a parked chunk
   flushed, end marker) *)
Example C13_nonvacuous :
  exists s, run true false
    [ LOutRead; LOutLoad; LOutDetect [9; 9] true; LOutStoreH; LOutGo; LOutSend;
      LInRead; LInLoad; LInLock; LInReload; LInAdd; LInUnlockP;
      LHsAct 2 RdOk; LHsSendAct [7] true;
      LOutRead; LOutLoad; LOutLock; LOutReload; LOutAdd; LOutUnlockP;
      LHsCfg 1 RdOk; LHsSendCfg [8];
      LHsLock; LHsPopI; LHsSendI; LHsPopI; LHsPopO; LHsSendO; LHsPopO; LHsDone; LTlUnlock;
      LOutRead; LOutLoad; LOutBypass; LOutEnd true ]
    (init [[1; 10; 2]] [[9]; [5; 6]; [4]]) = Some s
  /\ slog s = [7; 2] /\ clog s = [9; 9; 8; 6; 4] /\ st s = StS.
Proof. eexists. split; [vm_compute; reflexivity|]. repeat split. Qed.

(* ---- trace validation (the tie to the executions actually observed) ----
   [rv_run tm es 0 (init cs ss)] replays a trace [es] recorded by the overlay build of the
   real relay (one event per synchronisation operation executed, with the observed value;
   Model/Relay.v lists the event <-> label mapping).  If it is accepted, the trace stands for
   a label sequence that is a path of the model from the initial state, and the state after
   EVERY prefix of the trace is reachable, so C13_inv and C13_aux hold along the execution
   that was observed.  The harness additionally compares the final [slog]/[clog]/[blog] with
   the bytes the real writers received. *)
Theorem C13_trace_sound : forall tm cs ss es s, rv_run tm es O (init cs ss) = RvOk s ->
  (exists ls, rv_path tm es (init cs ss) = Some ls /\ run true tm ls (init cs ss) = Some s) /\
  forall k, exists sk, rv_run tm (firstn k es) O (init cs ss) = RvOk sk /\ reach tm (init cs ss) sk /\
    conserved_I (concat cs) sk /\ conserved_O (concat ss) sk /\
    lock_discipline sk /\ handshaking_iff_worker sk /\ parked_only_while_handshaking sk /\ status_read_still_current sk.
Proof. exact relay_trace_sound. Qed.
Print Assumptions C13_trace_sound.

(* if it is rejected at event j, the first j events are a path of the model, the model state
   in front of event j is reachable, and event j is not an enabled step there with the
   observed value: a disagreement between model and code about exactly that operation *)
Theorem C13_trace_rejected : forall tm cs ss es j sb, rv_run tm es O (init cs ss) = RvBad j sb ->
  rv_run tm (firstn j es) O (init cs ss) = RvOk sb /\ reach tm (init cs ss) sb /\
  (exists e, nth_error es j = Some e /\ rv_step tm e sb = None).
Proof. exact relay_trace_rejected. Qed.
Print Assumptions C13_trace_rejected.

(* non-vacuity: the observed form of the transfer of C13_nonvacuous is accepted ... *)
Definition C13_trace_example : list rv_ev :=
  let S := status_code StS in let H := status_code StH in let T := status_code StT in
  [ RvRead RvOut [9]; RvLoad RvOut S; RvDetect [9; 9] true; RvScope false; RvStore RvOut H; RvGo;
    RvSend RvOut RvCli [9; 9] false;
    RvRead RvIn [1; 10; 2]; RvLoad RvIn H; RvLock RvIn false; RvReload RvIn H; RvScope false;
    RvAdd RvIn [1; 10; 2]; RvUnlock RvIn;
    RvEat RvBufI 2; RvRes RvBufI true; RvScope false; RvSend RvHs RvSrv [7] true;
    RvRead RvOut [5; 6]; RvLoad RvOut H; RvLock RvOut false; RvReload RvOut H; RvAdd RvOut [5; 6]; RvUnlock RvOut;
    RvEat RvBufO 1; RvRes RvBufO true; RvSend RvHs RvByp [8] false;
    RvLock RvHs true; RvPop RvBufI (Some [2]); RvSend RvHs RvSrv [2] false; RvPop RvBufI None;
    RvPop RvBufO (Some [6]); RvSend RvHs RvByp [6] false; RvPop RvBufO None; RvStore RvHs T; RvUnlock RvHs;
    RvRead RvOut [4]; RvLoad RvOut T; RvSend RvOut RvByp [4] false; RvCas RvOut T true ].

Example C13_trace_nonvacuous :
  exists s, rv_run false C13_trace_example O (init [[1; 10; 2]] [[9]; [5; 6]; [4]]) = RvOk s
  /\ slog s = [7; 2] /\ clog s = [9; 9; 8; 6; 4] /\ st s = StS.
Proof. eexists. split; [vm_compute; reflexivity|]. repeat split. Qed.

(* ... a load that did not return the current status is rejected (event 1), so is parking a
   chunk without the re-read under the lock (event 10: addBuffer right after Lock), a
   flush that stores the new status before it pops the server side (event 4 of the flush),
   and a trigger forwarded before the status store (event 3) *)
Example C13_trace_rejects :
  (exists sb, rv_run false [RvRead RvOut [9]; RvLoad RvOut (status_code StH)] O (init [] [[9]]) = RvBad 1 sb) /\
  (exists sb, rv_run false
     [ RvRead RvOut [9]; RvLoad RvOut (status_code StS); RvDetect [9] true; RvScope false;
       RvStore RvOut (status_code StH); RvGo; RvSend RvOut RvCli [9] false;
       RvRead RvIn [1]; RvLoad RvIn (status_code StH); RvLock RvIn false; RvAdd RvIn [1] ]
     O (init [[1]] [[9]]) = RvBad 10 sb) /\
  (exists sb, rv_run false
     [ RvRead RvOut [9]; RvLoad RvOut (status_code StS); RvDetect [9] true; RvSend RvOut RvCli [9] false ]
     O (init [] [[9]]) = RvBad 3 sb) /\
  (exists sb, rv_run false
     [ RvRead RvOut [9]; RvLoad RvOut (status_code StS); RvDetect [9] true;
       RvStore RvOut (status_code StH); RvGo; RvSend RvOut RvCli [9] false;
       RvRes RvBufI false; RvSend RvHs RvByp [5] false; RvSend RvHs RvSrv [5] false;
       RvLock RvHs false; RvPop RvBufI None; RvCas RvHs (status_code StH) true ]
     O (init [] [[9]]) = RvBad 11 sb).
Proof. repeat split; eexists; vm_compute; reflexivity. Qed.

(* ---- the reset guard (repeated transfers, a reset request decided for an earlier state) ----
   [rg_step ug] is the model with resetToStandby's CompareAndSwap(expected, standby) replaced,
   for ug = true, by a reset from whatever state the relay is in.  The guarded variant is the
   faithful model (so C13_inv .. C13_standby_identity are statements about it); the current
   source has the guard (read off the regenerated skeleton); without it a stale reset of the
   input reader -- decided while transfer 1 was transferring, executed after transfer 2's
   trigger -- leaves a server chunk parked in standby and a later one overtakes it. *)
Theorem C13_reset_guard_is_model : forall tm ls s, rg_run false tm ls s = run true tm ls s.
Proof. exact rg_run_guarded. Qed.
Print Assumptions C13_reset_guard_is_model.

Theorem C13_reset_guard_present : rg_current = false /\ rg_unguarded Skel_relay.relay_skel = rg_current.
Proof. exact reset_guard_ok. Qed.
Print Assumptions C13_reset_guard_present.

Theorem C13_reset_guard_needed :
  exists cs ss sched s, rg_run true false sched (init cs ss) = Some s /\ ~ conserved_O (concat ss) s
    /\ clog s = [9; 102; 7; 9; 6] /\ flat (obr s) (obq s) = [8] /\ st s = StS /\ rg_stranded s = true.
Proof. exact reset_guard_needed. Qed.
Print Assumptions C13_reset_guard_needed.

(* ---- where "handshaking" is published (the status relative to the first forwarded byte of a
   new transfer) ----
   [rp_step late] is the model with the store of kRelayHandshaking moved, for late = true, from
   the output reader (in front of `go r.handshake()` and of the forward of the trigger) into
   the first step of the worker.  The early variant is the faithful model; the current source
   is the early one (regenerated from wrapOutput / handshake); with the late one there is a
   schedule -- the client answers at once, the input reader runs between the forward of the
   trigger and the worker's first step -- after which the ACT line is at the server raw, the
   server's CFG is parked and NO thread of the relay can move: the bytes are never delivered. *)
Theorem C13_publish_is_model : forall tm ls s,
  rp_run false false tm (map RpL ls) (false, s) = rp_keep false (run true tm ls s).
Proof. exact rp_run_early. Qed.
Print Assumptions C13_publish_is_model.

Theorem C13_publish_before_forward_present :
  rp_current = false /\ Consts.relay_handshaking_stored_by_worker = false.
Proof. exact publish_ok. Qed.
Print Assumptions C13_publish_before_forward_present.

Theorem C13_publish_before_forward_needed :
  exists cs ss sched ps, rp_run true false false sched (false, init cs ss) = Some ps
    /\ slog (snd ps) = [1; 3; 10] /\ clog (snd ps) = [9] /\ flat (obr (snd ps)) (obq (snd ps)) = [2; 10]
    /\ cin (snd ps) = [] /\ sin (snd ps) = [] /\ st (snd ps) = StH /\ rp_holds (snd ps) = true
    /\ forall m th, rp_move true false false th (m, ps) = None.
Proof. exact publish_before_forward_needed. Qed.
Print Assumptions C13_publish_before_forward_needed.
