(* C06 — A trigger starts exactly one transfer; look-alikes and replays start none. *)
From Coq Require Import String.
From Trzsz Require Import Base.Bytes Gen.Consts Model.Detector Proofs.Detector.

Theorem C06_regex_sources_pinned :
  Consts.det_trzsz_regex_src = marker ++ bs "([SRD]):(\d+\.\d+\.\d+)(:\d+)?(:\d+)?"%string.
Proof. exact trzsz_regex_src_ok. Qed.
Print Assumptions C06_regex_sources_pinned.
