(* C06 — A trigger starts exactly one transfer; look-alikes and replays start none.
   This file contains only the property theorems; each is closed by a lemma of
   Proofs/Detector.v and followed by Print Assumptions. *)
From Coq Require Import String.
From Trzsz Require Import Base.Bytes Gen.Consts Model.Detector Proofs.Detector.
Local Open Scope N_scope.

(* the three regex sources, whose meaning the model's matchers hard-code, are what the
   code says today (regenerated from comm.go on every run) *)
Theorem C06_regex_sources_pinned :
  Consts.det_trzsz_regex_src = marker ++ bs "([SRD]):(\d+\.\d+\.\d+)(:\d+)?(:\d+)?" /\
  Consts.det_uid_regex_src = marker ++ bs "[SRD]:\d+\.\d+\.\d+:(\d{13}\d*)" /\
  Consts.det_tmux_regex_src = bs "((%output %\d+ )|(%extended-output %\d+ \d+ : )).*" ++ marker.
Proof. exact (conj trzsz_regex_src_ok (conj uid_regex_src_ok tmux_regex_src_ok)). Qed.
Print Assumptions C06_regex_sources_pinned.

(* no trigger => the detector state is untouched and the bytes pass unchanged: in client
   mode and plain relay mode literally, in relay+tmux mode after the id re-tagging (what
   TestRelayDetector pins), for every buffer, flag combination and id table *)
Theorem C06_silent : forall winenv d tunnel buf out d',
  detect winenv d tunnel buf = (out, None, d') ->
  d' = d /\ out = if d_relay d && d_tmux d then rewrite_trigger buf else buf.
Proof. exact silent. Qed.
Print Assumptions C06_silent.

(* whenever a client-mode detector fires, what it shows locally contains no trigger
   marker any more, so NO detector further along the path (client or relay, any flags,
   any id table) reacts to it, and it passes through them unchanged *)
Theorem C06_client_rewrite_inert : forall winenv d tunnel buf out t d', d_relay d = false ->
  detect winenv d tunnel buf = (out, Some t, d') ->
  last_index_of marker out = None /\
  forall winenv2 d2 tunnel2, detect winenv2 d2 tunnel2 out = (out, None, d2).
Proof. exact client_rewrite_inert. Qed.
Print Assumptions C06_client_rewrite_inert.

(* over the WHOLE history of calls one detector has seen (any buffers, any tunnel flags,
   any number of prunings of the id table): a trigger whose dedup-eligible id is among the
   replay_window (= 52 >= 50) most recently accepted eligible ids is never accepted again.
   hist_run returns the detector after the calls and the accepted eligible ids, newest first. *)
Theorem C06_replay : forall winenv relay tmux calls d acc,
  hist_run winenv (new_det relay tmux) calls = (d, acc) ->
  forall tunnel buf out tr d', detect winenv d tunnel buf = (out, Some tr, d') ->
  dedup_eligible winenv (t_id tr) = true -> ~ In (t_id tr) (firstn replay_window acc).
Proof. exact replay. Qed.
Print Assumptions C06_replay.

Example C06_replay_window : replay_window = 52%nat /\ (50 <= replay_window)%nat.
Proof. split; [reflexivity | vm_compute; repeat constructor]. Qed.

(* non-vacuity: the redraw of a tmux trigger (id ...20) is accepted once and then ignored *)
Example C06_replay_nonvacuous :
  let line := trigger_line 82 (1, 1, 6) 123456789020 0 in
  let '(d1, acc1) := hist_run false (new_det false false) [(false, line)] in
  acc1 = [[48; 49; 50; 51; 52; 53; 54; 55; 56; 57; 48; 50; 48]] /\
  dedup_eligible false (hd [] acc1) = true /\
  snd (fst (detect false d1 false line)) = None.
Proof. vm_compute. auto. Qed.
