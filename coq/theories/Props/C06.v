(* C06 — A trigger starts exactly one transfer; look-alikes and replays start none.
   This file contains only the property theorems; each is closed by a lemma of
   Proofs/Detector.v and followed by Print Assumptions. *)
From Coq Require Import String.
From Trzsz Require Import Base.Bytes Gen.Consts Model.Detector Proofs.Detector.
Local Open Scope N_scope.

(* the three regex sources, whose meaning the model's matchers hard-code, are what the
   code says today (regenerated from comm.go on every run) *)
Theorem C06_regex_sources_pinned :
  Consts.det_trzsz_regex_src = marker ++ bs "([SRD]):(\d+\.\d+\.\d+)(:\d+)?(:\d+)?" /\
  Consts.det_uid_regex_src = marker ++ bs "[SRD]:\d+\.\d+\.\d+:(\d{13}\d*)" /\
  Consts.det_tmux_regex_src = bs "((%output %\d+ )|(%extended-output %\d+ \d+ : )).*" ++ marker.
Proof. exact (conj trzsz_regex_src_ok (conj uid_regex_src_ok tmux_regex_src_ok)). Qed.
Print Assumptions C06_regex_sources_pinned.

(* the numbers and strings the theorems below are parametric in are the documented ones *)
Theorem C06_constants_pinned :
  Consts.det_min_len = 24 /\ marker = bs "::TRZSZ:TRANSFER:" /\ Consts.det_finished_offset = 40 /\
  Consts.det_finished_words = [bs "#CFG:"; bs "Saved"; bs "Cancelled"; bs "Stopped"; bs "Interrupted"] /\
  Consts.det_prune_limit = 100 /\ Consts.det_prune_keep = 50 /\
  Consts.det_id_min_len = 6 /\ Consts.det_plain_id_len = 13 /\ Consts.det_plain_suffix = bs "00" /\
  Consts.det_win_id = bs "1" /\ Consts.det_win_id_len = 13 /\ Consts.det_win_suffix = bs "10" /\
  Consts.det_rewrite_min_len = 13 /\ Consts.det_rewrite_suffix = bs "00" /\
  Consts.det_retag_back = 2 /\ Consts.det_retag_char = 50 /\
  Consts.det_relay_offset = 20 /\ Consts.det_relay_suffix = bs "#R" /\
  Consts.det_client_old = bs "TRZSZ" /\ Consts.det_client_new = bs "TRZSZGO" /\
  Consts.det_version_bits = 32.
Proof. exact detector_consts_pinned. Qed.
Print Assumptions C06_constants_pinned.

(* no trigger => the detector state is untouched and the bytes pass unchanged: in client
   mode and plain relay mode literally, in relay+tmux mode after the id re-tagging (what
   TestRelayDetector pins), for every buffer, flag combination and id table *)
Theorem C06_silent : forall winenv d tunnel buf out d',
  detect winenv d tunnel buf = (out, None, d') ->
  d' = d /\ out = if d_relay d && d_tmux d then rewrite_trigger buf else buf.
Proof. exact silent. Qed.
Print Assumptions C06_silent.

(* whenever a client-mode detector fires, what it shows locally contains no trigger
   marker any more, so NO detector further along the path (client or relay, any flags,
   any id table) reacts to it, and it passes through them unchanged *)
Theorem C06_client_rewrite_inert : forall winenv d tunnel buf out t d', d_relay d = false ->
  detect winenv d tunnel buf = (out, Some t, d') ->
  last_index_of marker out = None /\
  forall winenv2 d2 tunnel2, detect winenv2 d2 tunnel2 out = (out, None, d2).
Proof. exact client_rewrite_inert. Qed.
Print Assumptions C06_client_rewrite_inert.

(* over the WHOLE history of calls one detector has seen (any buffers, any tunnel flags,
   any number of prunings of the id table): a trigger whose dedup-eligible id is among the
   replay_window (= 52 >= 50) most recently accepted eligible ids is never accepted again.
   hist_run returns the detector after the calls and the accepted eligible ids, newest first. *)
Theorem C06_replay : forall winenv relay tmux calls d acc,
  hist_run winenv (new_det relay tmux) calls = (d, acc) ->
  forall tunnel buf out tr d', detect winenv d tunnel buf = (out, Some tr, d') ->
  dedup_eligible winenv (t_id tr) = true -> ~ In (t_id tr) (firstn replay_window acc).
Proof. exact replay. Qed.
Print Assumptions C06_replay.

Example C06_replay_window : replay_window = 52%nat /\ (50 <= replay_window)%nat.
Proof. split; [reflexivity | vm_compute; repeat constructor]. Qed.

(* non-vacuity: the redraw of a tmux trigger (id ...20) is accepted once and then ignored *)
Example C06_replay_nonvacuous :
  let line := trigger_line 82 (1, 1, 6) 123456789020 0 in
  let '(d1, acc1) := hist_run false (new_det false false) [(false, line)] in
  acc1 = [[48; 49; 50; 51; 52; 53; 54; 55; 56; 57; 48; 50; 48]] /\
  dedup_eligible false (hd [] acc1) = true /\
  snd (fst (detect false d1 false line)) = None.
Proof. vm_compute. auto. Qed.

(* ---- the trigger language ----
   trigger_text m txt : txt is marker, mode in SRD, ':', a.b.c (non-empty digit strings),
   optionally ':' id, optionally (only after an id) ':' port, and m carries those fields.
   greedy_end m rest : rest cannot extend the last field nor add one. *)

(* the anchored matcher for trzszRegexp accepts exactly that language, reports its fields
   and the unconsumed rest *)
Theorem C06_matcher_spec : forall l m rest,
  trzsz_at l = Some (m, rest) <->
  exists txt, trigger_text m txt /\ l = txt ++ rest /\ greedy_end m rest.
Proof. exact matcher_spec. Qed.
Print Assumptions C06_matcher_spec.

(* FindSubmatch = the leftmost anchored match *)
Theorem C06_matcher_leftmost : forall l m, find_trzsz l = Some m <->
  exists i rest, trzsz_at (skipn i l) = Some (m, rest) /\
                 forall j, (j < i)%nat -> trzsz_at (skipn j l) = None.
Proof. exact find_trzsz_spec. Qed.
Print Assumptions C06_matcher_leftmost.

(* parseTrzszVersion on the version text of a trigger: three fields below 2^32, else none *)
Theorem C06_version : forall a b c, dstr a -> dstr b -> dstr c ->
  parse_version (vtext a b c) =
  if fits a && fits b && fits c then Some (dec_value a, dec_value b, dec_value c) else None.
Proof. exact parse_version_vtext. Qed.
Print Assumptions C06_version.

(* A complete trigger after ARBITRARY other output in the same read starts exactly the
   advertised transfer.  All four relay/tmux combinations, both tunnel flags, both
   windows-environment flags, any id table.  [out] is the buffer as the detector looks at
   it (re-tagged in relay+tmux mode, else the buffer itself).  Premises: the trigger text
   is the last marker; no control-mode framing (or tunnel and a port); no finished-transfer
   word from offset 40; version fields fit; the id is fresh if it is dedup-eligible.
   Conclusion: exactly the trigger with its mode/version/id/port, the local form
   (client: TRZSZ->TRZSZGO everywhere; relay: "#R" behind the trigger's field run), and
   the id table afterwards.  At most one trigger per call holds by type. *)
Theorem C06_fires : forall winenv d tunnel buf pre m txt tail ver,
  let out := if d_relay d && d_tmux d then rewrite_trigger buf else buf in
  (nlen buf <? Consts.det_min_len) = false ->
  last_index_of marker buf <> None ->
  out = pre ++ txt ++ tail ->
  trigger_text m txt -> greedy_end m tail ->
  last_index_of marker (txt ++ tail) = Some O ->
  (find_tmux out = None \/ (tunnel = true /\ m_port m <> None)) ->
  finished (skipn (N.to_nat Consts.det_finished_offset) (txt ++ tail)) = false ->
  parse_version (m_ver m) = Some ver ->
  (dedup_eligible winenv (id_value (m_id m)) = true -> map_find (d_map d) (id_value (m_id m)) = None) ->
  detect winenv d tunnel buf =
    (if d_relay d then add_relay_suffix out (length pre)
     else replace_all Consts.det_client_old Consts.det_client_new out,
     Some {| t_mode := m_mode m; t_version := ver; t_id := id_value (m_id m);
             t_win := win_server (id_value (m_id m)); t_port := port_value (m_port m);
             t_prefix := match find_tmux out with Some p => p | None => [] end |},
     set_map d (snd (is_repeated winenv (d_map d) (id_value (m_id m))))).
Proof. exact fires_core. Qed.
Print Assumptions C06_fires.

(* the same for the three flag combinations without re-tagging, stated on the buffer itself *)
Theorem C06_fires_plain : forall winenv d tunnel pre m txt tail ver,
  d_relay d && d_tmux d = false ->
  trigger_text m txt -> greedy_end m tail ->
  last_index_of marker (txt ++ tail) = Some O ->
  (find_tmux (pre ++ txt ++ tail) = None \/ (tunnel = true /\ m_port m <> None)) ->
  finished (skipn (N.to_nat Consts.det_finished_offset) (txt ++ tail)) = false ->
  parse_version (m_ver m) = Some ver ->
  (dedup_eligible winenv (id_value (m_id m)) = true -> map_find (d_map d) (id_value (m_id m)) = None) ->
  detect winenv d tunnel (pre ++ txt ++ tail) =
    (if d_relay d then add_relay_suffix (pre ++ txt ++ tail) (length pre)
     else replace_all Consts.det_client_old Consts.det_client_new (pre ++ txt ++ tail),
     Some {| t_mode := m_mode m; t_version := ver; t_id := id_value (m_id m);
             t_win := win_server (id_value (m_id m)); t_port := port_value (m_port m);
             t_prefix := match find_tmux (pre ++ txt ++ tail) with Some p => p | None => [] end |},
     set_map d (snd (is_repeated winenv (d_map d) (id_value (m_id m))))).
Proof. exact fires_plain. Qed.
Print Assumptions C06_fires_plain.

(* the same with PRIMITIVE premises: arbitrary bytes before the trigger (earlier markers
   and complete triggers included), no marker behind it, no '%' in the read (so no
   control-mode framing).  Relay output is explicit: "#R" behind the tail's [:.0-9] run. *)
Theorem C06_fires_clean : forall winenv d tunnel pre m txt tail ver,
  d_relay d && d_tmux d = false ->
  trigger_text m txt -> greedy_end m tail ->
  contains marker tail = false ->
  ~ In 37 (pre ++ txt ++ tail) ->
  finished (skipn (N.to_nat Consts.det_finished_offset) (txt ++ tail)) = false ->
  parse_version (m_ver m) = Some ver ->
  (dedup_eligible winenv (id_value (m_id m)) = true -> map_find (d_map d) (id_value (m_id m)) = None) ->
  detect winenv d tunnel (pre ++ txt ++ tail) =
    (if d_relay d then pre ++ txt ++ fst (span_relay tail) ++ Consts.det_relay_suffix ++ snd (span_relay tail)
     else replace_all Consts.det_client_old Consts.det_client_new (pre ++ txt ++ tail),
     Some {| t_mode := m_mode m; t_version := ver; t_id := id_value (m_id m);
             t_win := win_server (id_value (m_id m)); t_port := port_value (m_port m); t_prefix := [] |},
     set_map d (snd (is_repeated winenv (d_map d) (id_value (m_id m))))).
Proof. exact fires_clean. Qed.
Print Assumptions C06_fires_clean.

(* "the trigger is the last marker" follows from "no marker in the tail" *)
Theorem C06_last_marker : forall m txt tail, trigger_text m txt -> contains marker tail = false ->
  last_index_of marker (txt ++ tail) = Some O.
Proof. exact last_marker_clean. Qed.
Print Assumptions C06_last_marker.

(* what the relay's "#R" does to a complete trigger *)
Theorem C06_relay_suffix : forall pre m txt tail, trigger_text m txt ->
  add_relay_suffix (pre ++ txt ++ tail) (length pre) =
  pre ++ txt ++ fst (span_relay tail) ++ Consts.det_relay_suffix ++ snd (span_relay tail).
Proof. exact add_relay_suffix_shape. Qed.
Print Assumptions C06_relay_suffix.

(* scroll-back of a finished transfer never starts one: ANY buffer whose last marker is
   followed, from offset 40, by #CFG: / Saved / Cancelled / Stopped / Interrupted *)
Theorem C06_finished : forall winenv d tunnel buf idx,
  let out := if d_relay d && d_tmux d then rewrite_trigger buf else buf in
  last_index_of marker out = Some idx ->
  finished (skipn (N.to_nat Consts.det_finished_offset) (skipn idx out)) = true ->
  detect winenv d tunnel buf = (out, None, d).
Proof. exact finished_none. Qed.
Print Assumptions C06_finished.

(* tmux control-mode framing in front of a marker, no tunnel: never a trigger (any buffer) *)
Theorem C06_ctrl_mode : forall winenv d buf p,
  let out := if d_relay d && d_tmux d then rewrite_trigger buf else buf in
  find_tmux out = Some p -> detect winenv d false buf = (out, None, d).
Proof. exact ctrl_mode_none. Qed.
Print Assumptions C06_ctrl_mode.

(* a complete trigger that must NOT start a transfer: control-mode framing with a tunnel
   but no port; a version field >= 2^32; a dedup-eligible id that is in the table.  (The
   tunnel + port case under framing fires and reports the framing prefix: C06_fires.) *)
Theorem C06_complete_but_refused : forall winenv d tunnel buf pre m txt tail,
  let out := if d_relay d && d_tmux d then rewrite_trigger buf else buf in
  out = pre ++ txt ++ tail -> trigger_text m txt -> greedy_end m tail ->
  last_index_of marker (txt ++ tail) = Some O ->
  (find_tmux out <> None /\ (tunnel = false \/ m_port m = None)) \/ parse_version (m_ver m) = None \/
  (dedup_eligible winenv (id_value (m_id m)) = true /\ map_find (d_map d) (id_value (m_id m)) <> None) ->
  detect winenv d tunnel buf = (out, None, d).
Proof. exact shaped_none. Qed.
Print Assumptions C06_complete_but_refused.

(* ---- relay forward ---- *)

(* full statement: whatever a relay-mode detector forwards when it fires is marked "#R" and
   makes a fresh client detector fire with the same trigger *)
Definition C06_relay_forward_full : Prop :=
  forall winenv d tunnel buf out t d', d_relay d = true ->
  detect winenv d tunnel buf = (out, Some t, d') ->
  contains Consts.det_relay_suffix out = true /\
  forall winenv2 tmux2, exists out2 d2,
    detect winenv2 (new_det false tmux2) tunnel out = (out2, Some t, d2).

(* REFUTED by the faithful model (and reproduced on the implementation, key
   relay-forward-lookahead): a short trigger followed by "Saved" at offset 38 fires in the
   relay; "#R" moves the word to offset 40, where the client's look-ahead sees a finished
   transfer.  Needs a trigger text shorter than 39 bytes, i.e. no 13-digit id: cannot
   happen with the lines trz/tsz of this tree print. *)
Theorem C06_relay_forward_refuted :
  exists winenv d tunnel buf out t d', d_relay d = true /\
    detect winenv d tunnel buf = (out, Some t, d') /\
    snd (fst (detect false (new_det false false) tunnel out)) = None.
Proof.
  exists false, (new_det true false), false,
    (marker ++ bs "R:1.0.0:0            Saved").
  eexists. eexists. eexists. split; [reflexivity|]. split; [vm_compute; reflexivity|]. vm_compute. reflexivity.
Qed.
Print Assumptions C06_relay_forward_refuted.

(* proved part: for a complete trigger (premises of C06_fires) the relay forwards
   pre ++ trigger ++ e ++ "#R" ++ r, where (e, r) splits the tail after its [:.0-9] run, and
   a fresh client detector returns the SAME trigger (its id already re-tagged 00->20 by a
   relay+tmux detector) - provided the three tail premises still hold for the forwarded
   tail.  Missing for the full statement: exactly the refuted look-ahead shift; that
   "last marker" and "no framing" survive the insertion is assumed here, not derived. *)
Theorem C06_relay_forward_partial : forall winenv d tunnel buf pre m txt tail ver winenv2 tmux2,
  let out := if d_relay d && d_tmux d then rewrite_trigger buf else buf in
  let tail' := fst (span_relay tail) ++ Consts.det_relay_suffix ++ snd (span_relay tail) in
  d_relay d = true ->
  (nlen buf <? Consts.det_min_len) = false -> last_index_of marker buf <> None ->
  out = pre ++ txt ++ tail -> trigger_text m txt -> greedy_end m tail ->
  last_index_of marker (txt ++ tail) = Some O ->
  (find_tmux out = None \/ (tunnel = true /\ m_port m <> None)) ->
  finished (skipn (N.to_nat Consts.det_finished_offset) (txt ++ tail)) = false ->
  parse_version (m_ver m) = Some ver ->
  (dedup_eligible winenv (id_value (m_id m)) = true -> map_find (d_map d) (id_value (m_id m)) = None) ->
  last_index_of marker (txt ++ tail') = Some O ->
  find_tmux (pre ++ txt ++ tail') = find_tmux out ->
  finished (skipn (N.to_nat Consts.det_finished_offset) (txt ++ tail')) = false ->
  exists t d' out2 d2,
    detect winenv d tunnel buf = (pre ++ txt ++ tail', Some t, d') /\
    contains Consts.det_relay_suffix (pre ++ txt ++ tail') = true /\
    detect winenv2 (new_det false tmux2) tunnel (pre ++ txt ++ tail') = (out2, Some t, d2).
Proof. exact relay_forward_partial. Qed.
Print Assumptions C06_relay_forward_partial.

(* proved part with PRIMITIVE premises (plain relay mode): arbitrary prefix, no marker in
   the tail, no '%' in the read, and no finished-transfer word from offset 40 both before
   and after the "#R" insertion - the one premise the refutation shows to be necessary *)
Theorem C06_relay_forward_clean : forall winenv d tunnel pre m txt tail ver winenv2 tmux2,
  let tail' := fst (span_relay tail) ++ Consts.det_relay_suffix ++ snd (span_relay tail) in
  d_relay d = true -> d_tmux d = false ->
  trigger_text m txt -> greedy_end m tail ->
  contains marker tail = false ->
  ~ In 37 (pre ++ txt ++ tail) ->
  finished (skipn (N.to_nat Consts.det_finished_offset) (txt ++ tail)) = false ->
  finished (skipn (N.to_nat Consts.det_finished_offset) (txt ++ tail')) = false ->
  parse_version (m_ver m) = Some ver ->
  (dedup_eligible winenv (id_value (m_id m)) = true -> map_find (d_map d) (id_value (m_id m)) = None) ->
  exists t d' out2 d2,
    detect winenv d tunnel (pre ++ txt ++ tail) = (pre ++ txt ++ tail', Some t, d') /\
    contains Consts.det_relay_suffix (pre ++ txt ++ tail') = true /\
    detect winenv2 (new_det false tmux2) tunnel (pre ++ txt ++ tail') = (out2, Some t, d2).
Proof. exact relay_forward_clean. Qed.
Print Assumptions C06_relay_forward_clean.

(* ---- non-vacuity: the line trz prints meets the premises of C06_fires ---- *)
Example C06_fires_nonvacuous :
  let id := [48; 49; 50; 51; 52; 53; 54; 55; 56; 57; 49; 48; 48] in
  let m := {| m_mode := 82; m_ver := vtext [49] [49] [54]; m_id := Some id; m_port := Some [48] |} in
  let txt := trig_text 82 [49] [49] [54] (Some id) (Some [48]) in
  trigger_line 82 (1, 1, 6) 123456789100 0 = [27; 55; 7] ++ txt ++ [CR; LF] /\
  trigger_text m txt /\ greedy_end m [CR; LF] /\
  last_index_of marker (txt ++ [CR; LF]) = Some O /\
  find_tmux ([27; 55; 7] ++ txt ++ [CR; LF]) = None /\
  finished (skipn (N.to_nat Consts.det_finished_offset) (txt ++ [CR; LF])) = false /\
  parse_version (m_ver m) = Some (1, 1, 6) /\
  (* relay+tmux: the id is re-tagged and the forwarded line is marked *)
  fst (detect false (new_det true true) false (trigger_line 82 (1, 1, 6) 123456789100 0)) =
    ([27; 55; 7] ++ trig_text 82 [49] [49] [54] (Some [48; 49; 50; 51; 52; 53; 54; 55; 56; 57; 49; 50; 48]) (Some [48])
       ++ bs "#R" ++ [CR; LF],
     Some {| t_mode := 82; t_version := (1, 1, 6); t_id := [48; 49; 50; 51; 52; 53; 54; 55; 56; 57; 49; 50; 48];
             t_win := false; t_port := 0; t_prefix := [] |}).
Proof.
  cbv zeta. split; [vm_compute; reflexivity|]. split.
  { apply TT; [reflexivity | | | | | | intro H; discriminate H]; (split; [discriminate | reflexivity]). }
  split. { split; [reflexivity|]. intros _ r Hr. discriminate Hr. }
  repeat split; vm_compute; reflexivity.
Qed.

(* the window of C06_replay is tight: after 102 distinct eligible ids the table has just been
   pruned to the newest 52, and the 53rd newest id is accepted again *)
Example C06_replay_window_tight :
  let line i := trigger_line 82 (1, 1, 6) (N.of_nat i * 100 + 10) 0 in
  let '(d, acc) := hist_run false (new_det false false) (map (fun i => (false, line i)) (seq 1 102)) in
  length acc = 102%nat /\
  (exists tr, snd (fst (detect false d false (line 50%nat))) = Some tr /\ t_id tr = nth 52 acc [] /\
              dedup_eligible false (t_id tr) = true) /\
  snd (fst (detect false d false (line 51%nat))) = None.
Proof. vm_compute. split; [reflexivity|]. split; [|reflexivity]. eexists. repeat split. Qed.

(* the Go statement of the look-ahead measures and scans subOutput (the text from the last
   marker on), not the whole read: pinned, so scanning `output` instead breaks this lemma *)
Theorem C06_finished_shape_pinned :
  Consts.det_finished_shape =
  bs "if len(subOutput) > 40 { for _, s := range WORDS { if bytes.Contains(subOutput[40:], []byte(s)) { return output, nil } } }".
Proof. exact finished_shape_ok. Qed.
Print Assumptions C06_finished_shape_pinned.

(* C06_fires / C06_fires_clean put NO premise on the bytes before the trigger except (for
   _clean) "no '%'": finished-transfer words in the preceding output of the same read do not
   prevent the transfer.  Concretely: `ls` shows "Saved Games" at offset >= 40 of the read,
   then trz prints its line; fires_clean's premises hold and give exactly this trigger, in
   client mode and in relay mode. *)
Example C06_fires_after_finished_word :
  let pre := bs "drwxr-xr-x  2 user user 4096 Jan  1 00:00 Saved Games" ++ [CR; LF] ++ bs "$ trz" ++ [CR; LF; 27; 55; 7] in
  let id := [48; 49; 50; 51; 52; 53; 54; 55; 56; 57; 49; 50; 48] in
  let m := {| m_mode := 82; m_ver := vtext [49] [49] [54]; m_id := Some id; m_port := Some [48] |} in
  let txt := trig_text 82 [49] [49] [54] (Some id) (Some [48]) in
  finished (skipn (N.to_nat Consts.det_finished_offset) pre) = true /\
  forall relay, detect false (new_det relay false) false (pre ++ txt ++ [CR; LF]) =
    (if relay then pre ++ txt ++ Consts.det_relay_suffix ++ [CR; LF]
     else replace_all Consts.det_client_old Consts.det_client_new (pre ++ txt ++ [CR; LF]),
     Some {| t_mode := 82; t_version := (1, 1, 6); t_id := id; t_win := false; t_port := 0; t_prefix := [] |},
     set_map (new_det relay false) [(id, 0)]).
Proof. exact fires_after_finished_word_example. Qed.
