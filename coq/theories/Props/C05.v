(* C05 - The wrapper is transparent whenever no transfer is in progress.
   Only the property theorems; each is closed by a lemma of Proofs/Filter.v and followed by
   Print Assumptions.

   The model (Model/Filter.v) is ONE state and a step function over events; an event is one
   atomic action of one goroutine of the filter (one Read of the output pump, one Read of the
   input pump, expiry of the 200 ms hold-back timer, one step of an uploadDragFiles goroutine,
   one step of a handleTrzsz goroutine, ...).  A run is a list of events = one interleaving.
   The trigger detector (C06), the zmodem detector and session object (C19), the platform's
   drag detector and the trace-log messages are parameters.  The only thing assumed about
   them is [detect_silent] (= C06_silent): a trigger detector that does not fire returns the
   chunk untouched.

   Stated exceptions, visible as the premise [all_quiet] / [quiet]:
     - a chunk on which the trigger detector or the zmodem detector fires;
     - with DetectTraceLog, a chunk containing the marker that is active in the current
       logger state (<ENABLE_TRZSZ_TRACE_LOG> while off, <DISABLE_TRZSZ_TRACE_LOG> while on);
     - with drag detection on, typed input on which the platform's detectDragFiles returns
       a file list (on Linux: [C05_drag_list_sound] says exactly when).
   [interrupting] and [skipUploadCommand] are only ever set by an uploadDragFiles goroutine,
   which only exists after such a drag list (or the UploadFiles API): [idle] excludes them and
   [C05_session_invariant] shows they cannot appear otherwise. *)
From Trzsz Require Import Base.Bytes Gen.Consts Gen.Skel_filter Model.Filter Model.FilterDet Proofs.Filter Proofs.FilterDrag.
From Trzsz Require Model.Detector.

(* ---- output direction: every chunk list, chunk-exact, exactly once, state stays idle ---- *)
Theorem C05_out_transparent :
  forall dstate trigger detect trig_prompts zmodem_detect zstate zm_init zm_handle zm_busy zm_stop
         drag_detect msg_on msg_off is_stop_key o,
  (forall d c c' d', detect d c = ((c', None), d') -> c' = c) ->
  forall cs (s s' : state dstate zstate) ob,
  idle s = true ->
  all_quiet dstate trigger detect trig_prompts zmodem_detect zstate zm_init zm_handle zm_busy zm_stop
            drag_detect msg_on msg_off is_stop_key o s (map EvOut cs) = true ->
  out_pump dstate trigger detect trig_prompts zmodem_detect zstate zm_init zm_handle zm_busy zm_stop
           drag_detect msg_on msg_off is_stop_key o s cs = (s', ob) ->
  term_writes ob = cs /\ server_writes ob = [] /\ idle s' = true /\ trace_on s' = trace_on s.
Proof. exact out_transparent_idle. Qed.
Print Assumptions C05_out_transparent.

(* ---- both directions at once, EVERY interleaving of the two pumps and the hold-back timer:
        the terminal gets the output chunks one write each; the server gets the concatenation of
        the typed chunks in order, except for what is still held back (later chunks queue behind
        the held one) ---- *)
Theorem C05_in_transparent :
  forall dstate trigger detect trig_prompts zmodem_detect zstate zm_init zm_handle zm_busy zm_stop
         drag_detect msg_on msg_off is_stop_key o,
  (forall d c c' d', detect d c = ((c', None), d') -> c' = c) ->
  forall es (s s' : state dstate zstate) ob,
  idle s = true ->
  all_quiet dstate trigger detect trig_prompts zmodem_detect zstate zm_init zm_handle zm_busy zm_stop
            drag_detect msg_on msg_off is_stop_key o s es = true ->
  run dstate trigger detect trig_prompts zmodem_detect zstate zm_init zm_handle zm_busy zm_stop
      drag_detect msg_on msg_off is_stop_key o s es = (s', ob) ->
  term_writes ob = out_chunks zstate es /\
  concat (server_writes ob) ++ held_bytes s' = concat (in_chunks zstate es) /\
  calm dstate zstate s' /\ (held s' = None -> idle s' = true).
Proof. exact all_interleavings_idle. Qed.
Print Assumptions C05_in_transparent.

(* on Linux the hold-back branch is unreachable (isWinPath is never set), so the input pump
   is chunk-exact: one write per typed chunk, the chunk itself *)
Theorem C05_in_transparent_linux :
  forall dstate trigger detect trig_prompts zmodem_detect zstate zm_init zm_handle zm_busy zm_stop
         msg_on msg_off is_stop_key o ex cs (s s' : state dstate zstate) ob,
  idle s = true ->
  all_quiet dstate trigger detect trig_prompts zmodem_detect zstate zm_init zm_handle zm_busy zm_stop
            (detect_drag_linux ex) msg_on msg_off is_stop_key o s (map EvIn cs) = true ->
  in_pump dstate trigger detect trig_prompts zmodem_detect zstate zm_init zm_handle zm_busy zm_stop
          (detect_drag_linux ex) msg_on msg_off is_stop_key o s cs = (s', ob) ->
  server_writes ob = cs /\ term_writes ob = [] /\ idle s' = true.
Proof. exact in_transparent_linux. Qed.
Print Assumptions C05_in_transparent_linux.

Theorem C05_linux_never_holds : forall ex b, d_win (detect_drag_linux ex b) = false.
Proof. exact linux_never_holds. Qed.
Print Assumptions C05_linux_never_holds.

(* what "ENTIRELY a list of existing paths" means on Linux *)
Theorem C05_drag_list_sound : forall ex buf fs hd,
  d_files (detect_drag_linux ex buf) = Some (fs, hd) ->
  exists b toks, strip_paste buf = Some b /\ b = flat_map render toks /\ map tok_path toks = fs /\
    Forall (fun p => ex p = Some KDir \/ ex p = Some KRegular) fs.
Proof. exact linux_files_sound. Qed.
Print Assumptions C05_drag_list_sound.

(* ---- OSC52: the option and the partial-sequence buffer influence nothing but the clipboard
        calls and the buffer itself, along every run ---- *)
Theorem C05_osc52_inert :
  forall dstate trigger detect trig_prompts zmodem_detect zstate zm_init zm_handle zm_busy zm_stop
         drag_detect msg_on msg_off is_stop_key es o v1 v2 (a b : state dstate zstate),
  osc_eq dstate zstate a b ->
  osc_eq dstate zstate
    (fst (run dstate trigger detect trig_prompts zmodem_detect zstate zm_init zm_handle zm_busy zm_stop
              drag_detect msg_on msg_off is_stop_key (opts_but_osc52 o v1) a es))
    (fst (run dstate trigger detect trig_prompts zmodem_detect zstate zm_init zm_handle zm_busy zm_stop
              drag_detect msg_on msg_off is_stop_key (opts_but_osc52 o v2) b es)) /\
  no_clip (snd (run dstate trigger detect trig_prompts zmodem_detect zstate zm_init zm_handle zm_busy zm_stop
                    drag_detect msg_on msg_off is_stop_key (opts_but_osc52 o v1) a es)) =
  no_clip (snd (run dstate trigger detect trig_prompts zmodem_detect zstate zm_init zm_handle zm_busy zm_stop
                    drag_detect msg_on msg_off is_stop_key (opts_but_osc52 o v2) b es)).
Proof. exact run_osc. Qed.
Print Assumptions C05_osc52_inert.

(* ---- near misses: whatever a chunk contains (truncated or corrupted trigger text,
        zmodem-like or OSC52-like fragments, partial trace-log markers), if no detector fires
        on it, it is forwarded unchanged, once, and the wrapper stays idle ---- *)
Theorem C05_near_miss :
  forall dstate trigger detect trig_prompts zmodem_detect zstate zm_init zm_handle
         drag_detect msg_on msg_off o,
  (forall d c c' d', detect d c = ((c', None), d') -> c' = c) ->
  forall (s s' : state dstate zstate) c ob,
  idle s = true ->
  quiet dstate trigger detect zmodem_detect zstate drag_detect o s (EvOut c) = true ->
  out_step dstate trigger detect trig_prompts zmodem_detect zstate zm_init zm_handle msg_on msg_off o s c = (s', ob) ->
  term_writes ob = [c] /\ server_writes ob = [] /\ idle s' = true.
Proof. exact near_miss_idle. Qed.
Print Assumptions C05_near_miss.

(* ---- sessions: along EVERY run the session pointer is set exactly while one handleTrzsz
        goroutine owns it, and output is dropped only while an uploadDragFiles goroutine is
        between its ctrl-C and its command ---- *)
Theorem C05_session_invariant :
  forall dstate trigger detect trig_prompts zmodem_detect zstate zm_init zm_handle zm_busy zm_stop
         drag_detect msg_on msg_off is_stop_key o es (s : state dstate zstate),
  inv dstate zstate s ->
  inv dstate zstate
    (fst (run dstate trigger detect trig_prompts zmodem_detect zstate zm_init zm_handle zm_busy zm_stop
              drag_detect msg_on msg_off is_stop_key o s es)).
Proof. exact run_inv. Qed.
Print Assumptions C05_session_invariant.

(* every exit of a handler that owns the session clears it: done, error, stop, background *)
Theorem C05_every_exit_clears :
  forall dstate zstate o (s : state dstate zstate) i a, inv dstate zstate s ->
  nth_error (handlers s) i = Some HOwning ->
  (a = HDone \/ a = HError \/ a = HStop \/ a = HBackground) ->
  transfer (fst (handler_step dstate zstate o s i a)) = false /\
  handlers (fst (handler_step dstate zstate o s i a)) = remove_nth i (handlers s).
Proof. exact every_exit_clears. Qed.
Print Assumptions C05_every_exit_clears.

(* refused by the user / failed before the session was taken: the session pointer is untouched *)
Theorem C05_early_exit_keeps :
  forall dstate zstate o (s : state dstate zstate) i a,
  nth_error (handlers s) i = Some HChoosing -> (a = HRefuse \/ a = HFailEarly) ->
  transfer (fst (handler_step dstate zstate o s i a)) = transfer s /\
  handlers (fst (handler_step dstate zstate o s i a)) = remove_nth i (handlers s).
Proof. exact early_exit_keeps. Qed.
Print Assumptions C05_early_exit_keeps.

(* along every run of the FIXED code (o_fixed = true: every return of handleTrzsz closes a stop
   prompt that is still open - fix 0263b73, pinned by C05_skel) a stop prompt is waiting for a
   key only while a transfer owns the streams *)
Theorem C05_prompt_invariant :
  forall dstate trigger detect trig_prompts zmodem_detect zstate zm_init zm_handle zm_busy zm_stop
         drag_detect msg_on msg_off is_stop_key o,
  o_fixed o = true ->
  forall es (s : state dstate zstate),
  pinv dstate zstate s ->
  pinv dstate zstate
    (fst (run dstate trigger detect trig_prompts zmodem_detect zstate zm_init zm_handle zm_busy zm_stop
              drag_detect msg_on msg_off is_stop_key o s es)).
Proof. exact run_pinv. Qed.
Print Assumptions C05_prompt_invariant.

(* induction over histories: after ANY history es1 (any number of sessions, ended in any way,
   interleaved in any way) that has come to rest - no handler or drag goroutine alive, no zmodem
   session, nothing held back, no pending echo suppression; NOTHING is assumed about the stop
   prompt - no prompt is waiting for a key; at most its goroutine still has to store nil after its
   pipe was closed, which needs no key (EvPromptEnd); after that the wrapper is idle and the
   transparency theorem holds for everything that follows *)
Theorem C05_after_session :
  forall dstate trigger detect trig_prompts zmodem_detect zstate zm_init zm_handle zm_busy zm_stop
         drag_detect msg_on msg_off is_stop_key o,
  (forall d c c' d', detect d c = ((c', None), d') -> c' = c) ->
  o_fixed o = true ->
  forall es1 es2 (s0 s1 s2 : state dstate zstate) ob1 ob2,
  idle s0 = true ->
  run dstate trigger detect trig_prompts zmodem_detect zstate zm_init zm_handle zm_busy zm_stop
      drag_detect msg_on msg_off is_stop_key o s0 es1 = (s1, ob1) ->
  handlers s1 = [] -> drag_procs s1 = [] -> held s1 = None -> zmodem s1 = None -> skip_cmd s1 = false ->
  let s1' := fst (step dstate trigger detect trig_prompts zmodem_detect zstate zm_init zm_handle zm_busy zm_stop
                       drag_detect msg_on msg_off is_stop_key o s1 EvPromptEnd) in
  all_quiet dstate trigger detect trig_prompts zmodem_detect zstate zm_init zm_handle zm_busy zm_stop
            drag_detect msg_on msg_off is_stop_key o s1' es2 = true ->
  run dstate trigger detect trig_prompts zmodem_detect zstate zm_init zm_handle zm_busy zm_stop
      drag_detect msg_on msg_off is_stop_key o s1' es2 = (s2, ob2) ->
  prompt s1 <> POpen /\
  idle s1' = true /\
  term_writes ob2 = out_chunks zstate es2 /\
  concat (server_writes ob2) ++ held_bytes s2 = concat (in_chunks zstate es2) /\
  calm dstate zstate s2.
Proof. exact after_session. Qed.
Print Assumptions C05_after_session.

(* valid for both code versions: the same with "the prompt is closed" as part of the premise *)
Theorem C05_after_session_prompt_closed :
  forall dstate trigger detect trig_prompts zmodem_detect zstate zm_init zm_handle zm_busy zm_stop
         drag_detect msg_on msg_off is_stop_key o,
  (forall d c c' d', detect d c = ((c', None), d') -> c' = c) ->
  forall es1 es2 (s0 s1 s2 : state dstate zstate) ob1 ob2,
  idle s0 = true ->
  run dstate trigger detect trig_prompts zmodem_detect zstate zm_init zm_handle zm_busy zm_stop
      drag_detect msg_on msg_off is_stop_key o s0 es1 = (s1, ob1) ->
  handlers s1 = [] -> drag_procs s1 = [] -> held s1 = None -> prompt s1 = PNone -> zmodem s1 = None ->
  skip_cmd s1 = false ->
  all_quiet dstate trigger detect trig_prompts zmodem_detect zstate zm_init zm_handle zm_busy zm_stop
            drag_detect msg_on msg_off is_stop_key o s1 es2 = true ->
  run dstate trigger detect trig_prompts zmodem_detect zstate zm_init zm_handle zm_busy zm_stop
      drag_detect msg_on msg_off is_stop_key o s1 es2 = (s2, ob2) ->
  idle s1 = true /\
  term_writes ob2 = out_chunks zstate es2 /\
  concat (server_writes ob2) ++ held_bytes s2 = concat (in_chunks zstate es2) /\
  calm dstate zstate s2.
Proof. exact after_session_prompt_closed. Qed.
Print Assumptions C05_after_session_prompt_closed.

(* the echo-suppression flag left behind by a drag upload: the next output chunk clears it and
   is forwarded unless it IS the echo of the upload command *)
Theorem C05_skip_pending :
  forall dstate trigger detect trig_prompts zmodem_detect zstate zm_init zm_handle
         drag_detect msg_on msg_off o,
  (forall d c c' d', detect d c = ((c', None), d') -> c' = c) ->
  forall (s : state dstate zstate) c s' ob,
  calm dstate zstate (set_skip_cmd false s) -> skip_cmd s = true ->
  quiet dstate trigger detect zmodem_detect zstate drag_detect o s (EvOut c) = true ->
  out_step dstate trigger detect trig_prompts zmodem_detect zstate zm_init zm_handle msg_on msg_off o s c = (s', ob) ->
  skip_cmd s' = false /\
  (term_writes ob = [c] \/
   (term_writes ob = [skip_echo_repl] /\ cur_cmd s = Some (trim_right skip_trim_cutset (trim_vt100 c)))).
Proof. exact skip_pending. Qed.
Print Assumptions C05_skip_pending.

(* the order of the checks in wrapOutput / sendInput and the deferred CompareAndSwap of
   handleTrzsz, regenerated from filter.go on every run *)
Theorem C05_skel :
  wrap_output = expected_wrap_output /\ send_input = expected_send_input /\
  handle_trzsz = expected_handle_trzsz /\ upload_drag_files = expected_upload_drag_files /\
  add_drag_files = expected_add_drag_files /\ reset_drag_files = expected_reset_drag_files.
Proof. exact skel_matches. Qed.
Print Assumptions C05_skel.

(* ---- non-vacuity: concrete states and chunks meeting the hypotheses (silent detectors) ---- *)
Definition ex_opts : opts :=
  {| o_drag := true; o_trace := true; o_zmodem := true; o_osc52 := true; o_cmd := []; o_cmd_not_trz := false; o_fixed := true |}.

(* a truncated trigger, a zmodem-like header with 5 hex digits, an OSC52 sequence cut in two,
   a truncated trace marker: all forwarded unchanged; the clipboard gets "QUJD" once *)
Example C05_nonvacuous_out :
  let cs := [ [58;58;84;82;90;83;90;58;84;82;65;78;83;70;69;82;58;82;58;49;46;49];
              [42;42;24;66;48;48;49;50;51;52];
              [27;93;53;50;59;99;59;81;85]; [74;68;7];
              [60;69;78;65;66;76;69;95;84;82;90;83;90] ] in
  let r := corr_run (fun _ => None) (fun _ => false) [1] [2] ex_opts true (map EvOut cs) in
  term_writes r = cs /\ clip_writes r = [[81;85;74;68]] /\ server_writes r = [].
Proof. vm_compute. auto. Qed.

(* typed input naming a file that does not exist (oracle: nothing exists) is forwarded; the same
   text is swallowed when the oracle says the file exists - the stated exception *)
Example C05_nonvacuous_in :
  let p := [47;116;109;112;47;120] in          (* /tmp/x *)
  let c := p ++ [32] in
  server_writes (corr_run (fun _ => None) (fun _ => false) [] [] ex_opts true [EvIn c]) = [c] /\
  server_writes (corr_run (fun q => if list_eqb q p then Some KRegular else None) (fun _ => false) [] [] ex_opts true [EvIn c]) = [].
Proof. vm_compute. auto. Qed.

(* a complete drag upload in the model: ctrl-C, dropped output, the command, its echo replaced *)
Example C05_drag_exception :
  let p := [47;120] in
  let ex := fun q => if list_eqb q p then Some KDir else None in
  corr_run ex (fun _ => false) [] [] ex_opts true
    [EvIn (p ++ [32]); EvDrag 0; EvOut [94;67]; EvDrag 0; EvOut [116;114;122;32;45;100;13;10]; EvOut [36]; EvDrag 0; EvIn [120]]
  = [ToServer [3]; ToServer [116;114;122;32;45;100;13]; ToTerm [13;10]; ToTerm [36]; ToServer [120]].
Proof. vm_compute. reflexivity. Qed.

(* ---- the code BEFORE fix 0263b73 (o_fixed = false): C05_after_session fails.  A session that
        ends by itself while the stop prompt is open leaves the prompt in charge of the keyboard.
        Witness: trigger, handler takes the session, ctrl-C (prompt opens), the transfer fails:
        every handler has ended, no session, the prompt is still waiting for a key, and a typed
        key does not reach the server.  This was reproduced on the real filter by the history
        "stop-prompt-open-server-fails" (KNOWN_FINDINGS.txt, now "fixed:"). ---- *)
Definition C05_after_session_unfixed : Prop :=
  forall dstate trigger detect trig_prompts zmodem_detect zstate zm_init zm_handle zm_busy zm_stop
         drag_detect msg_on msg_off is_stop_key o,
  (forall d c c' d', detect d c = ((c', None), d') -> c' = c) ->
  o_fixed o = false ->
  forall es1 (s0 s1 : state dstate zstate) ob1,
  idle s0 = true ->
  run dstate trigger detect trig_prompts zmodem_detect zstate zm_init zm_handle zm_busy zm_stop
      drag_detect msg_on msg_off is_stop_key o s0 es1 = (s1, ob1) ->
  handlers s1 = [] -> drag_procs s1 = [] -> held s1 = None -> zmodem s1 = None -> skip_cmd s1 = false ->
  prompt s1 <> POpen.

Definition ex_opts_unfixed : opts :=
  {| o_drag := true; o_trace := true; o_zmodem := true; o_osc52 := true; o_cmd := []; o_cmd_not_trz := false; o_fixed := false |}.

Definition wit_detect (d : unit) (c : list N) : (list N * option unit) * unit :=
  if list_eqb c [1] then ((c, Some tt), d) else ((c, None), d).

Definition wit_run (o : opts) (es : list (event unit)) :=
  run unit unit wit_detect (fun _ => true) (fun _ => false) unit (fun _ => tt) (fun z _ => (true, z))
      (fun _ => true) (fun z => z) (fun _ => dres_none) [] [] (fun c => list_eqb c [3]) o (init unit unit tt) es.

Definition wit_history : list (event unit) := [EvOut [1]; EvHandler 0 HAccept; EvIn [3]; EvHandler 0 HError].

Theorem C05_after_session_unfixed_refuted : ~ C05_after_session_unfixed.
Proof.
  intros H.
  specialize (H unit unit wit_detect (fun _ => true) (fun _ => false) unit (fun _ => tt) (fun z _ => (true, z))
                (fun _ => true) (fun z => z) (fun _ => dres_none) [] [] (fun c => list_eqb c [3]) ex_opts_unfixed).
  assert (Hs : forall d c c' d', wit_detect d c = ((c', None), d') -> c' = c).
  { intros d c c' d'. unfold wit_detect. destruct (list_eqb c [1]); intros X; inversion X; reflexivity. }
  specialize (H Hs eq_refl wit_history (init unit unit tt)).
  remember (wit_run ex_opts_unfixed wit_history) as R eqn:ER. unfold wit_run in ER.
  vm_compute in ER. destruct R as [s1 ob1].
  specialize (H s1 ob1 eq_refl). rewrite ER in H. specialize (H eq_refl).
  inversion ER; subst s1 ob1; clear ER.
  apply (H eq_refl eq_refl eq_refl eq_refl eq_refl). reflexivity.
Qed.
Print Assumptions C05_after_session_unfixed_refuted.

(* the same history on the two code versions: before the fix the key typed afterwards is
   swallowed; with the fix the prompt is closing, its goroutine ends without a key, and the key
   typed after that reaches the server *)
Example C05_unfixed_swallows_keys :
  server_writes (snd (wit_run ex_opts_unfixed (wit_history ++ [EvPromptEnd; EvIn [120]]))) = [[120]] /\
  server_writes (snd (wit_run ex_opts_unfixed (wit_history ++ [EvIn [120]]))) = [] /\
  prompt (fst (wit_run ex_opts_unfixed wit_history)) = POpen.
Proof. vm_compute. auto. Qed.

Example C05_fixed_hands_keyboard_back :
  prompt (fst (wit_run ex_opts wit_history)) = PClosing /\
  server_writes (snd (wit_run ex_opts (wit_history ++ [EvPromptEnd; EvIn [120]]))) = [[120]].
Proof. vm_compute. auto. Qed.


(* ======================================================================================= *)
(* every way a drag-and-drop can be called off or finish (third round, seeds pc05-2/pc05-1) *)

(* a drop, then within the 300 ms window a chunk that is not a path list (any key): that chunk
   reaches the server, the upload goroutine wakes up, finds nothing to upload and leaves NO
   trace: nothing else is written and the wrapper is idle - [interrupting] is not left set *)
Theorem C05_drag_called_off :
  forall dstate trigger detect trig_prompts zmodem_detect zstate zm_init zm_handle zm_busy zm_stop
         drag_detect msg_on msg_off is_stop_key o (s : state dstate zstate) c1 c2 fs hd s' ob,
  idle s = true -> detect_on s = true ->
  d_files (drag_detect c1) = Some (fs, hd) ->
  d_files (drag_detect c2) = None -> d_win (drag_detect c2) = false -> d_ignore (drag_detect c2) = false ->
  run dstate trigger detect trig_prompts zmodem_detect zstate zm_init zm_handle zm_busy zm_stop
      drag_detect msg_on msg_off is_stop_key o s [EvIn c1; EvIn c2; EvDrag 0] = (s', ob) ->
  ob = [ToServer c2] /\ idle s' = true.
Proof. exact drag_called_off. Qed.
Print Assumptions C05_drag_called_off.

(* a drop and nothing else: exactly ctrl-C and the upload command reach the server; afterwards
   only the echo-suppression flag (with the command) is left, everything else is idle again *)
Theorem C05_drag_upload_completes :
  forall dstate trigger detect trig_prompts zmodem_detect zstate zm_init zm_handle zm_busy zm_stop
         drag_detect msg_on msg_off is_stop_key o (s : state dstate zstate) c1 fs hd s' ob,
  idle s = true -> detect_on s = true -> drag_files s = None ->
  d_files (drag_detect c1) = Some (fs, hd) ->
  run dstate trigger detect trig_prompts zmodem_detect zstate zm_init zm_handle zm_busy zm_stop
      drag_detect msg_on msg_off is_stop_key o s [EvIn c1; EvDrag 0; EvDrag 0; EvDrag 0] = (s', ob) ->
  let cmd := (match o_cmd o with [] => drag_default_cmd | c => c end) ++
             (if (if hd then true else drag_has_dir s) && negb (o_cmd_not_trz o) then drag_dir_flag else []) in
  ob = [ToServer [drag_interrupt_byte]; ToServer (cmd ++ drag_cmd_end)] /\
  skip_cmd s' = true /\ cur_cmd s' = Some cmd /\ idle (set_skip_cmd false s') = true /\
  dragging s' = false /\ drag_files s' = None.
Proof. exact drag_upload_completes. Qed.
Print Assumptions C05_drag_upload_completes.

(* while a transfer owns the streams a dropped path list is a key like any other *)
Theorem C05_typed_during_transfer :
  forall dstate zstate zm_busy zm_stop drag_detect is_stop_key o (s : state dstate zstate) c s' ob,
  transfer s = true ->
  in_step dstate zstate zm_busy zm_stop drag_detect is_stop_key o s c = (s', ob) ->
  ob = [] /\ transfer s' = true /\
  dragging s' = dragging s /\ drag_files s' = drag_files s /\ drag_procs s' = drag_procs s /\
  interrupting s' = interrupting s /\ skip_cmd s' = skip_cmd s /\ held s' = held s.
Proof. exact typed_during_transfer. Qed.
Print Assumptions C05_typed_during_transfer.

(* a trigger that is displayed again: with the detector model of C06 in place of the abstract
   detector.  After ANY earlier calls, a chunk whose trigger id is dedup-eligible and among the
   last 52 accepted ids passes through untouched and starts nothing. *)
Theorem C05_redisplayed_trigger_inert :
  forall winenv calls d acc trig_prompts zmodem_detect zstate zm_init zm_handle (drag_detect : list N -> dres) msg_on msg_off o
         (s s' : state Detector.idmap zstate) c ob,
  Detector.hist_run winenv (Detector.new_det false false) calls = (d, acc) ->
  idle s = true -> Filter.det s = Detector.d_map d ->
  (forall out tr d', Detector.detect winenv d false c = (out, Some tr, d') ->
     Detector.dedup_eligible winenv (Detector.t_id tr) = true /\ In (Detector.t_id tr) (firstn Detector.replay_window acc)) ->
  trace_fires Detector.idmap zstate o s c = false -> o_zmodem o && zmodem_detect c = false ->
  out_step Detector.idmap Detector.trigger (c05_client_detect winenv) trig_prompts zmodem_detect zstate zm_init zm_handle
           msg_on msg_off o s c = (s', ob) ->
  term_writes ob = [c] /\ server_writes ob = [] /\ idle s' = true /\ handlers s' = [].
Proof. exact redisplayed_trigger_inert. Qed.
Print Assumptions C05_redisplayed_trigger_inert.

(* non-vacuity, and why the Windows environment matters: the line a Linux trz prints (id ending
   in 00) shown a second time.  With isWindowsEnvironment() the id is remembered and the second
   display is silent; without it ids of 13 digits ending in 00 are not remembered (by design: on
   Linux the terminal does not re-send old output) and the line fires again - which is what the
   wrapper configured with SetAffectedByWindows(true) must NOT do. *)
Example C05_redisplay_example :
  let line := Detector.trigger_line 82 (1, 1, 6) 1700000000100 0 in
  let after w := fst (Detector.hist_run w (Detector.new_det false false) [(false, line)]) in
  (Detector.dedup_eligible true [49;55;48;48;48;48;48;48;48;48;49;48;48] = true) /\
  snd (fst (Detector.detect true (after true) false line)) = None /\
  fst (fst (Detector.detect true (after true) false line)) = line /\
  (match snd (fst (Detector.detect false (after false) false line)) with Some _ => true | None => false end) = true.
Proof. vm_compute. auto. Qed.


(* ======================================================================================= *)
(* server output while the client hides the output of a command it interrupted itself       *)
(* (fourth round, seed C06-8): detection comes BEFORE the drop                              *)

(* the window opens: 300 ms after a drop, or at once after the UploadFiles API; exactly the
   ctrl-C byte goes to the server *)
Theorem C05_window_opens_drag :
  forall dstate trigger detect trig_prompts zmodem_detect zstate zm_init zm_handle zm_busy zm_stop
         drag_detect msg_on msg_off is_stop_key o (s : state dstate zstate) c1 fs hd s' ob,
  idle s = true -> detect_on s = true -> drag_files s = None ->
  d_files (drag_detect c1) = Some (fs, hd) ->
  run dstate trigger detect trig_prompts zmodem_detect zstate zm_init zm_handle zm_busy zm_stop
      drag_detect msg_on msg_off is_stop_key o s [EvIn c1; EvDrag 0] = (s', ob) ->
  ob = [ToServer [drag_interrupt_byte]] /\ in_window dstate zstate s' /\ drag_procs s' = [DInterrupt] /\
  handlers s' = [] /\ det s' = det s /\ trace_on s' = trace_on s.
Proof. exact window_opens_drag. Qed.
Print Assumptions C05_window_opens_drag.

Theorem C05_window_opens_api :
  forall dstate trigger detect trig_prompts zmodem_detect zstate zm_init zm_handle zm_busy zm_stop
         drag_detect msg_on msg_off is_stop_key o (s : state dstate zstate) fs hd s' ob,
  idle s = true -> dragging s = false -> drag_files s = None ->
  run dstate trigger detect trig_prompts zmodem_detect zstate zm_init zm_handle zm_busy zm_stop
      drag_detect msg_on msg_off is_stop_key o s [EvApiUpload fs hd; EvDrag 0] = (s', ob) ->
  ob = [ToServer [drag_interrupt_byte]] /\ in_window dstate zstate s' /\ drag_procs s' = [DInterrupt] /\
  handlers s' = [] /\ det s' = det s /\ trace_on s' = trace_on s.
Proof. exact window_opens_api. Qed.
Print Assumptions C05_window_opens_api.

(* EVERY list of chunks arriving inside the window, for every detector: what is shown is exactly
   the chunks on which the detector fires, as rewritten by it (disarmed), one handleTrzsz is
   started per firing chunk, everything else is dropped, nothing is sent to the server, and the
   window stays open *)
Theorem C05_window_out :
  forall dstate trigger detect trig_prompts zmodem_detect zstate zm_init zm_handle zm_busy zm_stop
         drag_detect msg_on msg_off is_stop_key o cs (s s' : state dstate zstate) ob,
  in_window dstate zstate s -> Forall (fun c => trace_fires dstate zstate o s c = false) cs ->
  out_pump dstate trigger detect trig_prompts zmodem_detect zstate zm_init zm_handle zm_busy zm_stop
           drag_detect msg_on msg_off is_stop_key o s cs = (s', ob) ->
  term_writes ob = fst (window_shown dstate trigger detect (det s) cs) /\ server_writes ob = [] /\
  handlers s' = handlers s ++ repeat HChoosing (snd (window_shown dstate trigger detect (det s) cs)) /\
  in_window dstate zstate s' /\
  drag_procs s' = drag_procs s /\ drag_has_dir s' = drag_has_dir s /\ skip_cmd s' = skip_cmd s /\
  dragging s' = dragging s /\ drag_files s' = drag_files s /\ prompt s' = prompt s /\ held s' = held s.
Proof. exact window_out. Qed.
Print Assumptions C05_window_out.

(* the window ends: the flag is cleared and the upload command typed; from then on output is
   subject only to the echo suppression (C05_skip_pending) *)
Theorem C05_window_ends :
  forall dstate trigger detect trig_prompts zmodem_detect zstate zm_init zm_handle zm_busy zm_stop
         drag_detect msg_on msg_off is_stop_key o (s s' : state dstate zstate) ob rest,
  drag_procs s = DInterrupt :: rest ->
  step dstate trigger detect trig_prompts zmodem_detect zstate zm_init zm_handle zm_busy zm_stop
       drag_detect msg_on msg_off is_stop_key o s (EvDrag 0) = (s', ob) ->
  ob = [ToServer (drag_command dstate zstate o s ++ drag_cmd_end)] /\
  interrupting s' = false /\ skip_cmd s' = true /\ cur_cmd s' = Some (drag_command dstate zstate o s) /\
  drag_procs s' = DCmd :: rest /\ handlers s' = handlers s /\ transfer s' = transfer s.
Proof. exact window_ends. Qed.
Print Assumptions C05_window_ends.

(* with the detector model of C06: ordinary output, a complete fresh trigger line, the two halves
   of another one.  Shown: the complete line only, as ::TRZSZGO:...; transfers started: one *)
Example C05_window_example :
  let line := Detector.trigger_line 83 (1, 1, 6) 1700000000100 0 in
  let line2 := Detector.trigger_line 82 (1, 1, 6) 1700000000200 0 in
  c05_window false [[94; 67; 13; 10]; line; firstn 20 line2; skipn 20 line2]
  = ([Detector.replace_all Consts.det_client_old Consts.det_client_new line], 1%nat).
Proof. vm_compute. reflexivity. Qed.

(* the UploadFiles API as the model's EvApiUpload has it, regenerated from filter.go *)
Theorem C05_skel_api : upload_files_api = expected_upload_files_api.
Proof. exact skel_matches_api. Qed.
Print Assumptions C05_skel_api.
