(* C03 — Stream reassembly does not depend on how the transport chunks the bytes.
   Only the property theorems; each is closed by a lemma of Proofs/Buffer.v and followed
   by Print Assumptions.

   [pending] is the unread rest of the current chunk followed by the queued chunks (empty
   chunks allowed anywhere); [run ops pend] is the list of results of the reads [ops]
   (strict line, junk-tolerant line, sized binary block) issued one after the other on the
   one cursor, up to and including the first read that would wait (RBlocked) or that saw
   Ctrl-C (RInterrupted). *)
From Trzsz Require Import Base.Bytes Gen.Consts Model.Buffer Proofs.Buffer.
From Coq Require Import ZArith.

(* every segmentation of the same stream yields the same lines and blocks in the same
   order (and leaves the same unread bytes) *)
Theorem C03_chunking_independent : forall ops pend1 pend2,
  concat pend1 = concat pend2 ->
  run ops pend1 = run ops pend2 /\
  concat (snd (run_st ops pend1)) = concat (snd (run_st ops pend2)).
Proof. exact run_two_chunkings. Qed.
Print Assumptions C03_chunking_independent.

(* ... namely what an independently written parser of the flat stream (no chunks, no
   cursor: split at the first LF; drop CR before LF and go on; take n bytes) returns *)
Theorem C03_reference : forall ops pend, run ops pend = ref_run ops (concat pend).
Proof. exact run_flat. Qed.
Print Assumptions C03_reference.

(* nothing lost, duplicated or merged: the stream is the concatenation of one raw segment
   per delivered result, in order, followed by the unread rest; a strict line accounts for
   line ++ [LF], a block for exactly its bytes, a junk-tolerant line for the raw text
   related to it by [unwrap] (LF-terminated segments, each but the last leaving the
   accumulated text ending in CR, that CR dropped); no line segment contains Ctrl-C *)
Theorem C03_conservation : forall ops pend,
  exists raws, accounted ops (run ops pend) raws /\
               concat raws ++ concat (snd (run_st ops pend)) = concat pend.
Proof. exact run_conservation. Qed.
Print Assumptions C03_conservation.

(* the raw segment determines the delivered data: two results cannot share or swap bytes *)
Theorem C03_accounts_functional : forall o raw d1 d2,
  accounts o d1 raw -> accounts o d2 raw -> d1 = d2.
Proof. exact accounts_fun. Qed.
Print Assumptions C03_accounts_functional.

(* a complete line or block that has already arrived is delivered without waiting: if the
   reference completes read i on the bytes that have arrived, so does the buffer, whatever
   the chunking; and bytes arriving later never change a result *)
Theorem C03_prompt : forall ops pend i d,
  nth_error (ref_run ops (concat pend)) i = Some (RData d) ->
  nth_error (run ops pend) i = Some (RData d).
Proof. exact run_prompt. Qed.
Print Assumptions C03_prompt.

Theorem C03_prefix_stable : forall ops s extra i d,
  nth_error (ref_run ops s) i = Some (RData d) ->
  nth_error (ref_run ops (s ++ extra)) i = Some (RData d).
Proof. exact ref_run_prefix_stable. Qed.
Print Assumptions C03_prefix_stable.

(* popBuffer until nil hands back exactly the unread bytes (used by the relay, C13) *)
Theorem pop_all_conserves : forall st, concat (pop_all (pop_all_fuel st) st) = unread st.
Proof. exact Proofs.Buffer.pop_all_conserves. Qed.
Print Assumptions pop_all_conserves.

(* where the guarantee stops: two chunkings of "a^Cb\nc\n"; both runs end with the
   interrupt, but a read issued AFTER it returns "b" for one and "c" for the other, because
   the cursor is left at the end of the chunk (or after its first LF) *)
Theorem after_interrupt_differs :
  concat interrupt_witness_a = concat interrupt_witness_b /\
  run interrupt_witness_ops interrupt_witness_a = [RInterrupted] /\
  run interrupt_witness_ops interrupt_witness_b = [RInterrupted] /\
  fst (run_cont interrupt_witness_ops interrupt_witness_a) = [RInterrupted; RData [98]] /\
  fst (run_cont interrupt_witness_ops interrupt_witness_b) = [RInterrupted; RData [99]].
Proof. exact interrupt_state_depends_on_chunking. Qed.
Print Assumptions after_interrupt_differs.

(* non-vacuity: a wrapped junk line, a strict line and a block, split inside CR LF *)
Example C03_example :
  run [OpLine true; OpLine false; OpBinary 2; OpLine false]
      [[]; [35; 97; 13]; [10; 98; 10; 58]; []; [10; 1; 3; 99]] =
  [RData [35; 97; 98]; RData [58]; RData [1; 3]; RBlocked].
Proof. vm_compute. reflexivity. Qed.
