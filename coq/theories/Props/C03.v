(* C03 — Stream reassembly does not depend on how the transport chunks the bytes.
   Only the property theorems; each is closed by a lemma of Proofs/Buffer.v and followed
   by Print Assumptions.

   [pending] is the unread rest of the current chunk followed by the queued chunks (empty
   chunks allowed anywhere); [run ops pend] is the list of results of the reads [ops]
   (strict line, junk-tolerant line, sized binary block) issued one after the other on the
   one cursor, up to and including the first read that would wait (RBlocked) or that saw
   Ctrl-C (RInterrupted). *)
From Trzsz Require Import Base.Bytes Gen.Consts Model.Buffer Proofs.Buffer Model.Pump Proofs.Pump Model.BufQueue Proofs.BufQueue.
From Coq Require Import ZArith.

(* every segmentation of the same stream yields the same lines and blocks in the same
   order (and leaves the same unread bytes) *)
Theorem C03_chunking_independent : forall ops pend1 pend2,
  concat pend1 = concat pend2 ->
  run ops pend1 = run ops pend2 /\
  concat (snd (run_st ops pend1)) = concat (snd (run_st ops pend2)).
Proof. exact run_two_chunkings. Qed.
Print Assumptions C03_chunking_independent.

(* ... namely what an independently written parser of the flat stream (no chunks, no
   cursor: split at the first LF; drop CR before LF and go on; take n bytes) returns *)
Theorem C03_reference : forall ops pend, run ops pend = ref_run ops (concat pend).
Proof. exact run_flat. Qed.
Print Assumptions C03_reference.

(* nothing lost, duplicated or merged: the stream is the concatenation of one raw segment
   per delivered result, in order, followed by the unread rest; a strict line accounts for
   line ++ [LF], a block for exactly its bytes, a junk-tolerant line for the raw text
   related to it by [unwrap] (LF-terminated segments, each but the last leaving the
   accumulated text ending in CR, that CR dropped); no line segment contains Ctrl-C *)
Theorem C03_conservation : forall ops pend,
  exists raws, accounted ops (run ops pend) raws /\
               concat raws ++ concat (snd (run_st ops pend)) = concat pend.
Proof. exact run_conservation. Qed.
Print Assumptions C03_conservation.

(* the raw segment determines the delivered data: two results cannot share or swap bytes *)
Theorem C03_accounts_functional : forall o raw d1 d2,
  accounts o d1 raw -> accounts o d2 raw -> d1 = d2.
Proof. exact accounts_fun. Qed.
Print Assumptions C03_accounts_functional.

(* a complete line or block that has already arrived is delivered without waiting: if the
   reference completes read i on the bytes that have arrived, so does the buffer, whatever
   the chunking; and bytes arriving later never change a result *)
Theorem C03_prompt : forall ops pend i d,
  nth_error (ref_run ops (concat pend)) i = Some (RData d) ->
  nth_error (run ops pend) i = Some (RData d).
Proof. exact run_prompt. Qed.
Print Assumptions C03_prompt.

Theorem C03_prefix_stable : forall ops s extra i d,
  nth_error (ref_run ops s) i = Some (RData d) ->
  nth_error (ref_run ops (s ++ extra)) i = Some (RData d).
Proof. exact ref_run_prefix_stable. Qed.
Print Assumptions C03_prefix_stable.

(* popBuffer until nil hands back exactly the unread bytes (used by the relay, C13) *)
Theorem pop_all_conserves : forall st, concat (pop_all (pop_all_fuel st) st) = unread st.
Proof. exact Proofs.Buffer.pop_all_conserves. Qed.
Print Assumptions pop_all_conserves.

(* where the guarantee stops: two chunkings of "a^Cb\nc\n"; both runs end with the
   interrupt, but a read issued AFTER it returns "b" for one and "c" for the other, because
   the cursor is left at the end of the chunk (or after its first LF) *)
Theorem after_interrupt_differs :
  concat interrupt_witness_a = concat interrupt_witness_b /\
  run interrupt_witness_ops interrupt_witness_a = [RInterrupted] /\
  run interrupt_witness_ops interrupt_witness_b = [RInterrupted] /\
  fst (run_cont interrupt_witness_ops interrupt_witness_a) = [RInterrupted; RData [98]] /\
  fst (run_cont interrupt_witness_ops interrupt_witness_b) = [RInterrupted; RData [99]].
Proof. exact interrupt_state_depends_on_chunking. Qed.
Print Assumptions after_interrupt_differs.

(* ---- the path from the byte source into the buffer (Model/Pump.v) ----
   A pump (wrapTransferInput, TrzszFilter.wrapOutput during a transfer, the relay pumps) calls
   Read on the source with a buffer of B bytes and hands every non-empty read on.  [evs] is
   what the source has ready at each call: a segment, possibly empty, possibly together with
   io.EOF.  Whatever the segmentation, the pump hands on exactly the delivered bytes, in
   order, in non-empty chunks of at most B bytes. *)
Theorem C03_source_to_buffer : forall B stop evs, (0 < B)%nat ->
  concat (pump_reads B stop evs) = delivered stop evs /\
  Forall (fun c => c <> [] /\ (length c <= B)%nat) (pump_reads B stop evs).
Proof. exact (fun B stop evs HB => conj (pump_reads_concat B stop evs) (pump_reads_shape B stop HB evs)). Qed.
Print Assumptions C03_source_to_buffer.

(* hence the lines and blocks read behind wrapTransferInput are the reference parse of the
   delivered bytes (of nothing, when in-band data is to be ignored because the tunnel is
   connected, or the transfer has been stopped): they depend neither on the segmentation of
   the source nor on the size of the read buffer *)
Theorem C03_source_reference : forall B tc st tn evs ops,
  run ops (pump_transfer B tc st tn evs) =
  ref_run ops (if negb (tc && negb tn) && negb st then delivered true evs else []).
Proof. exact pump_transfer_reference. Qed.
Print Assumptions C03_source_reference.

Theorem C03_source_segmentation_independent : forall B1 B2 tc st tn evs1 evs2 ops,
  delivered true evs1 = delivered true evs2 ->
  run ops (pump_transfer B1 tc st tn evs1) = run ops (pump_transfer B2 tc st tn evs2).
Proof. exact pump_transfer_independent. Qed.
Print Assumptions C03_source_segmentation_independent.

(* the same for the filter's pump, which reads on after EOF *)
Theorem C03_filter_source_reference : forall B tc st evs ops,
  run ops (pump_filter B tc st evs) =
  ref_run ops (if negb tc && negb st then delivered false evs else []).
Proof. exact pump_filter_reference. Qed.
Print Assumptions C03_filter_source_reference.

(* a relay pump parks a chunk for the handshake or forwards it, never both, never neither;
   what the handshake then reads is the reference parse of the delivered bytes *)
Theorem C03_relay_source_conserves : forall B hs tc tn evs,
  unread (fst (pump_relay B hs tc tn evs)) ++ concat (snd (pump_relay B hs tc tn evs)) = delivered true evs.
Proof. exact pump_relay_conserves. Qed.
Print Assumptions C03_relay_source_conserves.

Theorem C03_relay_source_reference : forall B hs tc tn evs ops,
  add_handshake hs tc tn = true ->
  run ops (fst (pump_relay B hs tc tn evs)) = ref_run ops (delivered true evs) /\
  snd (pump_relay B hs tc tn evs) = [].
Proof. exact pump_relay_reference. Qed.
Print Assumptions C03_relay_source_reference.

(* the read-buffer sizes regenerated from the source are positive *)
Theorem C03_pump_buffers_positive :
  (0 < transfer_buf_size /\ 0 < filter_buf_size /\ 0 < relay_stdin_buf_size /\
   0 < relay_stdout_buf_size /\ 0 < tunnel_in_buf_size /\ 0 < tunnel_out_buf_size)%nat.
Proof. exact pump_buf_sizes_positive. Qed.
Print Assumptions C03_pump_buffers_positive.

Example C03_source_example :
  run [OpLine false; OpBinary 4; OpLine false]
      (pump_transfer 3 false false false
         [SrcData [35; 68]; SrcData []; SrcData [58; 52; 10; 119; 120]; SrcEnd [10; 122; 35; 83; 10]; SrcData [1; 2; 10]]) =
  [RData [35; 68; 58; 52]; RData [119; 120; 10; 122]; RData [35; 83]].
Proof. vm_compute. reflexivity. Qed.

(* ---- the queue between the pump and the reader (Model/BufQueue.v) ----
   bufCh is a bounded FIFO; addBuffer is a send that waits while it is full (both read from
   the source as values and pinned by buffer_queue_src_ok).  The pump hands its reads to
   addBuffer in order, the reader takes chunks out; [sched] says whose turn it is, step after
   step, a goroutine that cannot move waits.  Under EVERY schedule, i.e. however far the reader
   lags behind: nothing is dropped, and taken ++ queued ++ not-yet-handed-over is the sequence
   of reads, in order; the two never wait for each other; every move made is one less to
   make; when none is left the reader has every chunk.  So the unbounded pending list of
   Model/Buffer.v and Model/Pump.v is what the reader sees. *)
Theorem C03_queue_never_loses : forall sched chunks,
  let s := qrun queue_capacity add_blocks sched (q_init chunks) in
  q_taken s ++ q_queue s ++ q_todo s = chunks /\ q_dropped s = [].
Proof.
  intros sched chunks. destruct buffer_queue_src_ok as [B _]. cbv zeta. rewrite B.
  exact (qrun_conserves queue_capacity sched (q_init chunks)).
Qed.
Print Assumptions C03_queue_never_loses.

Theorem C03_queue_never_stuck : forall s, (0 < q_measure s)%nat ->
  exists m s', qstep queue_capacity add_blocks m s = Some s'.
Proof. intros s H. exact (q_never_stuck _ _ s (proj2 buffer_queue_src_ok) H). Qed.
Print Assumptions C03_queue_never_stuck.

Theorem C03_queue_progress : forall m s s', qstep queue_capacity add_blocks m s = Some s' ->
  S (q_measure s') = q_measure s.
Proof.
  intros m s s' H. destruct buffer_queue_src_ok as [B _]. rewrite B in H.
  destruct (qstep_measure _ _ _ _ _ H) as [E|(_ & F & _)]; [exact E|discriminate].
Qed.
Print Assumptions C03_queue_progress.

Theorem C03_queue_delivers_all : forall sched chunks,
  q_measure (qrun queue_capacity add_blocks sched (q_init chunks)) = 0%nat ->
  q_taken (qrun queue_capacity add_blocks sched (q_init chunks)) = chunks.
Proof.
  intros sched chunks. destruct buffer_queue_src_ok as [B _]. rewrite B. intros H.
  exact (proj1 (q_done_all_taken _ _ _ H)).
Qed.
Print Assumptions C03_queue_delivers_all.

(* a producer that does not wait (`select { case b.bufCh <- buf: default: }`) loses chunks *)
Theorem C03_queue_nonblocking_refuted :
  q_taken (qrun 1 false [QProduce; QProduce; QConsume; QConsume] (q_init [[97]; [98]])) = [[97]] /\
  q_dropped (qrun 1 false [QProduce; QProduce; QConsume; QConsume] (q_init [[97]; [98]])) = [[98]].
Proof. exact q_nonblocking_loses. Qed.
Print Assumptions C03_queue_nonblocking_refuted.

(* non-vacuity: a wrapped junk line, a strict line and a block, split inside CR LF *)
Example C03_example :
  run [OpLine true; OpLine false; OpBinary 2; OpLine false]
      [[]; [35; 97; 13]; [10; 98; 10; 58]; []; [10; 1; 3; 99]] =
  [RData [35; 97; 98]; RData [58]; RData [1; 3]; RBlocked].
Proof. vm_compute. reflexivity. Qed.
