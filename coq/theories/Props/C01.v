(* C01 — End-to-end fidelity.  First milestone: the payload codec on the binary path
   (escape + arbitrary framing) reproduces the payload for every chunking; composed
   from C04.  The message-level exchange (Protocol.v) extends this file. *)
From Trzsz Require Import Base.Bytes Gen.Consts Model.Escape Proofs.Escape.

(* binary-mode payload path: sender escapes chunk by chunk (escapeWriter), the wire may
   cut the escaped stream anywhere (frames of arbitrary sizes, transport re-chunking),
   the receiver unescapes through the streaming reader with any caller buffer sizes:
   the bytes delivered are exactly the bytes sent *)
Theorem C01_binary_payload_path : forall t chunks frames sizes dflt,
  wf t = true -> bytes_ok (concat chunks) = true -> all_nonempty frames = true ->
  Forall (fun s => 1 <= s)%nat sizes -> (1 <= dflt)%nat ->
  concat frames = concat (ew_write t chunks) ->
  exists outs, er_run (er_fuel [] frames) t [] frames sizes dflt = (outs, EndEof [])
    /\ concat outs = concat chunks.
Proof.
  intros t chunks frames sizes dflt W B N S D E.
  rewrite ew_write_concat in E.
  destruct (stream t (concat chunks) frames sizes dflt W B N S D E) as (outs & R & C & _).
  exists outs. split; assumption.
Qed.
Print Assumptions C01_binary_payload_path.

(* ---- the codec layer L1 (Model/Base64.v, Model/Wire.v) ---- *)
From Trzsz Require Import Model.Base64 Model.Wire Proofs.Base64 Proofs.Wire.

(* base64 (encoding/base64 StdEncoding as transcribed): decode after encode is the identity *)
Theorem C01_b64_roundtrip : forall d, bytes_ok d = true -> b64_decode (b64_encode d) = Some d.
Proof. exact roundtrip. Qed.
Print Assumptions C01_b64_roundtrip.

Theorem C01_b64_length : forall d, length (b64_encode d) = (4 * ((length d + 2) / 3))%nat.
Proof. exact encode_length. Qed.
Print Assumptions C01_b64_length.

(* the streaming encoder (partial 3-byte groups buffered between Writes, Close pads):
   its total output is the encoding of the concatenated input, for every chunking *)
Theorem C01_b64_writer_concat : forall chunks, b64_writer_all chunks = b64_encode (concat chunks).
Proof. exact writer_concat. Qed.
Print Assumptions C01_b64_writer_concat.

(* CR / LF anywhere in the stream are skipped *)
Theorem C01_b64_decode_skips_newlines : forall d s, bytes_ok d = true -> b64_strip s = b64_encode d -> b64_decode s = Some d.
Proof. exact roundtrip_with_newlines. Qed.
Print Assumptions C01_b64_decode_skips_newlines.

(* base64-mode payload path, analogous to C01_binary_payload_path: the sender encodes
   chunk by chunk through the streaming encoder, the encoded stream is cut into frames
   anywhere (not only at multiples of 4), the receiver decodes the concatenation *)
Theorem C01_base64_payload_path : forall chunks frames,
  bytes_ok (concat chunks) = true -> concat frames = b64_writer_all chunks ->
  b64_decode (concat frames) = Some (concat chunks).
Proof. intros chunks frames B E. rewrite E, writer_concat. apply roundtrip, B. Qed.
Print Assumptions C01_base64_payload_path.

(* cutting a stream into frames of arbitrary sizes (the adaptive buffer size is an arbitrary
   list) loses nothing, makes no empty frame (the empty frame is the finish flag), and
   pipelineSendData's further splitting keeps both *)
Theorem C01_frames_concat : forall sizes dflt s, concat (wire_frames sizes dflt s) = s /\ all_nonempty (wire_frames sizes dflt s) = true.
Proof. intros. split; [apply frames_concat|apply frames_nonempty]. Qed.
Print Assumptions C01_frames_concat.

Theorem C01_resplit_concat : forall fs sizes dflt,
  concat (map snd (wire_resplit fs sizes dflt)) = concat fs /\
  (all_nonempty fs = true -> all_nonempty (map snd (wire_resplit fs sizes dflt)) = true).
Proof. intros. split; [apply resplit_concat|apply resplit_nonempty]. Qed.
Print Assumptions C01_resplit_concat.

(* L1: all four stacks ([zstd ->] escape | base64 -> frames).  zstd is external: any pair
   of functions with the streaming round trip whose compressor outputs bytes.  For every
   table that is absent or well-formed, every file content, every chunking of the file,
   every sequence of frame sizes, every sequence of read-buffer sizes on the receiving
   side: decoding the frames gives back the file. *)
Theorem C01_L1_roundtrip : forall zcomp zdecomp,
  (forall cs, zdecomp (concat (zcomp cs)) = Some (concat cs)) ->
  (forall cs, bytes_ok (concat (zcomp cs)) = true) ->
  forall binary compress t chunks sizes dflt rsizes rdflt,
  (t = [] \/ wf t = true) -> bytes_ok (concat chunks) = true ->
  Forall (fun s => 1 <= s)%nat rsizes -> (1 <= rdflt)%nat ->
  wire_decode zdecomp binary compress t
     (wire_frames sizes dflt (wire_encode zcomp binary compress t chunks)) rsizes rdflt = Some (concat chunks).
Proof. exact L1_roundtrip. Qed.
Print Assumptions C01_L1_roundtrip.

(* the same for ANY cutting of the encoded stream into non-empty frames (pipelineSendData's
   re-splitting, see C01_resplit_concat, is one) *)
Theorem C01_L1_roundtrip_frames : forall zcomp zdecomp,
  (forall cs, zdecomp (concat (zcomp cs)) = Some (concat cs)) ->
  (forall cs, bytes_ok (concat (zcomp cs)) = true) ->
  forall binary compress t chunks fs rsizes rdflt,
  (t = [] \/ wf t = true) -> bytes_ok (concat chunks) = true ->
  all_nonempty fs = true -> concat fs = wire_encode zcomp binary compress t chunks ->
  Forall (fun s => 1 <= s)%nat rsizes -> (1 <= rdflt)%nat ->
  wire_decode zdecomp binary compress t fs rsizes rdflt = Some (concat chunks).
Proof. exact L1_roundtrip_frames. Qed.
Print Assumptions C01_L1_roundtrip_frames.

(* the receiver's view: the DATA lines the sender writes for non-empty frames followed by the
   finish flag, read back line by line (a line ends at the first LF; binary mode: the line
   carries the length and the frame is the next n bytes), give exactly the frames and leave
   the rest of the wire unread.  In base64 mode the frames must consist of base64 characters
   (they do: frames_ok_send).  Reassembly of lines from arbitrary reads is C03. *)
Theorem C01_L1_frames_parse : forall binary fs rest fuel,
  forallb (frame_ok binary) fs = true -> (length fs < fuel)%nat ->
  wire_recv fuel binary (concat (map (wire_data_frame binary [LF]) (fs ++ [[]])) ++ rest) = Some (fs, rest).
Proof. exact L1_frames_parse. Qed.
Print Assumptions C01_L1_frames_parse.

Theorem C01_L1_frames_readable : forall zcomp binary compress t chunks fs,
  all_nonempty fs = true -> concat fs = wire_encode zcomp binary compress t chunks ->
  forallb (frame_ok binary) fs = true.
Proof. exact frames_ok_send. Qed.
Print Assumptions C01_L1_frames_readable.

(* protocol 1: every chunk coded on its own (base64(zlib(chunk)) or escaped); zlib external *)
Theorem C01_v1_chunk_roundtrip : forall zl unzl,
  (forall d, unzl (zl d) = Some d) -> (forall d, bytes_ok (zl d) = true) ->
  forall binary t chunk, (t = [] \/ wf t = true) -> bytes_ok chunk = true ->
  wire_v1_decode unzl binary t (if binary then escape t chunk else wire_encode_bytes zl chunk) = Some chunk.
Proof. exact v1_roundtrip. Qed.
Print Assumptions C01_v1_chunk_roundtrip.

(* decimal numbers on the wire read back as themselves *)
Theorem C01_decimal_roundtrip : forall n, wire_undec (wire_dec n) = Some n.
Proof. exact undec_dec. Qed.
Print Assumptions C01_decimal_roundtrip.

(* non-vacuity: the hypotheses are met by the identity "compressor" and the escape-all table *)
Example C01_L1_nonvacuous :
  let id1 := fun cs : list (list byte) => cs in
  wf (builtin_table true) = true /\
  wire_frames [3; 1]%nat 2 (wire_encode id1 true false (builtin_table true) [[126; 1]; [238; 27; 0]]) =
    [[238; 49; 1]; [238]; [238; 238]; [71; 0]] /\
  wire_decode (fun x => Some x) true false (builtin_table true) [[238; 49; 1]; [238]; [238; 238]; [71; 0]] [1%nat] 2 = Some [126; 1; 238; 27; 0] /\
  wire_frames [5%nat] 4 (wire_encode id1 false false [] [[77]; [97; 110]]) = [[84; 87; 70; 117]].
Proof. vm_compute. auto. Qed.

(* a base64 stream whose length (CR/LF not counted) is not a multiple of 4 is rejected, not guessed *)
Theorem C01_b64_rejects_bad_length : forall s, (length (b64_strip s) mod 4 <> 0)%nat -> b64_decode s = None.
Proof. exact decode_rejects_bad_length. Qed.
Print Assumptions C01_b64_rejects_bad_length.
