(* C01 — End-to-end fidelity.  First milestone: the payload codec on the binary path
   (escape + arbitrary framing) reproduces the payload for every chunking; composed
   from C04.  The message-level exchange (Protocol.v) extends this file. *)
From Trzsz Require Import Base.Bytes Gen.Consts Model.Escape Proofs.Escape.

(* binary-mode payload path: sender escapes chunk by chunk (escapeWriter), the wire may
   cut the escaped stream anywhere (frames of arbitrary sizes, transport re-chunking),
   the receiver unescapes through the streaming reader with any caller buffer sizes:
   the bytes delivered are exactly the bytes sent *)
Theorem C01_binary_payload_path : forall t chunks frames sizes dflt,
  wf t = true -> bytes_ok (concat chunks) = true -> all_nonempty frames = true ->
  Forall (fun s => 1 <= s)%nat sizes -> (1 <= dflt)%nat ->
  concat frames = concat (ew_write t chunks) ->
  exists outs, er_run (er_fuel [] frames) t [] frames sizes dflt = (outs, EndEof [])
    /\ concat outs = concat chunks.
Proof.
  intros t chunks frames sizes dflt W B N S D E.
  rewrite ew_write_concat in E.
  destruct (stream t (concat chunks) frames sizes dflt W B N S D E) as (outs & R & C & _).
  exists outs. split; assumption.
Qed.
Print Assumptions C01_binary_payload_path.
