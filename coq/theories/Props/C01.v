(* C01 — End-to-end fidelity.  First milestone: the payload codec on the binary path
   (escape + arbitrary framing) reproduces the payload for every chunking; composed
   from C04.  The message-level exchange (Protocol.v) extends this file. *)
From Trzsz Require Import Base.Bytes Gen.Consts Model.Escape Proofs.Escape.

(* binary-mode payload path: sender escapes chunk by chunk (escapeWriter), the wire may
   cut the escaped stream anywhere (frames of arbitrary sizes, transport re-chunking),
   the receiver unescapes through the streaming reader with any caller buffer sizes:
   the bytes delivered are exactly the bytes sent *)
Theorem C01_binary_payload_path : forall t chunks frames sizes dflt,
  wf t = true -> bytes_ok (concat chunks) = true -> all_nonempty frames = true ->
  Forall (fun s => 1 <= s)%nat sizes -> (1 <= dflt)%nat ->
  concat frames = concat (ew_write t chunks) ->
  exists outs, er_run (er_fuel [] frames) t [] frames sizes dflt = (outs, EndEof [])
    /\ concat outs = concat chunks.
Proof.
  intros t chunks frames sizes dflt W B N S D E.
  rewrite ew_write_concat in E.
  destruct (stream t (concat chunks) frames sizes dflt W B N S D E) as (outs & R & C & _).
  exists outs. split; assumption.
Qed.
Print Assumptions C01_binary_payload_path.

(* ---- the codec layer L1 (Model/Base64.v, Model/Wire.v) ---- *)
From Trzsz Require Import Model.Base64 Model.Wire Proofs.Base64 Proofs.Wire.

(* base64 (encoding/base64 StdEncoding as transcribed): decode after encode is the identity *)
Theorem C01_b64_roundtrip : forall d, bytes_ok d = true -> b64_decode (b64_encode d) = Some d.
Proof. exact roundtrip. Qed.
Print Assumptions C01_b64_roundtrip.

Theorem C01_b64_length : forall d, length (b64_encode d) = (4 * ((length d + 2) / 3))%nat.
Proof. exact encode_length. Qed.
Print Assumptions C01_b64_length.

(* the streaming encoder (partial 3-byte groups buffered between Writes, Close pads):
   its total output is the encoding of the concatenated input, for every chunking *)
Theorem C01_b64_writer_concat : forall chunks, b64_writer_all chunks = b64_encode (concat chunks).
Proof. exact writer_concat. Qed.
Print Assumptions C01_b64_writer_concat.

(* CR / LF anywhere in the stream are skipped *)
Theorem C01_b64_decode_skips_newlines : forall d s, bytes_ok d = true -> b64_strip s = b64_encode d -> b64_decode s = Some d.
Proof. exact roundtrip_with_newlines. Qed.
Print Assumptions C01_b64_decode_skips_newlines.

(* base64-mode payload path, analogous to C01_binary_payload_path: the sender encodes
   chunk by chunk through the streaming encoder, the encoded stream is cut into frames
   anywhere (not only at multiples of 4), the receiver decodes the concatenation *)
Theorem C01_base64_payload_path : forall chunks frames,
  bytes_ok (concat chunks) = true -> concat frames = b64_writer_all chunks ->
  b64_decode (concat frames) = Some (concat chunks).
Proof. intros chunks frames B E. rewrite E, writer_concat. apply roundtrip, B. Qed.
Print Assumptions C01_base64_payload_path.

(* cutting a stream into frames of arbitrary sizes (the adaptive buffer size is an arbitrary
   list) loses nothing, makes no empty frame (the empty frame is the finish flag), and
   pipelineSendData's further splitting keeps both *)
Theorem C01_frames_concat : forall sizes dflt s, concat (wire_frames sizes dflt s) = s /\ all_nonempty (wire_frames sizes dflt s) = true.
Proof. intros. split; [apply frames_concat|apply frames_nonempty]. Qed.
Print Assumptions C01_frames_concat.

Theorem C01_resplit_concat : forall fs sizes dflt,
  concat (map snd (wire_resplit fs sizes dflt)) = concat fs /\
  (all_nonempty fs = true -> all_nonempty (map snd (wire_resplit fs sizes dflt)) = true).
Proof. intros. split; [apply resplit_concat|apply resplit_nonempty]. Qed.
Print Assumptions C01_resplit_concat.

(* L1: all four stacks ([zstd ->] escape | base64 -> frames).  zstd is external: any pair
   of functions with the streaming round trip whose compressor outputs bytes.  For every
   table that is absent or well-formed, every file content, every chunking of the file,
   every sequence of frame sizes, every sequence of read-buffer sizes on the receiving
   side: decoding the frames gives back the file. *)
Theorem C01_L1_roundtrip : forall zcomp zdecomp,
  (forall cs, zdecomp (concat (zcomp cs)) = Some (concat cs)) ->
  (forall cs, bytes_ok (concat (zcomp cs)) = true) ->
  forall binary compress t chunks sizes dflt rsizes rdflt,
  (t = [] \/ wf t = true) -> bytes_ok (concat chunks) = true ->
  Forall (fun s => 1 <= s)%nat rsizes -> (1 <= rdflt)%nat ->
  wire_decode zdecomp binary compress t
     (wire_frames sizes dflt (wire_encode zcomp binary compress t chunks)) rsizes rdflt = Some (concat chunks).
Proof. exact L1_roundtrip. Qed.
Print Assumptions C01_L1_roundtrip.

(* the same for ANY cutting of the encoded stream into non-empty frames (pipelineSendData's
   re-splitting, see C01_resplit_concat, is one) *)
Theorem C01_L1_roundtrip_frames : forall zcomp zdecomp,
  (forall cs, zdecomp (concat (zcomp cs)) = Some (concat cs)) ->
  (forall cs, bytes_ok (concat (zcomp cs)) = true) ->
  forall binary compress t chunks fs rsizes rdflt,
  (t = [] \/ wf t = true) -> bytes_ok (concat chunks) = true ->
  all_nonempty fs = true -> concat fs = wire_encode zcomp binary compress t chunks ->
  Forall (fun s => 1 <= s)%nat rsizes -> (1 <= rdflt)%nat ->
  wire_decode zdecomp binary compress t fs rsizes rdflt = Some (concat chunks).
Proof. exact L1_roundtrip_frames. Qed.
Print Assumptions C01_L1_roundtrip_frames.

(* the receiver's view: the DATA lines the sender writes for non-empty frames followed by the
   finish flag, read back line by line (a line ends at the first LF; binary mode: the line
   carries the length and the frame is the next n bytes), give exactly the frames and leave
   the rest of the wire unread.  In base64 mode the frames must consist of base64 characters
   (they do: frames_ok_send).  Reassembly of lines from arbitrary reads is C03. *)
Theorem C01_L1_frames_parse : forall binary fs rest fuel,
  forallb (frame_ok binary) fs = true -> (length fs < fuel)%nat ->
  wire_recv fuel binary (concat (map (wire_data_frame binary [LF]) (fs ++ [[]])) ++ rest) = Some (fs, rest).
Proof. exact L1_frames_parse. Qed.
Print Assumptions C01_L1_frames_parse.

Theorem C01_L1_frames_readable : forall zcomp binary compress t chunks fs,
  all_nonempty fs = true -> concat fs = wire_encode zcomp binary compress t chunks ->
  forallb (frame_ok binary) fs = true.
Proof. exact frames_ok_send. Qed.
Print Assumptions C01_L1_frames_readable.

(* protocol 1: every chunk coded on its own (base64(zlib(chunk)) or escaped); zlib external *)
Theorem C01_v1_chunk_roundtrip : forall zl unzl,
  (forall d, unzl (zl d) = Some d) -> (forall d, bytes_ok (zl d) = true) ->
  forall binary t chunk, (t = [] \/ wf t = true) -> bytes_ok chunk = true ->
  wire_v1_decode unzl binary t (if binary then escape t chunk else wire_encode_bytes zl chunk) = Some chunk.
Proof. exact v1_roundtrip. Qed.
Print Assumptions C01_v1_chunk_roundtrip.

(* decimal numbers on the wire read back as themselves *)
Theorem C01_decimal_roundtrip : forall n, wire_undec (wire_dec n) = Some n.
Proof. exact undec_dec. Qed.
Print Assumptions C01_decimal_roundtrip.

(* non-vacuity: the hypotheses are met by the identity "compressor" and the escape-all table *)
Example C01_L1_nonvacuous :
  let id1 := fun cs : list (list byte) => cs in
  wf (builtin_table true) = true /\
  wire_frames [3; 1]%nat 2 (wire_encode id1 true false (builtin_table true) [[126; 1]; [238; 27; 0]]) =
    [[238; 49; 1]; [238]; [238; 238]; [71; 0]] /\
  wire_decode (fun x => Some x) true false (builtin_table true) [[238; 49; 1]; [238]; [238; 238]; [71; 0]] [1%nat] 2 = Some [126; 1; 238; 27; 0] /\
  wire_frames [5%nat] 4 (wire_encode id1 false false [] [[77]; [97; 110]]) = [[84; 87; 70; 117]].
Proof. vm_compute. auto. Qed.

(* a base64 stream whose length (CR/LF not counted) is not a multiple of 4 is rejected, not guessed *)
Theorem C01_b64_rejects_bad_length : forall s, (length (b64_strip s) mod 4 <> 0)%nat -> b64_decode s = None.
Proof. exact decode_rejects_bad_length. Qed.
Print Assumptions C01_b64_rejects_bad_length.

(* ======================= the whole transfer (Model/Transfer.v, "L3") =======================
   Sender and receiver as deterministic message-level machines composed over two perfect FIFO
   queues ([tr_run], explicit fuel; [tr_fuel] = the number of messages of the transfer).
   Protocol >= 2 (frames of ARBITRARY sizes, per-frame acks, final ack, COMP flag) and protocol 1
   (stop and wait); plain names and JSON names / directory mode; overwrite on and off through
   Names.v's creation functions on the abstract file system; upload and download (who says EXIT).
   External code is abstract: MD5 = [H] (nothing is assumed of it: on a fault-free link both ends
   hash the same bytes), digest comparison [deq] reflexive, zstd / zlib = any coder with the round
   trip whose output consists of bytes.
   NOT covered (the machines enter an ..Unmodelled phase, which no theorem counts as success): the
   archive stream for directories with protocol >= 4 and overwrite off (C15) and the resume
   exchange of protocol >= 3 onto a non-empty existing file (C08). *)
From Coq Require Import ZArith.
From Trzsz Require Import Model.Path Model.Fs Model.Names Model.RelayNeg Model.Transfer
  Proofs.PathFs Proofs.TransferFs Proofs.Transfer Proofs.RelayNeg.

Section C01_transfer.
Variable digest : Type.
Variable H : list byte -> digest.
Variable deq : digest -> digest -> bool.
Hypothesis deq_refl : forall a, deq a a = true.
Variable zcomp : list (list byte) -> list (list byte).
Variable zdecomp : list byte -> option (list byte).
Hypothesis z_roundtrip : forall cs, zdecomp (concat (zcomp cs)) = Some (concat cs).
Hypothesis z_bytes : forall cs, bytes_ok (concat (zcomp cs)) = true.
Variable zl : list byte -> list byte.
Variable unzl : list byte -> option (list byte).
Hypothesis zl_roundtrip : forall d, unzl (zl d) = Some d.
Hypothesis zl_bytes : forall d, bytes_ok (zl d) = true.

(* For every configuration, every list of source entries with a per-file schedule (frame sizes,
   the compression heuristic's verdict, the receiver's disk progress), every prior file system:
   if the escape table is absent or well-formed, the contents are bytes, the destination is a
   directory, the source list is well-formed ([tr_wf]: what checkPathsReadable / checkDuplicateNames
   guarantee) and the receiver's name handling accepts every entry ([tr_spec] <> None: no name
   exhaustion, no path collision, no resume — the premise of the Names theorems, cf.
   C07_consistent_names_full), then with fuel [tr_fuel] or more the run ends with BOTH sides
   reporting success, both queues empty, the sender's remote names = the receiver's local names,
   every entry at its place below its reported name with the source's bytes ([tr_tree_at]), and a
   transcript of the shape of the grammar. *)
Theorem C01_transfer : forall c d ess f0 per all stf,
  tr_table_ok c -> Forall (fun es => bytes_ok (te_data (fst es)) = true) ess ->
  stat f0 d = SFound Dir -> tr_wf c (map fst ess) ->
  tr_spec c d (map fst ess) (init_state f0) [] = Some (per, all, stf) ->
  forall fuel, (tr_fuel digest zcomp c ess <= fuel)%nat ->
  tr_outcome_ok c d f0 ess (tr_run digest H deq zcomp zdecomp zl unzl fuel c d ess f0).
Proof. exact (transfer_ok digest H deq zcomp zdecomp zl unzl deq_refl z_roundtrip z_bytes zl_roundtrip zl_bytes). Qed.

(* the run itself, exactly: final states, and the receiver's file system is the one Names.v computes *)
Theorem C01_transfer_final : forall c d ess f0 per all stf,
  tr_table_ok c -> Forall (fun es => bytes_ok (te_data (fst es)) = true) ess ->
  tr_spec c d (map fst ess) (init_state f0) [] = Some (per, all, stf) ->
  forall fuel, (tr_fuel digest zcomp c ess <= fuel)%nat ->
  tr_run digest H deq zcomp zdecomp zl unzl fuel c d ess f0 =
  mkConf digest (mkSS SpDone [] all) (mkRS RpDone O stf all []) [] [] (full_log digest H zcomp zl c ess per all).
Proof. exact (run_complete digest H deq zcomp zdecomp zl unzl deq_refl z_roundtrip z_bytes zl_roundtrip zl_bytes). Qed.

(* The converse direction of the same composition: whenever the run has enough fuel or has come
   to rest, success reported by EITHER side implies all of the above.  (If the receiver refuses an
   entry, or an unmodelled exchange would start, neither side ever reports success.) *)
Theorem C01_success_implies_identical : forall c d ess f0,
  tr_table_ok c -> Forall (fun es => bytes_ok (te_data (fst es)) = true) ess ->
  Forall (fun es => te_isdir (fst es) = true -> tr_json c = true) ess ->
  stat f0 d = SFound Dir -> tr_wf c (map fst ess) ->
  forall fuel,
  (tr_fuel digest zcomp c ess <= fuel)%nat \/ tr_quiet digest (tr_run digest H deq zcomp zdecomp zl unzl fuel c d ess f0) = true ->
  tr_sender_ok digest (tr_run digest H deq zcomp zdecomp zl unzl fuel c d ess f0) = true \/
  tr_receiver_ok digest (tr_run digest H deq zcomp zdecomp zl unzl fuel c d ess f0) = true ->
  tr_outcome_ok c d f0 ess (tr_run digest H deq zcomp zdecomp zl unzl fuel c d ess f0).
Proof. exact (success_implies_ok digest H deq zcomp zdecomp zl unzl deq_refl z_roundtrip z_bytes zl_roundtrip zl_bytes). Qed.

Theorem C01_refused_never_succeeds : forall c d ess f0,
  tr_table_ok c -> Forall (fun es => bytes_ok (te_data (fst es)) = true) ess ->
  Forall (fun es => te_isdir (fst es) = true -> tr_json c = true) ess ->
  tr_spec c d (map fst ess) (init_state f0) [] = None ->
  forall fuel, (tr_fuel digest zcomp c ess <= fuel)%nat ->
  tr_sender_ok digest (tr_run digest H deq zcomp zdecomp zl unzl fuel c d ess f0) = false /\
  tr_receiver_ok digest (tr_run digest H deq zcomp zdecomp zl unzl fuel c d ess f0) = false.
Proof. exact (run_incomplete digest H deq zcomp zdecomp zl unzl deq_refl z_roundtrip z_bytes zl_roundtrip zl_bytes). Qed.

(* The acceptance premise discharged by a condition on the inputs alone ([tr_ready]): clean names
   (checkFileName accepts them, no NUL, at most 255 bytes), no two entries at one place, parents
   first, one top-level name per path id, a clean destination path, and nothing in the way at the
   destination.  Then the transfer ALWAYS completes, for uploads and downloads, protocol 1 to 4,
   plain and directory mode, overwrite on and off, every frame-size schedule; the names are the
   names as sent; and the destination differs from what it was in the entries' own places only
   (so below the reported names it IS the source tree, nothing more). *)
Theorem C01_transfer_ready : forall c d ess f0,
  tr_table_ok c -> Forall (fun es => bytes_ok (te_data (fst es)) = true) ess ->
  stat f0 d = SFound Dir -> Forall tr_comp_ok d -> tr_ready c d f0 (map fst ess) ->
  forall fuel, (tr_fuel digest zcomp c ess <= fuel)%nat ->
  let cf := tr_run digest H deq zcomp zdecomp zl unzl fuel c d ess f0 in
  tr_outcome_ok c d f0 ess cf /\
  ss_names (cf_s digest cf) = fold_left tr_add_name (map (tr_key c) (map fst ess)) [] /\
  (forall q, q <> [] -> (forall e, In e (map fst ess) -> q <> tr_leaf_of c d e) ->
     lookup (st_fs (rs_st (cf_r digest cf))) q = lookup f0 q).
Proof. exact (transfer_ready digest H deq zcomp zdecomp zl unzl deq_refl z_roundtrip z_bytes zl_roundtrip zl_bytes). Qed.
End C01_transfer.

Print Assumptions C01_transfer.
Print Assumptions C01_transfer_final.
Print Assumptions C01_success_implies_identical.
Print Assumptions C01_refused_never_succeeds.
Print Assumptions C01_transfer_ready.

(* The sequence of message TYPES of a transfer is a word of the grammar
     NUM SUCC (NAME SUCC [SIZE SUCC [COMP] DATA* finish ack* SUCC+ MD5 SUCC])* EXIT       protocol >= 2
     NUM SUCC (NAME SUCC [SIZE SUCC (DATA SUCC)* MD5 SUCC])* EXIT                          protocol 1
   ([tr_shape_ok]: a deterministic automaton over the tags), for every configuration, entry list,
   schedule and list of local names: no hypothesis at all. *)
Theorem C01_transcript_shape : forall digest H zcomp zl c ess per all,
  tr_shape_ok digest (tr_pipeline c) (full_log digest H zcomp zl c ess per all) = true.
Proof. exact shape_ok. Qed.
Print Assumptions C01_transcript_shape.

(* both ends of a negotiated session (C14: direct or through relays that see the same
   Windows-server fact) run the transfer with one and the same configuration *)
Theorem C01_negotiated_same_cfg : forall g win es wa so cc upload, es = [] \/ same_win win es ->
  negotiate g win es wa = OutAgreed so cc -> tr_cfg_of so upload = tr_cfg_of cc upload.
Proof. exact negotiated_same_cfg. Qed.
Print Assumptions C01_negotiated_same_cfg.

(* the well-formedness of a source list is decidable *)
Theorem C01_wf_decidable : forall c es, tr_wfb c es = true -> tr_wf c es.
Proof. exact tr_wfb_ok. Qed.
Print Assumptions C01_wf_decidable.

(* the codec hypotheses are satisfiable (a unary, 0-terminated coding in place of zstd / zlib) *)
Theorem C01_codec_hypotheses_satisfiable :
  (forall cs, wit_zdecomp (concat (wit_zcomp cs)) = Some (concat cs)) /\
  (forall cs, bytes_ok (concat (wit_zcomp cs)) = true) /\
  (forall d, wit_unzl (wit_zl d) = Some d) /\ (forall d, bytes_ok (wit_zl d) = true).
Proof. exact wit_codec_ok. Qed.
Print Assumptions C01_codec_hypotheses_satisfiable.

(* ---- non-vacuity: concrete transfers meet every premise, and the run computes ---- *)
Definition ex_d : path := [[100]].                                 (* /d *)
(* a directory "a" with a file "x" in it, and a file "b"; /d already holds a file "a" *)
Definition ex_tree : list (tr_entry * tr_sched) :=
  let sc := mkTrSched [3; 1]%nat 2 false [0; 3] [1] in
  [(mkTrEntry 0 [[97]] true [], sc);
   (mkTrEntry 0 [[97]; [120]] false [[1; 126]; [238; 27]], sc);
   (mkTrEntry 1 [[98]] false [], sc)].
Definition ex_f0 : fs := [([[100]], Dir); ([[100]; [97]], File [9])].
Definition ex_run (c : tr_cfg) :=
  tr_run (list byte) (fun x => x) list_eqb wit_zcomp wit_zdecomp wit_zl wit_unzl
    (tr_fuel (list byte) wit_zcomp c ex_tree) c ex_d ex_tree ex_f0.
Definition ex_summary (c : tr_cfg) :=
  let cf := ex_run c in
  (tr_sender_ok _ cf, tr_receiver_ok _ cf, ss_names (cf_s _ cf), rs_names (cf_r _ cf),
   lookup (st_fs (rs_st (cf_r _ cf))) [[100]; [97; 46; 48]; [120]], lookup (st_fs (rs_st (cf_r _ cf))) [[100]; [97]],
   tr_shape_ok _ (tr_pipeline c) (cf_log _ cf)).

(* protocol 3, directory mode, overwrite off, binary with the escape-all table, download:
   the directory lands as "a.0" next to the old file "a", which keeps its bytes *)
Example C01_transfer_nonvacuous_v3 :
  let c := mkTrCfg 3 true true false 0 (builtin_table true) false in
  tr_table_ok c /\ Forall (fun es => bytes_ok (te_data (fst es)) = true) ex_tree /\
  stat ex_f0 ex_d = SFound Dir /\ tr_wf c (map fst ex_tree) /\
  (exists r, tr_spec c ex_d (map fst ex_tree) (init_state ex_f0) [] = Some r) /\
  ex_summary c = (true, true, [[97; 46; 48]; [98]], [[97; 46; 48]; [98]],
                  Some (File [1; 126; 238; 27]), Some (File [9]), true).
Proof.
  cbv zeta. split; [right; vm_compute; reflexivity|]. split; [repeat constructor|].
  split; [vm_compute; reflexivity|]. split; [apply tr_wfb_ok; vm_compute; reflexivity|].
  split; [eexists; vm_compute; reflexivity | vm_compute; reflexivity].
Qed.

(* protocol 2 (compressed base64 frames), directory mode, overwrite on, upload *)
Example C01_transfer_nonvacuous_v2 :
  let c := mkTrCfg 2 false true true 0 [] true in
  let f0 : fs := [([[100]], Dir)] in
  tr_wf c (map fst ex_tree) /\
  (exists r, tr_spec c ex_d (map fst ex_tree) (init_state f0) [] = Some r) /\
  (let cf := tr_run (list byte) (fun x => x) list_eqb wit_zcomp wit_zdecomp wit_zl wit_unzl
               (tr_fuel (list byte) wit_zcomp c ex_tree) c ex_d ex_tree f0 in
   (tr_sender_ok _ cf, tr_receiver_ok _ cf, ss_names (cf_s _ cf),
    lookup (st_fs (rs_st (cf_r _ cf))) [[100]; [97]; [120]], tr_shape_ok _ true (cf_log _ cf))) =
  (true, true, [[97]; [98]], Some (File [1; 126; 238; 27]), true).
Proof.
  cbv zeta. split; [apply tr_wfb_ok; vm_compute; reflexivity|].
  split; [eexists; vm_compute; reflexivity | vm_compute; reflexivity].
Qed.

(* protocol 1 (stop and wait, chunks of 3 then 2 bytes), plain names, overwrite off: two files
   with one base name land as "x" and "x.0" *)
Example C01_transfer_nonvacuous_v1 :
  let c := mkTrCfg 0 false false false 0 [] true in
  let sc := mkTrSched [3]%nat 2 false [] [] in
  let ess := [(mkTrEntry 0 [[120]] false [[1; 2; 3; 4; 5; 6]], sc); (mkTrEntry 1 [[120]] false [[7]], sc)] in
  let f0 : fs := [([[100]], Dir)] in
  tr_wf c (map fst ess) /\
  (let cf := tr_run (list byte) (fun x => x) list_eqb wit_zcomp wit_zdecomp wit_zl wit_unzl
               (tr_fuel (list byte) wit_zcomp c ess) c ex_d ess f0 in
   (tr_sender_ok _ cf, tr_receiver_ok _ cf, rs_names (cf_r _ cf),
    lookup (st_fs (rs_st (cf_r _ cf))) [[100]; [120]], lookup (st_fs (rs_st (cf_r _ cf))) [[100]; [120; 46; 48]],
    tr_shape_ok _ false (cf_log _ cf))) =
  (true, true, [[120]; [120; 46; 48]], Some (File [1; 2; 3; 4; 5; 6]), Some (File [7]), true).
Proof. cbv zeta. split; [apply tr_wfb_ok; vm_compute; reflexivity | vm_compute; reflexivity]. Qed.

(* and a refusal: the destination already holds a DIRECTORY "b", overwrite on: the file "b" cannot
   be created, neither side reports success *)
Example C01_refusal_nonvacuous :
  let c := mkTrCfg 2 false true true 0 [] true in
  let f0 : fs := [([[100]], Dir); ([[100]; [98]], Dir)] in
  tr_spec c ex_d (map fst ex_tree) (init_state f0) [] = None /\
  (let cf := tr_run (list byte) (fun x => x) list_eqb wit_zcomp wit_zdecomp wit_zl wit_unzl
               (tr_fuel (list byte) wit_zcomp c ex_tree) c ex_d ex_tree f0 in
   (tr_sender_ok _ cf, tr_receiver_ok _ cf)) = (false, false).
Proof. cbv zeta. split; vm_compute; reflexivity. Qed.

(* [tr_ready] is met by a small tree and an empty destination directory *)
Example C01_ready_nonvacuous :
  let c := mkTrCfg 4 true true true 0 (builtin_table false) true in
  tr_ready c ex_d [([[100]], Dir)] (map fst ex_tree) /\ Forall tr_comp_ok ex_d.
Proof.
  cbv zeta. split; [|repeat constructor].
  unfold tr_ready. split; [|split; [|split; [|split]]].
  - repeat constructor; try discriminate; intros; try reflexivity; discriminate.
  - apply (nodupb_ok path_eqb); [intros a b; apply path_eqb_eq | vm_compute; reflexivity].
  - intros pre e post Hes Ht. cbv [ex_tree map fst] in Hes.
    destruct pre as [|p0 [|p1 [|p2 pre]]]; cbn [app] in Hes; inversion Hes; subst; clear Hes.
    + exfalso. apply Ht. reflexivity.
    + eexists. split; [left; reflexivity|]. repeat split.
    + exfalso. apply Ht. reflexivity.
    + destruct pre; discriminate.
  - intros e e' [<-|[<-|[<-|[]]]] [<-|[<-|[<-|[]]]]; cbn; split; intro Hx; try reflexivity; discriminate.
  - intros e [<-|[<-|[<-|[]]]]; reflexivity.
Qed.


(* ---- the negotiated line terminator, Windows-console framing (Model/WireWin.v) ---- *)
From Trzsz Require Import Model.Buffer Model.Noise Model.WireWin Proofs.WireWin.

(* every DATA message pipelineSendData writes — a frame sent as assembled by sendDataWriter or
   a piece of a frame it had to cut again because the buffer size shrank — carries the
   NEGOTIATED newline, whatever it is: base64 mode the message is "#DATA:" payload newline,
   binary mode its header line is "#DATA:" length newline *)
Theorem C01_frame_terminated : forall binary nl (p : bool * list byte),
  exists body, ww_line_part binary (length (snd p)) (wire_render_piece binary nl p) = body ++ nl /\
    body = Consts.deliver_data_prefix ++ (if binary then wire_dec (N.of_nat (length (snd p))) else snd p).
Proof. exact piece_terminated. Qed.
Print Assumptions C01_frame_terminated.

Theorem C01_line_terminated : forall typ payload nl,
  wire_line typ payload nl = ([35] ++ typ ++ [58] ++ payload) ++ nl /\
  wire_pause_line typ nl = ([35] ++ typ ++ [58; 61]) ++ nl.
Proof. exact line_terminated. Qed.
Print Assumptions C01_line_terminated.

(* the receiver's view under the Windows framing "!\n" (regenerated from sendAction; the same
   '!' and LF the reader of C16 looks for: windows_newline_src_ok): the frames of one file,
   assembled or re-split in any way, followed by the finish flag, arriving in ANY chunking
   with the cursor anywhere, possibly behind the LF left over from the previous line, are
   read back exactly by recvLine's Windows branch (readLineOnWindows, which ends a line at
   '!' only); the rest of the stream stays unread (possibly behind that LF) *)
Theorem C01_frames_parse_windows : forall (ps : list (bool * list byte)) lead more off pend fuel,
  forallb (fun p => frame_ok false (snd p)) ps = true -> (length ps < fuel)%nat ->
  (lead = [] \/ lead = [LF]) ->
  concat pend = lead ++ ww_wire false Consts.windows_newline (ps ++ [(true, [])]) ++ more ->
  exists o p' lead', ww_recv fuel off pend = Some (map snd ps, (o, p')) /\
    (lead' = [] \/ lead' = [LF]) /\ concat p' = lead' ++ more.
Proof. exact frames_parse_windows. Qed.
Print Assumptions C01_frames_parse_windows.

(* L1 over a Windows-framed connection, end to end at the codec level: both base64 stacks,
   any file chunking, any frame sizes, any re-splitting by pipelineSendData, any chunking of
   the connection, any read-buffer sizes: the receiver decodes the file content *)
Theorem C01_L1_roundtrip_windows : forall zcomp zdecomp,
  (forall cs, zdecomp (concat (zcomp cs)) = Some (concat cs)) ->
  (forall cs, bytes_ok (concat (zcomp cs)) = true) ->
  forall compress t chunks sizes dflt ssizes rsizes rdflt more off pend,
  bytes_ok (concat chunks) = true ->
  Forall (fun s => 1 <= s)%nat rsizes -> (1 <= rdflt)%nat ->
  let ps := wire_resplit (wire_frames sizes dflt (wire_encode zcomp false compress t chunks)) ssizes dflt in
  concat pend = ww_wire false Consts.windows_newline (ps ++ [(true, [])]) ++ more ->
  exists fs o p', ww_recv (S (length ps)) off pend = Some (fs, (o, p')) /\
    wire_decode zdecomp false compress t fs rsizes rdflt = Some (concat chunks) /\
    (concat p' = more \/ concat p' = LF :: more).
Proof. exact L1_roundtrip_windows. Qed.
Print Assumptions C01_L1_roundtrip_windows.

(* non-vacuity, and what goes wrong when a re-split piece is written with "\n" instead: the
   frame "n9" as assembled, the frame "Cj" cut into "C" and "j", the finish flag, chunked *)
Example C01_windows_example :
  ww_recv 9 0%nat [[]; [35; 68; 65; 84; 65; 58; 110; 57; 33; 10; 35; 68; 65]; [84; 65; 58; 67; 33; 10; 35; 68; 65; 84; 65; 58; 106; 33];
               [10; 35; 68; 65; 84; 65; 58; 33; 10; 35; 77]]
    = Some ([[110; 57]; [67]; [106]], (9%nat, [[35; 77]])) /\
  (* the same wire with the two pieces ended by a bare LF: the pieces are lost *)
  ww_recv 9 0%nat [[]; [35; 68; 65; 84; 65; 58; 110; 57; 33; 10; 35; 68; 65]; [84; 65; 58; 67; 10; 35; 68; 65; 84; 65; 58; 106];
               [10; 35; 68; 65; 84; 65; 58; 33; 10; 35; 77]]
    = Some ([[110; 57]], (9%nat, [[35; 77]])).
Proof. vm_compute. split; reflexivity. Qed.
