(* C01 — End-to-end fidelity.  First milestone: the payload codec on the binary path
   (escape + arbitrary framing) reproduces the payload for every chunking; composed
   from C04.  The message-level exchange (Protocol.v) extends this file. *)
From Trzsz Require Import Base.Bytes Gen.Consts Model.Escape Proofs.Escape.

(* binary-mode payload path: sender escapes chunk by chunk (escapeWriter), the wire may
   cut the escaped stream anywhere (frames of arbitrary sizes, transport re-chunking),
   the receiver unescapes through the streaming reader with any caller buffer sizes:
   the bytes delivered are exactly the bytes sent *)
Theorem C01_binary_payload_path : forall t chunks frames sizes dflt,
  wf t = true -> bytes_ok (concat chunks) = true -> all_nonempty frames = true ->
  Forall (fun s => 1 <= s)%nat sizes -> (1 <= dflt)%nat ->
  concat frames = concat (ew_write t chunks) ->
  exists outs, er_run (er_fuel [] frames) t [] frames sizes dflt = (outs, EndEof [])
    /\ concat outs = concat chunks.
Proof.
  intros t chunks frames sizes dflt W B N S D E.
  rewrite ew_write_concat in E.
  destruct (stream t (concat chunks) frames sizes dflt W B N S D E) as (outs & R & C & _).
  exists outs. split; assumption.
Qed.
Print Assumptions C01_binary_payload_path.

(* ---- the codec layer L1 (Model/Base64.v, Model/Wire.v) ---- *)
From Trzsz Require Import Model.Base64 Model.Wire Proofs.Base64 Proofs.Wire.

(* base64 (encoding/base64 StdEncoding as transcribed): decode after encode is the identity *)
Theorem C01_b64_roundtrip : forall d, bytes_ok d = true -> b64_decode (b64_encode d) = Some d.
Proof. exact roundtrip. Qed.
Print Assumptions C01_b64_roundtrip.

Theorem C01_b64_length : forall d, length (b64_encode d) = (4 * ((length d + 2) / 3))%nat.
Proof. exact encode_length. Qed.
Print Assumptions C01_b64_length.

(* the streaming encoder (partial 3-byte groups buffered between Writes, Close pads):
   its total output is the encoding of the concatenated input, for every chunking *)
Theorem C01_b64_writer_concat : forall chunks, b64_writer_all chunks = b64_encode (concat chunks).
Proof. exact writer_concat. Qed.
Print Assumptions C01_b64_writer_concat.

(* CR / LF anywhere in the stream are skipped *)
Theorem C01_b64_decode_skips_newlines : forall d s, bytes_ok d = true -> b64_strip s = b64_encode d -> b64_decode s = Some d.
Proof. exact roundtrip_with_newlines. Qed.
Print Assumptions C01_b64_decode_skips_newlines.

(* base64-mode payload path, analogous to C01_binary_payload_path: the sender encodes
   chunk by chunk through the streaming encoder, the encoded stream is cut into frames
   anywhere (not only at multiples of 4), the receiver decodes the concatenation *)
Theorem C01_base64_payload_path : forall chunks frames,
  bytes_ok (concat chunks) = true -> concat frames = b64_writer_all chunks ->
  b64_decode (concat frames) = Some (concat chunks).
Proof. intros chunks frames B E. rewrite E, writer_concat. apply roundtrip, B. Qed.
Print Assumptions C01_base64_payload_path.

(* cutting a stream into frames of arbitrary sizes (the adaptive buffer size is an arbitrary
   list) loses nothing, makes no empty frame (the empty frame is the finish flag), and
   pipelineSendData's further splitting keeps both *)
Theorem C01_frames_concat : forall sizes dflt s, concat (wire_frames sizes dflt s) = s /\ all_nonempty (wire_frames sizes dflt s) = true.
Proof. intros. split; [apply frames_concat|apply frames_nonempty]. Qed.
Print Assumptions C01_frames_concat.

Theorem C01_resplit_concat : forall fs sizes dflt,
  concat (map snd (wire_resplit fs sizes dflt)) = concat fs /\
  (all_nonempty fs = true -> all_nonempty (map snd (wire_resplit fs sizes dflt)) = true).
Proof. intros. split; [apply resplit_concat|apply resplit_nonempty]. Qed.
Print Assumptions C01_resplit_concat.

(* L1: all four stacks ([zstd ->] escape | base64 -> frames).  zstd is external: any pair
   of functions with the streaming round trip whose compressor outputs bytes.  For every
   table that is absent or well-formed, every file content, every chunking of the file,
   every sequence of frame sizes, every sequence of read-buffer sizes on the receiving
   side: decoding the frames gives back the file. *)
Theorem C01_L1_roundtrip : forall zcomp zdecomp,
  (forall cs, zdecomp (concat (zcomp cs)) = Some (concat cs)) ->
  (forall cs, bytes_ok (concat (zcomp cs)) = true) ->
  forall binary compress t chunks sizes dflt rsizes rdflt,
  (t = [] \/ wf t = true) -> bytes_ok (concat chunks) = true ->
  Forall (fun s => 1 <= s)%nat rsizes -> (1 <= rdflt)%nat ->
  wire_decode zdecomp binary compress t
     (wire_frames sizes dflt (wire_encode zcomp binary compress t chunks)) rsizes rdflt = Some (concat chunks).
Proof. exact L1_roundtrip. Qed.
Print Assumptions C01_L1_roundtrip.

(* the same for ANY cutting of the encoded stream into non-empty frames (pipelineSendData's
   re-splitting, see C01_resplit_concat, is one) *)
Theorem C01_L1_roundtrip_frames : forall zcomp zdecomp,
  (forall cs, zdecomp (concat (zcomp cs)) = Some (concat cs)) ->
  (forall cs, bytes_ok (concat (zcomp cs)) = true) ->
  forall binary compress t chunks fs rsizes rdflt,
  (t = [] \/ wf t = true) -> bytes_ok (concat chunks) = true ->
  all_nonempty fs = true -> concat fs = wire_encode zcomp binary compress t chunks ->
  Forall (fun s => 1 <= s)%nat rsizes -> (1 <= rdflt)%nat ->
  wire_decode zdecomp binary compress t fs rsizes rdflt = Some (concat chunks).
Proof. exact L1_roundtrip_frames. Qed.
Print Assumptions C01_L1_roundtrip_frames.

(* the receiver's view: the DATA lines the sender writes for non-empty frames followed by the
   finish flag, read back line by line (a line ends at the first LF; binary mode: the line
   carries the length and the frame is the next n bytes), give exactly the frames and leave
   the rest of the wire unread.  In base64 mode the frames must consist of base64 characters
   (they do: frames_ok_send).  Reassembly of lines from arbitrary reads is C03. *)
Theorem C01_L1_frames_parse : forall binary fs rest fuel,
  forallb (frame_ok binary) fs = true -> (length fs < fuel)%nat ->
  wire_recv fuel binary (concat (map (wire_data_frame binary [LF]) (fs ++ [[]])) ++ rest) = Some (fs, rest).
Proof. exact L1_frames_parse. Qed.
Print Assumptions C01_L1_frames_parse.

Theorem C01_L1_frames_readable : forall zcomp binary compress t chunks fs,
  all_nonempty fs = true -> concat fs = wire_encode zcomp binary compress t chunks ->
  forallb (frame_ok binary) fs = true.
Proof. exact frames_ok_send. Qed.
Print Assumptions C01_L1_frames_readable.

(* protocol 1: every chunk coded on its own (base64(zlib(chunk)) or escaped); zlib external *)
Theorem C01_v1_chunk_roundtrip : forall zl unzl,
  (forall d, unzl (zl d) = Some d) -> (forall d, bytes_ok (zl d) = true) ->
  forall binary t chunk, (t = [] \/ wf t = true) -> bytes_ok chunk = true ->
  wire_v1_decode unzl binary t (if binary then escape t chunk else wire_encode_bytes zl chunk) = Some chunk.
Proof. exact v1_roundtrip. Qed.
Print Assumptions C01_v1_chunk_roundtrip.

(* decimal numbers on the wire read back as themselves *)
Theorem C01_decimal_roundtrip : forall n, wire_undec (wire_dec n) = Some n.
Proof. exact undec_dec. Qed.
Print Assumptions C01_decimal_roundtrip.

(* non-vacuity: the hypotheses are met by the identity "compressor" and the escape-all table *)
Example C01_L1_nonvacuous :
  let id1 := fun cs : list (list byte) => cs in
  wf (builtin_table true) = true /\
  wire_frames [3; 1]%nat 2 (wire_encode id1 true false (builtin_table true) [[126; 1]; [238; 27; 0]]) =
    [[238; 49; 1]; [238]; [238; 238]; [71; 0]] /\
  wire_decode (fun x => Some x) true false (builtin_table true) [[238; 49; 1]; [238]; [238; 238]; [71; 0]] [1%nat] 2 = Some [126; 1; 238; 27; 0] /\
  wire_frames [5%nat] 4 (wire_encode id1 false false [] [[77]; [97; 110]]) = [[84; 87; 70; 117]].
Proof. vm_compute. auto. Qed.

(* a base64 stream whose length (CR/LF not counted) is not a multiple of 4 is rejected, not guessed *)
Theorem C01_b64_rejects_bad_length : forall s, (length (b64_strip s) mod 4 <> 0)%nat -> b64_decode s = None.
Proof. exact decode_rejects_bad_length. Qed.
Print Assumptions C01_b64_rejects_bad_length.

(* ======================= the whole transfer (Model/Transfer.v, "L3") =======================
   Sender and receiver as deterministic message-level machines composed over two perfect FIFO
   queues ([tr_run], explicit fuel; [tr_fuel] = the number of messages of the transfer).
   Protocol >= 2 (frames of ARBITRARY sizes, per-frame acks, final ack, COMP flag) and protocol 1
   (stop and wait); plain names and JSON names / directory mode; overwrite on and off through
   Names.v's creation functions on the abstract file system; upload and download (who says EXIT);
   the ARCHIVE stream (protocol >= 4, overwrite off: archiveSourceFiles = [tr_group] bundles the
   entries of a path id, the item is named with archive:true and its file is the entry stream of
   Model/Archive.v, read with any buffer sizes, written through the archive writer cut in any way,
   composed with the lemmas behind C15_reader / C15_size / C15_writer); the RESUME exchange (protocol
   >= 3 onto a non-empty existing file: the HASH records / answers / Over of Model/Resume.v message by
   message, then the rest of the file from the agreed offset, composed with the lemmas behind
   C08_agree / C08_identical).  No mode is left out: the machines have no "unmodelled" phase.
   External code is abstract: MD5 of a whole file = [H] (nothing is assumed of it: on a fault-free
   link both ends hash the same bytes), digest comparison [deq] reflexive, zstd / zlib = any coder
   with the round trip whose output consists of bytes, the hex digest of a prefix = [hx] (resume: the
   compared prefixes do not collide - C08_identical's premise, [tr_resume_safe]), the header coding of
   archive entries = [ahdr] / [aparse] (decoder inverts encoder on the entries at hand, no newline and
   only bytes in an encoded header - C15's premise, [tr_hdrs_ok]).
   [tr_run] takes the list checkPathsReadable produces; [tr_group c ess] is the list sendFiles loops
   over (the items); the premises speak about the items. *)
From Coq Require Import ZArith.
From Trzsz Require Import Model.Path Model.Fs Model.Names Model.RelayNeg Model.Transfer
  Proofs.PathFs Proofs.TransferFs Proofs.Transfer Proofs.TransferGroup Proofs.RelayNeg.
From Trzsz Require Model.Resume Model.Archive.

Section C01_transfer.
Variable digest : Type.
Variable H : list byte -> digest.
Variable deq : digest -> digest -> bool.
Hypothesis deq_refl : forall a, deq a a = true.
Variable zcomp : list (list byte) -> list (list byte).
Variable zdecomp : list byte -> option (list byte).
Hypothesis z_roundtrip : forall cs, zdecomp (concat (zcomp cs)) = Some (concat cs).
Hypothesis z_bytes : forall cs, bytes_ok (concat (zcomp cs)) = true.
Variable zl : list byte -> list byte.
Variable unzl : list byte -> option (list byte).
Hypothesis zl_roundtrip : forall d, unzl (zl d) = Some d.
Hypothesis zl_bytes : forall d, bytes_ok (zl d) = true.
Variable hx : list byte -> Resume.digest.
Variable ahdr : src -> Z -> list byte.
Variable aparse : list byte -> option (src * Z).

Notation run := (tr_run digest H deq zcomp zdecomp zl unzl hx ahdr aparse).
Notation fuel_of := (tr_fuel digest zcomp hx ahdr aparse).
Notation spec_of := (tr_spec hx ahdr aparse).

(* For every configuration, every list of source entries with a per-file schedule (frame sizes,
   the compression heuristic's verdict, the receiver's disk progress, when the hash sender stops, the
   buffer sizes of the archive reader and writer), every prior file system:
   if the escape table is absent or well-formed, the contents are bytes, the destination is a
   directory, the list sendFiles loops over is well-formed ([tr_wf]: what checkPathsReadable /
   checkDuplicateNames / archiveSourceFiles guarantee), the headers of archive entries decode
   ([tr_hdrs_ok]), the prefix digests a resume compares do not collide ([tr_resume_safe]) and the
   receiver's name handling accepts every item ([tr_spec] <> None: no name exhaustion, no path
   collision, the resume exchange completes - the premise of the Names theorems, cf.
   C07_consistent_names_full), then with fuel [tr_fuel] or more the run ends with BOTH sides
   reporting success, both queues empty, the sender's remote names = the receiver's local names,
   every member of every item (itself and its SubFiles) at its place below its reported name with
   the source's bytes ([tr_tree_at]), and a transcript of the shape of the grammar. *)
Theorem C01_transfer : forall c d ess f0 per all stf,
  let items := tr_group c ess in
  tr_table_ok c -> tr_bytes_ok items ->
  stat f0 d = SFound Dir -> tr_wf c (map fst items) -> tr_hdrs_ok ahdr aparse (map fst items) ->
  tr_resume_safe hx ahdr aparse c d items (init_state f0) ->
  spec_of c d items (init_state f0) [] = Some (per, all, stf) ->
  forall fuel, (fuel_of c d ess f0 <= fuel)%nat ->
  tr_outcome_ok c d f0 items (run fuel c d ess f0).
Proof.
  intros c d ess f0 per all stf.
  exact (transfer_ok digest H deq zcomp zdecomp zl unzl hx ahdr aparse deq_refl z_roundtrip z_bytes zl_roundtrip zl_bytes
           c d (tr_group c ess) f0 per all stf).
Qed.

(* the run itself, exactly: final states, and the receiver's file system is the one the specification computes *)
Theorem C01_transfer_final : forall c d ess f0 per all stf,
  let items := tr_group c ess in
  tr_table_ok c -> tr_bytes_ok items -> tr_wf c (map fst items) -> tr_hdrs_ok ahdr aparse (map fst items) ->
  spec_of c d items (init_state f0) [] = Some (per, all, stf) ->
  forall fuel, (fuel_of c d ess f0 <= fuel)%nat ->
  run fuel c d ess f0 =
  mkConf digest (mkSS SpDone [] all) (mkRS RpDone O stf all []) [] [] (full_log digest H zcomp zl hx ahdr aparse c d items f0 per all).
Proof.
  intros c d ess f0 per all stf items Ht Hb Hwf Hh.
  exact (run_complete digest H deq zcomp zdecomp zl unzl hx ahdr aparse deq_refl z_roundtrip z_bytes zl_roundtrip zl_bytes
           c d items f0 per all stf Ht (items_ok ahdr aparse c items Hb Hwf Hh)).
Qed.

(* The converse direction of the same composition: whenever the run has enough fuel or has come
   to rest, success reported by EITHER side implies all of the above.  (If the receiver refuses an
   item, or the hash sender of a resume stops before the verdict, neither side ever reports success.) *)
Theorem C01_success_implies_identical : forall c d ess f0,
  let items := tr_group c ess in
  tr_table_ok c -> tr_bytes_ok items ->
  Forall (fun es => te_isdir (fst es) = true -> tr_json c = true) items ->
  stat f0 d = SFound Dir -> tr_wf c (map fst items) -> tr_hdrs_ok ahdr aparse (map fst items) ->
  tr_resume_safe hx ahdr aparse c d items (init_state f0) ->
  forall fuel,
  (fuel_of c d ess f0 <= fuel)%nat \/ tr_quiet digest (run fuel c d ess f0) = true ->
  tr_sender_ok digest (run fuel c d ess f0) = true \/ tr_receiver_ok digest (run fuel c d ess f0) = true ->
  tr_outcome_ok c d f0 items (run fuel c d ess f0).
Proof.
  intros c d ess f0.
  exact (success_implies_ok digest H deq zcomp zdecomp zl unzl hx ahdr aparse deq_refl z_roundtrip z_bytes zl_roundtrip zl_bytes
           c d (tr_group c ess) f0).
Qed.

Theorem C01_refused_never_succeeds : forall c d ess f0,
  let items := tr_group c ess in
  tr_table_ok c -> tr_bytes_ok items ->
  Forall (fun es => te_isdir (fst es) = true -> tr_json c = true) items ->
  tr_wf c (map fst items) -> tr_hdrs_ok ahdr aparse (map fst items) ->
  spec_of c d items (init_state f0) [] = None ->
  forall fuel, (fuel_of c d ess f0 <= fuel)%nat ->
  tr_sender_ok digest (run fuel c d ess f0) = false /\ tr_receiver_ok digest (run fuel c d ess f0) = false.
Proof.
  intros c d ess f0 items Ht Hb Hdj Hwf Hh.
  exact (run_incomplete digest H deq zcomp zdecomp zl unzl hx ahdr aparse deq_refl z_roundtrip z_bytes zl_roundtrip zl_bytes
           c d items f0 Ht (items_ok ahdr aparse c items Hb Hwf Hh) Hdj).
Qed.

(* The acceptance premise discharged by a condition on the inputs alone ([tr_ready]): clean names
   (checkFileName accepts them, no NUL, at most 255 bytes), no two entries at one place, parents
   first, one top-level name per path id, a clean destination path; at the destination nothing in the
   way - or, with overwrite on, a regular file where a file goes (protocol >= 3 then RESUMES onto it;
   the hash sender stops only after the verdict and the compared prefix digests do not collide);
   SubFiles (archive mode) well-formed below a directory.  Then the transfer ALWAYS completes, for
   uploads and downloads, protocol 1 to 4, plain and directory mode, overwrite on and off, the archive
   stream and the resume exchange included, for every schedule; the names are the names as sent; and
   the destination differs from what it was in the entries' own places only (an archive: in what is
   below its name). *)
Theorem C01_transfer_ready : forall c d ess f0,
  let items := tr_group c ess in
  tr_table_ok c -> tr_bytes_ok items ->
  stat f0 d = SFound Dir -> Forall tr_comp_ok d -> tr_ready hx c d f0 items -> tr_hdrs_ok ahdr aparse (map fst items) ->
  forall fuel, (fuel_of c d ess f0 <= fuel)%nat ->
  let cf := run fuel c d ess f0 in
  tr_outcome_ok c d f0 items cf /\
  ss_names (cf_s digest cf) = fold_left tr_add_name (map (tr_key c) (map fst items)) [] /\
  (forall q, q <> [] ->
     (forall e, In e (map fst items) -> q <> tr_leaf_of c d e /\ (te_subs e <> [] -> is_prefix (tr_leaf_of c d e) q = false)) ->
     lookup (st_fs (rs_st (cf_r digest cf))) q = lookup f0 q).
Proof.
  intros c d ess f0.
  exact (transfer_ready digest H deq zcomp zdecomp zl unzl hx ahdr aparse deq_refl z_roundtrip z_bytes zl_roundtrip zl_bytes
           c d (tr_group c ess) f0).
Qed.
End C01_transfer.

Print Assumptions C01_transfer.
Print Assumptions C01_transfer_final.
Print Assumptions C01_success_implies_identical.
Print Assumptions C01_refused_never_succeeds.
Print Assumptions C01_transfer_ready.

(* The sequence of message TYPES of a transfer is a word of the grammar
     NUM SUCC (NAME SUCC [resume] [SIZE SUCC [COMP] DATA* finish ack* SUCC+ MD5 SUCC])* EXIT       protocol >= 2
        resume = [SIZE] (HASH | hash-ack)* Over hash-ack*   (protocol >= 3; the SIZE only below protocol 4)
     NUM SUCC (NAME SUCC [SIZE SUCC (DATA SUCC)* MD5 SUCC])* EXIT                                    protocol 1
   ([tr_shape_ok]: a deterministic automaton over the tags; an archive is a NAME - with archive:true -
   whose file is the archive stream: the same words), for every configuration, item list, schedule,
   prior file system and list of local names: no hypothesis at all. *)
Theorem C01_transcript_shape : forall digest H zcomp zl hx ahdr aparse c d items f0 per all,
  tr_shape_ok digest (tr_pipeline c) (full_log digest H zcomp zl hx ahdr aparse c d items f0 per all) = true.
Proof. exact shape_ok. Qed.
Print Assumptions C01_transcript_shape.

(* archiveSourceFiles as modelled: the items stand for exactly the source entries - every entry is
   the item itself or one of the SubFiles of some item, and nothing else is *)
Theorem C01_group_members : forall c ess, (forall es, In es ess -> te_subs (fst es) = []) ->
  forall e, In e (map fst ess) <-> exists it, In it (map fst (tr_group c ess)) /\ In e (tr_members it).
Proof. exact group_members. Qed.
Print Assumptions C01_group_members.

(* both ends of a negotiated session (C14: direct or through relays that see the same
   Windows-server fact) run the transfer with one and the same configuration *)
Theorem C01_negotiated_same_cfg : forall g win es wa so cc upload, es = [] \/ same_win win es ->
  negotiate g win es wa = OutAgreed so cc -> tr_cfg_of so upload = tr_cfg_of cc upload.
Proof. exact negotiated_same_cfg. Qed.
Print Assumptions C01_negotiated_same_cfg.

(* the well-formedness of an item list is decidable *)
Theorem C01_wf_decidable : forall c es, tr_wfb c es = true -> tr_wf c es.
Proof. exact tr_wfb_ok. Qed.
Print Assumptions C01_wf_decidable.

(* the codec hypotheses are satisfiable (a unary, 0-terminated coding in place of zstd / zlib) *)
Theorem C01_codec_hypotheses_satisfiable :
  (forall cs, wit_zdecomp (concat (wit_zcomp cs)) = Some (concat cs)) /\
  (forall cs, bytes_ok (concat (wit_zcomp cs)) = true) /\
  (forall d, wit_unzl (wit_zl d) = Some d) /\ (forall d, bytes_ok (wit_zl d) = true).
Proof. exact wit_codec_ok. Qed.
Print Assumptions C01_codec_hypotheses_satisfiable.

(* ---- non-vacuity: concrete transfers meet every premise, and the run computes ---- *)
Definition ex_d : path := [[100]].                                 (* /d *)
Definition ex_sc : tr_sched := mkTrSched [3; 1]%nat 2 false [0; 3] [1] None [2; 0]%nat 1 [4]%nat 3.
(* a directory "a" with a file "x" in it, and a file "b"; /d already holds a file "a" *)
Definition ex_tree : list (tr_entry * tr_sched) :=
  [(mkTrEntry 0 [[97]] true [] [], ex_sc);
   (mkTrEntry 0 [[97]; [120]] false [[1; 126]; [238; 27]] [], ex_sc);
   (mkTrEntry 1 [[98]] false [] [], ex_sc)].
Definition ex_f0 : fs := [([[100]], Dir); ([[100]; [97]], File [9])].
(* the abstract external functions of the two sub-protocols, for the examples: the prefix digest is the
   prefix itself (collision-free by construction); the header of the one archive entry there is (a/x,
   4 bytes) is the line "7", which decodes to that record *)
Definition ex_hx (l : list byte) : Resume.digest := l.
Definition ex_ax : src := {| s_id := 0; s_rel := [[97]; [120]]; s_isdir := false; s_archive := false |}.
Definition ex_ahdr (s : src) (sz : Z) : list byte := [55].
Definition ex_aparse (raw : list byte) : option (src * Z) := match raw with [55] => Some (ex_ax, 4%Z) | _ => None end.
Definition ex_run (c : tr_cfg) (ess : list (tr_entry * tr_sched)) (f0 : fs) :=
  tr_run (list byte) (fun x => x) list_eqb wit_zcomp wit_zdecomp wit_zl wit_unzl ex_hx ex_ahdr ex_aparse
    (tr_fuel (list byte) wit_zcomp ex_hx ex_ahdr ex_aparse c ex_d ess f0) c ex_d ess f0.
Definition ex_spec (c : tr_cfg) (ess : list (tr_entry * tr_sched)) (f0 : fs) :=
  tr_spec ex_hx ex_ahdr ex_aparse c ex_d (tr_group c ess) (init_state f0) [].
Definition ex_summary (c : tr_cfg) :=
  let cf := ex_run c ex_tree ex_f0 in
  (tr_sender_ok _ cf, tr_receiver_ok _ cf, ss_names (cf_s _ cf), rs_names (cf_r _ cf),
   lookup (st_fs (rs_st (cf_r _ cf))) [[100]; [97; 46; 48]; [120]], lookup (st_fs (rs_st (cf_r _ cf))) [[100]; [97]],
   tr_shape_ok _ (tr_pipeline c) (cf_log _ cf)).

(* protocol 3, directory mode, overwrite off, binary with the escape-all table, download:
   the directory lands as "a.0" next to the old file "a", which keeps its bytes *)
Example C01_transfer_nonvacuous_v3 :
  let c := mkTrCfg 3 true true false 0 (builtin_table true) false in
  tr_table_ok c /\ tr_bytes_ok (tr_group c ex_tree) /\
  stat ex_f0 ex_d = SFound Dir /\ tr_wf c (map fst (tr_group c ex_tree)) /\
  (exists r, ex_spec c ex_tree ex_f0 = Some r) /\
  ex_summary c = (true, true, [[97; 46; 48]; [98]], [[97; 46; 48]; [98]],
                  Some (File [1; 126; 238; 27]), Some (File [9]), true).
Proof.
  cbv zeta. split; [right; vm_compute; reflexivity|]. split; [repeat constructor|].
  split; [vm_compute; reflexivity|]. split; [apply tr_wfb_ok; vm_compute; reflexivity|].
  split; [eexists; vm_compute; reflexivity | vm_compute; reflexivity].
Qed.

(* the ARCHIVE stream: protocol 4, directory mode, overwrite off, upload - the same tree goes out as
   two items: "a" (archive:true, SubFiles [a/x], its file = the line "7", a newline, the 4 bytes) and
   "b"; the receiver's writer rebuilds a.0/x; NUM is 2 *)
Example C01_transfer_nonvacuous_archive :
  let c := mkTrCfg 4 false true false 0 [] true in
  let items := tr_group c ex_tree in
  map (fun es => (te_rel (fst es), map te_rel (te_subs (fst es)))) items = [([[97]], [[[97]; [120]]]); ([[98]], [])] /\
  tr_bytes_ok items /\ tr_wf c (map fst items) /\ tr_hdrs_ok ex_ahdr ex_aparse (map fst items) /\
  (exists r, ex_spec c ex_tree ex_f0 = Some r) /\
  (let cf := ex_run c ex_tree ex_f0 in
   (tr_sender_ok _ cf, tr_receiver_ok _ cf, ss_names (cf_s _ cf), rs_names (cf_r _ cf),
    lookup (st_fs (rs_st (cf_r _ cf))) [[100]; [97; 46; 48]; [120]], lookup (st_fs (rs_st (cf_r _ cf))) [[100]; [97; 46; 48]],
    lookup (st_fs (rs_st (cf_r _ cf))) [[100]; [97]], hd_error (cf_log _ cf), tr_shape_ok _ true (cf_log _ cf))) =
  (true, true, [[97; 46; 48]; [98]], [[97; 46; 48]; [98]], Some (File [1; 126; 238; 27]), Some Dir, Some (File [9]),
   Some (true, TrNum _ 2), true).
Proof.
  cbv zeta. split; [vm_compute; reflexivity|]. split; [repeat constructor|].
  split; [apply tr_wfb_ok; vm_compute; reflexivity|].
  split.
  { intros e s He Hs. cbn in He. destruct He as [<-|[<-|[]]]; cbn in Hs; [|destruct Hs]. destruct Hs as [<-|[]].
    repeat split; [intros [Hx|[]]; discriminate Hx]. }
  split; [eexists; vm_compute; reflexivity | vm_compute; reflexivity].
Qed.

(* the RESUME exchange: protocol 3 and 4, overwrite on, the file "b" (6 bytes) onto an existing "b" that
   shares its first 2 bytes and is longer: one HASH record (the block size is 10 MiB), it does not match,
   the file is cut at 0 and written whole; and onto a "b" that is a prefix of the source: it matches,
   only the rest is sent.  The hash sender stops after its first record (after the verdict) *)
Definition ex_rsc : tr_sched := mkTrSched [3]%nat 2 false [] [] (Some 1%nat) [] 0 [] 1.
Definition ex_rfile : list (tr_entry * tr_sched) := [(mkTrEntry 0 [[98]] false [[1; 2; 3]; [4; 5; 6]] [], ex_rsc)].
Definition ex_rtags (c : tr_cfg) (f0 : fs) :=
  let cf := ex_run c ex_rfile f0 in
  (tr_sender_ok _ cf, tr_receiver_ok _ cf, lookup (st_fs (rs_st (cf_r _ cf))) [[100]; [98]],
   map (fun dm => tr_tag_of _ (snd dm)) (cf_log _ cf), tr_shape_ok _ true (cf_log _ cf)).
Example C01_transfer_nonvacuous_resume :
  let c3 := mkTrCfg 3 false false true 2 [] true in
  let c4 := mkTrCfg 4 false false true 2 [] true in
  let diverging : fs := [([[100]], Dir); ([[100]; [98]], File [1; 2; 9; 9; 9; 9; 9; 9])] in
  let prefix : fs := [([[100]], Dir); ([[100]; [98]], File [1; 2; 3; 4])] in
  tr_wf c3 (map fst (tr_group c3 ex_rfile)) /\
  tr_resume_safe ex_hx ex_ahdr ex_aparse c3 ex_d (tr_group c3 ex_rfile) (init_state diverging) /\
  ex_rtags c3 diverging =
    (true, true, Some (File [1; 2; 3; 4; 5; 6]),
     [TgNum; TgSucc; TgName; TgSucc; TgSize; TgHash; TgOver; TgHack; TgSize; TgSucc; TgData; TgData; TgData; TgData; TgFinish;
      TgAck; TgAck; TgAck; TgAck; TgAck; TgSucc; TgMd5; TgSucc; TgExit], true) /\
  ex_rtags c4 prefix =
    (true, true, Some (File [1; 2; 3; 4; 5; 6]),
     [TgNum; TgSucc; TgName; TgSucc; TgHash; TgOver; TgHack; TgSize; TgSucc; TgData; TgData; TgFinish; TgAck; TgAck; TgAck;
      TgSucc; TgMd5; TgSucc; TgExit], true).
Proof.
  cbv zeta. split; [apply tr_wfb_ok; vm_compute; reflexivity|].
  split.
  { cbn [tr_group tr_archive_mode tc_proto tc_overwrite negb andb ex_rfile tr_resume_safe]. split; [|destruct (tr_spec_entry _ _ _ _ _ _ _ _) as [[? ?]|]; exact I].
    intros ln st1 _ _ k Hk. exact Hk. }
  split; vm_compute; reflexivity.
Qed.

(* protocol 2 (compressed base64 frames), directory mode, overwrite on, upload *)
Example C01_transfer_nonvacuous_v2 :
  let c := mkTrCfg 2 false true true 0 [] true in
  let f0 : fs := [([[100]], Dir)] in
  tr_wf c (map fst (tr_group c ex_tree)) /\
  (exists r, ex_spec c ex_tree f0 = Some r) /\
  (let cf := ex_run c ex_tree f0 in
   (tr_sender_ok _ cf, tr_receiver_ok _ cf, ss_names (cf_s _ cf),
    lookup (st_fs (rs_st (cf_r _ cf))) [[100]; [97]; [120]], tr_shape_ok _ true (cf_log _ cf))) =
  (true, true, [[97]; [98]], Some (File [1; 126; 238; 27]), true).
Proof.
  cbv zeta. split; [apply tr_wfb_ok; vm_compute; reflexivity|].
  split; [eexists; vm_compute; reflexivity | vm_compute; reflexivity].
Qed.

(* protocol 1 (stop and wait, chunks of 3 then 2 bytes), plain names, overwrite off: two files
   with one base name land as "x" and "x.0" *)
Example C01_transfer_nonvacuous_v1 :
  let c := mkTrCfg 0 false false false 0 [] true in
  let sc := mkTrSched [3]%nat 2 false [] [] None [] 0 [] 1 in
  let ess := [(mkTrEntry 0 [[120]] false [[1; 2; 3; 4; 5; 6]] [], sc); (mkTrEntry 1 [[120]] false [[7]] [], sc)] in
  let f0 : fs := [([[100]], Dir)] in
  tr_wf c (map fst (tr_group c ess)) /\
  (let cf := ex_run c ess f0 in
   (tr_sender_ok _ cf, tr_receiver_ok _ cf, rs_names (cf_r _ cf),
    lookup (st_fs (rs_st (cf_r _ cf))) [[100]; [120]], lookup (st_fs (rs_st (cf_r _ cf))) [[100]; [120; 46; 48]],
    tr_shape_ok _ false (cf_log _ cf))) =
  (true, true, [[120]; [120; 46; 48]], Some (File [1; 2; 3; 4; 5; 6]), Some (File [7]), true).
Proof. cbv zeta. split; [apply tr_wfb_ok; vm_compute; reflexivity | vm_compute; reflexivity]. Qed.

(* and a refusal: the destination already holds a DIRECTORY "b", overwrite on: the file "b" cannot
   be created, neither side reports success *)
Example C01_refusal_nonvacuous :
  let c := mkTrCfg 2 false true true 0 [] true in
  let f0 : fs := [([[100]], Dir); ([[100]; [98]], Dir)] in
  ex_spec c ex_tree f0 = None /\
  (let cf := ex_run c ex_tree f0 in (tr_sender_ok _ cf, tr_receiver_ok _ cf)) = (false, false).
Proof. cbv zeta. split; vm_compute; reflexivity. Qed.

(* a resume whose hash sender stops BEFORE the verdict (a schedule the implementation cannot take:
   stopNow is set only after matchStep was delivered): the ack reader waits for ever, nobody reports success *)
Example C01_blocked_resume_nonvacuous :
  let c := mkTrCfg 4 false false true 2 [] true in
  let sc := mkTrSched [3]%nat 2 false [] [] (Some 0%nat) [] 0 [] 1 in
  let ess := [(mkTrEntry 0 [[98]] false [[1; 2; 3]] [], sc)] in
  let f0 : fs := [([[100]], Dir); ([[100]; [98]], File [1; 2])] in
  ex_spec c ess f0 = None /\
  (let cf := ex_run c ess f0 in (tr_sender_ok _ cf, tr_receiver_ok _ cf, tr_quiet _ cf)) = (false, false, true).
Proof. cbv zeta. split; vm_compute; reflexivity. Qed.

(* [tr_ready] is met by a small tree and an empty destination directory - and by a file that meets an
   existing one (overwrite on): the resume premises are part of [tr_place_ok] *)
Example C01_ready_nonvacuous :
  let c := mkTrCfg 4 true true true 0 (builtin_table false) true in
  tr_ready ex_hx c ex_d [([[100]], Dir)] (tr_group c ex_tree) /\ Forall tr_comp_ok ex_d.
Proof.
  cbv zeta. split; [|repeat constructor].
  change (tr_group (mkTrCfg 4 true true true 0 (builtin_table false) true) ex_tree) with ex_tree.
  unfold tr_ready. cbv zeta. split; [|split; [|split; [|split; [|split; [|split]]]]].
  - repeat constructor; try discriminate; intros; try reflexivity; discriminate.
  - apply (nodupb_ok path_eqb); [intros a b; apply path_eqb_eq | vm_compute; reflexivity].
  - intros pre e post Hes Ht. cbv [ex_tree map fst] in Hes.
    destruct pre as [|p0 [|p1 [|p2 pre]]]; cbn [app] in Hes; inversion Hes; subst; clear Hes.
    + exfalso. apply Ht. reflexivity.
    + eexists. split; [left; reflexivity|]. repeat split.
    + exfalso. apply Ht. reflexivity.
    + destruct pre; discriminate.
  - intros e e' [<-|[<-|[<-|[]]]] [<-|[<-|[<-|[]]]]; cbn; split; intro Hx; try reflexivity; discriminate.
  - intros it [<-|[<-|[<-|[]]]]; left; reflexivity.
  - intros e [<-|[<-|[<-|[]]]] Hne; exfalso; apply Hne; reflexivity.
  - intro Hx. discriminate Hx.
Qed.

Example C01_ready_resume_nonvacuous :
  let c := mkTrCfg 3 false false true 2 [] true in
  let f0 : fs := [([[100]], Dir); ([[100]; [98]], File [1; 2; 9; 9; 9; 9; 9; 9])] in
  let ess := [(mkTrEntry 0 [[98]] false [[1; 2; 3]; [4; 5; 6]] [], mkTrSched [3]%nat 2 false [] [] None [] 0 [] 1)] in
  tr_ready ex_hx c ex_d f0 (tr_group c ess).
Proof.
  cbv zeta. unfold tr_group. cbn [tr_archive_mode tc_proto tc_overwrite negb andb].
  unfold tr_ready. cbv zeta. split; [|split; [|split; [|split; [|split; [|split]]]]].
  - repeat constructor; try discriminate; intros; try reflexivity; discriminate.
  - repeat constructor. intros [].
  - intros pre e post Hes Ht. destruct pre as [|p0 [|p1 pre]]; cbn in Hes; inversion Hes; subst. exfalso. apply Ht. reflexivity.
  - intros e e' [<-|[]] [<-|[]]. split; reflexivity.
  - intros it [<-|[]]. right. split; [reflexivity|]. split; [reflexivity|]. eexists. split; [reflexivity|].
    split; [exact I | intros k Hk; exact Hk].
  - intros e [<-|[]] Hne. exfalso. apply Hne. reflexivity.
  - intro Hx. discriminate Hx.
Qed.

(* ---- the negotiated line terminator, Windows-console framing (Model/WireWin.v) ---- *)
From Trzsz Require Import Model.Buffer Model.Noise Model.WireWin Proofs.WireWin.

(* every DATA message pipelineSendData writes — a frame sent as assembled by sendDataWriter or
   a piece of a frame it had to cut again because the buffer size shrank — carries the
   NEGOTIATED newline, whatever it is: base64 mode the message is "#DATA:" payload newline,
   binary mode its header line is "#DATA:" length newline *)
Theorem C01_frame_terminated : forall binary nl (p : bool * list byte),
  exists body, ww_line_part binary (length (snd p)) (wire_render_piece binary nl p) = body ++ nl /\
    body = Consts.deliver_data_prefix ++ (if binary then wire_dec (N.of_nat (length (snd p))) else snd p).
Proof. exact piece_terminated. Qed.
Print Assumptions C01_frame_terminated.

Theorem C01_line_terminated : forall typ payload nl,
  wire_line typ payload nl = ([35] ++ typ ++ [58] ++ payload) ++ nl /\
  wire_pause_line typ nl = ([35] ++ typ ++ [58; 61]) ++ nl.
Proof. exact line_terminated. Qed.
Print Assumptions C01_line_terminated.

(* the receiver's view under the Windows framing "!\n" (regenerated from sendAction; the same
   '!' and LF the reader of C16 looks for: windows_newline_src_ok): the frames of one file,
   assembled or re-split in any way, followed by the finish flag, arriving in ANY chunking
   with the cursor anywhere, possibly behind the LF left over from the previous line, are
   read back exactly by recvLine's Windows branch (readLineOnWindows, which ends a line at
   '!' only); the rest of the stream stays unread (possibly behind that LF) *)
Theorem C01_frames_parse_windows : forall (ps : list (bool * list byte)) lead more off pend fuel,
  forallb (fun p => frame_ok false (snd p)) ps = true -> (length ps < fuel)%nat ->
  (lead = [] \/ lead = [LF]) ->
  concat pend = lead ++ ww_wire false Consts.windows_newline (ps ++ [(true, [])]) ++ more ->
  exists o p' lead', ww_recv fuel off pend = Some (map snd ps, (o, p')) /\
    (lead' = [] \/ lead' = [LF]) /\ concat p' = lead' ++ more.
Proof. exact frames_parse_windows. Qed.
Print Assumptions C01_frames_parse_windows.

(* L1 over a Windows-framed connection, end to end at the codec level: both base64 stacks,
   any file chunking, any frame sizes, any re-splitting by pipelineSendData, any chunking of
   the connection, any read-buffer sizes: the receiver decodes the file content *)
Theorem C01_L1_roundtrip_windows : forall zcomp zdecomp,
  (forall cs, zdecomp (concat (zcomp cs)) = Some (concat cs)) ->
  (forall cs, bytes_ok (concat (zcomp cs)) = true) ->
  forall compress t chunks sizes dflt ssizes rsizes rdflt more off pend,
  bytes_ok (concat chunks) = true ->
  Forall (fun s => 1 <= s)%nat rsizes -> (1 <= rdflt)%nat ->
  let ps := wire_resplit (wire_frames sizes dflt (wire_encode zcomp false compress t chunks)) ssizes dflt in
  concat pend = ww_wire false Consts.windows_newline (ps ++ [(true, [])]) ++ more ->
  exists fs o p', ww_recv (S (length ps)) off pend = Some (fs, (o, p')) /\
    wire_decode zdecomp false compress t fs rsizes rdflt = Some (concat chunks) /\
    (concat p' = more \/ concat p' = LF :: more).
Proof. exact L1_roundtrip_windows. Qed.
Print Assumptions C01_L1_roundtrip_windows.

(* non-vacuity, and what goes wrong when a re-split piece is written with "\n" instead: the
   frame "n9" as assembled, the frame "Cj" cut into "C" and "j", the finish flag, chunked *)
Example C01_windows_example :
  ww_recv 9 0%nat [[]; [35; 68; 65; 84; 65; 58; 110; 57; 33; 10; 35; 68; 65]; [84; 65; 58; 67; 33; 10; 35; 68; 65; 84; 65; 58; 106; 33];
               [10; 35; 68; 65; 84; 65; 58; 33; 10; 35; 77]]
    = Some ([[110; 57]; [67]; [106]], (9%nat, [[35; 77]])) /\
  (* the same wire with the two pieces ended by a bare LF: the pieces are lost *)
  ww_recv 9 0%nat [[]; [35; 68; 65; 84; 65; 58; 110; 57; 33; 10; 35; 68; 65]; [84; 65; 58; 67; 10; 35; 68; 65; 84; 65; 58; 106];
               [10; 35; 68; 65; 84; 65; 58; 33; 10; 35; 77]]
    = Some ([[110; 57]], (9%nat, [[35; 77]])).
Proof. vm_compute. split; reflexivity. Qed.
