(* C09 — Received files can only be created inside the chosen destination directory.
   Only the property theorems; each is closed by a lemma of Proofs/Names.v.

   Model: Model/Path.v (filepath.Join on Unix), Model/Fs.v (file system + effect log),
   Model/Names.v (checkFileName, unmarshalSourceFile, getNewName, createFile,
   createDirOrFile, doCreateFile, doCreateDirectory, recvFileName / recvFileNameV3 /
   archive entry headers, deleteCreatedFiles).  [recv_names] is the current source (the
   places where checkFileName is applied are read from the source by go/cmd/gen);
   [decode] stands for json.Unmarshal into sourceFile and is arbitrary.
   Limits: no symbolic or hard links, permissions, PATH_MAX or other processes; the
   destination is an absolute clean path (trz makes it so) that exists as a directory
   (checkPathWritable). *)
From Coq Require Import ZArith.
From Trzsz Require Import Base.Bytes Gen.Consts Model.Path Model.Fs Model.Names Model.NamesDup Proofs.PathFs Proofs.Names Proofs.NamesDup.

(* For every file system, destination, overwrite/directory/protocol setting, every JSON
   decoder and every sequence of NAME messages and archive entry headers made of
   arbitrary bytes, followed or not by deleteCreatedFiles: every path created, opened for
   writing, truncated or removed lies strictly inside the destination. *)
Theorem C09_confined : forall decode cfg dest fs0 msgs del,
  stat fs0 dest = SFound Dir ->
  forall e, In e (st_log (o_final (recv_names decode cfg dest msgs del fs0))) ->
  inside dest (effect_path e) = true.
Proof. exact confined. Qed.
Print Assumptions C09_confined.

(* the same for createdFiles (what a later stop-and-delete would remove) *)
Theorem C09_created_confined : forall decode cfg dest fs0 msgs del,
  stat fs0 dest = SFound Dir ->
  forall p, In p (st_created (o_final (recv_names decode cfg dest msgs del fs0))) -> inside dest p = true.
Proof. exact created_confined. Qed.
Print Assumptions C09_created_confined.

(* and, on the file system itself: every path that is not strictly inside the destination
   has the same node and bytes afterwards *)
Theorem C09_outside_unchanged : forall decode cfg dest fs0 msgs del,
  stat fs0 dest = SFound Dir ->
  forall q, inside dest q = false ->
  lookup (st_fs (o_final (recv_names decode cfg dest msgs del fs0))) q = lookup fs0 q.
Proof. exact outside_unchanged. Qed.
Print Assumptions C09_outside_unchanged.

(* a name that is empty, ".", ".." or contains '/' — as the plain NAME, or as any element
   of a JSON path list in a NAME message or an archive entry header — is refused and the
   state (file system, log, createdFiles, fileNameMap) is exactly what it was *)
Theorem C09_reject_or_harmless : forall decode cfg dest st,
  (forall nm pl, hostile nm -> v3 cfg = false -> directory cfg = false ->
     step decode code_checks cfg dest (MName nm pl) st = (NErr, st)) /\
  (forall raw s pl, decode raw = Some s -> (exists n, In n (s_rel s) /\ hostile n) ->
     (v3 cfg = true \/ directory cfg = true -> step decode code_checks cfg dest (MName raw pl) st = (NErr, st)) /\
     step decode code_checks cfg dest (MEntry raw pl) st = (NErr, st)).
Proof. exact reject_or_harmless. Qed.
Print Assumptions C09_reject_or_harmless.

(* the code as it was before checkFileName ([recv_names_unfixed]: same model, no
   validation) violates the statement: "../x" as a plain name with overwrite on
   truncates /x although the destination is /d *)
Theorem C09_unfixed_refuted :
  exists decode cfg dest fs0 msgs del, stat fs0 dest = SFound Dir /\
    exists e, In e (st_log (o_final (recv_names_unfixed decode cfg dest msgs del fs0))) /\
              inside dest (effect_path e) = false.
Proof. exact unfixed_refuted. Qed.
Print Assumptions C09_unfixed_refuted.

(* The fresh name getNewName derives from a validated name is the name itself or the name, a
   dot and the DECIMAL digits of a counter below names_max_tries - whatever bytes the name consists
   of ('%' and fmt verbs included: the name is an argument of the format, never the format, pinned
   by names_getnewname_src_ok) - and it is again a single clean path element.  This is what lets
   C09_confined hold after any number of arrivals of one name. *)
Theorem C09_fresh_name_form : forall fs dest nm ln,
  valid_name nm = true -> get_new_name fs dest nm = Some ln ->
  good ln /\ (ln = nm \/ exists i, (i < N.to_nat names_max_tries)%nat /\
                 ln = nm ++ [dot] ++ decimal (N.of_nat i) /\ Forall digit (decimal (N.of_nat i))).
Proof. exact fresh_name_form. Qed.
Print Assumptions C09_fresh_name_form.

(* a name with a %c verb, already present with its first 48 alternatives: the 49th arrival is
   stored as name.48, inside *)
Example C09_fresh_name_percent :
  let nm := [46; 46; 37; 99] (* "..%c" *) in
  let f0 : fs := ([[100]], Dir) :: ([[100]; nm], File []) ::
                 map (fun i => ([[100]; nm ++ [46] ++ decimal (N.of_nat i)], File [])) (seq 0 48) in
  valid_name nm = true /\ get_new_name f0 [[100]] nm = Some (nm ++ [46; 52; 56]).
Proof. vm_compute. split; reflexivity. Qed.

(* ---- with overwrite requested: sources whose destination names collide are refused before
   anything is sent (checkDuplicateNames, called by tsz and by the client's upload; Model/NamesDup.v).
   With -y the receiver stores every entry under the name that was sent (no renaming), so inside
   the destination two entries with one relative name would be written on top of each other. ----

   The scan list is accepted exactly when its destination-relative names are pairwise distinct. *)
Theorem C09_dup_accepts : forall es,
  nd_check es = None <-> NoDup (map (fun e => nd_join (nd_rel e)) es).
Proof. exact nd_check_accepts. Qed.
Print Assumptions C09_dup_accepts.

(* A refusal names the first destination-relative name that occurs twice (whatever the absolute
   source paths are). *)
Theorem C09_dup_refuses : forall es p, nd_check es = Some p ->
  exists pre e post e0, es = pre ++ e :: post /\ In e0 pre /\
    nd_join (nd_rel e0) = p /\ nd_join (nd_rel e) = p /\
    NoDup (map (fun x => nd_join (nd_rel x)) pre).
Proof. exact nd_check_refuses. Qed.
Print Assumptions C09_dup_refuses.

(* Accepted, and the elements are single path components (they come from a directory scan): no
   two entries have the same relative path, hence no two the same path below any destination
   (this is the premise [tr_wf], overwrite clause, of C01_transfer). *)
Theorem C09_dup_distinct_dest : forall dest es,
  nd_check es = None -> (forall e, In e es -> Forall good (nd_rel e)) ->
  NoDup (map nd_rel es) /\ NoDup (map (fun e => join dest (nd_rel e)) es).
Proof. exact nd_distinct_dest. Qed.
Print Assumptions C09_dup_distinct_dest.

(* The call sites (their shape is pinned by Proofs/NamesDup.names_dup_src_ok): a refusal hands
   nothing to sendFiles; what is handed on under overwrite has pairwise distinct names. *)
Theorem C09_dup_guard : forall overwrite es,
  match nd_guard overwrite es with
  | NdRefused p => overwrite = true /\ nd_check es = Some p
  | NdSend es' => es' = es /\ (overwrite = true -> NoDup (map (fun e => nd_join (nd_rel e)) es))
  end.
Proof. exact nd_guard_spec. Qed.
Print Assumptions C09_dup_guard.

(* the pins are in this file's cone *)
Theorem C09_source_pins :
  (names_dup_key_is_relpath = true /\ names_dup_check_shape_ok = true /\
   names_dup_guard_tsz = true /\ names_dup_guard_upload = true) /\ names_getnewname_shape_ok = true.
Proof. exact (conj names_dup_src_ok names_getnewname_src_ok). Qed.
Print Assumptions C09_source_pins.

(* non-vacuity: one/x.bin and two/x.bin collide, one/x.bin and two/y.bin do not *)
Example C09_dup_nonvacuous :
  let e a r := {| nd_abs := a; nd_rel := r |} in
  nd_check [e [1] [[120]]; e [2] [[120]]] = Some [120] /\
  nd_check [e [1] [[120]]; e [2] [[121]]; e [3] [[99]; [120]]] = None /\
  nd_join [[99]; [120]] = [99; 47; 120].
Proof. vm_compute. repeat split. Qed.

(* non-vacuity: a destination that is a directory, a hostile and a clean message; the
   hostile one is refused, the clean one lands inside *)
Example C09_nonvacuous :
  let cfg := {| overwrite := true; directory := false; v3 := false |} in
  let o := recv_names (fun _ => None) cfg ex_dest [MName [dot; dot; slash; 120] [9]; MName [120] [9]] true ex_fs in
  stat ex_fs ex_dest = SFound Dir /\
  map fst (o_results o) = [NErr; NOk [120]] /\
  st_log (o_final o) = [ECreate [[100]; [120]]; ERemove [[100]; [120]]] /\
  hostile [dot; dot; slash; 120].
Proof. vm_compute. repeat split. right; right; right. right; right; left; reflexivity. Qed.
