(* C14 — A relay only narrows what the ends negotiate, and recovers after every transfer.
   Only the property theorems; each is closed by a lemma of Proofs/RelayNeg.v and followed
   by Print Assumptions. *)
From Coq Require Import List NArith ZArith Bool.
From Trzsz Require Import Base.Bytes Gen.Consts Model.Detector Model.RelayNeg Proofs.Detector Proofs.RelayNeg.
Import ListNotations.
Open Scope N_scope.

(* ---- one relay only narrows: the ACT ------------------------------------------------ *)

(* on the struct the relay holds: binary survives only with the tunnel (and is untouched
   then), the protocol is capped at the relay's own version, nothing else changes *)
Theorem C14_narrow_action : forall a, let a' := rewrite_action a in
  (na_binary a' = true -> na_binary a = true /\ na_tunnel a = true) /\
  (na_tunnel a = true -> na_binary a' = na_binary a) /\
  na_protocol a' = Z.min (na_protocol a) relayneg_protocol_version /\
  ((na_protocol a <= relayneg_protocol_version)%Z -> na_protocol a' = na_protocol a) /\
  na_lang a' = na_lang a /\ na_version a' = na_version a /\ na_confirm a' = na_confirm a /\
  na_newline a' = na_newline a /\ na_support_dir a' = na_support_dir a /\
  na_tunnel a' = na_tunnel a /\ na_fork a' = na_fork a.
Proof. exact narrow_action. Qed.
Print Assumptions C14_narrow_action.

(* on the wire, whatever keys the client's JSON has or lacks: what the server decodes
   behind the relay is exactly the narrowing of what it would decode from the client *)
Theorem C14_narrow_action_wire : forall w,
  decode_action_into server_action_init (relay_action w) =
  rewrite_action (decode_action_into server_action_init w).
Proof. exact relay_action_narrows. Qed.
Print Assumptions C14_narrow_action_wire.

(* ---- one relay only narrows: the CFG ------------------------------------------------ *)

Theorem C14_narrow_config : forall e c, let c' := rewrite_config e c in
  nc_quiet c' = nc_quiet c /\ nc_binary c' = nc_binary c /\ nc_directory c' = nc_directory c /\
  nc_overwrite c' = nc_overwrite c /\ nc_timeout c' = nc_timeout c /\ nc_newline c' = nc_newline c /\
  nc_protocol c' = nc_protocol c /\ nc_bufsize c' = nc_bufsize c /\ nc_escape c' = nc_escape c /\
  nc_compress c' = nc_compress c /\ nc_fork c' = nc_fork c /\
  (nc_junk c = true -> nc_junk c' = true) /\
  (nc_junk c' = true -> nc_junk c = true \/ ne_tmux_mode e = relayneg_tmux_normal_mode) /\
  ((nc_pane_width c > 0)%Z -> nc_pane_width c' = nc_pane_width c) /\
  (nc_pane_width c' <> nc_pane_width c ->
     (nc_pane_width c <= 0)%Z /\ (ne_pane_width e > 0)%Z /\ nc_pane_width c' = ne_pane_width e).
Proof. exact narrow_config. Qed.
Print Assumptions C14_narrow_config.

(* on the wire: for every CFG without an escape table, what the client decodes behind the
   relay is the narrowing of what it would decode from the server *)
Theorem C14_narrow_config_wire : forall e tunnel w c,
  nwc_escape w = None ->
  decode_config_into (rn_client_init (ne_win_server e) tunnel) w = Some c ->
  exists w', relay_config e tunnel w = Some w' /\
    decode_config_into (rn_client_init (ne_win_server e) tunnel) w' = Some (rewrite_config e c).
Proof. exact relay_config_narrows. Qed.
Print Assumptions C14_narrow_config_wire.

(* The full statement "config' differs from config only in tmux_output_junk and
   tmux_pane_width" for EVERY server configuration is false for the faithful model: *)
Definition C14_narrow_config_wire_full : Prop := forall e tunnel w c,
  decode_config_into (rn_client_init (ne_win_server e) tunnel) w = Some c ->
  exists w', relay_config e tunnel w = Some w' /\
    decode_config_into (rn_client_init (ne_win_server e) tunnel) w' = Some (rewrite_config e c).

(* an announced escape table does not survive the relay's Unmarshal/Marshal round trip
   (escapeTable has UnmarshalJSON, no exported field and no MarshalJSON): the client is
   handed "escape_chars":{} and its own Unmarshal fails.  Witness: the CFG of `trz -b`. *)
Theorem C14_escape_table_refuted : exists e tunnel w t w',
  nwc_escape w = Some (WEscTable t) /\
  (exists c, decode_config_into (rn_client_init (ne_win_server e) tunnel) w = Some c /\ nc_escape c = Some t) /\
  relay_config e tunnel w = Some w' /\
  decode_config_into (rn_client_init (ne_win_server e) tunnel) w' = None.
Proof. exact escape_table_refuted. Qed.
Print Assumptions C14_escape_table_refuted.

(* ... but trz / tsz never announce a table behind a relay: binary support reaches them only
   together with the tunnel, and with the tunnel they announce none *)
Theorem C14_escape_never_behind_relay : forall g a w,
  rn_server_config g (rewrite_action a) = SrvConfig w -> nwc_escape w = None.
Proof. exact server_config_no_escape_behind_relay. Qed.
Print Assumptions C14_escape_never_behind_relay.

(* ---- any number of relays ------------------------------------------------------------ *)

Theorem C14_k_relays_action : forall k w, (1 <= k)%nat ->
  decode_action_into server_action_init (relays_action k w) =
  rewrite_action (decode_action_into server_action_init w).
Proof. exact k_relays_action. Qed.
Print Assumptions C14_k_relays_action.

Theorem C14_k_relays_config : forall es win tunnel w c, same_win win es ->
  nwc_escape w = None ->
  decode_config_into (rn_client_init win tunnel) w = Some c ->
  exists w', relays_config es tunnel w = Some w' /\ (es <> [] -> nwc_escape w' = None) /\
    decode_config_into (rn_client_init win tunnel) w' = Some (rewrite_config_chain es c).
Proof. exact k_relays_config. Qed.
Print Assumptions C14_k_relays_config.

Theorem C14_k_relays_narrow : forall es c, let c' := rewrite_config_chain es c in
  nc_quiet c' = nc_quiet c /\ nc_binary c' = nc_binary c /\ nc_directory c' = nc_directory c /\
  nc_overwrite c' = nc_overwrite c /\ nc_timeout c' = nc_timeout c /\ nc_newline c' = nc_newline c /\
  nc_protocol c' = nc_protocol c /\ nc_bufsize c' = nc_bufsize c /\ nc_escape c' = nc_escape c /\
  nc_compress c' = nc_compress c /\ nc_fork c' = nc_fork c /\
  (nc_junk c = true -> nc_junk c' = true) /\
  (nc_junk c' = true -> nc_junk c = true \/ exists e, In e es /\ ne_tmux_mode e = relayneg_tmux_normal_mode) /\
  ((nc_pane_width c > 0)%Z -> nc_pane_width c' = nc_pane_width c) /\
  (nc_pane_width c' <> nc_pane_width c ->
     (nc_pane_width c <= 0)%Z /\ exists e, In e es /\ (ne_pane_width e > 0)%Z /\ nc_pane_width c' = ne_pane_width e).
Proof. exact k_relays_config_narrow. Qed.
Print Assumptions C14_k_relays_narrow.

(* ---- both ends ------------------------------------------------------------------------ *)

(* Through k >= 1 relays the two ends end up exactly where a direct connection would put
   them had the client sent the narrowed ACT itself, except that the client's copy carries
   the relays' tmux facts; the server never runs binary mode unless the client reported the
   tunnel; no escape table is in play; and a relay never makes the negotiation fail. *)
Theorem C14_same_result : forall g win es wa, es <> [] -> same_win win es ->
  match negotiate g win [] (narrowed wa) with
  | OutAgreed so cc =>
      negotiate g win es wa = OutAgreed so (rewrite_config_chain es cc) /\
      (nc_binary so = true -> nwa_tunnel wa = Some true) /\
      nc_escape so = None /\ nc_escape cc = None
  | OutRefused r => negotiate g win es wa = OutRefused r
  | OutRelayFailed _ => False
  | OutClientFailed _ => False
  end.
Proof. exact same_result. Qed.
Print Assumptions C14_same_result.

(* and the two ends agree on everything the transfer depends on *)
Theorem C14_ends_agree : forall g win es wa so cc, es <> [] -> same_win win es ->
  negotiate g win es wa = OutAgreed so cc -> ends_agree so cc.
Proof. exact ends_agree_through_relays. Qed.
Print Assumptions C14_ends_agree.

(* ---- recovery -------------------------------------------------------------------------- *)

(* every history of transfers through one relay instance — each a trigger, whatever arrives
   during the handshake, the handshake's outcome, and (if it was confirmed) any traffic up to
   the first chunk that carries an end sign (#EXIT: / #FAIL: / #fail: in either direction, or
   a lone Ctrl-C typed) — leaves the relay in standby, and every trigger in it was looked
   for, found and forwarded with the relay's re-tag *)
Theorem C14_recovers : forall h1 t h2, Forall wf_transfer (h1 ++ t :: h2) ->
  rn_final NStandby (history_events h1) = NStandby /\
  rn_step (rn_final NStandby (history_events h1)) (NOut (t_trigger t) true) = (NHandshaking, FRewritten) /\
  rn_final NStandby (history_events (h1 ++ t :: h2)) = NStandby.
Proof. exact recovers_and_detects. Qed.
Print Assumptions C14_recovers.

(* from any state, after any events: a chunk with an end sign never leaves it transferring *)
Theorem C14_end_sign : forall s evs x, ends x = true -> rn_final s (evs ++ [ev_of x]) <> NTransferring.
Proof. exact end_sign_leaves_transferring. Qed.
Print Assumptions C14_end_sign.

(* ---- recovery includes the tunnelConnected flag --------------------------------------- *)

(* The automaton with the relay's tunnelConnected flag (set by the handshake from the ACT,
   cleared by resetToStandby, consulted when main-channel data is to be parked) and with the
   tunnel's own read loops.  For every history of transfers in any order - over a tunnel or
   not, refused, failed, interrupted, ended on either channel - the relay is in standby with
   the flag FALSE afterwards, the next trigger is detected, and the ACT of the handshake it
   starts is parked (so it is read and narrowed by the relay, not passed to the server). *)
Theorem C14_recovers_tunnel_flag : forall h trig act, Forall wf_ttransfer h ->
  rt_final (NStandby, false) (thistory_events h) = (NStandby, false) /\
  rt_step (NStandby, false) (TMain (NOut trig true)) = ((NHandshaking, false), FRewritten) /\
  rt_step (NHandshaking, false) (TMain (NIn act)) = ((NHandshaking, false), FParked).
Proof. exact recovers_tunnel_flag_and_parks. Qed.
Print Assumptions C14_recovers_tunnel_flag.

(* not only after well-formed histories: after ANY sequence of events, if the relay is in
   standby the flag is false, so the next handshake parks the client's ACT *)
Theorem C14_standby_flag_false : forall evs trig act,
  fst (rt_final (NStandby, false) evs) = NStandby ->
  rt_final (NStandby, false) (evs ++ [TMain (NOut trig true)]) = (NHandshaking, false) /\
  rt_step (rt_final (NStandby, false) (evs ++ [TMain (NOut trig true)])) (TMain (NIn act))
    = ((NHandshaking, false), FParked).
Proof. exact standby_then_parks. Qed.
Print Assumptions C14_standby_flag_false.

(* with a false flag and main-channel events only, this automaton is the one of C14_recovers *)
Theorem C14_flag_automaton_refines : forall s ev,
  rt_step (s, false) (TMain ev) = (let '(s', f) := rn_step s ev in ((s', false), f)).
Proof. exact rt_refines_rn. Qed.
Print Assumptions C14_flag_automaton_refines.

(* the three source facts about the flag, regenerated from relay.go on every run *)
Theorem C14_tunnel_flag_pins :
  relayneg_reset_clears_tunnel_flag = true /\ relayneg_handshake_sets_tunnel_flag = true /\
  length relayneg_parking_rule_src = 94%nat.
Proof. exact (conj reset_clears_src_ok (conj handshake_sets_src_ok (f_equal (@length _) parking_rule_src_ok))). Qed.
Print Assumptions C14_tunnel_flag_pins.

(* ---- line framing of the handshake ------------------------------------------------------ *)

(* Everything the relay itself sends to the Go client during a handshake (the edited CFG, or
   FAIL for whatever reason) ends with the terminator that client's reader needs: for every
   client (on Windows or not, tunnel or not, Windows server or not), every relay (in tmux or
   not), whatever the relay remembers from earlier transfers, whatever the server sends *)
Theorem C14_client_terminator : forall e c cw0 confirm proto lang ver cfg,
  ne_win_server e = cl_remote_win c ->
  Forall (fun m => snd m = rn_client_terminator c)
         (h2_to_client (rn_handshake2 e cw0 (rn_client_act_line c (rn_client_action c confirm proto lang ver)) cfg)).
Proof. exact client_terminator. Qed.
Print Assumptions C14_client_terminator.

(* Between the Go client and the Go server a relay never misreads a line (it reads the ACT and
   the server's CFG - framed with the newline of the ACT the server received - with the
   matching reader): a confirmed handshake with a decodable CFG completes, the relay goes to
   transferring, the client gets the narrowed CFG in its own framing *)
Theorem C14_go_ends_complete : forall e c cw0 proto lang ver wc cc,
  ne_win_server e = cl_remote_win c ->
  nwc_escape wc = None ->
  decode_config_into (rn_client_init (ne_win_server e) (cl_tunnel c)) wc = Some cc ->
  let wa := rn_client_action c true proto lang ver in
  let a := rewrite_action (decode_action_into relay_action_init wa) in
  exists wc',
    rn_handshake2 e cw0 (rn_client_act_line c wa) (Some (rn_server_line a (Some wc))) =
      mkHs2 [(OAct (encode_action a), rn_nl_to_server e (cl_tunnel c) true)]
            [(OCfg wc', rn_client_terminator c)] NTransferring (rn_client_windows c) /\
    decode_config_into (rn_client_init (ne_win_server e) (cl_tunnel c)) wc' = Some (rewrite_config e cc).
Proof. exact go_ends_complete. Qed.
Print Assumptions C14_go_ends_complete.

(* a relay writes towards its client in the framing it expects from its server side, and the
   ACT towards its server in the framing it expects from its client side: relays in a chain
   read each other *)
Theorem C14_framing_transparent : forall e e' cw tun,
  ne_win_server e' = ne_win_server e ->
  rn_read_line (rn_reader_from_server e' cw tun) (nl_is_win (rn_nl_to_client e cw tun)) = RdOk /\
  rn_read_line (rn_reader_from_client e' false) (nl_is_win (rn_nl_to_server e tun true)) = RdOk.
Proof. exact framing_transparent. Qed.
Print Assumptions C14_framing_transparent.

(* with matching framings the framed handshake has the contents and the outcome of rn_handshake,
   about which C14_narrow_* and C14_same_result speak *)
Theorem C14_handshake2_refines : forall e cw0 aw act cfgw cfg,
  rn_read_line (rn_reader_from_client e false) aw = RdOk ->
  (forall a, act = Some a ->
     rn_read_line (rn_reader_from_server e
        (list_eqb (na_newline (rewrite_action (decode_action_into relay_action_init a))) relayneg_client_win_newline)
        (na_tunnel (rewrite_action (decode_action_into relay_action_init a)))) cfgw = RdOk) ->
  let r := rn_handshake2 e cw0 (mkRnLine aw act) (Some (mkRnLine cfgw cfg)) in
  hs2_contents r = hs_contents (rn_handshake e act cfg) /\
  h2_status r = status_after_handshake (rn_handshake e act cfg).
Proof. exact handshake2_refines. Qed.
Print Assumptions C14_handshake2_refines.

(* the same statement for ANY line in place of the client's ACT is false: an ACT the relay
   cannot decode leaves it with what it remembers (clientIsWindows is never reset; false on a
   fresh relay).  Witness: fresh relay, Unix server, client on Windows, damaged ACT payload:
   FAIL ends with "\n", which that client's reader does not take as a line. *)
Definition C14_client_terminator_any_act_full : Prop := client_terminator_any_act.

Theorem C14_client_terminator_any_act_refuted : ~ C14_client_terminator_any_act_full.
Proof. exact client_terminator_any_act_refuted. Qed.
Print Assumptions C14_client_terminator_any_act_refuted.

(* the source facts behind the framing model: the four rules of the relay, the two of the
   client, the terminators, the order of handshake() *)
Theorem C14_framing_pins :
  relayneg_to_client_rule_src = relayneg_from_server_rule_src /\
  relayneg_to_client_win_nl = relayneg_client_line_win_nl /\ relayneg_to_client_nl = relayneg_client_cfg_newline /\
  relayneg_client_act_win_nl = relayneg_client_win_newline /\
  length relayneg_handshake_order = 155%nat /\
  length relayneg_client_windows_rule_src = 65%nat /\ length relayneg_from_client_rule_src = 48%nat /\
  length relayneg_to_server_rule_src = 66%nat.
Proof. repeat split; reflexivity. Qed.
Print Assumptions C14_framing_pins.

(* the status automaton's "reset only from the expected state" is resetToStandby's
   CompareAndSwap guard in the current source *)
Theorem C14_reset_guard_pin : relayneg_reset_guard_is_cas = true.
Proof. exact reset_guard_src_ok. Qed.
Print Assumptions C14_reset_guard_pin.

(* ---- the relay's own detector in stand-by ------------------------------------------------ *)

(* A complete trigger after arbitrary other output in one read of a relay that stands by -
   unframed, or in tmux control-mode framing provided the relay has a tunnel connector and the
   trigger carries a port - is TAKEN, whatever the relay's tunnelConnected flag: the advertised
   transfer (mode, version, id, port) starts, and the client is forwarded the re-tagged read
   with "#R" behind the trigger and, when a tunnel is on offer, the relay's port in place of the
   server's in the trigger's ":<id>:<port>" (premises as in C06_fires; any id table) *)
Theorem C14_relay_trigger_taken : forall has_connector flag d relay_port buf pre m txt tail ver,
  d_relay d = true -> d_tmux d = true ->
  let out := rewrite_trigger buf in
  (nlen buf <? Consts.det_min_len) = false ->
  last_index_of marker buf <> None ->
  out = pre ++ txt ++ tail ->
  trigger_text m txt -> greedy_end m tail ->
  last_index_of marker (txt ++ tail) = Some O ->
  (find_tmux out = None \/ (has_connector = true /\ m_port m <> None)) ->
  finished (skipn (N.to_nat Consts.det_finished_offset) (txt ++ tail)) = false ->
  parse_version (m_ver m) = Some ver ->
  (dedup_eligible false (id_value (m_id m)) = true -> map_find (d_map d) (id_value (m_id m)) = None) ->
  let t := {| t_mode := m_mode m; t_version := ver; t_id := id_value (m_id m);
              t_win := win_server (id_value (m_id m)); t_port := port_value (m_port m);
              t_prefix := match find_tmux out with Some p => p | None => [] end |} in
  rn_stand_by_read has_connector flag d relay_port buf =
    (rn_port_rewrite has_connector relay_port t (add_relay_suffix out (length pre)), Some t,
     set_map d (snd (is_repeated false (d_map d) (id_value (m_id m))))).
Proof. exact relay_trigger_taken. Qed.
Print Assumptions C14_relay_trigger_taken.

(* the values the relay passes, read from relay.go on every run: newTrzszDetector(true, true),
   tunnel argument = "a tunnel connector is configured" *)
Theorem C14_relay_detector_pins :
  d_relay rn_relay_detector = true /\ d_tmux rn_relay_detector = true /\
  (forall has_connector flag, rn_detect_tunnel_arg has_connector flag = has_connector) /\
  length relayneg_listen_guard_src = 60%nat /\ length relayneg_port_rewrite_src = 164%nat.
Proof.
  exact (conj (proj1 relay_detector_flags) (conj (proj2 relay_detector_flags) (conj detect_tunnel_arg_ok
        (conj (f_equal (@length _) (proj1 listen_src_ok)) (f_equal (@length _) (proj2 listen_src_ok)))))).
Qed.
Print Assumptions C14_relay_detector_pins.

(* ---- the defect: the end sign is looked for chunk by chunk ------------------------------ *)

(* what the property wants: whatever the chunking of the client's stream *)
Definition C14_recovers_any_chunking_full : Prop := recovers_any_chunking.

(* the chunks of the failure confirmed on the real relay: "#EX" + "IT:...": the stream
   contains the marker, the relay stays in transferring, the next trigger passes raw; the same
   bytes in one chunk do reset it *)
Theorem C14_split_marker_refuted :
  rn_has_marker relayneg_markers_in (split_c1 ++ split_c2) = true /\
  rn_final NTransferring [NIn split_c1; NIn split_c2] = NTransferring /\
  rn_step NTransferring (NOut split_trigger true) = (NTransferring, FRaw) /\
  rn_final NTransferring [NIn (split_c1 ++ split_c2)] = NStandby.
Proof. exact split_marker_refuted. Qed.
Print Assumptions C14_split_marker_refuted.

Theorem C14_recovers_any_chunking_refuted : ~ C14_recovers_any_chunking_full.
Proof. exact recovers_any_chunking_refuted. Qed.
Print Assumptions C14_recovers_any_chunking_refuted.

(* ---- the source facts the model relies on, in this file's cone ------------------------- *)
Theorem C14_source_pins :
  (relayneg_markers_out = relayneg_markers_in /\ relayneg_markers_tunnel_in = relayneg_markers_in /\
   relayneg_markers_tunnel_out = relayneg_markers_in) /\
  relay_action_init = server_action_init /\
  (forall e tunnel, relay_config_init e tunnel = rn_client_init (ne_win_server e) tunnel) /\
  relayneg_escape_table_has_marshaler = false /\
  length relayneg_action_fields = 9%nat /\ length relayneg_config_fields = 13%nat.
Proof.
  exact (conj (proj2 markers_src_ok) (conj act_defaults_agree (conj cfg_defaults_agree
        (conj (proj2 escape_marshal_src_ok) (conj (f_equal (@length _) action_fields_src_ok) (f_equal (@length _) config_fields_src_ok)))))).
Qed.
Print Assumptions C14_source_pins.

(* ---- non-vacuity ----------------------------------------------------------------------- *)

(* a Go client (binary, directory, protocol 9 from a future version, no tunnel) behind two
   relays, the inner one in tmux normal mode with a 120-column pane, trz -b -d on the server *)
Example C14_nonvacuous_negotiation :
  let wa := mkNWA (Some [103;111]) (Some [49;46;50;46;48]) (Some true) (Some [10]) (Some 9%Z)
                  (Some true) (Some true) None None in
  let g := mkNArgs false false true true false 10485760%Z 20%Z 0%Z [(238,238);(126,49)] 0 (-1)%Z in
  let es := [mkNEnv 0 (-1)%Z false; mkNEnv 1 120%Z false] in
  exists so cc, negotiate g false es wa = OutAgreed so cc /\
    nc_binary so = false /\ nc_protocol so = 4%Z /\ nc_directory cc = true /\
    nc_junk cc = true /\ nc_pane_width cc = 120%Z /\ nc_junk so = false.
Proof. vm_compute. eexists; eexists; repeat split. Qed.

(* a history meeting the hypotheses of C14_recovers: a successful transfer, a refused one,
   one interrupted by Ctrl-C *)
Example C14_nonvacuous_history :
  let exit := CIn [35;69;88;73;84;58;65;10] in
  let h := [ mkTransfer split_trigger [CIn [35;65;67;84;58;10]; COut [35;67;70;71;58;10] false] true
                        [COut [35;78;85;77;58;49;10] false; CIn [35;83;85;67;67;58;49;10]] exit;
             mkTransfer split_trigger [CIn [35;65;67;84;58;10]] false [] exit;
             mkTransfer split_trigger [CIn [35;65;67;84;58;10]; COut [35;67;70;71;58;10] false] true [] (CIn [3]) ] in
  Forall wf_transfer h /\ rn_final NStandby (history_events h) = NStandby.
Proof.
  cbn zeta. split; [| vm_compute; reflexivity].
  repeat constructor; intro H; vm_compute; split; reflexivity.
Qed.

(* a history meeting the hypotheses of C14_recovers_tunnel_flag: a transfer over the tunnel
   (ACT, CFG and EXIT on the tunnel connections), then a plain one, then a client that claims a
   tunnel and declines *)
Example C14_nonvacuous_tunnel_history :
  let h := [ mkTTransfer split_trigger [KTunIn [35;65;67;84;58;10]] (Some true) [KTunOut [35;67;70;71;58;10]] true
                         [KTunIn [35;78;85;77;58;49;10]] (KTunIn [35;69;88;73;84;58;65;10]);
             mkTTransfer split_trigger [KIn [35;65;67;84;58;10]] (Some false) [KOut [35;67;70;71;58;10] false] true
                         [] (KIn [35;69;88;73;84;58;65;10]);
             mkTTransfer split_trigger [KIn [35;65;67;84;58;10]] (Some true) [] false [] (KIn [3]) ] in
  Forall wf_ttransfer h /\ rt_final (NStandby, false) (thistory_events h) = (NStandby, false) /\
  snd (rt_final (NStandby, false) (firstn 5 (thistory_events h))) = true.
Proof.
  cbn zeta. split; [| split; vm_compute; reflexivity].
  repeat constructor; intro H; vm_compute; split; reflexivity.
Qed.

(* a client on Windows behind a relay that sits in tmux, talking to trz -y on Linux: the
   premises of C14_go_ends_complete hold, the CFG goes out with "!\n" *)
Example C14_nonvacuous_windows_client :
  let e := mkNEnv 1 120%Z false in
  let c := mkRnClient true false false in
  let wa := rn_client_action c true 4%Z [103;111] [49;46;49;46;56] in
  let a := rewrite_action (decode_action_into relay_action_init wa) in
  let wc := mkNWC None None None (Some true) (Some 20%Z) None (Some 4%Z) (Some 10485760%Z) None None None None None in
  exists wc', rn_handshake2 e false (rn_client_act_line c wa) (Some (rn_server_line a (Some wc))) =
     mkHs2 [(OAct (encode_action a), [10])] [(OCfg wc', [33; 10])] NTransferring true /\
     nwc_junk wc' = Some true /\ nwc_pane_width wc' = Some 120%Z.
Proof. vm_compute. eexists. repeat split. Qed.
