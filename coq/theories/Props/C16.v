(* C16 — Protocol lines survive the noise tmux and the Windows console add.
   Only the property theorems; each is closed by a lemma of Proofs/Noise.v or
   Proofs/NoiseWin.v and followed by Print Assumptions.

   The readers are the models of recvLine (transfer.go) on top of the buffer model of C03:
   [recv_line_junk ty pend] = readLine in junk mode + last-marker cut + stripTmuxStatusLine,
   [recv_line_windows ty off pend] = readLineOnWindows + last-marker cut, where [pend] is
   any pending chunk list (every chunking, empty chunks included) and [off] any cursor
   position inside the current chunk.  The noise relations (Model/Noise.v) have one
   constructor per documented kind. *)
From Trzsz Require Import Base.Bytes Gen.Consts Model.Buffer Model.Noise Proofs.Buffer Proofs.Noise Proofs.NoiseWin.

(* tmux: unrelated text in front (no bare LF, no Ctrl-C, not containing "#ty:"), status
   strings ESC P = .. ESC P = .. ESC \ anywhere behind the '#', also inside the marker, a
   truncated status at the end, CR LF wraps at any positions with any multiplicity; for
   every chunking exactly "#ty:payload" is returned and exactly the stream behind the
   line's LF is left *)
Theorem C16_tmux : forall ty pl s pend rest,
  plain_text ty = true -> plain_text pl = true -> tmux_noisy ty pl s ->
  concat pend = s ++ LF :: rest ->
  exists p', recv_line_junk ty pend = Done (HASH :: ty ++ COLON :: pl) p' /\ concat p' = rest.
Proof. exact tmux_recovered. Qed.
Print Assumptions C16_tmux.

(* stripTmuxStatusLine on its own: for every text without ESC and every way of inserting
   complete status redraws ESC P = t1 ESC P = t2 ESC \ into it (any number, at any offsets,
   with a truncated one at the very end if any), the text comes back *)
Theorem C16_strip_status : forall l s,
  with_status l s -> forallb (fun b => negb (b =? ESC)) l = true -> strip_tmux_status s = l.
Proof. exact strip_status_direct. Qed.
Print Assumptions C16_strip_status.

(* Windows console: padding, VT100 sequences, newlines, cursor moves, re-prints after
   newline + move, cursor-home redraws (relation [win_noisy]); [J] = letters of unrelated
   output in front; every chunking and cursor position.  What is left unread is the stream
   behind '!', or that stream without its first byte: the LF of the "!\n" framing is
   consumed only when it is in the same chunk (and the code looks for it at buf[nextIdx]
   with the absolute cursor, so for off > 0 it may test another byte): this, and only this,
   depends on the chunking. *)
Theorem C16_windows : forall ty pl J s off pend rest,
  forallb (fun b => negb (b =? HASH)) (ty ++ COLON :: pl) = true ->
  win_noisy false [] (J ++ HASH :: ty ++ COLON :: pl) s ->
  concat pend = s ++ BANG :: rest ->
  exists o p', recv_line_windows ty off pend = WDone (HASH :: ty ++ COLON :: pl) o p' /\
               (concat p' = rest \/ exists b, rest = b :: concat p').
Proof. exact windows_recovered. Qed.
Print Assumptions C16_windows.

(* the full-strength statement for the Windows reader: ALL documented noise, i.e. also a
   cursor-home redraw directly before the terminator and a cursor move right after a
   re-printed/replaced character.  It does not hold: *)
Definition C16_windows_full : Prop := forall e s,
  e <> [] -> win_noisy_full false [] e s ->
  exists o p', read_line_windows 0 [s ++ [BANG]] = WDone e o p'.

(* payload "2", rendering 2 BS ESC[?25h ESC[?25l ESC[H Y ESC[49;83H ESC[?25h ESC[?25l CR LF !
   comes back as "2Y" *)
Theorem C16_windows_home_at_end_refuted :
  exists e s, win_noisy_full false [] e s /\
    e = [50] /\ read_line_windows 0 [s ++ [BANG]] = WDone [50; 89] 41 [[]].
Proof.
  exists [50], (home_before_terminator [50] home_end_n1 89 home_end_n2).
  split; [exact home_at_end_is_documented|]. split; [reflexivity|]. apply home_at_end_not_recovered.
Qed.
Print Assumptions C16_windows_home_at_end_refuted.

(* payload "k7r4r0", rendering k7r4 ESC[H k ESC[9;9H LF r ESC[30;46H 0 ! comes back as
   "k7r40": the duplicate/replace path `continue`s without resetting hasNewline and
   preHasCursorHome *)
Theorem C16_windows_stale_flags_refuted :
  exists e s, win_noisy_full false [] e s /\
    e = [107; 55; 114; 52; 114; 48] /\
    read_line_windows 0 [s ++ [BANG]] = WDone [107; 55; 114; 52; 48] 26 [[]].
Proof.
  exists [107; 55; 114; 52; 114; 48], (move_after_home [107; 55; 114; 52] stale_n1 107 stale_n2 114 stale_n3 48).
  split; [exact stale_flags_is_documented|]. split; [reflexivity|]. apply stale_flags_not_recovered.
Qed.
Print Assumptions C16_windows_stale_flags_refuted.

Theorem C16_windows_full_refuted : ~ C16_windows_full.
Proof.
  intros H. destruct (H [50] _ ltac:(discriminate) home_at_end_is_documented) as (o & p' & R).
  destruct home_at_end_not_recovered as (_ & _ & _ & _ & _ & _ & _ & _ & E).
  pose proof (eq_trans (eq_sym E) R) as Q. inversion Q.
Qed.
Print Assumptions C16_windows_full_refuted.

(* the proved relation is the full one without exactly those two constructors *)
Theorem C16_windows_partial_is_full_minus_two : forall stale acc e s,
  win_noisy stale acc e s -> win_noisy_full stale acc e s.
Proof. exact win_noisy_in_full. Qed.
Print Assumptions C16_windows_partial_is_full_minus_two.

(* totality on the empty accumulator: noise in front of the FIRST character of a line (a
   cursor-position sequence after a line feed, with nothing collected yet) never makes the
   reader evaluate bytes[len(bytes)-1] with len(bytes) = 0.  The guard `len(bytes) > 0 &&` is a
   value the translator reads from the condition (Consts.win_dup_guard_nonempty); without it
   the reader does index -1, on `LF ESC[25;119H #` *)
Theorem C16_windows_never_indexes_empty : forall st acc c,
  win_index_panics Consts.win_dup_guard_nonempty st acc c = false.
Proof. exact win_never_indexes_empty. Qed.
Print Assumptions C16_windows_never_indexes_empty.

Theorem C16_windows_unguarded_refuted :
  exists st, win_fold w_init [] [LF; ESC; 91; 50; 53; 59; 49; 49; 57; 72] = Some (st, []) /\
             win_index_panics false st [] 35 = true.
Proof. exact win_unguarded_indexes_empty. Qed.
Print Assumptions C16_windows_unguarded_refuted.

(* Ctrl-C anywhere in the incoming line interrupts: if the line is not complete before the
   0x03 (the reference parse of the bytes before it would wait; for the Windows reader: no
   '!' before it) the read returns Interrupted, for every chunking, whatever follows *)
Theorem C16_ctrl_c :
  (forall junk pend a b, concat pend = a ++ ETX :: b -> ref_step (OpLine junk) a = FBlocked ->
     exists p', read_line junk [] pend = Interrupted p') /\
  (forall ty off pend a b, concat pend = a ++ ETX :: b -> has_byte BANG a = false ->
     exists o p', recv_line_windows ty off pend = WInterrupted o p').
Proof. exact (conj read_line_ctrl_c windows_ctrl_c). Qed.
Print Assumptions C16_ctrl_c.

(* the junk-tolerant read on any chunking is the byte-by-byte reading of the flat stream *)
Theorem C16_junk_read_flat : forall pend,
  obs_of (read_line true [] pend) = junk_bytes [] (concat pend).
Proof. exact read_line_junk_flat. Qed.
Print Assumptions C16_junk_read_flat.

(* non-vacuity: a tmux rendering with junk, a status pair inside the marker, a truncated
   status and wraps; a console rendering with every constructor *)
Example C16_tmux_example :
  recv_line_junk [65] [[36; 32; 35; 13]; [10; 27; 80; 61; 49; 27; 80; 61; 50; 27; 92; 65; 58; 13; 10; 120];
                        [27; 80; 61; 51; 10; 110; 101; 120; 116]]
  = Done [35; 65; 58; 120] [[110; 101; 120; 116]].
Proof. vm_compute. reflexivity. Qed.

Example C16_windows_example :
  win_noisy false [] [35; 65; 58; 120; 121]
    (render [APad 13; ANewline; AMove [91; 53; 59; 49]] ++ 35 ::
     render [AVt [91; 51; 50] 109] ++ 65 ::
     render [ANewline; AMove [91; 50; 53; 59; 49; 49; 57]] ++ 65 ::
     render [] ++ 58 ::
     render [AHome []] ++ 98 :: render [AMove [91; 54; 48; 59; 50; 51; 56]; APad 13; ANewline] ++ 120 ::
     render [APad 32] ++ 121 :: render [AVt [91] 75]).
Proof.
  apply (wn_char false [] _ 35); try reflexivity.
  apply (wn_char false [35] _ 65); try reflexivity.
  apply (wn_reprint false [35] 65); try reflexivity.
  apply (wn_char true [35; 65] [] 58); try reflexivity.
  apply (wn_home false [35; 65; 58] [AHome []] 98 _ 120); try reflexivity.
  apply (wn_char true [35; 65; 58; 120] _ 121); try reflexivity.
  apply wn_end. reflexivity.
Qed.
