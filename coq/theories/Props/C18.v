(* C18 — Pausing and resuming never corrupts a transfer or leaves it hanging.
   Only the property theorems; each is closed by a lemma of Proofs/Pause.v and followed by
   Print Assumptions.  Model: Model/Pause.v (reader recvCheckV2+nextBuffer, gate checkStopAndPause
   +sendDataV2, one direction of a transfer).  All statements are for protocol >= 3 (cP3 cf = true):
   older protocols have no pause handling. *)
From Trzsz Require Import Base.Bytes Gen.Consts Gen.Skel_pause Gen.Skel_pause2 Model.Pause Model.PauseDown Model.PauseProbe
  Proofs.Pause Proofs.PauseComp Proofs.PauseSim Proofs.PauseHang Proofs.PauseDown Proofs.PauseDownSim Proofs.PauseFinal Proofs.PauseFinalSim Proofs.PauseProbe Model.PauseSend Proofs.PauseSend.
From Coq Require Import ZArith.

(* the source still has the control structure the model transcribes (regenerated on every run) *)
Theorem C18_skel_matches :
  skel_recvCheckV2 = SkelPin.expected_recvCheckV2 /\
  skel_checkStopAndPause = SkelPin.expected_checkStopAndPause /\
  skel_sendDataV2 = SkelPin.expected_sendDataV2 /\
  skel_nextBuffer = SkelPin.expected_nextBuffer /\
  skel_readLine = SkelPin.expected_readLine /\
  skel_pause = SkelPin.expected_pause /\
  skel_resume = SkelPin.expected_resume /\
  skel_recvLine = SkelPin.expected_recvLine.
Proof. exact SkelPin.skel_matches. Qed.
Print Assumptions C18_skel_matches.

(* what the gate writes while pausing ("#" typ ":" "=") is what the reader classifies as a keep-alive,
   for every message type without a colon; the sleeps, the window and the threshold are the source's *)
Theorem C18_keepalive_written_is_skipped : forall typ,
  index_byte pause_colon typ = None -> classify typ (keepalive_line typ) = CKeep.
Proof. intros typ H. exact (keepalive_is_keep typ H eq_refl). Qed.
Print Assumptions C18_keepalive_written_is_skipped.

Theorem C18_consts :
  pause_keepalive_written = pause_keepalive_tested /\ pause_keepalive_tested = [61%N] /\
  pause_colon = 58%N /\ pause_gate_sleep_ms = 100%N /\ pause_reader_sleep_ms = 100%N /\
  pause_final_ack_poll_ms = 200%N /\ pause_ack_window = 5%N /\ pause_protocol3 = 3%N /\
  pause_timeout_unit_ms = 1000%N.
Proof. exact pause_consts_ok. Qed.
Print Assumptions C18_consts.

(* In EVERY reachable state of the reader a keep-alive line produces no result (it neither completes nor
   fails the read).  If a read is blocked it goes back to the top of recvCheckV2's loop: into the pausing
   loop when our side is pausing, otherwise into a new read with a FRESH timer and no pending
   newTimeout; the `pause` flag is set.  Otherwise the line is only queued. *)
Theorem C18_keepalive_ignored : forall (L : Type) (cls : L -> lclass) cf, cP3 cf = true ->
  forall s l, reachable L cls cf s -> cls l = CKeep ->
  exists s', rstep L cls cf s (EArrive l) = (s', None) /\
  match ph s with
  | PRead _ =>
    if pausing (core s)
    then ph s' = PGate (pidx (core s)) (cSL cf) /\ queue s' = [] /\ pflag (core s') = true
    else ph s' = PRead (pidx (core s)) /\ tmo (core s') = fresh cf /\ ntmo (core s') = None /\
         queue s' = [] /\ pflag (core s') = true
  | p => ph s' = p /\ core s' = core s
  end.
Proof. exact keepalive_ignored_reach. Qed.
Print Assumptions C18_keepalive_ignored.

(* ... and a buffer that holds only keep-alives, consumed from any entry point of recvCheckV2, yields no
   verdict: the reader ends blocked in a read with a fresh timer, or in the pausing loop, or stopped *)
Theorem C18_keepalives_only_no_verdict : forall (L : Type) (cls : L -> lclass) cf, cP3 cf = true ->
  forall q e c s' o, Forall (fun l => cls l = CKeep) q -> rd L cls cf q e c = (s', o) ->
  (forall snap, e <> GotLine snap \/ q <> []) ->
  ~ is_verdict L o /\
  (o = None ->
     (exists snap, ph s' = PRead snap /\ queue s' = [] /\ tmo (core s') = fresh cf /\ ntmo (core s') = None) \/
     (exists snap, ph s' = PGate snap (cSL cf))).
Proof. exact rd_all_keep. Qed.
Print Assumptions C18_keepalives_only_no_verdict.

(* The reader returns the timeout error ONLY on a tick, in a blocked read whose pause-generation
   snapshot equals the current generation (no pause began since that read iteration took its snapshot),
   while not pausing, and when no un-expired timer of a resume is waiting to replace the expired one
   (r <= 1: the replacement expires at this very tick as well). *)
Theorem C18_reader_no_false_timeout : forall (L : Type) (cls : L -> lclass) cf, cP3 cf = true ->
  forall s e s' b, reachable L cls cf s ->
  rstep L cls cf s e = (s', Some (OTimeout b)) ->
  e = ETick /\ pausing (core s) = false /\
  exists snap, ph s = PRead snap /\ snap = pidx (core s) /\
    (ntmo (core s) = None \/ exists r, ntmo (core s) = Some r /\ (r <= 1)%nat).
Proof. exact no_false_timeout_reach. Qed.
Print Assumptions C18_reader_no_false_timeout.

(* every pause that begins bumps the generation, so the snapshot of a read that was blocked is stale *)
Theorem C18_pause_bumps_generation : forall (L : Type) (cls : L -> lclass) cf, cP3 cf = true ->
  forall s, reachable L cls cf s -> pausing (core s) = false ->
  pidx (core (fst (rstep L cls cf s EPause))) = S (pidx (core s)).
Proof. exact pause_bumps_generation. Qed.
Print Assumptions C18_pause_bumps_generation.

(* in particular a timer that expires during a pause never yields an error *)
Theorem C18_timer_in_pause_no_error : forall (L : Type) (cls : L -> lclass) cf, cP3 cf = true ->
  forall s s' o, reachable L cls cf s -> pausing (core s) = true ->
  rstep L cls cf s ETick = (s', o) -> forall b, o <> Some (OTimeout b).
Proof. exact timer_in_pause_no_error_reach. Qed.
Print Assumptions C18_timer_in_pause_no_error.

(* While pausing (any events but a resume: ticks, calls, writes, stops, repeated pause requests) the
   sender writes no frame, EXCEPT the one frame of a sender that had already passed its pause check when
   the pause began (passed = 1) — and then exactly that one, after which it is no longer past the check.
   [passed (s_ph s)] is 1 iff checkStopAndPause has returned nil and sendDataV2 has not written yet. *)
Theorem C18_gate_no_data : forall cf, cP3 cf = true ->
  forall es s s' ws, s_pausing s = true -> ~ In SResumeEv es -> srun cf s es = (s', ws) ->
  (count_frames ws + passed (s_ph s') <= passed (s_ph s))%nat /\ s_pausing s' = true.
Proof. exact gate_no_data. Qed.
Print Assumptions C18_gate_no_data.

(* the pause check is passed only while not pausing (and not stopped) *)
Theorem C18_gate_pass_not_pausing : forall cf, cP3 cf = true ->
  forall s e s' ws, sstep cf s e = (s', ws) -> s_ph s <> SPassed -> s_ph s' = SPassed ->
  s_pausing s = false /\ s_stopped s = false.
Proof. exact gate_pass_not_pausing. Qed.
Print Assumptions C18_gate_pass_not_pausing.

(* after the resume the pending frame passes the gate at the sender's next wake-up, at most one gate
   sleep (100 ms) later, without a further keep-alive, and is then written *)
Theorem C18_gate_resumes : forall cf, cP3 cf = true -> forall j, (j <= cGL cf)%nat ->
  exists k, (k <= Nat.max 1 (cGL cf))%nat /\
    srun cf (mkS false false (SSleep j)) (repeat STick k) = (mkS false false SPassed, []) /\
    srun cf (mkS false false SPassed) [SWrite] = (mkS false false SIdle, [WFrame]).
Proof. exact gate_resumes. Qed.
Print Assumptions C18_gate_resumes.

(* no hang, reader side: in every reachable state a blocked read has a running timer of at most the
   configured timeout (Timeout > 0; for Timeout <= 0 the user asked to wait for ever), is not stopped,
   and has nothing buffered *)
Theorem C18_reader_has_timer : forall (L : Type) (cls : L -> lclass) cf, cP3 cf = true ->
  forall es s os snap, rrun L cls cf (rinit L) es = (s, os) -> ph s = PRead snap ->
  has_timer cf (tmo (core s)) /\ stopped (core s) = false /\ queue s = [].
Proof. exact reader_has_timer. Qed.
Print Assumptions C18_reader_has_timer.

(* the full no-hang statement for the reader: un-paused, it returns within one sleep plus three timeouts,
   whatever happened before (any number of pauses, resumes, replaced timers, keep-alives).
   PROVED (Proofs/PauseHang.v), with a tighter bound: max 1 SL + 2 T.  The three contributions are the
   rest of the sleep in the pausing loop, the read's own timer and the replacement timer of a resume
   (which run concurrently: together at most T, not 2 T), and ONE retried read: a retry happens only when
   a pause began after the read took its generation snapshot, the retry's snapshot is current, and no
   pause begins any more. *)
Definition C18_long_pause_no_hang_full : Prop :=
  forall (L : Type) (cls : L -> lclass) cf, cP3 cf = true -> (0 < cT cf)%nat ->
  forall s, reachable L cls cf s -> ph s <> PIdle -> pausing (core s) = false ->
  exists k, (k <= S (cSL cf) + 3 * cT cf)%nat /\
    exists o, In (Some o) (snd (rrun L cls cf s (repeat ETick k))).

Theorem C18_long_pause_no_hang_tight : forall (L : Type) (cls : L -> lclass) cf, cP3 cf = true -> (0 < cT cf)%nat ->
  forall s, reachable L cls cf s -> ph s <> PIdle -> pausing (core s) = false ->
  exists k, (k <= Nat.max 1 (cSL cf) + 2 * cT cf)%nat /\
    exists o, In (Some o) (snd (rrun L cls cf s (repeat ETick k))).
Proof. exact long_pause_no_hang. Qed.
Print Assumptions C18_long_pause_no_hang_tight.

Theorem C18_long_pause_no_hang : C18_long_pause_no_hang_full.
Proof. exact long_pause_no_hang_loose. Qed.
Print Assumptions C18_long_pause_no_hang.

(* the bound is attained up to the sleep: a read that was blocked when a pause began and whose timer
   expires right after the resume's replacement is retried once; here T = 3, the verdict comes at the
   6th tick after the resume = 2 T *)
Example C18_no_hang_two_timeouts :
  let cf := mkCfg 3 1 1 true in
  exists s, rrun nat (fun _ => CGood) cf (rinit nat) [ECall; EPause; ETick; ETick; EResume] = (s, [None; None; None; None; None]) /\
    pausing (core s) = false /\ ph s = PRead 0 /\
    snd (rrun nat (fun _ => CGood) cf s (repeat ETick 6)) = [None; None; None; None; None; Some (OTimeout true)].
Proof. vm_compute. eexists. repeat split. Qed.

(* kept from the first round: every blocked read has a running timer *)
Theorem C18_long_pause_no_hang_partial : forall (L : Type) (cls : L -> lclass) cf, cP3 cf = true ->
  forall es s os snap, rrun L cls cf (rinit L) es = (s, os) -> ph s = PRead snap ->
  has_timer cf (tmo (core s)) /\ stopped (core s) = false.
Proof. intros L cls cf H es s os snap Hr Hp. destruct (reader_has_timer L cls cf H es s os snap Hr Hp) as (A & B & _). auto. Qed.
Print Assumptions C18_long_pause_no_hang_partial.

(* THE COMPOSITION (one direction of a transfer: our wire sender with its gate and the ack window W, our
   ack reader, the peer's data reader with timeout T and its acker; line latency 0).  For EVERY schedule
   of goroutine moves, ticks, pause requests and resumes -- a pause may begin before any move -- in which
   an episode of pausing lasts at most P ticks and P + one sleep < T (a new pause begins at least one
   sleep after the previous resume): no side reports an error (no timeout), the frames handed to the
   peer are exactly 0,1,2,... in order (the sequence delivered without any pause), and whenever no
   goroutine can move and no episode is open, all n frames are delivered and acknowledged.
   This is the statement for the machine [astep] in which the two readers are replaced by what
   C18_keepalive_ignored / C18_reader_no_false_timeout say about them (Model/Pause.v, section (c'));
   C18_short_pause_completes below is the same for the composition of the reader machines themselves. *)
Theorem C18_short_pause_completes_partial : forall T' SL GL n W P,
  (1 <= W)%nat -> (1 <= SL)%nat -> (1 <= GL)%nat -> (P + Nat.max SL GL < S T')%nat ->
  forall xs a, arun (mkCfg (S T') SL GL true) n W P (ainit n) xs = Some a ->
  xBad a = false /\ xDeliv a = seq 0 (length (xDeliv a)) /\ (length (xDeliv a) <= n)%nat /\
  (x_quiescent n W a = true -> xEp a = EpNone -> xDeliv a = seq 0 n /\ xAcked a = n).
Proof. exact short_pause_completes_abs. Qed.
Print Assumptions C18_short_pause_completes_partial.

(* THE SIMULATION that carries the theorem over to [cstep], the composition that runs the reader machine
   [rstep] itself on both sides: every enabled concrete move from a state satisfying the concrete
   invariant (our reader is not stopped and has an empty buffer while blocked; the peer's reader never
   paused, has no replacement timer, is never in the pausing loop; no error so far) is matched by the
   SAME move of the abstract machine from the abstraction of the state, and unless the abstract machine
   reports an error the successors are related again. *)
Theorem C18_simulation : forall T' SL GL n W P s x s',
  CInv s -> cstep (mkCfg (S T') SL GL true) n W P s x = Some s' ->
  exists a', astep (mkCfg (S T') SL GL true) n W P (abs_of s) x = Some a' /\
             (xBad a' = false -> a' = abs_of s' /\ CInv s').
Proof. exact sim_step. Qed.
Print Assumptions C18_simulation.

(* the full statement: the same for [cstep].  The side condition "a new pause begins at least one sleep
   after the previous resume" is built into [cstep] (XPause is not enabled in EpResumed) and IS needed for
   a bound per pause: a goroutine asleep in a pausing loop looks at the flag only when it wakes up, so
   two pauses separated by a gap that falls between two wake-ups are ONE pause for it (see
   C18_gap_shorter_than_sleep_is_invisible below), and only the total length counts. *)
Definition C18_short_pause_completes_full : Prop := forall T' SL GL n W P,
  (1 <= W)%nat -> (1 <= SL)%nat -> (1 <= GL)%nat -> (P + Nat.max SL GL < S T')%nat ->
  forall xs s, crun (mkCfg (S T') SL GL true) n W P (cinit n) xs = Some s ->
  cErrA s = false /\ cErrR s = false /\ cDeliv s = seq 0 (length (cDeliv s)) /\ (length (cDeliv s) <= n)%nat /\
  (quiescent n W s = true -> cEp s = EpNone -> cDeliv s = seq 0 n /\ cAcked s = n).

Theorem C18_short_pause_completes : C18_short_pause_completes_full.
Proof. intros T' SL GL n W P HW HSL HGL HP. exact (short_pause_completes_conc T' SL GL n W P HW HSL HGL HP). Qed.
Print Assumptions C18_short_pause_completes.

(* why pauses must be a sleep apart: a reader in the pausing loop with a 3-tick sleep; resume, one tick,
   pause again, two ticks -- repeated: it never leaves the loop, although no single pause lasted more
   than 2 ticks *)
Example C18_gap_shorter_than_sleep_is_invisible :
  let cf := mkCfg 9 3 3 true in
  let round := [EResume; ETick; EPause; ETick; ETick] in
  exists s, rrun nat (fun _ => CGood) cf (rinit nat) ([EPause; ECall] ++ round ++ round ++ round ++ round ++ round ++ round) = (s, repeat None 32) /\
    ph s = PGate 1 3.
Proof. vm_compute. eexists. split; reflexivity. Qed.

(* the real constants: 100 ms ticks, default Timeout 20 s, window kAckChanBufferSize: every pause of up
   to 19.8 s *)
Example C18_default_timeout_instance :
  cfg_of 100 20 3 = mkCfg 200 1 1 true /\ N.to_nat pause_ack_window = 5%nat /\ (198 + Nat.max 1 1 < 200)%nat.
Proof. vm_compute. repeat split; auto. Qed.

(* the side condition cannot be dropped altogether: with a gate sleep as long as the timeout (keep-alives
   every 3 ticks, timeout 3 ticks) and a pause of 3 ticks the peer's reader times out *)
Example C18_bound_needed : exists xs a,
  arun (mkCfg 3 1 3 true) 1 1 3 (ainit 1) xs = Some a /\ xBad a = true /\ ~ (3 + Nat.max 1 3 < 3)%nat.
Proof.
  exists [XPause; XSCall; XRCall; XTick; XTick; XTick]. eexists. split; [vm_compute; reflexivity|].
  split; [reflexivity|]. cbn. intros H. apply (proj1 (Nat.lt_nge _ _) H). repeat constructor.
Qed.

(* ====================== the DOWNLOAD direction, data phase ======================
   The peer's wire sender PS with its ack window W, OUR data reader D (recvCheckV2("DATA"): pausing loop, read
   timer), OUR acker K (checkStopAndPause("SUCC") in front of every "#SUCC:len/step": keep-alives "#SUCC:=" every
   gate sleep, but ONLY while it holds an acknowledgement), the peer's ack reader PA on its timer; latency 0.
   When a pause begins with everything acknowledged, K waits on its channel, D sleeps in its loop, and the peer
   hears nothing until the resume: the bound on the pause length is what keeps PA (and D) from timing out.
   For EVERY schedule in which an episode of pausing lasts at most P ticks, P + one sleep < T: no error on either
   side, the frames handed to our pipeline are exactly 0,1,2,... in order, and whenever nothing can move and no
   episode is open all n frames are delivered and the peer has all n acknowledgements. *)
Definition C18_down_short_pause_completes_full : Prop := forall T' SL GL n W P,
  (1 <= W)%nat -> (1 <= SL)%nat -> (1 <= GL)%nat -> (P + Nat.max SL GL < S T')%nat ->
  forall xs s, ydrun (mkCfg (S T') SL GL true) n W P (ydinit n) xs = Some s ->
  dErrD s = false /\ dErrPA s = false /\ dDeliv s = seq 0 (length (dDeliv s)) /\ (length (dDeliv s) <= n)%nat /\
  (d_quiescent n W s = true -> dEp s = EpNone -> dDeliv s = seq 0 n /\ dPacked s = n).

Theorem C18_down_short_pause_completes : C18_down_short_pause_completes_full.
Proof. intros T' SL GL n W P HW HSL HGL HP. exact (down_short_pause_completes_conc T' SL GL n W P HW HSL HGL HP). Qed.
Print Assumptions C18_down_short_pause_completes.

(* the same for the abstract machine, and the simulation between the two *)
Theorem C18_down_short_pause_completes_abs : forall T' SL GL n W P,
  (1 <= W)%nat -> (1 <= SL)%nat -> (1 <= GL)%nat -> (P + Nat.max SL GL < S T')%nat ->
  forall xs b, yrun (mkCfg (S T') SL GL true) n W P (yinit n) xs = Some b ->
  yBad b = false /\ yDeliv b = seq 0 (length (yDeliv b)) /\ (length (yDeliv b) <= n)%nat /\
  (y_quiescent n W b = true -> yEp b = EpNone -> yDeliv b = seq 0 n /\ yPacked b = n).
Proof. exact down_short_pause_completes_abs. Qed.
Print Assumptions C18_down_short_pause_completes_abs.

Theorem C18_down_simulation : forall T' SL GL n W P s x s',
  DInv s -> ydstep (mkCfg (S T') SL GL true) n W P s x = Some s' ->
  exists b', ystep (mkCfg (S T') SL GL true) n W P (yabs s) x = Some b' /\
             (yBad b' = false -> b' = yabs s' /\ DInv s').
Proof. exact down_sim_step. Qed.
Print Assumptions C18_down_simulation.

(* the bound is tight: a single pause with P + sleep = T makes the peer's ack reader time out (3 frames, window 1,
   T = 4 ticks, sleeps of 1 tick, a pause of 3 ticks that begins when everything has been acknowledged; the
   reader machines themselves, not the abstraction) *)
Example C18_down_long_pause_times_out : exists xs s,
  ydrun (mkCfg 4 1 1 true) 3 1 3 (ydinit 3) xs = Some s /\ dErrPA s = true /\ (3 + Nat.max 1 1 = 4)%nat.
Proof.
  exists [YPause; YPSCall; YPSWrite; YPSPush; YPSCall; YPSWrite; YPATake; YPSPush; YPSCall; YPSWrite; YDCall;
          YTick; YTick; YTick; YResume; YTick].
  eexists. split; [vm_compute; reflexivity|]. split; reflexivity.
Qed.

(* ====================== after the last DATA frame ======================
   UPLOAD: the peer's acker polls ("#SUCC:step" every FP ticks until its disk has everything, then the final one and
   its pipeline is done); our reader loops in pipelineRecvFinalAck with the pausing loop in front of every read; when
   it returns the final ack our main goroutine writes the MD5 line (no gate); the peer's main goroutine waits for it
   with a PLAIN timed read: nothing we write while pausing re-arms that timer.  For every schedule with episodes of
   at most P ticks, P + one sleep < T (a new pause beginning MORE than one sleep after the previous resume, so that
   our reader gets through the progress acks that piled up) and FP < T: no timeout on either side, and whenever
   nothing can move, no episode is open and the peer's disk has everything, we have seen the final ack and the peer
   has the MD5 line.  (Stated for the machine in which our reader is replaced by its abstraction; C18_up_final_short_pause below is
   the same for the reader machine itself.) *)
Theorem C18_up_final_short_pause_abs : forall T' SL GL FP P,
  (1 <= SL)%nat -> (1 <= FP)%nat -> (FP < S T')%nat -> (P + SL < S T')%nat ->
  forall xs u, urun (mkCfg (S T') SL GL true) FP P (uinit (mkCfg (S T') SL GL true) FP) xs = Some u ->
  uBad u = false /\
  (u_quiescent u = true -> uEp u = EpNone -> uSaved u = true -> uFin u = true /\ uPM u = PMDone).
Proof. exact up_final_short_pause. Qed.
Print Assumptions C18_up_final_short_pause_abs.

(* the same with our reader as the reader machine [rstep] itself ([udstep]), carried over by a simulation as in
   the data phases *)
Definition C18_up_final_short_pause_full : Prop := forall T' SL GL FP P,
  (1 <= SL)%nat -> (1 <= FP)%nat -> (FP < S T')%nat -> (P + SL < S T')%nat ->
  forall xs s, udrun (mkCfg (S T') SL GL true) FP P (udinit (mkCfg (S T') SL GL true) FP) xs = Some s ->
  udErr s = false /\ udBadPM s = false /\
  (ud_quiescent s = true -> udEp s = EpNone -> udSaved s = true -> udFin s = true /\ udPM s = PMDone).

Theorem C18_up_final_short_pause : C18_up_final_short_pause_full.
Proof. intros T' SL GL FP P H1 H2 H3 H4. exact (up_final_short_pause_conc T' SL GL FP P H1 H2 H3 H4). Qed.
Print Assumptions C18_up_final_short_pause.

Theorem C18_up_final_simulation : forall T' SL GL FP P s x s',
  UDInv s -> udstep (mkCfg (S T') SL GL true) FP P s x = Some s' ->
  exists u', ustep (mkCfg (S T') SL GL true) FP P (uabs s) x = Some u' /\ (uBad u' = false -> u' = uabs s' /\ UDInv s').
Proof. exact up_final_sim_step. Qed.
Print Assumptions C18_up_final_simulation.

(* tight: a pause with P + sleep = T that begins before the peer's disk catches up makes the peer give up waiting
   for the MD5 line (T = 5, sleep 1, poll 2, pause 4) *)
Example C18_up_final_long_pause_times_out : exists xs s,
  udrun (mkCfg 5 1 1 true) 2 4 (udinit (mkCfg 5 1 1 true) 2) xs = Some s /\ udBadPM s = true /\ (4 + 1 = 5)%nat.
Proof.
  exists [UPause; UFACall; USaved; UTick; UTick; UTick; UTick; UResume; UTick].
  eexists. split; [vm_compute; reflexivity|]. split; reflexivity.
Qed.

(* DOWNLOAD: our acker in its final loop (gate, "#SUCC:step", poll wait or ackImmediately) always has something to
   say: a keep-alive every gate sleep while pausing, a progress ack every poll otherwise.  For EVERY schedule -- pauses
   of any length and number, any distance apart -- the peer's pipelineRecvFinalAck never times out, provided only
   that the gate sleep and the poll interval are shorter than the timeout; and when our acker is done and nothing
   can move the peer has seen the final ack. *)
Theorem C18_down_final_never_times_out_abs : forall T' SL GL FP,
  (1 <= GL)%nat -> (1 <= FP)%nat -> (GL < S T')%nat -> (FP < S T')%nat ->
  forall xs v, vrun (mkCfg (S T') SL GL true) FP vinit xs = Some v ->
  vBad v = false /\ (vK v = K2Done -> v_quiescent v = true -> vPfin v = true).
Proof. exact down_final_never_times_out. Qed.
Print Assumptions C18_down_final_never_times_out_abs.

(* the same with the peer's reader as the reader machine and the gate of Model/Pause.v ([vdstep]) *)
Definition C18_down_final_never_times_out_full : Prop := forall T' SL GL FP,
  (1 <= GL)%nat -> (1 <= FP)%nat -> (GL < S T')%nat -> (FP < S T')%nat ->
  forall xs s, vdrun (mkCfg (S T') SL GL true) FP vdinit xs = Some s ->
  vdErr s = false /\ (vdK s = K2Done -> vd_quiescent s = true -> vdPfin s = true).

Theorem C18_down_final_never_times_out : C18_down_final_never_times_out_full.
Proof. intros T' SL GL FP H1 H2 H3 H4. exact (down_final_never_times_out_conc T' SL GL FP H1 H2 H3 H4). Qed.
Print Assumptions C18_down_final_never_times_out.

Theorem C18_down_final_simulation : forall T' SL GL FP s x s',
  VDInv s -> vdstep (mkCfg (S T') SL GL true) FP s x = Some s' ->
  exists v', vstep (mkCfg (S T') SL GL true) FP (vabs s) x = Some v' /\ (vBad v' = false -> v' = vabs s' /\ VDInv s').
Proof. exact down_final_sim_step. Qed.
Print Assumptions C18_down_final_simulation.

(* both conditions are needed: a gate sleep, or a poll interval, as long as the timeout *)
Example C18_down_final_conditions_needed :
  (exists xs v, vdrun (mkCfg 4 1 4 true) 2 vdinit xs = Some v /\ vdErr v = true) /\
  (exists xs v, vdrun (mkCfg 4 1 1 true) 4 vdinit xs = Some v /\ vdErr v = true).
Proof.
  split.
  - exists [VPause; VKCall; VPFCall; VTick; VTick; VTick; VTick]. eexists. split; [vm_compute; reflexivity|reflexivity].
  - exists [VKCall; VKWrite; VPFCall; VPFCall; VTick; VTick; VTick; VTick]. eexists. split; [vm_compute; reflexivity|reflexivity].
Qed.

(* the real constants, 100 ms ticks, default Timeout 20 s: sleeps 1 tick, poll 2 ticks, T = 200: every pause of up
   to 19.8 s in either direction's data phase and in the upload's final phase; any pause in the download's final loop *)
Example C18_default_timeout_instances :
  cfg_of 100 20 3 = mkCfg 200 1 1 true /\ (N.to_nat (pause_final_ack_poll_ms / 100) = 2)%nat /\
  (198 + Nat.max 1 1 <? 200)%nat = true /\ (198 + 1 <? 200)%nat = true /\ (2 <? 200)%nat = true /\ (1 <? 200)%nat = true.
Proof. vm_compute. repeat split; reflexivity. Qed.

(* ====================== the buffer-size probing phase ======================
   While the sender probes the buffer size its encoder waits after every buffer for bufInitDone(), which only the
   ack reader calls.  An acknowledgement that recvCheckV2 marks `pause` is kept out of the chunk-time statistics --
   but in the probing phase it must still release the encoder, or a pause there hangs the sender for ever (no timer
   on that path).  In the probing phase EVERY acknowledgement releases the encoder. *)
Theorem C18_probe_ack_releases : forall st pause grow, pra_init st = true -> snd (pra_step st pause grow) = true.
Proof. exact probe_ack_releases. Qed.
Print Assumptions C18_probe_ack_releases.

Theorem C18_probe_run_releases : forall acks st st' rs, pra_init st = true -> pra_run st acks = (st', rs) ->
  Forall (fun pg => snd pg = true) acks -> rs = repeat true (length acks) /\ pra_init st' = true.
Proof. exact probe_run_releases. Qed.
Print Assumptions C18_probe_run_releases.

Theorem C18_probe_ends_with_release : forall st pause, pra_init st = true ->
  pra_step st pause false = (mkPra (if pause then Z.of_N pause_ignore_chunk_count else pra_ignore st) false, true).
Proof. exact probe_ends_with_release. Qed.
Print Assumptions C18_probe_ends_with_release.

(* the goroutines around the pause machinery still have the shape the models transcribe *)
Theorem C18_skel2_matches :
  skel_pipelineRecvAck = SkelPin2.expected_pipelineRecvAck /\
  skel_pipelineRecvFinalAck = SkelPin2.expected_pipelineRecvFinalAck /\
  skel_pipelineRecvData = SkelPin2.expected_pipelineRecvData /\
  skel_pipelineSendAck = SkelPin2.expected_pipelineSendAck /\
  skel_sendDataWriterWrite = SkelPin2.expected_sendDataWriterWrite /\
  skel_sendFileMD5 = SkelPin2.expected_sendFileMD5 /\
  skel_recvFileMD5 = SkelPin2.expected_recvFileMD5.
Proof. exact SkelPin2.skel2_matches. Qed.
Print Assumptions C18_skel2_matches.

Theorem C18_consts2 : pause_ignore_chunk_count = (pause_ack_window + 2)%N /\ pause_recv_ackchan_cap = 100%N.
Proof. exact pause2_consts_ok. Qed.
Print Assumptions C18_consts2.

(* ====================== the wire sender at CHUNK granularity ======================
   pipelineSendData takes encoded blocks from its queue and writes each as ONE chunk, or -- when the chunk size
   (t.bufferSize) has meanwhile shrunk below the block, after an acknowledgement that took >= 2 s -- cuts it into
   several chunks; the pause check sits in sendDataV2, in front of EVERY chunk.  The clause "while paused the paused
   side sends no further file data (keep-alive lines take its place)" on every sending path: for every sequence of
   events without a resume -- ticks, the goroutine's own moves, blocks handed over, changes of the chunk size at any
   moment (so a block in hand may be re-split differently), acknowledgements taken from the window, stop, further
   pause requests -- from ANY state of a pausing sender, no chunk is written (whole frame, piece of a re-split block,
   the zero-length finish chunk alike), except the single chunk of a sender that had already passed its check when
   the pause began, and then exactly that one. *)
Theorem C18_no_data_while_paused_chunks : forall cf W, cP3 cf = true ->
  forall es s s' os, bd_pausing s = true -> ~ In BResumeEv es -> brun cf W s es = (s', os) ->
  (bs_count_chunks os + bs_passed (bd_ph s') <= bs_passed (bd_ph s))%nat /\ bd_pausing s' = true.
Proof. exact bs_no_data_while_paused. Qed.
Print Assumptions C18_no_data_while_paused_chunks.

Theorem C18_nothing_while_paused_chunks : forall cf W, cP3 cf = true ->
  forall es s s' os, bd_pausing s = true -> bs_passed (bd_ph s) = 0%nat -> ~ In BResumeEv es ->
  brun cf W s es = (s', os) -> bs_chunks os = [].
Proof. exact bs_nothing_while_paused. Qed.
Print Assumptions C18_nothing_while_paused_chunks.

(* re-splitting conserves the bytes, wherever pauses fall and whatever the chunk size does *)
Theorem C18_resplit_conserves_bytes : forall cf W es s s' os, bd_stopped s = false -> ~ In BStopEv es ->
  (forall n, ~ In (BEnqueue n) es) -> bs_wf (bd_ph s) -> brun cf W s es = (s', os) ->
  (nsum (bs_chunks os) + bs_left (bd_ph s') + nsum (bd_queue s') = bs_left (bd_ph s) + nsum (bd_queue s))%N.
Proof. exact bs_bytes_conserved. Qed.
Print Assumptions C18_resplit_conserves_bytes.

(* non-vacuity: two blocks of 8 bytes, the chunk size drops to 3 after the first; the second is cut 3+3+2; a pause
   that begins after its first piece: the two remaining pieces wait for the resume, keep-alives take their place *)
Example C18_resplit_pause_example :
  let cf := mkCfg 10 1 1 true in
  let s0 := mkBsd false false [8; 8]%N true 8%N BSTake O in
  snd (brun cf 5 s0 [BNext; BCall; BWrite; BPush; BSetBuf 3; BNext; BNext; BCall; BWrite; BPush;
                     BPauseEv; BNext; BCall; BTick; BTick; BResumeEv; BTick; BWrite; BPush; BNext; BCall; BWrite; BPush; BNext])
  = [BOChunk true 8; BOChunk false 3; BOKeep; BOKeep; BOKeep; BOChunk false 3; BOChunk false 2]%N.
Proof. vm_compute. reflexivity. Qed.

(* non-vacuity: a reader that is reachable, blocked in a read, pausing; a keep-alive; a paused sender
   already past its check *)
Example C18_nonvacuous :
  let cf := cfg_of 10 (Zpos 1) 3 in
  cP3 cf = true /\ cT cf = 100%nat /\ cSL cf = 10%nat /\
  exists s, rrun (list N) (classify [68;65;84;65]%N) cf (rinit _) [ECall; ETick; EPause] = (s, [None; None; None])
    /\ ph s = PRead 0 /\ pausing (core s) = true /\ pidx (core s) = 1%nat.
Proof. vm_compute. repeat split. eexists. repeat split. Qed.
