(* C18 — Pausing and resuming never corrupts a transfer or leaves it hanging.
   Only the property theorems; each is closed by a lemma of Proofs/Pause.v and followed by
   Print Assumptions.  Model: Model/Pause.v (reader recvCheckV2+nextBuffer, gate checkStopAndPause
   +sendDataV2, one direction of a transfer).  All statements are for protocol >= 3 (cP3 cf = true):
   older protocols have no pause handling. *)
From Trzsz Require Import Base.Bytes Gen.Consts Gen.Skel_pause Model.Pause Proofs.Pause Proofs.PauseComp Proofs.PauseSim Proofs.PauseHang.
From Coq Require Import ZArith.

(* the source still has the control structure the model transcribes (regenerated on every run) *)
Theorem C18_skel_matches :
  skel_recvCheckV2 = SkelPin.expected_recvCheckV2 /\
  skel_checkStopAndPause = SkelPin.expected_checkStopAndPause /\
  skel_sendDataV2 = SkelPin.expected_sendDataV2 /\
  skel_nextBuffer = SkelPin.expected_nextBuffer /\
  skel_readLine = SkelPin.expected_readLine /\
  skel_pause = SkelPin.expected_pause /\
  skel_resume = SkelPin.expected_resume /\
  skel_recvLine = SkelPin.expected_recvLine.
Proof. exact SkelPin.skel_matches. Qed.
Print Assumptions C18_skel_matches.

(* what the gate writes while pausing ("#" typ ":" "=") is what the reader classifies as a keep-alive,
   for every message type without a colon; the sleeps, the window and the threshold are the source's *)
Theorem C18_keepalive_written_is_skipped : forall typ,
  index_byte pause_colon typ = None -> classify typ (keepalive_line typ) = CKeep.
Proof. intros typ H. exact (keepalive_is_keep typ H eq_refl). Qed.
Print Assumptions C18_keepalive_written_is_skipped.

Theorem C18_consts :
  pause_keepalive_written = pause_keepalive_tested /\ pause_keepalive_tested = [61%N] /\
  pause_colon = 58%N /\ pause_gate_sleep_ms = 100%N /\ pause_reader_sleep_ms = 100%N /\
  pause_final_ack_poll_ms = 200%N /\ pause_ack_window = 5%N /\ pause_protocol3 = 3%N /\
  pause_timeout_unit_ms = 1000%N.
Proof. exact pause_consts_ok. Qed.
Print Assumptions C18_consts.

(* In EVERY reachable state of the reader a keep-alive line produces no result (it neither completes nor
   fails the read).  If a read is blocked it goes back to the top of recvCheckV2's loop: into the pausing
   loop when our side is pausing, otherwise into a new read with a FRESH timer and no pending
   newTimeout; the `pause` flag is set.  Otherwise the line is only queued. *)
Theorem C18_keepalive_ignored : forall (L : Type) (cls : L -> lclass) cf, cP3 cf = true ->
  forall s l, reachable L cls cf s -> cls l = CKeep ->
  exists s', rstep L cls cf s (EArrive l) = (s', None) /\
  match ph s with
  | PRead _ =>
    if pausing (core s)
    then ph s' = PGate (pidx (core s)) (cSL cf) /\ queue s' = [] /\ pflag (core s') = true
    else ph s' = PRead (pidx (core s)) /\ tmo (core s') = fresh cf /\ ntmo (core s') = None /\
         queue s' = [] /\ pflag (core s') = true
  | p => ph s' = p /\ core s' = core s
  end.
Proof. exact keepalive_ignored_reach. Qed.
Print Assumptions C18_keepalive_ignored.

(* ... and a buffer that holds only keep-alives, consumed from any entry point of recvCheckV2, yields no
   verdict: the reader ends blocked in a read with a fresh timer, or in the pausing loop, or stopped *)
Theorem C18_keepalives_only_no_verdict : forall (L : Type) (cls : L -> lclass) cf, cP3 cf = true ->
  forall q e c s' o, Forall (fun l => cls l = CKeep) q -> rd L cls cf q e c = (s', o) ->
  (forall snap, e <> GotLine snap \/ q <> []) ->
  ~ is_verdict L o /\
  (o = None ->
     (exists snap, ph s' = PRead snap /\ queue s' = [] /\ tmo (core s') = fresh cf /\ ntmo (core s') = None) \/
     (exists snap, ph s' = PGate snap (cSL cf))).
Proof. exact rd_all_keep. Qed.
Print Assumptions C18_keepalives_only_no_verdict.

(* The reader returns the timeout error ONLY on a tick, in a blocked read whose pause-generation
   snapshot equals the current generation (no pause began since that read iteration took its snapshot),
   while not pausing, and when no un-expired timer of a resume is waiting to replace the expired one
   (r <= 1: the replacement expires at this very tick as well). *)
Theorem C18_reader_no_false_timeout : forall (L : Type) (cls : L -> lclass) cf, cP3 cf = true ->
  forall s e s' b, reachable L cls cf s ->
  rstep L cls cf s e = (s', Some (OTimeout b)) ->
  e = ETick /\ pausing (core s) = false /\
  exists snap, ph s = PRead snap /\ snap = pidx (core s) /\
    (ntmo (core s) = None \/ exists r, ntmo (core s) = Some r /\ (r <= 1)%nat).
Proof. exact no_false_timeout_reach. Qed.
Print Assumptions C18_reader_no_false_timeout.

(* every pause that begins bumps the generation, so the snapshot of a read that was blocked is stale *)
Theorem C18_pause_bumps_generation : forall (L : Type) (cls : L -> lclass) cf, cP3 cf = true ->
  forall s, reachable L cls cf s -> pausing (core s) = false ->
  pidx (core (fst (rstep L cls cf s EPause))) = S (pidx (core s)).
Proof. exact pause_bumps_generation. Qed.
Print Assumptions C18_pause_bumps_generation.

(* in particular a timer that expires during a pause never yields an error *)
Theorem C18_timer_in_pause_no_error : forall (L : Type) (cls : L -> lclass) cf, cP3 cf = true ->
  forall s s' o, reachable L cls cf s -> pausing (core s) = true ->
  rstep L cls cf s ETick = (s', o) -> forall b, o <> Some (OTimeout b).
Proof. exact timer_in_pause_no_error_reach. Qed.
Print Assumptions C18_timer_in_pause_no_error.

(* While pausing (any events but a resume: ticks, calls, writes, stops, repeated pause requests) the
   sender writes no frame, EXCEPT the one frame of a sender that had already passed its pause check when
   the pause began (passed = 1) — and then exactly that one, after which it is no longer past the check.
   [passed (s_ph s)] is 1 iff checkStopAndPause has returned nil and sendDataV2 has not written yet. *)
Theorem C18_gate_no_data : forall cf, cP3 cf = true ->
  forall es s s' ws, s_pausing s = true -> ~ In SResumeEv es -> srun cf s es = (s', ws) ->
  (count_frames ws + passed (s_ph s') <= passed (s_ph s))%nat /\ s_pausing s' = true.
Proof. exact gate_no_data. Qed.
Print Assumptions C18_gate_no_data.

(* the pause check is passed only while not pausing (and not stopped) *)
Theorem C18_gate_pass_not_pausing : forall cf, cP3 cf = true ->
  forall s e s' ws, sstep cf s e = (s', ws) -> s_ph s <> SPassed -> s_ph s' = SPassed ->
  s_pausing s = false /\ s_stopped s = false.
Proof. exact gate_pass_not_pausing. Qed.
Print Assumptions C18_gate_pass_not_pausing.

(* after the resume the pending frame passes the gate at the sender's next wake-up, at most one gate
   sleep (100 ms) later, without a further keep-alive, and is then written *)
Theorem C18_gate_resumes : forall cf, cP3 cf = true -> forall j, (j <= cGL cf)%nat ->
  exists k, (k <= Nat.max 1 (cGL cf))%nat /\
    srun cf (mkS false false (SSleep j)) (repeat STick k) = (mkS false false SPassed, []) /\
    srun cf (mkS false false SPassed) [SWrite] = (mkS false false SIdle, [WFrame]).
Proof. exact gate_resumes. Qed.
Print Assumptions C18_gate_resumes.

(* no hang, reader side: in every reachable state a blocked read has a running timer of at most the
   configured timeout (Timeout > 0; for Timeout <= 0 the user asked to wait for ever), is not stopped,
   and has nothing buffered *)
Theorem C18_reader_has_timer : forall (L : Type) (cls : L -> lclass) cf, cP3 cf = true ->
  forall es s os snap, rrun L cls cf (rinit L) es = (s, os) -> ph s = PRead snap ->
  has_timer cf (tmo (core s)) /\ stopped (core s) = false /\ queue s = [].
Proof. exact reader_has_timer. Qed.
Print Assumptions C18_reader_has_timer.

(* the full no-hang statement for the reader: un-paused, it returns within one sleep plus three timeouts,
   whatever happened before (any number of pauses, resumes, replaced timers, keep-alives).
   PROVED (Proofs/PauseHang.v), with a tighter bound: max 1 SL + 2 T.  The three contributions are the
   rest of the sleep in the pausing loop, the read's own timer and the replacement timer of a resume
   (which run concurrently: together at most T, not 2 T), and ONE retried read: a retry happens only when
   a pause began after the read took its generation snapshot, the retry's snapshot is current, and no
   pause begins any more. *)
Definition C18_long_pause_no_hang_full : Prop :=
  forall (L : Type) (cls : L -> lclass) cf, cP3 cf = true -> (0 < cT cf)%nat ->
  forall s, reachable L cls cf s -> ph s <> PIdle -> pausing (core s) = false ->
  exists k, (k <= S (cSL cf) + 3 * cT cf)%nat /\
    exists o, In (Some o) (snd (rrun L cls cf s (repeat ETick k))).

Theorem C18_long_pause_no_hang_tight : forall (L : Type) (cls : L -> lclass) cf, cP3 cf = true -> (0 < cT cf)%nat ->
  forall s, reachable L cls cf s -> ph s <> PIdle -> pausing (core s) = false ->
  exists k, (k <= Nat.max 1 (cSL cf) + 2 * cT cf)%nat /\
    exists o, In (Some o) (snd (rrun L cls cf s (repeat ETick k))).
Proof. exact long_pause_no_hang. Qed.
Print Assumptions C18_long_pause_no_hang_tight.

Theorem C18_long_pause_no_hang : C18_long_pause_no_hang_full.
Proof. exact long_pause_no_hang_loose. Qed.
Print Assumptions C18_long_pause_no_hang.

(* the bound is attained up to the sleep: a read that was blocked when a pause began and whose timer
   expires right after the resume's replacement is retried once; here T = 3, the verdict comes at the
   6th tick after the resume = 2 T *)
Example C18_no_hang_two_timeouts :
  let cf := mkCfg 3 1 1 true in
  exists s, rrun nat (fun _ => CGood) cf (rinit nat) [ECall; EPause; ETick; ETick; EResume] = (s, [None; None; None; None; None]) /\
    pausing (core s) = false /\ ph s = PRead 0 /\
    snd (rrun nat (fun _ => CGood) cf s (repeat ETick 6)) = [None; None; None; None; None; Some (OTimeout true)].
Proof. vm_compute. eexists. repeat split. Qed.

(* kept from the first round: every blocked read has a running timer *)
Theorem C18_long_pause_no_hang_partial : forall (L : Type) (cls : L -> lclass) cf, cP3 cf = true ->
  forall es s os snap, rrun L cls cf (rinit L) es = (s, os) -> ph s = PRead snap ->
  has_timer cf (tmo (core s)) /\ stopped (core s) = false.
Proof. intros L cls cf H es s os snap Hr Hp. destruct (reader_has_timer L cls cf H es s os snap Hr Hp) as (A & B & _). auto. Qed.
Print Assumptions C18_long_pause_no_hang_partial.

(* THE COMPOSITION (one direction of a transfer: our wire sender with its gate and the ack window W, our
   ack reader, the peer's data reader with timeout T and its acker; line latency 0).  For EVERY schedule
   of goroutine moves, ticks, pause requests and resumes -- a pause may begin before any move -- in which
   an episode of pausing lasts at most P ticks and P + one sleep < T (a new pause begins at least one
   sleep after the previous resume): no side reports an error (no timeout), the frames handed to the
   peer are exactly 0,1,2,... in order (the sequence delivered without any pause), and whenever no
   goroutine can move and no episode is open, all n frames are delivered and acknowledged.
   This is the statement for the machine [astep] in which the two readers are replaced by what
   C18_keepalive_ignored / C18_reader_no_false_timeout say about them (Model/Pause.v, section (c'));
   C18_short_pause_completes below is the same for the composition of the reader machines themselves. *)
Theorem C18_short_pause_completes_partial : forall T' SL GL n W P,
  (1 <= W)%nat -> (1 <= SL)%nat -> (1 <= GL)%nat -> (P + Nat.max SL GL < S T')%nat ->
  forall xs a, arun (mkCfg (S T') SL GL true) n W P (ainit n) xs = Some a ->
  xBad a = false /\ xDeliv a = seq 0 (length (xDeliv a)) /\ (length (xDeliv a) <= n)%nat /\
  (x_quiescent n W a = true -> xEp a = EpNone -> xDeliv a = seq 0 n /\ xAcked a = n).
Proof. exact short_pause_completes_abs. Qed.
Print Assumptions C18_short_pause_completes_partial.

(* THE SIMULATION that carries the theorem over to [cstep], the composition that runs the reader machine
   [rstep] itself on both sides: every enabled concrete move from a state satisfying the concrete
   invariant (our reader is not stopped and has an empty buffer while blocked; the peer's reader never
   paused, has no replacement timer, is never in the pausing loop; no error so far) is matched by the
   SAME move of the abstract machine from the abstraction of the state, and unless the abstract machine
   reports an error the successors are related again. *)
Theorem C18_simulation : forall T' SL GL n W P s x s',
  CInv s -> cstep (mkCfg (S T') SL GL true) n W P s x = Some s' ->
  exists a', astep (mkCfg (S T') SL GL true) n W P (abs_of s) x = Some a' /\
             (xBad a' = false -> a' = abs_of s' /\ CInv s').
Proof. exact sim_step. Qed.
Print Assumptions C18_simulation.

(* the full statement: the same for [cstep].  The side condition "a new pause begins at least one sleep
   after the previous resume" is built into [cstep] (XPause is not enabled in EpResumed) and IS needed for
   a bound per pause: a goroutine asleep in a pausing loop looks at the flag only when it wakes up, so
   two pauses separated by a gap that falls between two wake-ups are ONE pause for it (see
   C18_gap_shorter_than_sleep_is_invisible below), and only the total length counts. *)
Definition C18_short_pause_completes_full : Prop := forall T' SL GL n W P,
  (1 <= W)%nat -> (1 <= SL)%nat -> (1 <= GL)%nat -> (P + Nat.max SL GL < S T')%nat ->
  forall xs s, crun (mkCfg (S T') SL GL true) n W P (cinit n) xs = Some s ->
  cErrA s = false /\ cErrR s = false /\ cDeliv s = seq 0 (length (cDeliv s)) /\ (length (cDeliv s) <= n)%nat /\
  (quiescent n W s = true -> cEp s = EpNone -> cDeliv s = seq 0 n /\ cAcked s = n).

Theorem C18_short_pause_completes : C18_short_pause_completes_full.
Proof. intros T' SL GL n W P HW HSL HGL HP. exact (short_pause_completes_conc T' SL GL n W P HW HSL HGL HP). Qed.
Print Assumptions C18_short_pause_completes.

(* why pauses must be a sleep apart: a reader in the pausing loop with a 3-tick sleep; resume, one tick,
   pause again, two ticks -- repeated: it never leaves the loop, although no single pause lasted more
   than 2 ticks *)
Example C18_gap_shorter_than_sleep_is_invisible :
  let cf := mkCfg 9 3 3 true in
  let round := [EResume; ETick; EPause; ETick; ETick] in
  exists s, rrun nat (fun _ => CGood) cf (rinit nat) ([EPause; ECall] ++ round ++ round ++ round ++ round ++ round ++ round) = (s, repeat None 32) /\
    ph s = PGate 1 3.
Proof. vm_compute. eexists. split; reflexivity. Qed.

(* the real constants: 100 ms ticks, default Timeout 20 s, window kAckChanBufferSize: every pause of up
   to 19.8 s *)
Example C18_default_timeout_instance :
  cfg_of 100 20 3 = mkCfg 200 1 1 true /\ N.to_nat pause_ack_window = 5%nat /\ (198 + Nat.max 1 1 < 200)%nat.
Proof. vm_compute. repeat split; auto. Qed.

(* the side condition cannot be dropped altogether: with a gate sleep as long as the timeout (keep-alives
   every 3 ticks, timeout 3 ticks) and a pause of 3 ticks the peer's reader times out *)
Example C18_bound_needed : exists xs a,
  arun (mkCfg 3 1 3 true) 1 1 3 (ainit 1) xs = Some a /\ xBad a = true /\ ~ (3 + Nat.max 1 3 < 3)%nat.
Proof.
  exists [XPause; XSCall; XRCall; XTick; XTick; XTick]. eexists. split; [vm_compute; reflexivity|].
  split; [reflexivity|]. cbn. intros H. apply (proj1 (Nat.lt_nge _ _) H). repeat constructor.
Qed.

(* non-vacuity: a reader that is reachable, blocked in a read, pausing; a keep-alive; a paused sender
   already past its check *)
Example C18_nonvacuous :
  let cf := cfg_of 10 (Zpos 1) 3 in
  cP3 cf = true /\ cT cf = 100%nat /\ cSL cf = 10%nat /\
  exists s, rrun (list N) (classify [68;65;84;65]%N) cf (rinit _) [ECall; ETick; EPause] = (s, [None; None; None])
    /\ ph s = PRead 0 /\ pausing (core s) = true /\ pidx (core s) = 1%nat.
Proof. vm_compute. repeat split. eexists. repeat split. Qed.
