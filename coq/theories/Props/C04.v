(* C04 — Escape coding is reversible and keeps protected bytes off the wire.
   This file contains only the property theorems; each is closed by a lemma of
   Proofs/Escape.v and followed by Print Assumptions. *)
From Trzsz Require Import Base.Bytes Gen.Consts Model.Escape Proofs.Escape.

(* every payload survives escape + unescape, for every well-formed table and every
   destination buffer size >= 1 (short destinations get a prefix; the rest of the
   input is returned for the next call) *)
Theorem C04_roundtrip : forall t d room, wf t = true -> bytes_ok d = true -> (1 <= room)%nat ->
  unesc t (escape t d) room = UOk (firstn room d) (escape t (skipn room d)).
Proof. exact unesc_escape. Qed.
Print Assumptions C04_roundtrip.

(* however the escaped stream is split into reads (also between leader and code) and
   whatever the caller's buffer sizes: the streaming reader returns exactly the payload *)
Theorem C04_stream : forall t d cs sizes dflt, wf t = true -> bytes_ok d = true ->
  all_nonempty cs = true -> Forall (fun s => 1 <= s)%nat sizes -> (1 <= dflt)%nat ->
  concat cs = escape t d ->
  exists outs, er_run (er_fuel [] cs) t [] cs sizes dflt = (outs, EndEof []) /\ concat outs = d
    /\ Forall (fun o => o <> []) outs.
Proof. exact stream. Qed.
Print Assumptions C04_stream.

(* an EMPTY announced table ("escape_chars": []): the reader passes the stream through
   unchanged, for every chunking and every sequence of caller buffer sizes *)
Theorem C04_stream_empty_table : forall cs sizes dflt,
  all_nonempty cs = true -> Forall (fun s => 1 <= s)%nat sizes -> (1 <= dflt)%nat ->
  concat (er_run_passthru (er_passthru_fuel cs) cs sizes dflt) = concat cs.
Proof. intros cs sizes dflt Hn Hs Hd. apply er_run_passthru_concat; auto. Qed.
Print Assumptions C04_stream_empty_table.

(* the writer side: escaping chunk by chunk = escaping the whole *)
Theorem C04_writer : forall t chunks, concat (ew_write t chunks) = escape t (concat chunks).
Proof. exact ew_write_concat. Qed.
Print Assumptions C04_writer.

(* no protected byte is ever produced *)
Theorem C04_no_protected : forall t d b, clean t = true -> byte_ok b = true ->
  In b (escape t d) -> protected t b = false.
Proof. exact no_protected. Qed.
Print Assumptions C04_no_protected.

(* a pair the table does not define is rejected, not guessed *)
Theorem C04_unknown_rejected : forall t d c r room, wf t = true -> bytes_ok d = true ->
  unesc_code t c = None -> (length d < room)%nat ->
  unesc t (escape t d ++ leader :: c :: r) room = UErr c.
Proof. exact unknown_rejected. Qed.
Print Assumptions C04_unknown_rejected.

(* the two tables trz/tsz announce (regenerated from escape.go) are well-formed, clean,
   and protect what the property text lists *)
Theorem C04_builtin :
  (wf (builtin_table false) = true /\ wf (builtin_table true) = true) /\
  (clean (builtin_table false) = true /\ clean (builtin_table true) = true) /\
  (forallb (protected (builtin_table false)) promised_plain = true /\
   forallb (protected (builtin_table true)) promised_all = true).
Proof. exact (conj builtin_wf (conj builtin_clean builtin_protects)). Qed.
Print Assumptions C04_builtin.

(* non-vacuity: a concrete table and payload meeting the hypotheses *)
Example C04_nonvacuous :
  wf (builtin_table true) = true /\ bytes_ok [238; 126; 27; 0; 255] = true /\
  escape (builtin_table true) [238; 126; 27; 0; 255] = [238; 238; 238; 49; 238; 71; 0; 255].
Proof. vm_compute. auto. Qed.

(* ---- the codec layer around the escaper (Model/Base64.v, Model/Wire.v) ---- *)
From Trzsz Require Import Model.Base64 Model.Wire Proofs.Base64 Proofs.Wire.

(* every byte base64 produces is an alphabet character or '=' — for ANY input list *)
Theorem C04_b64_alphabet : forall d, forallb is_b64_byte (b64_encode d) = true.
Proof. exact encode_alphabet. Qed.
Print Assumptions C04_b64_alphabet.

(* ... hence passes isTrzszLetter (character classes regenerated from buffer.go), hence is
   none of ETX, LF, CR, ESC, '!' *)
Theorem C04_b64_letters : forall c, is_b64_byte c = true -> wire_letter c = true /\ not_special c = true.
Proof. intros c H. split; [apply b64_is_letter, H|apply wire_letter_not_special, b64_is_letter, H]. Qed.
Print Assumptions C04_b64_letters.

(* Everything an uploading client writes in binary mode, message by message: lines whose
   payload is base64 (ACT NAME MD5 EXIT HASH fail ...) or decimal (NUM SIZE) or true/false
   (COMP), keep-alives "#DATA:=" / "#SUCC:=", acks, "#DATA:<n>\n" headers followed by a
   piece of an escaped stream (the escaper's input [d] is arbitrary: whatever a compressor
   in front of it produced), protocol-1 DATA messages, each ended by the client's newline —
   contains no byte protected by the table in use, for both built-in tables (regenerated
   from escape.go). *)
Theorem C04_upload_wire_clean : forall zl escape_all ms b,
  let t := builtin_table escape_all in
  Forall (fun m => wmsg_typ_ok m = true) ms -> Forall (wmsg_payload_ok t) ms ->
  In b (wire_bytes zl true t Consts.client_newline ms) -> protected t b = false.
Proof. exact upload_wire_clean. Qed.
Print Assumptions C04_upload_wire_clean.

(* the concrete transcript: ACT, NUM, per file NAME / SIZE / the frames the four-stage
   encoder cuts (any buffer sizes, cut again by pipelineSendData) / finish flag / MD5, EXIT,
   keep-alives anywhere; zlib [zl] and zstd [zcomp] are arbitrary functions *)
Theorem C04_upload_transcript_clean : forall zl zcomp escape_all act_z files dflt exit_z ms b,
  let t := builtin_table escape_all in
  (forall m, In m ms -> In m (wire_upload_msgs zcomp true t act_z files dflt exit_z) \/
                        exists typ, m = WPause typ /\ wire_typ_ok typ = true) ->
  In b (wire_bytes zl true t Consts.client_newline ms) -> protected t b = false.
Proof. exact upload_transcript_clean. Qed.
Print Assumptions C04_upload_transcript_clean.

(* non-vacuity: an upload of bytes that ARE protected, through an identity "compressor";
   the first frame is cut again by pipelineSendData (between a leader and its code) *)
Example C04_wire_nonvacuous :
  let t := builtin_table true in
  let f := {| wf_name_z := [1; 2; 3]; wf_size := 5; wf_compress := false; wf_chunks := [[126; 27; 13]; [17; 238]];
              wf_sizes := [4%nat]; wf_rsizes := [3; 2]%nat; wf_md5_z := [9] |} in
  wire_bytes (fun x => x) true t Consts.client_newline (wire_upload_msgs (fun x => x) true t [0] [f] 4 [7]) =
  [35; 65; 67; 84; 58; 65; 65; 61; 61; 10;  35; 78; 85; 77; 58; 49; 10;
   35; 78; 65; 77; 69; 58; 65; 81; 73; 68; 10;  35; 83; 73; 90; 69; 58; 53; 10;
   35; 68; 65; 84; 65; 58; 50; 10; 238; 49;  35; 68; 65; 84; 65; 58; 50; 10; 238; 71;
   35; 68; 65; 84; 65; 58; 52; 10; 238; 66; 238; 68;  35; 68; 65; 84; 65; 58; 50; 10; 238; 238;
   35; 68; 65; 84; 65; 58; 48; 10;  35; 77; 68; 53; 58; 67; 81; 61; 61; 10;  35; 69; 88; 73; 84; 58; 66; 119; 61; 61; 10].
Proof. vm_compute. reflexivity. Qed.
