(* C04 — Escape coding is reversible and keeps protected bytes off the wire.
   This file contains only the property theorems; each is closed by a lemma of
   Proofs/Escape.v and followed by Print Assumptions. *)
From Trzsz Require Import Base.Bytes Gen.Consts Model.Escape Proofs.Escape.

(* every payload survives escape + unescape, for every well-formed table and every
   destination buffer size >= 1 (short destinations get a prefix; the rest of the
   input is returned for the next call) *)
Theorem C04_roundtrip : forall t d room, wf t = true -> bytes_ok d = true -> (1 <= room)%nat ->
  unesc t (escape t d) room = UOk (firstn room d) (escape t (skipn room d)).
Proof. exact unesc_escape. Qed.
Print Assumptions C04_roundtrip.

(* however the escaped stream is split into reads (also between leader and code) and
   whatever the caller's buffer sizes: the streaming reader returns exactly the payload *)
Theorem C04_stream : forall t d cs sizes dflt, wf t = true -> bytes_ok d = true ->
  all_nonempty cs = true -> Forall (fun s => 1 <= s)%nat sizes -> (1 <= dflt)%nat ->
  concat cs = escape t d ->
  exists outs, er_run (er_fuel [] cs) t [] cs sizes dflt = (outs, EndEof []) /\ concat outs = d
    /\ Forall (fun o => o <> []) outs.
Proof. exact stream. Qed.
Print Assumptions C04_stream.

(* the writer side: escaping chunk by chunk = escaping the whole *)
Theorem C04_writer : forall t chunks, concat (ew_write t chunks) = escape t (concat chunks).
Proof. exact ew_write_concat. Qed.
Print Assumptions C04_writer.

(* no protected byte is ever produced *)
Theorem C04_no_protected : forall t d b, clean t = true -> byte_ok b = true ->
  In b (escape t d) -> protected t b = false.
Proof. exact no_protected. Qed.
Print Assumptions C04_no_protected.

(* a pair the table does not define is rejected, not guessed *)
Theorem C04_unknown_rejected : forall t d c r room, wf t = true -> bytes_ok d = true ->
  unesc_code t c = None -> (length d < room)%nat ->
  unesc t (escape t d ++ leader :: c :: r) room = UErr c.
Proof. exact unknown_rejected. Qed.
Print Assumptions C04_unknown_rejected.

(* the two tables trz/tsz announce (regenerated from escape.go) are well-formed, clean,
   and protect what the property text lists *)
Theorem C04_builtin :
  (wf (builtin_table false) = true /\ wf (builtin_table true) = true) /\
  (clean (builtin_table false) = true /\ clean (builtin_table true) = true) /\
  (forallb (protected (builtin_table false)) promised_plain = true /\
   forallb (protected (builtin_table true)) promised_all = true).
Proof. exact (conj builtin_wf (conj builtin_clean builtin_protects)). Qed.
Print Assumptions C04_builtin.

(* non-vacuity: a concrete table and payload meeting the hypotheses *)
Example C04_nonvacuous :
  wf (builtin_table true) = true /\ bytes_ok [238; 126; 27; 0; 255] = true /\
  escape (builtin_table true) [238; 126; 27; 0; 255] = [238; 238; 238; 49; 238; 71; 0; 255].
Proof. vm_compute. auto. Qed.
