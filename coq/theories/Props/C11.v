(* C11 - A transfer cannot hang (the concurrency core shared with C10 and C18).
   Only property theorems; each is closed by lemmas of Proofs/Proc.v and Proofs/ProcInst.v,
   which are about the goroutine skeletons REGENERATED from pipeline.go / append.go
   (Gen/Skel_pipeline.v).

   Reading of the statements.  [reach N D io_ret g]: g is reachable in the interleaving
   semantics of the net (any schedule; data loops run at most D iterations, D arbitrary).
   [cancelled g]: some stage has called ctx.cancel - every fault (read timeout, wire or file
   error, stage error, stop) ends in that call.  From such a state:
     (A)  every execution has at most [total N D g] further steps - no fairness needed;
     (B)  wherever an execution stops, every goroutine of the transfer has exited.
   [io_assumptions io_ret true]: a wire read returns (data | stop | timeout, the configured
   Timeout being positive), wire writes, file operations and the pause gate return. *)
From Coq Require Import List Arith Bool.
Import ListNotations.
From Trzsz Require Import Model.Proc Proofs.Proc Proofs.ProcInst Gen.Skel_pipeline.

Definition terminates_after_cancel (N : net) : Prop :=
  forall D io_ret, io_assumptions io_ret true ->
  forall g, reach N D io_ret g -> cancelled g = true ->
  (forall n g', steps N D io_ret n g g' -> n <= total N D g) /\
  (forall n g', steps N D io_ret n g g' -> stuck N D io_ret g' -> forall p, procs g' p = Exited).

(* the generic theorem (A + B) for every well-formed net *)
Theorem C11_generic : forall N, wf N = true -> terminates_after_cancel N.
Proof. exact wf_net_terminates. Qed.
Print Assumptions C11_generic.

(* receive side: pipelineRecvData, SendAck, DecodeData (+ recvDataReader.Read), CalculateMD5,
   SaveData, ShowProgress, recvFileDataV2 *)
Theorem C11_bounded_recv : terminates_after_cancel recv_net.
Proof. exact (wf_net_terminates recv_net recv_net_wf). Qed.
Print Assumptions C11_bounded_recv.

(* prefix-hash exchange of append.go: pipelineSendHash, pipelineRecvHashAck, sendPrefixHash *)
Theorem C11_bounded_hash : terminates_after_cancel hash_net.
Proof. exact (wf_net_terminates hash_net hash_net_wf). Qed.
Print Assumptions C11_bounded_hash.

(* send side: pipelineReadData, CalculateMD5, EncodeData (+ sendDataWriter.Write/deliver/Close),
   SendData, RecvAck (+ RecvFinalAck), ShowProgress, sendFileDataV2.  Provable since the fix
   of the buffer-size probing wait (KNOWN_FINDINGS: fixed bufinit-wait-leak); before it the
   generated net had the violation (EncodeData, WgWait bufInitWG, W4). *)
Definition C11_bounded_send_full : Prop := terminates_after_cancel send_net.
Theorem C11_bounded_send : terminates_after_cancel send_net.
Proof. exact (wf_net_terminates send_net send_net_wf). Qed.
Print Assumptions C11_bounded_send.

(* send side, what holds: the same statement for the net in which bufInitWG.Wait() is assumed
   to return; and that wait is the ONLY well-formedness violation of the generated send net
   (none once hooks/fix_bufinit.diff is applied). *)
Theorem C11_send_net_partial :
  terminates_after_cancel (assume_wg_returns send_net) /\
  forallb is_bufinit_wait (wf_violations send_net) = true /\
  wf send_net = match wf_violations send_net with [] => true | _ => false end.
Proof.
  exact (conj (wf_net_terminates _ send_net_assumed_wf)
              (conj send_net_violations_known send_net_wf_iff_no_violation)).
Qed.
Print Assumptions C11_send_net_partial.

(* success is signalled only by the acknowledgement stage, there only after the final
   acknowledgement was read (sender) / written (receiver) in the same iteration, and the
   main function returns a digest only in the select case that received that signal;
   while that stage is still running nothing is in the success channel *)
Theorem C11_no_success_unless :
  success_guarded send_net ch_send_sendFileDataV2_0 ch_send_CalculateMD5_0 p_send_RecvAck p_send_main RecvLine = true /\
  success_guarded recv_net ch_recv_recvFileDataV2_0 ch_recv_CalculateMD5_0 p_recv_SendAck p_recv_main WriteWire = true /\
  (forall D io_ret g k, reach recv_net D io_ret g ->
     procs g p_recv_SendAck = Running false k -> len (chans g ch_recv_recvFileDataV2_0) = 0) /\
  (forall D io_ret g k, reach (assume_wg_returns send_net) D io_ret g ->
     procs g p_send_RecvAck = Running false k -> len (chans g ch_send_sendFileDataV2_0) = 0).
Proof.
  refine (conj send_success_guarded (conj recv_success_guarded (conj _ _))).
  - intros D io_ret g k R. exact (once_chan_empty recv_net recv_net_wf D io_ret g _ _ k R recv_succ_sender).
  - intros D io_ret g k R. exact (once_chan_empty _ send_net_assumed_wf D io_ret g _ _ k R send_succ_sender).
Qed.
Print Assumptions C11_no_success_unless.

(* ---- the hypotheses are satisfiable and the bound is concrete ---- *)
Example C11_io_assumptions_sat : io_assumptions (fun k => match k with Unknown => false | _ => true end) true.
Proof. repeat split; reflexivity. Qed.

(* cancelled before anything ran, data loops of at most 4 iterations: at most this many steps
   until all seven receive-side goroutines are gone *)
Example C11_recv_bound_D4 : Nat.leb (total recv_net 4 (init recv_net)) 200 = true.
Proof. vm_compute. reflexivity. Qed.

(* a reachable cancelled state of the hash net: the hasher cancels after a read error *)
Example C11_nonvacuous :
  exists g, reach hash_net 1 (fun _ => true) g /\ cancelled g = true /\ Nat.leb (total hash_net 1 g) 100 = true.
Proof.
  eexists. split; [|split].
  - eapply reach_step. eapply reach_step. eapply reach_step. eapply reach_step. eapply reach_step.
    apply reach_init.
    + eapply (g_loopctx _ _ _ _ p_hash_SendHash). reflexivity.
    + eapply (g_headctx_in _ _ _ _ p_hash_SendHash); reflexivity.
    + eapply (g_io _ _ _ _ p_hash_SendHash); reflexivity.
    + eapply (g_branch_l _ _ _ _ p_hash_SendHash). reflexivity.
    + eapply (g_cancel _ _ _ _ p_hash_SendHash). reflexivity.
  - reflexivity.
  - vm_compute. reflexivity.
Qed.
