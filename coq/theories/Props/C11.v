(* C11 - A transfer cannot hang (the concurrency core shared with C10 and C18).
   Only property theorems; each is closed by lemmas of Proofs/Proc.v and Proofs/ProcInst.v,
   which are about the goroutine skeletons REGENERATED from pipeline.go / append.go
   (Gen/Skel_pipeline.v).

   Reading of the statements.  [reach N D io_ret g]: g is reachable in the interleaving
   semantics of the net (any schedule; data loops run at most D iterations, D arbitrary).
   [cancelled g]: some stage has called ctx.cancel - every fault (read timeout, wire or file
   error, stage error, stop) ends in that call.  From such a state:
     (A)  every execution has at most [total N D g] further steps - no fairness needed;
     (B)  wherever an execution stops, every goroutine of the transfer has exited.
   [io_assumptions io_ret true]: a wire read returns (data | stop | timeout, the configured
   Timeout being positive), wire writes, file operations and the pause gate return.

   Every fault reaches ctx.cancel.  The translator ties the error path of every operation that
   can fail to the operation: [IoE k h] = operation of kind k (wire read / wire write / pause
   gate / file / Check = codec, parsing or consistency test of the stage itself) with what the
   goroutine does when it failed.  [faults_cancel N]: on every path through every such h the
   goroutine calls ctx.cancel before it leaves (arms guarded by ctx.Done() excepted: they need
   a cancelled context), and no operation of the table is left without an error path.
   [fault_follows N]: from any reachable state in which an operation of goroutine p fails
   (step g_ioe_fail), along EVERY execution, (a) until the context is cancelled p has not left
   and has taken fewer than |h| + 2 steps of its own; (b) if h waits for nobody, p can move in
   every state until then, p ALONE (a run of its own steps only, at most |h| + 2 of them) reaches
   a cancelled state from every later state, and an execution can only stop with the context
   cancelled and every goroutine exited; (c) once cancelled, theorems A + B apply. *)
From Coq Require Import List Arith Bool.
Import ListNotations.
From Trzsz Require Import Model.Proc Model.ProcFault Proofs.Proc Proofs.ProcFault Proofs.ProcInst Gen.Skel_pipeline.
From Trzsz Require Import Model.ErrTell Proofs.ErrTell Gen.Skel_errtell Gen.Skel_errcallers.
From Coq Require Import ZArith.
From Trzsz Require Import Model.CfgTimeout Proofs.CfgTimeout.

Definition terminates_after_cancel (N : net) : Prop :=
  forall D io_ret, io_assumptions io_ret true ->
  forall g, reach N D io_ret g -> cancelled g = true ->
  (forall n g', steps N D io_ret n g g' -> n <= total N D g) /\
  (forall n g', steps N D io_ret n g g' -> stuck N D io_ret g' -> forall p, procs g' p = Exited).

(* the generic theorem (A + B) for every well-formed net *)
Theorem C11_generic : forall N, wf N = true -> terminates_after_cancel N.
Proof. exact wf_net_terminates. Qed.
Print Assumptions C11_generic.

(* receive side: pipelineRecvData, SendAck, DecodeData (+ recvDataReader.Read), CalculateMD5,
   SaveData, ShowProgress, recvFileDataV2 *)
Theorem C11_bounded_recv : terminates_after_cancel recv_net.
Proof. exact (wf_net_terminates recv_net recv_net_wf). Qed.
Print Assumptions C11_bounded_recv.

(* prefix-hash exchange of append.go: pipelineSendHash, pipelineRecvHashAck, sendPrefixHash *)
Theorem C11_bounded_hash : terminates_after_cancel hash_net.
Proof. exact (wf_net_terminates hash_net hash_net_wf). Qed.
Print Assumptions C11_bounded_hash.

(* send side: pipelineReadData, CalculateMD5, EncodeData (+ sendDataWriter.Write/deliver/Close),
   SendData, RecvAck (+ RecvFinalAck), ShowProgress, sendFileDataV2.  Provable since the fix
   of the buffer-size probing wait (KNOWN_FINDINGS: fixed bufinit-wait-leak); before it the
   generated net had the violation (EncodeData, WgWait bufInitWG, W4). *)
Definition C11_bounded_send_full : Prop := terminates_after_cancel send_net.
Theorem C11_bounded_send : terminates_after_cancel send_net.
Proof. exact (wf_net_terminates send_net send_net_wf). Qed.
Print Assumptions C11_bounded_send.

(* send side, what holds: the same statement for the net in which bufInitWG.Wait() is assumed
   to return; and that wait is the ONLY well-formedness violation of the generated send net
   (none once hooks/fix_bufinit.diff is applied). *)
Theorem C11_send_net_partial :
  terminates_after_cancel (assume_wg_returns send_net) /\
  forallb is_bufinit_wait (wf_violations send_net) = true /\
  wf send_net = match wf_violations send_net with [] => true | _ => false end.
Proof.
  exact (conj (wf_net_terminates _ send_net_assumed_wf)
              (conj send_net_violations_known send_net_wf_iff_no_violation)).
Qed.
Print Assumptions C11_send_net_partial.

(* success is signalled only by the acknowledgement stage, there only after the final
   acknowledgement was read (sender) / written (receiver) in the same iteration, and the
   main function returns a digest only in the select case that received that signal;
   while that stage is still running nothing is in the success channel *)
Theorem C11_no_success_unless :
  success_guarded send_net ch_send_sendFileDataV2_0 ch_send_CalculateMD5_0 p_send_RecvAck p_send_main RecvLine = true /\
  success_guarded recv_net ch_recv_recvFileDataV2_0 ch_recv_CalculateMD5_0 p_recv_SendAck p_recv_main WriteWire = true /\
  (forall D io_ret g k, reach recv_net D io_ret g ->
     procs g p_recv_SendAck = Running false k -> len (chans g ch_recv_recvFileDataV2_0) = 0) /\
  (forall D io_ret g k, reach (assume_wg_returns send_net) D io_ret g ->
     procs g p_send_RecvAck = Running false k -> len (chans g ch_send_sendFileDataV2_0) = 0).
Proof.
  refine (conj send_success_guarded (conj recv_success_guarded (conj _ _))).
  - intros D io_ret g k R. exact (once_chan_empty recv_net recv_net_wf D io_ret g _ _ k R recv_succ_sender).
  - intros D io_ret g k R. exact (once_chan_empty _ send_net_assumed_wf D io_ret g _ _ k R send_succ_sender).
Qed.
Print Assumptions C11_no_success_unless.

(* ---- every fault reaches ctx.cancel ---- *)
Definition fault_follows (N : net) : Prop :=
  forall D io_ret, io_assumptions io_ret true ->
  forall g p f kd h k, reach N D io_ret g -> procs g p = Running f (IStmt (IoE kd h) :: k) ->
  let g1 := cont g p f (lift h ++ k) in
  lstep N D io_ret p g g1 /\
  cc false (qx N p f) false h = true /\
  forall tr g2, lsteps N D io_ret tr g1 g2 ->
    (cancelled g2 = true \/ (count_occ Nat.eq_dec tr p < cmL h + 2 /\ procs g2 p <> Exited)) /\
    (cc true (qx N p f) false h = true ->
       (cancelled g2 = true \/ enabled N D io_ret p g2) /\
       (exists tr' g3, lsteps N D io_ret tr' g2 g3 /\ cancelled g3 = true /\ Forall (eq p) tr' /\
                       List.length tr' <= cmL h + 2) /\
       (stuck N D io_ret g2 -> cancelled g2 = true /\ forall q, procs g2 q = Exited)) /\
    (cancelled g2 = true ->
       (forall n g3, steps N D io_ret n g2 g3 -> n <= total N D g2) /\
       (forall n g3, steps N D io_ret n g2 g3 -> stuck N D io_ret g3 -> forall q, procs g3 q = Exited)).

(* generic: A + B + "the error path of every operation cancels" *)
Theorem C11_fault_terminates_generic : forall N, wf N = true -> faults_cancel N = true -> fault_follows N.
Proof. exact fault_terminates. Qed.
Print Assumptions C11_fault_terminates_generic.

(* the three generated nets: no operation without an error path, every error path cancels *)
Theorem C11_faults_cancel :
  faults_cancel send_net = true /\ faults_cancel recv_net = true /\ faults_cancel hash_net = true.
Proof. exact (conj send_faults_cancel (conj recv_faults_cancel hash_faults_cancel)). Qed.
Print Assumptions C11_faults_cancel.

Theorem C11_fault_terminates : fault_follows send_net /\ fault_follows recv_net /\ fault_follows hash_net.
Proof.
  exact (conj (fault_terminates send_net send_net_wf send_faults_cancel)
        (conj (fault_terminates recv_net recv_net_wf recv_faults_cancel)
              (fault_terminates hash_net hash_net_wf hash_faults_cancel))).
Qed.
Print Assumptions C11_fault_terminates.

(* part (b) needs an error path that waits for nobody.  All have one, except two: the file
   reader of the sender (file.Read) and the decoder of the receiver (reader.Read through the
   codec stack): a Read that fails after delivering bytes (n > 0 && err != nil) first hands
   those bytes to the next stages (two selects with a ctx.Done() arm) and only then cancels.
   For those paths (a) and (c) hold; that the hand-over cannot block for ever is "no deadlock
   without a fault", which is not proved (DESIGN section 5, Limits). *)
Definition C11_fault_terminates_full : Prop :=
  forall N, In N [send_net; recv_net; hash_net] -> fault_waits N = [].
Theorem C11_fault_waits_partial :
  fault_waits send_net = [(p_send_ReadData, FileIO)] /\ fault_waits recv_net = [(p_recv_DecodeData, Check)] /\
  fault_waits hash_net = [].
Proof. exact (conj send_fault_waits (conj recv_fault_waits hash_fault_waits)). Qed.
Print Assumptions C11_fault_waits_partial.

(* the main functions' own exits: `defer ctx.cancel(nil)`.  Whenever sendFileDataV2,
   recvFileDataV2 or sendPrefixHash has returned, the context is cancelled (so by A + B all its
   workers leave); what they do before the context exists is only operations and returns *)
Theorem C11_main_exit_cancels :
  (forall D io_ret g, reach send_net D io_ret g -> procs g p_send_main = Exited -> cancelled g = true) /\
  (forall D io_ret g, reach recv_net D io_ret g -> procs g p_recv_main = Exited -> cancelled g = true) /\
  (forall D io_ret g, reach hash_net D io_ret g -> procs g p_hash_main = Exited -> cancelled g = true) /\
  quietL send_main_prelude = true /\ quietL recv_main_prelude = true /\ quietL hash_main_prelude = true.
Proof. exact main_exits_cancel. Qed.
Print Assumptions C11_main_exit_cancels.

(* recvFileDataV2 waits for the saver's own size check before it reports a file as received
   (`<-saveDone`, then `if ctx.Err() != nil`): a wait for a channel that only the saver's exit
   closes, in the arm that received the success signal; wf (W3) covers it, so A + B hold *)
Theorem C11_recv_waits_for_saver :
  capof recv_net ch_recv_SaveData_1 = 0 /\ sender recv_net ch_recv_SaveData_1 = None /\
  existsb (Nat.eqb ch_recv_SaveData_1) (defer_close (info recv_net p_recv_SaveData)) = true /\
  closer_ok recv_net p_recv_main ch_recv_SaveData_1 = true /\
  count (is_recvclose ch_recv_SaveData_1) (all_stmts (info recv_net p_recv_main)) = 1 /\
  underL ch_recv_recvFileDataV2_0 ch_recv_SaveData_1 (body (info recv_net p_recv_main)) = true /\
  body (info recv_net p_recv_main) =
    [ Sel [ (RecvAlt ch_recv_recvFileDataV2_0,
             [ RecvClose ch_recv_SaveData_1; IfCtxExit; RecvClose ch_recv_CalculateMD5_0; Return ]);
            (DoneAlt, [ Return ]) ] ].
Proof. exact recv_main_waits_for_saver. Qed.
Print Assumptions C11_recv_waits_for_saver.

(* ---- a side that can still talk tells its peer why ---- *)
(* transfer.go clientError / serverError, interpreted from their REGENERATED skeletons
   (Gen/Skel_errtell.v), for EVERY error class [e] (is it a *trzszError, its errType class, its
   trace flag, is its text that of errStoppedAndDeleted) and environment [env] (the transfer's
   stopAndDelete flag, did deleteCreatedFiles delete anything, is the server in the tunnel window:
   a tunnel connection accepted (the client has greeted there) but the ACT not yet read, so the
   writer in force is still the in-band one while the client may already listen to the tunnel only):
   * the skeleton is fully understood, cleanInput comes first;
   * the lines sent are exactly [et_client_sends e env] / [et_server_sends e env]: none when the
     error IS the peer's EXIT / fail / FAIL line, otherwise one: `fail` with the deleted names
     after a stop-and-delete that deleted something (client), else `FAIL` or `fail` by the
     traceback flag; the server, exactly in the tunnel window, writes the same line once more on the
     accepted tunnel connection (fix f935fb5), so a client on either path gets exactly one;
   * the server resets the terminal (serverExit) exactly once, last; the client never. *)
Theorem C11_tells_peer : tells_peer_stmt errtell_preds errtell_clientError errtell_serverError.
Proof. exact tells_peer. Qed.
Print Assumptions C11_tells_peer.

Theorem C11_tells_peer_one_line : forall e env, et_victim e = false ->
  (exists w n, et_sends (fst (et_run errtell_preds errtell_clientError e env)) = [ASend w n false] /\ (w = WFail \/ w = WFAIL)) /\
  (exists w, (w = WFail \/ w = WFAIL) /\
     et_sends (fst (et_run errtell_preds errtell_serverError e env)) =
       ASend w false false :: (if et_window env then [ASend w false true] else [])).
Proof. exact not_victim_sends_one. Qed.
Print Assumptions C11_tells_peer_one_line.

Theorem C11_victim_sends_nothing : forall e env, et_victim e = true ->
  et_sends (fst (et_run errtell_preds errtell_clientError e env)) = [] /\
  et_sends (fst (et_run errtell_preds errtell_serverError e env)) = [].
Proof. exact victim_sends_nothing. Qed.
Print Assumptions C11_victim_sends_nothing.

(* the callers: handleTrzsz's goroutine hands every non-nil result of downloadFiles /
   uploadFiles and every recovered panic to clientError; the goroutines of TrzMain / TszMain
   hand every non-nil result of recvFiles / sendFiles to serverError (their recover is deferred
   in the function, not in the goroutine that runs the transfer) *)
Theorem C11_error_callers : errtell_callers = expected_callers.
Proof. exact callers_pinned. Qed.
Print Assumptions C11_error_callers.

(* ---- a timeout of zero or less means wait indefinitely: on both ends, after the handshake ---- *)
(* The theorems above assume Timeout > 0 for "a wire read returns"; a timeout <= 0 is the user
   asking to wait indefinitely.  That wish has to survive the handshake: the server's -t travels
   in the CFG record.  For EVERY integer t, with the shape of sendConfig / recvConfig /
   newTransfer / getNewTimeout REGENERATED into Gen/Consts.v (the condition under which the
   member is written, what is written, that both ends unmarshal the record, the default, the
   condition under which a timer is armed): both ends work with t afterwards, the record carries
   the member, and a timer is armed iff t > 0. *)
Theorem C11_timeout_roundtrip : forall t : Z,
  ct_handshake cfgtimeout_shape t = Some (t, t, (0 <? t)%Z, (0 <? t)%Z, true).
Proof. exact timeout_roundtrip. Qed.
Print Assumptions C11_timeout_roundtrip.

(* and a client behind a relay (relay.go unmarshals the record and marshals its own copy) *)
Theorem C11_timeout_via_relay : forall t : Z, ct_via_relay cfgtimeout_shape t = Some (t, (0 <? t)%Z).
Proof. exact timeout_via_relay. Qed.
Print Assumptions C11_timeout_via_relay.

Theorem C11_timeout_honoured : forall t : Z,
  ct_server cfgtimeout_shape t = Some t /\ ct_client cfgtimeout_shape t = Some t /\
  ((t <= 0)%Z -> ct_armed cfgtimeout_shape t = Some false) /\ ((0 < t)%Z -> ct_armed cfgtimeout_shape t = Some true).
Proof. exact timeout_honoured. Qed.
Print Assumptions C11_timeout_honoured.

(* ---- the hypotheses are satisfiable and the bound is concrete ---- *)
Example C11_io_assumptions_sat : io_assumptions (fun k => match k with Unknown => false | _ => true end) true.
Proof. repeat split; reflexivity. Qed.

(* cancelled before anything ran, data loops of at most 4 iterations: at most this many steps
   until all seven receive-side goroutines are gone *)
Example C11_recv_bound_D4 : Nat.leb (total recv_net 4 (init recv_net)) 200 = true.
Proof. vm_compute. reflexivity. Qed.

(* a reachable cancelled state of the hash net: the hasher's file read fails, it cancels *)
Example C11_nonvacuous :
  exists g, reach hash_net 1 (fun _ => true) g /\ cancelled g = true /\ Nat.leb (total hash_net 1 g) 100 = true.
Proof.
  eexists. split; [|split].
  - eapply reach_step. eapply reach_step. eapply reach_step. eapply reach_step.
    apply reach_init.
    + exists p_hash_SendHash. eapply g_loopctx. reflexivity.
    + exists p_hash_SendHash. eapply g_headctx_in; reflexivity.
    + exists p_hash_SendHash. eapply g_ioe_fail; reflexivity.
    + exists p_hash_SendHash. eapply g_cancel. reflexivity.
  - reflexivity.
  - vm_compute. reflexivity.
Qed.

(* the premise of fault_follows is met: a reachable state of the hash net in which the
   hasher is about to read the file (the operation that then fails) *)
Example C11_fault_nonvacuous :
  exists g h k, reach hash_net 1 (fun _ => true) g /\
    procs g p_hash_SendHash = Running false (IStmt (IoE FileIO h) :: k) /\ cc true false false h = true.
Proof.
  eexists. eexists. eexists. split; [|split].
  - eapply reach_step. eapply reach_step. apply reach_init.
    + exists p_hash_SendHash. eapply g_loopctx. reflexivity.
    + exists p_hash_SendHash. eapply g_headctx_in; reflexivity.
  - reflexivity.
  - reflexivity.
Qed.

(* a read timeout (simpleTrzszError: errType "", no traceback): both sides send `fail`; a panic
   converted by the callers (errType "panic", traceback): `FAIL`; the peer's own fail line: nothing *)
Example C11_tells_timeout :
  let e := {| et_trz := true; et_typ := EtNone; et_trace := false; et_sad := false |} in
  let v := {| et_flag := false; et_deleted := false; et_window := false |} in
  fst (et_run errtell_preds errtell_clientError e v) = [AClean; ASend WFail false false] /\
  fst (et_run errtell_preds errtell_serverError e v) = [AClean; ASend WFail false false; AExit false].
Proof. vm_compute. split; reflexivity. Qed.
Example C11_tells_panic :
  let e := {| et_trz := true; et_typ := EtOther; et_trace := true; et_sad := false |} in
  let v := {| et_flag := false; et_deleted := false; et_window := false |} in
  fst (et_run errtell_preds errtell_clientError e v) = [AClean; ASend WFAIL false false].
Proof. vm_compute. reflexivity. Qed.
Example C11_tells_stop_and_delete :
  let e := {| et_trz := true; et_typ := EtNone; et_trace := false; et_sad := true |} in
  let v := {| et_flag := true; et_deleted := true; et_window := false |} in
  fst (et_run errtell_preds errtell_clientError e v) = [AClean; ADelete; ASend WFail true false].
Proof. vm_compute. reflexivity. Qed.
(* a server stopped after the tunnel greeting, before the ACT: the line goes out in-band and on
   the accepted tunnel connection; the client side never switches its writer *)
Example C11_tells_tunnel_window :
  let e := {| et_trz := true; et_typ := EtNone; et_trace := false; et_sad := false |} in
  let v := {| et_flag := false; et_deleted := false; et_window := true |} in
  fst (et_run errtell_preds errtell_serverError e v) = [AClean; ASend WFail false false; ASend WFail false true; AExit false] /\
  fst (et_run errtell_preds errtell_clientError e v) = [AClean; ASend WFail false false].
Proof. vm_compute. split; reflexivity. Qed.
