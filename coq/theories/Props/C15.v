(* C15 — A directory sent as one archive stream is reconstructed exactly.
   Only the property theorems; each is closed by a lemma of Proofs/Archive.v and followed
   by Print Assumptions.  [hdr]/[parse] stand for encodeString(json(sourceFile)) and
   decodeString+unmarshalSourceFile; all that is assumed of them is [hdr_ok] for the entries
   at hand (decoder inverts encoder; no newline in an encoded header). *)
From Trzsz Require Import Base.Bytes Gen.Consts Model.Archive Proofs.Archive Model.ArchiveMode Proofs.ArchiveMode Model.Names Model.ArchiveNames Proofs.ArchiveNames.
From Coq Require Import ZArith Lia.

(* the size announced for the stream is the number of bytes produced, when every file has
   the length it had at scan time *)
Theorem C15_size : forall hdr es, Forall (fun e => aentry_exact e = true) es ->
  ar_total_size hdr es = Z.of_nat (length (astream hdr es)).
Proof. exact size_ok. Qed.
Print Assumptions C15_size.

(* whatever the caller's buffer sizes (all >= 1), the reads concatenate to the entry stream
   and the reader then reports EOF; no read is empty *)
Theorem C15_reader : forall hdr es sizes dflt,
  Forall (fun e => aentry_ok e = true) es -> Forall (fun s => 1 <= s)%nat sizes -> (1 <= dflt)%nat ->
  exists outs st, ar_reader_run hdr es sizes dflt = (outs, ArEndEof, st) /\
    concat outs = astream hdr es /\ Forall (fun o => o <> []) outs.
Proof. exact reader_ok. Qed.
Print Assumptions C15_reader.

(* a file shorter than announced: the reader delivers what is there and then fails; not one
   byte of the entries behind it is produced (no shifted parse on the other side) *)
Theorem C15_shrink : forall hdr es1 e es2 sizes dflt,
  Forall (fun e => aentry_ok e = true) es1 -> ashort e = true -> anonneg e = true ->
  Forall (fun e => anonneg e = true) es2 ->
  Forall (fun s => 1 <= s)%nat sizes -> (1 <= dflt)%nat ->
  exists outs st, ar_reader_run hdr (es1 ++ e :: es2) sizes dflt = (outs, ArEndErr ArErrShrink, st) /\
    concat outs = astream hdr es1 ++ hdr (ae_meta e) ++ ANL :: ae_data e.
Proof. exact reader_shrink. Qed.
Print Assumptions C15_shrink.

(* for EVERY segmentation of the stream into writes (inside a header, exactly at a boundary,
   one byte at a time, empty segments too) the writer ends without error and the tree holds
   exactly: the root, every entry (directories, empty ones included; files with exactly their
   bytes, empty ones included), the ancestors of entries, and nothing else.  Holds with and
   without the descriptor fix. *)
Theorem C15_writer : forall hdr parse fixed es ws,
  awf_tree es -> Forall (fun e => aentry_ok e = true) es -> Forall (hdr_ok hdr parse) es ->
  concat ws = astream hdr es ->
  exists st, aw_writer_run parse fixed ws = AwDone st /\
    forall p, afs_lookup (aw_fs (aw_close st)) p = aspec_tree es p.
Proof. exact writer_ok. Qed.
Print Assumptions C15_writer.

(* composition: read with any buffer sizes, cut the bytes again in any way, write *)
Theorem C15_roundtrip : forall hdr parse fixed es sizes dflt ws,
  awf_tree es -> Forall (fun e => aentry_ok e = true) es -> Forall (hdr_ok hdr parse) es ->
  Forall (fun s => 1 <= s)%nat sizes -> (1 <= dflt)%nat ->
  exists outs rst, ar_reader_run hdr es sizes dflt = (outs, ArEndEof, rst) /\
    (concat ws = concat outs ->
     exists st, aw_writer_run parse fixed ws = AwDone st /\
       forall p, afs_lookup (aw_fs (aw_close st)) p = aspec_tree es p).
Proof. exact roundtrip. Qed.
Print Assumptions C15_roundtrip.

(* descriptors: at most one open at any time on either side and none after Close, for any
   entries, read sizes, segments and header decoder; [peak] is updated at every open, and the
   statement holds after any number of reads / any list of segments, hence at every step.
   The writer is the one with hooks/fix_archive.diff applied. *)
Theorem C15_fds : forall hdr parse es sizes dflt fuel ws,
  (let st := snd (ar_run hdr fuel (ar_init es) sizes dflt) in
   (ar_peak st <= 1)%nat /\ (ar_fds st <= 1)%nat /\ ar_fds (ar_close st) = 0%nat) /\
  (forall st, aw_state_of (aw_writer_run parse true ws) = Some st ->
   (aw_peak st <= 1)%nat /\ (aw_fds st <= 1)%nat /\ aw_fds (aw_close st) = 0%nat).
Proof. intros. split; [apply reader_fds|apply writer_fds]. Qed.
Print Assumptions C15_fds.

(* the writer as it is in the unchanged tree: five file entries, five descriptors open at
   once, four still open after Close *)
Theorem C15_fds_unfixed_refuted :
  exists parse ws st, writer_unfixed parse ws = AwDone st /\ (aw_peak st > 1)%nat /\
                      aw_peak st = 5%nat /\ aw_fds (aw_close st) = 4%nat.
Proof. exact fds_unfixed_refuted. Qed.
Print Assumptions C15_fds_unfixed_refuted.

(* the source literals the model's meaning rests on *)
Theorem C15_consts :
  Consts.archive_split_byte = Consts.archive_newline /\
  Consts.archive_write_extra = 1 /\ Consts.archive_header_extra = 1.
Proof. exact archive_consts_ok. Qed.
Print Assumptions C15_consts.

(* non-vacuity: a concrete tree (a directory, a file in it whose payload starts with a
   newline, an empty file, an empty directory) with a table-driven header coding, as in the
   correspondence run, meets every hypothesis; and the conclusion computes *)
Definition ex_d := mkAMeta [[100]] true 0.
Definition ex_a := mkAMeta [[100]; [97]] false 2.
Definition ex_e := mkAMeta [[101]] false 0.
Definition ex_x := mkAMeta [[120]] true 0.
Definition ex_es := [mkAEntry ex_d []; mkAEntry ex_a [10; 98]; mkAEntry ex_e []; mkAEntry ex_x []].
Definition ex_hdr (m : ameta) : list byte :=
  match am_path m with [[100]] => [1] | [[100]; [97]] => [2; 2] | [[101]] => [3] | _ => [4] end.
Definition ex_parse (b : list byte) : option ameta :=
  match b with [1] => Some ex_d | [2; 2] => Some ex_a | [3] => Some ex_e | [4] => Some ex_x | _ => None end.

Example C15_nonvacuous :
  awf_tree ex_es /\ Forall (fun e => aentry_ok e = true) ex_es /\ Forall (fun e => aentry_exact e = true) ex_es /\
  Forall (hdr_ok ex_hdr ex_parse) ex_es /\
  astream ex_hdr ex_es = [1; 10; 2; 2; 10; 10; 98; 3; 10; 4; 10] /\
  ar_total_size ex_hdr ex_es = 11%Z /\
  (exists st, aw_writer_run ex_parse true [[1]; [10; 2]; [2; 10; 10]; [98; 3; 10; 4]; [10]] = AwDone st /\
     afs_lookup (aw_fs st) [[100]; [97]] = Some (AFile [10; 98]) /\
     afs_lookup (aw_fs st) [[101]] = Some (AFile []) /\ afs_lookup (aw_fs st) [[120]] = Some ADir /\
     afs_lookup (aw_fs st) [[97]] = None) /\
  ashort (mkAEntry ex_a [10]) = true /\ anonneg (mkAEntry ex_a [10]) = true.
Proof.
  split.
  { split; [|split].
    - cbn. repeat constructor; cbn; intuition discriminate.
    - intros e He. cbn in He. intuition (subst; discriminate).
    - intros e e' He He'. cbn in He, He'. intuition (subst; try reflexivity; try discriminate). }
  split; [repeat constructor|]. split; [repeat constructor|].
  split.
  { repeat constructor; cbn; unfold ANL; cbn; intuition discriminate. }
  split; [reflexivity|]. split; [reflexivity|].
  split; [eexists; vm_compute; repeat split|]. split; reflexivity.
Qed.

(* ------------------------------------------------------------------------------------ *)
(* WHO DECIDES "archive".  Three places look at a root after archiveSourceFiles: the NAME
   record's flag (marshalSourceFile), the sender's own test before it opens the archive reader
   (sendFileNameV3), and the receiver's createDirOrFile, which opens an archive writer, a
   plain directory or a plain file according to the flag.  For EVERY scan list, overwrite
   setting and protocol, and every root the grouping yields (no entries below it, exactly one,
   many; several roots in one transfer): what the sender does next and what the receiver
   expects next coincide.  Premise: a root that has entries below it is a directory (only
   directories have children in a scan). *)
Theorem C15_mode_agree : forall overwrite proto scan slots r,
  amo_group overwrite proto scan = Some slots -> In (Some r) slots ->
  (amo_subs r <> [] -> amo_isdir (amo_top r) = true) ->
  amo_agree (amo_sender proto r) (amo_receiver (amo_name_of r)) = true.
Proof. exact amo_agree_all. Qed.
Print Assumptions C15_mode_agree.

(* the same, on the plan that the correspondence run compares with the real functions *)
Theorem C15_mode_plan_agree : forall overwrite proto scan steps n k s rk,
  amo_plan overwrite proto scan = Some steps -> In (AmoStep n k s rk) steps ->
  ((0 < k)%nat -> amn_isdir n = true) -> amo_agree s rk = true.
Proof. exact amo_plan_agree. Qed.
Print Assumptions C15_mode_plan_agree.

(* a directory root from end to end, whatever the number of entries below it (none: only the
   directory; one; many): both ends take the same branch, and the receiver ends with exactly
   the root's tree for every segmentation of what the sender streams *)
Theorem C15_mode_tree : forall hdr parse fixed overwrite proto scan slots r ws,
  amo_group overwrite proto scan = Some slots -> In (Some r) slots ->
  amo_isdir (amo_top r) = true ->
  awf_tree (amo_entries r) -> Forall (fun e => aentry_ok e = true) (amo_entries r) ->
  Forall (hdr_ok hdr parse) (amo_entries r) ->
  (amo_subs r <> [] -> concat ws = astream hdr (amo_entries r)) ->
  exists st, amo_root_xfer parse fixed proto r ws = Some (AwDone st) /\
    forall p, afs_lookup (aw_fs (aw_close st)) p = aspec_tree (amo_entries r) p.
Proof. exact amo_root_tree. Qed.
Print Assumptions C15_mode_tree.

(* the source literals the agreement rests on (regenerated on every run) *)
Theorem C15_mode_consts :
  Consts.archive_flag_gt = Consts.archive_send_gt /\
  (Consts.archive_v3_protocol <= Consts.archive_min_protocol) /\
  Consts.archive_writer_needs_dir = 1.
Proof. exact archive_mode_consts_ok. Qed.
Print Assumptions C15_mode_consts.

(* non-vacuity: one transfer of three roots - a directory with exactly one file below it, an
   empty directory, a plain file - at protocol 4 without overwrite *)
Definition exm_scan := [
  mkAmoSrc 0 [[114]] true 0 []; mkAmoSrc 0 [[114]; [102]] false 1 [120];
  mkAmoSrc 1 [[101]] true 0 [];
  mkAmoSrc 2 [[112]] false 2 [1; 2]].
Example C15_mode_nonvacuous :
  amo_plan false 4 exm_scan = Some [
    AmoStep (mkAmoName 0 [[114]] true true 0) 1 AmoSArchive AmoRArchive;
    AmoStep (mkAmoName 1 [[101]] true false 0) 0 AmoSNone AmoRNone;
    AmoStep (mkAmoName 2 [[112]] false false 2) 0 AmoSFile AmoRFile] /\
  amo_plan true 4 exm_scan = Some (map (fun s =>
    AmoStep (mkAmoName (amo_id s) (amo_rel s) (amo_isdir s) false (amo_size s)) 0
            (if amo_isdir s then AmoSNone else AmoSFile) (if amo_isdir s then AmoRNone else AmoRFile)) exm_scan).
Proof. split; reflexivity. Qed.

(* ------------------------------------------------------------------------------------ *)
(* NAMES over the whole of Unicode.  Every path element of a NAME record and of every entry
   header goes through checkFileName ([valid_name], its constants regenerated from the
   source).  It is a test on the BYTES of the name: refused iff empty, ".", ".." or a byte
   '/' occurs ... *)
Theorem C15_names_bytes : forall nm,
  valid_name nm = true <-> nm <> [] /\ nm <> [46] /\ nm <> [46; 46] /\ ~ In 47 nm.
Proof. exact valid_name_bytes. Qed.
Print Assumptions C15_names_bytes.

(* ... hence, for a name given by its code points (any values: surrogates and values above
   U+10FFFF become U+FFFD as in Go), refused iff it is empty, ".", "..", or the CODE POINT
   U+002F occurs: no other code point - whatever its low byte, its UTF-16 units or its UTF-8
   bytes look like - is taken for a separator, a dot or an end of string *)
Theorem C15_names_unicode : forall cps,
  anm_valid cps = true <-> cps <> [] /\ cps <> [46] /\ cps <> [46; 46] /\ ~ In 47 cps.
Proof. exact anm_valid_spec. Qed.
Print Assumptions C15_names_unicode.

Example C15_names_nonvacuous :
  anm_valid [1071] = true /\ anm_valid [39321; 28207] = true /\ anm_valid [128047] = true /\
  anm_valid [92] = true /\ anm_valid [46; 46; 46] = true /\ anm_valid [97; 47; 98] = false /\
  anm_utf8 [1071; 28207; 128047] = [208; 175; 230; 184; 175; 240; 159; 144; 175].
Proof. vm_compute. repeat split. Qed.

(* ------------------------------------------------------------------------------------ *)
(* THE ARCHIVE STREAM AS A SOURCE FILE.  sendCompressFlag on an archive reader, for every
   protocol, compression type, binary flag and announced size: it never fails, and whenever
   the configuration and the size leave the decision open the answer is "compress" - given by
   the no-file guard of isCompressionProfitable, read from the source together with the type
   of the variable it compares (a nil *os.File in an interface variable is not nil).  The
   stream is not an argument of the decision. *)
Theorem C15_stream_compress : forall proto ctype binary size,
  amo_archive_compress proto ctype binary size <> AmoCompErr /\
  (forall c, amo_archive_compress proto ctype binary size = AmoCompProbed c -> c = true).
Proof. exact amo_archive_compress_ok. Qed.
Print Assumptions C15_stream_compress.

(* with the decision list of the current source: auto, protocol >= 3, 128 KiB or more *)
Theorem C15_stream_compress_auto_large : forall proto binary size,
  3 <= proto -> 131072 <= size ->
  amo_archive_compress proto Consts.tr_compress_auto binary size = AmoCompProbed true.
Proof. exact amo_archive_compress_auto_large. Qed.
Print Assumptions C15_stream_compress_auto_large.

Theorem C15_stream_consts :
  Consts.archive_reader_file_nil = true /\ Consts.archive_probe_guard_fires = true /\
  Consts.archive_probe_nofile_compress = true.
Proof. exact archive_stream_consts_ok. Qed.
Print Assumptions C15_stream_consts.

(* ------------------------------------------------------------------------------------ *)
(* THE HEADER CODEC HYPOTHESIS, tied to the code.  [hdr_ok] ("the writer's decoder inverts
   the reader's encoder; no newline in an encoded header") is the one premise about
   marshalSourceFile + zlib + base64 / base64 + zlib + unmarshalSourceFile.  Its boolean form
   is what the correspondence run evaluates with [hdr] and [parse] instantiated by the REAL
   encoder's output and the REAL decoder's result, on every entry of every generated tree and
   on strata of headers that compress arbitrarily well (deep repetitive paths, runs of one
   character up to 255 bytes, paths of ~4000 bytes and beyond): if that boolean holds for the
   entries, the premise of C15_writer / C15_roundtrip / C15_mode_tree holds for them.  No bound
   on length (json) / length (hdr m) appears anywhere. *)
Theorem C15_header_tie : forall hdr parse es,
  forallb (ahdr_okb hdr parse) es = true -> Forall (hdr_ok hdr parse) es.
Proof. exact ahdr_okb_all. Qed.
Print Assumptions C15_header_tie.

(* ------------------------------------------------------------------------------------ *)
(* ERRORS OF THE DESTINATION surface through the archive writer.  [full h]: every write to the
   file at h fails.  Write then returns the error with nothing consumed and the state unchanged
   (never a success with count 0) ... *)
Theorem C15_write_error_surfaces : forall parse full fixed st p h,
  aw_file st = Some h -> (0 < aw_left st)%Z -> full h = true -> p <> [] ->
  aw_write_f parse full fixed st p = AwErr AwEWrite st.
Proof. exact write_error_surfaces. Qed.
Print Assumptions C15_write_error_surfaces.

(* ... and writeAll over the archive writer (the save stage of the receiving pipeline) always
   returns, whatever the destination, the header decoder, the state and the data: every
   successful Write of a non-empty slice consumes at least one byte *)
Theorem C15_write_all_terminates : forall parse full fixed ws st,
  aw_run_f parse full fixed st ws <> AwFuel.
Proof. intros. apply run_f_terminates. Qed.
Print Assumptions C15_write_all_terminates.

