(* C15 — placeholder while the model and correspondence are brought up *)
From Trzsz Require Import Base.Bytes Gen.Consts Model.Archive.
