(* C20 — The progress line always fits the terminal and never misreports.
   Only the property theorems; each is closed by a lemma of Proofs/Progress.v.

   External code appears as universally quantified functions with their assumed behaviour
   as premises (Proofs/Progress.v):
     width_model w sw dw : w = runewidth.RuneWidth, sw = runewidth.StringWidth, dw = columns
       the terminal advances.  dw is sub-additive, dw s <= sw s, dw s <= sum of w over the runes,
       trimming white space does not widen, printable ASCII and the two bar cells are at most
       one column, "[" + colour-on and colour-off + "]" are one column each.
     round_model mdr kmax : mdr k a b = int(math.Round(float64(k)*float64(a)/float64(b))) for
       0 <= k <= kmax: 0 for a = 0, k for a = b, monotone in a on 0..b (b > 0).
   mdr_exact (round half away from zero on exact rationals, the instance the correspondence
   check executes) satisfies round_model for every kmax. *)
From Coq Require Import ZArith List.
From Trzsz Require Import Base.Bytes Gen.Consts Model.Progress Proofs.Progress.
From Trzsz Require Import Model.Proc Gen.Skel_pipeline Proofs.ProgressOrder.
Import ListNotations.
Local Open Scope Z_scope.

(* the line returned by getProgressText is never wider than the terminal: for every name,
   file count and index, every position and size, every ASCII total/speed/ETA text, every
   width of at least five columns and every percentage text of at most four characters *)
Theorem C20_fits : forall w sw dw mdr kmax, width_model w sw dw -> round_model mdr kmax ->
  forall cols count idx name fstep fsize pct total speed eta s,
  ascii pct = true -> ascii total = true -> ascii speed = true -> ascii eta = true -> cols <= kmax ->
  5 <= cols -> (length pct <= 4)%nat ->
  progress_text w sw mdr cols count idx name fstep fsize pct total speed eta = TOk s ->
  Z.of_nat (dw s) <= cols.
Proof. exact c20_fits. Qed.
Print Assumptions C20_fits.

(* the exact precondition: the percentage text itself has to fit (so four columns are
   enough for "100%"; below that, or with a longer percentage text, the line can be wider) *)
Theorem C20_fits_sharp : forall w sw dw mdr kmax, width_model w sw dw -> round_model mdr kmax ->
  forall cols count idx name fstep fsize pct total speed eta s,
  ascii pct = true -> ascii total = true -> ascii speed = true -> ascii eta = true -> cols <= kmax ->
  Z.of_nat (length pct) <= cols ->
  progress_text w sw mdr cols count idx name fstep fsize pct total speed eta = TOk s ->
  Z.of_nat (dw s) <= cols.
Proof. exact c20_fits_sharp. Qed.
Print Assumptions C20_fits_sharp.

(* the percentage of the (fixed) code: always within 0..100, printed as that number and '%',
   hence at most four ASCII characters - for ANY step and size *)
Theorem C20_pct_range : forall w sw dw mdr kmax, width_model w sw dw -> round_model mdr kmax ->
  forall fstep fsize, 100 <= kmax ->
  0 <= pct_val mdr fstep fsize <= 100 /\
  pct_text_cur mdr fstep fsize = dec_Z (pct_val mdr fstep fsize) ++ [37%N] /\
  ascii (pct_text_cur mdr fstep fsize) = true /\ (length (pct_text_cur mdr fstep fsize) <= 4)%nat.
Proof. exact c20_pct. Qed.
Print Assumptions C20_pct_range.

(* rendering never fails: no negative repeat count for ANY step, size and width *)
Theorem C20_total : forall w sw dw mdr kmax, width_model w sw dw -> round_model mdr kmax ->
  forall cols count idx name fstep fsize pct total speed eta,
  ascii pct = true -> ascii total = true -> ascii speed = true -> ascii eta = true -> cols <= kmax ->
  progress_text w sw mdr cols count idx name fstep fsize pct total speed eta <> TPanic.
Proof. exact c20_total_text. Qed.
Print Assumptions C20_total.

Theorem C20_total_bar : forall w sw dw mdr kmax, width_model w sw dw -> round_model mdr kmax ->
  forall fstep fsize length, length - Consts.progress_bar_brackets <= kmax ->
  progress_bar mdr fstep fsize length <> BPanic.
Proof. exact c20_total_bar. Qed.
Print Assumptions C20_total_bar.

(* ... which was false before the fix: the arithmetic without getDisplayStep *)
Theorem C20_total_unfixed_refuted : exists fstep fsize length, progress_bar_unfixed fstep fsize length = BPanic.
Proof. exact (ex_intro _ 250 (ex_intro _ 100 (ex_intro _ 24 (proj1 unfixed_panics)))). Qed.
Print Assumptions C20_total_unfixed_refuted.

Theorem C20_total_unfixed_refuted_negative_size : exists fstep fsize length, fsize < 0 /\ progress_bar_unfixed fstep fsize length = BPanic.
Proof. exact (ex_intro _ 3 (ex_intro _ (-5) (ex_intro _ 24 (conj eq_refl (proj1 (proj2 unfixed_panics)))))). Qed.
Print Assumptions C20_total_unfixed_refuted_negative_size.

(* over every history of calls (onNum, onName, onSize, onStep, onDone, setPreSize, setPause,
   setTerminalColumns in any order, any values, any clock): no write is a panic, and every
   progress line is no wider than the width in force when it was written, from 4 columns up *)
Theorem C20_run : forall w sw dw mdr kmax, width_model w sw dw -> round_model mdr kmax ->
  forall ops st, 100 <= kmax -> p_cols st <= kmax -> Forall (op_ok kmax) ops ->
  Forall (Forall (wr_ok dw)) (snd (run_cur w sw mdr ops st)).
Proof. exact c20_run. Qed.
Print Assumptions C20_run.

(* every line shows the percentage of the state it was written in, for the current width *)
Theorem C20_line_shows : forall w sw dw mdr kmax, width_model w sw dw -> round_model mdr kmax ->
  forall o st k c pct text, 100 <= kmax -> p_cols st <= kmax -> op_ok kmax o ->
  In (WLine k c pct text) (concat (snd (run_cur w sw mdr [o] st))) ->
  c = p_cols (fst (run_cur w sw mdr [o] st)) /\
  pct = dec_Z (st_pct mdr (fst (run_cur w sw mdr [o] st))) ++ [37%N].
Proof. exact c20_line_shows. Qed.
Print Assumptions C20_line_shows.

(* onStep never lowers the position (no assumption needed) ... *)
Theorem C20_step_never_lowers : forall w sw mdr st z now t s e,
  p_step st <= p_step (fst (run_cur w sw mdr [OpStep z now t s e] st)).
Proof. exact c20_step_never_lowers. Qed.
Print Assumptions C20_step_never_lowers.

(* ... and within a file (no onName/onSize/setPreSize in between) the percentage never decreases *)
Theorem C20_monotone : forall w sw dw mdr kmax, width_model w sw dw -> round_model mdr kmax ->
  forall ops st, 100 <= kmax -> forallb within_file ops = true ->
  st_pct mdr st <= st_pct mdr (fst (run_cur w sw mdr ops st)).
Proof. exact c20_run_mono. Qed.
Print Assumptions C20_monotone.

Theorem C20_pct_monotone_in_step : forall w sw dw mdr kmax, width_model w sw dw -> round_model mdr kmax ->
  forall s s' fsize, 100 <= kmax -> s <= s' -> pct_val mdr s fsize <= pct_val mdr s' fsize.
Proof. exact c20_pct_mono_step. Qed.
Print Assumptions C20_pct_monotone_in_step.

(* the SESSION (filter.go): the width is state of the session (options.TerminalColumns), copied
   into every new bar.  Over every history of resizes (at any moment, with or without a live
   bar), transfers one after the other (quiet or not, any announced pane width), callbacks of
   the running transfer and stop prompts: no write is a panic, every line written by an event
   fits the width of the MOST RECENT resize at that point of the history (sess_widths is a
   function of the history alone), and the session ends up remembering that width *)
Theorem C20_session : forall w sw dw mdr kmax, width_model w sw dw -> round_model mdr kmax ->
  forall evs c0, 100 <= kmax -> c0 <= kmax -> Forall (sevent_ok kmax) evs ->
  Forall2 (fun out wd => Forall (swr_ok dw wd) out)
          (snd (sess_run_cur w sw mdr evs (sess_init c0))) (sess_widths evs c0) /\
  s_cols (fst (sess_run_cur w sw mdr evs (sess_init c0))) = last (sess_widths evs c0) c0.
Proof. exact c20_session. Qed.
Print Assumptions C20_session.

(* a new bar is laid out for the session's current width - or for the announced pane less its
   margin, when the pane is not wider than the terminal *)
Theorem C20_session_start_width : forall w sw dw mdr kmax, width_model w sw dw -> round_model mdr kmax ->
  forall s pane,
  match s_bar (fst (sess_step_cur w sw mdr (SeStart false pane) s)) with
  | Some b => p_cols b = if (Consts.progress_tmux_min <? pane) && (pane <=? s_cols s)
                         then pane - Consts.progress_tmux_margin else s_cols s
  | None => False
  end.
Proof. exact c20_session_start. Qed.
Print Assumptions C20_session_start_width.

(* a resize reaches the session AND the live bar, whenever it happens *)
Theorem C20_session_resize_width : forall w sw mdr s c,
  s_cols (fst (sess_step_cur w sw mdr (SeResize c) s)) = c /\
  match s_bar s, s_bar (fst (sess_step_cur w sw mdr (SeResize c) s)) with
  | Some _, Some b' => p_cols b' = c
  | None, None => True
  | _, _ => False
  end.
Proof. exact c20_session_resize. Qed.
Print Assumptions C20_session_resize_width.

(* the history of the second seeded change: 120 columns, a transfer, a resize to 60 during it,
   its end, a second transfer - whose bar is laid out for 60 columns *)
Example C20_session_two_transfers :
  option_map p_cols (s_bar (fst (sess_run_cur (fun _ => 1%nat) (fun s => length s) mdr_exact
     [SeStart false (-1); SeResize 60; SeEnd; SeStart false (-1)] (sess_init 120)))) = Some 60 /\
  sess_widths [SeStart false (-1); SeResize 60; SeEnd; SeStart false (-1)] 120 = [120; 60; 60; 60].
Proof. vm_compute. split; reflexivity. Qed.

(* FILES: what a line reports belongs to the current file.  The figures a line is computed
   from (prefix already present, size, position) after a file has been announced - onName,
   onSize - do not depend on anything the earlier files of the transfer did (resumed or not,
   overshoots, stray calls): whatever the two earlier states, and whatever callbacks follow *)
Theorem C20_file_figures_own : forall w sw mdr st1 st2 nm z rest,
  figs (fst (run_cur w sw mdr (OpName nm :: OpSize z :: rest) st1)) =
  figs (fst (run_cur w sw mdr (OpName nm :: OpSize z :: rest) st2)).
Proof. exact c20_file_figures_own. Qed.
Print Assumptions C20_file_figures_own.

(* a file sent from its beginning starts at position 0 of its own size, 0 %, after any history *)
Theorem C20_file_starts_at_zero : forall w sw dw mdr kmax, width_model w sw dw -> round_model mdr kmax ->
  forall st nm z now t s e, 100 <= kmax -> 0 < z < 2 ^ 63 ->
  figs (fst (run_cur w sw mdr [OpName nm; OpSize z; OpStep 0 now t s e] st)) = (0, z, 0) /\
  st_pct mdr (fst (run_cur w sw mdr [OpName nm; OpSize z; OpStep 0 now t s e] st)) = 0.
Proof. exact c20_file_start. Qed.
Print Assumptions C20_file_starts_at_zero.

(* a file - resumed after a prefix of any length found at the destination, or not - ends at
   100 % of its OWN full size, whatever was matched and sent in between, after any history
   (file_ops is the order in which transfer.go / append.go make the callbacks of one file) *)
Theorem C20_file_ends_at_own_size : forall w sw dw mdr kmax, width_model w sw dw -> round_model mdr kmax ->
  forall st nm full resume steps done, 100 <= kmax -> 0 < full < 2 ^ 63 ->
  (forall hs m, resume = Some (hs, m) -> 0 <= m <= full) ->
  p_size (fst (run_cur w sw mdr (file_ops nm full resume steps done) st)) = full /\
  p_step (fst (run_cur w sw mdr (file_ops nm full resume steps done) st)) = full /\
  st_pct mdr (fst (run_cur w sw mdr (file_ops nm full resume steps done) st)) = 100.
Proof. exact c20_file_end. Qed.
Print Assumptions C20_file_ends_at_own_size.

(* the history of the third-round seeded change: a 600 KiB file of which 400 KiB are already at
   the destination, then a 2000 byte file that is not: the second file ends at 2000 of 2000 *)
Example C20_file_after_resumed_file :
  let noinfo : str * str * str := ([], [], []) in
  let st := fst (run_cur (fun _ => 1%nat) (fun s => length s) mdr_exact
     (OpNum 2 :: file_ops [97%N] 614400 (Some ([(409600, 1000, noinfo)], 409600)) [(0, 2000, noinfo); (204800, 3000, noinfo)] (0, 4000, noinfo) ++
                 file_ops [98%N] 2000 None [(0, 5000, noinfo); (2000, 6000, noinfo)] (0, 7000, noinfo))
     (new_bar 120 0)) in
  figs st = (0, 2000, 2000).
Proof. vm_compute. reflexivity. Qed.

(* ORDER: the transfer delivers all steps of an entry before its onDone and before anything of
   the next entry.  (1) The callbacks of well-formed files (steps of each phase in order, within
   the announced size and reaching it; the prefix = the last matching hash step), in the order
   transfer.go / append.go make them, are words of the language cb_lang_ok, for every number
   of files ... *)
Theorem C20_callback_order_language : forall n plans, Forall plan_wf plans ->
  cb_lang_ok (OpNum n :: concat (map plan_ops plans)) = true.
Proof. exact cb_transfer_in_language. Qed.
Print Assumptions C20_callback_order_language.

(* ... and a step of one file delivered after the next file has been announced is not *)
Theorem C20_late_step_not_in_language :
  cb_lang_ok [OpNum 2; OpName [97%N]; OpSize 65536; OpStep 0 0 [] [] []; OpDone 0 [] [] [];
              OpName [98%N]; OpStep 65536 0 [] [] []; OpSize 2097152; OpStep 0 0 [] [] []] = false /\
  cb_lang_ok [OpNum 2; OpName [97%N]; OpSize 65536; OpStep 0 0 [] [] []; OpStep 65536 0 [] [] []; OpDone 0 [] [] [];
              OpName [98%N]; OpSize 2097152; OpStep 0 0 [] [] []; OpStep 2097152 0 [] [] []; OpDone 0 [] [] []] = true.
Proof. exact cb_late_step_rejected. Qed.
Print Assumptions C20_late_step_not_in_language.

(* (2) On the skeletons regenerated from pipeline.go: the only goroutine that calls onStep during
   the data phase (pipelineShowProgress) is joined by the deferred statements of the main function
   of both data pipelines - `defer wg.Wait()` - so sendFileDataV2 / recvFileDataV2 return, and the
   transfer goes on to onDone and the next file, only after the last step has been delivered *)
Theorem C20_display_goroutine_joined :
  existsb (joins_stmt p_send_ShowProgress) (finally send_main_proc) = true /\
  existsb (joins_stmt p_recv_ShowProgress) (finally recv_main_proc) = true /\
  nth_error (procs_of send_net) p_send_ShowProgress = Some send_ShowProgress_proc /\
  nth_error (procs_of recv_net) p_recv_ShowProgress = Some recv_ShowProgress_proc /\
  nth_error (procs_of send_net) p_send_main = Some send_main_proc /\
  nth_error (procs_of recv_net) p_recv_main = Some recv_main_proc.
Proof. exact display_goroutine_joined. Qed.
Print Assumptions C20_display_goroutine_joined.

(* the premises are satisfiable: the exact rounding the correspondence check executes is a
   round_model for every bound, and there is a width model *)
Theorem C20_exact_rounding_is_a_model : forall kmax, round_model mdr_exact kmax.
Proof. exact mdr_exact_model. Qed.
Print Assumptions C20_exact_rounding_is_a_model.

Example C20_width_model_exists : width_model (fun _ => 1%nat) (fun s => length s) (fun _ => 0%nat).
Proof. exact trivial_width_model. Qed.

(* non-vacuity: a concrete rendering (60 columns, "a.txt", 50 of 100 bytes) *)
Example C20_nonvacuous :
  progress_text (fun _ => 1%nat) (fun s => length s) mdr_exact 60 1 1 [97; 46; 116; 120; 116]%N 50 100
    [53; 48; 37]%N [49; 32; 66]%N [50; 32; 66; 47; 115]%N [48; 48; 58; 48; 49; 32; 69; 84; 65]%N
  = TOk ([97; 46; 116; 120; 116; 32; 91; 27; 91; 51; 54; 109] ++ repeat 9608%N 11 ++ repeat 9617%N 11 ++
         [27; 91; 48; 109; 93; 32; 53; 48; 37; 32; 124; 32; 49; 32; 66; 32; 124; 32; 50; 32; 66; 47; 115; 32; 124; 32;
          48; 48; 58; 48; 49; 32; 69; 84; 65])%N.
Proof. vm_compute. reflexivity. Qed.
