(* C12 — No input from the other side can crash the process or make it allocate without
   bound on the strength of a single number.

   What is a theorem here: every number the peer controls is parsed by a total function that
   rejects what does not fit its Go type, and on the FIXED code (hooks/fix_databound.diff,
   fix_hashstep.diff, fix_panewidth.diff) every number that reaches an allocation or a
   repeat count has passed a check that bounds it linearly in the negotiated buffer size /
   by the hash block size / by the local terminal width.  The guards the model assumes are
   pinned to the current source through Gen/Skel_guards.v (Proofs/Guards.v,
   guards_present_...), which is in the dependency cone of this file.

   What is NOT a theorem (measured by the search engine "hostile" instead): the Go runtime,
   encoding/json, zlib, zstd, base64 on malformed input; goroutines without recover.
   The totality of the progress display for the steps and sizes that reach it unguarded
   (flow_table: FAckStep, FHashAckStep, FSize, FNameSize) is C20's theorem.

   This file contains only the property theorems; each is closed by a lemma of
   Proofs/Guards.v and followed by Print Assumptions. *)
From Trzsz Require Import Base.Bytes Gen.Consts Gen.Skel_guards Model.Guards Proofs.Guards.
From Coq Require Import ZArith String.
Open Scope Z_scope.

(* fixed code: whatever number passes the check in front of a sink, the amount that reaches
   the sink is at most the sink's bound (for every flow; flows without an allocating sink
   have amount 0) *)
Theorem C12_alloc_bounded : forall f c aux n, cfg_ok c = true -> guard f c aux n = true ->
  amount f c aux n <= bound f c.
Proof. exact alloc_bounded. Qed.
Print Assumptions C12_alloc_bounded.

(* nothing negative reaches a make / a buffer size *)
Theorem C12_no_negative_make : forall f c aux n, sink_of f = SAlloc -> cfg_ok c = true ->
  guard f c aux n = true -> 0 <= amount f c aux n.
Proof. exact no_negative_make. Qed.
Print Assumptions C12_no_negative_make.

(* the same at the level of the received line: a binary #DATA header of either protocol
   generation that is not rejected announces between 0 and alloc_bound bytes *)
Theorem C12_data_line_bounded : forall c s n, cfg_ok c = true ->
  (recv_binary_data_v2 c s = DRead n \/ recv_binary_data_v1 c s = DRead n) -> 0 <= n <= alloc_bound c.
Proof. exact recv_binary_bounded. Qed.
Print Assumptions C12_data_line_bounded.

(* the bound is linear in the negotiated buffer size, and the configuration the bound is
   taken from is itself bounded: on the client by the clamp in recvConfig, on the servers
   by the argument parser *)
Theorem C12_bound_linear : forall c, 0 <= bufsize c ->
  alloc_bound c <= Consts.guards_data_factor * bufsize c + Consts.guards_data_factor * Consts.guards_data_min_bufsize.
Proof. exact alloc_bound_linear. Qed.
Print Assumptions C12_bound_linear.

Theorem C12_cfg_bounded :
  (forall j b, recv_config_bufsize j = Some b -> cfg_ok {| bufsize := b; term_cols := 0 |} = true) /\
  (forall b t, arg_bufsize_ok b = true -> cfg_ok {| bufsize := b; term_cols := t |} = true).
Proof. exact (conj recv_config_bufsize_ok arg_bufsize_cfg_ok). Qed.
Print Assumptions C12_cfg_bounded.

(* memory held for a binary chunk never runs ahead of the bytes that have arrived *)
Theorem C12_held_by_arrival : forall n arrived, 0 <= arrived ->
  0 <= read_binary_held n arrived <= arrived /\ read_binary_held n arrived <= Z.max 0 n.
Proof. exact read_binary_held_bound. Qed.
Print Assumptions C12_held_by_arrival.

(* whatever hash records arrive, in whatever order, the receiving loop ends in "invalid",
   "file too short" or normally - never in the panicking make *)
Theorem C12_hash_loop_no_panic : forall l fsize pos ms m, snd (recv_hashes true fsize pos ms m l) <> HPanic.
Proof. exact recv_hashes_no_panic. Qed.
Print Assumptions C12_hash_loop_no_panic.

(* the bar is never wider than the local terminal, whatever the server claims *)
Theorem C12_bar_within_terminal : forall term pane, bar_columns term pane <= term.
Proof. exact bar_columns_bound. Qed.
Print Assumptions C12_bar_within_terminal.

(* the final acknowledgement forwards no step beyond the size ... *)
Theorem C12_final_step_bounded : forall size s st d, recv_final_ack size s = FForward st d ->
  st <= size /\ (d = true <-> st = size).
Proof. exact final_ack_bounded. Qed.
Print Assumptions C12_final_step_bounded.

(* ... whereas the per-chunk and the hash acknowledgement let every int64 through to the
   display: these flows rely on C20's totality of the progress bar *)
Theorem C12_ack_step_unguarded : forall c sent step, gd_in_range 64 step = true ->
  guard FAckStep c sent step = true /\ guard FHashAckStep c sent step = true.
Proof. exact ack_step_unguarded. Qed.
Print Assumptions C12_ack_step_unguarded.

(* the modelled ParseInt / Atoi / JSON integer / ParseUint are total, their results fit the
   destination type, and numerals outside it are rejected *)
Theorem C12_int_parsers_total :
  (forall s, match gd_parse_int64 s with Some v => - 2 ^ 63 <= v <= 2 ^ 63 - 1 | None => True end) /\
  (forall s, match gd_atoi s with Some v => - 2 ^ 63 <= v <= 2 ^ 63 - 1 | None => True end) /\
  (forall s v, s <> [] -> gd_digits_val 0 s = Some v -> 2 ^ 63 - 1 < v -> gd_parse_int64 s = None) /\
  (forall s v, s <> [] -> gd_digits_val 0 s = Some v -> 2 ^ 63 < v -> gd_parse_int64 (45%N :: s) = None) /\
  (forall j v, gd_json_int 32 0 j = Some v -> - 2 ^ 31 <= v <= 2 ^ 31 - 1) /\
  (forall dflt j v, gd_in_range 64 dflt = true -> gd_json_int 64 dflt j = Some v -> - 2 ^ 63 <= v <= 2 ^ 63 - 1) /\
  (forall s v, gd_parse_uint32 s = Some v -> 0 <= v <= 2 ^ 32 - 1).
Proof. exact int_parsers_total. Qed.
Print Assumptions C12_int_parsers_total.

(* every flow with its sink and whether -1 / 2^62 pass its check; and the list is complete *)
Theorem C12_flow_table :
  map table_row all_flows =
  [(FDataSizeV2, SAlloc, false, false); (FDataSizeV1, SAlloc, false, false); (FHashStep, SAlloc, false, false);
   (FAckStep, SProgress, true, true); (FAckLen, SCompare, false, false); (FFinalStep, SProgress, true, false);
   (FHashAckStep, SProgress, true, true); (FPaneWidth, SRepeat, true, false); (FNum, SLoop, true, true);
   (FSize, SProgress, true, true); (FNameSize, SProgress, true, true); (FArchiveSize, SCompare, true, true);
   (FTargetSize, SCompare, false, true); (FBufsize, SCompare, true, true); (FTimeout, SCompare, true, true);
   (FProtocol, SCompare, true, true); (FVersion, SCompare, false, false); (FPort, SCompare, true, true)]
  /\ (forall f, In f all_flows)
  /\ filter (fun f => match sink_of f with SAlloc | SRepeat => true | _ => false end) all_flows
     = [FDataSizeV2; FDataSizeV1; FHashStep; FPaneWidth].
Proof. exact (conj flow_table (conj all_flows_complete alloc_flows)). Qed.
Print Assumptions C12_flow_table.

(* the source has the guards the model is about (regenerated on every run) *)
Theorem C12_guards_present :
  Skel_guards.read_binary_pregrow = [] /\
  map (fun x => (fst (fst x), snd x)) Skel_guards.read_binary_calls =
    [("trzszTransfer.pipelineRecvBinaryData", ["!(size == 0)"; "!(size < 0 || size > t.maxDataSize())"]);
     ("trzszTransfer.recvData", ["!(!t.transferConfig.Binary)"; "!(size < 0 || size > t.maxDataSize())"])]%string /\
  map (fun x => (snd (fst x), snd x)) Skel_guards.hash_make =
    [("make([]byte, step)", ["!(tgtFile.Size <= 0 || writer == nil || writer.getFile() == nil)"; "!(hash.Over)"; "!(!match)";
                             "!(step <= 0 || step > kPrefixHashStep)"])]%string /\
  Skel_guards.pane_sanitizers = ["if tmuxPaneColumns > filter.options.TerminalColumns { tmuxPaneColumns = 0 }"]%string.
Proof.
  exact (conj (proj1 guards_present_readbinary)
        (conj (f_equal (map (fun x => (fst (fst x), snd x))) guards_present_data)
        (conj (f_equal (map (fun x => (snd (fst x), snd x))) (proj1 guards_present_hash))
              (proj1 guards_present_pane)))).
Qed.
Print Assumptions C12_guards_present.

(* the sender's chunk buffer: whatever limit the peer announces (recvConfig lets every int64
   through, clamping only from above) and whatever the acknowledgements say, every capacity
   handed to make is at least the floor - hence positive - and at most the larger of the
   initial size and the limit *)
Theorem C12_capacity_bounded : forall maxbuf l, maxbuf <= Consts.guards_bufsize_clamp -> forallb gd_ack_ok l = true ->
  Forall (fun c => Consts.guards_min_chunk <= c <= Z.max Consts.guards_init_buffer_size maxbuf) (gd_capacities maxbuf l).
Proof. exact capacity_bounded. Qed.
Print Assumptions C12_capacity_bounded.

Theorem C12_capacity_bounded_cfg : forall j maxbuf l, recv_config_bufsize j = Some maxbuf -> forallb gd_ack_ok l = true ->
  Forall (fun c => 1 <= c <= Z.max Consts.guards_init_buffer_size Consts.guards_bufsize_clamp) (gd_capacities maxbuf l).
Proof. exact capacity_bounded_cfg. Qed.
Print Assumptions C12_capacity_bounded_cfg.

Theorem C12_capacity_bounded_v1 : forall maxbuf l, maxbuf <= Consts.guards_bufsize_clamp ->
  Forall (fun c => 1 <= c <= Z.max Consts.guards_v1_init_bufsize maxbuf) (gd_bufsize_run_v1 maxbuf Consts.guards_v1_init_bufsize l).
Proof. exact capacity_bounded_v1. Qed.
Print Assumptions C12_capacity_bounded_v1.

(* the stronger reading - "within [1, announced limit] or the configuration is rejected" - is kept
   as a definition and refuted: the code rejects no integer and starts at its own initial size
   (limit -1: capacity 10240; limit 1024, a legitimate -B 1k: capacity 10240 as well) *)
Definition C12_capacity_within_announced_full : Prop := capacity_within_announced_full.
Theorem C12_capacity_within_announced_refuted :
  (exists j maxbuf, recv_config_bufsize j = Some maxbuf /\ maxbuf = -1 /\ gd_capacities maxbuf [] = [10240]) /\
  (exists j maxbuf, recv_config_bufsize j = Some maxbuf /\ maxbuf = 1024 /\ gd_capacities maxbuf [] = [10240]) /\
  ~ C12_capacity_within_announced_full.
Proof. exact capacity_within_announced_refuted. Qed.
Print Assumptions C12_capacity_within_announced_refuted.

(* what depends on the growth guard being "<": with an inequality test one full fast chunk stores a
   negative limit *)
Theorem C12_growth_guard_ne_refuted : exists maxbuf a, maxbuf <= Consts.guards_bufsize_clamp /\ gd_ack_ok a = true /\
  gd_bufsize_step_ne maxbuf Consts.guards_init_buffer_size a = -1.
Proof. exact growth_guard_ne_refuted. Qed.
Print Assumptions C12_growth_guard_ne_refuted.

(* the stores to bufferSize and the protocol-1 sender's assignments, with the conditions in front *)
Theorem C12_bufsize_guards_present :
  map (fun x => (snd (fst x), snd x)) Skel_guards.bufsize_stores =
  [("t.bufferSize.Store(10240)", []);
   ("t.bufferSize.Store(minInt64(bufSize*2, t.transferConfig.MaxBufSize))",
    ["!(length != ack.length)"; "ignoreChunkTimeCount <= 0 || t.bufInitPhase.Load()";
     "length == bufSize && chunkTime < 500*time.Millisecond && bufSize < t.transferConfig.MaxBufSize"]);
   ("t.bufferSize.Store(bufSize)",
    ["!(length != ack.length)"; "ignoreChunkTimeCount <= 0 || t.bufInitPhase.Load()";
     "!(length == bufSize && chunkTime < 500*time.Millisecond && bufSize < t.transferConfig.MaxBufSize)";
     "chunkTime >= 2*time.Second && length <= bufSize"])]%string.
Proof. exact (f_equal (map (fun x => (snd (fst x), snd x))) (proj1 guards_present_bufsize)). Qed.
Print Assumptions C12_bufsize_guards_present.

(* TIME is an input of the peer: for EVERY duration (in ms) between a chunk and its
   acknowledgement the step of the buffer size is defined - the divisor chunkTime/time.Second
   is never zero - because the shrink threshold read from the source is at least a second ... *)
Theorem C12_ack_step_total : forall maxbuf bs len ms, gd_bufsize_step_ms Consts.guards_ack_slow_ms maxbuf bs len ms <> None.
Proof. exact ack_step_total. Qed.
Print Assumptions C12_ack_step_total.

Theorem C12_ack_step_total_thr : forall thr maxbuf bs len ms, 1000 <= thr -> gd_bufsize_step_ms thr maxbuf bs len ms <> None.
Proof. exact ack_step_total_thr. Qed.
Print Assumptions C12_ack_step_total_thr.

(* ... and a whole run over (length, duration) pairs never faults and stays within the bound *)
Theorem C12_capacities_ms_bounded : forall maxbuf l, maxbuf <= Consts.guards_bufsize_clamp ->
  exists cs, gd_capacities_ms maxbuf l = Some cs /\
  Forall (fun c => Consts.guards_min_chunk <= c <= Z.max Consts.guards_init_buffer_size maxbuf) cs.
Proof. exact capacities_ms_bounded. Qed.
Print Assumptions C12_capacities_ms_bounded.

(* with the shrink threshold at the fast threshold an acknowledgement 0.7 s after its chunk divides by zero *)
Theorem C12_ack_step_threshold_refuted : exists maxbuf bs len ms, 0 <= ms /\
  gd_bufsize_step_ms Consts.guards_ack_fast_ms maxbuf bs len ms = None.
Proof. exact ack_step_threshold_refuted. Qed.
Print Assumptions C12_ack_step_threshold_refuted.

(* the archive writer: whatever entry headers arrive (directory or not, any announced size) and
   however many calls of Write follow each, no call reaches the write through a nil file - given
   the nil check the translator finds in front of it; without it a directory entry announcing
   5 bytes does *)
Theorem C12_archive_write_total : forall hs left has_file, ~ In GdAwNilDeref (gd_aw_ways true left has_file hs).
Proof. exact aw_ways_total. Qed.
Print Assumptions C12_archive_write_total.

Theorem C12_archive_nilcheck_refuted : In GdAwNilDeref (gd_aw_ways false 0 false [(true, 5, 1%nat)]).
Proof. exact aw_nilcheck_refuted. Qed.
Print Assumptions C12_archive_nilcheck_refuted.

(* "#TYPE:payload": with the guard of the source (index of the colon >= 1) cutting the line never
   panics, for every line; with `idx < 0` the line ":wq" does *)
Theorem C12_line_split_total : forall line, gd_line_split 1 line <> GdSplitPanic.
Proof. exact line_split_total. Qed.
Print Assumptions C12_line_split_total.

Theorem C12_line_split_weak_guard_refuted : gd_line_split 0 [58; 119; 113]%N = GdSplitPanic.
Proof. exact line_split_weak_guard_refuted. Qed.
Print Assumptions C12_line_split_weak_guard_refuted.

Theorem C12_scan_guards_present :
  Skel_guards.archive_file_write = [("archiveFileWriter.Write", "f.file.Write(p[:int(m)])", ["f.left > 0 && f.file != nil"])]%string /\
  Skel_guards.line_split_sites =
  [("decodeRelayBufferString", "line[1:idx]", ["!(idx < 1)"]); ("trzszTransfer.recvCheck", "line[1:idx]", ["!(idx < 1)"]);
   ("trzszTransfer.recvCheckV2", "line[1:idx]", ["!(idx < 1)"])]%string.
Proof. exact (conj guards_present_archive_write guards_present_line_split). Qed.
Print Assumptions C12_scan_guards_present.

(* TWO peer numbers that bound each other.  The upper bound in front of recvPrefixHash's make is
   a constant of the code (read as a value from the guard itself), compared with the variable
   make receives, and equal to kPrefixHashStep ... *)
Theorem C12_hash_step_bound_is_const :
  Consts.guards_hash_step_bound_const = true /\ Consts.guards_hash_step_bound_on_make_arg = true /\
  Consts.guards_hash_step_bound = Consts.guards_hash_step.
Proof. exact guards_hash_step_bound_is_const. Qed.
Print Assumptions C12_hash_step_bound_is_const.

(* ... so the amount is bounded for EVERY announced size and step, consistent with each other or not *)
Theorem C12_hash_pair_bounded : forall size ms hs,
  gd_hash_guard2 false Consts.guards_hash_step_bound size ms hs = true -> 0 < hs - ms <= Consts.guards_hash_step.
Proof. exact hash_guard2_const_bounded. Qed.
Print Assumptions C12_hash_pair_bounded.

(* ... whereas a guard that compares the announced step with the announced size accepts every
   consistent pair: size = step = n for all n > 0 (2^62 in particular) *)
Theorem C12_hash_bound_by_peer_size_refuted :
  (forall n, 0 < n -> gd_hash_guard2 true Consts.guards_hash_step_bound n 0 n = true) /\
  gd_hash_guard2 true Consts.guards_hash_step_bound (2 ^ 62) 0 (2 ^ 62) = true /\ 2 ^ 62 > Consts.guards_hash_step /\
  gd_hash_guard2 false Consts.guards_hash_step_bound (2 ^ 62) 0 (2 ^ 62) = false.
Proof. exact (conj hash_guard2_by_size_refuted hash_guard2_by_size_witness). Qed.
Print Assumptions C12_hash_bound_by_peer_size_refuted.

(* the code before the fixes violates the bound: the confirmed inputs *)
Theorem C12_data_unfixed_refuted : exists c n, cfg_ok c = true /\ guard_unfixed FDataSizeV2 c 0 n = true /\
  amount_unfixed FDataSizeV2 c 0 n > bound FDataSizeV2 c /\
  recv_binary_data_v2_unfixed c [56; 53; 56; 57; 57; 51; 52; 53; 57; 50]%N = DRead n /\
  read_binary_held_unfixed n 0 = n.
Proof. exact data_unfixed_refuted. Qed.
Print Assumptions C12_data_unfixed_refuted.

Theorem C12_hash_unfixed_refuted :
  (exists c aux n, guard_unfixed FHashStep c aux n = true /\ amount_unfixed FHashStep c aux n < 0) /\
  (exists c aux n, guard_unfixed FHashStep c aux n = true /\ amount_unfixed FHashStep c aux n > bound FHashStep c) /\
  snd (recv_hashes false 1000 0 0 true [{| h_step := -1; h_good := false |}]) = HPanic.
Proof. exact hash_unfixed_refuted. Qed.
Print Assumptions C12_hash_unfixed_refuted.

Theorem C12_pane_unfixed_refuted : exists c n, guard_unfixed FPaneWidth c 0 n = true /\
  amount_unfixed FPaneWidth c 0 n > bound FPaneWidth c /\ amount_unfixed FPaneWidth c 0 n = 49999999.
Proof. exact pane_unfixed_refuted. Qed.
Print Assumptions C12_pane_unfixed_refuted.

(* non-vacuity: a configuration and numbers on both sides of each bound *)
Example C12_nonvacuous :
  cfg_ok probe_cfg = true /\ guard FDataSizeV2 probe_cfg 0 20971520 = true /\ guard FDataSizeV2 probe_cfg 0 20971521 = false /\
  guard FHashStep probe_cfg 10485760 20971520 = true /\ guard FHashStep probe_cfg 10485760 20971521 = false /\
  guard FHashStep probe_cfg 10 10 = false /\
  bar_columns 100 80 = 79 /\ bar_columns 100 100 = 99 /\ bar_columns 100 101 = 100 /\ bar_columns 100 50000000 = 100.
Proof. exact alloc_bounded_nonvacuous. Qed.
