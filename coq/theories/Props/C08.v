(* C08 — With -y the destination ends up identical to the source whatever was there.
   Only the property theorems; each is closed by a lemma of Proofs/Resume.v and followed by
   Print Assumptions.

   [run B H proto stops src dst] (Model/Resume.v) is one file of an overwrite transfer:
   src = source content, dst = previous destination content ([] = absent or empty),
   proto = negotiated protocol, B = kPrefixHashStep, H = the hex MD5 of a byte string,
   stops = after how many HASH lines the hash sender observes stopNow (None = never).
   Every theorem is stated for an arbitrary block size B > 0 and an arbitrary H, and is
   instantiated at the block size read from append.go ([Consts.prefix_hash_step]). *)
From Trzsz Require Import Base.Bytes Gen.Consts Model.Resume Proofs.Resume.
From Coq Require Import ZArith.

(* B > 0 holds for the constant in the source *)
Theorem C08_block_size_positive : (0 < Consts.prefix_hash_step)%N.
Proof. exact step_positive_src_ok. Qed.
Print Assumptions C08_block_size_positive.

(* both ends arrive at the same offset; under protocol >= 3 it is B * (number of leading blocks
   whose cumulative digests are equal) capped at min(|src|,|dst|) ([agreed]); under protocol 2
   nothing is kept *)
Theorem C08_agree : forall B H, (0 < B)%N -> forall proto stops src dst o,
  run B H proto stops src dst = Done o ->
  o_mrecv o = o_msend o /\
  ((proto <? Consts.resume_min_protocol)%N = false -> o_msend o = Z.of_nat (agreed B H src dst)) /\
  ((proto <? Consts.resume_min_protocol)%N = true -> o_msend o = 0%Z).
Proof. exact agree. Qed.
Print Assumptions C08_agree.

(* the destination ends identical to the source: for ALL src and dst (absent/empty, shorter
   prefix, identical, longer, diverging anywhere), every protocol, every early stop of the hash
   sender -- provided the digests compared do not collide *)
Theorem C08_identical : forall B H, (0 < B)%N -> forall proto stops src dst o,
  (forall k, H (firstn k src) = H (firstn k dst) -> firstn k src = firstn k dst) ->
  run B H proto stops src dst = Done o -> o_final o = src.
Proof. exact identical. Qed.
Print Assumptions C08_identical.

(* what is skipped never exceeds the common prefix; what is sent is the rest of the source *)
Theorem C08_skip_bounded : forall B H, (0 < B)%N -> forall proto stops src dst o,
  (forall k, H (firstn k src) = H (firstn k dst) -> firstn k src = firstn k dst) ->
  run B H proto stops src dst = Done o ->
  (0 <= o_msend o <= Z.of_nat (lcp src dst))%Z /\
  Z.of_nat (length (o_sent o)) = (Z.of_nat (length src) - o_msend o)%Z.
Proof. exact skip_bounded. Qed.
Print Assumptions C08_skip_bounded.

(* a longer destination is always cut to the source's length -- no hypothesis on H *)
Theorem C08_truncates : forall B H, (0 < B)%N -> forall proto stops src dst o,
  run B H proto stops src dst = Done o -> length (o_final o) = length src.
Proof. exact truncates. Qed.
Print Assumptions C08_truncates.

(* arithmetic closed form of the agreed offset (what the harness compares at the real block
   size): everything if one file is a prefix of the other, else the common prefix rounded down
   to a multiple of B *)
Theorem C08_agreed_closed_form : forall B H, (0 < B)%N -> forall src dst,
  (forall k, H (firstn k src) = H (firstn k dst) -> firstn k src = firstn k dst) ->
  N.of_nat (agreed B H src dst) =
  abs_agreed B (N.of_nat (Nat.min (length src) (length dst))) (N.of_nat (lcp src dst)).
Proof. exact agreed_closed_form. Qed.
Print Assumptions C08_agreed_closed_form.

(* the exchange completes (so the theorems above are not vacuous): without an early stop, and
   with any early stop that comes after the verdict (more HASH lines sent than leading good
   blocks) -- for every non-empty source *)
Theorem C08_completes : forall B H, (0 < B)%N -> forall proto src dst, src <> [] ->
  (exists o, run B H proto None src dst = Done o) /\
  (forall k, (good_blocks B H (Nat.min (length src) (length dst)) src dst (Nat.min (length src) (length dst)) 0 < k)%nat ->
     exists o, run B H proto (Some k) src dst = Done o).
Proof.
  intros B H HB proto src dst Hs. split.
  - exact (run_completes B H HB src dst proto Hs).
  - intros k Hk. exact (run_completes_stop B H HB src dst proto k Hs Hk).
Qed.
Print Assumptions C08_completes.

(* an empty source over a non-empty destination under protocol >= 3 completes and leaves an empty
   file (before the fix of pipelineRecvHashAck the sender waited for an ack that never came) *)
Theorem C08_empty_source_done : forall B H, (0 < B)%N -> forall proto stops dst,
  (proto <? Consts.resume_min_protocol)%N = false -> dst <> [] ->
  run B H proto stops [] dst = Done (mkOut [Over] [] 0%Z 0%Z [] []).
Proof. intros B H HB proto stops dst Hp Hd. exact (run_empty_source_done B H HB [] dst proto stops Hp eq_refl Hd). Qed.
Print Assumptions C08_empty_source_done.

(* the receiver on a peer-chosen step (the former C12 sink `make([]byte, hash.Step - matchStep)`), with
   the guard now in recvPrefixHash (its presence is read from the source: Consts.resume_step_guard):
   a step that does not advance (<= matchStep; a repeated step included) or advances by more than
   one block is refused -- RInvalid: nothing allocated, nothing read, no ack; a step that is in
   range but beyond the file allocates at most B bytes before io.ReadFull fails *)
Theorem C08_peer_step_sink : forall B H dst step h rest st, r_match st = true ->
  let d := (step - r_mstep st)%Z in
  ((d <= 0 \/ Z.of_N B < d)%Z -> recv_hashes B H dst (Hash step h :: rest) st = RInvalid st step) /\
  ((0 < d <= Z.of_N B)%Z -> (Z.of_nat (length dst) < Z.of_nat (r_off st) + d)%Z ->
     recv_hashes B H dst (Hash step h :: rest) st = RReadErr st d).
Proof. exact recv_peer_step. Qed.
Print Assumptions C08_peer_step_sink.

(* and no HASH sequence at all drives the receiver into the negative-length make *)
Theorem C08_receiver_never_panics : forall B H dst msgs st st' n, recv_hashes B H dst msgs st <> RPanic st' n.
Proof. exact recv_never_panics. Qed.
Print Assumptions C08_receiver_never_panics.

(* the statements at the block size of the source *)
Theorem C08_identical_at_source_constant : forall H proto stops src dst o,
  (forall k, H (firstn k src) = H (firstn k dst) -> firstn k src = firstn k dst) ->
  run Consts.prefix_hash_step H proto stops src dst = Done o ->
  o_final o = src /\ length (o_final o) = length src /\ o_mrecv o = o_msend o /\
  (0 <= o_msend o <= Z.of_nat (lcp src dst))%Z.
Proof.
  intros H proto stops src dst o Hcf Hrun.
  pose proof step_positive_src_ok as HB.
  split; [exact (identical _ H HB proto stops src dst o Hcf Hrun)|].
  split; [exact (truncates _ H HB proto stops src dst o Hrun)|].
  split; [exact (proj1 (agree _ H HB proto stops src dst o Hrun))|].
  exact (proj1 (skip_bounded _ H HB proto stops src dst o Hcf Hrun)).
Qed.
Print Assumptions C08_identical_at_source_constant.

(* non-vacuity: block size 4, H = identity (collision-free), destination longer than the source
   and diverging inside the second block; hash sender stopped after 2 of 3 HASH lines *)
Example C08_nonvacuous :
  let src := [1; 2; 3; 4; 5; 6; 7; 8; 9; 10] in
  let dst := [1; 2; 3; 4; 5; 6; 0; 8; 9; 10; 11; 12] in
  run_id 4 4 (Some 2%nat) src dst =
    Done (mkOut [Hash 4 [1; 2; 3; 4]; Hash 8 [1; 2; 3; 4; 5; 6; 7; 8]; Over]
                [mkAck 4 true; mkAck 8 false] 4 4 [5; 6; 7; 8; 9; 10] src)
  /\ run_id 4 2 None src dst = Done (mkOut [] [] 0 0 src src)
  /\ agreed_id 4 src dst = 4%nat /\ lcp src dst = 6%nat /\ abs_agreed 4 10 6 = 4.
Proof. vm_compute. repeat split. Qed.
