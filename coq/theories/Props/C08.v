From Trzsz Require Import Base.Bytes Gen.Consts Model.Resume.
