(* C18: the acknowledgement bookkeeping in the probing phase, and the pinned skeletons of the goroutines
   around the pause machinery. *)
From Trzsz Require Import Base.Bytes Gen.Consts Gen.Skel_pause Gen.Skel_pause2 Model.PauseProbe.
From Coq Require Import ZArith Lia.
From Coq Require String.

Module SkelPin2.
Import Coq.Strings.String.
Local Open Scope string_scope.

Definition expected_pipelineRecvAck : list sk :=
  [ SK "go func" [SK "ignoreChunkTimeCount := 0" []; SK "range ackChan" [SK "length, step, pause, err := t.pipelineRecvCurrentAck()" []; SK "if _" [SK "then" [SK "return" []]]; SK "if _" [SK "then" [SK "return" []]]; SK "if _" [SK "then" [SK "select" [SK "case progressChan <- step" []; SK "case <-ctx.Done()" [SK "return" []]]]]; SK "if pause" [SK "then" [SK "ignoreChunkTimeCount = kAckChanBufferSize + 2" []]]; SK "if ignoreChunkTimeCount <= 0 || t.bufInitPhase.Load()" [SK "then" [SK "if _" [SK "then" [SK "if t.bufInitPhase.Load()" [SK "then" [SK "t.bufInitDone()" []]]]; SK "else" [SK "if t.bufInitPhase.Load()" [SK "then" [SK "t.bufInitPhase.Store(false)" []; SK "t.bufInitDone()" []]]]]]; SK "else" [SK "ignoreChunkTimeCount--" []]]; SK "if ctx.Err() != nil" [SK "then" [SK "return" []]]]; SK "if ctx.Err() != nil" [SK "then" [SK "return" []]]; SK "t.pipelineRecvFinalAck(ctx, size, progressChan)" []];
    SK "return _" [] ].

Definition expected_pipelineRecvFinalAck : list sk :=
  [ SK "for ctx.Err() == nil" [SK "resp, _, _, err := t.recvCheckV2(""SUCC"")" []; SK "if _" [SK "then" [SK "return" []]]; SK "if _" [SK "then" [SK "return" []]]; SK "if _" [SK "then" [SK "return" []]]; SK "if _" [SK "then" [SK "select" [SK "case progressChan <- step" []; SK "case <-ctx.Done()" [SK "return" []]]]]; SK "if step == size" [SK "then" [SK "if ctx.Err() == nil" [SK "then" [SK "ctx.succ <- struct{}{}" []]]; SK "break" []]]] ].

Definition expected_pipelineRecvData : list sk :=
  [ SK "ackChan := make(chan int, 100)" [];
    SK "go func" [SK "defer close(ackChan)" []; SK "t.savedSteps.Store(0)" []; SK "for ctx.Err() == nil" [SK "if _" [SK "then" [SK "data, beginTime, err = t.pipelineRecvBinaryData()" []]; SK "else" [SK "data, beginTime, err = t.pipelineRecvBase64Data()" []]]; SK "if _" [SK "then" [SK "return" []]]; SK "select" [SK "case ackChan <- len(data)" []; SK "case <-ctx.Done()" [SK "return" []]]; SK "if len(data) == 0" [SK "then" [SK "break" []]]; SK "select" [SK "case recvDataChan <- buf" []; SK "case <-ctx.Done()" [SK "return" []]]]];
    SK "return ackChan, recvDataChan" [] ].

Definition expected_pipelineSendAck : list sk :=
  [ SK "ackImmediatelyChan := make(chan struct{}, 1)" [];
    SK "go func" [SK "range ackChan" [SK "if err := t.checkStopAndPause(""SUCC""); err != nil" [SK "then" [SK "return" []]]; SK "step := t.savedSteps.Load()" []; SK "if err := t.writeAll([]byte(fmt.Sprintf(""#SUCC:%d/%d%s"", length, step, t.transferConfig.Newline))); err != nil" [SK "then" [SK "return" []]]; SK "if ctx.Err() != nil" [SK "then" [SK "return" []]]]; SK "for ctx.Err() == nil" [SK "if err := t.checkStopAndPause(""SUCC""); err != nil" [SK "then" [SK "return" []]]; SK "step := t.savedSteps.Load()" []; SK "if err := t.sendInteger(""SUCC"", step); err != nil" [SK "then" [SK "return" []]]; SK "if _" [SK "then" [SK "return" []]]; SK "if step == size" [SK "then" [SK "if ctx.Err() == nil" [SK "then" [SK "ctx.succ <- struct{}{}" []]]; SK "break" []]]; SK "select" [SK "case <-ackImmediatelyChan" []; SK "case <-time.After(200 * time.Millisecond)" []]]];
    SK "return ackImmediatelyChan" [] ].

Definition expected_sendDataWriterWrite : list sk :=
  [ SK "for " [SK "if _" [SK "then" [SK "if _" [SK "then" [SK "return _" []]]; SK "return _" []]]; SK "if _" [SK "then" [SK "return _" []]]; SK "if !b.deliver(b.buffer.Bytes())" [SK "then" [SK "return 0, b.ctx.Err()" []]]; SK "if b.transfer.bufInitPhase.Load()" [SK "then" [SK "select" [SK "case <-b.transfer.bufInitCh" []; SK "case <-b.ctx.Done()" [SK "return 0, b.ctx.Err()" []]]]]] ].

Definition expected_sendFileMD5 : list sk :=
  [ SK "if err := t.sendBinary(""MD5"", digest); err != nil" [SK "then" [SK "return _" []]];
    SK "if err := t.checkBinary(digest, t.getNewTimeout()); err != nil" [SK "then" [SK "return _" []]];
    SK "return _" [] ].

Definition expected_recvFileMD5 : list sk :=
  [ SK "expectDigest, err := t.recvBinary(""MD5"", false, t.getNewTimeout())" [];
    SK "if _" [SK "then" [SK "return _" []]];
    SK "if _" [SK "then" [SK "return _" []]];
    SK "if err := t.sendBinary(""SUCC"", digest); err != nil" [SK "then" [SK "return _" []]];
    SK "return _" [] ].

(* pipelineRecvAck: one pipelineRecvCurrentAck (= recvCheckV2) per ackChan entry; `pause` sets the ignore counter;
   the statistics block -- and with it bufInitDone() -- is entered when the counter is 0 OR the sender is still
   probing; after the channel is closed pipelineRecvFinalAck.  pipelineRecvFinalAck: recvCheckV2("SUCC") until
   step == size.  pipelineRecvData: length of every frame to ackChan (capacity 100), stops after the empty frame.
   pipelineSendAck: the gate in front of every "#SUCC:len/step" and of every "#SUCC:step" of the final loop, which
   polls every 200 ms or on ackImmediately.  sendDataWriter.Write: waits for bufInitCh while probing.
   sendFileMD5 / recvFileMD5: no gate, plain timed reads. *)
Lemma skel2_matches :
  skel_pipelineRecvAck = expected_pipelineRecvAck /\
  skel_pipelineRecvFinalAck = expected_pipelineRecvFinalAck /\
  skel_pipelineRecvData = expected_pipelineRecvData /\
  skel_pipelineSendAck = expected_pipelineSendAck /\
  skel_sendDataWriterWrite = expected_sendDataWriterWrite /\
  skel_sendFileMD5 = expected_sendFileMD5 /\
  skel_recvFileMD5 = expected_recvFileMD5.
Proof. repeat split; reflexivity. Qed.

End SkelPin2.

Lemma pause2_consts_ok : pause_ignore_chunk_count = (pause_ack_window + 2)%N /\ pause_recv_ackchan_cap = 100%N.
Proof. split; reflexivity. Qed.

(* in the probing phase EVERY acknowledgement releases the encoder, whatever its pause flag and whatever the
   ignore counter *)
Theorem probe_ack_releases : forall st pause grow, pra_init st = true -> snd (pra_step st pause grow) = true.
Proof.
  intros [cnt ini] pause grow H; cbn [pra_init] in H; subst ini. unfold pra_step; cbn [pra_ignore pra_init].
  rewrite Bool.orb_true_r. destruct grow; reflexivity.
Qed.

(* ... so a run of acknowledgements that stays in the probing phase releases the encoder once per
   acknowledgement: the encoder never waits for a release that does not come *)
Theorem probe_run_releases : forall acks st st' rs, pra_init st = true -> pra_run st acks = (st', rs) ->
  Forall (fun pg => snd pg = true) acks -> rs = repeat true (length acks) /\ pra_init st' = true.
Proof.
  induction acks as [|[p g] acks IH]; intros st st' rs Hi Hr Hall; cbn [pra_run] in Hr.
  - inversion Hr; subst. auto.
  - inversion Hall as [|? ? Hg Hrest]; subst. cbn [snd] in Hg. subst g.
    destruct (pra_step st p true) as [st1 r] eqn:E1. destruct (pra_run st1 acks) as [st2 rs2] eqn:E2.
    inversion Hr; subst; clear Hr.
    pose proof (probe_ack_releases st p true Hi) as Hrel. rewrite E1 in Hrel. cbn [snd] in Hrel. subst r.
    assert (Hi1 : pra_init st1 = true).
    { destruct st as [cnt ini]; cbn [pra_init] in Hi; subst ini. unfold pra_step in E1; cbn [pra_ignore pra_init] in E1.
      rewrite Bool.orb_true_r in E1. inversion E1; subst. reflexivity. }
    destruct (IH st1 st' rs2 Hi1 E2 Hrest) as (-> & Hi2). split; [reflexivity|exact Hi2].
Qed.

(* the probing phase ends exactly at the first acknowledgement that does not make the buffer grow, and that
   acknowledgement still releases the encoder *)
Theorem probe_ends_with_release : forall st pause, pra_init st = true ->
  pra_step st pause false = (mkPra (if pause then Z.of_N pause_ignore_chunk_count else pra_ignore st) false, true).
Proof.
  intros [cnt ini] pause H; cbn [pra_init] in H; subst ini. unfold pra_step; cbn [pra_ignore pra_init].
  rewrite Bool.orb_true_r. reflexivity.
Qed.

(* outside the probing phase an acknowledgement marked `pause`, and the next kAckChanBufferSize + 1 ones, are
   kept out of the statistics (and never call bufInitDone) *)
Theorem paused_acks_ignored : forall st grow, pra_init st = false ->
  pra_step st true grow = (mkPra (Z.of_N pause_ignore_chunk_count - 1) false, false).
Proof.
  intros [cnt ini] grow H; cbn [pra_init] in H; subst ini. unfold pra_step; cbn [pra_ignore pra_init]. reflexivity.
Qed.

(* the variant without the second operand of the condition (what a careless simplification would leave) does NOT
   release the encoder for an acknowledgement marked `pause` in the probing phase: the encoder would wait for ever *)
Definition pra_step_without_probe_operand (st : pra) (pause grow : bool) : pra * bool :=
  let cnt := if pause then Z.of_N pause_ignore_chunk_count else pra_ignore st in
  if (cnt <=? 0)%Z then
    if grow then (mkPra cnt (pra_init st), pra_init st) else (mkPra cnt false, pra_init st)
  else (mkPra (cnt - 1)%Z (pra_init st), false).

Example probe_operand_needed : snd (pra_step_without_probe_operand pra_init0 true true) = false /\
  snd (pra_step pra_init0 true true) = true.
Proof. split; reflexivity. Qed.
