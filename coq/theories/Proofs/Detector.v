(* Lemmas about the model of the trigger detector. *)
From Coq Require Import String Ascii.
From Trzsz Require Import Base.Bytes Gen.Consts Model.Detector.
Local Open Scope N_scope.

(* readable byte strings for the pin lemmas *)
Fixpoint bs (s : string) : list N :=
  match s with
  | EmptyString => []
  | String a r => N_of_ascii a :: bs r
  end.

(* ---- the source strings whose MEANING the model hard-codes ---- *)
Lemma trzsz_regex_src_ok :
  Consts.det_trzsz_regex_src = marker ++ bs "([SRD]):(\d+\.\d+\.\d+)(:\d+)?(:\d+)?".
Proof. reflexivity. Qed.
Lemma uid_regex_src_ok :
  Consts.det_uid_regex_src = marker ++ bs "[SRD]:\d+\.\d+\.\d+:(\d{13}\d*)".
Proof. reflexivity. Qed.
Lemma tmux_regex_src_ok :
  Consts.det_tmux_regex_src = bs "((%output %\d+ )|(%extended-output %\d+ \d+ : )).*" ++ marker.
Proof. reflexivity. Qed.
Lemma matcher_literals_ok :
  lit_output = bs "%output %" /\ lit_ext_output = bs "%extended-output %" /\ lit_ext_tail = bs " : " /\
  ch_colon = 58 /\ ch_dot = 46 /\ ch_space = 32 /\ uid_regex_min = 13%nat /\
  (forall b, is_mode b = existsb (N.eqb b) (bs "SRD")).
Proof. repeat split. intro b. unfold is_mode. cbn. now rewrite orb_false_r, orb_assoc. Qed.
Lemma trz_format_ok :
  Consts.det_trz_format = [27; 55; 7] ++ marker ++ bs "%s:%s:%013d:%d" ++ [CR; LF] /\
  Consts.det_tsz_format = [27; 55; 7] ++ marker ++ bs "S:%s:%013d:%d" ++ [CR; LF].
Proof. split; reflexivity. Qed.
Lemma version_sep_ok : Consts.det_version_sep = [ch_dot] /\ Consts.det_version_base = 10 /\ Consts.det_version_fields = 3.
Proof. repeat split. Qed.
Lemma relay_scan_ok : forall c, relay_scan_char c = (c =? ch_colon) || (c =? ch_dot) || is_digit c.
Proof. intro c. unfold relay_scan_char, is_digit. cbn. now rewrite orb_false_r. Qed.

(* every number and string of the detector the theorems are parametric in: a change of any
   of them in comm.go changes what the theorems say, so it has to show up as a broken
   obligation, not as a silently different statement *)
Lemma detector_consts_pinned :
  Consts.det_min_len = 24 /\ marker = bs "::TRZSZ:TRANSFER:" /\ Consts.det_finished_offset = 40 /\
  Consts.det_finished_words = [bs "#CFG:"; bs "Saved"; bs "Cancelled"; bs "Stopped"; bs "Interrupted"] /\
  Consts.det_prune_limit = 100 /\ Consts.det_prune_keep = 50 /\
  Consts.det_id_min_len = 6 /\ Consts.det_plain_id_len = 13 /\ Consts.det_plain_suffix = bs "00" /\
  Consts.det_win_id = bs "1" /\ Consts.det_win_id_len = 13 /\ Consts.det_win_suffix = bs "10" /\
  Consts.det_rewrite_min_len = 13 /\ Consts.det_rewrite_suffix = bs "00" /\
  Consts.det_retag_back = 2 /\ Consts.det_retag_char = 50 /\
  Consts.det_relay_offset = 20 /\ Consts.det_relay_suffix = bs "#R" /\
  Consts.det_client_old = bs "TRZSZ" /\ Consts.det_client_new = bs "TRZSZGO" /\
  Consts.det_version_bits = 32.
Proof. repeat split. Qed.

(* ==================================================================================== *)
(* byte-string library *)

Lemma has_prefix_app : forall p l, has_prefix p (p ++ l) = true.
Proof. induction p as [|x p IH]; intro l; cbn [has_prefix app]; [reflexivity|]. now rewrite N.eqb_refl, IH. Qed.

Lemma has_prefix_true : forall p l, has_prefix p l = true <-> exists r, l = p ++ r.
Proof.
  induction p as [|x p IH]; intro l; cbn [has_prefix].
  - split; [intros _; now exists l | reflexivity].
  - destruct l as [|y l]; [split; [discriminate | intros [r Hr]; discriminate]|].
    rewrite andb_true_iff, N.eqb_eq, IH. split.
    + intros [-> [r ->]]. now exists r.
    + intros [r Hr]. cbn [app] in Hr. injection Hr as -> ->. split; [reflexivity | now exists r].
Qed.

Lemma has_prefix_nil_r : forall p, p <> [] -> has_prefix p [] = false.
Proof. destruct p; [congruence | reflexivity]. Qed.

Lemma strip_prefix_some : forall p l r, strip_prefix p l = Some r <-> l = p ++ r.
Proof.
  induction p as [|x p IH]; intros l r; cbn [strip_prefix app].
  - split; [now intros [= ->] | now intros ->].
  - destruct l as [|y l]; [split; discriminate|].
    destruct (N.eqb_spec x y) as [->|Hne].
    + rewrite IH. split; [now intros -> | now intros [= ->]].
    + split; [discriminate | intros [= -> _]; congruence].
Qed.

Lemma strip_prefix_has : forall p l r, strip_prefix p l = Some r -> has_prefix p l = true.
Proof. intros p l r H. apply strip_prefix_some in H as ->. apply has_prefix_app. Qed.

Lemma strip_prefix_none : forall p l, strip_prefix p l = None -> has_prefix p l = false.
Proof.
  intros p l H. destruct (has_prefix p l) eqn:E; [|reflexivity].
  apply has_prefix_true in E as [r ->]. now rewrite (proj2 (strip_prefix_some p (p ++ r) r) eq_refl) in H.
Qed.

Lemma strip_byte_some : forall b l r, strip_byte b l = Some r <-> l = b :: r.
Proof.
  intros b [|x l] r; cbn [strip_byte]; [split; discriminate|].
  destruct (N.eqb_spec x b) as [->|Hne]; split; try discriminate.
  - now intros [= ->]. - now intros [= ->]. - intros [= -> _]. congruence.
Qed.

Lemma skipn_skipn_add : forall {A} i j (l : list A), skipn i (skipn j l) = skipn (j + i) l.
Proof. intros A i j; revert i; induction j as [|j IH]; intros i l; [reflexivity|]. destruct l; [now rewrite !skipn_nil | cbn [skipn plus]; apply IH]. Qed.

(* "p occurs in l at offset i" *)
Definition occ (p l : list N) (i : nat) : Prop := has_prefix p (skipn i l) = true.

Lemma last_index_none : forall p l, last_index_of p l = None -> forall i, has_prefix p (skipn i l) = false.
Proof.
  intros p; induction l as [|x l IH]; cbn [last_index_of]; intros H i.
  - rewrite skipn_nil. now destruct (has_prefix p []).
  - destruct (last_index_of p l) eqn:E; [discriminate|].
    destruct i as [|i]; cbn [skipn]; [now destruct (has_prefix p (x :: l)) | now apply IH].
Qed.

Lemma last_index_some : forall p l i, p <> [] -> last_index_of p l = Some i ->
  has_prefix p (skipn i l) = true /\ (i <= length l)%nat /\
  forall j, (i < j)%nat -> has_prefix p (skipn j l) = false.
Proof.
  intros p l i Hp; revert i; induction l as [|x l IH]; cbn [last_index_of]; intros i H.
  - rewrite (has_prefix_nil_r p Hp) in H. discriminate.
  - destruct (last_index_of p l) as [k|] eqn:E.
    + injection H as <-. destruct (IH k eq_refl) as (H1 & H2 & H3). cbn [skipn length].
      repeat split; [assumption | lia |]. intros [|j] Hj; [lia|]. cbn [skipn]. apply H3. lia.
    + destruct (has_prefix p (x :: l)) eqn:E2; [|discriminate]. injection H as <-. cbn [skipn length].
      repeat split; [assumption | lia |]. intros [|j] Hj; [lia|]. cbn [skipn]. now apply last_index_none.
Qed.

Lemma last_index_intro : forall p l i, p <> [] -> has_prefix p (skipn i l) = true ->
  (forall j, (i < j)%nat -> has_prefix p (skipn j l) = false) -> last_index_of p l = Some i.
Proof.
  intros p l i Hp Hi Hlast. destruct (last_index_of p l) as [k|] eqn:E.
  - destruct (last_index_some _ _ _ Hp E) as (H1 & _ & H3).
    destruct (Nat.lt_trichotomy i k) as [Hlt|[->|Hgt]]; [|reflexivity|].
    + rewrite (Hlast k Hlt) in H1. discriminate.
    + rewrite (H3 i Hgt) in Hi. discriminate.
  - rewrite (last_index_none _ _ E i) in Hi. discriminate.
Qed.

Lemma index_of_none : forall p l, index_of p l = None -> forall i, has_prefix p (skipn i l) = false.
Proof.
  intros p; induction l as [|x l IH]; intros H i.
  - cbn [index_of] in H. rewrite skipn_nil. now destruct (has_prefix p []).
  - cbn [index_of] in H. destruct (has_prefix p (x :: l)) eqn:E; [discriminate|].
    destruct (index_of p l) eqn:E2; [discriminate|].
    destruct i; cbn [skipn]; [assumption | now apply IH].
Qed.

Lemma index_of_some : forall p l i, index_of p l = Some i -> has_prefix p (skipn i l) = true.
Proof.
  intros p; induction l as [|x l IH]; intros i H; cbn [index_of] in H.
  - destruct (has_prefix p []) eqn:E; [|discriminate]. now injection H as <-.
  - destruct (has_prefix p (x :: l)) eqn:E; [now injection H as <-|].
    destruct (index_of p l) eqn:E2; [|discriminate]. injection H as <-. cbn [skipn]. now apply IH.
Qed.

Lemma contains_false : forall p l, contains p l = false <-> forall i, has_prefix p (skipn i l) = false.
Proof.
  intros p l. unfold contains. split.
  - destruct (index_of p l) eqn:E; [discriminate|]. intros _. now apply index_of_none.
  - intros H. destruct (index_of p l) eqn:E; [|reflexivity]. apply index_of_some in E. now rewrite H in E.
Qed.

Lemma contains_true : forall p l, contains p l = true <-> exists i, has_prefix p (skipn i l) = true.
Proof.
  intros p l. split.
  - unfold contains. destruct (index_of p l) eqn:E; [|discriminate]. intros _. eexists. eapply index_of_some; eassumption.
  - intros [i Hi]. destruct (contains p l) eqn:E; [reflexivity|]. rewrite (proj1 (contains_false p l) E i) in Hi. discriminate.
Qed.

Lemma contains_skipn : forall p l k, contains p (skipn k l) = true -> contains p l = true.
Proof. intros p l k H. apply contains_true in H as [i Hi]. rewrite skipn_skipn_add in Hi. apply contains_true. eauto. Qed.

(* ==================================================================================== *)
(* bytes.ReplaceAll *)

Lemma replace_from_skip : forall old new l k, replace_from old new k l = replace_from old new O (skipn k l).
Proof.
  intros old new; induction l as [|x l IH]; intros k.
  - now rewrite skipn_nil.
  - destruct k as [|k]; [reflexivity|]. cbn [replace_from skipn]. apply IH.
Qed.

Lemma replace_all_cons : forall old new x l,
  replace_all old new (x :: l) =
  if has_prefix old (x :: l) then new ++ replace_all old new (skipn (pred (length old)) l)
  else x :: replace_all old new l.
Proof.
  intros old new x l. unfold replace_all. cbn [replace_from].
  destruct (has_prefix old (x :: l)); [|reflexivity]. now rewrite replace_from_skip.
Qed.

Lemma replace_all_nil : forall old new, replace_all old new [] = [].
Proof. reflexivity. Qed.

(* ---- the client-mode rewrite leaves no marker behind ---- *)
Section Inert.
  (* concrete values; client_consts_ok below ties them to Gen.Consts *)
  Let old : list N := [84; 82; 90; 83; 90].           (* TRZSZ *)
  Let new : list N := [84; 82; 90; 83; 90; 71; 79].   (* TRZSZGO *)
  Let key : list N := [84; 82; 90; 83; 90; 58].       (* TRZSZ: *)

  Lemma inert_head_sync : forall w, ~ In 84 w -> forall l,
    has_prefix w (replace_all old new l) = true -> has_prefix w l = true.
  Proof.
    induction w as [|c w IH]; intros Hw l H; [reflexivity|].
    destruct l as [|x l]; [discriminate H|]. rewrite replace_all_cons in H.
    destruct (has_prefix old (x :: l)) eqn:E.
    - cbn [new app has_prefix] in H. apply andb_true_iff in H as [H _]. apply N.eqb_eq in H. subst c.
      exfalso. apply Hw. now left.
    - cbn [has_prefix] in H |- *. apply andb_true_iff in H as [H1 H2]. rewrite H1. cbn [andb].
      apply IH; [|assumption]. intro Hin. apply Hw. now right.
  Qed.

  Lemma inert_head : forall l, has_prefix key (replace_all old new l) = false.
  Proof.
    intros [|x l]; [reflexivity|]. rewrite replace_all_cons. destruct (has_prefix old (x :: l)) eqn:E; [reflexivity|].
    destruct (has_prefix key (x :: replace_all old new l)) eqn:K; [|reflexivity].
    cbn [key has_prefix] in K. apply andb_true_iff in K as [K1 K2]. apply N.eqb_eq in K1. subst x.
    assert (Hs : has_prefix [82; 90; 83; 90; 58] l = true).
    { apply inert_head_sync; [|exact K2]. cbn. intros [H|[H|[H|[H|[H|[]]]]]]; discriminate. }
    apply has_prefix_true in Hs as [r ->]. discriminate E.
  Qed.

  Lemma inert_everywhere : forall n l i, (length l <= n)%nat ->
    has_prefix key (skipn i (replace_all old new l)) = false.
  Proof.
    induction n as [|n IH]; intros l i Hl.
    - destruct l; [now rewrite replace_all_nil, skipn_nil | cbn in Hl; lia].
    - destruct i as [|i]; [apply inert_head|].
      destruct l as [|x l]; [now rewrite replace_all_nil, skipn_nil|]. rewrite replace_all_cons.
      destruct (has_prefix old (x :: l)) eqn:E.
      + assert (Hr : (length (skipn (pred (length old)) l) <= n)%nat)
          by (rewrite skipn_length; cbn [length] in Hl; lia).
        set (rest := skipn (pred (length old)) l) in *. clearbody rest.
        cbn [new app]. do 6 (destruct i as [|i]; [reflexivity|]). cbn [skipn]. now apply IH.
      + cbn [skipn]. apply IH. cbn [length] in Hl. lia.
  Qed.

  Lemma client_consts_ok : Consts.det_client_old = old /\ Consts.det_client_new = new /\
    marker = [58; 58] ++ key ++ skipn 8 marker.
  Proof. repeat split. Qed.

  Lemma client_rewrite_no_marker : forall l,
    last_index_of marker (replace_all Consts.det_client_old Consts.det_client_new l) = None.
  Proof.
    intros l. destruct (last_index_of marker _) as [i|] eqn:E; [|reflexivity]. exfalso.
    apply last_index_some in E as (H & _); [|discriminate].
    destruct client_consts_ok as (Ho & Hn & Hm). rewrite Ho, Hn, Hm in H.
    apply has_prefix_true in H as [r Hr].
    pose proof (inert_everywhere (length l) l (i + 2) (Nat.le_refl _)) as Hk.
    rewrite <- skipn_skipn_add, Hr in Hk. cbn [app skipn] in Hk.
    rewrite <- app_assoc, has_prefix_app in Hk. discriminate.
  Qed.
End Inert.

(* ==================================================================================== *)
(* the matchers *)

(* "does not start with a digit" *)
Definition hnd (t : list N) : Prop := match t with x :: _ => is_digit x = false | [] => True end.

Lemma span_digits_spec : forall l d t, span_digits l = (d, t) ->
  l = d ++ t /\ all_digits d = true /\ hnd t.
Proof.
  induction l as [|x l IH]; intros d t H; cbn [span_digits] in H.
  - injection H as <- <-. repeat split.
  - destruct (is_digit x) eqn:E.
    + destruct (span_digits l) as [d' t'] eqn:E2. injection H as <- <-.
      destruct (IH _ _ eq_refl) as (-> & Hd & Ht). cbn [app all_digits forallb]. rewrite E. repeat split; assumption.
    + injection H as <- <-. repeat split. exact E.
Qed.

Lemma span_digits_intro : forall d t, all_digits d = true -> hnd t -> span_digits (d ++ t) = (d, t).
Proof.
  induction d as [|x d IH]; intros t Hd Ht.
  - destruct t as [|y t]; [reflexivity|]. cbn [app span_digits]. cbn [hnd] in Ht. now rewrite Ht.
  - cbn [all_digits forallb] in Hd. apply andb_true_iff in Hd as [Hx Hd]. cbn [app span_digits]. rewrite Hx.
    unfold all_digits in IH. now rewrite IH.
Qed.

Lemma digits1_spec : forall l d t, digits1 l = Some (d, t) ->
  l = d ++ t /\ d <> [] /\ all_digits d = true /\ hnd t.
Proof.
  intros l d t H. unfold digits1 in H. destruct (span_digits l) as [d' t'] eqn:E.
  destruct d' as [|x d']; [discriminate|]. injection H as <- <-.
  destruct (span_digits_spec _ _ _ E) as (H1 & H2 & H3). repeat split; try assumption. discriminate.
Qed.

Lemma digits1_intro : forall d t, d <> [] -> all_digits d = true -> hnd t -> digits1 (d ++ t) = Some (d, t).
Proof. intros d t Hne Hd Ht. unfold digits1. rewrite span_digits_intro by assumption. destruct d; congruence. Qed.

Lemma digits1_none_hnd : forall l, digits1 l = None -> hnd l.
Proof.
  intros [|x l] H; [exact I|]. unfold digits1 in H. cbn [span_digits] in H. cbn [hnd].
  destruct (is_digit x); [|reflexivity]. destruct (span_digits l); discriminate.
Qed.

(* a version text: three non-empty digit strings *)
Definition vtext (a b c : list N) : list N := a ++ ch_dot :: b ++ ch_dot :: c.
Definition dstr (d : list N) : Prop := d <> [] /\ all_digits d = true.

Lemma match_version_spec : forall l v r, match_version l = Some (v, r) ->
  exists a b c, v = vtext a b c /\ l = v ++ r /\ dstr a /\ dstr b /\ dstr c /\ hnd r.
Proof.
  intros l v r H. unfold match_version in H.
  destruct (digits1 l) as [[a l1]|] eqn:E1; [|discriminate].
  destruct (strip_byte ch_dot l1) as [l2|] eqn:E2; [|discriminate].
  destruct (digits1 l2) as [[b l3]|] eqn:E3; [|discriminate].
  destruct (strip_byte ch_dot l3) as [l4|] eqn:E4; [|discriminate].
  destruct (digits1 l4) as [[c l5]|] eqn:E5; [|discriminate].
  injection H as <- <-.
  apply digits1_spec in E1 as (-> & ? & ? & _). apply strip_byte_some in E2 as ->.
  apply digits1_spec in E3 as (-> & ? & ? & _). apply strip_byte_some in E4 as ->.
  apply digits1_spec in E5 as (-> & ? & ? & Hr).
  exists a, b, c. unfold vtext, dstr. repeat split; try assumption.
  now rewrite <- !app_assoc; cbn [app]; rewrite <- !app_assoc.
Qed.

Lemma hnd_dot : forall t, hnd (ch_dot :: t). Proof. reflexivity. Qed.
Lemma hnd_colon : forall t, hnd (ch_colon :: t). Proof. reflexivity. Qed.

Lemma match_version_intro : forall a b c r, dstr a -> dstr b -> dstr c -> hnd r ->
  match_version (vtext a b c ++ r) = Some (vtext a b c, r).
Proof.
  intros a b c r [Ha1 Ha2] [Hb1 Hb2] [Hc1 Hc2] Hr. unfold match_version, vtext.
  rewrite <- app_assoc. cbn [app]. rewrite digits1_intro by (try assumption; apply hnd_dot).
  cbn [strip_byte]. rewrite N.eqb_refl. rewrite <- app_assoc. cbn [app].
  rewrite digits1_intro by (try assumption; apply hnd_dot).
  cbn [strip_byte]. rewrite N.eqb_refl. now rewrite digits1_intro by assumption.
Qed.

(* ---- uniqueIDRegexp needs room ---- *)
Lemma uid_at_marker : forall l x, uid_at l = Some x -> has_prefix marker l = true.
Proof.
  intros l x H. unfold uid_at in H. destruct (strip_prefix marker l) eqn:E; [|discriminate].
  eapply strip_prefix_has; eassumption.
Qed.

Lemma uid_at_length : forall l x, uid_at l = Some x -> (33 <= length l)%nat.
Proof.
  intros l x H. unfold uid_at in H.
  destruct (strip_prefix marker l) as [l1|] eqn:E; [|discriminate]. apply strip_prefix_some in E as ->.
  destruct l1 as [|m l2]; [discriminate|]. destruct (is_mode m); [|discriminate].
  destruct (strip_byte ch_colon l2) as [l3|] eqn:E3; [|discriminate]. apply strip_byte_some in E3 as ->.
  destruct (match_version l3) as [[v l4]|] eqn:E4; [|discriminate].
  apply match_version_spec in E4 as (a & b & c & _ & -> & _).
  destruct (strip_byte ch_colon l4) as [l5|] eqn:E5; [|discriminate]. apply strip_byte_some in E5 as ->.
  destruct (span_digits l5) as [d l6] eqn:E6. apply span_digits_spec in E6 as (-> & _).
  destruct (Nat.leb_spec uid_regex_min (length d)) as [Hd|]; [|discriminate].
  unfold uid_regex_min in Hd. rewrite app_length. cbn [length]. rewrite app_length. cbn [length]. rewrite app_length.
  change (length marker) with 17%nat. lia.
Qed.

Lemma uid_find_all_none : forall l, (forall i, uid_at (skipn i l) = None) -> forall k, uid_find_all k l = [].
Proof.
  induction l as [|x l IH]; intros H k; [reflexivity|]. cbn [uid_find_all]. destruct k as [|k].
  - pose proof (H O) as H0. cbn [skipn] in H0. rewrite H0. apply IH. intro i. apply (H (S i)).
  - apply IH. intro i. apply (H (S i)).
Qed.

Lemma min_len_ok : Consts.det_min_len = 24. Proof. reflexivity. Qed.

Lemma rewrite_trigger_quiet : forall buf,
  (nlen buf <? Consts.det_min_len) = true \/ last_index_of marker buf = None -> rewrite_trigger buf = buf.
Proof.
  intros buf H. unfold rewrite_trigger. rewrite uid_find_all_none; [reflexivity|]. intro i.
  destruct (uid_at (skipn i buf)) as [x|] eqn:E; [exfalso|reflexivity]. destruct H as [H|H].
  - apply uid_at_length in E. rewrite skipn_length in E. apply N.ltb_lt in H. rewrite min_len_ok in H.
    unfold nlen in H. lia.
  - apply uid_at_marker in E. now rewrite (last_index_none _ _ H i) in E.
Qed.

(* ==================================================================================== *)
(* C06_silent, C06_client_rewrite_inert *)

Lemma is_repeated_true : forall w m id m', is_repeated w m id = (true, m') -> m' = m.
Proof.
  intros w m id m' H. unfold is_repeated in H. destruct (dedup_eligible w id); [|discriminate].
  destruct (map_find m id); [now injection H as <- | discriminate].
Qed.

Lemma set_map_same : forall d, set_map d (d_map d) = d.
Proof. now intros []. Qed.

(* no trigger => the detector's state is untouched and the bytes pass unchanged (after the
   relay+tmux id re-tagging, which is the identity on buffers without a complete trigger id) *)
Lemma silent : forall w d tunnel buf out d',
  detect w d tunnel buf = (out, None, d') ->
  d' = d /\ out = if d_relay d && d_tmux d then rewrite_trigger buf else buf.
Proof.
  intros w d tunnel buf out d' H. unfold detect in H.
  destruct (nlen buf <? Consts.det_min_len) eqn:E0.
  { injection H as <- <-. split; [reflexivity|]. destruct (d_relay d && d_tmux d); [|reflexivity].
    symmetry. apply rewrite_trigger_quiet. now left. }
  destruct (last_index_of marker buf) eqn:E1.
  2:{ injection H as <- <-. split; [reflexivity|]. destruct (d_relay d && d_tmux d); [|reflexivity].
      symmetry. apply rewrite_trigger_quiet. now right. }
  set (o := if d_relay d && d_tmux d then rewrite_trigger buf else buf) in *.
  destruct (last_index_of marker o) as [idx|]; [|now injection H as <- <-].
  destruct (find_trzsz (skipn idx o)) as [m|]; [|now injection H as <- <-].
  destruct (negb (is_none (find_tmux o)) && (negb tunnel || is_none (m_port m))); [now injection H as <- <-|].
  destruct ((Consts.det_finished_offset <? nlen (skipn idx o)) && _); [now injection H as <- <-|].
  destruct (parse_version (m_ver m)); [|now injection H as <- <-].
  destruct (is_repeated w (d_map d) _) as [rep mp] eqn:E5.
  destruct rep; [|discriminate]. injection H as <- <-. apply is_repeated_true in E5 as ->.
  now rewrite set_map_same.
Qed.

Lemma detect_no_marker : forall w d tunnel buf, last_index_of marker buf = None ->
  detect w d tunnel buf = (buf, None, d).
Proof. intros w d tunnel buf H. unfold detect. rewrite H. now destruct (nlen buf <? Consts.det_min_len). Qed.

(* what a client-mode detector shows locally is inert for EVERY detector further along *)
Lemma client_rewrite_inert : forall w d tunnel buf out t d', d_relay d = false ->
  detect w d tunnel buf = (out, Some t, d') ->
  last_index_of marker out = None /\
  forall w2 d2 tunnel2, detect w2 d2 tunnel2 out = (out, None, d2).
Proof.
  intros w d tunnel buf out t d' Hr H.
  assert (Hm : last_index_of marker out = None).
  { unfold detect in H. rewrite Hr in H. cbn [andb] in H.
    destruct (nlen buf <? Consts.det_min_len); [discriminate|].
    destruct (last_index_of marker buf) as [idx|]; [|discriminate].
    destruct (find_trzsz (skipn idx buf)) as [m|]; [|discriminate].
    destruct (negb (is_none (find_tmux buf)) && _); [discriminate|].
    destruct ((Consts.det_finished_offset <? nlen (skipn idx buf)) && _); [discriminate|].
    destruct (parse_version (m_ver m)); [|discriminate].
    destruct (is_repeated w (d_map d) _) as [rep mp]. destruct rep; [discriminate|].
    injection H as <- _ _. apply client_rewrite_no_marker. }
  split; [exact Hm|]. intros. now apply detect_no_marker.
Qed.

(* ==================================================================================== *)
(* C06_replay: the id table over the whole history of calls *)

Lemma list_eqb_eq : forall a b, list_eqb a b = true <-> a = b.
Proof.
  induction a as [|x a IH]; intros [|y b]; cbn [list_eqb]; try (split; congruence).
  rewrite andb_true_iff, N.eqb_eq, IH. split; [now intros [-> ->] | now intros [= -> ->]].
Qed.

Lemma map_find_in : forall m id, In id (map fst m) -> map_find m id <> None.
Proof.
  induction m as [|[k v] m IH]; intros id H; [destruct H|]. cbn [map_find].
  destruct (list_eqb k id) eqn:E; [discriminate|]. apply IH. destruct H as [H|H]; [|assumption].
  cbn [fst] in H. subst k. now rewrite (proj2 (list_eqb_eq id id) eq_refl) in E.
Qed.

Lemma prune_consts_ok : Consts.det_prune_limit = 100 /\ Consts.det_prune_keep = 50 /\ replay_window = 52%nat.
Proof. repeat split. Qed.

(* the table holds exactly its [length] newest accepted ids, numbered 0..length-1 in order
   of acceptance, and never fewer than the newest 52 (or all of them) *)
Definition table_inv (m : idmap) (acc : list (list N)) : Prop :=
  map snd m = map N.of_nat (seq 0 (length m)) /\
  rev (map fst m) = firstn (length m) acc /\
  (length m <= 101)%nat /\
  (length acc <= length m \/ 52 <= length m)%nat.

Lemma filter_ge_seq : forall (m : idmap) a, map snd m = map N.of_nat (seq a (length m)) ->
  filter (fun kv => 50 <=? snd kv) m = skipn (50 - a) m.
Proof.
  induction m as [|[k v] m IH]; intros a H; [now rewrite skipn_nil|].
  cbn [map length seq snd] in H. injection H as -> H. cbn [filter snd].
  destruct (N.leb_spec 50 (N.of_nat a)) as [Hle|Hlt].
  - replace (50 - a)%nat with O by lia. cbn [skipn]. f_equal. rewrite (IH _ H). now replace (50 - S a)%nat with O by lia.
  - rewrite (IH _ H). replace (50 - a)%nat with (S (50 - S a)) by lia. reflexivity.
Qed.

Lemma prune_small : forall m, (length m <= 100)%nat -> prune m = m.
Proof.
  intros m H. unfold prune, mlen. destruct prune_consts_ok as (-> & _).
  destruct (N.ltb_spec 100 (N.of_nat (length m))); [lia | reflexivity].
Qed.

Lemma prune_full : forall m, length m = 101%nat -> map snd m = map N.of_nat (seq 0 (length m)) ->
  prune m = map (fun kv : list N * N => (fst kv, snd kv - 50)) (skipn 50 m).
Proof.
  intros m L Hv. unfold prune, mlen. destruct prune_consts_ok as (-> & -> & _).
  destruct (N.ltb_spec 100 (N.of_nat (length m))); [|lia].
  now rewrite (filter_ge_seq m O) by exact Hv.
Qed.

Lemma table_inv_insert : forall m acc id, table_inv m acc ->
  table_inv (prune m ++ [(id, mlen (prune m))]) (id :: acc).
Proof.
  intros m acc id (Hv & Hk & Hlen & Hwin).
  destruct (Nat.eq_dec (length m) 101) as [L|L].
  - rewrite (prune_full m L Hv).
    set (m' := map (fun kv : list N * N => (fst kv, snd kv - 50)) (skipn 50 m)).
    assert (Lm' : length m' = 51%nat) by (unfold m'; rewrite map_length, skipn_length; lia).
    assert (Hfst : map fst m' = skipn 50 (map fst m)) by (unfold m'; rewrite map_map; cbn [fst]; now rewrite skipn_map).
    assert (Hsnd : map snd m' = map N.of_nat (seq 0 51)).
    { unfold m'. rewrite map_map. cbn [snd]. rewrite <- (map_map snd (fun v => v - 50)), <- skipn_map, Hv, L. reflexivity. }
    unfold table_inv, mlen. rewrite !map_app, app_length, Lm', Hsnd, Hfst. cbn [map fst snd length Nat.add].
    split; [reflexivity | split; [| lia]].
    rewrite rev_app_distr. cbn [rev app firstn]. f_equal.
    pose proof (firstn_rev 51 (map fst m)) as Hr. rewrite map_length, L in Hr. cbn [Nat.sub] in Hr.
    rewrite <- Hr, Hk, L, firstn_firstn. reflexivity.
  - rewrite (prune_small m) by lia.
    unfold table_inv, mlen. rewrite !map_app, app_length, rev_app_distr. cbn [map fst snd length rev app].
    replace (length m + 1)%nat with (S (length m)) by lia. rewrite seq_S, map_app, Hv. cbn [map Nat.add firstn].
    split; [reflexivity | split; [now rewrite Hk | cbn [length]; lia]].
Qed.

Lemma in_firstn_le : forall {A} (x : A) n k l, (n <= k)%nat -> In x (firstn n l) -> In x (firstn k l).
Proof.
  intros A x; induction n as [|n IH]; intros k l Hle Hin; [destruct Hin|].
  destruct l as [|a l]; [destruct Hin|]. destruct k as [|k]; [lia|]. cbn [firstn] in *.
  destruct Hin as [->|Hin]; [now left | right; apply (IH k); [lia | assumption]].
Qed.

Lemma table_inv_remembers : forall m acc id, table_inv m acc -> In id (firstn 52 acc) -> map_find m id <> None.
Proof.
  intros m acc id (_ & Hk & _ & Hwin) Hin. apply map_find_in. apply in_rev. rewrite Hk.
  destruct Hwin as [Hw|Hw].
  - rewrite firstn_all2 by exact Hw. rewrite <- (firstn_all acc).
    destruct (Nat.le_ge_cases 52 (length acc)); [eapply in_firstn_le; eassumption|].
    rewrite firstn_all2 in Hin by assumption. now rewrite firstn_all.
  - eapply in_firstn_le; eassumption.
Qed.

Lemma detect_table : forall w d tunnel buf o t d', detect w d tunnel buf = (o, t, d') ->
  (t = None /\ d' = d) \/
  (exists tr, t = Some tr /\ is_repeated w (d_map d) (t_id tr) = (false, d_map d')).
Proof.
  intros w d tunnel buf o t d' H. destruct t as [tr|]; [right|left; split; [reflexivity|eapply silent; eassumption]].
  exists tr. split; [reflexivity|]. unfold detect in H.
  destruct (nlen buf <? Consts.det_min_len); [discriminate|].
  destruct (last_index_of marker buf); [|discriminate].
  set (ob := if d_relay d && d_tmux d then rewrite_trigger buf else buf) in *.
  destruct (last_index_of marker ob) as [idx|]; [|discriminate].
  destruct (find_trzsz (skipn idx ob)) as [m|]; [|discriminate].
  destruct (negb (is_none (find_tmux ob)) && _); [discriminate|].
  destruct ((Consts.det_finished_offset <? nlen (skipn idx ob)) && _); [discriminate|].
  destruct (parse_version (m_ver m)); [|discriminate].
  destruct (is_repeated w (d_map d) _) as [rep mp] eqn:E. destruct rep; [discriminate|].
  injection H as _ <- <-. cbn [t_id d_map set_map]. exact E.
Qed.

Lemma hist_step_inv : forall w d acc c, table_inv (d_map d) acc ->
  table_inv (d_map (fst (hist_step w (d, acc) c))) (snd (hist_step w (d, acc) c)).
Proof.
  intros w d acc [tn buf] Hinv. unfold hist_step. cbn [fst snd].
  destruct (detect w d tn buf) as [[o t] d'] eqn:E. cbn [fst snd].
  destruct (detect_table _ _ _ _ _ _ _ E) as [[-> ->]|(tr & -> & Hrep)]; [exact Hinv|].
  unfold is_repeated in Hrep. destruct (dedup_eligible w (t_id tr)).
  - destruct (map_find (d_map d) (t_id tr)); [discriminate|]. injection Hrep as <-. now apply table_inv_insert.
  - now injection Hrep as <-.
Qed.

Lemma hist_run_inv : forall w calls d acc, table_inv (d_map d) acc ->
  forall d' acc', fold_left (hist_step w) calls (d, acc) = (d', acc') -> table_inv (d_map d') acc'.
Proof.
  intros w; induction calls as [|c calls IH]; intros d acc Hinv d' acc' H; cbn [fold_left] in H.
  - now injection H as <- <-.
  - pose proof (hist_step_inv w d acc c Hinv) as Hs. destruct (hist_step w (d, acc) c) as [d1 acc1].
    cbn [fst snd] in Hs. eapply IH; eassumption.
Qed.

Lemma table_inv_new : forall relay tmux, table_inv (d_map (new_det relay tmux)) [].
Proof. intros. cbn. repeat split; cbn; lia. Qed.

(* after ANY sequence of calls on a fresh detector: a trigger whose dedup-eligible id is
   among the 52 most recently accepted eligible ids is never accepted again *)
Lemma replay : forall w relay tmux calls d acc,
  hist_run w (new_det relay tmux) calls = (d, acc) ->
  forall tunnel buf out tr d', detect w d tunnel buf = (out, Some tr, d') ->
  dedup_eligible w (t_id tr) = true -> ~ In (t_id tr) (firstn replay_window acc).
Proof.
  intros w relay tmux calls d acc Hrun tunnel buf out tr d' Hdet Hel Hin.
  assert (Hinv : table_inv (d_map d) acc) by (eapply hist_run_inv; [apply table_inv_new | exact Hrun]).
  destruct (detect_table _ _ _ _ _ _ _ Hdet) as [[Hn _]|(tr' & [= <-] & Hrep)]; [discriminate|].
  unfold is_repeated in Hrep. rewrite Hel in Hrep.
  destruct (map_find (d_map d) (t_id tr)) eqn:E; [discriminate|].
  destruct prune_consts_ok as (_ & _ & Hw). rewrite Hw in Hin.
  now apply (table_inv_remembers _ _ _ Hinv Hin).
Qed.

(* ==================================================================================== *)
(* the trigger language and matcher_spec *)

Definition opt_field (o : option (list N)) : list N :=
  match o with Some d => ch_colon :: d | None => [] end.

(* the text of a trigger: marker, mode, version, optional id, optional port *)
Definition trig_text (mode : N) (a b c : list N) (id port : option (list N)) : list N :=
  marker ++ mode :: ch_colon :: vtext a b c ++ opt_field id ++ opt_field port.

Definition opt_dstr (o : option (list N)) : Prop := match o with Some d => dstr d | None => True end.

(* the language of trzszRegexp, with the submatches it reports *)
Inductive trigger_text : tmatch -> list N -> Prop :=
| TT : forall mode a b c id port, is_mode mode = true -> dstr a -> dstr b -> dstr c ->
    opt_dstr id -> opt_dstr port -> (id = None -> port = None) ->
    trigger_text {| m_mode := mode; m_ver := vtext a b c; m_id := id; m_port := port |}
                 (trig_text mode a b c id port).

(* "no ':' followed by a digit": nothing an optional (:\d+) group could still take *)
Definition ncd (l : list N) : Prop := forall r, l = ch_colon :: r -> ~ hnd r -> False.

(* greedy matching ends where no field could be extended or added *)
Definition greedy_end (m : tmatch) (rest : list N) : Prop :=
  hnd rest /\ (m_port m = None -> ncd rest).

Lemma opt_colon_digits_some : forall d t, dstr d -> hnd t -> opt_colon_digits (ch_colon :: d ++ t) = (Some d, t).
Proof.
  intros d t [H1 H2] Ht. unfold opt_colon_digits. cbn [strip_byte]. rewrite N.eqb_refl.
  now rewrite digits1_intro.
Qed.

Lemma opt_colon_digits_none : forall l, ncd l -> opt_colon_digits l = (None, l).
Proof.
  intros l H. unfold opt_colon_digits. destruct (strip_byte ch_colon l) as [r|] eqn:E; [|reflexivity].
  apply strip_byte_some in E. destruct (digits1 r) as [[d t]|] eqn:E2; [|reflexivity].
  exfalso. apply (H r E). apply digits1_spec in E2 as (-> & Hne & Hd & _).
  destruct d as [|x d]; [congruence|]. cbn [app hnd]. cbn [all_digits forallb] in Hd.
  apply andb_true_iff in Hd as [Hx _]. now rewrite Hx.
Qed.

Lemma opt_colon_digits_spec : forall l g t, opt_colon_digits l = (g, t) ->
  l = opt_field g ++ t /\ opt_dstr g /\ (match g with Some _ => hnd t | None => ncd t end).
Proof.
  intros l g t H. unfold opt_colon_digits in H.
  destruct (strip_byte ch_colon l) as [r|] eqn:E.
  - apply strip_byte_some in E as ->. destruct (digits1 r) as [[d t']|] eqn:E2.
    + injection H as <- <-. apply digits1_spec in E2 as (-> & Hne & Hd & Ht). cbn [opt_field app opt_dstr]. repeat split; assumption.
    + injection H as <- <-. cbn [opt_field app opt_dstr]. repeat split. intros r' [= <-] Hn.
      apply Hn. now apply digits1_none_hnd.
  - injection H as <- <-. cbn [opt_field app opt_dstr]. repeat split. intros r' -> _.
    cbn [strip_byte] in E. now rewrite N.eqb_refl in E.
Qed.

Lemma hnd_opt_field : forall g t, hnd t -> hnd (opt_field g ++ t).
Proof. intros [d|] t H; [reflexivity | exact H]. Qed.

Lemma trzsz_at_intro : forall m txt rest, trigger_text m txt -> greedy_end m rest ->
  trzsz_at (txt ++ rest) = Some (m, rest).
Proof.
  intros m txt rest Ht [Hr Hn]. destruct Ht as [mode a b c id port Hm Ha Hb Hc Hid Hport Hip].
  cbn [m_port] in Hn. unfold trzsz_at, trig_text. rewrite <- app_assoc.
  rewrite (proj2 (strip_prefix_some marker _ _) eq_refl). cbn [app]. rewrite Hm.
  cbn [strip_byte]. rewrite N.eqb_refl.
  replace ((vtext a b c ++ opt_field id ++ opt_field port) ++ rest)
    with (vtext a b c ++ opt_field id ++ opt_field port ++ rest) by now rewrite !app_assoc.
  rewrite match_version_intro; try assumption.
  2:{ apply hnd_opt_field. apply hnd_opt_field. exact Hr. }
  destruct id as [i|]; cbn [opt_field].
  - cbn [opt_dstr] in Hid. cbn [app].
    rewrite opt_colon_digits_some; [|assumption|apply hnd_opt_field; exact Hr].
    destruct port as [p|]; cbn [opt_field].
    + cbn [app]. now rewrite opt_colon_digits_some.
    + cbn [app]. now rewrite opt_colon_digits_none by auto.
  - rewrite (Hip eq_refl) in *. cbn [opt_field app]. now rewrite !opt_colon_digits_none by auto.
Qed.

Lemma trzsz_at_spec : forall l m rest, trzsz_at l = Some (m, rest) ->
  exists txt, trigger_text m txt /\ l = txt ++ rest /\ greedy_end m rest.
Proof.
  intros l m rest H. unfold trzsz_at in H.
  destruct (strip_prefix marker l) as [l1|] eqn:E1; [|discriminate]. apply strip_prefix_some in E1 as ->.
  destruct l1 as [|mode l2]; [discriminate|]. destruct (is_mode mode) eqn:Em; [|discriminate].
  destruct (strip_byte ch_colon l2) as [l3|] eqn:E3; [|discriminate]. apply strip_byte_some in E3 as ->.
  destruct (match_version l3) as [[v l4]|] eqn:E4; [|discriminate].
  apply match_version_spec in E4 as (a & b & c & -> & -> & Ha & Hb & Hc & Hr4).
  destruct (opt_colon_digits l4) as [g3 l5] eqn:E5. destruct (opt_colon_digits l5) as [g4 l6] eqn:E6.
  injection H as <- <-.
  apply opt_colon_digits_spec in E5 as (-> & H3 & H3'). apply opt_colon_digits_spec in E6 as (-> & H4 & H4').
  exists (trig_text mode a b c g3 g4). split; [|split].
  - constructor; try assumption. intros ->. destruct g4 as [p|]; [exfalso|reflexivity].
    cbn [opt_field app opt_dstr] in *. apply (H3' _ eq_refl). destruct H4 as [Hne Hd].
    destruct p as [|x p]; [congruence|]. cbn [app hnd]. cbn [all_digits forallb] in Hd.
    apply andb_true_iff in Hd as [Hx _]. now rewrite Hx.
  - unfold trig_text. rewrite <- !app_assoc. cbn [app]. now rewrite <- !app_assoc.
  - unfold greedy_end. cbn [m_port]. split.
    + destruct g4 as [p|]; [exact H4'|]. destruct g3 as [i|]; [exact H3'|].
      exact Hr4.
    + intros ->. exact H4'.
Qed.

(* the anchored matcher accepts exactly the trigger language, reports its fields, and is
   greedy; FindSubmatch is the leftmost anchored match *)
Lemma matcher_spec : forall l m rest,
  trzsz_at l = Some (m, rest) <-> exists txt, trigger_text m txt /\ l = txt ++ rest /\ greedy_end m rest.
Proof.
  intros l m rest. split; [apply trzsz_at_spec|]. intros (txt & Ht & -> & Hg). now apply trzsz_at_intro.
Qed.

Lemma find_trzsz_head : forall l m r, trzsz_at l = Some (m, r) -> find_trzsz l = Some m.
Proof. intros l m r H. destruct l; cbn [find_trzsz]; now rewrite H. Qed.

Lemma find_trzsz_spec : forall l m, find_trzsz l = Some m <->
  exists i rest, trzsz_at (skipn i l) = Some (m, rest) /\ forall j, (j < i)%nat -> trzsz_at (skipn j l) = None.
Proof.
  intros l m. split.
  - induction l as [|x l IH]; intro H.
    + cbn [find_trzsz] in H. destruct (trzsz_at []) as [[m' r]|] eqn:E; [|discriminate]. injection H as <-.
      exists O, r. split; [exact E | intros j Hj; lia].
    + cbn [find_trzsz] in H. destruct (trzsz_at (x :: l)) as [[m' r]|] eqn:E.
      * injection H as <-. exists O, r. split; [exact E | intros j Hj; lia].
      * destruct (IH H) as (i & r & Hi & Hlt). exists (S i), r. split; [exact Hi|].
        intros [|j] Hj; [exact E | apply Hlt; lia].
  - intros (i & r & Hi & Hlt). revert l Hi Hlt. induction i as [|i IH]; intros l Hi Hlt.
    + eapply find_trzsz_head. exact Hi.
    + destruct l as [|x l]; [rewrite skipn_nil in Hi; pose proof (Hlt O ltac:(lia)) as H0; cbn [skipn] in H0; congruence|].
      cbn [find_trzsz]. pose proof (Hlt O ltac:(lia)) as H0. cbn [skipn] in H0. rewrite H0.
      apply IH; [exact Hi|]. intros j Hj. apply (Hlt (S j)). lia.
Qed.

(* ==================================================================================== *)
(* parseTrzszVersion on a version text *)

Lemma digit_not_dot : forall x, is_digit x = true -> (x =? ch_dot) = false.
Proof.
  intros x H. unfold is_digit in H. apply andb_true_iff in H as [H1 H2]. apply N.leb_le in H1.
  apply N.eqb_neq. unfold ch_dot. lia.
Qed.

Lemma split_on_digits_end : forall c, all_digits c = true -> split_on ch_dot c = [c].
Proof.
  induction c as [|x c IH]; intro H; [reflexivity|]. cbn [all_digits forallb] in H.
  apply andb_true_iff in H as [Hx Hc]. cbn [split_on]. rewrite (digit_not_dot x Hx). now rewrite (IH Hc).
Qed.

Lemma split_on_digits_app : forall a r, all_digits a = true ->
  split_on ch_dot (a ++ ch_dot :: r) = a :: split_on ch_dot r.
Proof.
  induction a as [|x a IH]; intros r H.
  - cbn [app split_on]. now rewrite N.eqb_refl.
  - cbn [all_digits forallb] in H. apply andb_true_iff in H as [Hx Ha]. cbn [app split_on].
    rewrite (digit_not_dot x Hx). now rewrite (IH r Ha).
Qed.

Definition fits (d : list N) : bool := dec_value d <? 2 ^ Consts.det_version_bits.

Lemma parse_uint_dstr : forall d, dstr d -> parse_uint Consts.det_version_bits d = if fits d then Some (dec_value d) else None.
Proof. intros d [Hne Hd]. unfold parse_uint, fits. rewrite Hd. destruct d; [congruence | reflexivity]. Qed.

Lemma parse_version_vtext : forall a b c, dstr a -> dstr b -> dstr c ->
  parse_version (vtext a b c) =
  if fits a && fits b && fits c then Some (dec_value a, dec_value b, dec_value c) else None.
Proof.
  intros a b c Ha Hb Hc. unfold parse_version, vtext. change version_sep with ch_dot.
  rewrite split_on_digits_app by apply Ha. rewrite split_on_digits_app by apply Hb.
  rewrite split_on_digits_end by apply Hc.
  rewrite !parse_uint_dstr by assumption. destruct (fits a), (fits b), (fits c); reflexivity.
Qed.

(* ==================================================================================== *)
(* C06_fires *)

Definition port_value (port : option (list N)) : N :=
  match port with
  | Some p => let v := dec_value p in if v <=? int_max then v else 0
  | None => 0
  end.
Definition id_value (id : option (list N)) : list N := match id with Some i => i | None => [] end.

Lemma last_index_app_pre : forall p pre l i, last_index_of p l = Some i ->
  last_index_of p (pre ++ l) = Some (length pre + i)%nat.
Proof.
  intros p; induction pre as [|x pre IH]; intros l i H; [exact H|]. cbn [app last_index_of length Nat.add].
  now rewrite (IH _ _ H).
Qed.

Lemma skipn_app_exact : forall {A} (a b : list A), skipn (length a) (a ++ b) = b.
Proof. intros A a b. rewrite skipn_app, skipn_all, Nat.sub_diag. reflexivity. Qed.

Lemma fires_core : forall w d tunnel buf pre m txt tail ver,
  let out := if d_relay d && d_tmux d then rewrite_trigger buf else buf in
  (nlen buf <? Consts.det_min_len) = false ->
  last_index_of marker buf <> None ->
  out = pre ++ txt ++ tail ->
  trigger_text m txt -> greedy_end m tail ->
  last_index_of marker (txt ++ tail) = Some O ->
  (find_tmux out = None \/ (tunnel = true /\ m_port m <> None)) ->
  finished (skipn (N.to_nat Consts.det_finished_offset) (txt ++ tail)) = false ->
  parse_version (m_ver m) = Some ver ->
  (dedup_eligible w (id_value (m_id m)) = true -> map_find (d_map d) (id_value (m_id m)) = None) ->
  detect w d tunnel buf =
    (if d_relay d then add_relay_suffix out (length pre)
     else replace_all Consts.det_client_old Consts.det_client_new out,
     Some {| t_mode := m_mode m; t_version := ver; t_id := id_value (m_id m);
             t_win := win_server (id_value (m_id m)); t_port := port_value (m_port m);
             t_prefix := match find_tmux out with Some p => p | None => [] end |},
     set_map d (snd (is_repeated w (d_map d) (id_value (m_id m))))).
Proof.
  intros w d tunnel buf pre m txt tail ver out Hlen Hmk Hout Htxt Hgr Hlast Htm Hfin Hver Hfresh.
  unfold detect. rewrite Hlen. destruct (last_index_of marker buf) as [i0|]; [clear Hmk i0|congruence].
  fold out. clearbody out. subst out.
  rewrite (last_index_app_pre _ pre _ _ Hlast). rewrite Nat.add_0_r, skipn_app_exact.
  rewrite (find_trzsz_head _ _ _ (trzsz_at_intro _ _ _ Htxt Hgr)).
  replace (negb (is_none (find_tmux (pre ++ txt ++ tail))) && (negb tunnel || is_none (m_port m))) with false.
  2:{ destruct Htm as [->|[-> Hp]]; [reflexivity|]. destruct (m_port m); [|congruence]. cbn. now rewrite andb_false_r. }
  rewrite Hfin, andb_false_r, Hver.
  fold (id_value (m_id m)). unfold is_repeated.
  destruct (dedup_eligible w (id_value (m_id m))) eqn:El.
  - rewrite (Hfresh eq_refl). cbn [snd]. unfold port_value. reflexivity.
  - cbn [snd]. unfold port_value. reflexivity.
Qed.

Lemma dstr_length : forall d, dstr d -> (1 <= length d)%nat.
Proof. intros [|x d] [H _]; [congruence | cbn; lia]. Qed.

Lemma trigger_text_length : forall m txt, trigger_text m txt -> (24 <= length txt)%nat.
Proof.
  intros m txt H. destruct H as [mode a b c id port _ Ha Hb Hc _ _ _]. unfold trig_text, vtext.
  apply dstr_length in Ha, Hb, Hc. rewrite app_length. change (length marker) with 17%nat. cbn [length].
  rewrite !app_length. cbn [length]. rewrite !app_length. cbn [length]. lia.
Qed.

Lemma trigger_text_marker : forall m txt, trigger_text m txt -> has_prefix marker txt = true.
Proof. intros m txt H. destruct H. unfold trig_text. apply has_prefix_app. Qed.

(* the statement for the three flag combinations in which the buffer is not re-tagged *)
Lemma fires_plain : forall w d tunnel pre m txt tail ver,
  d_relay d && d_tmux d = false ->
  trigger_text m txt -> greedy_end m tail ->
  last_index_of marker (txt ++ tail) = Some O ->
  (find_tmux (pre ++ txt ++ tail) = None \/ (tunnel = true /\ m_port m <> None)) ->
  finished (skipn (N.to_nat Consts.det_finished_offset) (txt ++ tail)) = false ->
  parse_version (m_ver m) = Some ver ->
  (dedup_eligible w (id_value (m_id m)) = true -> map_find (d_map d) (id_value (m_id m)) = None) ->
  detect w d tunnel (pre ++ txt ++ tail) =
    (if d_relay d then add_relay_suffix (pre ++ txt ++ tail) (length pre)
     else replace_all Consts.det_client_old Consts.det_client_new (pre ++ txt ++ tail),
     Some {| t_mode := m_mode m; t_version := ver; t_id := id_value (m_id m);
             t_win := win_server (id_value (m_id m)); t_port := port_value (m_port m);
             t_prefix := match find_tmux (pre ++ txt ++ tail) with Some p => p | None => [] end |},
     set_map d (snd (is_repeated w (d_map d) (id_value (m_id m))))).
Proof.
  intros w d tunnel pre m txt tail ver Hrt Htxt Hgr Hlast Htm Hfin Hver Hfresh.
  pose proof (fires_core w d tunnel (pre ++ txt ++ tail) pre m txt tail ver) as H. cbv zeta in H.
  rewrite Hrt in H. apply H; try assumption; [|now rewrite (last_index_app_pre _ pre _ _ Hlast)|reflexivity].
  apply N.ltb_ge. rewrite min_len_ok. unfold nlen. rewrite !app_length.
  pose proof (trigger_text_length _ _ Htxt). lia.
Qed.

(* ==================================================================================== *)
(* C06_finished, C06_ctrl_mode, bad versions *)

Lemma finished_nil : finished [] = false. Proof. reflexivity. Qed.

Lemma finished_guard : forall s, finished (skipn (N.to_nat Consts.det_finished_offset) s) = true ->
  (Consts.det_finished_offset <? nlen s) = true.
Proof.
  intros s H. apply N.ltb_lt. unfold nlen. destruct (Nat.le_gt_cases (length s) (N.to_nat Consts.det_finished_offset)) as [Hle|Hgt]; [|lia].
  rewrite skipn_all2 in H by exact Hle. rewrite finished_nil in H. discriminate.
Qed.

(* scroll-back of a finished transfer: a finished-transfer word at offset >= 40 after the
   last marker => no trigger, whatever else the buffer holds *)
Lemma finished_none : forall w d tunnel buf idx,
  let out := if d_relay d && d_tmux d then rewrite_trigger buf else buf in
  last_index_of marker out = Some idx ->
  finished (skipn (N.to_nat Consts.det_finished_offset) (skipn idx out)) = true ->
  detect w d tunnel buf = (out, None, d).
Proof.
  intros w d tunnel buf idx out Hidx Hfin.
  assert (Hn : snd (fst (detect w d tunnel buf)) = None).
  { unfold detect. destruct (nlen buf <? Consts.det_min_len); [reflexivity|].
    destruct (last_index_of marker buf); [|reflexivity]. fold out. rewrite Hidx.
    destruct (find_trzsz (skipn idx out)); [|reflexivity].
    destruct (negb (is_none (find_tmux out)) && _); [reflexivity|].
    now rewrite Hfin, (finished_guard _ Hfin). }
  destruct (detect w d tunnel buf) as [[o t] d'] eqn:E. cbn [fst snd] in Hn. subst t.
  destruct (silent _ _ _ _ _ _ E) as [-> ->]. reflexivity.
Qed.

(* tmux control-mode framing in front of a marker and no tunnel => no trigger *)
Lemma ctrl_mode_none : forall w d buf p,
  let out := if d_relay d && d_tmux d then rewrite_trigger buf else buf in
  find_tmux out = Some p -> detect w d false buf = (out, None, d).
Proof.
  intros w d buf p out Htm.
  assert (Hn : snd (fst (detect w d false buf)) = None).
  { unfold detect. destruct (nlen buf <? Consts.det_min_len); [reflexivity|].
    destruct (last_index_of marker buf); [|reflexivity]. fold out.
    destruct (last_index_of marker out) as [idx|]; [|reflexivity].
    destruct (find_trzsz (skipn idx out)); [|reflexivity]. now rewrite Htm. }
  destruct (detect w d false buf) as [[o t] d'] eqn:E. cbn [fst snd] in Hn. subst t.
  destruct (silent _ _ _ _ _ _ E) as [-> ->]. reflexivity.
Qed.

(* the shape premises shared by the negative results on a complete trigger *)
Lemma shaped_none : forall w d tunnel buf pre m txt tail,
  let out := if d_relay d && d_tmux d then rewrite_trigger buf else buf in
  out = pre ++ txt ++ tail -> trigger_text m txt -> greedy_end m tail ->
  last_index_of marker (txt ++ tail) = Some O ->
  (find_tmux out <> None /\ (tunnel = false \/ m_port m = None)) \/ parse_version (m_ver m) = None \/
  (dedup_eligible w (id_value (m_id m)) = true /\ map_find (d_map d) (id_value (m_id m)) <> None) ->
  detect w d tunnel buf = (out, None, d).
Proof.
  intros w d tunnel buf pre m txt tail out Hout Htxt Hgr Hlast Hwhy.
  assert (Hn : snd (fst (detect w d tunnel buf)) = None).
  { unfold detect. destruct (nlen buf <? Consts.det_min_len); [reflexivity|].
    destruct (last_index_of marker buf); [|reflexivity]. fold out. clearbody out. subst out.
    rewrite (last_index_app_pre _ pre _ _ Hlast). rewrite Nat.add_0_r, skipn_app_exact.
    rewrite (find_trzsz_head _ _ _ (trzsz_at_intro _ _ _ Htxt Hgr)).
    destruct Hwhy as [[Htm Hp]|[Hv|[He Hf]]].
    - destruct (find_tmux (pre ++ txt ++ tail)); [|congruence]. cbn [is_none negb andb].
      destruct Hp as [Hp | Hp]; rewrite Hp; [reflexivity | cbn; now rewrite orb_true_r].
    - destruct (negb _ && _); [reflexivity|]. destruct (_ && _); [reflexivity|]. now rewrite Hv.
    - destruct (negb _ && _); [reflexivity|]. destruct (_ && _); [reflexivity|].
      destruct (parse_version (m_ver m)); [|reflexivity]. fold (id_value (m_id m)). unfold is_repeated. rewrite He.
      destruct (map_find (d_map d) (id_value (m_id m))); [reflexivity | congruence]. }
  destruct (detect w d tunnel buf) as [[o t] d'] eqn:E. cbn [fst snd] in Hn. subst t.
  destruct (silent _ _ _ _ _ _ E) as [-> ->]. reflexivity.
Qed.

(* ==================================================================================== *)
(* addRelaySuffix on a complete trigger, and C06_relay_forward *)

Lemma span_relay_app : forall s tail, forallb relay_scan_char s = true ->
  span_relay (s ++ tail) = (s ++ fst (span_relay tail), snd (span_relay tail)).
Proof.
  induction s as [|x s IH]; intros tail H.
  - cbn [app]. now destruct (span_relay tail).
  - cbn [forallb] in H. apply andb_true_iff in H as [Hx Hs]. cbn [app span_relay]. rewrite Hx.
    rewrite (IH tail Hs). reflexivity.
Qed.

Lemma digits_scan : forall d, all_digits d = true -> forallb relay_scan_char d = true.
Proof.
  induction d as [|x d IH]; intro H; [reflexivity|]. cbn [all_digits forallb] in H |- *.
  apply andb_true_iff in H as [Hx Hd]. rewrite (IH Hd), andb_true_r. rewrite relay_scan_ok, Hx. now rewrite orb_true_r.
Qed.

Lemma opt_field_scan : forall o, opt_dstr o -> forallb relay_scan_char (opt_field o) = true.
Proof. intros [d|] H; [|reflexivity]. cbn [opt_field forallb]. rewrite (digits_scan d (proj2 H)). reflexivity. Qed.

Lemma add_relay_suffix_shape : forall pre m txt tail, trigger_text m txt ->
  add_relay_suffix (pre ++ txt ++ tail) (length pre) =
  pre ++ txt ++ fst (span_relay tail) ++ Consts.det_relay_suffix ++ snd (span_relay tail).
Proof.
  intros pre m txt tail H. pose proof (trigger_text_length _ _ H) as Hlen.
  destruct H as [mode a b c id port _ Ha Hb Hc Hid Hport _].
  set (V := vtext a b c ++ opt_field id ++ opt_field port).
  assert (Htxt : trig_text mode a b c id port = (marker ++ [mode; ch_colon]) ++ V).
  { unfold trig_text, V. now rewrite <- app_assoc. }
  assert (HV : forallb relay_scan_char V = true).
  { unfold V, vtext. repeat (rewrite forallb_app || cbn [forallb]).
    rewrite (digits_scan a (proj2 Ha)), (digits_scan b (proj2 Hb)), (digits_scan c (proj2 Hc)).
    rewrite (opt_field_scan id Hid), (opt_field_scan port Hport). reflexivity. }
  assert (HVne : V <> []).
  { unfold V, vtext. destruct a; [destruct Ha; congruence | discriminate]. }
  destruct V as [|v V']; [congruence|]. clear HVne.
  rewrite Htxt in *. unfold add_relay_suffix. change (N.to_nat Consts.det_relay_offset) with 20%nat.
  destruct (Nat.leb_spec (length (pre ++ ((marker ++ [mode; ch_colon]) ++ v :: V') ++ tail)) (length pre + 20)) as [Hbad|_].
  { rewrite !app_length in Hbad. rewrite !app_length in Hlen. lia. }
  assert (Hcut : pre ++ ((marker ++ [mode; ch_colon]) ++ v :: V') ++ tail
                 = (pre ++ (marker ++ [mode; ch_colon]) ++ [v]) ++ (V' ++ tail)).
  { rewrite <- !app_assoc. cbn [app]. rewrite <- ?app_assoc. reflexivity. }
  assert (Hl : (length pre + 20)%nat = length (pre ++ (marker ++ [mode; ch_colon]) ++ [v])).
  { rewrite !app_length. reflexivity. }
  rewrite Hcut, Hl, skipn_app_exact, firstn_app, firstn_all, Nat.sub_diag. cbn [firstn]. rewrite app_nil_r.
  cbn [forallb] in HV. apply andb_true_iff in HV as [_ HV].
  rewrite (span_relay_app V' tail HV). rewrite <- !app_assoc. reflexivity.
Qed.

Lemma span_relay_spec : forall l, l = fst (span_relay l) ++ snd (span_relay l) /\
  match snd (span_relay l) with x :: _ => relay_scan_char x = false | [] => True end.
Proof.
  induction l as [|x l [IH1 IH2]]; [now split|]. cbn [span_relay]. destruct (relay_scan_char x) eqn:E.
  - destruct (span_relay l) as [a b]. cbn [fst snd] in *. split; [now rewrite IH1 at 1 | exact IH2].
  - cbn [fst snd app]. now split.
Qed.

(* a relay marks the trigger behind its last field; the fields stay greedy-terminated *)
Lemma greedy_end_relay : forall m tail, greedy_end m tail ->
  greedy_end m (fst (span_relay tail) ++ Consts.det_relay_suffix ++ snd (span_relay tail)).
Proof.
  intros m tail [H1 H2]. destruct (span_relay_spec tail) as [Hs _].
  destruct (fst (span_relay tail)) as [|x e] eqn:E.
  - split; [reflexivity|]. intros _ r Hr. discriminate Hr.
  - rewrite Hs in H1, H2. split.
    + exact H1.
    + intros Hp r Hr Hn. cbn [app] in Hr. injection Hr as -> <-. apply (H2 Hp (e ++ snd (span_relay tail)) eq_refl).
      intro Hh. apply Hn. destruct e as [|y e]; [|exact Hh]. cbn [app]. reflexivity.
Qed.

(* C06_relay_forward, proved part: for a complete trigger in a buffer (shape premises as in
   C06_fires), what a relay forwards is pre ++ trigger ++ e ++ "#R" ++ r, and a fresh client
   detector fed with it returns the SAME trigger (ids already re-tagged by the relay),
   provided the forwarded tail still satisfies the three tail premises.  (They do not
   follow from the premises on the original tail: see relay_forward_refuted.) *)
Lemma relay_forward_partial : forall w d tunnel buf pre m txt tail ver w2 tmux2,
  let out := if d_relay d && d_tmux d then rewrite_trigger buf else buf in
  let tail' := fst (span_relay tail) ++ Consts.det_relay_suffix ++ snd (span_relay tail) in
  d_relay d = true ->
  (nlen buf <? Consts.det_min_len) = false -> last_index_of marker buf <> None ->
  out = pre ++ txt ++ tail -> trigger_text m txt -> greedy_end m tail ->
  last_index_of marker (txt ++ tail) = Some O ->
  (find_tmux out = None \/ (tunnel = true /\ m_port m <> None)) ->
  finished (skipn (N.to_nat Consts.det_finished_offset) (txt ++ tail)) = false ->
  parse_version (m_ver m) = Some ver ->
  (dedup_eligible w (id_value (m_id m)) = true -> map_find (d_map d) (id_value (m_id m)) = None) ->
  (* premises on the forwarded bytes *)
  last_index_of marker (txt ++ tail') = Some O ->
  find_tmux (pre ++ txt ++ tail') = find_tmux out ->
  finished (skipn (N.to_nat Consts.det_finished_offset) (txt ++ tail')) = false ->
  exists t d' out2 d2,
    detect w d tunnel buf = (pre ++ txt ++ tail', Some t, d') /\
    contains Consts.det_relay_suffix (pre ++ txt ++ tail') = true /\
    detect w2 (new_det false tmux2) tunnel (pre ++ txt ++ tail') = (out2, Some t, d2).
Proof.
  intros w d tunnel buf pre m txt tail ver w2 tmux2 out tail' Hr Hlen Hmk Hout Htxt Hgr Hlast Htm Hfin Hver Hfresh
         Hlast' Htm' Hfin'.
  pose proof (fires_core w d tunnel buf pre m txt tail ver Hlen Hmk Hout Htxt Hgr Hlast Htm Hfin Hver Hfresh) as H1.
  fold out in H1. rewrite Hr in H1. rewrite Hout in H1 at 1. rewrite (add_relay_suffix_shape pre m txt tail Htxt) in H1.
  fold tail' in H1.
  pose proof (fires_plain w2 (new_det false tmux2) tunnel pre m txt tail' ver eq_refl Htxt (greedy_end_relay _ _ Hgr) Hlast') as H2.
  rewrite Htm' in H2. specialize (H2 Htm Hfin' Hver (fun _ => eq_refl)).
  do 4 eexists. split; [exact H1|]. split; [|exact H2].
  apply contains_true. exists (length (pre ++ txt ++ fst (span_relay tail))).
  unfold tail'. replace (pre ++ txt ++ fst (span_relay tail) ++ Consts.det_relay_suffix ++ snd (span_relay tail))
    with ((pre ++ txt ++ fst (span_relay tail)) ++ Consts.det_relay_suffix ++ snd (span_relay tail))
    by now rewrite <- !app_assoc.
  rewrite skipn_app_exact. apply has_prefix_app.
Qed.

(* ==================================================================================== *)
(* primitive sufficient conditions for the premises of C06_fires:
   "the trigger is the last marker" from "no marker in the tail";
   "no control-mode framing" from "no '%' in the buffer" *)

(* no two adjacent ':' and no ':' at the end *)
Fixpoint qb (l : list N) : bool :=
  match l with
  | [] => true
  | x :: r => match r with
              | [] => negb (x =? ch_colon)
              | y :: _ => negb ((x =? ch_colon) && (y =? ch_colon)) && qb r
              end
  end.

Definition colon2 (l : list N) : bool :=
  match l with x :: y :: _ => (x =? ch_colon) && (y =? ch_colon) | _ => false end.

Lemma qb_no_colon2 : forall X, qb X = true -> forall j t, (j < length X)%nat -> colon2 (skipn j (X ++ t)) = false.
Proof.
  induction X as [|x X IH]; intros H j t Hj; [cbn in Hj; lia|].
  destruct X as [|y X].
  - destruct j; [|cbn in Hj; lia]. cbn [skipn app colon2]. cbn [qb] in H. apply negb_true_iff in H.
    destruct t; [reflexivity|]. now rewrite H.
  - cbn [qb] in H. apply andb_true_iff in H as [H1 H2]. destruct j as [|j].
    + cbn [skipn app colon2]. now apply negb_true_iff in H1.
    + cbn [skipn app]. apply (IH H2). cbn [length] in Hj |- *. lia.
Qed.

Lemma qb_app : forall X Y, qb X = true -> qb Y = true -> qb (X ++ Y) = true.
Proof.
  induction X as [|x X IH]; intros Y HX HY; [exact HY|].
  destruct X as [|y X].
  - cbn [app]. cbn [qb] in HX. apply negb_true_iff in HX. destruct Y as [|y Y]; [cbn [qb]; now rewrite HX|].
    change (qb (x :: y :: Y)) with (negb ((x =? ch_colon) && (y =? ch_colon)) && qb (y :: Y)). now rewrite HX, HY.
  - cbn [qb] in HX. apply andb_true_iff in HX as [H1 H2].
    change (qb ((x :: y :: X) ++ Y)) with (negb ((x =? ch_colon) && (y =? ch_colon)) && qb ((y :: X) ++ Y)).
    rewrite H1. now rewrite (IH Y H2 HY).
Qed.

Lemma digit_not_colon : forall x, is_digit x = true -> (x =? ch_colon) = false.
Proof.
  intros x H. unfold is_digit in H. apply andb_true_iff in H as [H1 H2]. apply N.leb_le in H2.
  apply N.eqb_neq. unfold ch_colon. lia.
Qed.

Lemma qb_digits : forall d, all_digits d = true -> qb d = true.
Proof.
  induction d as [|x d IH]; intro H; [reflexivity|]. cbn [all_digits forallb] in H.
  apply andb_true_iff in H as [Hx Hd]. pose proof (digit_not_colon x Hx) as Hc. destruct d as [|y d].
  - cbn [qb]. now rewrite Hc.
  - change (qb (x :: y :: d)) with (negb ((x =? ch_colon) && (y =? ch_colon)) && qb (y :: d)). rewrite Hc. now rewrite (IH Hd).
Qed.

Lemma qb_colon_digits : forall d, dstr d -> qb (ch_colon :: d) = true.
Proof.
  intros [|y d] [Hne Hd]; [congruence|].
  change (qb (ch_colon :: y :: d)) with (negb ((ch_colon =? ch_colon) && (y =? ch_colon)) && qb (y :: d)).
  cbn [all_digits forallb] in Hd. pose proof Hd as Hd'. apply andb_true_iff in Hd as [Hy _].
  rewrite (digit_not_colon y Hy), andb_false_r. now rewrite (qb_digits (y :: d) Hd').
Qed.

Lemma qb_opt_field : forall o, opt_dstr o -> qb (opt_field o) = true.
Proof. intros [d|] H; [now apply qb_colon_digits | reflexivity]. Qed.

Lemma mode_not_colon : forall m, is_mode m = true -> (m =? ch_colon) = false.
Proof.
  intros m H. unfold is_mode in H. apply N.eqb_neq. intros ->. discriminate H.
Qed.

(* everything of a trigger text behind its first byte *)
Definition marker_mid : list N := [58; 84; 82; 90; 83; 90; 58; 84; 82; 65; 78; 83; 70; 69; 82].
Lemma marker_mid_ok : marker = ch_colon :: marker_mid ++ [ch_colon]. Proof. reflexivity. Qed.

Lemma trigger_text_qb : forall m txt, trigger_text m txt -> exists X, txt = ch_colon :: X /\ qb X = true.
Proof.
  intros m txt H. destruct H as [mode a b c id port Hm Ha Hb Hc Hid Hport _].
  exists ((marker_mid ++ [ch_colon; mode]) ++ (ch_colon :: a) ++ ([ch_dot] ++ b) ++ ([ch_dot] ++ c) ++ opt_field id ++ opt_field port).
  split.
  - unfold trig_text, vtext. rewrite marker_mid_ok. repeat (rewrite <- app_assoc || cbn [app]). reflexivity.
  - repeat apply qb_app.
    + reflexivity.
    + change (qb [ch_colon; mode]) with (negb ((ch_colon =? ch_colon) && (mode =? ch_colon)) && negb (mode =? ch_colon)).
      now rewrite (mode_not_colon mode Hm).
    + now apply qb_colon_digits.
    + reflexivity.
    + apply qb_digits. apply Hb.
    + reflexivity.
    + apply qb_digits. apply Hc.
    + now apply qb_opt_field.
    + now apply qb_opt_field.
Qed.

Lemma marker_colon2 : forall l, has_prefix marker l = true -> colon2 l = true.
Proof. intros l H. apply has_prefix_true in H as [r ->]. reflexivity. Qed.

Lemma last_marker_clean : forall m txt tail, trigger_text m txt -> contains marker tail = false ->
  last_index_of marker (txt ++ tail) = Some O.
Proof.
  intros m txt tail Ht Hc. apply last_index_intro; [discriminate | |].
  - cbn [skipn]. apply has_prefix_true. apply trigger_text_marker in Ht. apply has_prefix_true in Ht as [r ->].
    exists (r ++ tail). now rewrite app_assoc.
  - intros j Hj. destruct (has_prefix marker (skipn j (txt ++ tail))) eqn:E; [exfalso|reflexivity].
    destruct (trigger_text_qb _ _ Ht) as (X & -> & HX). destruct j as [|j]; [lia|]. cbn [app skipn] in E.
    destruct (Nat.lt_ge_cases j (length X)) as [Hlt|Hge].
    + apply marker_colon2 in E. now rewrite (qb_no_colon2 X HX j tail Hlt) in E.
    + rewrite skipn_app, (skipn_all2 X) in E by exact Hge. cbn [app] in E.
      now rewrite (proj1 (contains_false marker tail) Hc) in E.
Qed.

(* inserting "#R" (or anything starting with a byte the marker lacks, followed by bytes
   that are not ':') creates no marker *)
Lemma has_prefix_before : forall p X c Y, ~ In c p -> has_prefix p (X ++ c :: Y) = true -> has_prefix p X = true.
Proof.
  induction p as [|a p IH]; intros X c Y Hn H; [reflexivity|].
  destruct X as [|x X].
  - cbn [app has_prefix] in H. apply andb_true_iff in H as [H _]. apply N.eqb_eq in H. subst. exfalso. apply Hn. now left.
  - cbn [app has_prefix] in H |- *. apply andb_true_iff in H as [H1 H2]. rewrite H1. cbn [andb].
    apply (IH X c Y); [|exact H2]. intro Hi. apply Hn. now right.
Qed.

Lemma has_prefix_extend : forall p X Z, has_prefix p X = true -> has_prefix p (X ++ Z) = true.
Proof. intros p X Z H. apply has_prefix_true in H as [r ->]. rewrite <- app_assoc. apply has_prefix_app. Qed.

Lemma relay_suffix_is : Consts.det_relay_suffix = [35; 82] /\ ~ In 35 marker.
Proof. split; [reflexivity|]. cbn. intuition discriminate. Qed.

Lemma marker_insert : forall A B, contains marker (A ++ B) = false ->
  contains marker (A ++ Consts.det_relay_suffix ++ B) = false.
Proof.
  intros A B H. apply contains_false. intro j. destruct relay_suffix_is as [-> Hn]. cbn [app].
  destruct (has_prefix marker (skipn j (A ++ 35 :: 82 :: B))) eqn:E; [exfalso|reflexivity].
  pose proof (proj1 (contains_false _ _) H) as Hno.
  destruct (Nat.le_gt_cases j (length A)) as [Hle|Hgt].
  - rewrite skipn_app in E. replace (j - length A)%nat with O in E by lia. cbn [skipn] in E.
    apply has_prefix_before in E; [|exact Hn]. specialize (Hno j). rewrite skipn_app in Hno.
    now rewrite (has_prefix_extend _ _ _ E) in Hno.
  - rewrite skipn_app, (skipn_all2 A) in E by lia. cbn [app] in E.
    remember (j - length A)%nat as k eqn:Hk. destruct k as [|[|k]]; [lia | discriminate E |].
    cbn [skipn] in E. specialize (Hno (length A + k)%nat). rewrite skipn_app, (skipn_all2 A) in Hno by lia.
    cbn [app] in Hno. replace (length A + k - length A)%nat with k in Hno by lia. congruence.
Qed.

(* control-mode framing needs a '%' *)
Lemma tmux_prefix_at_percent : forall l x, tmux_prefix_at l = Some x -> exists r, l = 37 :: r.
Proof.
  intros l x H. unfold tmux_prefix_at in H. destruct (strip_prefix lit_output l) as [l1|] eqn:E1.
  - apply strip_prefix_some in E1 as ->. eexists. reflexivity.
  - destruct (strip_prefix lit_ext_output l) as [l1|] eqn:E2; [|discriminate].
    apply strip_prefix_some in E2 as ->. eexists. reflexivity.
Qed.

Lemma find_tmux_no_percent : forall l, ~ In 37 l -> find_tmux l = None.
Proof.
  induction l as [|x l IH]; intro Hn.
  - reflexivity.
  - cbn [find_tmux]. unfold tmux_at at 1. destruct (tmux_prefix_at (x :: l)) as [[p rest]|] eqn:E.
    + apply tmux_prefix_at_percent in E as [r [= -> ->]]. exfalso. apply Hn. now left.
    + apply IH. intro Hi. apply Hn. now right.
Qed.

(* C06_fires with primitive premises, for the three flag combinations without re-tagging:
   arbitrary prefix, no marker behind the trigger, no '%' in the read *)
Lemma fires_clean : forall w d tunnel pre m txt tail ver,
  d_relay d && d_tmux d = false ->
  trigger_text m txt -> greedy_end m tail ->
  contains marker tail = false ->
  ~ In 37 (pre ++ txt ++ tail) ->
  finished (skipn (N.to_nat Consts.det_finished_offset) (txt ++ tail)) = false ->
  parse_version (m_ver m) = Some ver ->
  (dedup_eligible w (id_value (m_id m)) = true -> map_find (d_map d) (id_value (m_id m)) = None) ->
  detect w d tunnel (pre ++ txt ++ tail) =
    (if d_relay d then pre ++ txt ++ fst (span_relay tail) ++ Consts.det_relay_suffix ++ snd (span_relay tail)
     else replace_all Consts.det_client_old Consts.det_client_new (pre ++ txt ++ tail),
     Some {| t_mode := m_mode m; t_version := ver; t_id := id_value (m_id m);
             t_win := win_server (id_value (m_id m)); t_port := port_value (m_port m); t_prefix := [] |},
     set_map d (snd (is_repeated w (d_map d) (id_value (m_id m))))).
Proof.
  intros w d tunnel pre m txt tail ver Hrt Htxt Hgr Hc Hp Hfin Hver Hfresh.
  rewrite (fires_plain w d tunnel pre m txt tail ver Hrt Htxt Hgr (last_marker_clean _ _ _ Htxt Hc)
             (or_introl (find_tmux_no_percent _ Hp)) Hfin Hver Hfresh).
  rewrite (find_tmux_no_percent _ Hp). now rewrite (add_relay_suffix_shape pre m txt tail Htxt).
Qed.

(* C06_relay_forward with primitive premises (plain relay mode): only the look-ahead
   premise on the forwarded tail remains, and it cannot be dropped (relay_forward_refuted) *)
Lemma relay_forward_clean : forall w d tunnel pre m txt tail ver w2 tmux2,
  let tail' := fst (span_relay tail) ++ Consts.det_relay_suffix ++ snd (span_relay tail) in
  d_relay d = true -> d_tmux d = false ->
  trigger_text m txt -> greedy_end m tail ->
  contains marker tail = false ->
  ~ In 37 (pre ++ txt ++ tail) ->
  finished (skipn (N.to_nat Consts.det_finished_offset) (txt ++ tail)) = false ->
  finished (skipn (N.to_nat Consts.det_finished_offset) (txt ++ tail')) = false ->
  parse_version (m_ver m) = Some ver ->
  (dedup_eligible w (id_value (m_id m)) = true -> map_find (d_map d) (id_value (m_id m)) = None) ->
  exists t d' out2 d2,
    detect w d tunnel (pre ++ txt ++ tail) = (pre ++ txt ++ tail', Some t, d') /\
    contains Consts.det_relay_suffix (pre ++ txt ++ tail') = true /\
    detect w2 (new_det false tmux2) tunnel (pre ++ txt ++ tail') = (out2, Some t, d2).
Proof.
  intros w d tunnel pre m txt tail ver w2 tmux2 tail' Hr Ht Htxt Hgr Hc Hp Hfin Hfin' Hver Hfresh.
  assert (Hrt : d_relay d && d_tmux d = false) by now rewrite Ht, andb_false_r.
  destruct (span_relay_spec tail) as [Hs _].
  assert (Hc' : contains marker tail' = false) by (unfold tail'; apply marker_insert; now rewrite <- Hs).
  assert (Hp' : ~ In 37 (pre ++ txt ++ tail')).
  { intro Hi. apply Hp. rewrite Hs. unfold tail' in Hi. rewrite !in_app_iff in Hi |- *.
    destruct relay_suffix_is as [Hrs _]. rewrite Hrs in Hi.
    cbn [In] in Hi. repeat (destruct Hi as [Hi|Hi]); auto; try discriminate Hi; contradiction. }
  pose proof (relay_forward_partial w d tunnel (pre ++ txt ++ tail) pre m txt tail ver w2 tmux2) as H.
  cbv zeta in H. rewrite Hrt in H. fold tail' in H.
  apply H; try assumption; try reflexivity.
  - apply N.ltb_ge. rewrite min_len_ok. unfold nlen. rewrite !app_length. pose proof (trigger_text_length _ _ Htxt). lia.
  - now rewrite (last_index_app_pre _ pre _ _ (last_marker_clean _ _ _ Htxt Hc)).
  - now apply (last_marker_clean m).
  - left. now apply find_tmux_no_percent.
  - now apply (last_marker_clean m).
  - now rewrite !find_tmux_no_percent.
Qed.

(* ==================================================================================== *)
(* the look-ahead is on the text AFTER the last marker (pinned shape of the Go statement),
   so finished-transfer words in the output BEFORE a trigger do not matter *)

Lemma finished_shape_ok :
  Consts.det_finished_shape =
  bs "if len(subOutput) > 40 { for _, s := range WORDS { if bytes.Contains(subOutput[40:], []byte(s)) { return output, nil } } }".
Proof. reflexivity. Qed.

Lemma not_in_by_forallb : forall c l, forallb (fun x => negb (x =? c)) l = true -> ~ In c l.
Proof.
  intros c l H Hin. rewrite forallb_forall in H. specialize (H c Hin). now rewrite N.eqb_refl in H.
Qed.

(* `ls` showing "Saved Games" (the word at offset >= 40 of the read), then trz: the premises
   of fires_clean hold, so the theorem applies and the transfer starts *)
Lemma fires_after_finished_word_example :
  let pre := bs "drwxr-xr-x  2 user user 4096 Jan  1 00:00 Saved Games" ++ [CR; LF] ++ bs "$ trz" ++ [CR; LF; 27; 55; 7] in
  let id := [48; 49; 50; 51; 52; 53; 54; 55; 56; 57; 49; 50; 48] in
  let m := {| m_mode := 82; m_ver := vtext [49] [49] [54]; m_id := Some id; m_port := Some [48] |} in
  let txt := trig_text 82 [49] [49] [54] (Some id) (Some [48]) in
  finished (skipn (N.to_nat Consts.det_finished_offset) pre) = true /\
  forall relay, detect false (new_det relay false) false (pre ++ txt ++ [CR; LF]) =
    (if relay then pre ++ txt ++ Consts.det_relay_suffix ++ [CR; LF]
     else replace_all Consts.det_client_old Consts.det_client_new (pre ++ txt ++ [CR; LF]),
     Some {| t_mode := 82; t_version := (1, 1, 6); t_id := id; t_win := false; t_port := 0; t_prefix := [] |},
     set_map (new_det relay false) [(id, 0)]).
Proof.
  intros pre id m txt. split; [vm_compute; reflexivity|]. intro relay.
  rewrite (fires_clean false (new_det relay false) false pre m txt [CR; LF] (1, 1, 6)).
  - destruct relay; reflexivity.
  - cbn. now rewrite andb_false_r.
  - apply TT; [reflexivity | | | | | | intro H; discriminate H]; (split; [discriminate | reflexivity]).
  - split; [reflexivity|]. intros _ r Hr. discriminate Hr.
  - reflexivity.
  - apply not_in_by_forallb. vm_compute. reflexivity.
  - vm_compute. reflexivity.
  - vm_compute. reflexivity.
  - intros _. reflexivity.
Qed.
