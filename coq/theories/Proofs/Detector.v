(* Lemmas about the model of the trigger detector. *)
From Coq Require Import String Ascii.
From Trzsz Require Import Base.Bytes Gen.Consts Model.Detector.
Local Open Scope N_scope.

(* readable byte strings for the pin lemmas *)
Fixpoint bs (s : string) : list N :=
  match s with
  | EmptyString => []
  | String a r => N_of_ascii a :: bs r
  end.

(* ---- the source strings whose MEANING the model hard-codes ---- *)
Lemma trzsz_regex_src_ok :
  Consts.det_trzsz_regex_src = marker ++ bs "([SRD]):(\d+\.\d+\.\d+)(:\d+)?(:\d+)?".
Proof. reflexivity. Qed.
Lemma uid_regex_src_ok :
  Consts.det_uid_regex_src = marker ++ bs "[SRD]:\d+\.\d+\.\d+:(\d{13}\d*)".
Proof. reflexivity. Qed.
Lemma tmux_regex_src_ok :
  Consts.det_tmux_regex_src = bs "((%output %\d+ )|(%extended-output %\d+ \d+ : )).*" ++ marker.
Proof. reflexivity. Qed.
Lemma matcher_literals_ok :
  lit_output = bs "%output %" /\ lit_ext_output = bs "%extended-output %" /\ lit_ext_tail = bs " : " /\
  ch_colon = 58 /\ ch_dot = 46 /\ ch_space = 32 /\ uid_regex_min = 13%nat /\
  (forall b, is_mode b = existsb (N.eqb b) (bs "SRD")).
Proof. repeat split. intro b. unfold is_mode. cbn. now rewrite orb_false_r, orb_assoc. Qed.
Lemma trz_format_ok :
  Consts.det_trz_format = [27; 55; 7] ++ marker ++ bs "%s:%s:%013d:%d" ++ [CR; LF] /\
  Consts.det_tsz_format = [27; 55; 7] ++ marker ++ bs "S:%s:%013d:%d" ++ [CR; LF].
Proof. split; reflexivity. Qed.
Lemma version_sep_ok : Consts.det_version_sep = [ch_dot] /\ Consts.det_version_base = 10 /\ Consts.det_version_fields = 3.
Proof. repeat split. Qed.
Lemma relay_scan_ok : forall c, relay_scan_char c = (c =? ch_colon) || (c =? ch_dot) || is_digit c.
Proof. intro c. unfold relay_scan_char, is_digit. cbn. now rewrite orb_false_r. Qed.

(* ==================================================================================== *)
(* byte-string library *)

Lemma has_prefix_app : forall p l, has_prefix p (p ++ l) = true.
Proof. induction p as [|x p IH]; intro l; cbn [has_prefix app]; [reflexivity|]. now rewrite N.eqb_refl, IH. Qed.

Lemma has_prefix_true : forall p l, has_prefix p l = true <-> exists r, l = p ++ r.
Proof.
  induction p as [|x p IH]; intro l; cbn [has_prefix].
  - split; [intros _; now exists l | reflexivity].
  - destruct l as [|y l]; [split; [discriminate | intros [r Hr]; discriminate]|].
    rewrite andb_true_iff, N.eqb_eq, IH. split.
    + intros [-> [r ->]]. now exists r.
    + intros [r Hr]. cbn [app] in Hr. injection Hr as -> ->. split; [reflexivity | now exists r].
Qed.

Lemma has_prefix_nil_r : forall p, p <> [] -> has_prefix p [] = false.
Proof. destruct p; [congruence | reflexivity]. Qed.

Lemma strip_prefix_some : forall p l r, strip_prefix p l = Some r <-> l = p ++ r.
Proof.
  induction p as [|x p IH]; intros l r; cbn [strip_prefix app].
  - split; [now intros [= ->] | now intros ->].
  - destruct l as [|y l]; [split; discriminate|].
    destruct (N.eqb_spec x y) as [->|Hne].
    + rewrite IH. split; [now intros -> | now intros [= ->]].
    + split; [discriminate | intros [= -> _]; congruence].
Qed.

Lemma strip_prefix_has : forall p l r, strip_prefix p l = Some r -> has_prefix p l = true.
Proof. intros p l r H. apply strip_prefix_some in H as ->. apply has_prefix_app. Qed.

Lemma strip_prefix_none : forall p l, strip_prefix p l = None -> has_prefix p l = false.
Proof.
  intros p l H. destruct (has_prefix p l) eqn:E; [|reflexivity].
  apply has_prefix_true in E as [r ->]. now rewrite (proj2 (strip_prefix_some p (p ++ r) r) eq_refl) in H.
Qed.

Lemma strip_byte_some : forall b l r, strip_byte b l = Some r <-> l = b :: r.
Proof.
  intros b [|x l] r; cbn [strip_byte]; [split; discriminate|].
  destruct (N.eqb_spec x b) as [->|Hne]; split; try discriminate.
  - now intros [= ->]. - now intros [= ->]. - intros [= -> _]. congruence.
Qed.

Lemma skipn_skipn_add : forall {A} i j (l : list A), skipn i (skipn j l) = skipn (j + i) l.
Proof. intros A i j; revert i; induction j as [|j IH]; intros i l; [reflexivity|]. destruct l; [now rewrite !skipn_nil | cbn [skipn plus]; apply IH]. Qed.

(* "p occurs in l at offset i" *)
Definition occ (p l : list N) (i : nat) : Prop := has_prefix p (skipn i l) = true.

Lemma last_index_none : forall p l, last_index_of p l = None -> forall i, has_prefix p (skipn i l) = false.
Proof.
  intros p; induction l as [|x l IH]; cbn [last_index_of]; intros H i.
  - rewrite skipn_nil. now destruct (has_prefix p []).
  - destruct (last_index_of p l) eqn:E; [discriminate|].
    destruct i as [|i]; cbn [skipn]; [now destruct (has_prefix p (x :: l)) | now apply IH].
Qed.

Lemma last_index_some : forall p l i, p <> [] -> last_index_of p l = Some i ->
  has_prefix p (skipn i l) = true /\ (i <= length l)%nat /\
  forall j, (i < j)%nat -> has_prefix p (skipn j l) = false.
Proof.
  intros p l i Hp; revert i; induction l as [|x l IH]; cbn [last_index_of]; intros i H.
  - rewrite (has_prefix_nil_r p Hp) in H. discriminate.
  - destruct (last_index_of p l) as [k|] eqn:E.
    + injection H as <-. destruct (IH k eq_refl) as (H1 & H2 & H3). cbn [skipn length].
      repeat split; [assumption | lia |]. intros [|j] Hj; [lia|]. cbn [skipn]. apply H3. lia.
    + destruct (has_prefix p (x :: l)) eqn:E2; [|discriminate]. injection H as <-. cbn [skipn length].
      repeat split; [assumption | lia |]. intros [|j] Hj; [lia|]. cbn [skipn]. now apply last_index_none.
Qed.

Lemma last_index_intro : forall p l i, p <> [] -> has_prefix p (skipn i l) = true ->
  (forall j, (i < j)%nat -> has_prefix p (skipn j l) = false) -> last_index_of p l = Some i.
Proof.
  intros p l i Hp Hi Hlast. destruct (last_index_of p l) as [k|] eqn:E.
  - destruct (last_index_some _ _ _ Hp E) as (H1 & _ & H3).
    destruct (Nat.lt_trichotomy i k) as [Hlt|[->|Hgt]]; [|reflexivity|].
    + rewrite (Hlast k Hlt) in H1. discriminate.
    + rewrite (H3 i Hgt) in Hi. discriminate.
  - rewrite (last_index_none _ _ E i) in Hi. discriminate.
Qed.

Lemma index_of_none : forall p l, index_of p l = None -> forall i, has_prefix p (skipn i l) = false.
Proof.
  intros p; induction l as [|x l IH]; intros H i.
  - cbn [index_of] in H. rewrite skipn_nil. now destruct (has_prefix p []).
  - cbn [index_of] in H. destruct (has_prefix p (x :: l)) eqn:E; [discriminate|].
    destruct (index_of p l) eqn:E2; [discriminate|].
    destruct i; cbn [skipn]; [assumption | now apply IH].
Qed.

Lemma index_of_some : forall p l i, index_of p l = Some i -> has_prefix p (skipn i l) = true.
Proof.
  intros p; induction l as [|x l IH]; intros i H; cbn [index_of] in H.
  - destruct (has_prefix p []) eqn:E; [|discriminate]. now injection H as <-.
  - destruct (has_prefix p (x :: l)) eqn:E; [now injection H as <-|].
    destruct (index_of p l) eqn:E2; [|discriminate]. injection H as <-. cbn [skipn]. now apply IH.
Qed.

Lemma contains_false : forall p l, contains p l = false <-> forall i, has_prefix p (skipn i l) = false.
Proof.
  intros p l. unfold contains. split.
  - destruct (index_of p l) eqn:E; [discriminate|]. intros _. now apply index_of_none.
  - intros H. destruct (index_of p l) eqn:E; [|reflexivity]. apply index_of_some in E. now rewrite H in E.
Qed.

Lemma contains_true : forall p l, contains p l = true <-> exists i, has_prefix p (skipn i l) = true.
Proof.
  intros p l. split.
  - unfold contains. destruct (index_of p l) eqn:E; [|discriminate]. intros _. eexists. eapply index_of_some; eassumption.
  - intros [i Hi]. destruct (contains p l) eqn:E; [reflexivity|]. rewrite (proj1 (contains_false p l) E i) in Hi. discriminate.
Qed.

Lemma contains_skipn : forall p l k, contains p (skipn k l) = true -> contains p l = true.
Proof. intros p l k H. apply contains_true in H as [i Hi]. rewrite skipn_skipn_add in Hi. apply contains_true. eauto. Qed.

(* ==================================================================================== *)
(* bytes.ReplaceAll *)

Lemma replace_from_skip : forall old new l k, replace_from old new k l = replace_from old new O (skipn k l).
Proof.
  intros old new; induction l as [|x l IH]; intros k.
  - now rewrite skipn_nil.
  - destruct k as [|k]; [reflexivity|]. cbn [replace_from skipn]. apply IH.
Qed.

Lemma replace_all_cons : forall old new x l,
  replace_all old new (x :: l) =
  if has_prefix old (x :: l) then new ++ replace_all old new (skipn (pred (length old)) l)
  else x :: replace_all old new l.
Proof.
  intros old new x l. unfold replace_all. cbn [replace_from].
  destruct (has_prefix old (x :: l)); [|reflexivity]. now rewrite replace_from_skip.
Qed.

Lemma replace_all_nil : forall old new, replace_all old new [] = [].
Proof. reflexivity. Qed.

(* ---- the client-mode rewrite leaves no marker behind ---- *)
Section Inert.
  (* concrete values; client_consts_ok below ties them to Gen.Consts *)
  Let old : list N := [84; 82; 90; 83; 90].           (* TRZSZ *)
  Let new : list N := [84; 82; 90; 83; 90; 71; 79].   (* TRZSZGO *)
  Let key : list N := [84; 82; 90; 83; 90; 58].       (* TRZSZ: *)

  Lemma inert_head_sync : forall w, ~ In 84 w -> forall l,
    has_prefix w (replace_all old new l) = true -> has_prefix w l = true.
  Proof.
    induction w as [|c w IH]; intros Hw l H; [reflexivity|].
    destruct l as [|x l]; [discriminate H|]. rewrite replace_all_cons in H.
    destruct (has_prefix old (x :: l)) eqn:E.
    - cbn [new app has_prefix] in H. apply andb_true_iff in H as [H _]. apply N.eqb_eq in H. subst c.
      exfalso. apply Hw. now left.
    - cbn [has_prefix] in H |- *. apply andb_true_iff in H as [H1 H2]. rewrite H1. cbn [andb].
      apply IH; [|assumption]. intro Hin. apply Hw. now right.
  Qed.

  Lemma inert_head : forall l, has_prefix key (replace_all old new l) = false.
  Proof.
    intros [|x l]; [reflexivity|]. rewrite replace_all_cons. destruct (has_prefix old (x :: l)) eqn:E; [reflexivity|].
    destruct (has_prefix key (x :: replace_all old new l)) eqn:K; [|reflexivity].
    cbn [key has_prefix] in K. apply andb_true_iff in K as [K1 K2]. apply N.eqb_eq in K1. subst x.
    assert (Hs : has_prefix [82; 90; 83; 90; 58] l = true).
    { apply inert_head_sync; [|exact K2]. cbn. intros [H|[H|[H|[H|[H|[]]]]]]; discriminate. }
    apply has_prefix_true in Hs as [r ->]. discriminate E.
  Qed.

  Lemma inert_everywhere : forall n l i, (length l <= n)%nat ->
    has_prefix key (skipn i (replace_all old new l)) = false.
  Proof.
    induction n as [|n IH]; intros l i Hl.
    - destruct l; [now rewrite replace_all_nil, skipn_nil | cbn in Hl; lia].
    - destruct i as [|i]; [apply inert_head|].
      destruct l as [|x l]; [now rewrite replace_all_nil, skipn_nil|]. rewrite replace_all_cons.
      destruct (has_prefix old (x :: l)) eqn:E.
      + assert (Hr : (length (skipn (pred (length old)) l) <= n)%nat)
          by (rewrite skipn_length; cbn [length] in Hl; lia).
        set (rest := skipn (pred (length old)) l) in *. clearbody rest.
        cbn [new app]. do 6 (destruct i as [|i]; [reflexivity|]). cbn [skipn]. now apply IH.
      + cbn [skipn]. apply IH. cbn [length] in Hl. lia.
  Qed.

  Lemma client_consts_ok : Consts.det_client_old = old /\ Consts.det_client_new = new /\
    marker = [58; 58] ++ key ++ skipn 8 marker.
  Proof. repeat split. Qed.

  Lemma client_rewrite_no_marker : forall l,
    last_index_of marker (replace_all Consts.det_client_old Consts.det_client_new l) = None.
  Proof.
    intros l. destruct (last_index_of marker _) as [i|] eqn:E; [|reflexivity]. exfalso.
    apply last_index_some in E as (H & _); [|discriminate].
    destruct client_consts_ok as (Ho & Hn & Hm). rewrite Ho, Hn, Hm in H.
    apply has_prefix_true in H as [r Hr].
    pose proof (inert_everywhere (length l) l (i + 2) (Nat.le_refl _)) as Hk.
    rewrite <- skipn_skipn_add, Hr in Hk. cbn [app skipn] in Hk.
    rewrite <- app_assoc, has_prefix_app in Hk. discriminate.
  Qed.
End Inert.

(* ==================================================================================== *)
(* the matchers *)

(* "does not start with a digit" *)
Definition hnd (t : list N) : Prop := match t with x :: _ => is_digit x = false | [] => True end.

Lemma span_digits_spec : forall l d t, span_digits l = (d, t) ->
  l = d ++ t /\ all_digits d = true /\ hnd t.
Proof.
  induction l as [|x l IH]; intros d t H; cbn [span_digits] in H.
  - injection H as <- <-. repeat split.
  - destruct (is_digit x) eqn:E.
    + destruct (span_digits l) as [d' t'] eqn:E2. injection H as <- <-.
      destruct (IH _ _ eq_refl) as (-> & Hd & Ht). cbn [app all_digits forallb]. rewrite E. repeat split; assumption.
    + injection H as <- <-. repeat split. exact E.
Qed.

Lemma span_digits_intro : forall d t, all_digits d = true -> hnd t -> span_digits (d ++ t) = (d, t).
Proof.
  induction d as [|x d IH]; intros t Hd Ht.
  - destruct t as [|y t]; [reflexivity|]. cbn [app span_digits]. cbn [hnd] in Ht. now rewrite Ht.
  - cbn [all_digits forallb] in Hd. apply andb_true_iff in Hd as [Hx Hd]. cbn [app span_digits]. rewrite Hx.
    unfold all_digits in IH. now rewrite IH.
Qed.

Lemma digits1_spec : forall l d t, digits1 l = Some (d, t) ->
  l = d ++ t /\ d <> [] /\ all_digits d = true /\ hnd t.
Proof.
  intros l d t H. unfold digits1 in H. destruct (span_digits l) as [d' t'] eqn:E.
  destruct d' as [|x d']; [discriminate|]. injection H as <- <-.
  destruct (span_digits_spec _ _ _ E) as (H1 & H2 & H3). repeat split; try assumption. discriminate.
Qed.

Lemma digits1_intro : forall d t, d <> [] -> all_digits d = true -> hnd t -> digits1 (d ++ t) = Some (d, t).
Proof. intros d t Hne Hd Ht. unfold digits1. rewrite span_digits_intro by assumption. destruct d; congruence. Qed.

Lemma digits1_none_hnd : forall l, digits1 l = None -> hnd l.
Proof.
  intros [|x l] H; [exact I|]. unfold digits1 in H. cbn [span_digits] in H. cbn [hnd].
  destruct (is_digit x); [|reflexivity]. destruct (span_digits l); discriminate.
Qed.

(* a version text: three non-empty digit strings *)
Definition vtext (a b c : list N) : list N := a ++ ch_dot :: b ++ ch_dot :: c.
Definition dstr (d : list N) : Prop := d <> [] /\ all_digits d = true.

Lemma match_version_spec : forall l v r, match_version l = Some (v, r) ->
  exists a b c, v = vtext a b c /\ l = v ++ r /\ dstr a /\ dstr b /\ dstr c /\ hnd r.
Proof.
  intros l v r H. unfold match_version in H.
  destruct (digits1 l) as [[a l1]|] eqn:E1; [|discriminate].
  destruct (strip_byte ch_dot l1) as [l2|] eqn:E2; [|discriminate].
  destruct (digits1 l2) as [[b l3]|] eqn:E3; [|discriminate].
  destruct (strip_byte ch_dot l3) as [l4|] eqn:E4; [|discriminate].
  destruct (digits1 l4) as [[c l5]|] eqn:E5; [|discriminate].
  injection H as <- <-.
  apply digits1_spec in E1 as (-> & ? & ? & _). apply strip_byte_some in E2 as ->.
  apply digits1_spec in E3 as (-> & ? & ? & _). apply strip_byte_some in E4 as ->.
  apply digits1_spec in E5 as (-> & ? & ? & Hr).
  exists a, b, c. unfold vtext, dstr. repeat split; try assumption.
  now rewrite <- !app_assoc; cbn [app]; rewrite <- !app_assoc.
Qed.

Lemma hnd_dot : forall t, hnd (ch_dot :: t). Proof. reflexivity. Qed.
Lemma hnd_colon : forall t, hnd (ch_colon :: t). Proof. reflexivity. Qed.

Lemma match_version_intro : forall a b c r, dstr a -> dstr b -> dstr c -> hnd r ->
  match_version (vtext a b c ++ r) = Some (vtext a b c, r).
Proof.
  intros a b c r [Ha1 Ha2] [Hb1 Hb2] [Hc1 Hc2] Hr. unfold match_version, vtext.
  rewrite <- app_assoc. cbn [app]. rewrite digits1_intro by (try assumption; apply hnd_dot).
  cbn [strip_byte]. rewrite N.eqb_refl. rewrite <- app_assoc. cbn [app].
  rewrite digits1_intro by (try assumption; apply hnd_dot).
  cbn [strip_byte]. rewrite N.eqb_refl. now rewrite digits1_intro by assumption.
Qed.

(* ---- uniqueIDRegexp needs room ---- *)
Lemma uid_at_marker : forall l x, uid_at l = Some x -> has_prefix marker l = true.
Proof.
  intros l x H. unfold uid_at in H. destruct (strip_prefix marker l) eqn:E; [|discriminate].
  eapply strip_prefix_has; eassumption.
Qed.

Lemma uid_at_length : forall l x, uid_at l = Some x -> (33 <= length l)%nat.
Proof.
  intros l x H. unfold uid_at in H.
  destruct (strip_prefix marker l) as [l1|] eqn:E; [|discriminate]. apply strip_prefix_some in E as ->.
  destruct l1 as [|m l2]; [discriminate|]. destruct (is_mode m); [|discriminate].
  destruct (strip_byte ch_colon l2) as [l3|] eqn:E3; [|discriminate]. apply strip_byte_some in E3 as ->.
  destruct (match_version l3) as [[v l4]|] eqn:E4; [|discriminate].
  apply match_version_spec in E4 as (a & b & c & _ & -> & _).
  destruct (strip_byte ch_colon l4) as [l5|] eqn:E5; [|discriminate]. apply strip_byte_some in E5 as ->.
  destruct (span_digits l5) as [d l6] eqn:E6. apply span_digits_spec in E6 as (-> & _).
  destruct (Nat.leb_spec uid_regex_min (length d)) as [Hd|]; [|discriminate].
  unfold uid_regex_min in Hd. rewrite app_length. cbn [length]. rewrite app_length. cbn [length]. rewrite app_length.
  change (length marker) with 17%nat. lia.
Qed.

Lemma uid_find_all_none : forall l, (forall i, uid_at (skipn i l) = None) -> forall k, uid_find_all k l = [].
Proof.
  induction l as [|x l IH]; intros H k; [reflexivity|]. cbn [uid_find_all]. destruct k as [|k].
  - pose proof (H O) as H0. cbn [skipn] in H0. rewrite H0. apply IH. intro i. apply (H (S i)).
  - apply IH. intro i. apply (H (S i)).
Qed.

Lemma min_len_ok : Consts.det_min_len = 24. Proof. reflexivity. Qed.

Lemma rewrite_trigger_quiet : forall buf,
  (nlen buf <? Consts.det_min_len) = true \/ last_index_of marker buf = None -> rewrite_trigger buf = buf.
Proof.
  intros buf H. unfold rewrite_trigger. rewrite uid_find_all_none; [reflexivity|]. intro i.
  destruct (uid_at (skipn i buf)) as [x|] eqn:E; [exfalso|reflexivity]. destruct H as [H|H].
  - apply uid_at_length in E. rewrite skipn_length in E. apply N.ltb_lt in H. rewrite min_len_ok in H.
    unfold nlen in H. lia.
  - apply uid_at_marker in E. now rewrite (last_index_none _ _ H i) in E.
Qed.

(* ==================================================================================== *)
(* C06_silent, C06_client_rewrite_inert *)

Lemma is_repeated_true : forall w m id m', is_repeated w m id = (true, m') -> m' = m.
Proof.
  intros w m id m' H. unfold is_repeated in H. destruct (dedup_eligible w id); [|discriminate].
  destruct (map_find m id); [now injection H as <- | discriminate].
Qed.

Lemma set_map_same : forall d, set_map d (d_map d) = d.
Proof. now intros []. Qed.

(* no trigger => the detector's state is untouched and the bytes pass unchanged (after the
   relay+tmux id re-tagging, which is the identity on buffers without a complete trigger id) *)
Lemma silent : forall w d tunnel buf out d',
  detect w d tunnel buf = (out, None, d') ->
  d' = d /\ out = if d_relay d && d_tmux d then rewrite_trigger buf else buf.
Proof.
  intros w d tunnel buf out d' H. unfold detect in H.
  destruct (nlen buf <? Consts.det_min_len) eqn:E0.
  { injection H as <- <-. split; [reflexivity|]. destruct (d_relay d && d_tmux d); [|reflexivity].
    symmetry. apply rewrite_trigger_quiet. now left. }
  destruct (last_index_of marker buf) eqn:E1.
  2:{ injection H as <- <-. split; [reflexivity|]. destruct (d_relay d && d_tmux d); [|reflexivity].
      symmetry. apply rewrite_trigger_quiet. now right. }
  set (o := if d_relay d && d_tmux d then rewrite_trigger buf else buf) in *.
  destruct (last_index_of marker o) as [idx|]; [|now injection H as <- <-].
  destruct (find_trzsz (skipn idx o)) as [m|]; [|now injection H as <- <-].
  destruct (negb (is_none (find_tmux o)) && (negb tunnel || is_none (m_port m))); [now injection H as <- <-|].
  destruct ((Consts.det_finished_offset <? nlen (skipn idx o)) && _); [now injection H as <- <-|].
  destruct (parse_version (m_ver m)); [|now injection H as <- <-].
  destruct (is_repeated w (d_map d) _) as [rep mp] eqn:E5.
  destruct rep; [|discriminate]. injection H as <- <-. apply is_repeated_true in E5 as ->.
  now rewrite set_map_same.
Qed.

Lemma detect_no_marker : forall w d tunnel buf, last_index_of marker buf = None ->
  detect w d tunnel buf = (buf, None, d).
Proof. intros w d tunnel buf H. unfold detect. rewrite H. now destruct (nlen buf <? Consts.det_min_len). Qed.

(* what a client-mode detector shows locally is inert for EVERY detector further along *)
Lemma client_rewrite_inert : forall w d tunnel buf out t d', d_relay d = false ->
  detect w d tunnel buf = (out, Some t, d') ->
  last_index_of marker out = None /\
  forall w2 d2 tunnel2, detect w2 d2 tunnel2 out = (out, None, d2).
Proof.
  intros w d tunnel buf out t d' Hr H.
  assert (Hm : last_index_of marker out = None).
  { unfold detect in H. rewrite Hr in H. cbn [andb] in H.
    destruct (nlen buf <? Consts.det_min_len); [discriminate|].
    destruct (last_index_of marker buf) as [idx|]; [|discriminate].
    destruct (find_trzsz (skipn idx buf)) as [m|]; [|discriminate].
    destruct (negb (is_none (find_tmux buf)) && _); [discriminate|].
    destruct ((Consts.det_finished_offset <? nlen (skipn idx buf)) && _); [discriminate|].
    destruct (parse_version (m_ver m)); [|discriminate].
    destruct (is_repeated w (d_map d) _) as [rep mp]. destruct rep; [discriminate|].
    injection H as <- _ _. apply client_rewrite_no_marker. }
  split; [exact Hm|]. intros. now apply detect_no_marker.
Qed.

(* ==================================================================================== *)
(* C06_replay: the id table over the whole history of calls *)

Lemma list_eqb_eq : forall a b, list_eqb a b = true <-> a = b.
Proof.
  induction a as [|x a IH]; intros [|y b]; cbn [list_eqb]; try (split; congruence).
  rewrite andb_true_iff, N.eqb_eq, IH. split; [now intros [-> ->] | now intros [= -> ->]].
Qed.

Lemma map_find_in : forall m id, In id (map fst m) -> map_find m id <> None.
Proof.
  induction m as [|[k v] m IH]; intros id H; [destruct H|]. cbn [map_find].
  destruct (list_eqb k id) eqn:E; [discriminate|]. apply IH. destruct H as [H|H]; [|assumption].
  cbn [fst] in H. subst k. now rewrite (proj2 (list_eqb_eq id id) eq_refl) in E.
Qed.

Lemma prune_consts_ok : Consts.det_prune_limit = 100 /\ Consts.det_prune_keep = 50 /\ replay_window = 52%nat.
Proof. repeat split. Qed.

(* the table holds exactly its [length] newest accepted ids, numbered 0..length-1 in order
   of acceptance, and never fewer than the newest 52 (or all of them) *)
Definition table_inv (m : idmap) (acc : list (list N)) : Prop :=
  map snd m = map N.of_nat (seq 0 (length m)) /\
  rev (map fst m) = firstn (length m) acc /\
  (length m <= 101)%nat /\
  (length acc <= length m \/ 52 <= length m)%nat.

Lemma filter_ge_seq : forall (m : idmap) a, map snd m = map N.of_nat (seq a (length m)) ->
  filter (fun kv => 50 <=? snd kv) m = skipn (50 - a) m.
Proof.
  induction m as [|[k v] m IH]; intros a H; [now rewrite skipn_nil|].
  cbn [map length seq snd] in H. injection H as -> H. cbn [filter snd].
  destruct (N.leb_spec 50 (N.of_nat a)) as [Hle|Hlt].
  - replace (50 - a)%nat with O by lia. cbn [skipn]. f_equal. rewrite (IH _ H). now replace (50 - S a)%nat with O by lia.
  - rewrite (IH _ H). replace (50 - a)%nat with (S (50 - S a)) by lia. reflexivity.
Qed.

Lemma prune_small : forall m, (length m <= 100)%nat -> prune m = m.
Proof.
  intros m H. unfold prune, mlen. destruct prune_consts_ok as (-> & _).
  destruct (N.ltb_spec 100 (N.of_nat (length m))); [lia | reflexivity].
Qed.

Lemma prune_full : forall m, length m = 101%nat -> map snd m = map N.of_nat (seq 0 (length m)) ->
  prune m = map (fun kv : list N * N => (fst kv, snd kv - 50)) (skipn 50 m).
Proof.
  intros m L Hv. unfold prune, mlen. destruct prune_consts_ok as (-> & -> & _).
  destruct (N.ltb_spec 100 (N.of_nat (length m))); [|lia].
  now rewrite (filter_ge_seq m O) by exact Hv.
Qed.

Lemma table_inv_insert : forall m acc id, table_inv m acc ->
  table_inv (prune m ++ [(id, mlen (prune m))]) (id :: acc).
Proof.
  intros m acc id (Hv & Hk & Hlen & Hwin).
  destruct (Nat.eq_dec (length m) 101) as [L|L].
  - rewrite (prune_full m L Hv).
    set (m' := map (fun kv : list N * N => (fst kv, snd kv - 50)) (skipn 50 m)).
    assert (Lm' : length m' = 51%nat) by (unfold m'; rewrite map_length, skipn_length; lia).
    assert (Hfst : map fst m' = skipn 50 (map fst m)) by (unfold m'; rewrite map_map; cbn [fst]; now rewrite skipn_map).
    assert (Hsnd : map snd m' = map N.of_nat (seq 0 51)).
    { unfold m'. rewrite map_map. cbn [snd]. rewrite <- (map_map snd (fun v => v - 50)), <- skipn_map, Hv, L. reflexivity. }
    unfold table_inv, mlen. rewrite !map_app, app_length, Lm', Hsnd, Hfst. cbn [map fst snd length Nat.add].
    split; [reflexivity | split; [| lia]].
    rewrite rev_app_distr. cbn [rev app firstn]. f_equal.
    pose proof (firstn_rev 51 (map fst m)) as Hr. rewrite map_length, L in Hr. cbn [Nat.sub] in Hr.
    rewrite <- Hr, Hk, L, firstn_firstn. reflexivity.
  - rewrite (prune_small m) by lia.
    unfold table_inv, mlen. rewrite !map_app, app_length, rev_app_distr. cbn [map fst snd length rev app].
    replace (length m + 1)%nat with (S (length m)) by lia. rewrite seq_S, map_app, Hv. cbn [map Nat.add firstn].
    split; [reflexivity | split; [now rewrite Hk | cbn [length]; lia]].
Qed.

Lemma in_firstn_le : forall {A} (x : A) n k l, (n <= k)%nat -> In x (firstn n l) -> In x (firstn k l).
Proof.
  intros A x; induction n as [|n IH]; intros k l Hle Hin; [destruct Hin|].
  destruct l as [|a l]; [destruct Hin|]. destruct k as [|k]; [lia|]. cbn [firstn] in *.
  destruct Hin as [->|Hin]; [now left | right; apply (IH k); [lia | assumption]].
Qed.

Lemma table_inv_remembers : forall m acc id, table_inv m acc -> In id (firstn 52 acc) -> map_find m id <> None.
Proof.
  intros m acc id (_ & Hk & _ & Hwin) Hin. apply map_find_in. apply in_rev. rewrite Hk.
  destruct Hwin as [Hw|Hw].
  - rewrite firstn_all2 by exact Hw. rewrite <- (firstn_all acc).
    destruct (Nat.le_ge_cases 52 (length acc)); [eapply in_firstn_le; eassumption|].
    rewrite firstn_all2 in Hin by assumption. now rewrite firstn_all.
  - eapply in_firstn_le; eassumption.
Qed.

Lemma detect_table : forall w d tunnel buf o t d', detect w d tunnel buf = (o, t, d') ->
  (t = None /\ d' = d) \/
  (exists tr, t = Some tr /\ is_repeated w (d_map d) (t_id tr) = (false, d_map d')).
Proof.
  intros w d tunnel buf o t d' H. destruct t as [tr|]; [right|left; split; [reflexivity|eapply silent; eassumption]].
  exists tr. split; [reflexivity|]. unfold detect in H.
  destruct (nlen buf <? Consts.det_min_len); [discriminate|].
  destruct (last_index_of marker buf); [|discriminate].
  set (ob := if d_relay d && d_tmux d then rewrite_trigger buf else buf) in *.
  destruct (last_index_of marker ob) as [idx|]; [|discriminate].
  destruct (find_trzsz (skipn idx ob)) as [m|]; [|discriminate].
  destruct (negb (is_none (find_tmux ob)) && _); [discriminate|].
  destruct ((Consts.det_finished_offset <? nlen (skipn idx ob)) && _); [discriminate|].
  destruct (parse_version (m_ver m)); [|discriminate].
  destruct (is_repeated w (d_map d) _) as [rep mp] eqn:E. destruct rep; [discriminate|].
  injection H as _ <- <-. cbn [t_id d_map set_map]. exact E.
Qed.

Lemma hist_step_inv : forall w d acc c, table_inv (d_map d) acc ->
  table_inv (d_map (fst (hist_step w (d, acc) c))) (snd (hist_step w (d, acc) c)).
Proof.
  intros w d acc [tn buf] Hinv. unfold hist_step. cbn [fst snd].
  destruct (detect w d tn buf) as [[o t] d'] eqn:E. cbn [fst snd].
  destruct (detect_table _ _ _ _ _ _ _ E) as [[-> ->]|(tr & -> & Hrep)]; [exact Hinv|].
  unfold is_repeated in Hrep. destruct (dedup_eligible w (t_id tr)).
  - destruct (map_find (d_map d) (t_id tr)); [discriminate|]. injection Hrep as <-. now apply table_inv_insert.
  - now injection Hrep as <-.
Qed.

Lemma hist_run_inv : forall w calls d acc, table_inv (d_map d) acc ->
  forall d' acc', fold_left (hist_step w) calls (d, acc) = (d', acc') -> table_inv (d_map d') acc'.
Proof.
  intros w; induction calls as [|c calls IH]; intros d acc Hinv d' acc' H; cbn [fold_left] in H.
  - now injection H as <- <-.
  - pose proof (hist_step_inv w d acc c Hinv) as Hs. destruct (hist_step w (d, acc) c) as [d1 acc1].
    cbn [fst snd] in Hs. eapply IH; eassumption.
Qed.

Lemma table_inv_new : forall relay tmux, table_inv (d_map (new_det relay tmux)) [].
Proof. intros. cbn. repeat split; cbn; lia. Qed.

(* after ANY sequence of calls on a fresh detector: a trigger whose dedup-eligible id is
   among the 52 most recently accepted eligible ids is never accepted again *)
Lemma replay : forall w relay tmux calls d acc,
  hist_run w (new_det relay tmux) calls = (d, acc) ->
  forall tunnel buf out tr d', detect w d tunnel buf = (out, Some tr, d') ->
  dedup_eligible w (t_id tr) = true -> ~ In (t_id tr) (firstn replay_window acc).
Proof.
  intros w relay tmux calls d acc Hrun tunnel buf out tr d' Hdet Hel Hin.
  assert (Hinv : table_inv (d_map d) acc) by (eapply hist_run_inv; [apply table_inv_new | exact Hrun]).
  destruct (detect_table _ _ _ _ _ _ _ Hdet) as [[Hn _]|(tr' & [= <-] & Hrep)]; [discriminate|].
  unfold is_repeated in Hrep. rewrite Hel in Hrep.
  destruct (map_find (d_map d) (t_id tr)) eqn:E; [discriminate|].
  destruct prune_consts_ok as (_ & _ & Hw). rewrite Hw in Hin.
  now apply (table_inv_remembers _ _ _ Hinv Hin).
Qed.
