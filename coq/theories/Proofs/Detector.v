(* Lemmas about the model of the trigger detector. *)
From Coq Require Import String Ascii.
From Trzsz Require Import Base.Bytes Gen.Consts Model.Detector.
Local Open Scope N_scope.

(* readable byte strings for the pin lemmas *)
Fixpoint bs (s : string) : list N :=
  match s with
  | EmptyString => []
  | String a r => N_of_ascii a :: bs r
  end.

(* ---- the source strings whose MEANING the model hard-codes ---- *)
Lemma trzsz_regex_src_ok :
  Consts.det_trzsz_regex_src = marker ++ bs "([SRD]):(\d+\.\d+\.\d+)(:\d+)?(:\d+)?".
Proof. reflexivity. Qed.
Lemma uid_regex_src_ok :
  Consts.det_uid_regex_src = marker ++ bs "[SRD]:\d+\.\d+\.\d+:(\d{13}\d*)".
Proof. reflexivity. Qed.
Lemma tmux_regex_src_ok :
  Consts.det_tmux_regex_src = bs "((%output %\d+ )|(%extended-output %\d+ \d+ : )).*" ++ marker.
Proof. reflexivity. Qed.
Lemma matcher_literals_ok :
  lit_output = bs "%output %" /\ lit_ext_output = bs "%extended-output %" /\ lit_ext_tail = bs " : " /\
  ch_colon = 58 /\ ch_dot = 46 /\ ch_space = 32 /\ uid_regex_min = 13%nat /\
  (forall b, is_mode b = existsb (N.eqb b) (bs "SRD")).
Proof. repeat split. intro b. unfold is_mode. cbn. now rewrite orb_false_r, orb_assoc. Qed.
Lemma trz_format_ok :
  Consts.det_trz_format = [27; 55; 7] ++ marker ++ bs "%s:%s:%013d:%d" ++ [CR; LF] /\
  Consts.det_tsz_format = [27; 55; 7] ++ marker ++ bs "S:%s:%013d:%d" ++ [CR; LF].
Proof. split; reflexivity. Qed.
Lemma version_sep_ok : Consts.det_version_sep = [ch_dot] /\ Consts.det_version_base = 10 /\ Consts.det_version_fields = 3.
Proof. repeat split. Qed.
Lemma relay_scan_ok : forall c, relay_scan_char c = (c =? ch_colon) || (c =? ch_dot) || is_digit c.
Proof. intro c. unfold relay_scan_char, is_digit. cbn. now rewrite orb_false_r. Qed.
