(* What a successful creation step of Names.v does to the abstract file system, at the
   precision the whole-transfer theorem (C01) needs: the node at the leaf path afterwards,
   every path that existed before keeps its node (except the leaf), the outcome does not
   depend on the bytes written, and how the local name was chosen. *)
From Coq Require Import ZArith Lia.
From Trzsz Require Import Base.Bytes Gen.Consts Model.Path Model.Fs Model.Names Proofs.PathFs Proofs.Names.

Definition old_content (f : fs) (p : path) : list N :=
  match lookup f p with Some (File o) => o | _ => [] end.

Lemma write0_nil_l pl : write0 [] pl = pl.
Proof. unfold write0. rewrite skipn_nil, app_nil_r. reflexivity. Qed.

Lemma write0_nil_r old : write0 old [] = old.
Proof. reflexivity. Qed.

(* ---------- os.OpenFile + Write ---------- *)
Lemma open_create_result f p t pl f' es : open_create f p t pl = Some (f', es) ->
  lookup f' p = Some (File (write0 (if t then [] else old_content f p) pl)) /\
  (forall q, q <> p -> lookup f' q = lookup f q) /\
  (forall y, exists f2, open_create f p t y = Some (f2, es)).
Proof.
  unfold open_create, old_content. destruct p as [|c0 p0]; [discriminate|]. set (p := c0 :: p0).
  destruct (stat f (removelast p)) as [[|]| |]; try discriminate.
  destruct (has_nul (last p []) || (name_max <? name_len (last p []))); [discriminate|].
  destruct (lookup f p) as [[old|]|] eqn:E; intro Hx; inversion Hx; subst; clear Hx.
  - split; [rewrite lookup_set, path_eqb_refl; reflexivity|].
    split; [intros q Hq; apply lookup_set_other; exact Hq | intro y; eexists; reflexivity].
  - split; [rewrite lookup_set, path_eqb_refl; destruct t; rewrite write0_nil_l; reflexivity|].
    split; [intros q Hq; apply lookup_set_other; exact Hq | intro y; eexists; reflexivity].
Qed.

Lemma do_create_file_result p t pl st st' : do_create_file p t pl st = (true, st') ->
  lookup (st_fs st') p = Some (File (write0 (if t then [] else old_content (st_fs st) p) pl)) /\
  (forall q, q <> p -> lookup (st_fs st') q = lookup (st_fs st) q) /\
  st_map st' = st_map st /\
  (forall y, exists st2, do_create_file p t y st = (true, st2)).
Proof.
  unfold do_create_file. destruct (open_create (st_fs st) p t pl) as [[f' es]|] eqn:E; [|discriminate].
  intro Hx; inversion Hx; subst; clear Hx. destruct (open_create_result _ _ _ _ _ _ E) as (A & B & C).
  cbn [st_fs st_map]. split; [exact A|]. split; [exact B|]. split; [reflexivity|].
  intro y. destruct (C y) as (f2 & E2). rewrite E2. eexists; reflexivity.
Qed.

(* ---------- os.MkdirAll ---------- *)
Lemma mk_down_ok : forall rest f pre f' es, mk_down f pre rest = (true, f', es) -> rest <> [] ->
  lookup f' (pre ++ rest) = Some Dir.
Proof.
  induction rest as [|c rest IH]; intros f pre f' es Hm Hne; [congruence|].
  cbn [mk_down] in Hm. destruct (has_nul c || (name_max <? name_len c)); [discriminate|].
  destruct rest as [|c2 rest].
  - destruct (lookup f (pre ++ [c])) as [[old|]|] eqn:El.
    + discriminate.
    + cbn [mk_down] in Hm. inversion Hm; subst. exact El.
    + cbn [mk_down] in Hm. inversion Hm; subst. rewrite lookup_set, path_eqb_refl. reflexivity.
  - destruct (lookup f (pre ++ [c])) as [[old|]|] eqn:El.
    + discriminate.
    + specialize (IH f (pre ++ [c]) f' es Hm ltac:(discriminate)). rewrite <- app_assoc in IH. exact IH.
    + destruct (mk_down (set f (pre ++ [c]) Dir) (pre ++ [c]) (c2 :: rest)) as [[ok3 f3] es3] eqn:E3.
      inversion Hm; subst. specialize (IH _ _ _ _ E3 ltac:(discriminate)). rewrite <- app_assoc in IH. exact IH.
Qed.

Lemma walk_found_lookup : forall rest f pre n, walk f pre rest = SFound n -> pre ++ rest <> [] ->
  lookup f (pre ++ rest) = Some n.
Proof.
  induction rest as [|c rest IH]; intros f pre n Hw Hne; cbn [walk] in Hw.
  - rewrite app_nil_r in *. unfold get in Hw. destruct pre as [|x pre]; [congruence|].
    destruct (lookup f (x :: pre)); [inversion Hw; reflexivity | discriminate].
  - destruct (get f pre) as [[|]|]; try discriminate.
    destruct (name_max <? name_len c); [discriminate|].
    specialize (IH f (pre ++ [c]) n Hw). rewrite <- app_assoc in IH. apply IH. destruct pre; discriminate.
Qed.

Lemma stat_found_lookup f p n : stat f p = SFound n -> p <> [] -> lookup f p = Some n.
Proof.
  unfold stat. destruct (bad_path p); [discriminate|]. intros Hw Hne. apply (walk_found_lookup p f [] n Hw Hne).
Qed.

Lemma do_create_directory_result p st st' : p <> [] -> do_create_directory p st = (true, st') ->
  lookup (st_fs st') p = Some Dir /\
  (forall q, lookup (st_fs st) q <> None \/ ~ (exists b, p = q ++ b) -> lookup (st_fs st') q = lookup (st_fs st) q) /\
  st_map st' = st_map st.
Proof.
  intros Hne. unfold do_create_directory. destruct (stat (st_fs st) p) as [[old|]| |] eqn:Es.
  - discriminate.
  - intro Hx; inversion Hx; subst. split; [apply stat_found_lookup; assumption|]. split; [reflexivity | reflexivity].
  - destruct (mkdir_all (st_fs st) p) as [[ok f1] es1] eqn:Em. intro Hx; inversion Hx; subst; clear Hx.
    cbn [st_fs st_map]. unfold mkdir_all in Em. split; [apply (mk_down_ok p _ [] _ _ Em Hne)|]. split; [|reflexivity].
    apply mk_down_frame in Em. destruct Em as [F _]. intros q Hq. apply F.
    intros (a & b & Ha & Hp & Hqa & Hl). cbn [app] in Hqa. subst q. destruct Hq as [Hq|Hq]; [congruence|].
    apply Hq. exists b. exact Hp.
  - discriminate.
Qed.

(* ---------- createDirOrFile's last step ---------- *)
Lemma create_leaf_result s full t pl ln st res st' : full <> [] -> s_archive s = false ->
  create_leaf s full t pl ln st = (NOk res, st') ->
  res = ln /\
  lookup (st_fs st') full =
    Some (if s_isdir s then Dir else File (write0 (if t then [] else old_content (st_fs st) full) pl)) /\
  (forall q, lookup (st_fs st) q <> None -> q <> full -> lookup (st_fs st') q = lookup (st_fs st) q) /\
  st_map st' = st_map st /\
  (forall y, exists st2, create_leaf s full t y ln st = (NOk ln, st2)).
Proof.
  intros Hne Ha. unfold create_leaf. rewrite Ha. destruct (s_isdir s).
  - destruct (do_create_directory full st) as [ok st1] eqn:E. destruct ok; [|discriminate].
    intro Hx; inversion Hx; subst. destruct (do_create_directory_result _ _ _ Hne E) as (A & B & C).
    split; [reflexivity|]. split; [exact A|]. split; [intros q Hq _; apply B; left; exact Hq|]. split; [exact C|].
    intro y. eexists; reflexivity.
  - destruct (do_create_file full t pl st) as [ok st1] eqn:E. destruct ok; [|discriminate].
    intro Hx; inversion Hx; subst. destruct (do_create_file_result _ _ _ _ _ E) as (A & B & C & D).
    split; [reflexivity|]. split; [exact A|]. split; [intros q _ Hq; apply B; exact Hq|]. split; [exact C|].
    intro y. destruct (D y) as (st2 & E2). rewrite E2. eexists; reflexivity.
Qed.

(* how createDirOrFile / createFile pick the local name *)
Definition name_choice (cfg : config) (d : path) (st st' : state) (id : option Z) (r0 ln : name) : Prop :=
  if overwrite cfg then ln = r0 /\ st_map st' = st_map st
  else match id with
       | None => stat (st_fs st) (d ++ [ln]) = SNotExist /\ st_map st' = st_map st
       | Some i =>
         match map_get (st_map st) i with
         | Some v => ln = v /\ st_map st' = st_map st
         | None => stat (st_fs st) (d ++ [ln]) = SNotExist /\ st_map st' = (i, ln) :: st_map st
         end
       end.

Definition map_good (m : list (Z * name)) : Prop := forall id v, map_get m id = Some v -> good v.

Lemma app_not_prefix_longer {A} (p : list A) (x : A) : ~ (exists b, p = (p ++ [x]) ++ b).
Proof.
  intros (b & Hb). apply (f_equal (@length A)) in Hb. rewrite !app_length in Hb. cbn in Hb. lia.
Qed.

Lemma cdof_result cfg d s r0 rest t pl st ln st' :
  Forall good (r0 :: rest) -> s_archive s = false -> map_good (st_map st) ->
  create_dir_or_file cfg d s r0 rest t pl st = (NOk ln, st') ->
  good ln /\ map_good (st_map st') /\
  lookup (st_fs st') (d ++ ln :: rest) =
    Some (if s_isdir s then Dir else File (write0 (if t then [] else old_content (st_fs st) (d ++ ln :: rest)) pl)) /\
  (forall q, lookup (st_fs st) q <> None -> q <> d ++ ln :: rest -> lookup (st_fs st') q = lookup (st_fs st) q) /\
  name_choice cfg d st st' (Some (s_id s)) r0 ln /\
  (forall y, exists st2, create_dir_or_file cfg d s r0 rest t y st = (NOk ln, st2)).
Proof.
  intros Hg Ha Hm. inversion Hg as [|? ? Hg0 Hgr]; subst. unfold create_dir_or_file.
  set (chosen := if overwrite cfg then Some (r0, st) else _).
  assert (Hch : chosen = None \/ exists l1 st1, chosen = Some (l1, st1) /\ good l1 /\ st_fs st1 = st_fs st /\
            map_good (st_map st1) /\ name_choice cfg d st st1 (Some (s_id s)) r0 l1).
  { subst chosen. unfold name_choice. destruct (overwrite cfg) eqn:Eo.
    - right. exists r0, st. split; [reflexivity|]. split; [exact Hg0|]. split; [reflexivity|]. split; [exact Hm|]. split; reflexivity.
    - destruct (map_get (st_map st) (s_id s)) as [v|] eqn:Em.
      + right. exists v, st. split; [reflexivity|]. split; [exact (Hm _ _ Em)|]. split; [reflexivity|]. split; [exact Hm|]. split; reflexivity.
      + destruct (get_new_name (st_fs st) d r0) as [l1|] eqn:En; [|left; reflexivity].
        destruct (get_new_name_good _ _ _ _ Hg0 En) as [Hl Hs]. right.
        exists l1, (set_map st ((s_id s, l1) :: st_map st)). cbn [set_map st_fs st_map].
        split; [reflexivity|]. split; [exact Hl|]. split; [reflexivity|]. split; [|split; [exact Hs | reflexivity]].
        intros id v. cbn [map_get]. destruct (Z.eqb (s_id s) id); [intro Hx; inversion Hx; subst; exact Hl | apply Hm]. }
  destruct Hch as [->|(l1 & st1 & -> & Hl & Ef & Hm1 & Hn)]; [discriminate|].
  assert (Hold : forall q, lookup (st_fs st1) q = lookup (st_fs st) q) by (intro q; rewrite Ef; reflexivity).
  assert (Hmap : forall st2, st_map st2 = st_map st1 -> name_choice cfg d st st2 (Some (s_id s)) r0 l1).
  { intros st2 E2. unfold name_choice in *. destruct (overwrite cfg); [rewrite E2; exact Hn|].
    destruct (map_get (st_map st) (s_id s)); rewrite E2; exact Hn. }
  destruct rest as [|c rest].
  - rewrite join_good by (constructor; [exact Hl | constructor]).
    intro Hx. assert (Hne : d ++ [l1] <> []) by (destruct d; discriminate).
    destruct (create_leaf_result s (d ++ [l1]) t pl l1 st1 ln st' Hne Ha Hx) as (-> & A & B & C & D).
    split; [exact Hl|]. split; [rewrite C; exact Hm1|]. unfold old_content in *. rewrite Hold in A.
    split; [exact A|]. split; [intros q Hq Hq2; rewrite <- Hold; apply B; [rewrite Hold; exact Hq | exact Hq2]|].
    split; [apply Hmap; exact C|]. exact D.
  - destruct (forall_good_split (c :: rest) ltac:(discriminate) Hgr) as [Hmid Hlast].
    set (mids := removelast (c :: rest)) in *. set (lst := last (c :: rest) []) in *.
    assert (Hsplit : c :: rest = mids ++ [lst]) by (apply app_removelast_last; discriminate).
    rewrite (join_good (l1 :: mids)) by (constructor; assumption).
    destruct (do_create_directory (d ++ l1 :: mids) st1) as [ok st2] eqn:Ed. destruct ok; [|discriminate].
    rewrite join_good by (constructor; [exact Hlast | constructor]).
    assert (Hne1 : d ++ l1 :: mids <> []) by (destruct d; discriminate).
    destruct (do_create_directory_result _ _ _ Hne1 Ed) as (A1 & B1 & C1).
    intro Hx. assert (Hne : (d ++ l1 :: mids) ++ [lst] <> []) by (destruct d; discriminate).
    destruct (create_leaf_result s _ t pl l1 st2 ln st' Hne Ha Hx) as (-> & A & B & C & D).
    assert (Hleaf : (d ++ l1 :: mids) ++ [lst] = d ++ l1 :: c :: rest).
    { rewrite Hsplit, <- app_assoc. reflexivity. }
    rewrite Hleaf in *.
    assert (Hl2 : lookup (st_fs st2) (d ++ l1 :: c :: rest) = lookup (st_fs st) (d ++ l1 :: c :: rest)).
    { rewrite <- Hold. apply B1. right. rewrite <- Hleaf.
      apply app_not_prefix_longer. }
    split; [exact Hl|]. split; [rewrite C, C1; exact Hm1|].
    split; [unfold old_content in *; rewrite Hl2 in A; exact A|].
    split; [intros q Hq Hq2; rewrite B; [rewrite <- Hold; apply B1; left; rewrite Hold; exact Hq | | exact Hq2]|].
    { rewrite B1; [rewrite Hold; exact Hq | left; rewrite Hold; exact Hq]. }
    split; [apply Hmap; rewrite C, C1; reflexivity|].
    intro y. destruct (D y) as (st3 & E3). exists st3. exact E3.
Qed.

Lemma create_file_result cfg d nm pl st ln st' :
  create_file code_checks cfg d nm true pl st = (NOk ln, st') ->
  good ln /\
  lookup (st_fs st') (d ++ [ln]) = Some (File pl) /\
  (forall q, lookup (st_fs st) q <> None -> q <> d ++ [ln] -> lookup (st_fs st') q = lookup (st_fs st) q) /\
  name_choice cfg d st st' None nm ln /\
  (forall y, exists st2, create_file code_checks cfg d nm true y st = (NOk ln, st2)).
Proof.
  unfold create_file. destruct code_checks_on as [_ Hck]. rewrite Hck. cbn [andb].
  destruct (valid_name nm) eqn:Ev; cbn [negb]; [|discriminate]. apply valid_name_good in Ev.
  assert (Hch : (if overwrite cfg then Some nm else get_new_name (st_fs st) d nm) = None \/
            exists l1, (if overwrite cfg then Some nm else get_new_name (st_fs st) d nm) = Some l1 /\ good l1 /\
              (if overwrite cfg then l1 = nm else stat (st_fs st) (d ++ [l1]) = SNotExist)).
  { destruct (overwrite cfg) eqn:Eo; [right; exists nm; auto|].
    destruct (get_new_name (st_fs st) d nm) as [l1|] eqn:En; [|left; reflexivity].
    destruct (get_new_name_good _ _ _ _ Ev En) as [Hl Hs]. right. exists l1. auto. }
  destruct Hch as [->|(l1 & -> & Hl & Hn)]; [discriminate|].
  rewrite join_good by (constructor; [exact Hl | constructor]).
  destruct (do_create_file (d ++ [l1]) true pl st) as [ok st1] eqn:E. destruct ok; [|discriminate].
  intro Hx; inversion Hx; subst. destruct (do_create_file_result _ _ _ _ _ E) as (A & B & C & D).
  split; [exact Hl|]. rewrite write0_nil_l in A. split; [exact A|].
  split; [intros q _ Hq; apply B; exact Hq|].
  split; [unfold name_choice; destruct (overwrite cfg); auto|].
  intro y. destruct (D y) as (st2 & E2). rewrite E2. eexists; reflexivity.
Qed.

(* ---------- the creation step of the transfer model ---------- *)
From Trzsz Require Import Model.Transfer.


Lemma tr_create_result c d p x st ln st' :
  tr_p_archive p = false -> map_good (st_map st) ->
  tr_create c d p x st = (NOk ln, st') ->
  good ln /\ map_good (st_map st') /\ Forall good (tr_p_tail p) /\
  lookup (st_fs st') (d ++ ln :: tr_p_tail p) =
    Some (if tr_p_isdir p then Dir
          else File (write0 (if tr_json_names c then old_content (st_fs st) (d ++ ln :: tr_p_tail p) else []) x)) /\
  (forall q, lookup (st_fs st) q <> None -> q <> d ++ ln :: tr_p_tail p -> lookup (st_fs st') q = lookup (st_fs st) q) /\
  name_choice (tr_names_cfg c) d st st' (tr_p_id p) (tr_p_head p) ln /\
  (forall y, exists st2, tr_create c d p y st = (NOk ln, st2)).
Proof.
  intros Ha Hm. unfold tr_create. destruct p as [nm|s sz]; cbn [tr_p_archive tr_p_tail tr_p_isdir tr_p_id tr_p_head] in *.
  - destruct (tr_json c) eqn:Ej; [discriminate|]. intro Hx.
    destruct (create_file_result _ _ _ _ _ _ _ Hx) as (A & B & C & D & E).
    assert (Ejn : tr_json_names c = false) by (unfold tr_json in Ej; apply orb_false_iff in Ej; tauto).
    rewrite Ejn, write0_nil_l. split; [exact A|].
    split; [|split; [constructor | split; [exact B | split; [exact C | split; [exact D | exact E]]]]].
    unfold name_choice in D. destruct (overwrite (tr_names_cfg c)); destruct D as [_ ->]; exact Hm.
  - assert (HJ : forall t, recv_json code_checks (tr_names_cfg c) d (Some s) t x st = (NOk ln, st') ->
      good ln /\ map_good (st_map st') /\ Forall good (tl (s_rel s)) /\
      lookup (st_fs st') (d ++ ln :: tl (s_rel s)) =
        Some (if s_isdir s then Dir else File (write0 (if t then [] else old_content (st_fs st) (d ++ ln :: tl (s_rel s))) x)) /\
      (forall q, lookup (st_fs st) q <> None -> q <> d ++ ln :: tl (s_rel s) -> lookup (st_fs st') q = lookup (st_fs st) q) /\
      name_choice (tr_names_cfg c) d st st' (Some (s_id s)) (hd [] (s_rel s)) ln /\
      (forall y, exists st2, recv_json code_checks (tr_names_cfg c) d (Some s) t y st = (NOk ln, st2))).
    { intro t. unfold recv_json. destruct (s_rel s) as [|r0 rest] eqn:Er; [discriminate|].
      destruct code_checks_on as [Hu _]. rewrite Hu. cbn [andb].
      destruct (forallb valid_name (r0 :: rest)) eqn:Ev; cbn [negb]; [|discriminate].
      apply forallb_valid_good in Ev. intro Hx. cbn [tl hd].
      destruct (cdof_result _ _ _ _ _ _ _ _ _ _ Ev Ha Hm Hx) as (A & B & C & D & E & F).
      split; [exact A|]. split; [exact B|]. split; [inversion Ev; assumption|]. auto. }
    destruct (tr_json_names c) eqn:Ejn.
    + intro Hx. apply (HJ false Hx).
    + destruct (tc_directory c); [|discriminate]. intro Hx. apply (HJ true Hx).
Qed.

(* ---------- whether a creation succeeds, and under which name, does not depend on the bytes ---------- *)
Lemma open_create_indep f p t x y :
  match open_create f p t x, open_create f p t y with
  | Some _, Some _ | None, None => True
  | _, _ => False
  end.
Proof.
  unfold open_create. destruct p as [|c0 p0]; [exact I|].
  destruct (stat f (removelast (c0 :: p0))) as [[|]| |]; try exact I.
  destruct (has_nul (last (c0 :: p0) []) || (name_max <? name_len (last (c0 :: p0) []))); [exact I|].
  destruct (lookup f (c0 :: p0)) as [[old|]|]; exact I.
Qed.

Lemma do_create_file_indep p t x y st : fst (do_create_file p t x st) = fst (do_create_file p t y st).
Proof.
  unfold do_create_file. pose proof (open_create_indep (st_fs st) p t x y) as Hi.
  destruct (open_create (st_fs st) p t x) as [[? ?]|]; destruct (open_create (st_fs st) p t y) as [[? ?]|];
    try contradiction; reflexivity.
Qed.

Lemma create_leaf_indep s full t x y ln st : fst (create_leaf s full t x ln st) = fst (create_leaf s full t y ln st).
Proof.
  unfold create_leaf. destruct (s_archive s); [reflexivity|]. destruct (s_isdir s); [reflexivity|].
  pose proof (do_create_file_indep full t x y st) as Hi.
  destruct (do_create_file full t x st) as [[|] ?]; destruct (do_create_file full t y st) as [[|] ?];
    cbn [fst] in Hi; try discriminate; reflexivity.
Qed.

Lemma cdof_indep cfg d s r0 rest t x y st :
  fst (create_dir_or_file cfg d s r0 rest t x st) = fst (create_dir_or_file cfg d s r0 rest t y st).
Proof.
  unfold create_dir_or_file.
  destruct (if overwrite cfg then Some (r0, st) else _) as [[ln st1]|]; [|reflexivity].
  destruct rest as [|c rest]; [apply create_leaf_indep|].
  destruct (do_create_directory (join d (ln :: removelast (c :: rest))) st1) as [[|] st2]; [|reflexivity].
  apply create_leaf_indep.
Qed.

Lemma tr_create_indep c d p x y st : fst (tr_create c d p x st) = fst (tr_create c d p y st).
Proof.
  unfold tr_create. destruct p as [nm|s sz].
  - destruct (tr_json c); [reflexivity|]. unfold create_file.
    destruct (chk_create_file code_checks && negb (valid_name nm)); [reflexivity|].
    destruct (if overwrite (tr_names_cfg c) then Some nm else _) as [ln|]; [|reflexivity].
    pose proof (do_create_file_indep (join d [ln]) true x y st) as Hi.
    destruct (do_create_file (join d [ln]) true x st) as [[|] ?]; destruct (do_create_file (join d [ln]) true y st) as [[|] ?];
      cbn [fst] in Hi; try discriminate; reflexivity.
  - assert (HJ : forall t, fst (recv_json code_checks (tr_names_cfg c) d (Some s) t x st) =
                           fst (recv_json code_checks (tr_names_cfg c) d (Some s) t y st)).
    { intro t. unfold recv_json. destruct (s_rel s) as [|r0 rest]; [reflexivity|].
      destruct (chk_unmarshal code_checks && negb (forallb valid_name (r0 :: rest))); [reflexivity|]. apply cdof_indep. }
    destruct (tr_json_names c); [apply HJ|]. destruct (tc_directory c); [apply HJ | reflexivity].
Qed.

(* ---------- the specification run leaves the source tree at the destination ---------- *)
Section Tree.
Variable c : tr_cfg.
Variable d : path.
Variable f0 : fs.


Lemma tail_json e : tr_json c = true -> tr_tail c e = tl (te_rel e).
Proof. unfold tr_tail, tr_payload. intros ->. reflexivity. Qed.
Lemma tail_plain e : tr_json c = false -> tr_tail c e = [].
Proof. unfold tr_tail, tr_payload. intros ->. reflexivity. Qed.
Lemma pid_json e : tr_json c = true -> tr_p_id (tr_payload c e) = Some (te_id e).
Proof. unfold tr_payload. intros ->. reflexivity. Qed.
Lemma pid_plain e : tr_json c = false -> tr_p_id (tr_payload c e) = None.
Proof. unfold tr_payload. intros ->. reflexivity. Qed.

Definition Inv (st : state) (done : list (tr_entry * name)) : Prop :=
  chain (st_fs st) d /\ map_good (st_map st) /\
  (forall q, lookup f0 q <> None -> lookup (st_fs st) q <> None) /\
  (forall e ln, In (e, ln) done -> lookup (st_fs st) (d ++ ln :: tr_tail c e) = Some (tr_node e)) /\
  (tc_overwrite c = true -> forall e ln, In (e, ln) done -> ln = tr_key c e) /\
  (tc_overwrite c = false -> forall e ln, In (e, ln) done ->
     lookup f0 (d ++ [ln]) = None /\ lookup (st_fs st) (d ++ [ln]) <> None) /\
  (tc_overwrite c = false -> tr_json c = true ->
     (forall e ln, In (e, ln) done -> map_get (st_map st) (te_id e) = Some ln) /\
     (forall id v, map_get (st_map st) id = Some v ->
        lookup (st_fs st) (d ++ [v]) <> None /\ lookup f0 (d ++ [v]) = None) /\
     (forall id1 id2 v, map_get (st_map st) id1 = Some v -> map_get (st_map st) id2 = Some v -> id1 = id2)).

Lemma path_cons_inj (a : path) x1 t1 x2 t2 : a ++ x1 :: t1 = a ++ x2 :: t2 -> x1 = x2 /\ t1 = t2.
Proof. intro E. apply app_inv_head in E. inversion E. auto. Qed.

Lemma chain_not_leaf f ln tail a b : chain f d -> d = a ++ b -> a <> d ++ ln :: tail.
Proof.
  intros _ Hab E. apply (f_equal (@length name)) in E. rewrite Hab, !app_length in E. cbn in E. lia.
Qed.

Lemma inv_step st done e ln st' :
  Inv st done ->
  (tc_overwrite c = true -> forall e' ln', In (e', ln') done -> tr_key c e' :: tr_tail c e' <> tr_key c e :: tr_tail c e) ->
  (tc_overwrite c = false -> tr_json c = true -> forall e' ln', In (e', ln') done -> te_id e' = te_id e ->
     tl (te_rel e') <> tl (te_rel e)) ->
  (tc_overwrite c = false -> tr_json c = true -> (forall e' ln', In (e', ln') done -> te_id e' <> te_id e) ->
     tl (te_rel e) = []) ->
  tr_spec_entry c d e st = Some (ln, st') ->
  Inv st' (done ++ [(e, ln)]).
Proof.
  intros (Hc & Hmg & Hmono & Hcont & Hkey & Hfresh & Hmap) Dow Did Dfirst Hs.
  (* unfold the specification: one creation with the final content *)
  unfold tr_spec_entry in Hs. destruct (te_isdir e && negb (tr_json c)) eqn:E0; [discriminate|].
  destruct (tr_create c d (tr_payload c e) [] st) as [[l1|] st1] eqn:E1; [|discriminate].
  assert (Ha : tr_p_archive (tr_payload c e) = false) by (unfold tr_payload; destruct (tr_json c); reflexivity).
  assert (Hisdir : tr_p_isdir (tr_payload c e) = te_isdir e).
  { unfold tr_payload. destruct (tr_json c); cbn [tr_p_isdir s_isdir]; [reflexivity|]. destruct (te_isdir e); [discriminate | reflexivity]. }
  destruct (tr_create_result _ _ _ _ _ _ _ Ha Hmg E1) as (G1 & M1 & T1 & L1 & P1 & N1 & I1).
  assert (Hfin : exists x, tr_create c d (tr_payload c e) x st = (NOk ln, st') /\ l1 = ln /\
            (te_isdir e = false -> x = te_data e /\
               (tr_json_names c = true -> old_content (st_fs st) (d ++ ln :: tr_tail c e) = []))).
  { destruct (te_isdir e) eqn:Hd.
    - inversion Hs; subst. exists []. split; [exact E1|]. split; [reflexivity|]. discriminate.
    - destruct (tr_json_names c && (0 <? tr_target_size d l1 (tr_payload c e) st1)) eqn:E2; [discriminate|].
      destruct (tr_create c d (tr_payload c e) (te_data e) st) as [[l2|] st2] eqn:E3; [|discriminate].
      inversion Hs; subst. destruct (I1 (te_data e)) as (st3 & E4). rewrite E3 in E4. inversion E4; subst.
      exists (te_data e). split; [exact E3|]. split; [reflexivity|]. intros _. split; [reflexivity|].
      intro Ej. rewrite Ej in E2. cbn [andb] in E2. apply N.ltb_ge in E2. apply N.le_0_r in E2.
      unfold tr_target_size, tr_leaf in E2. rewrite join_good in E2 by (constructor; assumption).
      fold (tr_tail c e) in E2, L1. rewrite L1, Hisdir, Ej in E2. cbn [write0 app skipn length] in E2.
      unfold tr_blen in E2. destruct (old_content (st_fs st) (d ++ ln :: tr_tail c e)); [reflexivity | discriminate]. }
  destruct Hfin as (x & Ex & -> & Hx). clear E1 G1 M1 T1 L1 P1 N1 I1 st1 Hs.
  destruct (tr_create_result _ _ _ _ _ _ _ Ha Hmg Ex) as (G & M & T & L & P & Nc & _).
  fold (tr_tail c e) in L, P, T. rewrite Hisdir in L.
  set (leaf := d ++ ln :: tr_tail c e) in *.
  (* the node at the leaf *)
  assert (Hleaf : lookup (st_fs st') leaf = Some (tr_node e)).
  { rewrite L. unfold tr_node. destruct (te_isdir e); [reflexivity|]. destruct (Hx eq_refl) as (-> & Ho).
    destruct (tr_json_names c); [rewrite (Ho eq_refl)|]; rewrite write0_nil_l; reflexivity. }
  (* presence is monotone *)
  assert (Hpres : forall q, lookup (st_fs st) q <> None -> lookup (st_fs st') q <> None).
  { intros q Hq. destruct (path_eq_dec q leaf) as [->|Hne]; [rewrite Hleaf; discriminate | rewrite P; assumption]. }
  (* the new leaf differs from every earlier one *)
  assert (Hdist : forall e' ln', In (e', ln') done -> d ++ ln' :: tr_tail c e' <> leaf).
  { intros e' ln' Hin Heq. subst leaf. apply path_cons_inj in Heq as [-> Ht].
    unfold name_choice in Nc. cbn [tr_names_cfg overwrite] in Nc.
    destruct (tc_overwrite c) eqn:Eo.
    - destruct Nc as [Hl _]. apply (Dow eq_refl e' ln Hin). rewrite <- (Hkey eq_refl e' ln Hin), Ht. fold (tr_key c e) in Hl. congruence.
    - destruct (tr_json c) eqn:Ej.
      + rewrite (pid_json e Ej) in Nc. destruct (Hmap eq_refl eq_refl) as (Hm1 & Hm2 & Hm3).
        destruct (map_get (st_map st) (te_id e)) as [v|] eqn:Em.
        * destruct Nc as [-> _]. pose proof (Hm1 e' v Hin) as Hm'.
          assert (Hid : te_id e' = te_id e) by (apply (Hm3 _ _ v); assumption).
          apply (Did eq_refl eq_refl e' v Hin Hid). rewrite <- !tail_json by assumption. exact Ht.
        * destruct Nc as [Hs _]. apply (stat_notexist_lookup _ _ _ Hc) in Hs.
          destruct (Hm2 _ _ (Hm1 e' ln Hin)) as [Hp _]. congruence.
      + rewrite (pid_plain e Ej) in Nc. destruct Nc as [Hs _]. apply (stat_notexist_lookup _ _ _ Hc) in Hs.
        destruct (Hfresh eq_refl e' ln Hin) as [_ Hp]. congruence. }
  unfold Inv. split; [|split; [exact M|split; [intros q Hq; apply Hpres, Hmono, Hq|]]].
  { intros a b Hab. pose proof (Hc a b Hab) as Hg. unfold get in Hg |- *. destruct a as [|x0 a]; [reflexivity|].
    rewrite P; [exact Hg | congruence | apply (chain_not_leaf (st_fs st) ln (tr_tail c e) _ b Hc Hab)]. }
  split.
  { intros e' ln' Hin. apply in_app_or in Hin as [Hin|[Hin|[]]].
    - rewrite P; [apply Hcont; exact Hin | rewrite (Hcont _ _ Hin); discriminate | apply (Hdist _ _ Hin)].
    - inversion Hin; subst. exact Hleaf. }
  unfold name_choice in Nc. cbn [tr_names_cfg overwrite] in Nc.
  split.
  { intros Eo e' ln' Hin. apply in_app_or in Hin as [Hin|[Hin|[]]]; [apply (Hkey Eo _ _ Hin)|].
    inversion Hin; subst. rewrite Eo in Nc. destruct Nc as [-> _]. reflexivity. }
  (* freshness of the new name with respect to the initial file system, and its presence now *)
  assert (Hnew : tc_overwrite c = false -> lookup f0 (d ++ [ln]) = None /\ lookup (st_fs st') (d ++ [ln]) <> None).
  { intro Eo. rewrite Eo in Nc. destruct (tr_json c) eqn:Ej.
    - rewrite (pid_json e Ej) in Nc. destruct (Hmap Eo eq_refl) as (Hm1 & Hm2 & Hm3).
      destruct (map_get (st_map st) (te_id e)) as [v|] eqn:Em.
      + destruct Nc as [-> _]. destruct (Hm2 _ _ Em) as [Hp Hf]. split; [exact Hf | apply Hpres, Hp].
      + destruct Nc as [Hs _]. apply (stat_notexist_lookup _ _ _ Hc) in Hs. split.
        * destruct (lookup f0 (d ++ [ln])) eqn:El; [|reflexivity]. exfalso. apply (Hmono (d ++ [ln])); [rewrite El; discriminate | exact Hs].
        * assert (Hnone : forall e' ln', In (e', ln') done -> te_id e' <> te_id e).
          { intros e' ln' Hin Hid. rewrite <- Hid, (Hm1 _ _ Hin) in Em. discriminate. }
          pose proof (Dfirst Eo eq_refl Hnone) as Ht. rewrite <- (tail_json e Ej) in Ht.
          subst leaf. rewrite Ht in Hleaf. rewrite Hleaf. discriminate.
    - rewrite (pid_plain e Ej) in Nc. destruct Nc as [Hs _]. apply (stat_notexist_lookup _ _ _ Hc) in Hs. split.
      + destruct (lookup f0 (d ++ [ln])) eqn:El; [|reflexivity]. exfalso. apply (Hmono (d ++ [ln])); [rewrite El; discriminate | exact Hs].
      + subst leaf. rewrite (tail_plain e Ej) in Hleaf. rewrite Hleaf. discriminate. }
  split.
  { intros Eo e' ln' Hin. apply in_app_or in Hin as [Hin|[Hin|[]]].
    - destruct (Hfresh Eo _ _ Hin) as [A B]. split; [exact A | apply Hpres, B].
    - inversion Hin; subst. apply Hnew, Eo. }
  intros Eo Ej. rewrite Eo, (pid_json e Ej) in Nc. destruct (Hmap Eo Ej) as (Hm1 & Hm2 & Hm3).
  destruct (map_get (st_map st) (te_id e)) as [v|] eqn:Em.
  - destruct Nc as [-> Es]. rewrite Es. split; [|split; [|exact Hm3]].
    + intros e' ln' Hin. apply in_app_or in Hin as [Hin|[Hin|[]]]; [apply (Hm1 _ _ Hin)|]. inversion Hin; subst. exact Em.
    + intros id v' Hv. destruct (Hm2 _ _ Hv) as [A B]. split; [apply Hpres, A | exact B].
  - destruct Nc as [Hs Es]. rewrite Es. destruct (Hnew Eo) as [Hn1 Hn2].
    assert (Hold : forall id v', map_get (st_map st) id = Some v' -> v' <> ln).
    { intros id v' Hv ->. destruct (Hm2 _ _ Hv) as [A _]. apply (stat_notexist_lookup _ _ _ Hc) in Hs. congruence. }
    split; [|split].
    + intros e' ln' Hin. cbn [map_get]. apply in_app_or in Hin as [Hin|[Hin|[]]].
      * destruct (Z.eqb (te_id e) (te_id e')) eqn:Ez; [|apply (Hm1 _ _ Hin)].
        apply Z.eqb_eq in Ez. rewrite Ez, (Hm1 _ _ Hin) in Em. discriminate.
      * inversion Hin; subst. rewrite Z.eqb_refl. reflexivity.
    + intros id v'. cbn [map_get]. destruct (Z.eqb (te_id e) id).
      * intro Hv; inversion Hv; subst. split; assumption.
      * intro Hv. destruct (Hm2 _ _ Hv) as [A B]. split; [apply Hpres, A | exact B].
    + intros id1 id2 v'. cbn [map_get]. destruct (Z.eqb (te_id e) id1) eqn:Z1; destruct (Z.eqb (te_id e) id2) eqn:Z2.
      * apply Z.eqb_eq in Z1, Z2. congruence.
      * intros Hv1 Hv2. inversion Hv1; subst. exfalso. apply (Hold _ _ Hv2). reflexivity.
      * intros Hv1 Hv2. inversion Hv2; subst. exfalso. apply (Hold _ _ Hv1). reflexivity.
      * apply Hm3.
Qed.

Lemma nodup_mid {A B} (f : A -> B) pre e post : NoDup (map f (pre ++ e :: post)) -> forall a, In a pre -> f a <> f e.
Proof.
  rewrite map_app. cbn [map]. intros Hn a Ha Heq. apply NoDup_remove_2 in Hn. apply Hn.
  apply in_or_app. left. rewrite <- Heq. apply in_map. exact Ha.
Qed.

Lemma spec_inv : forall es done st names per all stf,
  Inv st done -> tr_wf c (map fst done ++ es) ->
  tr_spec c d es st names = Some (per, all, stf) ->
  Inv stf (done ++ combine es per) /\ length per = length es /\ all = fold_left tr_add_name per names.
Proof.
  induction es as [|e es IH]; intros done st names per all stf HI Hwf Hs.
  - cbn in Hs. inversion Hs; subst. cbn. rewrite app_nil_r. auto.
  - cbn [tr_spec] in Hs. destruct (tr_spec_entry c d e st) as [[ln st1]|] eqn:Ee; [|discriminate].
    destruct (tr_spec c d es st1 (tr_add_name names ln)) as [[[per' all'] stf']|] eqn:Er; [|discriminate].
    inversion Hs; subst.
    assert (HI1 : Inv st1 (done ++ [(e, ln)])).
    { apply (inv_step st done e ln st1 HI); [| | | exact Ee].
      - intros Eo e' ln' Hin. destruct Hwf as [_ Hw]. specialize (Hw Eo).
        apply (nodup_mid _ _ _ _ Hw e'). apply in_map_iff. exists (e', ln'). auto.
      - intros Eo Ej e' ln' Hin Hid Ht. destruct Hwf as [Hw _]. destruct (Hw Eo Ej) as [Hn _].
        apply (nodup_mid _ _ _ _ Hn e'); [apply in_map_iff; exists (e', ln'); auto | congruence].
      - intros Eo Ej Hnone. destruct Hwf as [Hw _]. destruct (Hw Eo Ej) as [_ Hf].
        destruct (tl (te_rel e)) eqn:Et; [reflexivity|]. exfalso.
        destruct (Hf (map fst done) e es eq_refl) as (e' & Hin & Hid); [rewrite Et; discriminate|].
        apply in_map_iff in Hin as ([e'' ln''] & <- & Hin). apply (Hnone _ _ Hin Hid). }
    assert (Hwf1 : tr_wf c (map fst (done ++ [(e, ln)]) ++ es)).
    { rewrite map_app, <- app_assoc. exact Hwf. }
    destruct (IH _ _ _ _ _ _ HI1 Hwf1 Er) as (A & B & C).
    rewrite <- app_assoc in A. cbn [combine length fold_left]. split; [exact A|]. split; [congruence | exact C].
Qed.

Lemma inv_init : stat f0 d = SFound Dir -> Inv (init_state f0) [].
Proof.
  intro Hd. unfold Inv. cbn [init_state st_fs st_map].
  split; [apply stat_dir_chain, Hd|]. split; [intros id v Hv; discriminate Hv|]. split; [auto|].
  split; [intros ? ? Hf; destruct Hf|]. split; [intros _ ? ? Hf; destruct Hf|]. split; [intros _ ? ? Hf; destruct Hf|].
  intros _ _. split; [intros ? ? Hf; destruct Hf|]. split; intros; discriminate.
Qed.

Theorem spec_tree es per all stf : stat f0 d = SFound Dir -> tr_wf c es ->
  tr_spec c d es (init_state f0) [] = Some (per, all, stf) ->
  length per = length es /\ all = fold_left tr_add_name per [] /\
  (forall e ln, In (e, ln) (combine es per) -> lookup (st_fs stf) (d ++ ln :: tr_tail c e) = Some (tr_node e)) /\
  (tc_overwrite c = true -> forall e ln, In (e, ln) (combine es per) -> ln = tr_key c e) /\
  (tc_overwrite c = false -> forall e ln, In (e, ln) (combine es per) ->
     lookup f0 (d ++ [ln]) = None /\ lookup (st_fs stf) (d ++ [ln]) <> None) /\
  (forall q, lookup f0 q <> None -> lookup (st_fs stf) q <> None).
Proof.
  intros Hd Hwf Hs. destruct (spec_inv es [] _ _ _ _ _ (inv_init Hd) Hwf Hs) as ((_ & _ & Hmono & Hcont & Hkey & Hfresh & _) & Hl & Ha).
  cbn [app] in *. auto 10.
Qed.

(* the deduplicated list names exactly the per-entry names *)
Lemma in_add_name names n x : In x (tr_add_name names n) <-> In x names \/ x = n.
Proof.
  unfold tr_add_name. destruct (existsb (list_eqb n) names) eqn:E.
  - split; [auto|]. intros [Hx | ->]; [exact Hx|]. apply existsb_exists in E as (y & Hy & Ey).
    apply list_eqb_eq in Ey. subst. exact Hy.
  - rewrite in_app_iff. cbn. intuition.
Qed.

Lemma in_fold_add per : forall names x, In x (fold_left tr_add_name per names) <-> In x names \/ In x per.
Proof.
  induction per as [|n per IH]; intros names x; cbn [fold_left]; [cbn; tauto|].
  rewrite IH, in_add_name. cbn. intuition.
Qed.

Lemma nodup_snoc {A} (l : list A) (x : A) : NoDup l -> ~ In x l -> NoDup (l ++ [x]).
Proof.
  induction l as [|a l IH]; intros Hn Hx; cbn [app]; [constructor; [intros Hf; destruct Hf | constructor]|].
  inversion Hn; subst. constructor.
  - intro Hin. apply in_app_or in Hin as [Hin|[->|Hf]]; [contradiction | apply Hx; left; reflexivity | destruct Hf].
  - apply IH; [assumption | intro Hin; apply Hx; right; exact Hin].
Qed.

Lemma nodup_add_name names n : NoDup names -> NoDup (tr_add_name names n).
Proof.
  intro Hn. unfold tr_add_name. destruct (existsb (list_eqb n) names) eqn:E; [exact Hn|].
  apply nodup_snoc; [exact Hn|]. intro Hin.
  assert (existsb (list_eqb n) names = true); [|congruence].
  apply existsb_exists. exists n. split; [exact Hin | apply list_eqb_refl].
Qed.

End Tree.

(* ---------- [tr_wfb] decides [tr_wf] ---------- *)
Lemma nodupb_ok {A} (eqb : A -> A -> bool) (l : list A) :
  (forall a b, eqb a b = true <-> a = b) -> tr_nodupb eqb l = true -> NoDup l.
Proof.
  intro He. induction l as [|x r IH]; intro Hn; [constructor|]. cbn [tr_nodupb] in Hn.
  apply andb_true_iff in Hn as [H1 H2]. constructor; [|apply IH, H2].
  intro Hin. apply negb_true_iff in H1. assert (existsb (eqb x) r = true); [|congruence].
  apply existsb_exists. exists x. split; [exact Hin | apply He; reflexivity].
Qed.

Lemma first_top_ok : forall es seen, tr_first_top seen es = true ->
  forall pre e post, es = pre ++ e :: post -> tl (te_rel e) <> [] ->
  In (te_id e) seen \/ exists e', In e' pre /\ te_id e' = te_id e.
Proof.
  induction es as [|x es IH]; intros seen Hf pre e post Heq Ht; [destruct pre; discriminate|].
  cbn [tr_first_top] in Hf. apply andb_true_iff in Hf as [H1 H2].
  destruct pre as [|p pre]; cbn [app] in Heq; inversion Heq; subst.
  - left. destruct (tl (te_rel e)); [congruence|]. apply existsb_exists in H1 as (i & Hi & Ei).
    apply Z.eqb_eq in Ei. subst. exact Hi.
  - destruct (IH _ H2 pre e post eq_refl Ht) as [[Hi|Hi]|(e' & Hi & Ee)].
    + right. exists p. split; [left; reflexivity | exact Hi].
    + left. exact Hi.
    + right. exists e'. split; [right; exact Hi | exact Ee].
Qed.

Lemma tr_wfb_ok c es : tr_wfb c es = true -> tr_wf c es.
Proof.
  unfold tr_wfb, tr_wf. intro Hb. split.
  - intros Eo Ej. rewrite Eo, Ej in Hb. apply andb_true_iff in Hb as [H1 H2]. split.
    + apply (nodupb_ok _ _) in H1; [exact H1|]. intros [i1 t1] [i2 t2]. cbn [fst snd].
      rewrite andb_true_iff, Z.eqb_eq, path_eqb_eq. split; [intros [-> ->]; reflexivity | intro Hx; inversion Hx; auto].
    + intros pre e post Heq Ht. destruct (first_top_ok es [] H2 pre e post Heq Ht) as [[]|Hx]; exact Hx.
  - intro Eo. rewrite Eo in Hb. apply (nodupb_ok _ _) in Hb; [exact Hb|]. intros a b. apply path_eqb_eq.
Qed.
