(* What a successful creation step of Names.v does to the abstract file system, at the
   precision the whole-transfer theorem (C01) needs: the node at the leaf path afterwards,
   every path that existed before keeps its node (except the leaf), the outcome does not
   depend on the bytes written, and how the local name was chosen. *)
From Coq Require Import ZArith Lia.
From Trzsz Require Import Base.Bytes Gen.Consts Model.Path Model.Fs Model.Names Proofs.PathFs Proofs.Names.

Definition old_content (f : fs) (p : path) : list N :=
  match lookup f p with Some (File o) => o | _ => [] end.

Lemma write0_nil_l pl : write0 [] pl = pl.
Proof. unfold write0. rewrite skipn_nil, app_nil_r. reflexivity. Qed.

Lemma write0_nil_r old : write0 old [] = old.
Proof. reflexivity. Qed.

(* ---------- os.OpenFile + Write ---------- *)
Lemma open_create_result f p t pl f' es : open_create f p t pl = Some (f', es) ->
  lookup f' p = Some (File (write0 (if t then [] else old_content f p) pl)) /\
  (forall q, q <> p -> lookup f' q = lookup f q) /\
  (forall y, exists f2, open_create f p t y = Some (f2, es)).
Proof.
  unfold open_create, old_content. destruct p as [|c0 p0]; [discriminate|]. set (p := c0 :: p0).
  destruct (stat f (removelast p)) as [[|]| |]; try discriminate.
  destruct (has_nul (last p []) || (name_max <? name_len (last p []))); [discriminate|].
  destruct (lookup f p) as [[old|]|] eqn:E; intro Hx; inversion Hx; subst; clear Hx.
  - split; [rewrite lookup_set, path_eqb_refl; reflexivity|].
    split; [intros q Hq; apply lookup_set_other; exact Hq | intro y; eexists; reflexivity].
  - split; [rewrite lookup_set, path_eqb_refl; destruct t; rewrite write0_nil_l; reflexivity|].
    split; [intros q Hq; apply lookup_set_other; exact Hq | intro y; eexists; reflexivity].
Qed.

Lemma do_create_file_result p t pl st st' : do_create_file p t pl st = (true, st') ->
  lookup (st_fs st') p = Some (File (write0 (if t then [] else old_content (st_fs st) p) pl)) /\
  (forall q, q <> p -> lookup (st_fs st') q = lookup (st_fs st) q) /\
  st_map st' = st_map st /\
  (forall y, exists st2, do_create_file p t y st = (true, st2)).
Proof.
  unfold do_create_file. destruct (open_create (st_fs st) p t pl) as [[f' es]|] eqn:E; [|discriminate].
  intro Hx; inversion Hx; subst; clear Hx. destruct (open_create_result _ _ _ _ _ _ E) as (A & B & C).
  cbn [st_fs st_map]. split; [exact A|]. split; [exact B|]. split; [reflexivity|].
  intro y. destruct (C y) as (f2 & E2). rewrite E2. eexists; reflexivity.
Qed.

(* ---------- os.MkdirAll ---------- *)
Lemma mk_down_ok : forall rest f pre f' es, mk_down f pre rest = (true, f', es) -> rest <> [] ->
  lookup f' (pre ++ rest) = Some Dir.
Proof.
  induction rest as [|c rest IH]; intros f pre f' es Hm Hne; [congruence|].
  cbn [mk_down] in Hm. destruct (has_nul c || (name_max <? name_len c)); [discriminate|].
  destruct rest as [|c2 rest].
  - destruct (lookup f (pre ++ [c])) as [[old|]|] eqn:El.
    + discriminate.
    + cbn [mk_down] in Hm. inversion Hm; subst. exact El.
    + cbn [mk_down] in Hm. inversion Hm; subst. rewrite lookup_set, path_eqb_refl. reflexivity.
  - destruct (lookup f (pre ++ [c])) as [[old|]|] eqn:El.
    + discriminate.
    + specialize (IH f (pre ++ [c]) f' es Hm ltac:(discriminate)). rewrite <- app_assoc in IH. exact IH.
    + destruct (mk_down (set f (pre ++ [c]) Dir) (pre ++ [c]) (c2 :: rest)) as [[ok3 f3] es3] eqn:E3.
      inversion Hm; subst. specialize (IH _ _ _ _ E3 ltac:(discriminate)). rewrite <- app_assoc in IH. exact IH.
Qed.

Lemma walk_found_lookup : forall rest f pre n, walk f pre rest = SFound n -> pre ++ rest <> [] ->
  lookup f (pre ++ rest) = Some n.
Proof.
  induction rest as [|c rest IH]; intros f pre n Hw Hne; cbn [walk] in Hw.
  - rewrite app_nil_r in *. unfold get in Hw. destruct pre as [|x pre]; [congruence|].
    destruct (lookup f (x :: pre)); [inversion Hw; reflexivity | discriminate].
  - destruct (get f pre) as [[|]|]; try discriminate.
    destruct (name_max <? name_len c); [discriminate|].
    specialize (IH f (pre ++ [c]) n Hw). rewrite <- app_assoc in IH. apply IH. destruct pre; discriminate.
Qed.

Lemma stat_found_lookup f p n : stat f p = SFound n -> p <> [] -> lookup f p = Some n.
Proof.
  unfold stat. destruct (bad_path p); [discriminate|]. intros Hw Hne. apply (walk_found_lookup p f [] n Hw Hne).
Qed.

Lemma do_create_directory_result p st st' : p <> [] -> do_create_directory p st = (true, st') ->
  lookup (st_fs st') p = Some Dir /\
  (forall q, lookup (st_fs st) q <> None \/ ~ (exists b, p = q ++ b) -> lookup (st_fs st') q = lookup (st_fs st) q) /\
  st_map st' = st_map st.
Proof.
  intros Hne. unfold do_create_directory. destruct (stat (st_fs st) p) as [[old|]| |] eqn:Es.
  - discriminate.
  - intro Hx; inversion Hx; subst. split; [apply stat_found_lookup; assumption|]. split; [reflexivity | reflexivity].
  - destruct (mkdir_all (st_fs st) p) as [[ok f1] es1] eqn:Em. intro Hx; inversion Hx; subst; clear Hx.
    cbn [st_fs st_map]. unfold mkdir_all in Em. split; [apply (mk_down_ok p _ [] _ _ Em Hne)|]. split; [|reflexivity].
    apply mk_down_frame in Em. destruct Em as [F _]. intros q Hq. apply F.
    intros (a & b & Ha & Hp & Hqa & Hl). cbn [app] in Hqa. subst q. destruct Hq as [Hq|Hq]; [congruence|].
    apply Hq. exists b. exact Hp.
  - discriminate.
Qed.

(* ---------- createDirOrFile's last step ---------- *)
Lemma create_leaf_result s full t pl ln st res st' : full <> [] ->
  create_leaf s full t pl ln st = (NOk res, st') ->
  res = ln /\
  lookup (st_fs st') full =
    Some (if s_isdir s then Dir else File (write0 (if t then [] else old_content (st_fs st) full) pl)) /\
  (forall q, lookup (st_fs st) q <> None -> q <> full -> lookup (st_fs st') q = lookup (st_fs st) q) /\
  st_map st' = st_map st /\
  (forall y, exists st2, create_leaf s full t y ln st = (NOk ln, st2)) /\
  (s_archive s = true -> s_isdir s = true).
Proof.
  intros Hne. unfold create_leaf.
  assert (HD : forall (E : do_create_directory full st = (true, st')),
     lookup (st_fs st') full = Some Dir /\
     (forall q, lookup (st_fs st) q <> None -> q <> full -> lookup (st_fs st') q = lookup (st_fs st) q) /\
     st_map st' = st_map st).
  { intro E. destruct (do_create_directory_result _ _ _ Hne E) as (A & B & C).
    split; [exact A|]. split; [intros q Hq _; apply B; left; exact Hq | exact C]. }
  destruct (s_archive s).
  - destruct (s_isdir s); cbn [negb]; [|discriminate].
    destruct (do_create_directory full st) as [ok st1] eqn:E. destruct ok; [|discriminate].
    intro Hx; inversion Hx; subst. destruct (HD eq_refl) as (A & B & C).
    split; [reflexivity|]. split; [exact A|]. split; [exact B|]. split; [exact C|]. split; [|reflexivity].
    intro y. eexists; reflexivity.
  - destruct (s_isdir s).
    + destruct (do_create_directory full st) as [ok st1] eqn:E. destruct ok; [|discriminate].
      intro Hx; inversion Hx; subst. destruct (HD eq_refl) as (A & B & C).
      split; [reflexivity|]. split; [exact A|]. split; [exact B|]. split; [exact C|]. split; [|discriminate].
      intro y. eexists; reflexivity.
    + destruct (do_create_file full t pl st) as [ok st1] eqn:E. destruct ok; [|discriminate].
      intro Hx; inversion Hx; subst. destruct (do_create_file_result _ _ _ _ _ E) as (A & B & C & D).
      split; [reflexivity|]. split; [exact A|]. split; [intros q _ Hq; apply B; exact Hq|]. split; [exact C|]. split; [|discriminate].
      intro y. destruct (D y) as (st2 & E2). rewrite E2. eexists; reflexivity.
Qed.

(* how createDirOrFile / createFile pick the local name *)
Definition name_choice (cfg : config) (d : path) (st st' : state) (id : option Z) (r0 ln : name) : Prop :=
  if overwrite cfg then ln = r0 /\ st_map st' = st_map st
  else match id with
       | None => stat (st_fs st) (d ++ [ln]) = SNotExist /\ st_map st' = st_map st
       | Some i =>
         match map_get (st_map st) i with
         | Some v => ln = v /\ st_map st' = st_map st
         | None => stat (st_fs st) (d ++ [ln]) = SNotExist /\ st_map st' = (i, ln) :: st_map st
         end
       end.

Definition map_good (m : list (Z * name)) : Prop := forall id v, map_get m id = Some v -> good v.

Lemma app_not_prefix_longer {A} (p : list A) (x : A) : ~ (exists b, p = (p ++ [x]) ++ b).
Proof.
  intros (b & Hb). apply (f_equal (@length A)) in Hb. rewrite !app_length in Hb. cbn in Hb. lia.
Qed.

Lemma cdof_result cfg d s r0 rest t pl st ln st' :
  Forall good (r0 :: rest) -> map_good (st_map st) ->
  create_dir_or_file cfg d s r0 rest t pl st = (NOk ln, st') ->
  good ln /\ map_good (st_map st') /\
  lookup (st_fs st') (d ++ ln :: rest) =
    Some (if s_isdir s then Dir else File (write0 (if t then [] else old_content (st_fs st) (d ++ ln :: rest)) pl)) /\
  (forall q, lookup (st_fs st) q <> None -> q <> d ++ ln :: rest -> lookup (st_fs st') q = lookup (st_fs st) q) /\
  name_choice cfg d st st' (Some (s_id s)) r0 ln /\
  (forall y, exists st2, create_dir_or_file cfg d s r0 rest t y st = (NOk ln, st2)) /\
  (s_archive s = true -> s_isdir s = true).
Proof.
  intros Hg Hm. inversion Hg as [|? ? Hg0 Hgr]; subst. unfold create_dir_or_file.
  set (chosen := if overwrite cfg then Some (r0, st) else _).
  assert (Hch : chosen = None \/ exists l1 st1, chosen = Some (l1, st1) /\ good l1 /\ st_fs st1 = st_fs st /\
            map_good (st_map st1) /\ name_choice cfg d st st1 (Some (s_id s)) r0 l1).
  { subst chosen. unfold name_choice. destruct (overwrite cfg) eqn:Eo.
    - right. exists r0, st. split; [reflexivity|]. split; [exact Hg0|]. split; [reflexivity|]. split; [exact Hm|]. split; reflexivity.
    - destruct (map_get (st_map st) (s_id s)) as [v|] eqn:Em.
      + right. exists v, st. split; [reflexivity|]. split; [exact (Hm _ _ Em)|]. split; [reflexivity|]. split; [exact Hm|]. split; reflexivity.
      + destruct (get_new_name (st_fs st) d r0) as [l1|] eqn:En; [|left; reflexivity].
        destruct (get_new_name_good _ _ _ _ Hg0 En) as [Hl Hs]. right.
        exists l1, (set_map st ((s_id s, l1) :: st_map st)). cbn [set_map st_fs st_map].
        split; [reflexivity|]. split; [exact Hl|]. split; [reflexivity|]. split; [|split; [exact Hs | reflexivity]].
        intros id v. cbn [map_get]. destruct (Z.eqb (s_id s) id); [intro Hx; inversion Hx; subst; exact Hl | apply Hm]. }
  destruct Hch as [->|(l1 & st1 & -> & Hl & Ef & Hm1 & Hn)]; [discriminate|].
  assert (Hold : forall q, lookup (st_fs st1) q = lookup (st_fs st) q) by (intro q; rewrite Ef; reflexivity).
  assert (Hmap : forall st2, st_map st2 = st_map st1 -> name_choice cfg d st st2 (Some (s_id s)) r0 l1).
  { intros st2 E2. unfold name_choice in *. destruct (overwrite cfg); [rewrite E2; exact Hn|].
    destruct (map_get (st_map st) (s_id s)); rewrite E2; exact Hn. }
  destruct rest as [|c rest].
  - rewrite join_good by (constructor; [exact Hl | constructor]).
    intro Hx. assert (Hne : d ++ [l1] <> []) by (destruct d; discriminate).
    destruct (create_leaf_result s (d ++ [l1]) t pl l1 st1 ln st' Hne Hx) as (-> & A & B & C & D & Ar).
    split; [exact Hl|]. split; [rewrite C; exact Hm1|]. unfold old_content in *. rewrite Hold in A.
    split; [exact A|]. split; [intros q Hq Hq2; rewrite <- Hold; apply B; [rewrite Hold; exact Hq | exact Hq2]|].
    split; [apply Hmap; exact C|]. split; [exact D | exact Ar].
  - destruct (forall_good_split (c :: rest) ltac:(discriminate) Hgr) as [Hmid Hlast].
    set (mids := removelast (c :: rest)) in *. set (lst := last (c :: rest) []) in *.
    assert (Hsplit : c :: rest = mids ++ [lst]) by (apply app_removelast_last; discriminate).
    rewrite (join_good (l1 :: mids)) by (constructor; assumption).
    destruct (do_create_directory (d ++ l1 :: mids) st1) as [ok st2] eqn:Ed. destruct ok; [|discriminate].
    rewrite join_good by (constructor; [exact Hlast | constructor]).
    assert (Hne1 : d ++ l1 :: mids <> []) by (destruct d; discriminate).
    destruct (do_create_directory_result _ _ _ Hne1 Ed) as (A1 & B1 & C1).
    intro Hx. assert (Hne : (d ++ l1 :: mids) ++ [lst] <> []) by (destruct d; discriminate).
    destruct (create_leaf_result s _ t pl l1 st2 ln st' Hne Hx) as (-> & A & B & C & D & Ar).
    assert (Hleaf : (d ++ l1 :: mids) ++ [lst] = d ++ l1 :: c :: rest).
    { rewrite Hsplit, <- app_assoc. reflexivity. }
    rewrite Hleaf in *.
    assert (Hl2 : lookup (st_fs st2) (d ++ l1 :: c :: rest) = lookup (st_fs st) (d ++ l1 :: c :: rest)).
    { rewrite <- Hold. apply B1. right. rewrite <- Hleaf.
      apply app_not_prefix_longer. }
    split; [exact Hl|]. split; [rewrite C, C1; exact Hm1|].
    split; [unfold old_content in *; rewrite Hl2 in A; exact A|].
    split; [intros q Hq Hq2; rewrite B; [rewrite <- Hold; apply B1; left; rewrite Hold; exact Hq | | exact Hq2]|].
    { rewrite B1; [rewrite Hold; exact Hq | left; rewrite Hold; exact Hq]. }
    split; [apply Hmap; rewrite C, C1; reflexivity|]. split; [|exact Ar].
    intro y. destruct (D y) as (st3 & E3). exists st3. exact E3.
Qed.

Lemma create_file_result cfg d nm pl st ln st' :
  create_file code_checks cfg d nm true pl st = (NOk ln, st') ->
  good ln /\
  lookup (st_fs st') (d ++ [ln]) = Some (File pl) /\
  (forall q, lookup (st_fs st) q <> None -> q <> d ++ [ln] -> lookup (st_fs st') q = lookup (st_fs st) q) /\
  name_choice cfg d st st' None nm ln /\
  (forall y, exists st2, create_file code_checks cfg d nm true y st = (NOk ln, st2)).
Proof.
  unfold create_file. destruct code_checks_on as [_ Hck]. rewrite Hck. cbn [andb].
  destruct (valid_name nm) eqn:Ev; cbn [negb]; [|discriminate]. apply valid_name_good in Ev.
  assert (Hch : (if overwrite cfg then Some nm else get_new_name (st_fs st) d nm) = None \/
            exists l1, (if overwrite cfg then Some nm else get_new_name (st_fs st) d nm) = Some l1 /\ good l1 /\
              (if overwrite cfg then l1 = nm else stat (st_fs st) (d ++ [l1]) = SNotExist)).
  { destruct (overwrite cfg) eqn:Eo; [right; exists nm; auto|].
    destruct (get_new_name (st_fs st) d nm) as [l1|] eqn:En; [|left; reflexivity].
    destruct (get_new_name_good _ _ _ _ Ev En) as [Hl Hs]. right. exists l1. auto. }
  destruct Hch as [->|(l1 & -> & Hl & Hn)]; [discriminate|].
  rewrite join_good by (constructor; [exact Hl | constructor]).
  destruct (do_create_file (d ++ [l1]) true pl st) as [ok st1] eqn:E. destruct ok; [|discriminate].
  intro Hx; inversion Hx; subst. destruct (do_create_file_result _ _ _ _ _ E) as (A & B & C & D).
  split; [exact Hl|]. rewrite write0_nil_l in A. split; [exact A|].
  split; [intros q _ Hq; apply B; exact Hq|].
  split; [unfold name_choice; destruct (overwrite cfg); auto|].
  intro y. destruct (D y) as (st2 & E2). rewrite E2. eexists; reflexivity.
Qed.

(* ---------- the creation step of the transfer model ---------- *)
From Trzsz Require Import Model.Transfer.


Lemma tr_create_result c d p x st ln st' :
  map_good (st_map st) ->
  tr_create c d p x st = (NOk ln, st') ->
  good ln /\ map_good (st_map st') /\ Forall good (tr_p_tail p) /\
  lookup (st_fs st') (d ++ ln :: tr_p_tail p) =
    Some (if tr_p_isdir p then Dir
          else File (write0 (if tr_json_names c then old_content (st_fs st) (d ++ ln :: tr_p_tail p) else []) x)) /\
  (forall q, lookup (st_fs st) q <> None -> q <> d ++ ln :: tr_p_tail p -> lookup (st_fs st') q = lookup (st_fs st) q) /\
  name_choice (tr_names_cfg c) d st st' (tr_p_id p) (tr_p_head p) ln /\
  (forall y, exists st2, tr_create c d p y st = (NOk ln, st2)) /\
  (tr_p_archive p = true -> tr_p_isdir p = true).
Proof.
  intros Hm. unfold tr_create. destruct p as [nm|s sz]; cbn [tr_p_archive tr_p_tail tr_p_isdir tr_p_id tr_p_head] in *.
  - destruct (tr_json c) eqn:Ej; [discriminate|]. intro Hx.
    destruct (create_file_result _ _ _ _ _ _ _ Hx) as (A & B & C & D & E).
    assert (Ejn : tr_json_names c = false) by (unfold tr_json in Ej; apply orb_false_iff in Ej; tauto).
    rewrite Ejn, write0_nil_l. split; [exact A|].
    split; [|split; [constructor | split; [exact B | split; [exact C | split; [exact D | split; [exact E | discriminate]]]]]].
    unfold name_choice in D. destruct (overwrite (tr_names_cfg c)); destruct D as [_ ->]; exact Hm.
  - assert (HJ : forall t, recv_json code_checks (tr_names_cfg c) d (Some s) t x st = (NOk ln, st') ->
      good ln /\ map_good (st_map st') /\ Forall good (tl (s_rel s)) /\
      lookup (st_fs st') (d ++ ln :: tl (s_rel s)) =
        Some (if s_isdir s then Dir else File (write0 (if t then [] else old_content (st_fs st) (d ++ ln :: tl (s_rel s))) x)) /\
      (forall q, lookup (st_fs st) q <> None -> q <> d ++ ln :: tl (s_rel s) -> lookup (st_fs st') q = lookup (st_fs st) q) /\
      name_choice (tr_names_cfg c) d st st' (Some (s_id s)) (hd [] (s_rel s)) ln /\
      (forall y, exists st2, recv_json code_checks (tr_names_cfg c) d (Some s) t y st = (NOk ln, st2)) /\
      (s_archive s = true -> s_isdir s = true)).
    { intro t. unfold recv_json. destruct (s_rel s) as [|r0 rest] eqn:Er; [discriminate|].
      destruct code_checks_on as [Hu _]. rewrite Hu. cbn [andb].
      destruct (forallb valid_name (r0 :: rest)) eqn:Ev; cbn [negb]; [|discriminate].
      apply forallb_valid_good in Ev. intro Hx. cbn [tl hd].
      destruct (cdof_result _ _ _ _ _ _ _ _ _ _ Ev Hm Hx) as (A & B & C & D & E & F & Ar).
      split; [exact A|]. split; [exact B|]. split; [inversion Ev; assumption|]. auto 10. }
    destruct (tr_json_names c) eqn:Ejn.
    + intro Hx. apply (HJ false Hx).
    + destruct (tc_directory c); [|discriminate]. intro Hx. apply (HJ true Hx).
Qed.

(* ---------- whether a creation succeeds, and under which name, does not depend on the bytes ---------- *)
Lemma open_create_indep f p t x y :
  match open_create f p t x, open_create f p t y with
  | Some _, Some _ | None, None => True
  | _, _ => False
  end.
Proof.
  unfold open_create. destruct p as [|c0 p0]; [exact I|].
  destruct (stat f (removelast (c0 :: p0))) as [[|]| |]; try exact I.
  destruct (has_nul (last (c0 :: p0) []) || (name_max <? name_len (last (c0 :: p0) []))); [exact I|].
  destruct (lookup f (c0 :: p0)) as [[old|]|]; exact I.
Qed.

Lemma do_create_file_indep p t x y st : fst (do_create_file p t x st) = fst (do_create_file p t y st).
Proof.
  unfold do_create_file. pose proof (open_create_indep (st_fs st) p t x y) as Hi.
  destruct (open_create (st_fs st) p t x) as [[? ?]|]; destruct (open_create (st_fs st) p t y) as [[? ?]|];
    try contradiction; reflexivity.
Qed.

Lemma create_leaf_indep s full t x y ln st : fst (create_leaf s full t x ln st) = fst (create_leaf s full t y ln st).
Proof.
  unfold create_leaf. destruct (s_archive s); [reflexivity|]. destruct (s_isdir s); [reflexivity|].
  pose proof (do_create_file_indep full t x y st) as Hi.
  destruct (do_create_file full t x st) as [[|] ?]; destruct (do_create_file full t y st) as [[|] ?];
    cbn [fst] in Hi; try discriminate; reflexivity.
Qed.

Lemma cdof_indep cfg d s r0 rest t x y st :
  fst (create_dir_or_file cfg d s r0 rest t x st) = fst (create_dir_or_file cfg d s r0 rest t y st).
Proof.
  unfold create_dir_or_file.
  destruct (if overwrite cfg then Some (r0, st) else _) as [[ln st1]|]; [|reflexivity].
  destruct rest as [|c rest]; [apply create_leaf_indep|].
  destruct (do_create_directory (join d (ln :: removelast (c :: rest))) st1) as [[|] st2]; [|reflexivity].
  apply create_leaf_indep.
Qed.

Lemma tr_create_indep c d p x y st : fst (tr_create c d p x st) = fst (tr_create c d p y st).
Proof.
  unfold tr_create. destruct p as [nm|s sz].
  - destruct (tr_json c); [reflexivity|]. unfold create_file.
    destruct (chk_create_file code_checks && negb (valid_name nm)); [reflexivity|].
    destruct (if overwrite (tr_names_cfg c) then Some nm else _) as [ln|]; [|reflexivity].
    pose proof (do_create_file_indep (join d [ln]) true x y st) as Hi.
    destruct (do_create_file (join d [ln]) true x st) as [[|] ?]; destruct (do_create_file (join d [ln]) true y st) as [[|] ?];
      cbn [fst] in Hi; try discriminate; reflexivity.
  - assert (HJ : forall t, fst (recv_json code_checks (tr_names_cfg c) d (Some s) t x st) =
                           fst (recv_json code_checks (tr_names_cfg c) d (Some s) t y st)).
    { intro t. unfold recv_json. destruct (s_rel s) as [|r0 rest]; [reflexivity|].
      destruct (chk_unmarshal code_checks && negb (forallb valid_name (r0 :: rest))); [reflexivity|]. apply cdof_indep. }
    destruct (tr_json_names c); [apply HJ|]. destruct (tc_directory c); [apply HJ | reflexivity].
Qed.

(* ---------- the specification run leaves the source tree at the destination ---------- *)
From Trzsz Require Import Model.Wire Proofs.TransferArchive Proofs.TransferResume.
From Trzsz Require Model.Resume Model.Archive.

(* the protocol switches are ordered: the archive mode implies JSON names, which imply the pipelined exchange *)
Lemma proto_order_src_ok :
  (Consts.tr_proto_pipeline <=? Consts.tr_proto_json_names) = true /\
  (Consts.tr_proto_json_names <=? Consts.tr_proto_archive) = true.
Proof. split; reflexivity. Qed.

Lemma archive_mode_facts c : tr_archive_mode c = true ->
  tc_overwrite c = false /\ tr_json_names c = true /\ tr_json c = true /\ tr_pipeline c = true.
Proof.
  unfold tr_archive_mode, tr_json, tr_json_names, tr_pipeline. intro Ha. apply andb_true_iff in Ha as [Hp Ho].
  apply negb_true_iff in Ho. apply N.leb_le in Hp. destruct proto_order_src_ok as [H1 H2]. apply N.leb_le in H1, H2.
  split; [exact Ho|]. assert (Hj : (Consts.tr_proto_json_names <=? tc_proto c) = true) by (apply N.leb_le; lia).
  rewrite Hj. split; [reflexivity|]. split; [reflexivity|]. apply N.leb_le. lia.
Qed.

Lemma is_prefix_longer (d : path) ln a b : d = a ++ b -> is_prefix (d ++ [ln]) a = false.
Proof.
  intro Hab. destruct (is_prefix (d ++ [ln]) a) eqn:E; [|reflexivity]. apply is_prefix_spec in E as (r & Hr).
  apply (f_equal (@length name)) in Hr. rewrite Hab, !app_length in Hr. cbn in Hr. lia.
Qed.

Lemma is_prefix_top (d : path) ln ln' tail : ln' <> ln -> is_prefix (d ++ [ln]) (d ++ ln' :: tail) = false.
Proof.
  intro Hne. destruct (is_prefix (d ++ [ln]) (d ++ ln' :: tail)) eqn:E; [|reflexivity]. apply is_prefix_spec in E as (r & Hr).
  rewrite <- app_assoc in Hr. apply app_inv_head in Hr. inversion Hr. congruence.
Qed.

(* the deduplicated list names exactly the per-entry names *)
Lemma in_add_name names n x : In x (tr_add_name names n) <-> In x names \/ x = n.
Proof.
  unfold tr_add_name. destruct (existsb (list_eqb n) names) eqn:E.
  - split; [auto|]. intros [Hx | ->]; [exact Hx|]. apply existsb_exists in E as (y & Hy & Ey).
    apply list_eqb_eq in Ey. subst. exact Hy.
  - rewrite in_app_iff. cbn. intuition.
Qed.

Lemma in_fold_add per : forall names x, In x (fold_left tr_add_name per names) <-> In x names \/ In x per.
Proof.
  induction per as [|n per IH]; intros names x; cbn [fold_left]; [cbn; tauto|].
  rewrite IH, in_add_name. cbn. intuition.
Qed.

Lemma nodup_snoc {A} (l : list A) (x : A) : NoDup l -> ~ In x l -> NoDup (l ++ [x]).
Proof.
  induction l as [|a l IH]; intros Hn Hx; cbn [app]; [constructor; [intros Hf; destruct Hf | constructor]|].
  inversion Hn; subst. constructor.
  - intro Hin. apply in_app_or in Hin as [Hin|[->|Hf]]; [contradiction | apply Hx; left; reflexivity | destruct Hf].
  - apply IH; [assumption | intro Hin; apply Hx; right; exact Hin].
Qed.

Lemma nodup_add_name names n : NoDup names -> NoDup (tr_add_name names n).
Proof.
  intro Hn. unfold tr_add_name. destruct (existsb (list_eqb n) names) eqn:E; [exact Hn|].
  apply nodup_snoc; [exact Hn|]. intro Hin.
  assert (existsb (list_eqb n) names = true); [|congruence].
  apply existsb_exists. exists n. split; [exact Hin | apply list_eqb_refl].
Qed.

Section Tree.
Variable hx : list byte -> Resume.digest.
Variable ahdr : src -> Z -> list byte.
Variable aparse : list byte -> option (src * Z).
Variable c : tr_cfg.
Variable d : path.
Variable f0 : fs.

Notation spec_entry := (tr_spec_entry hx ahdr aparse c d).
Notation spec := (tr_spec hx ahdr aparse c d).

Lemma tail_json e : tr_json c = true -> tr_tail c e = tl (te_rel e).
Proof. unfold tr_tail, tr_payload. intros ->. reflexivity. Qed.
Lemma tail_plain e : tr_json c = false -> tr_tail c e = [].
Proof. unfold tr_tail, tr_payload. intros ->. reflexivity. Qed.
Lemma pid_json e : tr_json c = true -> tr_p_id (tr_payload c e) = Some (te_id e).
Proof. unfold tr_payload. intros ->. reflexivity. Qed.
Lemma pid_plain e : tr_json c = false -> tr_p_id (tr_payload c e) = None.
Proof. unfold tr_payload. intros ->. reflexivity. Qed.

Lemma payload_archive_subs e : tr_p_archive (tr_payload c e) = true -> te_subs e <> [].
Proof.
  unfold tr_payload. destruct (tr_json c); cbn [tr_p_archive s_archive]; [|discriminate].
  unfold tr_has_subs. destruct (te_subs e); [discriminate | discriminate].
Qed.

Definition Inv (st : state) (done : list (tr_entry * name)) : Prop :=
  chain (st_fs st) d /\ map_good (st_map st) /\
  (forall q, lookup f0 q <> None -> lookup (st_fs st) q <> None) /\
  (forall e ln, In (e, ln) done -> lookup (st_fs st) (d ++ ln :: tr_tail c e) = Some (tr_node e)) /\
  (tc_overwrite c = true -> forall e ln, In (e, ln) done -> ln = tr_key c e) /\
  (tc_overwrite c = false -> forall e ln, In (e, ln) done ->
     lookup f0 (d ++ [ln]) = None /\ lookup (st_fs st) (d ++ [ln]) <> None) /\
  (tc_overwrite c = false -> tr_json c = true ->
     (forall e ln, In (e, ln) done -> map_get (st_map st) (te_id e) = Some ln) /\
     (forall id v, map_get (st_map st) id = Some v ->
        lookup (st_fs st) (d ++ [v]) <> None /\ lookup f0 (d ++ [v]) = None) /\
     (forall id1 id2 v, map_get (st_map st) id1 = Some v -> map_get (st_map st) id2 = Some v -> id1 = id2)) /\
  (* the SubFiles of the archives received so far *)
  (forall e ln, In (e, ln) done -> forall s, In s (te_subs e) -> lookup (st_fs st) (d ++ ln :: tr_tail c s) = Some (tr_node s)).

Lemma path_cons_inj (a : path) x1 t1 x2 t2 : a ++ x1 :: t1 = a ++ x2 :: t2 -> x1 = x2 /\ t1 = t2.
Proof. intro E. apply app_inv_head in E. inversion E. auto. Qed.

Lemma chain_not_leaf f ln tail a b : chain f d -> d = a ++ b -> a <> d ++ ln :: tail.
Proof.
  intros _ Hab E. apply (f_equal (@length name)) in E. rewrite Hab, !app_length in E. cbn in E. lia.
Qed.

(* the premise about the prefix digests, for the file an entry meets (if it meets one) *)
Notation coll_ok := (tr_coll_ok hx c d).

(* what one accepted entry does to the state, whichever of the four ways it is received *)
Lemma spec_entry_effect st e sc ln st' : map_good (st_map st) ->
  (te_subs e <> [] -> tr_archive_mode c = true /\ tr_subs_wf e /\ tl (te_rel e) = []) ->
  (forall s, In s (te_subs e) -> tr_hdr_ok1 ahdr aparse s) -> coll_ok e st ->
  spec_entry e sc st = Some (ln, st') ->
  let leaf := d ++ ln :: tr_tail c e in
  good ln /\ map_good (st_map st') /\
  lookup (st_fs st') leaf = Some (tr_node e) /\
  (forall q, lookup (st_fs st) q <> None ->
     (if tr_has_subs e then is_prefix (d ++ [ln]) q = false else q <> leaf) -> lookup (st_fs st') q = lookup (st_fs st) q) /\
  (forall q, lookup (st_fs st) q <> None -> lookup (st_fs st') q <> None) /\
  name_choice (tr_names_cfg c) d st st' (tr_p_id (tr_payload c e)) (tr_p_head (tr_payload c e)) ln /\
  (forall s, In s (te_subs e) -> lookup (st_fs st') (d ++ ln :: tr_tail c s) = Some (tr_node s)).
Proof.
  intros Hmg Dsub Dhdr Dcoll Hs. cbv zeta.
  unfold tr_spec_entry in Hs. destruct (te_isdir e && negb (tr_json c)) eqn:E0; [discriminate|].
  destruct (tr_create c d (tr_payload c e) [] st) as [[l1|] st1] eqn:E1; [|discriminate].
  assert (Hisdir : tr_p_isdir (tr_payload c e) = te_isdir e).
  { unfold tr_payload. destruct (tr_json c); cbn [tr_p_isdir s_isdir]; [reflexivity|]. destruct (te_isdir e); [discriminate | reflexivity]. }
  destruct (tr_create_result _ _ _ _ _ _ _ Hmg E1) as (G1 & M1 & T1 & L1 & P1 & N1 & I1 & A1).
  fold (tr_tail c e) in L1, P1, T1. rewrite Hisdir in L1, A1.
  (* presence after the first creation *)
  assert (Hpres1 : forall q, lookup (st_fs st) q <> None -> lookup (st_fs st1) q <> None).
  { intros q Hq. destruct (path_eq_dec q (d ++ l1 :: tr_tail c e)) as [->|Hne]; [rewrite L1; discriminate | rewrite P1; assumption]. }
  assert (Hnc : forall st2, st_map st2 = st_map st1 ->
            name_choice (tr_names_cfg c) d st st2 (tr_p_id (tr_payload c e)) (tr_p_head (tr_payload c e)) l1).
  { intros st2 E2. unfold name_choice in *. destruct (overwrite (tr_names_cfg c)); [rewrite E2; exact N1|].
    destruct (tr_p_id (tr_payload c e)) as [i|]; [|rewrite E2; exact N1].
    destruct (map_get (st_map st) i); rewrite E2; exact N1. }
  destruct (tr_has_subs e) eqn:Hsub.
  - (* an archive: the writer's tree below the new directory *)
    assert (Hne : te_subs e <> []) by (unfold tr_has_subs in Hsub; destruct (te_subs e); discriminate).
    destruct (Dsub Hne) as (Ham & Hwf & Htl). destruct (archive_mode_facts c Ham) as (_ & _ & Hj & _).
    destruct (arch_entry_ok ahdr e sc) as (f & Ef & Hdata & _). rewrite Ef in Hs.
    destruct (unarchive_ok ahdr aparse e sc Hwf Dhdr) as (t & Et & Ht). rewrite Hdata, Et in Hs.
    inversion Hs; subst l1 st'. clear Hs.
    assert (Htail : tr_tail c e = []) by (rewrite (tail_json e Hj); exact Htl).
    rewrite Htail in *. unfold tr_graft_st. rewrite set_fs_fs, set_fs_map.
    assert (Hd : te_isdir e = true).
    { apply A1. unfold tr_payload. rewrite Hj. cbn [tr_p_archive s_archive]. exact Hsub. }
    split; [exact G1|]. split; [exact M1|].
    split; [rewrite (graft_root _ _ e t Ht); unfold tr_node; rewrite Hd; reflexivity|].
    split.
    { intros q Hq Hnp. rewrite graft_lookup_out by exact Hnp. apply P1; [exact Hq|]. intros ->.
      pose proof (is_prefix_app (d ++ [ln]) []) as Hx. rewrite app_nil_r in Hx. congruence. }
    split; [intros q Hq; apply graft_present, Hpres1, Hq|].
    split; [apply Hnc; reflexivity|].
    intros s Hin. rewrite (tail_json s Hj).
    change (d ++ ln :: tl (te_rel s)) with (d ++ [ln] ++ tl (te_rel s)). rewrite app_assoc.
    apply (graft_member _ _ e s t Hwf Hin Ht).
  - assert (Hnil : te_subs e = []) by (unfold tr_has_subs in Hsub; destruct (te_subs e); [reflexivity | discriminate]).
    assert (Hnosub : forall (P : tr_entry -> Prop) s, In s (te_subs e) -> P s) by (intros P s Hf; rewrite Hnil in Hf; destruct Hf).
    destruct (te_isdir e) eqn:Hd.
    + (* a directory *)
      inversion Hs; subst l1 st'. clear Hs.
      split; [exact G1|]. split; [exact M1|]. split; [rewrite L1; unfold tr_node; rewrite Hd; reflexivity|].
      split; [intros q Hq Hne; apply P1; assumption|]. split; [exact Hpres1|]. split; [apply Hnc; reflexivity | apply Hnosub].
    + destruct (tr_json_names c && (0 <? tr_target_size d l1 (tr_payload c e) st1)) eqn:E2.
      * (* resumed: the rest of the source behind the agreed offset; no collision: it IS the source *)
        apply andb_true_iff in E2 as [Ej E2].
        pose proof (Dcoll l1 st1 E1) as Dc. unfold tr_no_collision in Dc |- *.
        unfold tr_target_size, tr_leaf in E2. unfold tr_leaf in Hs, Dc. fold (tr_tail c e) in E2, Hs, Dc.
        rewrite join_good in E2, Hs, Dc by (constructor; assumption).
        set (leaf := d ++ l1 :: tr_tail c e) in *.
        assert (Hold : tr_old_content st1 leaf <> []).
        { unfold tr_old_content. destruct (lookup (st_fs st1) leaf) as [[old|]|]; try discriminate.
          destruct old; [discriminate | discriminate]. }
        destruct (tr_resume_run hx c e sc (tr_old_content st1 leaf)) as [o| | | |] eqn:Er; try discriminate.
        inversion Hs; subst l1 st'. clear Hs.
        rewrite (resume_final_identical hx c e sc _ o (Dc Hold) Er).
        split; [exact G1|]. split; [rewrite set_file_map; exact M1|].
        split; [rewrite set_file_lookup, path_eqb_refl; unfold tr_node; rewrite Hd; reflexivity|].
        split.
        { intros q Hq Hne. cbv beta iota in Hne. rewrite set_file_lookup. destruct (path_eqb leaf q) eqn:Eq; [apply path_eqb_eq in Eq; exfalso; apply Hne; symmetry; exact Eq|].
          apply P1; assumption. }
        split.
        { intros q Hq. rewrite set_file_lookup. destruct (path_eqb leaf q); [discriminate | apply Hpres1, Hq]. }
        split; [apply Hnc; apply set_file_map | apply Hnosub].
      * (* a plain file: one creation with the content *)
        destruct (tr_create c d (tr_payload c e) (te_data e) st) as [[l2|] st2] eqn:E3; [|discriminate].
        inversion Hs; subst l1 st2. clear Hs. destruct (I1 (te_data e)) as (st3 & E4). rewrite E3 in E4. inversion E4; subst l2 st3.
        destruct (tr_create_result _ _ _ _ _ _ _ Hmg E3) as (G & M & T & L & P & Nc & _ & _).
        fold (tr_tail c e) in L, P. rewrite Hisdir in L.
        split; [exact G|]. split; [exact M|].
        split.
        { rewrite L. unfold tr_node. rewrite Hd. destruct (tr_json_names c) eqn:Ej; [|rewrite write0_nil_l; reflexivity].
          cbn [andb] in E2. apply N.ltb_ge in E2. apply N.le_0_r in E2.
          unfold tr_target_size, tr_leaf in E2. fold (tr_tail c e) in E2. rewrite join_good in E2 by (constructor; assumption).
          rewrite L1 in E2. cbn [write0 app skipn length] in E2.
          unfold tr_blen in E2. destruct (old_content (st_fs st) (d ++ ln :: tr_tail c e)); [rewrite write0_nil_l; reflexivity | discriminate]. }
        split; [intros q Hq Hne; apply P; assumption|].
        split.
        { intros q Hq. destruct (path_eq_dec q (d ++ ln :: tr_tail c e)) as [->|Hne]; [rewrite L; discriminate | rewrite P; assumption]. }
        split; [exact Nc | apply Hnosub].
Qed.

Lemma inv_step st done e sc ln st' :
  Inv st done ->
  (tc_overwrite c = true -> forall e' ln', In (e', ln') done -> tr_key c e' :: tr_tail c e' <> tr_key c e :: tr_tail c e) ->
  (tc_overwrite c = false -> tr_json c = true -> forall e' ln', In (e', ln') done -> te_id e' = te_id e ->
     tl (te_rel e') <> tl (te_rel e)) ->
  (tc_overwrite c = false -> tr_json c = true -> (forall e' ln', In (e', ln') done -> te_id e' <> te_id e) ->
     tl (te_rel e) = []) ->
  (tr_archive_mode c = true -> forall e' ln', In (e', ln') done -> te_id e' <> te_id e) ->
  (forall e' ln', In (e', ln') done -> te_subs e' <> [] -> tr_archive_mode c = true) ->
  (te_subs e <> [] -> tr_archive_mode c = true /\ tr_subs_wf e) ->
  (forall s, In s (te_subs e) -> tr_hdr_ok1 ahdr aparse s) -> coll_ok e st ->
  spec_entry e sc st = Some (ln, st') ->
  Inv st' (done ++ [(e, ln)]).
Proof.
  intros (Hc & Hmg & Hmono & Hcont & Hkey & Hfresh & Hmap & Hsubs) Dow Did Dfirst Darch Ddone Dsub Dhdr Dcoll Hs.
  assert (Dsub' : te_subs e <> [] -> tr_archive_mode c = true /\ tr_subs_wf e /\ tl (te_rel e) = []).
  { intro Hne. destruct (Dsub Hne) as [Ham Hwf]. split; [exact Ham|]. split; [exact Hwf|].
    destruct (archive_mode_facts c Ham) as (Eo & _ & Ej & _). apply (Dfirst Eo Ej). apply (Darch Ham). }
  destruct (spec_entry_effect st e sc ln st' Hmg Dsub' Dhdr Dcoll Hs) as (G & M & Hleaf & P & Hpres & Nc & Hnew).
  set (leaf := d ++ ln :: tr_tail c e) in *.
  (* the new leaf differs from every earlier one *)
  assert (Hdist : forall e' ln', In (e', ln') done -> d ++ ln' :: tr_tail c e' <> leaf).
  { intros e' ln' Hin Heq. subst leaf. apply path_cons_inj in Heq as [-> Ht].
    unfold name_choice in Nc. cbn [tr_names_cfg overwrite] in Nc.
    destruct (tc_overwrite c) eqn:Eo.
    - destruct Nc as [Hl _]. apply (Dow eq_refl e' ln Hin). rewrite <- (Hkey eq_refl e' ln Hin), Ht. fold (tr_key c e) in Hl. congruence.
    - destruct (tr_json c) eqn:Ej.
      + rewrite (pid_json e Ej) in Nc. destruct (Hmap eq_refl eq_refl) as (Hm1 & Hm2 & Hm3).
        destruct (map_get (st_map st) (te_id e)) as [v|] eqn:Em.
        * destruct Nc as [-> _]. pose proof (Hm1 e' v Hin) as Hm'.
          assert (Hid : te_id e' = te_id e) by (apply (Hm3 _ _ v); assumption).
          apply (Did eq_refl eq_refl e' v Hin Hid). rewrite <- !tail_json by assumption. exact Ht.
        * destruct Nc as [Hs' _]. apply (stat_notexist_lookup _ _ _ Hc) in Hs'.
          destruct (Hm2 _ _ (Hm1 e' ln Hin)) as [Hp _]. congruence.
      + rewrite (pid_plain e Ej) in Nc. destruct Nc as [Hs' _]. apply (stat_notexist_lookup _ _ _ Hc) in Hs'.
        destruct (Hfresh eq_refl e' ln Hin) as [_ Hp]. congruence. }
  (* in archive mode every item has its own top-level name *)
  assert (Hnames : tr_archive_mode c = true -> forall e' ln', In (e', ln') done -> ln' <> ln).
  { intros Ham e' ln' Hin ->. destruct (archive_mode_facts c Ham) as (Eo & _ & Ej & _).
    unfold name_choice in Nc. cbn [tr_names_cfg overwrite] in Nc. rewrite Eo, (pid_json e Ej) in Nc.
    destruct (Hmap Eo Ej) as (Hm1 & Hm2 & Hm3).
    destruct (map_get (st_map st) (te_id e)) as [v|] eqn:Em.
    - destruct Nc as [-> _]. apply (Darch Ham e' v Hin). apply (Hm3 _ _ v); [apply Hm1, Hin | exact Em].
    - destruct Nc as [Hs' _]. apply (stat_notexist_lookup _ _ _ Hc) in Hs'.
      destruct (Hfresh Eo e' ln Hin) as [_ Hp]. congruence. }
  (* an earlier path below an earlier name is not touched *)
  assert (Hkeep : forall e' ln' tail, In (e', ln') done -> (te_subs e <> [] \/ te_subs e' <> []) \/ d ++ ln' :: tail <> leaf ->
            lookup (st_fs st) (d ++ ln' :: tail) <> None -> lookup (st_fs st') (d ++ ln' :: tail) = lookup (st_fs st) (d ++ ln' :: tail)).
  { intros e' ln' tail Hin Hwhy Hq. apply P; [exact Hq|].
    assert (Hcase : (tr_archive_mode c = true /\ ln' <> ln) \/ (tr_has_subs e = false /\ d ++ ln' :: tail <> leaf)).
    { destruct Hwhy as [[Hne|Hne]|Hne].
      - left. destruct (Dsub Hne) as [Ham _]. split; [exact Ham | apply (Hnames Ham e' ln' Hin)].
      - left. pose proof (Ddone e' ln' Hin Hne) as Ham. split; [exact Ham | apply (Hnames Ham e' ln' Hin)].
      - destruct (tr_has_subs e) eqn:Hsub; [|right; split; [reflexivity | exact Hne]].
        left. assert (Hne' : te_subs e <> []) by (unfold tr_has_subs in Hsub; destruct (te_subs e); discriminate).
        destruct (Dsub Hne') as [Ham _]. split; [exact Ham | apply (Hnames Ham e' ln' Hin)]. }
    destruct Hcase as [[Ham Hnl]|[Hsub Hne]].
    - destruct (tr_has_subs e); [apply is_prefix_top; exact Hnl|]. intros Heq. subst leaf. apply path_cons_inj in Heq as [Hx _]. congruence.
    - rewrite Hsub. exact Hne. }
  unfold Inv. split; [|split; [exact M|split; [intros q Hq; apply Hpres, Hmono, Hq|]]].
  { intros a b Hab. pose proof (Hc a b Hab) as Hg. unfold get in Hg |- *. destruct a as [|x0 a]; [reflexivity|].
    rewrite P; [exact Hg | congruence|].
    destruct (tr_has_subs e); [apply (is_prefix_longer d ln _ b Hab) | apply (chain_not_leaf (st_fs st) ln (tr_tail c e) _ b Hc Hab)]. }
  split.
  { intros e' ln' Hin. apply in_app_or in Hin as [Hin|[Hin|[]]].
    - rewrite (Hkeep e' ln' _ Hin); [apply Hcont; exact Hin | right; apply (Hdist _ _ Hin) | rewrite (Hcont _ _ Hin); discriminate].
    - inversion Hin; subst. exact Hleaf. }
  unfold name_choice in Nc. cbn [tr_names_cfg overwrite] in Nc.
  split.
  { intros Eo e' ln' Hin. apply in_app_or in Hin as [Hin|[Hin|[]]]; [apply (Hkey Eo _ _ Hin)|].
    inversion Hin; subst. rewrite Eo in Nc. destruct Nc as [-> _]. reflexivity. }
  (* freshness of the new name with respect to the initial file system, and its presence now *)
  assert (Hnewname : tc_overwrite c = false -> lookup f0 (d ++ [ln]) = None /\ lookup (st_fs st') (d ++ [ln]) <> None).
  { intro Eo. rewrite Eo in Nc. destruct (tr_json c) eqn:Ej.
    - rewrite (pid_json e Ej) in Nc. destruct (Hmap Eo eq_refl) as (Hm1 & Hm2 & Hm3).
      destruct (map_get (st_map st) (te_id e)) as [v|] eqn:Em.
      + destruct Nc as [-> _]. destruct (Hm2 _ _ Em) as [Hp Hf]. split; [exact Hf | apply Hpres, Hp].
      + destruct Nc as [Hs' _]. apply (stat_notexist_lookup _ _ _ Hc) in Hs'. split.
        * destruct (lookup f0 (d ++ [ln])) eqn:El; [|reflexivity]. exfalso. apply (Hmono (d ++ [ln])); [rewrite El; discriminate | exact Hs'].
        * assert (Hnone : forall e' ln', In (e', ln') done -> te_id e' <> te_id e).
          { intros e' ln' Hin Hid. rewrite <- Hid, (Hm1 _ _ Hin) in Em. discriminate. }
          pose proof (Dfirst Eo eq_refl Hnone) as Ht. rewrite <- (tail_json e Ej) in Ht.
          subst leaf. rewrite Ht in Hleaf. rewrite Hleaf. discriminate.
    - rewrite (pid_plain e Ej) in Nc. destruct Nc as [Hs' _]. apply (stat_notexist_lookup _ _ _ Hc) in Hs'. split.
      + destruct (lookup f0 (d ++ [ln])) eqn:El; [|reflexivity]. exfalso. apply (Hmono (d ++ [ln])); [rewrite El; discriminate | exact Hs'].
      + subst leaf. rewrite (tail_plain e Ej) in Hleaf. rewrite Hleaf. discriminate. }
  split.
  { intros Eo e' ln' Hin. apply in_app_or in Hin as [Hin|[Hin|[]]].
    - destruct (Hfresh Eo _ _ Hin) as [A B]. split; [exact A | apply Hpres, B].
    - inversion Hin; subst. apply Hnewname, Eo. }
  split.
  { intros Eo Ej. rewrite Eo, (pid_json e Ej) in Nc. destruct (Hmap Eo Ej) as (Hm1 & Hm2 & Hm3).
    destruct (map_get (st_map st) (te_id e)) as [v|] eqn:Em.
    - destruct Nc as [-> Es]. rewrite Es. split; [|split; [|exact Hm3]].
      + intros e' ln' Hin. apply in_app_or in Hin as [Hin|[Hin|[]]]; [apply (Hm1 _ _ Hin)|]. inversion Hin; subst. exact Em.
      + intros id v' Hv. destruct (Hm2 _ _ Hv) as [A B]. split; [apply Hpres, A | exact B].
    - destruct Nc as [Hs' Es]. rewrite Es. destruct (Hnewname Eo) as [Hn1 Hn2].
      assert (Hold : forall id v', map_get (st_map st) id = Some v' -> v' <> ln).
      { intros id v' Hv ->. destruct (Hm2 _ _ Hv) as [A _]. apply (stat_notexist_lookup _ _ _ Hc) in Hs'. congruence. }
      split; [|split].
      + intros e' ln' Hin. cbn [map_get]. apply in_app_or in Hin as [Hin|[Hin|[]]].
        * destruct (Z.eqb (te_id e) (te_id e')) eqn:Ez; [|apply (Hm1 _ _ Hin)].
          apply Z.eqb_eq in Ez. rewrite Ez, (Hm1 _ _ Hin) in Em. discriminate.
        * inversion Hin; subst. rewrite Z.eqb_refl. reflexivity.
      + intros id v'. cbn [map_get]. destruct (Z.eqb (te_id e) id).
        * intro Hv; inversion Hv; subst. split; assumption.
        * intro Hv. destruct (Hm2 _ _ Hv) as [A B]. split; [apply Hpres, A | exact B].
      + intros id1 id2 v'. cbn [map_get]. destruct (Z.eqb (te_id e) id1) eqn:Z1; destruct (Z.eqb (te_id e) id2) eqn:Z2.
        * apply Z.eqb_eq in Z1, Z2. congruence.
        * intros Hv1 Hv2. inversion Hv1; subst. exfalso. apply (Hold _ _ Hv2). reflexivity.
        * intros Hv1 Hv2. inversion Hv2; subst. exfalso. apply (Hold _ _ Hv1). reflexivity.
        * apply Hm3. }
  (* the SubFiles: those of the earlier archives are not touched, those of this one are there *)
  intros e' ln' Hin s Hs'. apply in_app_or in Hin as [Hin|[Hin|[]]].
  - assert (Hne : te_subs e' <> []) by (destruct (te_subs e'); [destruct Hs' | discriminate]).
    rewrite (Hkeep e' ln' _ Hin); [apply (Hsubs _ _ Hin _ Hs') | left; right; exact Hne | rewrite (Hsubs _ _ Hin _ Hs'); discriminate].
  - inversion Hin; subst. apply Hnew, Hs'.
Qed.

Lemma nodup_mid {A B} (f : A -> B) pre e post : NoDup (map f (pre ++ e :: post)) -> forall a, In a pre -> f a <> f e.
Proof.
  rewrite map_app. cbn [map]. intros Hn a Ha Heq. apply NoDup_remove_2 in Hn. apply Hn.
  apply in_or_app. left. rewrite <- Heq. apply in_map. exact Ha.
Qed.

Notation resume_safe := (tr_resume_safe hx ahdr aparse c d).

Lemma spec_inv : forall items done st names per all stf,
  Inv st done -> tr_wf c (map fst done ++ map fst items) -> tr_hdrs_ok ahdr aparse (map fst items) ->
  resume_safe items st ->
  spec items st names = Some (per, all, stf) ->
  Inv stf (done ++ combine (map fst items) per) /\ length per = length items /\ all = fold_left tr_add_name per names.
Proof.
  induction items as [|[e sc] es IH]; intros done st names per all stf HI Hwf Hh Hsafe Hs.
  - cbn in Hs. inversion Hs; subst. cbn. rewrite app_nil_r. auto.
  - cbn [tr_spec] in Hs. destruct (spec_entry e sc st) as [[ln st1]|] eqn:Ee; [|discriminate].
    destruct (spec es st1 (tr_add_name names ln)) as [[[per' all'] stf']|] eqn:Er; [|discriminate].
    inversion Hs; subst. cbn [map fst] in Hwf, Hh. cbn [tr_resume_safe] in Hsafe. rewrite Ee in Hsafe. destruct Hsafe as [Hcoll Hsafe].
    assert (Hwf1 : tr_wf c (map fst (done ++ [(e, ln)]) ++ map fst es)).
    { rewrite map_app, <- app_assoc. exact Hwf. }
    destruct Hwf as (Hw1 & Hw2 & Hw3 & Hw4).
    assert (HI1 : Inv st1 (done ++ [(e, ln)])).
    { apply (inv_step st done e sc ln st1 HI); [| | | | | | |exact Hcoll|exact Ee].
      - intros Eo e' ln' Hin. specialize (Hw2 Eo).
        apply (nodup_mid _ _ _ _ Hw2 e'). apply in_map_iff. exists (e', ln'). auto.
      - intros Eo Ej e' ln' Hin Hid Ht. destruct (Hw1 Eo Ej) as [Hn _].
        apply (nodup_mid _ _ _ _ Hn e'); [apply in_map_iff; exists (e', ln'); auto | congruence].
      - intros Eo Ej Hnone. destruct (Hw1 Eo Ej) as [_ Hf].
        destruct (tl (te_rel e)) eqn:Et; [reflexivity|]. exfalso.
        destruct (Hf (map fst done) e (map fst es) eq_refl) as (e' & Hin & Hid); [rewrite Et; discriminate|].
        apply in_map_iff in Hin as ([e'' ln''] & <- & Hin). apply (Hnone _ _ Hin Hid).
      - intros Ham e' ln' Hin. apply (nodup_mid _ _ _ _ (Hw4 Ham) e'). apply in_map_iff. exists (e', ln'). auto.
      - intros e' ln' Hin Hne. apply (Hw3 e'); [|exact Hne]. apply in_or_app. left. apply in_map_iff. exists (e', ln'). auto.
      - intro Hne. apply (Hw3 e); [|exact Hne]. apply in_or_app. right. left. reflexivity.
      - intros s Hin. apply (Hh e s); [left; reflexivity | exact Hin]. }
    assert (Hh1 : tr_hdrs_ok ahdr aparse (map fst es)) by (intros e' s Hin; apply Hh; right; exact Hin).
    destruct (IH _ _ _ _ _ _ HI1 Hwf1 Hh1 Hsafe Er) as (A & B & C).
    rewrite <- app_assoc in A. cbn [combine length fold_left map fst]. split; [exact A|]. split; [congruence | exact C].
Qed.

Lemma inv_init : stat f0 d = SFound Dir -> Inv (init_state f0) [].
Proof.
  intro Hd. unfold Inv. cbn [init_state st_fs st_map].
  split; [apply stat_dir_chain, Hd|]. split; [intros id v Hv; discriminate Hv|]. split; [auto|].
  split; [intros ? ? Hf; destruct Hf|]. split; [intros _ ? ? Hf; destruct Hf|]. split; [intros _ ? ? Hf; destruct Hf|].
  split; [|intros ? ? Hf; destruct Hf].
  intros _ _. split; [intros ? ? Hf; destruct Hf|]. split; intros; discriminate.
Qed.

Lemma members_in e m : In m (tr_members e) -> m = tr_with_subs e [] \/ In m (te_subs e).
Proof. unfold tr_members. intros [<-|Hin]; auto. Qed.

Lemma tail_with_subs e l : tr_tail c (tr_with_subs e l) = tr_tail c e.
Proof. unfold tr_tail, tr_payload. destruct (tr_json c); reflexivity. Qed.
Lemma node_with_subs e l : tr_node (tr_with_subs e l) = tr_node e.
Proof. reflexivity. Qed.

Theorem spec_tree items per all stf : stat f0 d = SFound Dir -> tr_wf c (map fst items) ->
  tr_hdrs_ok ahdr aparse (map fst items) -> resume_safe items (init_state f0) ->
  spec items (init_state f0) [] = Some (per, all, stf) ->
  length per = length items /\ all = fold_left tr_add_name per [] /\
  (forall e ln, In (e, ln) (combine (map fst items) per) ->
     forall m, In m (tr_members e) -> lookup (st_fs stf) (d ++ ln :: tr_tail c m) = Some (tr_node m)) /\
  (tc_overwrite c = true -> forall e ln, In (e, ln) (combine (map fst items) per) -> ln = tr_key c e) /\
  (tc_overwrite c = false -> forall e ln, In (e, ln) (combine (map fst items) per) ->
     lookup f0 (d ++ [ln]) = None /\ lookup (st_fs stf) (d ++ [ln]) <> None) /\
  (forall q, lookup f0 q <> None -> lookup (st_fs stf) q <> None).
Proof.
  intros Hd Hwf Hh Hsafe Hs.
  destruct (spec_inv items [] _ _ _ _ _ (inv_init Hd) Hwf Hh Hsafe Hs) as ((_ & _ & Hmono & Hcont & Hkey & Hfresh & _ & Hsubs) & Hl & Ha).
  cbn [app] in *. split; [exact Hl|]. split; [exact Ha|]. split; [|auto].
  intros e ln Hin m Hm. apply members_in in Hm as [->|Hm]; [rewrite tail_with_subs, node_with_subs; apply (Hcont e ln Hin) | apply (Hsubs e ln Hin m Hm)].
Qed.

End Tree.

(* ---------- [tr_wfb] decides [tr_wf] ---------- *)
Lemma nodupb_ok {A} (eqb : A -> A -> bool) (l : list A) :
  (forall a b, eqb a b = true <-> a = b) -> tr_nodupb eqb l = true -> NoDup l.
Proof.
  intro He. induction l as [|x r IH]; intro Hn; [constructor|]. cbn [tr_nodupb] in Hn.
  apply andb_true_iff in Hn as [H1 H2]. constructor; [|apply IH, H2].
  intro Hin. apply negb_true_iff in H1. assert (existsb (eqb x) r = true); [|congruence].
  apply existsb_exists. exists x. split; [exact Hin | apply He; reflexivity].
Qed.

Lemma first_top_ok : forall es seen, tr_first_top seen es = true ->
  forall pre e post, es = pre ++ e :: post -> tl (te_rel e) <> [] ->
  In (te_id e) seen \/ exists e', In e' pre /\ te_id e' = te_id e.
Proof.
  induction es as [|x es IH]; intros seen Hf pre e post Heq Ht; [destruct pre; discriminate|].
  cbn [tr_first_top] in Hf. apply andb_true_iff in Hf as [H1 H2].
  destruct pre as [|p pre]; cbn [app] in Heq; inversion Heq; subst.
  - left. destruct (tl (te_rel e)); [congruence|]. apply existsb_exists in H1 as (i & Hi & Ei).
    apply Z.eqb_eq in Ei. subst. exact Hi.
  - destruct (IH _ H2 pre e post eq_refl Ht) as [[Hi|Hi]|(e' & Hi & Ee)].
    + right. exists p. split; [left; reflexivity | exact Hi].
    + left. exact Hi.
    + right. exists e'. split; [right; exact Hi | exact Ee].
Qed.

Lemma subs_wfb_ok e : tr_subs_wfb e = true -> tr_subs_wf e.
Proof.
  unfold tr_subs_wfb. intro Hb. apply andb_true_iff in Hb as [Hb H4]. apply andb_true_iff in Hb as [Hb H3].
  apply andb_true_iff in Hb as [H1 H2]. rewrite forallb_forall in H1, H3, H4. split.
  - intros s Hs. specialize (H1 s Hs). apply andb_true_iff in H1 as [H1 Hd]. apply andb_true_iff in H1 as [H1 Hc].
    apply andb_true_iff in H1 as [Ha Hb]. apply Z.eqb_eq in Ha. apply list_eqb_eq in Hc.
    split; [exact Ha|]. split; [unfold tr_has_subs in Hb; destruct (te_subs s); [reflexivity | discriminate]|].
    split; [exact Hc|]. destruct (te_rel s); [discriminate | discriminate].
  - unfold Archive.awf_tree, tr_arch_entries. rewrite map_map. split; [|split].
    + apply (nodupb_ok _ _) in H2; [exact H2|]. intros a b. apply Proofs.Archive.apath_eqb_eq.
    + intros a Ha. apply in_map_iff in Ha as (s & <- & Hs). specialize (H3 s Hs). cbn. destruct (tl (te_rel s)); [discriminate | discriminate].
    + intros a a' Ha Ha' Hd. apply in_map_iff in Ha as (s & <- & Hs). apply in_map_iff in Ha' as (s' & <- & Hs').
      specialize (H4 s Hs). cbn in Hd. rewrite Hd in H4. cbn [orb] in H4. rewrite forallb_forall in H4.
      specialize (H4 s' Hs'). apply negb_true_iff in H4. exact H4.
Qed.

Lemma tr_wfb_ok c es : tr_wfb c es = true -> tr_wf c es.
Proof.
  unfold tr_wfb, tr_wf. intro Hb. apply andb_true_iff in Hb as [Hb H3]. apply andb_true_iff in Hb as [Hb H2].
  split; [|split; [|split]].
  - intros Eo Ej. rewrite Eo, Ej in Hb. apply andb_true_iff in Hb as [H1 H1']. split.
    + apply (nodupb_ok _ _) in H1; [exact H1|]. intros [i1 t1] [i2 t2]. cbn [fst snd].
      rewrite andb_true_iff, Z.eqb_eq, path_eqb_eq. split; [intros [-> ->]; reflexivity | intro Hx; inversion Hx; auto].
    + intros pre e post Heq Ht. destruct (first_top_ok es [] H1' pre e post Heq Ht) as [[]|Hx]; exact Hx.
  - intro Eo. rewrite Eo in Hb. apply (nodupb_ok _ _) in Hb; [exact Hb|]. intros a b. apply path_eqb_eq.
  - intros e He Hne. rewrite forallb_forall in H2. specialize (H2 e He).
    assert (Hs : tr_has_subs e = true) by (unfold tr_has_subs; destruct (te_subs e); [congruence | reflexivity]).
    rewrite Hs in H2. cbn [negb orb] in H2. apply andb_true_iff in H2 as [Ha Hw]. split; [exact Ha | apply subs_wfb_ok, Hw].
  - intro Ha. rewrite Ha in H3. cbn [negb orb] in H3. apply (nodupb_ok _ _) in H3; [exact H3|]. intros a b. apply Z.eqb_eq.
Qed.
