(* What a successful creation step of Names.v does to the abstract file system, at the
   precision the whole-transfer theorem (C01) needs: the node at the leaf path afterwards,
   every path that existed before keeps its node (except the leaf), the outcome does not
   depend on the bytes written, and how the local name was chosen. *)
From Coq Require Import ZArith Lia.
From Trzsz Require Import Base.Bytes Gen.Consts Model.Path Model.Fs Model.Names Proofs.PathFs Proofs.Names.

Definition old_content (f : fs) (p : path) : list N :=
  match lookup f p with Some (File o) => o | _ => [] end.

Lemma write0_nil_l pl : write0 [] pl = pl.
Proof. unfold write0. rewrite skipn_nil, app_nil_r. reflexivity. Qed.

Lemma write0_nil_r old : write0 old [] = old.
Proof. reflexivity. Qed.

(* ---------- os.OpenFile + Write ---------- *)
Lemma open_create_result f p t pl f' es : open_create f p t pl = Some (f', es) ->
  lookup f' p = Some (File (write0 (if t then [] else old_content f p) pl)) /\
  (forall q, q <> p -> lookup f' q = lookup f q) /\
  (forall y, exists f2, open_create f p t y = Some (f2, es)).
Proof.
  unfold open_create, old_content. destruct p as [|c0 p0]; [discriminate|]. set (p := c0 :: p0).
  destruct (stat f (removelast p)) as [[|]| |]; try discriminate.
  destruct (has_nul (last p []) || (name_max <? name_len (last p []))); [discriminate|].
  destruct (lookup f p) as [[old|]|] eqn:E; intro Hx; inversion Hx; subst; clear Hx.
  - split; [rewrite lookup_set, path_eqb_refl; reflexivity|].
    split; [intros q Hq; apply lookup_set_other; exact Hq | intro y; eexists; reflexivity].
  - split; [rewrite lookup_set, path_eqb_refl; destruct t; rewrite write0_nil_l; reflexivity|].
    split; [intros q Hq; apply lookup_set_other; exact Hq | intro y; eexists; reflexivity].
Qed.

Lemma do_create_file_result p t pl st st' : do_create_file p t pl st = (true, st') ->
  lookup (st_fs st') p = Some (File (write0 (if t then [] else old_content (st_fs st) p) pl)) /\
  (forall q, q <> p -> lookup (st_fs st') q = lookup (st_fs st) q) /\
  st_map st' = st_map st /\
  (forall y, exists st2, do_create_file p t y st = (true, st2)).
Proof.
  unfold do_create_file. destruct (open_create (st_fs st) p t pl) as [[f' es]|] eqn:E; [|discriminate].
  intro Hx; inversion Hx; subst; clear Hx. destruct (open_create_result _ _ _ _ _ _ E) as (A & B & C).
  cbn [st_fs st_map]. split; [exact A|]. split; [exact B|]. split; [reflexivity|].
  intro y. destruct (C y) as (f2 & E2). rewrite E2. eexists; reflexivity.
Qed.

(* ---------- os.MkdirAll ---------- *)
Lemma mk_down_ok : forall rest f pre f' es, mk_down f pre rest = (true, f', es) -> rest <> [] ->
  lookup f' (pre ++ rest) = Some Dir.
Proof.
  induction rest as [|c rest IH]; intros f pre f' es Hm Hne; [congruence|].
  cbn [mk_down] in Hm. destruct (has_nul c || (name_max <? name_len c)); [discriminate|].
  destruct rest as [|c2 rest].
  - destruct (lookup f (pre ++ [c])) as [[old|]|] eqn:El.
    + discriminate.
    + cbn [mk_down] in Hm. inversion Hm; subst. exact El.
    + cbn [mk_down] in Hm. inversion Hm; subst. rewrite lookup_set, path_eqb_refl. reflexivity.
  - destruct (lookup f (pre ++ [c])) as [[old|]|] eqn:El.
    + discriminate.
    + specialize (IH f (pre ++ [c]) f' es Hm ltac:(discriminate)). rewrite <- app_assoc in IH. exact IH.
    + destruct (mk_down (set f (pre ++ [c]) Dir) (pre ++ [c]) (c2 :: rest)) as [[ok3 f3] es3] eqn:E3.
      inversion Hm; subst. specialize (IH _ _ _ _ E3 ltac:(discriminate)). rewrite <- app_assoc in IH. exact IH.
Qed.

Lemma walk_found_lookup : forall rest f pre n, walk f pre rest = SFound n -> pre ++ rest <> [] ->
  lookup f (pre ++ rest) = Some n.
Proof.
  induction rest as [|c rest IH]; intros f pre n Hw Hne; cbn [walk] in Hw.
  - rewrite app_nil_r in *. unfold get in Hw. destruct pre as [|x pre]; [congruence|].
    destruct (lookup f (x :: pre)); [inversion Hw; reflexivity | discriminate].
  - destruct (get f pre) as [[|]|]; try discriminate.
    destruct (name_max <? name_len c); [discriminate|].
    specialize (IH f (pre ++ [c]) n Hw). rewrite <- app_assoc in IH. apply IH. destruct pre; discriminate.
Qed.

Lemma stat_found_lookup f p n : stat f p = SFound n -> p <> [] -> lookup f p = Some n.
Proof.
  unfold stat. destruct (bad_path p); [discriminate|]. intros Hw Hne. apply (walk_found_lookup p f [] n Hw Hne).
Qed.

Lemma do_create_directory_result p st st' : p <> [] -> do_create_directory p st = (true, st') ->
  lookup (st_fs st') p = Some Dir /\
  (forall q, lookup (st_fs st) q <> None \/ ~ (exists b, p = q ++ b) -> lookup (st_fs st') q = lookup (st_fs st) q) /\
  st_map st' = st_map st.
Proof.
  intros Hne. unfold do_create_directory. destruct (stat (st_fs st) p) as [[old|]| |] eqn:Es.
  - discriminate.
  - intro Hx; inversion Hx; subst. split; [apply stat_found_lookup; assumption|]. split; [reflexivity | reflexivity].
  - destruct (mkdir_all (st_fs st) p) as [[ok f1] es1] eqn:Em. intro Hx; inversion Hx; subst; clear Hx.
    cbn [st_fs st_map]. unfold mkdir_all in Em. split; [apply (mk_down_ok p _ [] _ _ Em Hne)|]. split; [|reflexivity].
    apply mk_down_frame in Em. destruct Em as [F _]. intros q Hq. apply F.
    intros (a & b & Ha & Hp & Hqa & Hl). cbn [app] in Hqa. subst q. destruct Hq as [Hq|Hq]; [congruence|].
    apply Hq. exists b. exact Hp.
  - discriminate.
Qed.

(* ---------- createDirOrFile's last step ---------- *)
Lemma create_leaf_result s full t pl ln st res st' : full <> [] -> s_archive s = false ->
  create_leaf s full t pl ln st = (NOk res, st') ->
  res = ln /\
  lookup (st_fs st') full =
    Some (if s_isdir s then Dir else File (write0 (if t then [] else old_content (st_fs st) full) pl)) /\
  (forall q, lookup (st_fs st) q <> None -> q <> full -> lookup (st_fs st') q = lookup (st_fs st) q) /\
  st_map st' = st_map st /\
  (forall y, exists st2, create_leaf s full t y ln st = (NOk ln, st2)).
Proof.
  intros Hne Ha. unfold create_leaf. rewrite Ha. destruct (s_isdir s).
  - destruct (do_create_directory full st) as [ok st1] eqn:E. destruct ok; [|discriminate].
    intro Hx; inversion Hx; subst. destruct (do_create_directory_result _ _ _ Hne E) as (A & B & C).
    split; [reflexivity|]. split; [exact A|]. split; [intros q Hq _; apply B; left; exact Hq|]. split; [exact C|].
    intro y. eexists; reflexivity.
  - destruct (do_create_file full t pl st) as [ok st1] eqn:E. destruct ok; [|discriminate].
    intro Hx; inversion Hx; subst. destruct (do_create_file_result _ _ _ _ _ E) as (A & B & C & D).
    split; [reflexivity|]. split; [exact A|]. split; [intros q _ Hq; apply B; exact Hq|]. split; [exact C|].
    intro y. destruct (D y) as (st2 & E2). rewrite E2. eexists; reflexivity.
Qed.

(* how createDirOrFile / createFile pick the local name *)
Definition name_choice (cfg : config) (d : path) (st st' : state) (id : option Z) (r0 ln : name) : Prop :=
  if overwrite cfg then ln = r0 /\ st_map st' = st_map st
  else match id with
       | None => stat (st_fs st) (d ++ [ln]) = SNotExist /\ st_map st' = st_map st
       | Some i =>
         match map_get (st_map st) i with
         | Some v => ln = v /\ st_map st' = st_map st
         | None => stat (st_fs st) (d ++ [ln]) = SNotExist /\ st_map st' = (i, ln) :: st_map st
         end
       end.

Definition map_good (m : list (Z * name)) : Prop := forall id v, map_get m id = Some v -> good v.

Lemma app_not_prefix_longer {A} (p : list A) (x : A) : ~ (exists b, p = (p ++ [x]) ++ b).
Proof.
  intros (b & Hb). apply (f_equal (@length A)) in Hb. rewrite !app_length in Hb. cbn in Hb. lia.
Qed.

Lemma cdof_result cfg d s r0 rest t pl st ln st' :
  Forall good (r0 :: rest) -> s_archive s = false -> map_good (st_map st) ->
  create_dir_or_file cfg d s r0 rest t pl st = (NOk ln, st') ->
  good ln /\ map_good (st_map st') /\
  lookup (st_fs st') (d ++ ln :: rest) =
    Some (if s_isdir s then Dir else File (write0 (if t then [] else old_content (st_fs st) (d ++ ln :: rest)) pl)) /\
  (forall q, lookup (st_fs st) q <> None -> q <> d ++ ln :: rest -> lookup (st_fs st') q = lookup (st_fs st) q) /\
  name_choice cfg d st st' (Some (s_id s)) r0 ln /\
  (forall y, exists st2, create_dir_or_file cfg d s r0 rest t y st = (NOk ln, st2)).
Proof.
  intros Hg Ha Hm. inversion Hg as [|? ? Hg0 Hgr]; subst. unfold create_dir_or_file.
  set (chosen := if overwrite cfg then Some (r0, st) else _).
  assert (Hch : chosen = None \/ exists l1 st1, chosen = Some (l1, st1) /\ good l1 /\ st_fs st1 = st_fs st /\
            map_good (st_map st1) /\ name_choice cfg d st st1 (Some (s_id s)) r0 l1).
  { subst chosen. unfold name_choice. destruct (overwrite cfg) eqn:Eo.
    - right. exists r0, st. split; [reflexivity|]. split; [exact Hg0|]. split; [reflexivity|]. split; [exact Hm|]. split; reflexivity.
    - destruct (map_get (st_map st) (s_id s)) as [v|] eqn:Em.
      + right. exists v, st. split; [reflexivity|]. split; [exact (Hm _ _ Em)|]. split; [reflexivity|]. split; [exact Hm|]. split; reflexivity.
      + destruct (get_new_name (st_fs st) d r0) as [l1|] eqn:En; [|left; reflexivity].
        destruct (get_new_name_good _ _ _ _ Hg0 En) as [Hl Hs]. right.
        exists l1, (set_map st ((s_id s, l1) :: st_map st)). cbn [set_map st_fs st_map].
        split; [reflexivity|]. split; [exact Hl|]. split; [reflexivity|]. split; [|split; [exact Hs | reflexivity]].
        intros id v. cbn [map_get]. destruct (Z.eqb (s_id s) id); [intro Hx; inversion Hx; subst; exact Hl | apply Hm]. }
  destruct Hch as [->|(l1 & st1 & -> & Hl & Ef & Hm1 & Hn)]; [discriminate|].
  assert (Hold : forall q, lookup (st_fs st1) q = lookup (st_fs st) q) by (intro q; rewrite Ef; reflexivity).
  assert (Hmap : forall st2, st_map st2 = st_map st1 -> name_choice cfg d st st2 (Some (s_id s)) r0 l1).
  { intros st2 E2. unfold name_choice in *. destruct (overwrite cfg); [rewrite E2; exact Hn|].
    destruct (map_get (st_map st) (s_id s)); rewrite E2; exact Hn. }
  destruct rest as [|c rest].
  - rewrite join_good by (constructor; [exact Hl | constructor]).
    intro Hx. assert (Hne : d ++ [l1] <> []) by (destruct d; discriminate).
    destruct (create_leaf_result s (d ++ [l1]) t pl l1 st1 ln st' Hne Ha Hx) as (-> & A & B & C & D).
    split; [exact Hl|]. split; [rewrite C; exact Hm1|]. unfold old_content in *. rewrite Hold in A.
    split; [exact A|]. split; [intros q Hq Hq2; rewrite <- Hold; apply B; [rewrite Hold; exact Hq | exact Hq2]|].
    split; [apply Hmap; exact C|]. exact D.
  - destruct (forall_good_split (c :: rest) ltac:(discriminate) Hgr) as [Hmid Hlast].
    set (mids := removelast (c :: rest)) in *. set (lst := last (c :: rest) []) in *.
    assert (Hsplit : c :: rest = mids ++ [lst]) by (apply app_removelast_last; discriminate).
    rewrite (join_good (l1 :: mids)) by (constructor; assumption).
    destruct (do_create_directory (d ++ l1 :: mids) st1) as [ok st2] eqn:Ed. destruct ok; [|discriminate].
    rewrite join_good by (constructor; [exact Hlast | constructor]).
    assert (Hne1 : d ++ l1 :: mids <> []) by (destruct d; discriminate).
    destruct (do_create_directory_result _ _ _ Hne1 Ed) as (A1 & B1 & C1).
    intro Hx. assert (Hne : (d ++ l1 :: mids) ++ [lst] <> []) by (destruct d; discriminate).
    destruct (create_leaf_result s _ t pl l1 st2 ln st' Hne Ha Hx) as (-> & A & B & C & D).
    assert (Hleaf : (d ++ l1 :: mids) ++ [lst] = d ++ l1 :: c :: rest).
    { rewrite Hsplit, <- app_assoc. reflexivity. }
    rewrite Hleaf in *.
    assert (Hl2 : lookup (st_fs st2) (d ++ l1 :: c :: rest) = lookup (st_fs st) (d ++ l1 :: c :: rest)).
    { rewrite <- Hold. apply B1. right. rewrite <- Hleaf.
      apply app_not_prefix_longer. }
    split; [exact Hl|]. split; [rewrite C, C1; exact Hm1|].
    split; [unfold old_content in *; rewrite Hl2 in A; exact A|].
    split; [intros q Hq Hq2; rewrite B; [rewrite <- Hold; apply B1; left; rewrite Hold; exact Hq | | exact Hq2]|].
    { rewrite B1; [rewrite Hold; exact Hq | left; rewrite Hold; exact Hq]. }
    split; [apply Hmap; rewrite C, C1; reflexivity|].
    intro y. destruct (D y) as (st3 & E3). exists st3. exact E3.
Qed.

Lemma create_file_result cfg d nm pl st ln st' :
  create_file code_checks cfg d nm true pl st = (NOk ln, st') ->
  good ln /\
  lookup (st_fs st') (d ++ [ln]) = Some (File pl) /\
  (forall q, lookup (st_fs st) q <> None -> q <> d ++ [ln] -> lookup (st_fs st') q = lookup (st_fs st) q) /\
  name_choice cfg d st st' None nm ln /\
  (forall y, exists st2, create_file code_checks cfg d nm true y st = (NOk ln, st2)).
Proof.
  unfold create_file. destruct code_checks_on as [_ Hck]. rewrite Hck. cbn [andb].
  destruct (valid_name nm) eqn:Ev; cbn [negb]; [|discriminate]. apply valid_name_good in Ev.
  assert (Hch : (if overwrite cfg then Some nm else get_new_name (st_fs st) d nm) = None \/
            exists l1, (if overwrite cfg then Some nm else get_new_name (st_fs st) d nm) = Some l1 /\ good l1 /\
              (if overwrite cfg then l1 = nm else stat (st_fs st) (d ++ [l1]) = SNotExist)).
  { destruct (overwrite cfg) eqn:Eo; [right; exists nm; auto|].
    destruct (get_new_name (st_fs st) d nm) as [l1|] eqn:En; [|left; reflexivity].
    destruct (get_new_name_good _ _ _ _ Ev En) as [Hl Hs]. right. exists l1. auto. }
  destruct Hch as [->|(l1 & -> & Hl & Hn)]; [discriminate|].
  rewrite join_good by (constructor; [exact Hl | constructor]).
  destruct (do_create_file (d ++ [l1]) true pl st) as [ok st1] eqn:E. destruct ok; [|discriminate].
  intro Hx; inversion Hx; subst. destruct (do_create_file_result _ _ _ _ _ E) as (A & B & C & D).
  split; [exact Hl|]. rewrite write0_nil_l in A. split; [exact A|].
  split; [intros q _ Hq; apply B; exact Hq|].
  split; [unfold name_choice; destruct (overwrite cfg); auto|].
  intro y. destruct (D y) as (st2 & E2). rewrite E2. eexists; reflexivity.
Qed.

(* ---------- the creation step of the transfer model ---------- *)
From Trzsz Require Import Model.Transfer.

Definition tr_p_id (p : tr_npayload) : option Z := match p with TrJson s _ => Some (s_id s) | TrPlain _ => None end.
Definition tr_p_head (p : tr_npayload) : name := match p with TrJson s _ => hd [] (s_rel s) | TrPlain nm => nm end.

Lemma tr_create_result c d p x st ln st' :
  tr_p_archive p = false -> map_good (st_map st) ->
  tr_create c d p x st = (NOk ln, st') ->
  good ln /\ map_good (st_map st') /\ Forall good (tr_p_tail p) /\
  lookup (st_fs st') (d ++ ln :: tr_p_tail p) =
    Some (if tr_p_isdir p then Dir
          else File (write0 (if tr_json_names c then old_content (st_fs st) (d ++ ln :: tr_p_tail p) else []) x)) /\
  (forall q, lookup (st_fs st) q <> None -> q <> d ++ ln :: tr_p_tail p -> lookup (st_fs st') q = lookup (st_fs st) q) /\
  name_choice (tr_names_cfg c) d st st' (tr_p_id p) (tr_p_head p) ln /\
  (forall y, exists st2, tr_create c d p y st = (NOk ln, st2)).
Proof.
  intros Ha Hm. unfold tr_create. destruct p as [nm|s sz]; cbn [tr_p_archive tr_p_tail tr_p_isdir tr_p_id tr_p_head] in *.
  - destruct (tr_json c) eqn:Ej; [discriminate|]. intro Hx.
    destruct (create_file_result _ _ _ _ _ _ _ Hx) as (A & B & C & D & E).
    assert (Ejn : tr_json_names c = false) by (unfold tr_json in Ej; apply orb_false_iff in Ej; tauto).
    rewrite Ejn, write0_nil_l. split; [exact A|].
    split; [|split; [constructor | split; [exact B | split; [exact C | split; [exact D | exact E]]]]].
    unfold name_choice in D. destruct (overwrite (tr_names_cfg c)); destruct D as [_ ->]; exact Hm.
  - assert (HJ : forall t, recv_json code_checks (tr_names_cfg c) d (Some s) t x st = (NOk ln, st') ->
      good ln /\ map_good (st_map st') /\ Forall good (tl (s_rel s)) /\
      lookup (st_fs st') (d ++ ln :: tl (s_rel s)) =
        Some (if s_isdir s then Dir else File (write0 (if t then [] else old_content (st_fs st) (d ++ ln :: tl (s_rel s))) x)) /\
      (forall q, lookup (st_fs st) q <> None -> q <> d ++ ln :: tl (s_rel s) -> lookup (st_fs st') q = lookup (st_fs st) q) /\
      name_choice (tr_names_cfg c) d st st' (Some (s_id s)) (hd [] (s_rel s)) ln /\
      (forall y, exists st2, recv_json code_checks (tr_names_cfg c) d (Some s) t y st = (NOk ln, st2))).
    { intro t. unfold recv_json. destruct (s_rel s) as [|r0 rest] eqn:Er; [discriminate|].
      destruct code_checks_on as [Hu _]. rewrite Hu. cbn [andb].
      destruct (forallb valid_name (r0 :: rest)) eqn:Ev; cbn [negb]; [|discriminate].
      apply forallb_valid_good in Ev. intro Hx. cbn [tl hd].
      destruct (cdof_result _ _ _ _ _ _ _ _ _ _ Ev Ha Hm Hx) as (A & B & C & D & E & F).
      split; [exact A|]. split; [exact B|]. split; [inversion Ev; assumption|]. auto. }
    destruct (tr_json_names c) eqn:Ejn.
    + intro Hx. apply (HJ false Hx).
    + destruct (tc_directory c); [|discriminate]. intro Hx. apply (HJ true Hx).
Qed.
