From Trzsz Require Import Base.Bytes Model.Protocol.
From Coq Require Import ZArith Lia.

Section ProtocolProofs.
Variable digest : Type.
Variable H : list byte -> digest.
Variable deq : digest -> digest -> bool.
Hypothesis deq_spec : forall a b, deq a b = true <-> a = b.
Variable decode : list (list byte) -> option (list byte).
Variable decode1 : list byte -> option (list byte).

Variable early : option nat.
Notation recv_v2 := (recv_v2_sched digest H deq decode early).   (* = recv_v2_old: the code before d144b66, any schedule *)
Notation recv_v1 := (recv_v1 digest H deq decode1).

(* the frames and digest line the receiver consumed *)
Fixpoint frames_of (ls : list (line digest)) : list (list byte) :=
  match ls with
  | LData _ [] :: _ => []
  | LData _ f :: rest => f :: frames_of rest
  | LKeep _ :: rest => frames_of rest
  | _ => []
  end.

Fixpoint md5_of (ls : list (line digest)) : option digest :=
  match ls with
  | LData _ [] :: LMd5 _ d :: _ => Some d
  | LData _ (_ :: _) :: rest => md5_of rest
  | LKeep _ :: rest => md5_of rest
  | _ => None
  end.

(* what acceptance means: the stream in front of the finish flag decodes to w, the MD5 line is the
   digest of w, and EITHER the file holds w and |w| is the announced size, OR the acknowledger won
   the race (early = Some k): the stream is longer than announced and the file holds only its first
   k bytes, size <= k <= |w| *)
Lemma recv_v2_sched_sound : forall ls size acc written,
  recv_v2 size acc ls = Accept written ->
  exists w, decode (acc ++ frames_of ls) = Some w /\ md5_of ls = Some (H w) /\
    ((written = w /\ Z.of_nat (length w) = size) \/
     (exists k, early = Some k /\ written = firstn k w /\
                (0 <= size < Z.of_nat (length w))%Z /\ (size <= Z.of_nat k)%Z /\ (k <= length w)%nat)).
Proof.
  induction ls as [|l ls IH]; intros size acc written A; cbn [Protocol.recv_v2_sched] in A; [discriminate|].
  destruct l as [f|d| |]; try discriminate.
  - destruct f as [|b f].
    + destruct (decode acc) as [w|] eqn:D; [|discriminate].
      assert (T : forall wr, md5_verdict digest H deq w wr ls = Accept written ->
                  wr = written /\ md5_of (LData digest [] :: ls) = Some (H w)).
      { intros wr V. unfold md5_verdict in V. destruct ls as [|[f2|d2| |] rest]; try discriminate.
        destruct (deq d2 (H w)) eqn:Q; [|discriminate]. apply deq_spec in Q. subst d2.
        injection V as <-. split; reflexivity. }
      exists w. cbn [frames_of]. rewrite app_nil_r. split; [exact D|].
      destruct (Z.of_nat (length w) =? size)%Z eqn:S.
      * destruct (T w A) as [<- M]. split; [exact M|]. left. apply Z.eqb_eq in S. auto.
      * destruct early as [k|] eqn:Ee; [|discriminate].
        destruct ((0 <=? size)%Z && (size <? Z.of_nat (length w))%Z && (size <=? Z.of_nat k)%Z && (k <=? length w)%nat) eqn:C;
          [|discriminate].
        destruct (T (firstn k w) A) as [<- M]. split; [exact M|]. right. exists k.
        apply andb_prop in C. destruct C as [C C4]. apply andb_prop in C. destruct C as [C C3].
        apply andb_prop in C. destruct C as [C1 C2].
        apply Z.leb_le in C1. apply Z.ltb_lt in C2. apply Z.leb_le in C3. apply Nat.leb_le in C4.
        repeat split; auto.
    + destruct (IH size (acc ++ [b :: f]) written A) as (w & D & M & R). exists w. cbn [frames_of md5_of].
      rewrite <- app_assoc in D. auto.
  - cbn [frames_of md5_of]. exact (IH size acc written A).
Qed.

(* protocol 1: what was written is the concatenation of the decoded frames consumed, and
   its digest equals the MD5 line; its length is >= size but NOT necessarily = size *)
Lemma recv_v1_sound : forall fuel ls size w0 w,
  recv_v1 fuel size w0 ls = Accept w ->
  exists d, In (LMd5 digest d) ls /\ d = H w /\ (size <= Z.of_nat (length w))%Z
            /\ exists tail, w = w0 ++ tail.
Proof.
  induction fuel as [|fuel IH]; intros ls size w0 w A; cbn [Protocol.recv_v1] in A.
  - destruct (Z.of_nat (length w0) <? size)%Z eqn:L; [discriminate|].
    destruct ls as [|[f|d| |] rest]; try discriminate.
    destruct (deq d (H w0)) eqn:Q; [|discriminate]. injection A as <-.
    apply deq_spec in Q. apply Z.ltb_ge in L. exists d. repeat split; auto.
    + left; reflexivity.
    + exists []. rewrite app_nil_r. reflexivity.
  - destruct (Z.of_nat (length w0) <? size)%Z eqn:L.
    + destruct ls as [|[f|d| |] rest]; try discriminate.
      destruct (decode1 f) as [dd|]; [|discriminate].
      destruct (IH rest size (w0 ++ dd) w A) as (d & I & E & Sz & tail & T).
      exists d. repeat split; auto. { right; exact I. }
      exists (dd ++ tail). rewrite T, app_assoc. reflexivity.
    + destruct ls as [|[f|d| |] rest]; try discriminate.
      destruct (deq d (H w0)) eqn:Q; [|discriminate]. injection A as <-.
      apply deq_spec in Q. apply Z.ltb_ge in L. exists d. repeat split; auto.
      * left; reflexivity.
      * exists []. rewrite app_nil_r. reflexivity.
Qed.

(* No silent corruption, receiver side, both protocol generations.  The sender computed
   its digest over [src].  Whatever the connection did to the lines (any list [ls]),
   if the receiver accepts [w] then H w is the digest value it was handed; so unless the
   digest line was forged to the digest of the corrupted content, or MD5 collides on
   (w, src), the accepted content is the source. *)
Definition unforged (src w : list byte) (d : digest) : Prop :=
  d = H w -> H w = H src.          (* the delivered digest value is not "accidentally right" *)
Definition collision_free_on (src w : list byte) : Prop := H w = H src -> w = src.

(* protocol >= 2.  Two sufficient conditions, each closing the race: the saver's check decides
   (early = None), or the SIZE message that was delivered is the true one. *)
Theorem recv_v2_sched_no_silent_no_race : forall ls size src w,
  early = None ->
  recv_v2 size [] ls = Accept w ->
  (forall d, md5_of ls = Some d -> unforged src w d) -> collision_free_on src w -> w = src.
Proof.
  intros ls size src w E A U C. destruct (recv_v2_sched_sound ls size [] w A) as (w' & _ & M & [[-> _]|(k & Ek & _)]).
  - apply C. exact (U _ M eq_refl).
  - rewrite E in Ek. discriminate.
Qed.

Theorem recv_v2_sched_no_silent_true_size : forall ls size src written,
  size = Z.of_nat (length src) ->
  recv_v2 size [] ls = Accept written ->
  (* the two digest hypotheses, about the stream the frames decode to *)
  (forall w d, decode (frames_of ls) = Some w -> md5_of ls = Some d -> unforged src w d) ->
  (forall w, decode (frames_of ls) = Some w -> collision_free_on src w) -> written = src.
Proof.
  intros ls size src written Es A U C.
  destruct (recv_v2_sched_sound ls size [] written A) as (w & D & M & [[-> _]|(k & _ & _ & [_ Lt] & _)]); cbn [app] in D.
  - apply (C _ D). exact (U _ _ D M eq_refl).
  - (* the stream is the source (digest), hence as long as announced: no room for the race *)
    assert (w = src) by (apply (C _ D); exact (U _ _ D M eq_refl)). subst w. lia.
Qed.

End ProtocolProofs.

(* ---------- the code as it is: the ctx.succ branch of recvFileDataV2 waits for the saver ---------- *)
Lemma succ_waits_saver_src_ok : Consts.c02_succ_waits_saver = true. Proof. reflexivity. Qed.

Section ProtocolFixed.
Variable digest : Type.
Variable H : list byte -> digest.
Variable deq : digest -> digest -> bool.
Hypothesis deq_spec : forall a b, deq a b = true <-> a = b.
Variable decode : list (list byte) -> option (list byte).
Variable early : option nat.

Lemma recv_v2_eq : recv_v2 digest H deq decode early = recv_v2_sched digest H deq decode None.
Proof. unfold recv_v2. rewrite succ_waits_saver_src_ok. reflexivity. Qed.

Lemma recv_v2_old_eq : recv_v2_old digest H deq decode early = recv_v2_sched digest H deq decode early.
Proof. reflexivity. Qed.

(* acceptance: the stream in front of the finish flag decodes to exactly what the file holds, it is as
   long as announced, and the MD5 line is its digest - for EVERY schedule *)
Lemma recv_v2_sound : forall ls size acc w,
  recv_v2 digest H deq decode early size acc ls = Accept w ->
  decode (acc ++ frames_of digest ls) = Some w /\ Z.of_nat (length w) = size /\ md5_of digest ls = Some (H w).
Proof.
  intros ls size acc w A. rewrite recv_v2_eq in A.
  destruct (recv_v2_sched_sound digest H deq deq_spec decode None ls size acc w A) as (w' & D & M & [[-> S]|(k & Ek & _)]);
    [auto | discriminate].
Qed.

Theorem recv_v2_no_silent : forall ls size src w,
  recv_v2 digest H deq decode early size [] ls = Accept w ->
  (forall d, md5_of digest ls = Some d -> unforged digest H src w d) -> collision_free_on digest H src w -> w = src.
Proof.
  intros ls size src w A U C. destruct (recv_v2_sound ls size [] w A) as (_ & _ & M).
  apply C. exact (U _ M eq_refl).
Qed.
End ProtocolFixed.

Section ProtocolProofs2.
Variable digest : Type.
Variable H : list byte -> digest.
Variable deq : digest -> digest -> bool.
Hypothesis deq_spec : forall a b, deq a b = true <-> a = b.
Variable decode1 : list byte -> option (list byte).
Notation recv_v1 := (recv_v1 digest H deq decode1).
Notation unforged := (unforged digest H).
Notation collision_free_on := (collision_free_on digest H).
Notation recv_v1_sound := (recv_v1_sound digest H deq deq_spec decode1).

Theorem recv_v1_no_silent : forall fuel ls size src w,
  recv_v1 fuel size [] ls = Accept w ->
  (forall d, In (LMd5 digest d) ls -> unforged src w d) -> collision_free_on src w -> w = src.
Proof.
  intros fuel ls size src w A U C. destruct (recv_v1_sound fuel ls size [] w A) as (d & I & E & _).
  apply C. exact (U d I E).
Qed.

(* sender side: success only after every frame's ack carried that frame's length, a final
   ack with step = size, and an echoed digest equal to its own *)
Notation send_v2 := (send_v2 digest deq).
Notation send_final := (send_final digest deq).

Definition is_keep (a : ack digest) : bool := match a with AKeep _ => true | _ => false end.

Lemma send_final_sound : forall as_ size mine, send_final size mine as_ = true ->
  exists pre d rest, as_ = pre ++ AFinal digest size :: ADigest digest d :: rest /\ d = mine
    /\ Forall (fun a => a = AKeep digest \/ exists s, a = AFinal digest s /\ (s < size)%Z) pre.
Proof.
  induction as_ as [|a as_ IH]; intros size mine S; cbn [Protocol.send_final] in S; [discriminate|].
  destruct a as [l s|s|d| |]; try discriminate.
  - destruct (s >? size)%Z eqn:G; [discriminate|].
    destruct (s =? size)%Z eqn:E.
    + destruct as_ as [|[l2 s2|s2|d2| |] rest]; try discriminate.
      apply deq_spec in S. apply Z.eqb_eq in E. subst s.
      exists [], d2, rest. repeat split; auto.
    + destruct (IH size mine S) as (pre & d & rest & -> & Ed & F).
      exists (AFinal digest s :: pre), d, rest. repeat split; auto.
      constructor; [|exact F]. right. exists s. split; [reflexivity|].
      apply Z.eqb_neq in E. rewrite Z.gtb_ltb in G. apply Z.ltb_ge in G. lia.
  - destruct (IH size mine S) as (pre & d & rest & -> & Ed & F).
    exists (AKeep digest :: pre), d, rest. repeat split; auto.
Qed.

Theorem send_v2_sound : forall as_ sent size mine, send_v2 size mine sent as_ = true ->
  exists facks rest, as_ = facks ++ rest
    /\ Forall2 (fun a n => exists s, a = AFrame digest n s) (filter (fun a => negb (is_keep a)) facks) sent
    /\ send_final size mine rest = true.
Proof.
  induction as_ as [|a as_ IH]; intros sent size mine S.
  - destruct sent; cbn in S; [|discriminate]. exists [], []. repeat split; auto. constructor.
  - destruct sent as [|n sent].
    + exists [], (a :: as_). repeat split; [constructor|]. destruct a; exact S.
    + cbn [Protocol.send_v2] in S. destruct a as [l s|s|d| |]; try discriminate.
      * destruct (l =? n)%Z eqn:E; [|discriminate]. apply Z.eqb_eq in E. subst l.
        destruct (IH sent size mine S) as (facks & rest' & -> & F & Fin).
        exists (AFrame digest n s :: facks), rest'. repeat split; auto.
        cbn [filter is_keep negb]. constructor; [exists s; reflexivity|exact F].
      * destruct (IH (n :: sent) size mine S) as (facks & rest' & -> & F & Fin).
        exists (AKeep digest :: facks), rest'. repeat split; auto.
Qed.

Notation send_v1 := (send_v1 digest deq).
Theorem send_v1_sound : forall sent as_ mine, send_v1 mine sent as_ = true ->
  exists d rest, as_ = map (AFinal digest) sent ++ ADigest digest d :: rest /\ d = mine.
Proof.
  induction sent as [|n sent IH]; intros as_ mine S; cbn [Protocol.send_v1] in S.
  - destruct as_ as [|[l s|s|d| |] rest]; try discriminate. apply deq_spec in S. exists d, rest. auto.
  - destruct as_ as [|[l s|s|d| |] rest]; try discriminate.
    destruct (s =? n)%Z eqn:E; [|discriminate]. apply Z.eqb_eq in E. subst s.
    destruct (IH rest mine S) as (d & rest' & -> & Ed). exists d, rest'. auto.
Qed.

End ProtocolProofs2.
