(* C18: the wire sender at chunk granularity (Model/PauseSend.v): while paused no further file data is written,
   whatever path a chunk takes (whole frame, piece of a re-split block, zero-length finish chunk), and the
   re-splitting conserves the bytes. *)
From Trzsz Require Import Base.Bytes Gen.Consts Model.Pause Model.PauseSend Proofs.Pause.
From Coq Require Import Lia NArith.
Local Open Scope nat_scope.

Section SendProofs.
Variable cf : cfg.
Variable W : nat.
Hypothesis P3 : cP3 cf = true.

Lemma bs_count_app : forall a b, bs_count_chunks (a ++ b) = bs_count_chunks a + bs_count_chunks b.
Proof. intros a b. unfold bs_count_chunks, bs_chunks. rewrite flat_map_app, app_length. reflexivity. Qed.

(* the gate while pausing: a chunk is written only by a sender that is already past its check, nobody passes it *)
Lemma bs_gate_paused : forall s whole len idx piece p e s' os,
  bd_pausing s = true -> (e = SCall /\ p = SIdle \/ e = STick \/ e = SWrite /\ p = SPassed) ->
  bs_gate cf s whole len idx piece p e = (s', os) ->
  bd_pausing s' = true /\ bs_count_chunks os + bs_passed (bd_ph s') <= bs_passed (BSIn whole len idx piece p).
Proof.
  intros s whole len idx piece p e s' os Hp He H. unfold bs_gate in H.
  destruct He as [(-> & ->)|[->|(-> & ->)]]; cbn [sphase_step] in H.
  - unfold gate_enter in H. rewrite P3, Hp in H. cbn [andb] in H.
    destruct (bd_stopped s); inversion H; subst; cbn; auto.
  - destruct p as [|[|[|j]]|]; cbn [sphase_step] in H; try (inversion H; subst; cbn; auto; fail);
      unfold gate_enter in H; rewrite P3, Hp in H; cbn [andb] in H;
      destruct (bd_stopped s); inversion H; subst; cbn; auto.
  - inversion H; subst; cbn. auto.
Qed.

Lemma bstep_paused : forall s e s' os, bd_pausing s = true -> e <> BResumeEv -> bstep cf W s e = (s', os) ->
  bd_pausing s' = true /\ bs_count_chunks os + bs_passed (bd_ph s') <= bs_passed (bd_ph s).
Proof.
  intros [pa st q cl buf ph cnt] e s' os Hp Hne H; cbn [bd_pausing] in Hp; subst pa.
  destruct e; try congruence; cbn [bstep bd_pausing bd_stopped bd_queue bd_closed bd_buf bd_ph bd_cnt] in H;
    try (inversion H; subst; cbn; auto; fail).
  - (* tick *)
    destruct ph as [| | whole len idx piece [|j|] | |]; try (inversion H; subst; cbn; auto; fail).
    apply bs_gate_paused in H; [exact H|reflexivity|auto].
  - (* enqueue *)
    destruct cl; inversion H; subst; cbn; auto.
  - (* ack take *)
    destruct cnt; inversion H; subst; cbn; auto.
  - (* next *)
    destruct ph as [|len idx| | |]; try (inversion H; subst; cbn; auto; fail).
    + destruct q as [|len q].
      * destruct cl; inversion H; subst; cbn; auto.
      * destruct (len <=? buf)%N; inversion H; subst; cbn; auto.
  - (* call *)
    destruct ph as [| | whole len idx piece [|j|] | |]; try (inversion H; subst; cbn; auto; fail).
    apply bs_gate_paused in H; [exact H|reflexivity|auto].
  - (* write *)
    destruct ph as [| | whole len idx piece [|j|] | |]; inversion H; subst; cbn; auto.
  - (* push *)
    destruct ph as [| | |whole len idx piece|]; try (inversion H; subst; cbn; auto; fail).
    destruct (cnt <? W); inversion H; subst; cbn [bd_pausing bd_ph bd_set bs_count_chunks bs_chunks flat_map length bs_passed]; auto.
    unfold bs_after_push. destruct whole; [cbn; auto|]. destruct (idx + piece <? len)%N; cbn; auto.
Qed.

(* THE CLAUSE "while paused the paused side sends no further file data", at chunk granularity and on every path:
   for every sequence of events without a resume (ticks, the goroutine's moves, blocks handed over, changes of the
   chunk size -- so blocks may be re-split at any moment --, acknowledgements taken, stop, further pause requests)
   from ANY state of a pausing sender, the chunks written are none -- except the single chunk of a sender that had
   already passed its pause check when the pause began (bs_passed = 1), and then exactly that one. *)
Theorem bs_no_data_while_paused : forall es s s' os, bd_pausing s = true -> ~ In BResumeEv es ->
  brun cf W s es = (s', os) ->
  bs_count_chunks os + bs_passed (bd_ph s') <= bs_passed (bd_ph s) /\ bd_pausing s' = true.
Proof.
  induction es as [|e es IH]; intros s s' os Hp Hn H; cbn [brun] in H.
  - inversion H; subst. cbn. split; [lia|exact Hp].
  - destruct (bstep cf W s e) as [s1 o] eqn:E1. destruct (brun cf W s1 es) as [s2 os2] eqn:E2.
    inversion H; subst; clear H.
    assert (He : e <> BResumeEv) by (intros ->; apply Hn; left; reflexivity).
    destruct (bstep_paused s e s1 o Hp He E1) as (Hp1 & Hle).
    destruct (IH s1 s' os2 Hp1 (fun X => Hn (or_intror X)) E2) as (Hle2 & Hp2).
    rewrite bs_count_app. split; [lia|exact Hp2].
Qed.

(* in particular from a state in which the sender is NOT past its check (at the range, in the split loop, asleep in
   the gate, waiting for room in the ack window): nothing at all *)
Corollary bs_nothing_while_paused : forall es s s' os, bd_pausing s = true -> bs_passed (bd_ph s) = 0 ->
  ~ In BResumeEv es -> brun cf W s es = (s', os) -> bs_chunks os = [].
Proof.
  intros es s s' os Hp H0 Hn H. destruct (bs_no_data_while_paused es s s' os Hp Hn H) as (Hle & _).
  rewrite H0 in Hle. unfold bs_count_chunks in Hle. destruct (bs_chunks os); [reflexivity|cbn in Hle; lia].
Qed.

End SendProofs.

(* ---------- the re-splitting conserves the bytes ---------- *)

Local Open Scope N_scope.

Definition nsum (l : list N) : N := fold_right N.add 0 l.

Lemma nsum_nil : nsum [] = 0. Proof. reflexivity. Qed.
Lemma nsum_cons : forall x l, nsum (x :: l) = x + nsum l. Proof. reflexivity. Qed.

Lemma nsum_app : forall a b, nsum (a ++ b) = nsum a + nsum b.
Proof. induction a as [|x a IH]; intros b; cbn [app nsum fold_right]; [reflexivity|]. fold (nsum (a ++ b)). fold (nsum a). rewrite IH, N.add_assoc. reflexivity. Qed.
Arguments nsum : simpl never.

(* bytes of the block in hand that are not yet on the wire *)
Definition bs_left (p : bsph) : N :=
  match p with
  | BSTake | BSDone => 0
  | BSSplit len idx => len - idx
  | BSIn true len _ _ _ => len
  | BSIn false len idx _ _ => len - idx
  | BSPush true _ _ _ => 0
  | BSPush false len idx piece => len - idx - piece
  end.

Definition bs_wf (p : bsph) : Prop :=
  match p with
  | BSSplit len idx => idx < len
  | BSIn true len idx piece _ => piece = len
  | BSIn false len idx piece _ => idx + piece <= len
  | BSPush false len idx piece => idx + piece <= len
  | _ => True
  end.

Definition bs_enq (e : bev) (closed : bool) : N := match e with BEnqueue n => if closed then 0 else n | _ => 0 end.

Section Conserve.
Variable cf : cfg.
Variable W : nat.

Lemma bs_gate_conserve : forall s whole len idx piece p e s' os, bd_stopped s = false ->
  (e = SCall /\ p = SIdle \/ (e = STick /\ exists j, p = SSleep j) \/ e = SWrite /\ p = SPassed) ->
  bs_wf (BSIn whole len idx piece p) -> bs_gate cf s whole len idx piece p e = (s', os) ->
  bs_wf (bd_ph s') /\ bd_stopped s' = false /\ bd_queue s' = bd_queue s /\ bd_closed s' = bd_closed s /\
  nsum (bs_chunks os) + bs_left (bd_ph s') = bs_left (BSIn whole len idx piece p).
Proof.
  intros s whole len idx piece p e s' os Hst Hep Hwf H. unfold bs_gate in H. rewrite Hst in H.
  destruct (sphase_step cf (bd_pausing s) false p e) as [p' ws] eqn:E.
  assert (Hws : (ws = [] /\ (e = SWrite -> False)) \/ (ws = [WKeep] /\ (e = SWrite -> False)) \/ (ws = [WFrame] /\ p' = SIdle /\ e = SWrite)).
  { destruct Hep as [(-> & ->)|[(-> & j & ->)|(-> & ->)]].
    - cbn [sphase_step] in E. unfold gate_enter in E.
      destruct (cP3 cf && bd_pausing s); inversion E; subst; [right; left|left]; (split; [reflexivity|discriminate]).
    - destruct j as [|[|j]]; cbn [sphase_step] in E; try unfold gate_enter in E;
        try (destruct (cP3 cf && bd_pausing s)); inversion E; subst;
        first [left; split; [reflexivity|discriminate] | right; left; split; [reflexivity|discriminate]].
    - cbn [sphase_step] in E. inversion E; subst. right; right; auto. }
  destruct Hws as [(-> & Hnw)|[(-> & Hnw)|(-> & -> & ->)]].
  - destruct p', e; try (exfalso; apply Hnw; reflexivity); inversion H; subst; cbn [bd_ph bd_stopped bd_queue bd_closed bd_set bs_chunks flat_map map]; rewrite ?nsum_cons, ?nsum_nil;
      repeat split; auto; cbn in *; destruct whole; cbn in *; try lia.
  - destruct p', e; try (exfalso; apply Hnw; reflexivity); inversion H; subst; cbn [bd_ph bd_stopped bd_queue bd_closed bd_set bs_chunks flat_map map app]; rewrite ?nsum_cons, ?nsum_nil;
      repeat split; auto; cbn in *; destruct whole; cbn in *; try lia.
  - inversion H; subst. cbn [bd_ph bd_stopped bd_queue bd_closed bd_set]. repeat split; auto.
    + destruct whole; cbn in *; auto.
    + cbn [bs_chunks flat_map app]. rewrite nsum_cons, nsum_nil. destruct whole; cbn [bs_left bs_wf] in *; lia.
Qed.

Ltac btriv H :=
  inversion H; subst;
  cbn [bd_ph bd_stopped bd_queue bd_closed bd_set bs_chunks flat_map bs_enq bs_wf bs_left app] in *;
  rewrite ?nsum_app, ?nsum_cons, ?nsum_nil;
  repeat split; auto; lia.

Lemma bstep_conserve : forall s e s' os, bd_stopped s = false -> e <> BStopEv -> bs_wf (bd_ph s) ->
  bstep cf W s e = (s', os) ->
  bs_wf (bd_ph s') /\ bd_stopped s' = false /\
  nsum (bs_chunks os) + bs_left (bd_ph s') + nsum (bd_queue s') = bs_left (bd_ph s) + nsum (bd_queue s) + bs_enq e (bd_closed s).
Proof.
  intros [pa st q cl buf ph cnt] e s' os Hst Hne Hwf H; cbn [bd_stopped bd_ph bd_queue bd_closed] in *; subst st.
  destruct e; try congruence; cbn [bstep bd_pausing bd_stopped bd_queue bd_closed bd_buf bd_ph bd_cnt] in H;
    try (btriv H).
  - destruct ph as [| | whole len idx piece [|j|] | |]; try (btriv H).
    apply bs_gate_conserve in H; [|reflexivity|first [left; split; reflexivity | right; left; split; [reflexivity|eexists; reflexivity] | right; right; split; reflexivity]|exact Hwf]. destruct H as (A & B & C & D & E).
    cbn [bd_queue] in C. rewrite C. cbn [bs_enq]. repeat split; auto. lia.
  - destruct cl; inversion H; subst; cbn [bd_ph bd_stopped bd_queue bd_set bs_chunks flat_map bs_enq]; rewrite ?nsum_app, ?nsum_cons, ?nsum_nil;
      repeat split; auto; try lia.
  - destruct cnt; btriv H.
  - destruct ph as [|len idx| | |]; try (btriv H).
    destruct q as [|len q].
    + destruct cl; btriv H.
    + destruct (len <=? buf) eqn:El; [apply N.leb_le in El|apply N.leb_gt in El]; inversion H; subst;
          cbn [bd_ph bd_stopped bd_queue bd_set bs_chunks flat_map bs_enq bs_wf bs_left]; rewrite ?nsum_cons, ?nsum_nil;
          repeat split; auto; lia.
  - destruct ph as [| | whole len idx piece [|j|] | |]; try (btriv H).
    apply bs_gate_conserve in H; [|reflexivity|first [left; split; reflexivity | right; left; split; [reflexivity|eexists; reflexivity] | right; right; split; reflexivity]|exact Hwf]. destruct H as (A & B & C & D & E).
    cbn [bd_queue] in C. rewrite C. cbn [bs_enq]. repeat split; auto. lia.
  - destruct ph as [| | whole len idx piece [|j|] | |]; try (btriv H).
    apply bs_gate_conserve in H; [|reflexivity|first [left; split; reflexivity | right; left; split; [reflexivity|eexists; reflexivity] | right; right; split; reflexivity]|exact Hwf]. destruct H as (A & B & C & D & E).
    cbn [bd_queue] in C. rewrite C. cbn [bs_enq]. repeat split; auto. lia.
  - destruct ph as [| | |whole len idx piece|]; try (btriv H).
    destruct (Nat.ltb cnt W); inversion H; subst; cbn [bd_ph bd_stopped bd_queue bd_set bs_chunks flat_map bs_enq]; rewrite ?nsum_app, ?nsum_cons, ?nsum_nil;
      try (cbn [bs_wf bs_left] in *; repeat split; auto; lia).
    unfold bs_after_push. destruct whole; [cbn [bs_wf bs_left] in *; repeat split; auto; lia|].
    destruct (idx + piece <? len) eqn:El; cbn [bs_wf bs_left] in *; [apply N.ltb_lt in El|apply N.ltb_ge in El]; repeat split; auto; lia.
Qed.

Lemma bs_chunks_app : forall a b, bs_chunks (a ++ b) = bs_chunks a ++ bs_chunks b.
Proof. intros a b. unfold bs_chunks. apply flat_map_app. Qed.

(* RE-SPLITTING CONSERVES THE BYTES: whatever the chunk size does meanwhile and wherever pauses fall, the chunks on
   the wire plus what is still in hand and in the queue add up to what was queued (no stop, no block handed over
   meanwhile; in particular at the end, queue empty and nothing in hand: the chunk lengths sum to the block lengths) *)
Theorem bs_bytes_conserved : forall es s s' os, bd_stopped s = false -> ~ In BStopEv es ->
  (forall n, ~ In (BEnqueue n) es) -> bs_wf (bd_ph s) -> brun cf W s es = (s', os) ->
  nsum (bs_chunks os) + bs_left (bd_ph s') + nsum (bd_queue s') = bs_left (bd_ph s) + nsum (bd_queue s).
Proof.
  induction es as [|e es IH]; intros s s' os Hst Hn He Hwf H; cbn [brun] in H.
  - inversion H; subst. cbn [bs_chunks flat_map]. rewrite nsum_nil. lia.
  - destruct (bstep cf W s e) as [s1 o] eqn:E1. destruct (brun cf W s1 es) as [s2 os2] eqn:E2.
    inversion H; subst; clear H.
    assert (Hne : e <> BStopEv) by (intros ->; apply Hn; left; reflexivity).
    destruct (bstep_conserve s e s1 o Hst Hne Hwf E1) as (Hwf1 & Hst1 & Heq).
    assert (Henq : bs_enq e (bd_closed s) = 0).
    { destruct e; try reflexivity. exfalso. apply (He len). left. reflexivity. }
    specialize (IH s1 s' os2 Hst1 (fun X => Hn (or_intror X)) (fun n X => He n (or_intror X)) Hwf1 E2).
    rewrite bs_chunks_app, nsum_app. lia.
Qed.

End Conserve.
