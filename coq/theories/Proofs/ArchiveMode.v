(* Proofs about Model/ArchiveMode.v (property C15): both ends agree on "archive". *)
From Trzsz Require Import Base.Bytes Gen.Consts Model.Archive Model.ArchiveMode Proofs.Archive.
From Coq Require Import Lia ZArith.

(* the source literals the agreement rests on: the NAME record's flag and the sender's own
   test use the same threshold; grouping needs a protocol from which sendFileNameV3 is used *)
Lemma archive_mode_consts_ok :
  Consts.archive_flag_gt = Consts.archive_send_gt /\
  (Consts.archive_v3_protocol <= Consts.archive_min_protocol) /\
  Consts.archive_writer_needs_dir = 1.
Proof. repeat split; try reflexivity. vm_compute. discriminate. Qed.

(* ---- archiveSourceFiles: sub-entries exist only when grouping is on ---- *)
Lemma amo_group_subs overwrite proto scan slots r :
  amo_group overwrite proto scan = Some slots -> In (Some r) slots -> amo_subs r <> [] ->
  overwrite = false /\ Consts.archive_min_protocol <= proto.
Proof.
  unfold amo_group. destruct (amo_grouping overwrite proto scan) eqn:G.
  - intros _ _ _. unfold amo_grouping in G.
    apply andb_prop in G as [G _]. apply andb_prop in G as [G1 G2].
    split; [destruct overwrite; [discriminate|reflexivity]|]. apply N.leb_le. exact G2.
  - intros H Hin Hs. injection H as <-. apply in_map_iff in Hin as (s & Hs' & _).
    injection Hs' as <-. cbn in Hs. contradiction.
Qed.

(* C15_mode_agree *)
Theorem amo_agree_all overwrite proto scan slots r :
  amo_group overwrite proto scan = Some slots -> In (Some r) slots ->
  (amo_subs r <> [] -> amo_isdir (amo_top r) = true) ->
  amo_agree (amo_sender proto r) (amo_receiver (amo_name_of r)) = true.
Proof.
  intros Hg Hin Hdir.
  destruct archive_mode_consts_ok as (Hk & Hv & Hn).
  unfold amo_sender, amo_receiver, amo_name_of, amo_flag. cbn [amn_archive amn_isdir].
  rewrite Hk, Hn.
  destruct (N.to_nat Consts.archive_send_gt <? length (amo_subs r))%nat eqn:Hlen.
  - (* flagged: there are sub-entries, so grouping was on and the protocol is >= 3 *)
    assert (Hne : amo_subs r <> []).
    { intros E. rewrite E in Hlen. cbn [length] in Hlen. apply Nat.ltb_lt in Hlen. lia. }
    destruct (amo_group_subs _ _ _ _ _ Hg Hin Hne) as [_ Hp].
    rewrite (Hdir Hne). cbn [negb andb].
    assert (Hv3 : (Consts.archive_v3_protocol <=? proto) = true) by (apply N.leb_le; lia).
    rewrite Hv3. reflexivity.
  - rewrite andb_false_r. destruct (amo_isdir (amo_top r)); reflexivity.
Qed.

(* a slot that holds a root whose archive flag is off never makes the sender stream, and
   the reverse: stated on the plan as a whole *)
Lemma amo_plan_steps overwrite proto scan steps :
  amo_plan overwrite proto scan = Some steps ->
  exists slots, amo_group overwrite proto scan = Some slots /\ steps = map (amo_step_of proto) slots.
Proof.
  unfold amo_plan. destruct (amo_group overwrite proto scan) as [slots|]; [|discriminate].
  intros H. injection H as <-. exists slots. auto.
Qed.

Theorem amo_plan_agree overwrite proto scan steps n k s rk :
  amo_plan overwrite proto scan = Some steps -> In (AmoStep n k s rk) steps ->
  ((0 < k)%nat -> amn_isdir n = true) -> amo_agree s rk = true.
Proof.
  intros Hp Hin Hdir. destruct (amo_plan_steps _ _ _ _ Hp) as (slots & Hg & ->).
  apply in_map_iff in Hin as (x & Hx & Hin). destruct x as [r|]; [|discriminate].
  cbn [amo_step_of] in Hx. injection Hx as <- <- <- <-.
  apply (amo_agree_all overwrite proto scan slots r Hg Hin).
  intros Hne. apply Hdir. destruct (amo_subs r); [contradiction|cbn [length]; lia].
Qed.

Section ArchiveModeProofs.
Variable hdr : ameta -> list byte.
Variable parse : list byte -> option ameta.

(* C15_mode_tree: a directory root with zero, one or many entries below it arrives as
   exactly its tree, for every segmentation of what the sender streams *)
Theorem amo_root_tree fixed overwrite proto scan slots r ws :
  amo_group overwrite proto scan = Some slots -> In (Some r) slots ->
  amo_isdir (amo_top r) = true ->
  awf_tree (amo_entries r) -> Forall (fun e => aentry_ok e = true) (amo_entries r) ->
  Forall (hdr_ok hdr parse) (amo_entries r) ->
  (amo_subs r <> [] -> concat ws = astream hdr (amo_entries r)) ->
  exists st, amo_root_xfer parse fixed proto r ws = Some (AwDone st) /\
    forall p, afs_lookup (aw_fs (aw_close st)) p = aspec_tree (amo_entries r) p.
Proof.
  intros Hg Hin Hd Hwf Hok Hh Hcat.
  pose proof (amo_agree_all overwrite proto scan slots r Hg Hin (fun _ => Hd)) as Hag.
  unfold amo_root_xfer.
  destruct (amo_sender proto r) eqn:Hs; destruct (amo_receiver (amo_name_of r)) eqn:Hr; try discriminate.
  - (* archive on both ends *)
    assert (Hne : amo_subs r <> []).
    { intros E. unfold amo_sender in Hs. rewrite E in Hs. cbn [length] in Hs.
      assert (Hf : (N.to_nat Consts.archive_send_gt <? 0)%nat = false) by (apply Nat.ltb_ge; lia).
      rewrite Hf, andb_false_r in Hs. destruct (amo_isdir (amo_top r)); discriminate. }
    destruct (writer_ok hdr parse fixed (amo_entries r) ws Hwf Hok Hh (Hcat Hne)) as (st & Hw & Ht).
    exists st. rewrite Hw. auto.
  - (* plain directory on both ends: no entries below it *)
    assert (He : amo_subs r = []).
    { destruct archive_mode_consts_ok as (Hk & _ & _).
      unfold amo_receiver, amo_name_of, amo_flag in Hr. cbn [amn_archive amn_isdir] in Hr.
      destruct (N.to_nat Consts.archive_flag_gt <? length (amo_subs r))%nat eqn:Hlen.
      - rewrite Hd in Hr. cbn in Hr. discriminate.
      - apply Nat.ltb_ge in Hlen. destruct (amo_subs r); [reflexivity|].
        cbn [length] in Hlen. assert (N.to_nat Consts.archive_flag_gt = 0%nat) by reflexivity. lia. }
    exists aw_init. split; [reflexivity|]. unfold amo_entries. rewrite He. cbn [map].
    intros [|x p]; reflexivity.
  - (* a directory is never sent as a plain file *)
    unfold amo_sender in Hs. rewrite Hd in Hs.
    destruct ((Consts.archive_v3_protocol <=? proto) && _); discriminate.
Qed.

End ArchiveModeProofs.

(* ==================================================================================== *)
(* the archive stream as a source file: the compression decision *)
Lemma archive_stream_consts_ok :
  Consts.archive_reader_file_nil = true /\ Consts.archive_probe_guard_fires = true /\
  Consts.archive_probe_nofile_compress = true.
Proof. repeat split; reflexivity. Qed.

(* C15_stream_compress: sendCompressFlag never fails on an archive stream, and whenever the
   configuration and the size leave the decision open it is "compress" (the stream is not an
   argument of the decision: it is neither read nor moved) *)
Theorem amo_archive_compress_ok proto ctype binary size :
  amo_archive_compress proto ctype binary size <> AmoCompErr /\
  (forall c, amo_archive_compress proto ctype binary size = AmoCompProbed c -> c = true).
Proof.
  unfold amo_archive_compress. destruct archive_stream_consts_ok as (-> & -> & ->).
  destruct (amo_rules_eval Consts.tr_compress_rules proto ctype binary size) as [[|] c]; cbn [andb].
  - split; [discriminate|intros c' H; discriminate].
  - split; [discriminate|intros c' H; injection H as <-; reflexivity].
Qed.

(* with the decision list of the current source: compression "auto", protocol >= 3, an announced
   stream size of 128 KiB or more - the decision is left to the probe, which says "compress" *)
Lemma amo_archive_compress_auto_large proto binary size :
  3 <= proto -> 131072 <= size ->
  amo_archive_compress proto Consts.tr_compress_auto binary size = AmoCompProbed true.
Proof.
  intros Hp Hs. unfold amo_archive_compress. destruct archive_stream_consts_ok as (-> & -> & ->).
  unfold Consts.tr_compress_rules, Consts.tr_compress_auto.
  cbn [amo_rules_eval amo_rule_cond N.eqb Pos.eqb].
  destruct (N.ltb_spec proto 3); [lia|].
  destruct (N.ltb_spec size 512); [lia|]. destruct (N.ltb_spec size 131072); [lia|].
  reflexivity.
Qed.
