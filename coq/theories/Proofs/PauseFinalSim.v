(* C18, the phases after the last DATA frame: the SIMULATIONS between the machines that run the reader machine
   ([udstep]: our final-ack reader; [vdstep]: the peer's final-ack reader, our gate) and the abstract machines
   [ustep] / [vstep] of Proofs/PauseFinal.v, and the theorems carried over. *)
From Trzsz Require Import Base.Bytes Gen.Consts Model.Pause Model.PauseDown Proofs.Pause Proofs.PauseComp Proofs.PauseSim
  Proofs.PauseDownSim Proofs.PauseFinal.
From Coq Require Import Lia.
Local Open Scope nat_scope.

(* ================= upload, after the last DATA frame ================= *)

Section UpFinalSim.
Variables T' SL GL FP P : nat.
Let T := S T'.
Let cf := mkCfg T SL GL true.

Definition UDInv (s : udst) : Prop := okD (udFA s) /\ udErr s = false /\ udBadPM s = false.

Ltac udflds := cbn [udFA udFin udPK udSaved udPM udErr udBadPM udEp] in *.
Ltac uflds := cbn [uPausing uFA uFAq uFin uPK uSaved uPM uBad uEp] in *.

Lemma uabs_eq : forall s, uabs s =
  mkU (pausing (core (udFA s))) (absO (udFA s)) (queue (udFA s)) (udFin s) (udPK s) (udSaved s) (udPM s)
      (udErr s || udBadPM s) (udEp s).
Proof. reflexivity. Qed.

(* what a returned line does, concrete and abstract *)
Definition ud_result (s : udst) (a' : rstate nat) (o : option (out nat)) : udst :=
  match o with
  | None => ud_setFA s a' (udErr s)
  | Some (ODelivered O _) => ud_setFA s a' (udErr s)
  | Some (ODelivered (S _) _) =>
    mkUD a' true (udPK s) (udSaved s) (match udPM s with PMRead _ => PMDone | p => p end) (udErr s) (udBadPM s) (udEp s)
  | Some _ => ud_setFA s a' true
  end.

Lemma feedFA_result : forall s e, feedFA cf s e = let '(a, o) := rstep nat cls_a cf (udFA s) e in ud_result s a o.
Proof. intros s e. unfold feedFA, ud_result. destruct (rstep nat cls_a cf (udFA s) e) as [a o]. reflexivity. Qed.

Lemma sim_deliverU : forall s a' l b, UDInv s -> okD a' -> absO a' = OIdle -> pausing (core a') = pausing (core (udFA s)) ->
  UDInv (ud_result s a' (Some (ODelivered l b))) /\
  uabs (ud_result s a' (Some (ODelivered l b))) = u_deliver (uabs s) (queue a') l.
Proof.
  intros s a' l b (HA & EA & EB) HA' Ha Hpa. unfold ud_result, u_deliver.
  destruct l as [|l]; unfold UDInv, ud_setFA; udflds; (split; [auto|]); rewrite !uabs_eq; udflds; uflds; rewrite Ha, Hpa; reflexivity.
Qed.

Lemma sim_wakeU : forall s a' o, UDInv s -> okD a' -> pausing (core a') = pausing (core (udFA s)) ->
  wakes T' SL (pausing (core (udFA s))) (queue (udFA s)) a' o ->
  UDInv (ud_result s a' o) /\ uabs (ud_result s a' o) = u_facall cf (uabs s).
Proof.
  intros s a' o Hinv HA' Hpa Hw. unfold u_facall, u_setFA.
  change (uPausing (uabs s)) with (pausing (core (udFA s))). change (uFAq (uabs s)) with (queue (udFA s)).
  change (cSL cf) with SL. change (cT cf) with T.
  unfold wakes in Hw. pose proof Hinv as (HA & EA & EB).
  destruct (pausing (core (udFA s))) eqn:Epa.
  - destruct Hw as (-> & Ha & Hq). unfold ud_result, ud_setFA, UDInv; udflds. split; [auto|].
    rewrite !uabs_eq; udflds; uflds. rewrite Ha, Hq, Hpa. reflexivity.
  - destruct (queue (udFA s)) as [|l q'] eqn:Eq.
    + destruct Hw as (-> & Ha & Hq). unfold ud_result, ud_setFA, UDInv; udflds. split; [auto|].
      rewrite !uabs_eq; udflds; uflds. rewrite Ha, Hq, Hpa. reflexivity.
    + destruct Hw as ((b & ->) & Ha & Hq).
      destruct (sim_deliverU s a' l b Hinv HA' Ha) as (Hc & He); [rewrite Hpa; symmetry; exact Epa|].
      split; [exact Hc|]. rewrite He, Hq. reflexivity.
Qed.

Lemma sim_feedFA_call : forall s, UDInv s -> ph (udFA s) = PIdle ->
  UDInv (feedFA cf s ECall) /\ uabs (feedFA cf s ECall) = u_facall cf (uabs s).
Proof.
  intros s Hinv Hp. pose proof Hinv as (HA & EA & EB). rewrite feedFA_result.
  destruct (rstep nat cls_a cf (udFA s) ECall) as [a' o] eqn:E.
  destruct (D_call T' SL GL _ _ _ HA Hp E) as (HA' & Hpa & Hw).
  exact (sim_wakeU s a' o Hinv HA' Hpa Hw).
Qed.

Lemma sim_feedFA_arrive : forall s l, UDInv s ->
  UDInv (feedFA cf s (EArrive l)) /\ uabs (feedFA cf s (EArrive l)) = u_arrive (uabs s) l.
Proof.
  intros s l Hinv. pose proof Hinv as (HA & EA & EB). rewrite feedFA_result.
  destruct (rstep nat cls_a cf (udFA s) (EArrive l)) as [a' o] eqn:E.
  destruct (D_arrive T' SL GL _ _ _ _ HA E) as (HA' & Hpa & Hres).
  unfold u_arrive, u_setFA. change (uFA (uabs s)) with (absO (udFA s)).
  destruct (ph (udFA s)) as [|snap j|snap] eqn:Eph.
  - assert (Hab : absO (udFA s) = OIdle) by (unfold absO; rewrite Eph; reflexivity). rewrite Hab in *.
    destruct Hres as (-> & Ha & Hq). unfold ud_result, ud_setFA, UDInv; udflds. split; [auto|].
    rewrite !uabs_eq; udflds; uflds. rewrite Ha, Hq, Hpa. reflexivity.
  - assert (Hab : absO (udFA s) = OGate j) by (unfold absO; rewrite Eph; reflexivity). rewrite Hab in *.
    destruct Hres as (-> & Ha & Hq). unfold ud_result, ud_setFA, UDInv; udflds. split; [auto|].
    rewrite !uabs_eq; udflds; uflds. rewrite Ha, Hq, Hpa. reflexivity.
  - assert (Hab : absO (udFA s) = ORead (tmo_val (core (udFA s)))) by (unfold absO; rewrite Eph; reflexivity). rewrite Hab in *.
    destruct Hres as ((b & ->) & Ha & Hq).
    destruct (sim_deliverU s a' l b Hinv HA' Ha Hpa) as (Hc & He). split; [exact Hc|]. rewrite He, Hq. reflexivity.
Qed.

Lemma sim_feedFA_tick : forall s, UDInv s -> uBad (u_tickFA cf (uabs s)) = false ->
  UDInv (feedFA cf s ETick) /\ uabs (feedFA cf s ETick) = u_tickFA cf (uabs s).
Proof.
  intros s Hinv Hb. pose proof Hinv as (HA & EA & EB). rewrite feedFA_result.
  destruct (rstep nat cls_a cf (udFA s) ETick) as [a' o] eqn:E.
  pose proof (D_tick T' SL GL _ _ _ HA E) as Hres.
  unfold u_tickFA in *. change (uFA (uabs s)) with (absO (udFA s)) in *.
  destruct (absO (udFA s)) as [|j|t] eqn:Hab.
  - destruct Hres as (HA' & Hpa & -> & Ha & Hq). unfold ud_result, ud_setFA, UDInv; udflds. split; [auto|].
    rewrite !uabs_eq; udflds; uflds. rewrite Ha, Hq, Hpa, Hab. reflexivity.
  - destruct j as [|[|j]].
    + destruct Hres as (HA' & Hpa & Hw). exact (sim_wakeU s a' o Hinv HA' Hpa Hw).
    + destruct Hres as (HA' & Hpa & Hw). exact (sim_wakeU s a' o Hinv HA' Hpa Hw).
    + destruct Hres as (HA' & Hpa & -> & Ha & Hq). unfold ud_result, ud_setFA, UDInv, u_setFA; udflds. split; [auto|].
      rewrite !uabs_eq; udflds; uflds. rewrite Ha, Hq, Hpa. reflexivity.
  - destruct t as [|[|t]]; try (cbn in Hb; discriminate).
    destruct Hres as (HA' & Hpa & -> & Ha & Hq). unfold ud_result, ud_setFA, UDInv, u_setFA; udflds. split; [auto|].
    rewrite !uabs_eq; udflds; uflds. rewrite Ha, Hq, Hpa. reflexivity.
Qed.

Lemma sim_feedFA_pause : forall s, UDInv s ->
  UDInv (feedFA cf s EPause) /\ uabs (feedFA cf s EPause) = u_flags (uabs s) true (udEp s).
Proof.
  intros s Hinv. pose proof Hinv as (HA & EA & EB). unfold feedFA. cbn [rstep].
  destruct (D_pause _ HA) as (HA' & Hpa & Ha). cbn zeta in *.
  unfold ud_setFA, UDInv; udflds. split; [auto|]. rewrite !uabs_eq; udflds. unfold u_flags; uflds. rewrite Hpa, Ha. reflexivity.
Qed.

Lemma sim_feedFA_resume : forall s, UDInv s ->
  UDInv (feedFA cf s EResume) /\ uabs (feedFA cf s EResume) = u_flags (uabs s) false (udEp s).
Proof.
  intros s Hinv. pose proof Hinv as (HA & EA & EB). unfold feedFA. cbn [rstep].
  destruct (D_resume T' SL GL _ (is_read (ph (udFA s))) HA) as (HA' & Hpa & Ha). cbn zeta in *.
  change (mkCfg (S T') SL GL true) with cf in *.
  unfold ud_setFA, UDInv; udflds. split; [auto|]. rewrite !uabs_eq; udflds. unfold u_flags; uflds. rewrite Hpa, Ha. reflexivity.
Qed.

Lemma sim_poll : forall s, UDInv s -> UDInv (ud_poll cf FP s) /\ uabs (ud_poll cf FP s) = u_poll cf FP (uabs s).
Proof.
  intros s Hinv. unfold ud_poll, u_poll. change (uSaved (uabs s)) with (udSaved s).
  destruct (udSaved s).
  - match goal with |- UDInv (feedFA cf ?s1 _) /\ _ => destruct (sim_feedFA_arrive s1 1 Hinv) as (Hc & He) end.
    split; [exact Hc|]. rewrite He. reflexivity.
  - match goal with |- UDInv (feedFA cf ?s1 _) /\ _ => destruct (sim_feedFA_arrive s1 0 Hinv) as (Hc & He) end.
    split; [exact Hc|]. rewrite He. reflexivity.
Qed.

Lemma uBad_arrive : forall u l, uBad (u_arrive u l) = uBad u.
Proof. intros u l. unfold u_arrive, u_deliver, u_setFA. destruct (uFA u); try reflexivity. destruct l; reflexivity. Qed.
Lemma uBad_poll : forall u, uBad (u_poll cf FP u) = uBad u.
Proof. intros u. unfold u_poll. destruct (uSaved u); rewrite uBad_arrive; reflexivity. Qed.
Lemma uBad_tickPK : forall u, uBad (u_tickPK cf FP u) = uBad u.
Proof. intros u. unfold u_tickPK. destruct (uPK u) as [[|[|j]]|]; try reflexivity; apply uBad_poll. Qed.
Lemma uBad_facall : forall u, uBad (u_facall cf u) = uBad u.
Proof.
  intros u. unfold u_facall, u_setFA, u_deliver. destruct (uPausing u); [reflexivity|]. destruct (uFAq u) as [|[|l] q]; reflexivity.
Qed.
Lemma uBad_tickFA : forall u, uBad (u_tickFA cf u) = false -> uBad u = false.
Proof.
  intros u H. unfold u_tickFA in H. destruct (uFA u) as [|[|[|j]]|[|[|t]]]; try rewrite uBad_facall in H; try exact H; cbn in H; discriminate.
Qed.

Lemma sim_tickPM : forall s, UDInv s -> uBad (u_tickPM (uabs s)) = false ->
  UDInv (ud_tickPM s) /\ uabs (ud_tickPM s) = u_tickPM (uabs s).
Proof.
  intros s Hinv Hb. unfold ud_tickPM, u_tickPM in *. change (uPM (uabs s)) with (udPM s) in *.
  destruct (udPM s) as [|[|[|t]]|]; try (cbn in Hb; discriminate); split; try exact Hinv; reflexivity.
Qed.

Lemma sim_tickPK : forall s, UDInv s -> UDInv (ud_tickPK cf FP s) /\ uabs (ud_tickPK cf FP s) = u_tickPK cf FP (uabs s).
Proof.
  intros s Hinv. unfold ud_tickPK, u_tickPK. change (uPK (uabs s)) with (udPK s).
  destruct (udPK s) as [[|[|j]]|]; try (split; [exact Hinv|reflexivity]); apply sim_poll; exact Hinv.
Qed.

Lemma uabs_setEp : forall s e, uabs (ud_setEp s e) = u_flags (uabs s) (uPausing (uabs s)) e.
Proof. reflexivity. Qed.

Theorem up_final_sim_step : forall s x s', UDInv s -> udstep cf FP P s x = Some s' ->
  exists u', ustep cf FP P (uabs s) x = Some u' /\ (uBad u' = false -> u' = uabs s' /\ UDInv s').
Proof.
  intros s x s' Hinv Hs. pose proof Hinv as (HA & EA & EB).
  destruct x; unfold udstep in Hs; unfold ustep.
  - (* tick *)
    assert (Hq : ud_quiescent s = u_quiescent (uabs s)).
    { unfold ud_quiescent, u_quiescent. rewrite (uabs_eq s); uflds. unfold absO. destruct (ph (udFA s)); reflexivity. }
    rewrite <- Hq. change (uEp (uabs s)) with (udEp s).
    destruct (ud_quiescent s && match udEp s with EpPausing e => e <? P | _ => true end); [|discriminate].
    inversion Hs; subst; clear Hs. eexists. split; [reflexivity|]. intros Hb. cbn [uBad u_flags] in Hb.
    rewrite uBad_tickPK in Hb. pose proof (uBad_tickFA _ Hb) as Hb1.
    destruct (sim_tickPM s Hinv Hb1) as (Hc1 & He1). rewrite <- He1 in Hb.
    destruct (sim_feedFA_tick _ Hc1 Hb) as (Hc2 & He2).
    destruct (sim_tickPK _ Hc2) as (Hc3 & He3).
    split; [|exact Hc3]. rewrite <- He1, <- He2, <- He3. reflexivity.
  - (* pause *)
    change (uEp (uabs s)) with (udEp s). destruct (udEp s) as [|e|e j] eqn:Eep; try discriminate;
      inversion Hs; subst; clear Hs; (eexists; split; [reflexivity|]); intros _;
      destruct (sim_feedFA_pause s Hinv) as (Hc & He); (split; [|exact Hc]);
      rewrite uabs_setEp, He; unfold u_flags; uflds; reflexivity.
  - (* resume *)
    change (uEp (uabs s)) with (udEp s). change (uPausing (uabs s)) with (pausing (core (udFA s))).
    destruct (udEp s) as [|e|e j] eqn:Eep; try discriminate. destruct (pausing (core (udFA s))); [|discriminate].
    inversion Hs; subst; clear Hs. eexists; split; [reflexivity|]. intros _.
    destruct (sim_feedFA_resume s Hinv) as (Hc & He). split; [|exact Hc].
    rewrite uabs_setEp, He; unfold u_flags; uflds; reflexivity.
  - (* our reader is called *)
    assert (Hx : uFA (uabs s) = absO (udFA s)) by reflexivity. rewrite Hx. unfold absO.
    destruct (ph (udFA s)) as [|snap j|snap] eqn:Eph; try discriminate.
    change (uFin (uabs s)) with (udFin s). destruct (udFin s); [discriminate|].
    inversion Hs; subst; clear Hs. eexists; split; [reflexivity|]. intros _.
    destruct (sim_feedFA_call s Hinv Eph) as (Hc & He). auto.
  - (* the peer's disk has everything *)
    change (uSaved (uabs s)) with (udSaved s). change (uPK (uabs s)) with (udPK s).
    destruct (udSaved s); [discriminate|]. destruct (udPK s) as [j|] eqn:Epk; [|discriminate].
    inversion Hs; subst; clear Hs. eexists; split; [reflexivity|]. intros _.
    match goal with |- _ = uabs (ud_poll cf FP ?s1) /\ _ => destruct (sim_poll s1 Hinv) as (Hc & He) end.
    split; [|exact Hc]. rewrite He. reflexivity.
Qed.

Lemma UDInv_init : UDInv (udinit cf FP) /\ uabs (udinit cf FP) = uinit cf FP.
Proof.
  unfold udinit, uinit.
  assert (H0 : UDInv (mkUD (rinit nat) false (PKWait 0) false PMWait false false EpNone))
    by (unfold UDInv, okD, rinit; cbn; auto).
  destruct (sim_poll _ H0) as (Hc & He). split; [exact Hc|]. rewrite He. reflexivity.
Qed.

Hypothesis HSL : 1 <= SL.
Hypothesis HFP : 1 <= FP.
Hypothesis HFT : FP < T.
Hypothesis HP : P + SL < T.

Theorem up_final_sim_run : forall xs s, udrun cf FP P (udinit cf FP) xs = Some s ->
  urun cf FP P (uinit cf FP) xs = Some (uabs s) /\ UDInv s.
Proof.
  assert (G : forall xs s0 s, UDInv s0 -> UInv T' SL FP P (uabs s0) -> udrun cf FP P s0 xs = Some s ->
            urun cf FP P (uabs s0) xs = Some (uabs s) /\ UDInv s).
  { induction xs as [|x xs IH]; intros s0 s Hc Ha Hr; cbn [udrun urun] in *.
    - inversion Hr; subst. auto.
    - destruct (udstep cf FP P s0 x) as [s1|] eqn:E; [|discriminate].
      destruct (up_final_sim_step s0 x s1 Hc E) as (u' & Hs & Hrel). fold cf in Hs. rewrite Hs.
      pose proof (ustep_inv T' SL GL FP P HSL HFP HFT HP x _ _ Ha Hs) as Ha'.
      destruct (Hrel (u_nbad _ _ _ _ _ Ha')) as (-> & Hc1).
      apply IH; auto. }
  intros xs s Hr. destruct UDInv_init as (Hc & He). rewrite <- He. apply G; auto.
  rewrite He. apply uinv_init; assumption.
Qed.

(* THE THEOREM for the upload after the last DATA frame, with our reader as the reader machine itself *)
Theorem up_final_short_pause_conc : forall xs s, udrun cf FP P (udinit cf FP) xs = Some s ->
  udErr s = false /\ udBadPM s = false /\
  (ud_quiescent s = true -> udEp s = EpNone -> udSaved s = true -> udFin s = true /\ udPM s = PMDone).
Proof.
  intros xs s Hr. destruct (up_final_sim_run xs s Hr) as (Ha & Hc).
  destruct (up_final_short_pause T' SL GL FP P HSL HFP HFT HP xs _ Ha) as (Hb & Hq).
  destruct Hc as (HA & EA & EB). split; [exact EA|]. split; [exact EB|].
  intros H1 H2 H3. apply Hq; auto.
  unfold ud_quiescent in H1. unfold u_quiescent. rewrite (uabs_eq s); uflds. unfold absO. destruct (ph (udFA s)); exact H1.
Qed.

End UpFinalSim.

(* ================= download, final-ack loop ================= *)

Section DownFinalSim.
Variables T' SL GL FP : nat.
Let T := S T'.
Let cf := mkCfg T SL GL true.

Definition VDInv (s : vdst) : Prop := okR (vdPF s) /\ vdErr s = false.

Ltac vdflds := cbn [vdPausing vdK vdSaved vdPF vdPfin vdErr] in *.
Ltac vflds := cbn [vPausing vK vSaved vPF vPFq vPfin vBad] in *.

Lemma vabs_eq : forall s, vabs s =
  mkV (vdPausing s) (vdK s) (vdSaved s) (absR (vdPF s)) (queue (vdPF s)) (vdPfin s) (vdErr s).
Proof. reflexivity. Qed.

Lemma sim_feedPF_arrive : forall s l, VDInv s ->
  VDInv (feedPF cf s (EArrive l)) /\ vabs (feedPF cf s (EArrive l)) = v_arrive cf (vabs s) l.
Proof.
  intros s l (HR & ER). unfold feedPF.
  destruct (rstep wline cls_w cf (vdPF s) (EArrive l)) as [r' o] eqn:E.
  destruct (R_arrive T' SL GL _ _ _ _ HR E) as (HR' & Hres).
  unfold v_arrive, v_setPF. change (vPF (vabs s)) with (absR (vdPF s)).
  destruct (ph (vdPF s)) as [|snap j|snap] eqn:Eph.
  - assert (Hab : absR (vdPF s) = RIdle) by (unfold absR; rewrite Eph; reflexivity). rewrite Hab.
    destruct Hres as (-> & Ha & Hq). unfold VDInv; vdflds. split; [auto|]. rewrite !vabs_eq; vdflds; vflds. rewrite Ha, Hq. reflexivity.
  - destruct HR as (_ & HR). rewrite Eph in HR. contradiction.
  - assert (Hab : exists t, absR (vdPF s) = RRead t) by (unfold absR; rewrite Eph; eauto). destruct Hab as (t & Hab). rewrite Hab.
    assert (Hq0 : queue (vdPF s) = []) by (destruct HR as (_ & HR); rewrite Eph in HR; apply HR).
    destruct l as [|k].
    + destruct Hres as (-> & Ha & Hq). unfold VDInv; vdflds. split; [auto|]. rewrite !vabs_eq; vdflds; vflds. rewrite Ha, Hq, Hq0. reflexivity.
    + destruct Hres as ((b & ->) & Ha & Hq). unfold VDInv; vdflds. split; [auto|]. rewrite !vabs_eq; vdflds; vflds. rewrite Ha, Hq, Hq0. reflexivity.
Qed.

Lemma sim_feedPF_call : forall s, VDInv s -> ph (vdPF s) = PIdle ->
  VDInv (feedPF cf s ECall) /\ vabs (feedPF cf s ECall) = v_pfcall cf (vabs s).
Proof.
  intros s (HR & ER) Hp. unfold feedPF.
  destruct (rstep wline cls_w cf (vdPF s) ECall) as [r' o] eqn:E.
  destruct (R_call T' SL GL _ _ _ HR Hp E) as (HR' & Hres).
  unfold v_pfcall, v_setPF. change (vPFq (vabs s)) with (queue (vdPF s)).
  destruct (first_data (queue (vdPF s))) as [[k q']|] eqn:Ef.
  - destruct Hres as ((b & ->) & Ha & Hq). unfold VDInv; vdflds. split; [auto|]. rewrite !vabs_eq; vdflds; vflds. rewrite Ha, Hq. reflexivity.
  - destruct Hres as (-> & Ha & Hq). unfold VDInv; vdflds. split; [auto|]. rewrite !vabs_eq; vdflds; vflds. rewrite Ha, Hq. reflexivity.
Qed.

Lemma sim_feedPF_tick : forall s, VDInv s -> vBad (v_tickPF (vabs s)) = false ->
  VDInv (feedPF cf s ETick) /\ vabs (feedPF cf s ETick) = v_tickPF (vabs s).
Proof.
  intros s (HR & ER) Hb. unfold feedPF.
  destruct (rstep wline cls_w cf (vdPF s) ETick) as [r' o] eqn:E.
  pose proof (R_tick T' SL GL _ _ _ HR E) as Hres.
  unfold v_tickPF in *. change (vPF (vabs s)) with (absR (vdPF s)) in *. unfold v_setPF in *.
  destruct (absR (vdPF s)) as [|t] eqn:Ea.
  - destruct Hres as (HR' & -> & Ha & Hq). unfold VDInv; vdflds. split; [auto|]. rewrite !vabs_eq; vdflds; vflds. rewrite Ha, Hq, Ea. reflexivity.
  - destruct t as [|[|t]]; try (cbn [vBad] in Hb; discriminate).
    destruct Hres as (HR' & -> & Ha & Hq). unfold VDInv; vdflds. split; [auto|]. rewrite !vabs_eq; vdflds; vflds. rewrite Ha, Hq. reflexivity.
Qed.

Lemma vabs_setK : forall s k, vabs (vd_setK s k) = v_setK (vabs s) k. Proof. reflexivity. Qed.
Lemma VDInv_setK : forall s k, VDInv s -> VDInv (vd_setK s k). Proof. intros s k H; exact H. Qed.

Lemma sim_vgate : forall s, VDInv s -> VDInv (vd_gate cf s) /\ vabs (vd_gate cf s) = v_gate cf (vabs s).
Proof.
  intros s Hinv. unfold vd_gate, v_gate, gate_enter. change (cP3 cf) with true. change (cGL cf) with GL. cbn [andb].
  change (vPausing (vabs s)) with (vdPausing s).
  destruct (vdPausing s).
  - destruct (sim_feedPF_arrive (vd_setK s (K2Sleep GL)) WLKeep (VDInv_setK _ _ Hinv)) as (Hc & He).
    split; [exact Hc|]. rewrite He. reflexivity.
  - split; [apply VDInv_setK; exact Hinv|reflexivity].
Qed.

Lemma vBad_arrive : forall v l, vBad (v_arrive cf v l) = vBad v.
Proof. intros v l. unfold v_arrive, v_setPF. destruct (vPF v); [reflexivity|]. destruct l; reflexivity. Qed.
Lemma vBad_gate : forall v, vBad (v_gate cf v) = vBad v.
Proof. intros v. unfold v_gate. destruct (vPausing v); [rewrite vBad_arrive|]; reflexivity. Qed.
Lemma vBad_tickK : forall v, vBad (v_tickK cf v) = vBad v.
Proof. intros v. unfold v_tickK. destruct (vK v) as [|[|[|j]]| |[|[|j]]|]; try reflexivity; apply vBad_gate. Qed.

Theorem down_final_sim_step : forall s x s', VDInv s -> vdstep cf FP s x = Some s' ->
  exists v', vstep cf FP (vabs s) x = Some v' /\ (vBad v' = false -> v' = vabs s' /\ VDInv s').
Proof.
  intros s x s' Hinv Hs. pose proof Hinv as (HR & ER).
  destruct x; unfold vdstep in Hs; unfold vstep.
  - (* tick *)
    assert (Hq : vd_quiescent s = v_quiescent (vabs s)).
    { unfold vd_quiescent, v_quiescent. rewrite (vabs_eq s); vflds. unfold absR. destruct HR as (_ & HR).
      destruct (ph (vdPF s)); [reflexivity|contradiction|reflexivity]. }
    rewrite <- Hq. destruct (vd_quiescent s); [|discriminate].
    inversion Hs; subst; clear Hs. eexists. split; [reflexivity|]. intros Hb. rewrite vBad_tickK in Hb.
    destruct (sim_feedPF_tick s Hinv Hb) as (Hc1 & He1).
    set (s1 := feedPF cf s ETick) in *.
    unfold vd_tickK, v_tickK. rewrite <- He1. change (vK (vabs s1)) with (vdK s1).
    destruct (vdK s1) as [|[|[|j]]| |[|[|j]]|]; try (split; [reflexivity|exact Hc1]);
      try (destruct (sim_vgate s1 Hc1) as (Hc & He); split; [symmetry; exact He|exact Hc]);
      (split; [rewrite vabs_setK; reflexivity|apply VDInv_setK; exact Hc1]).
  - inversion Hs; subst; clear Hs. eexists; split; [reflexivity|]. intros _. split; [reflexivity|exact Hinv].
  - inversion Hs; subst; clear Hs. eexists; split; [reflexivity|]. intros _. split; [reflexivity|exact Hinv].
  - change (vK (vabs s)) with (vdK s). destruct (vdK s); try discriminate.
    inversion Hs; subst; clear Hs. eexists; split; [reflexivity|]. intros _.
    destruct (sim_vgate s Hinv) as (Hc & He). auto.
  - change (vK (vabs s)) with (vdK s). destruct (vdK s); try discriminate.
    change (vSaved (vabs s)) with (vdSaved s). destruct (vdSaved s); inversion Hs; subst; clear Hs;
      (eexists; split; [reflexivity|]); intros _.
    + destruct (sim_feedPF_arrive (vd_setK s K2Done) (WLData 1) (VDInv_setK _ _ Hinv)) as (Hc & He). split; [|exact Hc]. rewrite He. reflexivity.
    + destruct (sim_feedPF_arrive (vd_setK s (K2Wait FP)) (WLData 0) (VDInv_setK _ _ Hinv)) as (Hc & He). split; [|exact Hc]. rewrite He. reflexivity.
  - change (vSaved (vabs s)) with (vdSaved s). destruct (vdSaved s); [discriminate|].
    inversion Hs; subst; clear Hs. eexists; split; [reflexivity|]. intros _. split; [reflexivity|exact Hinv].
  - assert (Hx : vPF (vabs s) = absR (vdPF s)) by reflexivity. rewrite Hx. unfold absR.
    destruct (ph (vdPF s)) as [|snap j|snap] eqn:Eph; try discriminate.
    change (vPfin (vabs s)) with (vdPfin s). destruct (vdPfin s); [discriminate|].
    inversion Hs; subst; clear Hs. eexists; split; [reflexivity|]. intros _.
    destruct (sim_feedPF_call s Hinv Eph) as (Hc & He). auto.
Qed.

Lemma VDInv_init : VDInv vdinit /\ vabs vdinit = vinit.
Proof. unfold VDInv, okR, peer_core, vdinit, rinit; cbn. auto 12. Qed.

Hypothesis HGL : 1 <= GL.
Hypothesis HFP : 1 <= FP.
Hypothesis HGT : GL < T.
Hypothesis HFT : FP < T.

Theorem down_final_sim_run : forall xs s, vdrun cf FP vdinit xs = Some s ->
  vrun cf FP vinit xs = Some (vabs s) /\ VDInv s.
Proof.
  assert (G : forall xs s0 s, VDInv s0 -> VInv T' GL FP (vabs s0) -> vdrun cf FP s0 xs = Some s ->
            vrun cf FP (vabs s0) xs = Some (vabs s) /\ VDInv s).
  { induction xs as [|x xs IH]; intros s0 s Hc Ha Hr; cbn [vdrun vrun] in *.
    - inversion Hr; subst. auto.
    - destruct (vdstep cf FP s0 x) as [s1|] eqn:E; [|discriminate].
      destruct (down_final_sim_step s0 x s1 Hc E) as (v' & Hs & Hrel). fold cf in Hs. rewrite Hs.
      pose proof (vstep_inv T' SL GL FP HGL HFP HGT HFT x _ _ Ha Hs) as Ha'.
      destruct (Hrel (v_bad _ _ _ _ Ha')) as (-> & Hc1).
      apply IH; auto. }
  intros xs s Hr. destruct VDInv_init as (Hc & He). rewrite <- He. apply G; auto.
  rewrite He. apply vinv_init.
Qed.

(* THE THEOREM for the download final-ack loop, with the peer's reader as the reader machine and the gate of
   Model/Pause.v: pauses of any length and number *)
Theorem down_final_never_times_out_conc : forall xs s, vdrun cf FP vdinit xs = Some s ->
  vdErr s = false /\ (vdK s = K2Done -> vd_quiescent s = true -> vdPfin s = true).
Proof.
  intros xs s Hr. destruct (down_final_sim_run xs s Hr) as (Ha & Hc).
  destruct (down_final_never_times_out T' SL GL FP HGL HFP HGT HFT xs _ Ha) as (Hb & Hq).
  split; [exact Hb|]. intros H1 H2. apply Hq; [exact H1|].
  unfold vd_quiescent in H2. unfold v_quiescent. rewrite (vabs_eq s); vflds. unfold absR. destruct Hc as ((_ & HR) & _).
  destruct (ph (vdPF s)); [exact H2|contradiction|exact H2].
Qed.

End DownFinalSim.
