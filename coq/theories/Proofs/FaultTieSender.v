(* The bridge between the whole-transfer SENDER (Model/Transfer.v) and the per-file decision model
   (Model/Protocol.v send_v2 / send_v1), for ARBITRARY delivered answer sequences (C02). *)
From Coq Require Import ZArith Lia List.
From Trzsz Require Import Base.Bytes Gen.Consts Model.Path Model.Fs Model.Names Model.Wire
  Model.Transfer Model.Protocol Model.FaultTie.
From Trzsz Require Model.Resume.
Import ListNotations.

Section FaultTieSenderProofs.
Variable digest : Type.
Variable H : list byte -> digest.
Variable deq : digest -> digest -> bool.
Variable zcomp : list (list byte) -> list (list byte).
Variable zl : list byte -> list byte.
Variable hx : list byte -> Resume.digest.
Variable ahdr : src -> Z -> list byte.

Notation msg := (tr_msg digest).
Notation sender := (tr_sender digest H deq zcomp zl hx ahdr).
Notation srun := (ft_srun digest H deq zcomp zl hx ahdr).
Notation ack_of := (ft_ack digest).
Notation sv2 := (send_v2 digest deq).
Notation sv1 := (send_v1 digest deq).
Notation sfin := (send_final digest deq).

Definition echo_tail (mine : digest) (rest : list (ack digest)) : bool :=
  match rest with ADigest _ d :: _ => deq d mine | _ => false end.

Definition zs (l : list N) : list Z := map Z.of_N l.

Definition sinv (c : tr_cfg) (st : tr_sstate) (g : ft_sghost digest) : Prop :=
  match ss_todo st with
  | (e, _) :: _ =>
    let size := Z.of_N (te_size e) in
    let mine := H (te_data e) in
    let acks := map ack_of (sg_msgs digest g) in
    match ss_phase st with
    | SpAcks pending =>
      tr_pipeline c = true /\ pending <> [] /\
      forall rest, sv2 size mine (zs (sg_sent digest g)) (acks ++ rest) = sv2 size mine (zs pending) rest
    | SpFinal =>
      tr_pipeline c = true /\
      forall rest, sv2 size mine (zs (sg_sent digest g)) (acks ++ rest) = sfin size mine rest
    | SpV1 chs expect =>
      tr_pipeline c = false /\
      forall rest, sv1 mine (zs (sg_sent digest g)) (acks ++ rest) = sv1 mine (zs (expect :: map tr_blen chs)) rest
    | SpMd5 =>
      forall rest, (if tr_pipeline c then sv2 size mine (zs (sg_sent digest g)) (acks ++ rest)
                    else sv1 mine (zs (sg_sent digest g)) (acks ++ rest)) = echo_tail mine rest
    | _ => True
    end
  | [] => True
  end.

Lemma sinv_trivial c st g :
  match ss_phase st with SpAcks _ | SpFinal | SpV1 _ _ | SpMd5 => False | _ => True end -> sinv c st g.
Proof. unfold sinv. destruct (ss_todo st) as [|[e sc] t]; [intros; exact I|]. destruct (ss_phase st); intro F; try exact I; contradiction. Qed.

Lemma next_trivial c todo names g : sinv c (fst (tr_s_next digest c todo names)) g.
Proof.
  apply sinv_trivial. unfold tr_s_next. destruct todo as [|[e sc] t]; [destruct (tc_upload c)|]; exact I.
Qed.

Lemma sv2_nil size mine rest : sv2 size mine [] rest = sfin size mine rest.
Proof. destruct rest; reflexivity. Qed.

Lemma gtb_N a b : (Z.of_N a >? Z.of_N b)%Z = (b <? a).
Proof.
  rewrite Z.gtb_ltb. destruct (Z.ltb_spec (Z.of_N b) (Z.of_N a)); destruct (N.ltb_spec b a); try reflexivity; lia.
Qed.
Lemma eqb_N a b : (Z.of_N a =? Z.of_N b)%Z = (a =? b).
Proof.
  destruct (Z.eqb_spec (Z.of_N a) (Z.of_N b)); destruct (N.eqb_spec a b); try reflexivity; lia.
Qed.

Ltac seasy := first [solve [apply sinv_trivial; exact I] | solve [apply next_trivial]].

Lemma sinv_step c st m g :
  sinv c st g -> sinv c (fst (sender c st m)) (ft_sghost_step digest st m (fst (sender c st m)) g).
Proof.
  intro Inv. unfold tr_sender.
  destruct (ss_phase st) as [| |hsz hms| |pending| |chs expect| | | |] eqn:Ph.
  - (* SpNum *)
    destruct m as [mn|mp|mn|mb|mf|md|mnames|hs hh| |mn|mnm|mnm msz|mlen mstp|md|hs hm| |]; try seasy.
    destruct (mn =? N.of_nat (length (ss_todo st))); seasy.
  - (* SpName *)
    assert (Hnamed : forall e sc tdr nm sz,
      sinv c (fst (tr_s_named digest hx ahdr c st e sc tdr nm sz)) (ft_sghost_step digest st m (fst (tr_s_named digest hx ahdr c st e sc tdr nm sz)) g)).
    { intros e sc tdr nm sz. unfold tr_s_named.
      destruct (tr_json_names c && tr_has_subs e); [destruct (tr_arch_entry ahdr e sc); seasy|].
      destruct (te_isdir e); [seasy|]. destruct (0 <? sz); [|seasy].
      unfold tr_s_resume. destruct (Resume.send_hashes _ _ _ _ _ _ _ _); [|seasy]. destruct (_ =? 0)%nat; seasy. }
    destruct m as [mn|mp|mn|mb|mf|md|mnames|hs hh| |mn|mnm|mnm msz|mlen mstp|md|hs hm| |]; try seasy;
      destruct (ss_todo st) as [|[e sc] tdr] eqn:Td; try seasy;
      destruct (tr_json_names c) eqn:Ej; try seasy; apply Hnamed.
  - (* SpHash: the answers to the HASH records of a resume *)
    destruct m as [mn|mp|mn|mb|mf|md|mnames|hs hh| |mn|mnm|mnm msz|mlen mstp|md|hs hm| |]; try seasy.
    unfold tr_s_hack. destruct (ss_todo st) as [|[e sc] tdr]; [seasy|].
    destruct (negb hm); [seasy|]. destruct (_ =? _)%Z; [seasy|]. destruct (_ <? _)%Z; seasy.
  - (* SpSize *)
    destruct (ss_todo st) as [|[e sc] tdr] eqn:Td;
      destruct m as [mn|mp|mn|mb|mf|md|mnames|hs hh| |mn|mnm|mnm msz|mlen mstp|md|hs hm| |]; try seasy.
    destruct (mn =? te_size e); [|seasy].
    unfold tr_s_data. destruct (tr_pipeline c) eqn:Pp.
    + cbn [fst]. unfold ft_sghost_step. rewrite Ph. cbn [ss_phase]. unfold sinv. cbn [ss_todo ss_phase]. rewrite ?Td.
      cbn [sg_sent sg_msgs map app]. split; [exact Pp|]. split; [destruct (map tr_blen _); discriminate|]. reflexivity.
    + destruct (tr_v1_chunks e sc) as [|ch chs'] eqn:Ch.
      * unfold tr_s_md5. cbn [fst]. unfold ft_sghost_step. rewrite Ph. cbn [ss_phase]. unfold sinv. cbn [ss_todo ss_phase]. rewrite ?Td, Pp.
        cbn [sg_sent sg_msgs map app zs]. intro rest. destruct rest as [|[l s|s|d| |] rest]; reflexivity.
      * cbn [fst]. unfold ft_sghost_step. rewrite Ph. cbn [ss_phase]. unfold sinv. cbn [ss_todo ss_phase]. rewrite ?Td.
        cbn [sg_sent sg_msgs map app]. split; [exact Pp|]. reflexivity.
  - (* SpAcks *)
    unfold sinv in Inv. rewrite Ph in Inv.
    destruct (ss_todo st) as [|[e sc] tdr] eqn:Td.
    { destruct m as [mn|mp|mn|mb|mf|md|mnames|hs hh| |mn|mnm|mnm msz|mlen mstp|md|hs hm| |]; try seasy.
      - destruct pending as [|l ls]; [seasy|]. destruct (mlen =? l); [|seasy].
        cbn [fst]. unfold sinv. cbn [ss_todo]. rewrite ?Td. exact I.
      - cbn [fst tr_s_stay]. unfold sinv. rewrite ?Td. exact I. }
    destruct Inv as (Pp & Ne & Eq).
    destruct m as [mn|mp|mn|mb|mf|md|mnames|hs hh| |mn|mnm|mnm msz|mlen mstp|md|hs hm| |]; try seasy.
    + (* TrSuccAck *)
      destruct pending as [|l ls]; [contradiction|]. destruct (mlen =? l) eqn:E; [|seasy].
      apply N.eqb_eq in E. subst l. cbn [fst]. unfold ft_sghost_step. rewrite Ph.
      assert (St : forall rest, sv2 (Z.of_N (te_size e)) (H (te_data e)) (zs (sg_sent digest g))
                     (map ack_of (sg_msgs digest g ++ [TrSuccAck digest mlen mstp]) ++ rest)
                   = sv2 (Z.of_N (te_size e)) (H (te_data e)) (zs ls) rest).
      { intro rest. rewrite map_app, <- app_assoc. cbn [map app ft_ack]. rewrite Eq. cbn [zs map send_v2].
        rewrite Z.eqb_refl. reflexivity. }
      destruct ls as [|l2 ls2]; cbn [ss_phase]; unfold sinv; cbn [ss_todo ss_phase]; rewrite ?Td; cbn [sg_sent sg_msgs].
      * split; [exact Pp|]. intro rest. rewrite St. apply sv2_nil.
      * split; [exact Pp|]. split; [discriminate|]. exact St.
    + (* TrKeepAlive *)
      cbn [fst tr_s_stay]. unfold ft_sghost_step. rewrite Ph. unfold sinv. rewrite ?Td, Ph. cbn [sg_sent sg_msgs].
      split; [exact Pp|]. split; [exact Ne|]. intro rest. rewrite map_app, <- app_assoc. cbn [map app ft_ack]. rewrite Eq.
      destruct pending as [|l ls]; [contradiction|]. reflexivity.
  - (* SpFinal *)
    unfold sinv in Inv. rewrite Ph in Inv.
    destruct (ss_todo st) as [|[e sc] tdr] eqn:Td.
    { destruct m as [mn|mp|mn|mb|mf|md|mnames|hs hh| |mn|mnm|mnm msz|mlen mstp|md|hs hm| |]; try seasy.
      cbn [fst tr_s_stay]. unfold sinv. rewrite ?Td. exact I. }
    destruct Inv as (Pp & Eq).
    destruct m as [mn|mp|mn|mb|mf|md|mnames|hs hh| |mn|mnm|mnm msz|mlen mstp|md|hs hm| |]; try seasy.
    + (* TrSuccInt *)
      destruct (te_size e <? mn) eqn:G; [seasy|]. destruct (mn =? te_size e) eqn:E.
      * unfold tr_s_md5. cbn [fst]. unfold ft_sghost_step. rewrite Ph. cbn [ss_phase]. unfold sinv. cbn [ss_todo ss_phase]. rewrite ?Td, Pp.
        cbn [sg_sent sg_msgs]. intro rest. rewrite map_app, <- app_assoc. cbn [map app ft_ack]. rewrite Eq.
        cbn [send_final]. rewrite gtb_N, G, eqb_N, E. unfold echo_tail. destruct rest as [|[l s|s|d| |] rest]; reflexivity.
      * cbn [fst tr_s_stay]. unfold ft_sghost_step. rewrite Ph. unfold sinv. rewrite ?Td, Ph. cbn [sg_sent sg_msgs].
        split; [exact Pp|]. intro rest. rewrite map_app, <- app_assoc. cbn [map app ft_ack]. rewrite Eq.
        cbn [send_final]. rewrite gtb_N, G, eqb_N, E. reflexivity.
    + (* TrKeepAlive *)
      cbn [fst tr_s_stay]. unfold ft_sghost_step. rewrite Ph. unfold sinv. rewrite ?Td, Ph. cbn [sg_sent sg_msgs].
      split; [exact Pp|]. intro rest. rewrite map_app, <- app_assoc. cbn [map app ft_ack]. rewrite Eq. reflexivity.
  - (* SpV1 *)
    unfold sinv in Inv. rewrite Ph in Inv.
    destruct (ss_todo st) as [|[e sc] tdr] eqn:Td.
    { destruct m as [mn|mp|mn|mb|mf|md|mnames|hs hh| |mn|mnm|mnm msz|mlen mstp|md|hs hm| |]; seasy. }
    destruct Inv as (Pp & Eq).
    destruct m as [mn|mp|mn|mb|mf|md|mnames|hs hh| |mn|mnm|mnm msz|mlen mstp|md|hs hm| |]; try seasy.
    destruct (mn =? expect) eqn:E; [|seasy]. apply N.eqb_eq in E. subst mn.
    assert (St : forall rest, sv1 (H (te_data e)) (zs (sg_sent digest g))
                   (map ack_of (sg_msgs digest g ++ [TrSuccInt digest expect]) ++ rest)
                 = sv1 (H (te_data e)) (zs (map tr_blen chs)) rest).
    { intro rest. rewrite map_app, <- app_assoc. cbn [map app ft_ack]. rewrite Eq. cbn [zs map send_v1].
      rewrite Z.eqb_refl. reflexivity. }
    destruct chs as [|ch chs'].
    + unfold tr_s_md5. cbn [fst]. unfold ft_sghost_step. rewrite Ph. cbn [ss_phase]. unfold sinv. cbn [ss_todo ss_phase]. rewrite ?Td, Pp.
      cbn [sg_sent sg_msgs]. intro rest. rewrite St. cbn [map zs]. destruct rest as [|[l s|s|d| |] rest]; reflexivity.
    + cbn [fst]. unfold ft_sghost_step. rewrite Ph. cbn [ss_phase]. unfold sinv. cbn [ss_todo ss_phase]. rewrite ?Td.
      cbn [sg_sent sg_msgs]. split; [exact Pp|]. exact St.
  - (* SpMd5 *)
    destruct (ss_todo st) as [|[e sc] tdr] eqn:Td;
      destruct m as [mn|mp|mn|mb|mf|md|mnames|hs hh| |mn|mnm|mnm msz|mlen mstp|md|hs hm| |]; try seasy.
    destruct (deq md (H (te_data e))); seasy.
  - (* SpExit *) destruct m as [mn|mp|mn|mb|mf|md|mnames|hs hh| |mn|mnm|mnm msz|mlen mstp|md|hs hm| |]; seasy.
  - apply sinv_trivial. cbn. rewrite Ph. exact I.
  - apply sinv_trivial. cbn. rewrite Ph. exact I.
Qed.

Notation sverdict := (ft_sverdict digest H deq).

(* every file the sender counts as done: the per-file decision model says TRUE on exactly the
   answers delivered for it *)
Theorem ft_done_bridge c : forall ms st g,
  sinv c st g -> forall dn, In dn (snd (srun c st g ms)) -> sverdict c dn = true.
Proof.
  induction ms as [|m r IH]; intros st g Inv dn; cbn [ft_srun snd]; [intros []|].
  destruct (sender c st m) as [st1 outs] eqn:R.
  pose proof (sinv_step c st m g Inv) as Inv1. rewrite R in Inv1. cbn [fst] in Inv1.
  specialize (IH st1 (ft_sghost_step digest st m st1 g) Inv1 dn).
  destruct (srun c st1 (ft_sghost_step digest st m st1 g) r) as [[st2 outs2] dns]. cbn [snd] in *.
  intro In1. apply in_app_or in In1. destruct In1 as [In1|In1]; [|exact (IH In1)]. clear IH.
  destruct (ss_phase st) as [| |hsz hms| |pending| |chs expect| | | |] eqn:Ph; try (destruct In1; fail).
  destruct m as [mn|mp|mn|mb|mf|md|mnames|hs hh| |mn|mnm|mnm msz|mlen mstp|md|hs hm| |]; try (destruct In1; fail).
  destruct (ss_todo st) as [|[e sc] tdr] eqn:Td; [destruct In1|].
  unfold tr_sender in R. rewrite Ph, Td in R.
  destruct (deq md (H (te_data e))) eqn:Q.
  2:{ inversion R; subst. cbn in In1. destruct In1. }
  assert (G1 : ft_sghost_step digest st (TrSuccDigest digest md) st1 g
               = mkFtSGhost digest (sg_sent digest g) (sg_msgs digest g ++ [TrSuccDigest digest md])).
  { unfold ft_sghost_step. rewrite Ph. reflexivity. }
  rewrite G1 in In1.
  assert (E : dn = mkFtDone digest e (sg_sent digest g) (sg_msgs digest g ++ [TrSuccDigest digest md])).
  { destruct (ss_phase st1); cbn in In1; try contradiction; destruct In1 as [In1|[]]; symmetry; exact In1. }
  subst dn. unfold ft_sverdict. cbn [fd_entry fd_sent fd_msgs].
  unfold sinv in Inv. rewrite ?Td, Ph in Inv. rewrite map_app. cbn [map ft_ack].
  specialize (Inv [ADigest digest md]). unfold zs in Inv. destruct (tr_pipeline c); rewrite Inv; cbn [echo_tail]; exact Q.
Qed.

Lemma sinv_init c ess : sinv c (fst (tr_sender_init digest c ess)) (ft_sghost0 digest).
Proof. apply sinv_trivial. exact I. Qed.

Theorem ft_send_bridge c ess ms dn :
  In dn (snd (ft_send digest H deq zcomp zl hx ahdr c ess ms)) -> sverdict c dn = true.
Proof.
  unfold ft_send. pose proof (sinv_init c ess) as I0.
  destruct (tr_sender_init digest c ess) as [st outs]. cbn [fst] in I0.
  pose proof (ft_done_bridge c ms st (ft_sghost0 digest) I0 dn) as B.
  destruct (srun c st (ft_sghost0 digest) ms) as [[st2 outs2] dns]. exact B.
Qed.

End FaultTieSenderProofs.
