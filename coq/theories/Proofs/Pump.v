(* Lemmas about Model/Pump.v (property C03, the path from the byte source into the buffer). *)
From Trzsz Require Import Base.Bytes Gen.Consts Model.Buffer Model.Pump Proofs.Buffer.
From Coq Require Import ZArith Lia.

Lemma chop_concat : forall fuel B s, concat (chop fuel B s) = s.
Proof.
  induction fuel as [|f IH]; intros B s; cbn [chop].
  - cbn [concat]. apply app_nil_r.
  - destruct (length s <=? B)%nat.
    + cbn [concat]. apply app_nil_r.
    + cbn [concat]. rewrite IH. apply firstn_skipn.
Qed.

Lemma chop_bounded : forall fuel B s, (0 < B)%nat -> (length s <= fuel)%nat ->
  Forall (fun c => (length c <= B)%nat) (chop fuel B s).
Proof.
  induction fuel as [|f IH]; intros B s HB Hs; cbn [chop].
  - constructor; [lia|constructor].
  - destruct (Nat.leb_spec (length s) B) as [H|H].
    + constructor; [exact H|constructor].
    + constructor.
      * rewrite firstn_length. lia.
      * apply IH; [exact HB|]. rewrite skipn_length. lia.
Qed.

Lemma nonempty_chunks_concat cs : concat (nonempty_chunks cs) = concat cs.
Proof.
  induction cs as [|c cs IH]; [reflexivity|].
  unfold nonempty_chunks in *. cbn [filter concat]. destruct c as [|b c]; cbn [nonempty].
  - exact IH.
  - cbn [concat]. rewrite IH. reflexivity.
Qed.

Lemma nonempty_chunks_nonempty cs : Forall (fun c => c <> []) (nonempty_chunks cs).
Proof.
  unfold nonempty_chunks. apply Forall_forall. intros c Hc. apply filter_In in Hc.
  destruct Hc as [_ Hc]. destruct c; [discriminate|discriminate].
Qed.

Lemma nonempty_chunks_bounded B cs :
  Forall (fun c => (length c <= B)%nat) cs -> Forall (fun c => (length c <= B)%nat) (nonempty_chunks cs).
Proof.
  unfold nonempty_chunks. rewrite !Forall_forall. intros H c Hc. apply filter_In in Hc. apply H, Hc.
Qed.

(* the pump hands on exactly the bytes the source delivered, in order *)
Theorem pump_reads_concat B stop : forall evs, concat (pump_reads B stop evs) = delivered stop evs.
Proof.
  induction evs as [|[s|s] r IH]; [reflexivity| |]; cbn [pump_reads delivered];
    rewrite concat_app, nonempty_chunks_concat, chop_concat.
  - rewrite IH. reflexivity.
  - destruct stop; [reflexivity|]. rewrite IH. reflexivity.
Qed.

(* ... in non-empty chunks no longer than the read buffer *)
Theorem pump_reads_shape B stop : (0 < B)%nat -> forall evs,
  Forall (fun c => c <> [] /\ (length c <= B)%nat) (pump_reads B stop evs).
Proof.
  intros HB. induction evs as [|[s|s] r IH]; [constructor| |]; cbn [pump_reads];
    apply Forall_app; split;
    try (apply Forall_forall; intros c Hc; split;
         [revert c Hc; apply Forall_forall, nonempty_chunks_nonempty
         |revert c Hc; apply Forall_forall, nonempty_chunks_bounded, chop_bounded; [exact HB|lia]]).
  - exact IH.
  - destruct stop; [constructor|exact IH].
Qed.

Lemma fold_add_received_on cs : forall q tc st tn,
  negb (tc && negb tn) && negb st = true ->
  fold_left (fun q c => add_received tc st tn c q) cs q = q ++ cs.
Proof.
  induction cs as [|c cs IH]; intros q tc st tn H; cbn [fold_left]; [symmetry; apply app_nil_r|].
  rewrite IH by exact H. unfold add_received.
  apply andb_true_iff in H. destruct H as [H1 H2]. apply negb_true_iff in H1, H2. rewrite H1, H2.
  rewrite <- app_assoc. reflexivity.
Qed.

Lemma fold_add_received_off cs : forall q tc st tn,
  negb (tc && negb tn) && negb st = false ->
  fold_left (fun q c => add_received tc st tn c q) cs q = q.
Proof.
  induction cs as [|c cs IH]; intros q tc st tn H; cbn [fold_left]; [reflexivity|].
  rewrite <- (IH q tc st tn H) at 2. f_equal. unfold add_received.
  destruct (tc && negb tn); [reflexivity|]. destruct st; [reflexivity|discriminate].
Qed.

(* the queue of the transfer holds the delivered bytes, or nothing when they are to be ignored *)
Theorem pump_transfer_unread B tc st tn evs :
  unread (pump_transfer B tc st tn evs) =
  if negb (tc && negb tn) && negb st then delivered true evs else [].
Proof.
  unfold unread, pump_transfer. cbn [concat app].
  destruct (negb (tc && negb tn) && negb st) eqn:E.
  - rewrite fold_add_received_on by exact E. apply pump_reads_concat.
  - rewrite fold_add_received_off by exact E. reflexivity.
Qed.

Theorem pump_filter_unread B tc st evs :
  unread (pump_filter B tc st evs) =
  if negb tc && negb st then delivered false evs else [].
Proof.
  unfold unread, pump_filter. cbn [concat app].
  destruct (negb tc && negb st) eqn:E.
  - rewrite fold_add_received_on by (cbn [negb]; rewrite andb_true_r; exact E). apply pump_reads_concat.
  - rewrite fold_add_received_off by (cbn [negb]; rewrite andb_true_r; exact E). reflexivity.
Qed.

(* lines and blocks read through the pump = reference parse of the delivered bytes:
   independent of how the source segmented them *)
Theorem pump_transfer_reference B tc st tn evs ops :
  run ops (pump_transfer B tc st tn evs) =
  ref_run ops (if negb (tc && negb tn) && negb st then delivered true evs else []).
Proof. rewrite run_flat. f_equal. apply pump_transfer_unread. Qed.

Theorem pump_filter_reference B tc st evs ops :
  run ops (pump_filter B tc st evs) =
  ref_run ops (if negb tc && negb st then delivered false evs else []).
Proof. rewrite run_flat. f_equal. apply pump_filter_unread. Qed.

Theorem pump_transfer_independent B1 B2 tc st tn evs1 evs2 ops :
  delivered true evs1 = delivered true evs2 ->
  run ops (pump_transfer B1 tc st tn evs1) = run ops (pump_transfer B2 tc st tn evs2).
Proof. intros H. rewrite !pump_transfer_reference, H. reflexivity. Qed.

(* a relay pump either parks a chunk for the handshake or forwards it: never both, never neither *)
Theorem pump_relay_conserves B hs tc tn evs :
  unread (fst (pump_relay B hs tc tn evs)) ++ concat (snd (pump_relay B hs tc tn evs)) = delivered true evs.
Proof.
  unfold pump_relay, unread. destruct (add_handshake hs tc tn); cbn [fst snd concat app].
  - rewrite app_nil_r. apply pump_reads_concat.
  - apply pump_reads_concat.
Qed.

Theorem pump_relay_reference B hs tc tn evs ops :
  add_handshake hs tc tn = true ->
  run ops (fst (pump_relay B hs tc tn evs)) = ref_run ops (delivered true evs) /\
  snd (pump_relay B hs tc tn evs) = [].
Proof.
  intros H. unfold pump_relay. rewrite H. cbn [fst snd]. split; [|reflexivity].
  rewrite run_flat. cbn [concat app]. rewrite pump_reads_concat. reflexivity.
Qed.

(* the generated buffer sizes are usable *)
Lemma pump_buf_sizes_positive :
  (0 < transfer_buf_size /\ 0 < filter_buf_size /\ 0 < relay_stdin_buf_size /\
   0 < relay_stdout_buf_size /\ 0 < tunnel_in_buf_size /\ 0 < tunnel_out_buf_size)%nat.
Proof.
  unfold transfer_buf_size, filter_buf_size, relay_stdin_buf_size, relay_stdout_buf_size,
    tunnel_in_buf_size, tunnel_out_buf_size.
  assert (P: forall n, (0 < n)%N -> (0 < N.to_nat n)%nat) by (intros n Hn; lia).
  repeat split; apply P; reflexivity.
Qed.
