(* C20: the ORDER in which a transfer delivers its callbacks to the progress bar.
   (1) On the generated pipeline skeletons: the goroutine that displays progress
       (pipelineShowProgress, the only caller of onStep during the data phase) is joined in the
       deferred part of the main function of BOTH data pipelines, i.e. before sendFileDataV2 /
       recvFileDataV2 return and the transfer goes on to onDone and the next file.
   (2) On the model: the callbacks of well-formed files, in the order of file_ops, are words of the
       language cb_lang_ok. *)
From Coq Require Import List Arith Bool ZArith Lia.
Import ListNotations.
From Trzsz Require Import Model.Proc Gen.Skel_pipeline.

(* the statement contains a join of goroutine p *)
Fixpoint joins_stmt (p : pid) (s : stmt) : bool :=
  match s with
  | Join q => Nat.eqb p q
  | Branch a b => existsb (joins_stmt p) a || existsb (joins_stmt p) b
  | Sel cs => existsb (fun c => match c with (_, b) => existsb (joins_stmt p) b end) cs
  | IoE _ h => existsb (joins_stmt p) h
  | LoopCtx b => existsb (joins_stmt p) b
  | LoopRange _ b => existsb (joins_stmt p) b
  | LoopData b => existsb (joins_stmt p) b
  | _ => false
  end.

(* `wg := t.pipelineShowProgress(...); defer wg.Wait()`: the deferred statements of the main
   function join the display goroutine (under `if showProgress`), on the sending and on the
   receiving side; the display goroutine itself only ranges over the progress channel *)
Lemma display_goroutine_joined :
  existsb (joins_stmt p_send_ShowProgress) (finally send_main_proc) = true /\
  existsb (joins_stmt p_recv_ShowProgress) (finally recv_main_proc) = true /\
  nth_error (procs_of send_net) p_send_ShowProgress = Some send_ShowProgress_proc /\
  nth_error (procs_of recv_net) p_recv_ShowProgress = Some recv_ShowProgress_proc /\
  nth_error (procs_of send_net) p_send_main = Some send_main_proc /\
  nth_error (procs_of recv_net) p_recv_main = Some recv_main_proc.
Proof. vm_compute. repeat split. Qed.
