(* C05, second part: the drag-and-drop episode as a life cycle (drop, the 300 ms window, ctrl-C,
   the 200 ms during which output is dropped, the upload command, the 3 s bookkeeping) and what
   is left behind when it is called off or runs to its end; typed input while a transfer owns
   the streams; a redisplayed trigger (composition with the detector model of C06). *)
From Trzsz Require Import Base.Bytes Gen.Consts Model.Filter Model.FilterDet Proofs.Filter.
From Trzsz Require Model.Detector Proofs.Detector.
Local Open Scope N_scope.

Section FilterDragProofs.
  Variable dstate : Type.
  Variable trigger : Type.
  Variable detect : dstate -> list N -> (list N * option trigger) * dstate.
  Variable trig_prompts : trigger -> bool.
  Variable zmodem_detect : list N -> bool.
  Variable zstate : Type.
  Variable zm_init : list N -> zstate.
  Variable zm_handle : zstate -> list N -> bool * zstate.
  Variable zm_busy : zstate -> bool.
  Variable zm_stop : zstate -> zstate.
  Variable drag_detect : list N -> dres.
  Variable msg_on msg_off : list N.
  Variable is_stop_key : list N -> bool.
  Variable o : opts.

  Notation state := (state dstate zstate).
  Notation run := (run dstate trigger detect trig_prompts zmodem_detect zstate zm_init zm_handle zm_busy zm_stop drag_detect msg_on msg_off is_stop_key o).
  Notation in_step := (in_step dstate zstate zm_busy zm_stop drag_detect is_stop_key o).

  Ltac idle_fields Hi :=
    apply (idle_calm dstate zstate) in Hi;
    let Ht := fresh "Ht" in let Hz := fresh "Hz" in let Hp := fresh "Hp" in let Hin := fresh "Hin" in
    let Hk := fresh "Hk" in let Hd := fresh "Hd" in let Hh := fresh "Hh" in let Hb := fresh "Hb" in
    destruct Hi as ((Ht & Hz & Hp & Hin & Hk & Hd & Hh & _) & Hb).

  (* a drop, then within the 300 ms window a chunk that is not a path list: the chunk reaches
     the server, the upload goroutine finds nothing to do, NOTHING else is written and the
     wrapper is idle again - in particular [interrupting] is not left set *)
  Theorem drag_called_off : forall (s : state) c1 c2 fs hd s' ob,
    idle s = true -> detect_on s = true ->
    d_files (drag_detect c1) = Some (fs, hd) ->
    d_files (drag_detect c2) = None -> d_win (drag_detect c2) = false -> d_ignore (drag_detect c2) = false ->
    run s [EvIn c1; EvIn c2; EvDrag 0] = (s', ob) ->
    ob = [ToServer c2] /\ idle s' = true.
  Proof.
    intros s c1 c2 fs hd s' ob Hi Hon Hf1 Hf2 Hw2 Hg2 Hr.
    idle_fields Hi.
    destruct s as [tr zm pr prs ton intr sk cc os don dg dhd dfs hld dt dps hs]; cbn in *; subst.
    unfold Filter.in_step, Filter.drag_verdict, add_drag, reset_drag, Filter.drag_step in Hr.
    destruct (o_zmodem o); destruct dfs as [old|]; cbn in Hr; rewrite ?andb_false_r, Hf1 in Hr; cbn in Hr;
      rewrite ?andb_false_r, ?Hf2, ?Hw2, ?Hg2 in Hr; cbn in Hr;
      rewrite ?andb_false_r, ?Hf2, ?Hw2, ?Hg2 in Hr; cbn in Hr;
      inversion Hr; subst; split; reflexivity.
  Qed.
  (* a drop and nothing else: ctrl-C after 300 ms, the upload command 200 ms later, the
     bookkeeping ends 3 s later.  Exactly these two writes reach the server; what is left behind
     is the echo-suppression flag with the command (C05_skip_pending: the next output chunk
     clears it), everything else is idle again *)
  Theorem drag_upload_completes : forall (s : state) c1 fs hd s' ob,
    idle s = true -> detect_on s = true -> drag_files s = None ->
    d_files (drag_detect c1) = Some (fs, hd) ->
    run s [EvIn c1; EvDrag 0; EvDrag 0; EvDrag 0] = (s', ob) ->
    let cmd := (match o_cmd o with [] => drag_default_cmd | c => c end) ++
               (if (if hd then true else drag_has_dir s) && negb (o_cmd_not_trz o) then drag_dir_flag else []) in
    ob = [ToServer [drag_interrupt_byte]; ToServer (cmd ++ drag_cmd_end)] /\
    skip_cmd s' = true /\ cur_cmd s' = Some cmd /\ idle (set_skip_cmd false s') = true /\
    dragging s' = false /\ drag_files s' = None.
  Proof.
    intros s c1 fs hd s' ob Hi Hon Hdf Hf1 Hr.
    idle_fields Hi.
    destruct s as [tr zm pr prs ton intr sk cc os don dg dhd dfs hld dt dps hs]; cbn in *; subst.
    unfold Filter.in_step, Filter.drag_verdict, add_drag, reset_drag, Filter.drag_step in Hr.
    destruct (o_zmodem o); cbn -[Filter.drag_command] in Hr; rewrite ?andb_false_r, Hf1 in Hr;
      lazy beta iota zeta delta -[Filter.drag_command app] in Hr; inversion Hr; subst; clear Hr;
      unfold Filter.drag_command; cbn [drag_has_dir]; repeat split; reflexivity.
  Qed.

  (* while a transfer owns the streams a dropped path list is a key like any other: it is
     swallowed, it starts no drag upload and touches none of the drag state *)
  Theorem typed_during_transfer : forall (s : state) c s' ob,
    transfer s = true -> in_step s c = (s', ob) ->
    ob = [] /\ transfer s' = true /\
    dragging s' = dragging s /\ drag_files s' = drag_files s /\ drag_procs s' = drag_procs s /\
    interrupting s' = interrupting s /\ skip_cmd s' = skip_cmd s /\ held s' = held s.
  Proof.
    intros s c s' ob Ht Hs. unfold Filter.in_step in Hs. rewrite Ht in Hs.
    destruct (p_set (prompt s)).
    - injection Hs as E1 E2. rewrite <- E1, <- E2. repeat split; auto.
    - destruct (is_stop_key c && prompts s); injection Hs as E1 E2; rewrite <- E1, <- E2;
        destruct s; cbn in *; repeat split; auto.
  Qed.
  (* ---------------------------------------------------------------------------------- *)
  (* the 200 ms after the client's own ctrl-C (drag upload or UploadFiles API): detection   *)
  (* comes BEFORE the drop                                                                  *)

  Notation out_step := (out_step dstate trigger detect trig_prompts zmodem_detect zstate zm_init zm_handle msg_on msg_off o).
  Notation out_pump := (out_pump dstate trigger detect trig_prompts zmodem_detect zstate zm_init zm_handle zm_busy zm_stop drag_detect msg_on msg_off is_stop_key o).
  Notation step := (step dstate trigger detect trig_prompts zmodem_detect zstate zm_init zm_handle zm_busy zm_stop drag_detect msg_on msg_off is_stop_key o).
  Notation trace_fires := (trace_fires dstate zstate o).

  (* what is shown of the chunks of the window, and how many transfers they start: exactly the
     chunks on which the detector fires, as rewritten by the detector *)
  Notation window_shown := (FilterDet.window_shown dstate trigger detect).

  Definition in_window (s : state) : Prop :=
    transfer s = false /\ zmodem s = None /\ interrupting s = true.

  Lemma out_step_window : forall (s : state) c b t d' s' ob,
    in_window s -> trace_fires s c = false -> detect (det s) c = ((b, t), d') ->
    out_step s c = (s', ob) ->
    term_writes ob = (match t with Some _ => [b] | None => [] end) /\ server_writes ob = [] /\
    handlers s' = handlers s ++ (match t with Some _ => [HChoosing] | None => [] end) /\
    in_window s' /\ det s' = d' /\ trace_on s' = trace_on s /\
    drag_procs s' = drag_procs s /\ drag_has_dir s' = drag_has_dir s /\ skip_cmd s' = skip_cmd s /\
    dragging s' = dragging s /\ drag_files s' = drag_files s /\ prompt s' = prompt s /\ held s' = held s.
  Proof.
    intros s c b t d' s' ob (Ht & Hz & Hi) Htr Hd Hs.
    unfold Filter.out_step in Hs. rewrite Ht in Hs.
    assert (Htl : Filter.trace_log dstate zstate msg_on msg_off o s c = (c, s)).
    { unfold Filter.trace_log. unfold Filter.trace_fires in Htr.
      destruct (o_trace o); cbn in Htr; auto. destruct (trace_on s); rewrite Htr; reflexivity. }
    rewrite Htl in Hs.
    assert (Hzm : Filter.out_zmodem dstate zstate zm_handle o s c = inr (s, [])).
    { unfold Filter.out_zmodem. rewrite Hz. destruct (o_zmodem o); reflexivity. }
    rewrite Hzm in Hs. unfold Filter.out_detect in Hs.
    destruct (if o_osc52 o then detect_osc52 (osc s) c else (osc s, [])) as [q cl].
    assert (Hdet : det (set_osc q s) = det s) by (destruct s; reflexivity).
    rewrite Hdet, Hd in Hs.
    destruct t as [t|].
    - inversion Hs; subst s' ob; clear Hs. cbn [app].
      rewrite term_writes_app, server_writes_app, term_writes_clips, server_writes_clips.
      unfold in_window. destruct s; cbn in *. repeat split; auto.
    - unfold Filter.out_forward in Hs.
      assert (Hi' : interrupting (set_det d' (set_osc q s)) = true) by (destruct s; cbn in *; auto).
      rewrite Hi' in Hs. inversion Hs; subst s' ob; clear Hs. cbn [app].
      rewrite term_writes_clips, server_writes_clips, app_nil_r.
      unfold in_window. destruct s; cbn in *. repeat split; auto.
  Qed.

  (* every list of chunks arriving inside the window *)
  Theorem window_out : forall cs (s s' : state) ob,
    in_window s -> Forall (fun c => trace_fires s c = false) cs ->
    out_pump s cs = (s', ob) ->
    term_writes ob = fst (window_shown (det s) cs) /\ server_writes ob = [] /\
    handlers s' = handlers s ++ repeat HChoosing (snd (window_shown (det s) cs)) /\
    in_window s' /\
    drag_procs s' = drag_procs s /\ drag_has_dir s' = drag_has_dir s /\ skip_cmd s' = skip_cmd s /\
    dragging s' = dragging s /\ drag_files s' = drag_files s /\ prompt s' = prompt s /\ held s' = held s.
  Proof.
    unfold Filter.out_pump.
    induction cs as [|c cs IH]; intros s s' ob Hw Hq Hr.
    - cbn in Hr. inversion Hr; subst. cbn. rewrite app_nil_r. repeat split; auto; apply Hw.
    - cbn [map Filter.run] in Hr.
      destruct (step s (EvOut c)) as [s1 o1] eqn:Hs1. cbn [Filter.step] in Hs1.
      destruct (Filter.run dstate trigger detect trig_prompts zmodem_detect zstate zm_init zm_handle zm_busy zm_stop
                  drag_detect msg_on msg_off is_stop_key o s1 (map EvOut cs)) as [s2 o2] eqn:Hr2.
      inversion Hr; subst s' ob; clear Hr.
      inversion Hq as [|c0 cs0 Hq1 Hq2]; subst.
      destruct (detect (det s) c) as [[b t] d'] eqn:Hd.
      destruct (out_step_window s c b t d' s1 o1 Hw Hq1 Hd Hs1)
        as (T1 & S1 & H1 & W1 & D1 & Tr1 & P1 & A1 & K1 & G1 & F1 & Pr1 & Hl1).
      assert (Hq2' : Forall (fun c => trace_fires s1 c = false) cs).
      { eapply Forall_impl; [|exact Hq2]. intros a Ha. unfold Filter.trace_fires in *. rewrite Tr1. exact Ha. }
      destruct (IH s1 s2 o2 W1 Hq2' Hr2) as (T2 & S2 & H2 & W2 & P2 & A2 & K2 & G2 & F2 & Pr2 & Hl2).
      cbn [window_shown]. rewrite Hd. rewrite D1 in *.
      destruct (window_shown d' cs) as [sh n]. cbn [fst snd] in *.
      rewrite term_writes_app, server_writes_app, T1, S1, T2, S2, H2, H1.
      repeat split; try congruence; try apply W2.
      + destruct t; reflexivity.
      + destruct t; cbn [repeat app snd]; rewrite <- ?app_assoc; reflexivity.
  Qed.

  (* the window ends: the upload goroutine clears the flag and types its command *)
  Theorem window_ends : forall (s s' : state) ob rest,
    drag_procs s = DInterrupt :: rest ->
    step s (EvDrag 0) = (s', ob) ->
    ob = [ToServer (drag_command dstate zstate o s ++ drag_cmd_end)] /\
    interrupting s' = false /\ skip_cmd s' = true /\ cur_cmd s' = Some (drag_command dstate zstate o s) /\
    drag_procs s' = DCmd :: rest /\ handlers s' = handlers s /\ transfer s' = transfer s.
  Proof.
    intros s s' ob rest Hp Hs. cbn [Filter.step] in Hs. unfold Filter.drag_step in Hs.
    rewrite Hp in Hs. cbn [nth_error] in Hs. inversion Hs; subst; clear Hs.
    destruct s; cbn in *. subst. repeat split; reflexivity.
  Qed.

  (* how the window opens: a drop (after its 300 ms), or the UploadFiles API (at once) *)
  Theorem window_opens_drag : forall (s : state) c1 fs hd s' ob,
    idle s = true -> detect_on s = true -> drag_files s = None ->
    d_files (drag_detect c1) = Some (fs, hd) ->
    run s [EvIn c1; EvDrag 0] = (s', ob) ->
    ob = [ToServer [drag_interrupt_byte]] /\ in_window s' /\ drag_procs s' = [DInterrupt] /\
    handlers s' = [] /\ det s' = det s /\ trace_on s' = trace_on s.
  Proof.
    intros s c1 fs hd s' ob Hi Hon Hdf Hf1 Hr.
    idle_fields Hi.
    destruct s as [tr zm pr prs ton intr sk cc os don dg dhd dfs hld dt dps hs]; cbn in *; subst.
    unfold Filter.in_step, Filter.drag_verdict, add_drag, Filter.drag_step in Hr.
    destruct (o_zmodem o); cbn in Hr; rewrite ?andb_false_r, Hf1 in Hr;
      lazy beta iota zeta delta -[app] in Hr; inversion Hr; subst; clear Hr;
      unfold in_window; cbn; repeat split; reflexivity.
  Qed.

  Theorem window_opens_api : forall (s : state) fs hd s' ob,
    idle s = true -> dragging s = false -> drag_files s = None ->
    run s [EvApiUpload fs hd; EvDrag 0] = (s', ob) ->
    ob = [ToServer [drag_interrupt_byte]] /\ in_window s' /\ drag_procs s' = [DInterrupt] /\
    handlers s' = [] /\ det s' = det s /\ trace_on s' = trace_on s.
  Proof.
    intros s fs hd s' ob Hi Hdg Hdf Hr.
    idle_fields Hi.
    destruct s as [tr zm pr prs ton intr sk cc os don dg dhd dfs hld dt dps hs]; cbn in *; subst.
    unfold add_drag, Filter.drag_step in Hr.
    lazy beta iota zeta delta -[app] in Hr. inversion Hr; subst; clear Hr.
    unfold in_window; cbn; repeat split; reflexivity.
  Qed.
End FilterDragProofs.

(* ------------------------------------------------------------------------------------ *)
(* a trigger that is displayed AGAIN (scroll-back, cat of a typescript, a tmux redraw):     *)
(* composition with the detector model of C06.  wrapOutput owns a client-mode detector      *)
(* (newTrzszDetector(false, false)); without a tunnel connector it is called with           *)
(* tunnel = false.                                                                           *)

Import Trzsz.Model.Detector.

(* C06_silent, in the shape the filter theorems need *)
Lemma c05_client_detect_silent : forall winenv m c c' m',
  c05_client_detect winenv m c = ((c', None), m') -> c' = c.
Proof.
  intros winenv m c c' m' H. unfold c05_client_detect in H.
  destruct (Trzsz.Model.Detector.detect winenv (c05_client_det m) false c) as [[out t] d'] eqn:E.
  inversion H; subst. apply Trzsz.Proofs.Detector.silent in E. destruct E as (_ & E). exact E.
Qed.

(* the flags of a detector never change *)
Lemma c05_hist_client : forall winenv calls d acc,
  hist_run winenv (new_det false false) calls = (d, acc) -> d = c05_client_det (d_map d).
Proof.
  intros winenv calls. unfold hist_run.
  assert (G : forall calls d0 acc0 d acc, d0 = c05_client_det (d_map d0) ->
            fold_left (hist_step winenv) calls (d0, acc0) = (d, acc) -> d = c05_client_det (d_map d)).
  { induction calls0 as [|c calls0 IH]; intros d0 acc0 d acc H0 H; cbn [fold_left] in H.
    - inversion H; subst; exact H0.
    - destruct (hist_step winenv (d0, acc0) c) as [d1 acc1] eqn:E. eapply IH; [|exact H].
      unfold hist_step in E. cbn [fst snd] in E.
      destruct (Trzsz.Model.Detector.detect winenv d0 (fst c) (snd c)) as [[o1 t1] d1'] eqn:Ed.
      inversion E; subst d1'; clear E.
      destruct (Trzsz.Proofs.Detector.detect_table _ _ _ _ _ _ _ Ed) as [[_ ->]|(tr & _ & Hrep)]; [exact H0|].
      (* a firing call replaces the table only *)
      unfold Trzsz.Model.Detector.detect in Ed.
      repeat match type of Ed with
             | (if ?b then _ else _) = _ => destruct b; [try (inversion Ed; subst; exact H0)|]
             | (if ?b then _ else _) = _ => destruct b; [|try (inversion Ed; subst; exact H0)]
             | match ?x with _ => _ end = _ => destruct x; try (inversion Ed; subst; exact H0)
             | (let (_, _) := ?x in _) = _ => destruct x
             end.
      all: try (inversion Ed; subst; rewrite H0; reflexivity). }
  intros d acc H. eapply G; [|exact H]. reflexivity.
Qed.

(* After ANY sequence of detector calls (any number of earlier transfers): a chunk whose trigger
   carries a dedup-eligible id among the last 52 accepted ones - a redisplayed trigger of an
   earlier transfer; with isWindowsEnvironment() every id longer than 6 digits is eligible,
   ids ending in 00 included - is forwarded untouched, starts no handler and leaves the wrapper
   idle.  [C06_replay] says the detector stays silent, [C06_silent] that it then returns the
   chunk unchanged, the filter theorem does the rest. *)
Theorem redisplayed_trigger_inert :
  forall winenv calls d acc trig_prompts zmodem_detect zstate zm_init zm_handle (drag_detect : list N -> dres) msg_on msg_off o
         (s s' : state idmap zstate) c ob,
  hist_run winenv (new_det false false) calls = (d, acc) ->
  idle s = true -> Filter.det s = d_map d ->
  (forall out tr d', Trzsz.Model.Detector.detect winenv d false c = (out, Some tr, d') ->
     dedup_eligible winenv (t_id tr) = true /\ In (t_id tr) (firstn replay_window acc)) ->
  trace_fires idmap zstate o s c = false -> o_zmodem o && zmodem_detect c = false ->
  out_step idmap Trzsz.Model.Detector.trigger (c05_client_detect winenv) trig_prompts zmodem_detect zstate zm_init zm_handle
           msg_on msg_off o s c = (s', ob) ->
  term_writes ob = [c] /\ server_writes ob = [] /\ idle s' = true /\ handlers s' = [].
Proof.
  intros winenv calls d acc trig_prompts zmodem_detect zstate zm_init zm_handle drag_detect msg_on msg_off o
         s s' c ob Hrun Hi Hdet Hold Htr Hzm Hs.
  assert (Hq : quiet idmap Trzsz.Model.Detector.trigger (c05_client_detect winenv) zmodem_detect zstate drag_detect o s (EvOut c) = true).
  { cbn [Filter.quiet]. rewrite Htr, Hzm. cbn [negb andb].
    unfold c05_client_detect. rewrite Hdet. rewrite <- (c05_hist_client _ _ _ _ Hrun).
    destruct (Trzsz.Model.Detector.detect winenv d false c) as [[out t] d'] eqn:E. cbn [fst snd].
    destruct t as [tr|]; [|reflexivity]. exfalso.
    destruct (Hold _ _ _ eq_refl) as (He & Hin).
    exact (Trzsz.Proofs.Detector.replay _ _ _ _ _ _ Hrun _ _ _ _ _ E He Hin). }
  destruct (near_miss_idle idmap Trzsz.Model.Detector.trigger (c05_client_detect winenv) trig_prompts zmodem_detect zstate
              zm_init zm_handle drag_detect msg_on msg_off o (c05_client_detect_silent winenv) s s' c ob Hi Hq Hs)
    as (T & S & I).
  repeat split; auto.
  apply (idle_calm idmap zstate) in I. destruct I as ((_ & _ & _ & _ & _ & _ & H & _) & _). exact H.
Qed.
