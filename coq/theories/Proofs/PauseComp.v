(* C18: the composition theorem, on the abstract composition machine [astep] of Model/Pause.v. *)
From Trzsz Require Import Base.Bytes Gen.Consts Model.Pause.
From Coq Require Import Lia.
Local Open Scope nat_scope.

Fixpoint datas (q : list wline) : list nat :=
  match q with [] => [] | WLKeep :: q' => datas q' | WLData k :: q' => k :: datas q' end.

Lemma datas_app : forall a b, datas (a ++ b) = datas a ++ datas b.
Proof. induction a as [|[|k] a IH]; intros b; cbn; auto. rewrite IH. reflexivity. Qed.

Lemma first_data_none : forall q, first_data q = None -> datas q = [].
Proof. induction q as [|[|k] q IH]; cbn; intros H; auto; discriminate. Qed.

Lemma first_data_some : forall q k q', first_data q = Some (k, q') -> datas q = k :: datas q'.
Proof. induction q as [|[|k0] q IH]; cbn; intros k q' H; try discriminate; auto. inversion H; subst; reflexivity. Qed.

Section AbstractProofs.
Variables T' SL GL n W P : nat.
Let T := S T'.
Let cf := mkCfg T SL GL true.
Hypothesis HW : 1 <= W.
Hypothesis HSL : 1 <= SL.
Hypothesis HGL : 1 <= GL.
Hypothesis HP : P + Nat.max SL GL < T.

Definition written (p : csph) : nat := match p with CSGate k => k | CSIn k _ => k | CSPush k => S k | CSDone => n end.
Definition pushed (p : csph) : nat := match p with CSGate k => k | CSIn k _ => k | CSPush k => k | CSDone => n end.

(* some goroutine can move now and its move leads to the peer's reader being re-armed *)
Definition pend (a : ast) : bool :=
  match xS a with
  | CSGate _ => true
  | CSIn _ SPassed => true
  | CSPush _ => (xCnt a <? W) || (match xA a with AIdle => true | _ => false end)
  | _ => false
  end || match xR a with RIdle => true | _ => false end.

Definition elapsed (e : epi) : nat := match e with EpNone => 0 | EpPausing e => e | EpResumed e j => e + j end.

Definition sleeper_ok (e : epi) (j lim : nat) : Prop :=
  1 <= j <= lim /\ match e with EpNone => False | EpPausing _ => True | EpResumed _ i => j + i <= Nat.max SL GL end.

Record AInv (a : ast) : Prop := mkInv {
  i_bad : xBad a = false;
  i_c1 : xAcked a + xAq a = length (xDeliv a);
  i_c2 : pushed (xS a) = xAcked a + xCnt a + (match xA a with AIdle => 0 | _ => 1 end);
  i_c3 : xDeliv a ++ datas (xRq a) = seq 0 (written (xS a));
  i_c4 : xA a = ARead -> xAq a = 0;
  i_c5 : forall t, xR a = RRead t -> xRq a = [] /\ 1 <= t <= T /\ x_live n a = true;
  i_s1 : match xS a with CSGate k => k < n | CSIn k p => k < n /\ p <> SIdle | CSPush k => k < n | CSDone => True end;
  i_s2 : xCnt a <= W;
  i_p1 : xPausing a = true <-> exists e, xEp a = EpPausing e;
  i_p2s : forall k j, xS a = CSIn k (SSleep j) -> sleeper_ok (xEp a) j GL;
  i_p2a : forall j, xA a = AGate j -> sleeper_ok (xEp a) j SL;
  i_p3 : match xEp a with EpNone => True | EpPausing e => e <= P | EpResumed e j => e <= P /\ j < Nat.max SL GL end;
  i_t : x_live n a = true -> forall t, xR a = RRead t -> pend a = false -> T - t <= elapsed (xEp a) }.

Lemma written_le : forall a, AInv a -> written (xS a) <= n.
Proof. intros a H. pose proof (i_s1 a H) as Hs. destruct (xS a); cbn; try lia. Qed.

Lemma deliv_len : forall a, AInv a -> length (xDeliv a) + length (datas (xRq a)) = written (xS a).
Proof. intros a H. pose proof (i_c3 a H) as E. apply (f_equal (@length nat)) in E. rewrite app_length, seq_length in E. exact E. Qed.

(* the peer's reader is waiting, the transfer is not over and nothing can move: somebody is asleep *)
Lemma sleeper_exists : forall a t, AInv a -> x_live n a = true -> xR a = RRead t -> pend a = false ->
  (exists k j, xS a = CSIn k (SSleep j)) \/ (exists j, xA a = AGate j).
Proof.
  intros a t H Hl Hr Hp.
  pose proof (deliv_len a H) as Hd. destruct (i_c5 a H t Hr) as (Hq & _ & _). rewrite Hq in Hd. cbn in Hd.
  pose proof (i_c1 a H) as C1. pose proof (i_c2 a H) as C2. pose proof (i_c4 a H) as C4. pose proof (i_s1 a H) as S1.
  unfold x_live in Hl. apply Nat.ltb_lt in Hl.
  unfold pend in Hp. rewrite Hr in Hp. rewrite Bool.orb_false_r in Hp.
  destruct (xS a) as [k|k p|k|] eqn:ES; cbn in *; try discriminate.
  - destruct p as [|j|]; try discriminate; [destruct S1; congruence|]. left; eauto.
  - apply Bool.orb_false_iff in Hp. destruct Hp as (Hc & Ha). apply Nat.ltb_ge in Hc.
    destruct (xA a) as [|j|] eqn:EA; try discriminate; [right; eauto|].
    rewrite (C4 eq_refl) in C1. lia.
  - lia.
Qed.

Ltac crush :=
  repeat match goal with
         | |- _ /\ _ => split
         | |- _ <-> _ => split
         | H : _ /\ _ |- _ => destruct H
         | H : exists _, _ |- _ => destruct H
         | H : _ <-> _ |- _ => destruct H
         end; intros; subst; try discriminate; try congruence; try lia; eauto.

Ltac open_inv a H :=
  destruct a as [pa ap aq ak sp cnt rp rq dl bad ep];
  destruct H as [Hbad C1 C2 C3 C4 C5 S1 S2 P1 P2s P2a P3 Ti];
  cbn [xPausing xA xAq xAcked xS xCnt xR xRq xDeliv xBad xEp] in *.

Lemma inv_init : AInv (ainit n).
Proof.
  unfold ainit. constructor; cbn [xPausing xA xAq xAcked xS xCnt xR xRq xDeliv xBad xEp]; auto; try (intros; discriminate).
  - destruct n eqn:En; cbn; lia.
  - destruct n eqn:En; cbn; try rewrite En; reflexivity.
  - destruct n eqn:En; cbn; auto; lia.
  - lia.
  - split; [discriminate|intros (e & He); discriminate].
  - destruct n eqn:En; intros; discriminate.
Qed.

Lemma step_pause : forall a a', AInv a -> astep cf n W P a XPause = Some a' -> AInv a'.
Proof.
  intros a a' H Hs. open_inv a H. cbn in Hs.
  destruct ep as [|e|e j]; inversion Hs; subst; clear Hs; constructor;
    cbn [xPausing xA xAq xAcked xS xCnt xR xRq xDeliv xBad xEp x_flags ep_pause pend x_live] in *; auto.
  - split; eauto.
  - intros k j E. destruct (P2s k j E) as (? & []).
  - intros j E. destruct (P2a j E) as (? & []).
  - lia.
  - split; eauto.
Qed.

Lemma step_resume : forall a a', AInv a -> astep cf n W P a XResume = Some a' -> AInv a'.
Proof.
  intros a a' H Hs. open_inv a H. cbn in Hs.
  destruct ep as [|e|e j]; try discriminate. destruct pa; inversion Hs; subst; clear Hs; constructor;
    cbn [xPausing xA xAq xAcked xS xCnt xR xRq xDeliv xBad xEp x_flags elapsed] in *; auto.
  - split; [discriminate|intros (e0 & He); discriminate].
  - intros k j E. destruct (P2s k j E) as (? & _). split; [auto|lia].
  - intros j E. destruct (P2a j E) as (? & _). split; [auto|lia].
  - lia.
  - intros Hl t Hr Hp. specialize (Ti Hl t Hr Hp). lia.
Qed.
Ltac flds := cbn [xPausing xA xAq xAcked xS xCnt xR xRq xDeliv xBad xEp] in *.

Lemma step_spush : forall a a', AInv a -> astep cf n W P a XSPush = Some a' -> AInv a'.
Proof.
  intros a a' H Hs. open_inv a H. unfold astep in Hs; flds.
  destruct sp as [k|k p|k|]; try discriminate. destruct (cnt <? W) eqn:Ec; [|discriminate]. apply Nat.ltb_lt in Ec.
  inversion Hs; subst; clear Hs.
  destruct (S k <? n) eqn:En; [apply Nat.ltb_lt in En | apply Nat.ltb_ge in En]; constructor;
    unfold x_setS, x_setCnt; flds; cbn [pushed written] in *; auto; try lia; try (intros; discriminate).
  - assert (S k = n) by lia. congruence.
  - intros Hl t Hr Hp. exfalso. destruct (C5 t Hr) as (Hq & _ & _). subst rq. cbn [datas] in C3. rewrite app_nil_r in C3.
    unfold x_live in Hl; cbn in Hl. apply Nat.ltb_lt in Hl. rewrite C3, seq_length in Hl. lia.
Qed.
Ltac unf := repeat (progress unfold x_acall, x_aread, x_setA, x_setCnt, x_setS, x_setR, x_rcall, x_rarrive, x_deliver, x_ack, x_gate, x_flags, x_bad in * ).

Lemma step_atake : forall a a', AInv a -> astep cf n W P a XATake = Some a' -> AInv a'.
Proof.
  intros a a' H Hs. open_inv a H. unfold astep in Hs; flds.
  destruct ap; try discriminate. destruct cnt as [|c]; try discriminate.
  inversion Hs; subst; clear Hs. unf; flds.
  destruct pa; [|destruct aq as [|q]]; flds; constructor; flds; cbn [pushed written] in *; auto; try lia; try (intros; discriminate).
  - intros j E. inversion E; subst. split; [lia|]. destruct (proj1 P1 eq_refl) as (e & ->). exact I.
  - intros Hl t Hr Hp. apply Ti; auto. unfold pend in *; flds. destruct sp as [k|k [|j|]|k|]; auto.
    destruct (c <? W) eqn:Ec; [discriminate|]. apply Nat.ltb_ge in Ec. lia.
  - intros Hl t Hr Hp. apply Ti; auto. unfold pend in *; flds. destruct sp as [k|k [|j|]|k|]; auto.
    destruct (c <? W) eqn:Ec; [discriminate|]. apply Nat.ltb_ge in Ec. lia.
  - intros Hl t Hr Hp. apply Ti; auto. unfold pend in *; flds. destruct sp as [k|k [|j|]|k|]; auto.
    destruct (c <? W) eqn:Ec; [discriminate|]. apply Nat.ltb_ge in Ec. lia.
Qed.
Lemma step_rcall : forall a a', AInv a -> astep cf n W P a XRCall = Some a' -> AInv a'.
Proof.
  intros a a' H Hs. open_inv a H. unfold astep in Hs; flds.
  destruct rp; try discriminate. destruct (x_live n _) eqn:Hlive; [|discriminate].
  inversion Hs; subst; clear Hs. unf; flds.
  destruct (first_data rq) as [[k q']|] eqn:Ef.
  - pose proof (first_data_some _ _ _ Ef) as Ed.
    destruct ap; flds; constructor; flds; cbn [pushed written] in *; auto; try lia; try (intros; discriminate);
      try (rewrite app_length; cbn; lia);
      try (rewrite <- app_assoc; cbn [app]; rewrite <- Ed; exact C3).
  - pose proof (first_data_none _ Ef) as Ed. rewrite Ed in C3.
    constructor; flds; cbn [pushed written datas] in *; auto; try lia; try (intros; discriminate).
    + intros t E. inversion E; subst. repeat split; auto; lia.
    + intros Hl t E Hp. inversion E; subst. unfold T. lia.
Qed.

Lemma step_scall : forall a a', AInv a -> astep cf n W P a XSCall = Some a' -> AInv a'.
Proof.
  intros a a' H Hs. open_inv a H. unfold astep in Hs; flds.
  destruct sp as [k|k p|k|]; try discriminate.
  inversion Hs; subst; clear Hs. unf; flds.
  destruct pa; [destruct rp as [|t]|]; flds; constructor; flds; cbn [pushed written] in *; auto; try lia; try (intros; discriminate).
  - rewrite datas_app. cbn. rewrite app_nil_r. exact C3.
  - split; [lia|discriminate].
  - intros k0 j E. inversion E; subst. split; [cbn; lia|]. destruct (proj1 P1 eq_refl) as (e & ->). exact I.
  - intros t0 E. inversion E; subst. destruct (C5 t eq_refl) as (? & ? & ?). repeat split; auto; cbn; lia.
  - split; [lia|discriminate].
  - intros k0 j E. inversion E; subst. split; [cbn; lia|]. destruct (proj1 P1 eq_refl) as (e & ->). exact I.
  - intros Hl t0 E Hp. inversion E; subst. cbn. lia.
  - split; [lia|discriminate].
Qed.

Lemma seq_snoc : forall k, seq 0 (S k) = seq 0 k ++ [k].
Proof. intros k. rewrite seq_S. reflexivity. Qed.

Lemma step_swrite : forall a a', AInv a -> astep cf n W P a XSWrite = Some a' -> AInv a'.
Proof.
  intros a a' H Hs. open_inv a H. unfold astep in Hs; flds.
  destruct sp as [k|k [|j|]|k|]; try discriminate.
  inversion Hs; subst; clear Hs. unf; flds. cbn [written pushed] in *.
  destruct rp as [|t]; [|destruct (C5 t eq_refl) as (Hq & Ht & Hlv); subst rq; destruct ap]; flds;
    constructor; flds; cbn [pushed written datas] in *; auto; try lia; try (intros; discriminate);
    try (rewrite app_length; cbn; lia).
  - rewrite datas_app. cbn [datas]. rewrite app_assoc, C3, seq_snoc. reflexivity.
  - rewrite app_nil_r in *. rewrite C3, seq_snoc. reflexivity.
  - rewrite app_nil_r in *. rewrite C3, seq_snoc. reflexivity.
  - rewrite app_nil_r in *. rewrite C3, seq_snoc. reflexivity.
Qed.
Ltac eqs :=
  repeat match goal with
         | H : AGate _ = AGate _ |- _ => inversion H; subst; clear H
         | H : RRead _ = RRead _ |- _ => inversion H; subst; clear H
         | H : CSIn _ _ = CSIn _ _ |- _ => inversion H; subst; clear H
         | H : EpPausing _ = EpPausing _ |- _ => inversion H; subst; clear H
         | H : @eq aph _ _ |- _ => discriminate H
         | H : @eq rph _ _ |- _ => discriminate H
         | H : @eq csph _ _ |- _ => discriminate H
         | H : @eq epi _ _ |- _ => discriminate H
         | H : @eq bool _ _ |- _ => discriminate H
         | H : exists _, _ |- _ => destruct H
         end.

Ltac pendh :=
  repeat match goal with
         | H : pend _ = false |- _ =>
           unfold pend in H; cbn [xS xCnt xA xR orb] in H; rewrite ?Bool.orb_true_r in H; cbn [orb] in H
         end.
Ltac fin :=
  intros; eqs; repeat split; intros; eqs;
  first [ solve [auto] | lia | discriminate
        | (unfold x_live; cbn [xDeliv]; apply Nat.ltb_lt; lia)
        | (pendh; eqs; first [lia | solve [eauto]]) | solve [eauto] | idtac ].

Lemma quiescent_props : forall a, x_quiescent n W a = true ->
  (match xS a with CSGate _ => False | CSIn _ SPassed => False | CSIn _ SIdle => False
              | CSPush _ => W <= xCnt a | _ => True end) /\
  (xR a = RIdle -> n <= length (xDeliv a)) /\ (xA a = AIdle -> xCnt a = 0).
Proof.
  intros a H. unfold x_quiescent, x_live in H.
  apply Bool.andb_true_iff in H. destruct H as (H & H3). apply Bool.andb_true_iff in H. destruct H as (H1 & H2).
  repeat split.
  - destruct (xS a) as [k|k [|j|]|k|]; try discriminate; auto. apply Nat.leb_le. exact H1.
  - intros E. rewrite E in H2. apply Bool.negb_true_iff in H2. apply Nat.ltb_ge in H2. exact H2.
  - intros E. rewrite E in H3. apply Bool.negb_true_iff in H3. apply Nat.ltb_ge in H3. lia.
Qed.

Ltac tick_eval Hs :=
  cbv [x_tickS x_tickA x_tickR x_acall x_aread x_setA x_setCnt x_setS x_setR x_rarrive x_deliver x_ack x_gate
       x_flags x_bad xPausing xA xAq xAcked xS xCnt xR xRq xDeliv xBad xEp cT cSL cGL cf] in Hs;
  inversion Hs; subst; clear Hs.

Lemma step_tick : forall a a', AInv a -> astep cf n W P a XTick = Some a' -> AInv a'.
Proof.
  intros a a' H Hs.
  pose proof (deliv_len a H) as DL. pose proof (written_le a H) as WL.
  assert (SE : forall t, x_live n a = true -> xR a = RRead t -> pend a = false ->
            (exists k j, xS a = CSIn k (SSleep j)) \/ (exists j, xA a = AGate j))
    by (intros t; apply sleeper_exists; exact H).
  unfold astep in Hs.
  destruct (x_quiescent n W a) eqn:Hq; [|discriminate]. cbn [andb] in Hs.
  destruct (quiescent_props a Hq) as (Q1 & Q2 & Q3). clear Hq.
  open_inv a H.
  unfold ep_tick, slack in Hs. cbn [cSL cGL cf] in Hs.
  unfold x_live, pend in Ti, SE; flds. unfold x_live in C5; flds.
  unfold sleeper_ok in *. destruct P1 as [P1a P1b].
  destruct (Nat.ltb_spec (length dl) n) as [Hlive|Hdead].
  2:{ (* the peer has everything: only our ack reader is still at work *)
    destruct rp as [|t]; [|destruct (C5 t eq_refl) as (_ & _ & X); discriminate].
    destruct sp as [k|k [|j|]|k|]; cbn [written pushed] in *; try contradiction; try lia.
    - destruct ap as [|j|]; [|pose proof (P2a j eq_refl); destruct j as [|[|j]]|];
        try (specialize (Q3 eq_refl)); try (specialize (C4 eq_refl));
        destruct ep as [|e|e i]; destruct pa;
        try (exfalso; destruct (P1a eq_refl) as (? & X); discriminate X);
        try (exfalso; assert (X : false = true) by (apply P1b; eauto); discriminate X);
        try (destruct (Nat.ltb_spec e P)); try discriminate;
        try (destruct (Nat.ltb_spec (S i) (Nat.max SL GL)));
        try (exfalso; lia);
        try (destruct aq as [|q]);
        tick_eval Hs;
        constructor; flds; cbn [pushed written datas elapsed] in *; fin.
    - destruct ap as [|j|]; [|pose proof (P2a j eq_refl); destruct j as [|[|j]]|];
        try (specialize (Q3 eq_refl)); try (specialize (C4 eq_refl));
        destruct ep as [|e|e i]; destruct pa;
        try (exfalso; destruct (P1a eq_refl) as (? & X); discriminate X);
        try (exfalso; assert (X : false = true) by (apply P1b; eauto); discriminate X);
        try (destruct (Nat.ltb_spec e P)); try discriminate;
        try (destruct (Nat.ltb_spec (S i) (Nat.max SL GL)));
        try (exfalso; lia);
        try (destruct aq as [|q]);
        tick_eval Hs;
        constructor; flds; cbn [pushed written datas elapsed] in *; fin. }
  (* the peer's reader is waiting *)
  destruct rp as [|t]; [specialize (Q2 eq_refl); lia|].
  destruct (C5 t eq_refl) as (Hrq & Ht & _). subst rq. cbn [datas length] in DL.
  destruct sp as [k|k [|j0|]|k|]; cbn [written pushed] in *; try contradiction; try lia.
  - (* our sender is asleep at the gate *)
    pose proof (P2s k j0 eq_refl) as PS. pose proof (Ti eq_refl t eq_refl eq_refl) as Tb.
    destruct j0 as [|[|j0]];
    (destruct ap as [|j|]; [|pose proof (P2a j eq_refl); destruct j as [|[|j]]|];
        try (specialize (Q3 eq_refl)); try (specialize (C4 eq_refl));
        destruct ep as [|e|e i]; destruct pa;
        try (exfalso; destruct (P1a eq_refl) as (? & X); discriminate X);
        try (exfalso; assert (X : false = true) by (apply P1b; eauto); discriminate X);
        try (destruct (Nat.ltb_spec e P)); try discriminate;
        try (destruct (Nat.ltb_spec (S i) (Nat.max SL GL)));
        try (exfalso; lia);
        try (destruct aq as [|q]);
        (destruct t as [|[|t]]; [exfalso; cbn [elapsed] in Tb; lia|exfalso; cbn [elapsed] in Tb; lia|]);
        tick_eval Hs;
        constructor; flds; cbn [pushed written datas elapsed] in *; fin).
  - (* our sender is blocked on the full ack channel *)
    destruct ap as [|j|]; [specialize (Q3 eq_refl); lia| |specialize (C4 eq_refl); lia].
    assert (Hp : (cnt <? W) || false || false = false) by (rewrite (proj2 (Nat.ltb_ge cnt W)) by lia; reflexivity).
    pose proof (Ti eq_refl t eq_refl Hp) as Tb. pose proof (P2a j eq_refl) as PA.
    destruct j as [|[|j]];
      destruct ep as [|e|e i]; destruct pa;
        try (exfalso; destruct (P1a eq_refl) as (? & X); discriminate X);
        try (exfalso; assert (X : false = true) by (apply P1b; eauto); discriminate X);
        try (destruct (Nat.ltb_spec e P)); try discriminate;
        try (destruct (Nat.ltb_spec (S i) (Nat.max SL GL)));
        try (exfalso; lia);
        try (destruct aq as [|q]);
        (destruct t as [|[|t]]; [exfalso; cbn [elapsed] in Tb; lia|exfalso; cbn [elapsed] in Tb; lia|]);
        tick_eval Hs;
        constructor; flds; cbn [pushed written datas elapsed] in *; fin.
Qed.

Lemma step_inv : forall x a a', AInv a -> astep cf n W P a x = Some a' -> AInv a'.
Proof.
  intros [] a a' H Hs.
  - eapply step_tick; eauto.
  - eapply step_pause; eauto.
  - eapply step_resume; eauto.
  - eapply step_scall; eauto.
  - eapply step_swrite; eauto.
  - eapply step_spush; eauto.
  - eapply step_rcall; eauto.
  - eapply step_atake; eauto.
Qed.

Lemma run_inv : forall xs a a', AInv a -> arun cf n W P a xs = Some a' -> AInv a'.
Proof.
  induction xs as [|x xs IH]; intros a a' H Hr; cbn [arun] in Hr.
  - inversion Hr; subst; exact H.
  - destruct (astep cf n W P a x) as [a1|] eqn:E; [|discriminate]. eapply IH; [|exact Hr]. eapply step_inv; eauto.
Qed.

Lemma firstn_app_exact : forall (l r : list nat), firstn (length l) (l ++ r) = l.
Proof. intros l r. rewrite firstn_app, firstn_all, Nat.sub_diag. cbn [firstn]. apply app_nil_r. Qed.

Lemma prefix_of_seq : forall (l1 l2 : list nat) w, l1 ++ l2 = seq 0 w -> l1 = seq 0 (length l1).
Proof.
  intros l1 l2 w E.
  assert (Hl : length l1 <= w).
  { apply (f_equal (@length nat)) in E. rewrite app_length, seq_length in E. lia. }
  replace w with (length l1 + (w - length l1)) in E by lia. rewrite seq_app in E.
  apply (f_equal (firstn (length l1))) in E. rewrite firstn_app_exact in E.
  rewrite E at 1. replace (length l1) with (length (seq 0 (length l1))) at 1 by apply seq_length.
  apply firstn_app_exact.
Qed.

(* THE COMPOSITION THEOREM (abstract machine).  For every schedule of the goroutines' moves, ticks, pause
   requests and resumes in which every episode of pausing lasts at most P ticks, P + one sleep < Timeout:
   nobody reports an error (in particular no timeout on either side), the peer's reader has been handed
   exactly the frames 0, 1, 2, ... in order (what it gets without any pause), and whenever nothing can
   move and no pause episode is open the transfer is complete: all n frames delivered and acknowledged. *)
Theorem short_pause_completes_abs : forall xs a, arun cf n W P (ainit n) xs = Some a ->
  xBad a = false /\ xDeliv a = seq 0 (length (xDeliv a)) /\ length (xDeliv a) <= n /\ (x_quiescent n W a = true -> xEp a = EpNone -> xDeliv a = seq 0 n /\ xAcked a = n).
Proof.
  intros xs a Hr. pose proof (run_inv xs _ _ inv_init Hr) as H.
  pose proof (deliv_len a H) as DL. pose proof (written_le a H) as WL.
  split; [exact (i_bad a H)|]. split; [exact (prefix_of_seq _ _ _ (i_c3 a H))|]. split; [lia|].
  intros Hq He.
  destruct (quiescent_props a Hq) as (Q1 & Q2 & Q3).
  pose proof (i_c1 a H) as C1. pose proof (i_c2 a H) as C2. pose proof (i_c4 a H) as C4.
  pose proof (i_p2s a H) as P2s. pose proof (i_p2a a H) as P2a. rewrite He in P2s, P2a.
  assert (Hn : length (xDeliv a) = n).
  { destruct (Nat.ltb_spec (length (xDeliv a)) n) as [Hl|Hl]; [|lia]. exfalso.
    destruct (xR a) as [|t] eqn:ER; [specialize (Q2 eq_refl); lia|].
    assert (Hp : pend a = false).
    { unfold pend. rewrite ER. destruct (xS a) as [k|k [|j|]|k|]; try contradiction; auto.
      destruct (xA a) eqn:EA; [specialize (Q3 eq_refl)|..]; rewrite (proj2 (Nat.ltb_ge _ _)) by lia; auto. lia. }
    assert (Hlv : x_live n a = true) by (apply Nat.ltb_lt; exact Hl).
    destruct (sleeper_exists a t H Hlv ER Hp) as [(k & j & E)|(j & E)].
    - destruct (P2s k j E) as (_ & []).
    - destruct (P2a j E) as (_ & []). }
  split.
  - rewrite (prefix_of_seq _ _ _ (i_c3 a H)), Hn. reflexivity.
  - pose proof (i_s1 a H) as S1. pose proof (i_s2 a H) as S2.
    destruct (xA a) as [|j|] eqn:EA.
    + specialize (Q3 eq_refl).
      destruct (xS a) as [k|k [|j|]|k|] eqn:ES; cbn [pushed written] in *; try contradiction; try lia.
    + destruct (P2a j eq_refl) as (_ & []).
    + specialize (C4 eq_refl). destruct (xS a) as [k|k p|k|]; cbn [pushed written] in *; lia.
Qed.

End AbstractProofs.
